#!/bin/bash
# (re)generate the Coq makefile from the .v files present and build given targets (default: all)
# Serialised by a lock so that concurrent checks never build the same .vo twice at once.
cd "$(dirname "$0")"
exec 9>.mk.lock
flock 9
{ echo "-Q . AP"; echo "-arg -w -arg -notation-overridden,-deprecated-hint-without-locality,-deprecated-instance-without-locality,-deprecated-syntactic-definition"; find Base Gen Model Proofs Props Corr -name '*.v' | sort; } > _CoqProject
coq_makefile -f _CoqProject -o Makefile.coq >/dev/null 2>&1
timeout ${COQ_TIMEOUT:-400} make -f Makefile.coq -j${COQ_JOBS:-16} "$@"
