(* Base/Sorting.v — insertion sort by a boolean "less or equal", with the facts the models need:
   it is a permutation, it is sorted when [leb] is total and transitive, and a sorted list is the
   unique sorted permutation when [leb] is antisymmetric (so any correct sort — e.g. Rust's stable
   merge sort — returns the same list). *)
From Coq Require Import List Bool Sorting.Sorted Sorting.Permutation.
Import ListNotations.

Section Sort.
  Context {A : Type} (leb : A -> A -> bool).

  Fixpoint insert (x : A) (l : list A) : list A :=
    match l with
    | [] => [x]
    | y :: r => if leb x y then x :: l else y :: insert x r
    end.

  Fixpoint isort (l : list A) : list A :=
    match l with
    | [] => []
    | x :: r => insert x (isort r)
    end.

  Lemma insert_perm x l : Permutation (x :: l) (insert x l).
  Proof.
    induction l as [|y r IH]; simpl; [apply Permutation_refl|].
    destruct (leb x y); [apply Permutation_refl|].
    eapply Permutation_trans; [apply perm_swap|]. apply perm_skip, IH.
  Qed.

  Lemma isort_perm l : Permutation l (isort l).
  Proof.
    induction l as [|x r IH]; simpl; [apply Permutation_refl|].
    eapply Permutation_trans; [apply perm_skip, IH|]. apply insert_perm.
  Qed.

  Definition le (x y : A) : Prop := leb x y = true.

  Hypothesis leb_total : forall x y, leb x y = true \/ leb y x = true.
  Hypothesis leb_trans : forall x y z, leb x y = true -> leb y z = true -> leb x z = true.

  Lemma insert_sorted x l : StronglySorted le l -> StronglySorted le (insert x l).
  Proof.
    induction l as [|y r IH]; intros Hs; simpl.
    - constructor; constructor.
    - inversion Hs as [|y' r' Hr Hall]; subst.
      destruct (leb x y) eqn:Hxy.
      + constructor; [exact Hs|]. constructor; [exact Hxy|].
        eapply Forall_impl; [|exact Hall]. intros z Hz. unfold le in *. eapply leb_trans; eauto.
      + constructor; [apply IH, Hr|].
        assert (Hyx : leb y x = true) by (destruct (leb_total x y) as [H|H]; congruence).
        eapply Permutation_Forall; [apply insert_perm|]. constructor; assumption.
  Qed.

  Lemma isort_sorted l : StronglySorted le (isort l).
  Proof. induction l as [|x r IH]; simpl; [constructor|]. apply insert_sorted, IH. Qed.

  Lemma sorted_perm_unique l1 : forall l2,
    (forall x y, In x l1 -> In y l1 -> leb x y = true -> leb y x = true -> x = y) ->
    StronglySorted le l1 -> StronglySorted le l2 -> Permutation l1 l2 -> l1 = l2.
  Proof.
    induction l1 as [|x r IH]; intros l2 Hanti H1 H2 Hp.
    - apply Permutation_nil in Hp. congruence.
    - destruct l2 as [|y r2]; [apply Permutation_sym, Permutation_nil in Hp; discriminate|].
      inversion H1 as [|? ? Hr1 Hall1]; subst. inversion H2 as [|? ? Hr2 Hall2]; subst.
      assert (Hxy : x = y).
      { assert (Hin1 : In x (y :: r2)) by (eapply Permutation_in; [exact Hp|left; reflexivity]).
        assert (Hin2 : In y (x :: r))
          by (eapply Permutation_in; [apply Permutation_sym, Hp|left; reflexivity]).
        destruct Hin1 as [->|Hin1]; [reflexivity|]. destruct Hin2 as [->|Hin2]; [reflexivity|].
        rewrite Forall_forall in Hall1, Hall2.
        apply Hanti; [left; reflexivity|right; exact Hin2|apply Hall1, Hin2|apply Hall2, Hin1]. }
      subst y. f_equal. apply IH; try assumption.
      + intros a b Ha Hb. apply Hanti; right; assumption.
      + eapply Permutation_cons_inv, Hp.
  Qed.

  Theorem isort_unique l l' :
    (forall x y, In x l -> In y l -> leb x y = true -> leb y x = true -> x = y) ->
    Permutation l l' -> StronglySorted le l' -> isort l = l'.
  Proof.
    intros Hanti Hp Hs. apply sorted_perm_unique; [|apply isort_sorted|exact Hs|].
    - intros x y Hx Hy. apply Hanti; eapply Permutation_in; try eassumption;
        apply Permutation_sym, isort_perm.
    - eapply Permutation_trans; [apply Permutation_sym, isort_perm|exact Hp].
  Qed.
End Sort.

Lemma insert_ext {A} (leb leb' : A -> A -> bool) x l :
  (forall y, In y l -> leb x y = leb' x y) -> insert leb x l = insert leb' x l.
Proof.
  induction l as [|y r IH]; intros H; simpl; [reflexivity|].
  rewrite <- (H y) by (left; reflexivity). destruct (leb x y); [reflexivity|].
  f_equal. apply IH. intros z Hz. apply H. right. exact Hz.
Qed.

Lemma isort_ext {A} (leb leb' : A -> A -> bool) l :
  (forall x y, In x l -> In y l -> leb x y = leb' x y) -> isort leb l = isort leb' l.
Proof.
  induction l as [|x r IH]; intros H; simpl; [reflexivity|].
  rewrite IH by (intros a b Ha Hb; apply H; right; assumption).
  apply insert_ext. intros y Hy. apply H; [left; reflexivity|].
  right. eapply Permutation_in; [apply Permutation_sym, isort_perm|exact Hy].
Qed.
