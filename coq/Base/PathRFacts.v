(* Base/PathRFacts.v — lemmas about Base/PathR.v *)
From AP Require Import Base.Str Base.StrFacts Base.PathR.
From Coq Require Import Lia.
Open Scope N_scope.

(* ---------- split_on ---------- *)

Lemma split_on_nonempty c x : split_on c x <> [].
Proof.
  induction x as [|a r IH]; simpl; [discriminate|].
  destruct (a =? c); [discriminate|]. destruct (split_on c r); discriminate.
Qed.

Lemma split_on_app_sep c a : forall b, split_on c (a ++ c :: b) = split_on c a ++ split_on c b.
Proof.
  induction a as [|x a IH]; intros b; simpl.
  - rewrite N.eqb_refl. reflexivity.
  - destruct (x =? c) eqn:E.
    + rewrite IH. reflexivity.
    + rewrite IH. destruct (split_on c a) as [|h t] eqn:Ea; [exfalso; eapply split_on_nonempty; eauto|].
      reflexivity.
Qed.

Lemma split_on_no_sep c q : ~ In c q -> split_on c q = [q].
Proof.
  induction q as [|a r IH]; intros H; simpl; [reflexivity|].
  destruct (a =? c) eqn:E.
  - apply N.eqb_eq in E. subst. exfalso. apply H. left. reflexivity.
  - rewrite IH; [reflexivity|]. intros Hin. apply H. right. exact Hin.
Qed.

Lemma split_on_join c (l : list str) :
  l <> [] -> Forall (fun n => ~ In c n) l -> split_on c (Str.join [c] l) = l.
Proof.
  induction l as [|a r IH]; intros Hne Hall; [congruence|].
  inversion Hall as [|? ? Ha Hr]; subst.
  destruct r as [|b r'].
  - simpl. apply split_on_no_sep. exact Ha.
  - change (Str.join [c] (a :: b :: r')) with (a ++ c :: Str.join [c] (b :: r')).
    rewrite split_on_app_sep. rewrite (split_on_no_sep c a Ha).
    rewrite IH; [reflexivity|discriminate|exact Hr].
Qed.

(* ---------- push / components ---------- *)

Definition raw_comps (p : str) : list comp := flat_map piece_comp (split_on 47 p).

Lemma components_abs p : is_abs p = true -> components p = CRoot :: raw_comps p.
Proof. intros H. unfold components. rewrite H. reflexivity. Qed.

Lemma is_abs_app p x : p <> [] -> is_abs (p ++ x) = is_abs p.
Proof. destruct p; [congruence|reflexivity]. Qed.

Lemma ends_slash_inv p : ends_slash p = true -> exists p', p = p' ++ [47].
Proof.
  unfold ends_slash. destruct (rev p) as [|c r] eqn:E; [discriminate|].
  intros H. apply N.eqb_eq in H. subst c. exists (rev r).
  rewrite <- (rev_involutive p), E. reflexivity.
Qed.

Lemma piece_comp_nil : piece_comp [] = [].
Proof. reflexivity. Qed.

(* components of (a ++ "/" ++ q) for a non-empty a *)
Lemma components_app_sep a q : a <> [] ->
  components (a ++ 47 :: q) = components a ++ raw_comps q.
Proof.
  intros Ha. unfold components, raw_comps. rewrite is_abs_app by exact Ha.
  rewrite split_on_app_sep.
  destruct (is_abs a).
  - rewrite flat_map_app. reflexivity.
  - destruct (split_on 47 a) as [|c r] eqn:Es; [exfalso; eapply split_on_nonempty; eauto|].
    cbn [app]. destruct (str_eqb c dot) eqn:Ed.
    + rewrite flat_map_app. reflexivity.
    + change (c :: r ++ split_on 47 q) with ((c :: r) ++ split_on 47 q). rewrite flat_map_app. reflexivity.
Qed.

(* a trailing separator does not change the components *)
Lemma components_trailing_sep a : a <> [] -> components (a ++ [47]) = components a.
Proof.
  intros Ha. rewrite components_app_sep by exact Ha. unfold raw_comps. simpl. apply app_nil_r.
Qed.

Lemma components_push p q : p <> [] -> is_abs q = false ->
  components (push p q) = components p ++ raw_comps q.
Proof.
  intros Hp Hq. unfold push. rewrite Hq.
  destruct p as [|x p']; [congruence|]. cbn [is_empty].
  destruct (ends_slash (x :: p')) eqn:Es.
  - destruct (ends_slash_inv _ Es) as [a Ea]. rewrite Ea.
    destruct a as [|y a'].
    + (* p = "/" *) cbn [app]. rewrite !components_abs by reflexivity.
      unfold raw_comps. cbn [split_on]. rewrite N.eqb_refl. reflexivity.
    + rewrite <- app_assoc. simpl app at 2.
      rewrite components_app_sep by discriminate.
      rewrite components_trailing_sep by discriminate. reflexivity.
  - apply components_app_sep. discriminate.
Qed.

Lemma push_nonempty p q : p <> [] -> push p q <> [].
Proof.
  intros Hp. unfold push. destruct (is_abs q) eqn:Ea.
  - destruct q; [discriminate|discriminate].
  - destruct p as [|x p']; [congruence|]. cbn [is_empty]. destruct (ends_slash (x :: p')); discriminate.
Qed.

(* ---------- safe segments append Normal components only ---------- *)

Lemma piece_comp_normal c : str_eqb c dotdot = false -> Forall (fun x => is_normal x = true) (piece_comp c).
Proof.
  intros H. unfold piece_comp. destruct (is_empty c); [constructor|].
  destruct (str_eqb c dot); [constructor|]. rewrite H. constructor; [reflexivity|constructor].
Qed.

Lemma seg_safe_rel q : seg_safe q = true -> is_abs q = false.
Proof. unfold seg_safe. intros H. apply andb_true_iff in H as [H _]. destruct (is_abs q); [discriminate|reflexivity]. Qed.

Lemma seg_safe_normal q : seg_safe q = true -> Forall (fun x => is_normal x = true) (raw_comps q).
Proof.
  unfold seg_safe, raw_comps. intros H. apply andb_true_iff in H as [_ H].
  rewrite forallb_forall in H. apply Forall_forall. intros x Hx.
  apply in_flat_map in Hx as [c [Hc Hx]]. specialize (H c Hc).
  assert (E : str_eqb c dotdot = false) by (destruct (str_eqb c dotdot); [discriminate|reflexivity]).
  pose proof (piece_comp_normal c E) as Hn. rewrite Forall_forall in Hn. apply Hn. exact Hx.
Qed.

(* the destination root.join(s1)…join(sn) *)
Lemma components_fold_push segs : forall p, p <> [] -> Forall (fun q => seg_safe q = true) segs ->
  fold_left push segs p <> [] /\
  exists ns, components (fold_left push segs p) = components p ++ ns /\ Forall (fun x => is_normal x = true) ns /\
             ns = flat_map raw_comps segs.
Proof.
  induction segs as [|q r IH]; intros p Hp Hall; simpl.
  - split; [exact Hp|]. exists []. rewrite app_nil_r. repeat split; constructor.
  - inversion Hall as [|? ? Hq Hr]; subst.
    destruct (IH (push p q) (push_nonempty p q Hp) Hr) as [Hne [ns [Hc [Hn Hf]]]].
    split; [exact Hne|]. exists (raw_comps q ++ ns). split; [|split].
    + rewrite Hc, components_push by (try exact Hp; apply seg_safe_rel; exact Hq). rewrite app_assoc. reflexivity.
    + apply Forall_app. split; [apply seg_safe_normal; exact Hq|exact Hn].
    + rewrite Hf. reflexivity.
Qed.

(* ---------- equality tests ---------- *)

Lemma comp_eqb_eq a b : comp_eqb a b = true <-> a = b.
Proof.
  destruct a, b; simpl; split; intros H; try reflexivity; try discriminate.
  - apply str_eqb_eq in H. congruence.
  - inversion H. apply str_eqb_refl.
Qed.

Lemma comps_eqb_eq a : forall b, comps_eqb a b = true <-> a = b.
Proof.
  induction a as [|x a IH]; intros [|y b]; simpl; split; intros H; try reflexivity; try discriminate.
  - apply andb_true_iff in H as [H1 H2]. apply comp_eqb_eq in H1. apply IH in H2. congruence.
  - inversion H; subst. apply andb_true_iff. split; [apply comp_eqb_eq; reflexivity|apply IH; reflexivity].
Qed.

Lemma comps_eqb_refl a : comps_eqb a a = true.
Proof. apply comps_eqb_eq. reflexivity. Qed.

(* ---------- strip_prefix / lexnorm / inside ---------- *)

Lemma strip_prefix_c_app r x : strip_prefix_c r (r ++ x) = Some x.
Proof.
  induction r as [|a r IH]; simpl; [reflexivity|].
  assert (E : comp_eqb a a = true) by (apply comp_eqb_eq; reflexivity). rewrite E. exact IH.
Qed.

Lemma strip_prefix_c_some r : forall p x, strip_prefix_c r p = Some x -> p = r ++ x.
Proof.
  induction r as [|a r IH]; intros p x H; simpl in *.
  - congruence.
  - destruct p as [|c p']; [discriminate|]. destruct (comp_eqb a c) eqn:E; [|discriminate].
    apply comp_eqb_eq in E. subst c. f_equal. apply IH. exact H.
Qed.

Lemma lexnorm_acc_normals ns : forall st, Forall (fun x => is_normal x = true) ns ->
  lexnorm_acc st ns = rev st ++ ns.
Proof.
  induction ns as [|c r IH]; intros st H; simpl.
  - rewrite app_nil_r. reflexivity.
  - inversion H as [|? ? Hc Hr]; subst. destruct c; try discriminate.
    rewrite IH by exact Hr. simpl. rewrite <- app_assoc. reflexivity.
Qed.

Lemma lexnorm_acc_app a : forall st ns, Forall (fun x => is_normal x = true) ns ->
  lexnorm_acc st (a ++ ns) = lexnorm_acc st a ++ ns.
Proof.
  induction a as [|c r IH]; intros st ns H.
  - simpl app. rewrite lexnorm_acc_normals by exact H. reflexivity.
  - simpl app. destruct c; cbn [lexnorm_acc]; try (apply IH; exact H).
    destruct st as [|[| | |n] st']; apply IH; exact H.
Qed.

Lemma lexnorm_app_normals a ns : Forall (fun x => is_normal x = true) ns ->
  lexnorm (a ++ ns) = lexnorm a ++ ns.
Proof. apply lexnorm_acc_app. Qed.

Lemma inside_c_app_normals r ns : Forall (fun x => is_normal x = true) ns -> inside_c r (r ++ ns) = true.
Proof.
  intros H. unfold inside_c. rewrite lexnorm_app_normals by exact H. rewrite strip_prefix_c_app. reflexivity.
Qed.

(* a containing root at least as deep as [a] leaves a suffix of the normal tail *)
Lemma strip_prefix_deeper b : forall a ns rest,
  strip_prefix_c b (a ++ ns) = Some rest -> (length a <= length b)%nat ->
  exists k, rest = skipn k ns.
Proof.
  induction b as [|x b IH]; intros a ns rest H Hlen.
  - destruct a; [|simpl in Hlen; lia]. simpl in H. inversion H. exists 0%nat. reflexivity.
  - destruct a as [|y a'].
    + simpl app in H. simpl in H. destruct ns as [|c ns']; [discriminate|].
      destruct (comp_eqb x c); [|discriminate].
      destruct (IH [] ns' rest H) as [k Hk]; [simpl; lia|]. exists (S k). exact Hk.
    + simpl in H. destruct (comp_eqb x y); [|discriminate].
      apply (IH a' ns rest H). simpl in Hlen. lia.
Qed.

Lemma Forall_skipn {A} (P : A -> Prop) k : forall l, Forall P l -> Forall P (skipn k l).
Proof.
  induction k as [|k IH]; intros l H; simpl; [exact H|].
  destruct l; [constructor|]. inversion H; subst. apply IH. assumption.
Qed.

(* ---------- order on components (for dedup_roots) ---------- *)

Lemma comp_compare_eq a b : comp_compare a b = Eq <-> a = b.
Proof.
  destruct a, b; simpl; split; intros H; try reflexivity; try discriminate.
  - apply str_compare_eq in H. congruence.
  - inversion H. apply str_compare_refl.
Qed.

Lemma comp_compare_antisym a b : comp_compare b a = CompOpp (comp_compare a b).
Proof.
  destruct a, b; simpl; try reflexivity. apply str_compare_antisym.
Qed.

Lemma comp_compare_trans_lt a b c :
  comp_compare a b = Lt -> comp_compare b c = Lt -> comp_compare a c = Lt.
Proof.
  destruct a, b, c; simpl; intros H1 H2; try discriminate; try reflexivity.
  eapply str_compare_trans_lt; eauto.
Qed.

Lemma comps_compare_eq a : forall b, comps_compare a b = Eq <-> a = b.
Proof.
  induction a as [|x a IH]; intros [|y b]; simpl; split; intros H; try reflexivity; try discriminate.
  - destruct (comp_compare x y) eqn:E; try discriminate. apply comp_compare_eq in E. apply IH in H. congruence.
  - inversion H; subst. assert (E : comp_compare y y = Eq) by (apply comp_compare_eq; reflexivity).
    rewrite E. apply IH. reflexivity.
Qed.

Lemma comps_compare_antisym a : forall b, comps_compare b a = CompOpp (comps_compare a b).
Proof.
  induction a as [|x a IH]; intros [|y b]; simpl; try reflexivity.
  rewrite (comp_compare_antisym x y). destruct (comp_compare x y); simpl; auto.
Qed.

Lemma comps_compare_trans_lt a : forall b c,
  comps_compare a b = Lt -> comps_compare b c = Lt -> comps_compare a c = Lt.
Proof.
  induction a as [|x a IH]; intros [|y b] [|z c]; simpl; intros H1 H2; try discriminate; try reflexivity.
  destruct (comp_compare x y) eqn:Exy; try discriminate.
  - apply comp_compare_eq in Exy. subst y. destruct (comp_compare x z); try discriminate; try reflexivity.
    eapply IH; eauto.
  - destruct (comp_compare y z) eqn:Eyz; try discriminate.
    + apply comp_compare_eq in Eyz. subst z. rewrite Exy. reflexivity.
    + rewrite (comp_compare_trans_lt _ _ _ Exy Eyz). reflexivity.
Qed.
