(* Base/PathR.v — Unix paths as Rust's std::path sees them (render side: C12 / C03).
   A path is its RAW string (what PathBuf stores and to_string_lossy prints); equality and order
   are those of [Path]: by COMPONENTS (Path::components drops empty pieces and non-leading ".",
   keeps ".."), which is what BTreeMap<TargetPath,_>, strip_prefix and dedup_by use.
   Definitions only; lemmas in Base/PathRFacts.v. *)
From AP Require Import Base.Str.
Open Scope N_scope.

Inductive comp := CRoot | CCur | CParent | CNormal (n : str).

Definition dot : str := [46].
Definition dotdot : str := [46; 46].

Definition is_abs (p : str) : bool := match p with c :: _ => c =? 47 | [] => false end.
Definition ends_slash (p : str) : bool := match rev p with c :: _ => c =? 47 | [] => false end.

(* PathBuf::push / Path::join on Unix: an absolute argument replaces the buffer; otherwise a
   separator is added unless the buffer is empty or already ends with one. *)
Definition push (p q : str) : str :=
  if is_abs q then q
  else if is_empty p then q
  else if ends_slash p then p ++ q else p ++ 47 :: q.

Definition piece_comp (c : str) : list comp :=
  if is_empty c then [] else if str_eqb c dot then [] else if str_eqb c dotdot then [CParent] else [CNormal c].

(* Path::components *)
Definition components (p : str) : list comp :=
  let ps := split_on 47 p in
  if is_abs p then CRoot :: flat_map piece_comp ps
  else match ps with
       | c :: r => if str_eqb c dot then CCur :: flat_map piece_comp r else flat_map piece_comp ps
       | [] => []
       end.

Definition comp_eqb (a b : comp) : bool :=
  match a, b with
  | CRoot, CRoot | CCur, CCur | CParent, CParent => true
  | CNormal x, CNormal y => str_eqb x y
  | _, _ => false
  end.

(* derived Ord of std::path::Component: RootDir < CurDir < ParentDir < Normal(bytes) *)
Definition comp_rank (a : comp) : N :=
  match a with CRoot => 0 | CCur => 1 | CParent => 2 | CNormal _ => 3 end.

Definition comp_compare (a b : comp) : comparison :=
  match a, b with
  | CNormal x, CNormal y => str_compare x y
  | _, _ => comp_rank a ?= comp_rank b
  end.

Fixpoint comps_eqb (a b : list comp) : bool :=
  match a, b with
  | [], [] => true
  | x :: a', y :: b' => comp_eqb x y && comps_eqb a' b'
  | _, _ => false
  end.

(* Iterator::cmp: lexicographic, a proper prefix is smaller *)
Fixpoint comps_compare (a b : list comp) : comparison :=
  match a, b with
  | [], [] => Eq
  | [], _ => Lt
  | _, [] => Gt
  | x :: a', y :: b' => match comp_compare x y with Eq => comps_compare a' b' | c => c end
  end.

Definition path_eqb (p q : str) : bool := comps_eqb (components p) (components q).

(* Path::strip_prefix, on component lists *)
Fixpoint strip_prefix_c (root p : list comp) : option (list comp) :=
  match root, p with
  | [], _ => Some p
  | r :: root', c :: p' => if comp_eqb r c then strip_prefix_c root' p' else None
  | _ :: _, [] => None
  end.

(* lexical resolution of ".." (what the kernel does when no symlink is involved); the stack is kept
   reversed.  "/.." is "/"; a ".." that cannot be resolved in a relative path is kept. *)
Fixpoint lexnorm_acc (stack : list comp) (cs : list comp) : list comp :=
  match cs with
  | [] => rev stack
  | CParent :: r =>
    match stack with
    | CNormal _ :: st => lexnorm_acc st r
    | CRoot :: _ => lexnorm_acc stack r
    | _ => lexnorm_acc (CParent :: stack) r
    end
  | c :: r => lexnorm_acc (c :: stack) r
  end.

Definition lexnorm (cs : list comp) : list comp := lexnorm_acc [] cs.

(* [inside root p]: after resolving ".." lexically, p lies in the directory root (or is it) *)
Definition inside_c (root p : list comp) : bool :=
  match strip_prefix_c (lexnorm root) (lexnorm p) with Some _ => true | None => false end.

Definition inside (root p : str) : bool := inside_c (components root) (components p).

Definition is_normal (c : comp) : bool := match c with CNormal _ => true | _ => false end.

(* a string that, pushed onto a non-empty path, only appends Normal components:
   relative and without ".." pieces *)
Definition seg_safe (q : str) : bool :=
  negb (is_abs q) && forallb (fun c => negb (str_eqb c dotdot)) (split_on 47 q).

(* rendering of a relative component list with "/" (Path::to_string_lossy of a stripped path) *)
Definition comp_str (c : comp) : str :=
  match c with CRoot => [47] | CCur => dot | CParent => dotdot | CNormal n => n end.

Definition render_rel (cs : list comp) : str := Str.join [47] (map comp_str cs).
