(* Base/Str.v — strings as lists of Unicode scalar values (N), with the Rust std operations the
   agentpack decision core uses.  Definitions only (lemmas live in Base/StrFacts.v). *)
From Coq Require Export Ascii String List NArith Bool.
Export ListNotations.
Open Scope N_scope.

Definition str := list N.

(* ---------- literals: Coq [string] (bytes) -> code points, via a UTF-8 decoder ---------- *)

Fixpoint bytes_of_string (x : string) : list N :=
  match x with
  | EmptyString => []
  | String a r => N_of_ascii a :: bytes_of_string r
  end.

(* Decoder for well-formed UTF-8 (the harness only ever emits well-formed literals; ill-formed
   input is passed to the model as explicit numeral lists).  Continuation bytes that are missing
   are treated as 0: totalisation only, never reached from the harness. *)
Fixpoint utf8_decode_fuel (fuel : nat) (bs : list N) : list N :=
  match fuel with
  | O => []
  | S f =>
    match bs with
    | [] => []
    | b :: r =>
      if b <? 128 then b :: utf8_decode_fuel f r
      else if b <? 224 then
        match r with
        | c1 :: r' => ((b - 192) * 64 + (c1 - 128)) :: utf8_decode_fuel f r'
        | _ => [b]
        end
      else if b <? 240 then
        match r with
        | c1 :: c2 :: r' => ((b - 224) * 4096 + (c1 - 128) * 64 + (c2 - 128)) :: utf8_decode_fuel f r'
        | _ => [b]
        end
      else
        match r with
        | c1 :: c2 :: c3 :: r' =>
          ((b - 240) * 262144 + (c1 - 128) * 4096 + (c2 - 128) * 64 + (c3 - 128)) :: utf8_decode_fuel f r'
        | _ => [b]
        end
    end
  end.

Definition utf8_decode (bs : list N) : list N := utf8_decode_fuel (length bs) bs.

Definition s (x : string) : str := utf8_decode (bytes_of_string x).

(* UTF-8 encoder (code points -> bytes), for byte lengths (Rust String::len / truncate). *)
Definition utf8_len1 (c : N) : N :=
  if c <? 128 then 1 else if c <? 2048 then 2 else if c <? 65536 then 3 else 4.

Definition utf8_len (x : str) : N := fold_right (fun c acc => utf8_len1 c + acc) 0 x.

(* ---------- equality / comparison ---------- *)

Fixpoint str_eqb (a b : str) : bool :=
  match a, b with
  | [], [] => true
  | x :: a', y :: b' => (x =? y) && str_eqb a' b'
  | _, _ => false
  end.

(* Lexicographic comparison by code point — equals Rust's byte-wise [str] ordering, because UTF-8
   preserves code point order. *)
Fixpoint str_compare (a b : str) : comparison :=
  match a, b with
  | [], [] => Eq
  | [], _ => Lt
  | _, [] => Gt
  | x :: a', y :: b' =>
    match x ?= y with
    | Eq => str_compare a' b'
    | c => c
    end
  end.

Definition str_ltb (a b : str) : bool := match str_compare a b with Lt => true | _ => false end.
Definition str_leb (a b : str) : bool := match str_compare a b with Gt => false | _ => true end.

(* ---------- prefix / suffix / search ---------- *)

Fixpoint starts_with (p x : str) : bool :=
  match p, x with
  | [], _ => true
  | a :: p', b :: x' => (a =? b) && starts_with p' x'
  | _ :: _, [] => false
  end.

Fixpoint strip_prefix (p x : str) : option str :=
  match p, x with
  | [], _ => Some x
  | a :: p', b :: x' => if a =? b then strip_prefix p' x' else None
  | _ :: _, [] => None
  end.

Definition ends_with (p x : str) : bool := starts_with (rev p) (rev x).

Definition strip_suffix (p x : str) : option str :=
  match strip_prefix (rev p) (rev x) with
  | Some r => Some (rev r)
  | None => None
  end.

Fixpoint contains (p x : str) : bool :=
  starts_with p x ||
  match x with
  | [] => false
  | _ :: x' => contains p x'
  end.

Definition mem_char (c : N) (x : str) : bool := existsb (N.eqb c) x.

(* ---------- character classes (Rust [char] methods) ---------- *)

(* char::is_whitespace: Unicode White_Space. *)
Definition is_ws (c : N) : bool :=
  ((9 <=? c) && (c <=? 13)) || (c =? 32) || (c =? 133) || (c =? 160) || (c =? 5760)
  || ((8192 <=? c) && (c <=? 8202)) || (c =? 8232) || (c =? 8233) || (c =? 8239)
  || (c =? 8287) || (c =? 12288).

Definition is_ascii_digit (c : N) : bool := (48 <=? c) && (c <=? 57).
Definition is_ascii_upper (c : N) : bool := (65 <=? c) && (c <=? 90).
Definition is_ascii_lower (c : N) : bool := (97 <=? c) && (c <=? 122).
Definition is_ascii_alnum (c : N) : bool := is_ascii_digit c || is_ascii_upper c || is_ascii_lower c.
Definition is_hex_lower (c : N) : bool := is_ascii_digit c || ((97 <=? c) && (c <=? 102)).

Definition ascii_lower (c : N) : N := if is_ascii_upper c then c + 32 else c.

(* ---------- trimming ---------- *)

Fixpoint drop_while (f : N -> bool) (x : str) : str :=
  match x with
  | [] => []
  | c :: r => if f c then drop_while f r else x
  end.

Definition trim_start_matches (f : N -> bool) (x : str) : str := drop_while f x.
Definition trim_end_matches (f : N -> bool) (x : str) : str := rev (drop_while f (rev x)).
Definition trim_matches (f : N -> bool) (x : str) : str :=
  trim_end_matches f (trim_start_matches f x).

Definition trim_start := trim_start_matches is_ws.
Definition trim_end := trim_end_matches is_ws.
Definition trim := trim_matches is_ws.

(* str::trim_end_matches(pat: &str): repeatedly strips the suffix.  Fuel = length. *)
Fixpoint trim_end_str_fuel (fuel : nat) (p x : str) : str :=
  match fuel with
  | O => x
  | S f =>
    match p with
    | [] => x
    | _ => match strip_suffix p x with
           | Some r => trim_end_str_fuel f p r
           | None => x
           end
    end
  end.
Definition trim_end_str (p x : str) : str := trim_end_str_fuel (length x) p x.

(* ---------- splitting ---------- *)

(* str::split(c): always yields at least one piece. *)
Fixpoint split_on (c : N) (x : str) : list str :=
  match x with
  | [] => [[]]
  | a :: r =>
    if a =? c then [] :: split_on c r
    else match split_on c r with
         | [] => [[a]]            (* unreachable *)
         | h :: t => (a :: h) :: t
         end
  end.

(* str::split_whitespace *)
Definition split_whitespace (x : str) : list str :=
  filter (fun p => negb (match p with [] => true | _ => false end))
         (fold_right (fun a acc =>
                        if is_ws a then [] :: acc
                        else match acc with
                             | [] => [[a]]
                             | h :: t => (a :: h) :: t
                             end) [[]] x).

(* str::split_inclusive('\n') *)
Fixpoint split_inclusive_nl (x : str) : list str :=
  match x with
  | [] => []
  | a :: r =>
    if a =? 10 then [a] :: split_inclusive_nl r
    else match split_inclusive_nl r with
         | [] => [[a]]
         | h :: t =>
           (* if r was empty we returned [] above; otherwise h continues the current line *)
           (a :: h) :: t
         end
  end.

(* str::lines(): split on '\n', strip one trailing '\r' of each line, no final empty line. *)
Definition strip_cr (l : str) : str :=
  match strip_suffix [13] l with Some r => r | None => l end.

Definition lines (x : str) : list str :=
  map (fun l => match strip_suffix [10] l with Some r => strip_cr r | None => l end)
      (split_inclusive_nl x).

(* ---------- joining ---------- *)

Fixpoint join (sep : str) (xs : list str) : str :=
  match xs with
  | [] => []
  | [a] => a
  | a :: r => a ++ sep ++ join sep r
  end.

Definition replace_char (from to : N) (x : str) : str :=
  map (fun c => if c =? from then to else c) x.

(* ---------- misc ---------- *)

Definition is_empty (x : str) : bool := match x with [] => true | _ => false end.

Fixpoint mem_str (a : str) (l : list str) : bool :=
  match l with
  | [] => false
  | b :: r => str_eqb a b || mem_str a r
  end.

Fixpoint firstn_bytes_fuel (budget : N) (x : str) : str :=
  match x with
  | [] => []
  | c :: r => if utf8_len1 c <=? budget then c :: firstn_bytes_fuel (budget - utf8_len1 c) r else []
  end.
