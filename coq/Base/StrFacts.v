(* Base/StrFacts.v — lemmas about Base/Str.v *)
From AP Require Import Base.Str.
From Coq Require Import Lia.
Open Scope N_scope.

Lemma str_eqb_refl a : str_eqb a a = true.
Proof. induction a as [|x a IH]; simpl; [reflexivity|]. rewrite N.eqb_refl, IH. reflexivity. Qed.

Lemma str_eqb_eq a : forall b, str_eqb a b = true <-> a = b.
Proof.
  induction a as [|x a IH]; intros [|y b]; simpl; split; intros H; try reflexivity; try discriminate.
  - apply andb_true_iff in H as [H1 H2]. apply N.eqb_eq in H1. apply IH in H2. congruence.
  - inversion H; subst. rewrite N.eqb_refl. apply str_eqb_refl.
Qed.

Lemma str_eqb_neq a b : str_eqb a b = false <-> a <> b.
Proof.
  split; intros H.
  - intros ->. rewrite str_eqb_refl in H. discriminate.
  - destruct (str_eqb a b) eqn:E; [apply str_eqb_eq in E; contradiction|reflexivity].
Qed.

Lemma str_eqb_sym a b : str_eqb a b = str_eqb b a.
Proof.
  destruct (str_eqb a b) eqn:E.
  - apply str_eqb_eq in E. subst. symmetry. apply str_eqb_refl.
  - symmetry. apply str_eqb_neq. apply str_eqb_neq in E. congruence.
Qed.

Lemma str_compare_refl a : str_compare a a = Eq.
Proof. induction a as [|x a IH]; simpl; [reflexivity|]. rewrite N.compare_refl. exact IH. Qed.

Lemma str_compare_eq a : forall b, str_compare a b = Eq <-> a = b.
Proof.
  induction a as [|x a IH]; intros [|y b]; simpl; split; intros H; try reflexivity; try discriminate.
  - destruct (x ?= y) eqn:E; try discriminate. apply N.compare_eq in E. apply IH in H. congruence.
  - inversion H; subst. rewrite N.compare_refl. apply str_compare_refl.
Qed.

Lemma str_compare_antisym a : forall b, str_compare b a = CompOpp (str_compare a b).
Proof.
  induction a as [|x a IH]; intros [|y b]; simpl; try reflexivity.
  rewrite (N.compare_antisym x y). destruct (x ?= y); simpl; auto.
Qed.

Lemma str_compare_trans_lt a : forall b c,
  str_compare a b = Lt -> str_compare b c = Lt -> str_compare a c = Lt.
Proof.
  induction a as [|x a IH]; intros [|y b] [|z c]; simpl; intros H1 H2; try discriminate; try reflexivity.
  destruct (x ?= y) eqn:Exy; try discriminate.
  - apply N.compare_eq in Exy. subst y. destruct (x ?= z) eqn:Exz; try discriminate; try reflexivity.
    eapply IH; eauto.
  - destruct (y ?= z) eqn:Eyz; try discriminate.
    + apply N.compare_eq in Eyz. subst z. rewrite Exy. reflexivity.
    + apply N.compare_lt_iff in Exy. apply N.compare_lt_iff in Eyz.
      assert (H : x < z) by (eapply N.lt_trans; eauto).
      apply N.compare_lt_iff in H. rewrite H. reflexivity.
Qed.

Lemma str_ltb_irrefl a : str_ltb a a = false.
Proof. unfold str_ltb. rewrite str_compare_refl. reflexivity. Qed.
