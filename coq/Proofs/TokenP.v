(* Proofs/TokenP.v — safety and exact-code theorems for Model/Token.v *)
From AP Require Import Base.Str Base.StrFacts Model.Token.
From Coq Require Import Lia.
Open Scope N_scope.

(* ---------- assoc-list facts ---------- *)

Lemma lookup_in t st e : lookup_tok t st = Some e -> In (t, e) st.
Proof.
  induction st as [|[k e'] r IH]; simpl; [discriminate|].
  destruct (str_eqb k t) eqn:E; intros H.
  - apply str_eqb_eq in E. inversion H; subst. left; reflexivity.
  - right. apply IH, H.
Qed.

Lemma lookup_none_notin t st : lookup_tok t st = None -> ~ In t (map fst st).
Proof.
  induction st as [|[k e'] r IH]; simpl; [tauto|].
  destruct (str_eqb k t) eqn:E; [discriminate|]. intros H [Hk|Hin].
  - subst. rewrite str_eqb_refl in E. discriminate.
  - apply IH; assumption.
Qed.

Lemma notin_lookup_none t st : ~ In t (map fst st) -> lookup_tok t st = None.
Proof.
  induction st as [|[k e'] r IH]; simpl; [reflexivity|]. intros H.
  destruct (str_eqb k t) eqn:E.
  - apply str_eqb_eq in E. subst. exfalso. apply H. left; reflexivity.
  - apply IH. tauto.
Qed.

Lemma filter_keys_subset (p : str * entry -> bool) st k :
  In k (map fst (filter p st)) -> In k (map fst st).
Proof.
  induction st as [|x r IH]; simpl; [tauto|]. destruct (p x); simpl; tauto.
Qed.

Lemma nodup_filter (p : str * entry -> bool) st :
  NoDup (map fst st) -> NoDup (map fst (filter p st)).
Proof.
  induction st as [|x r IH]; simpl; intros H; [constructor|].
  inversion H as [|? ? Hni Hnd]; subst. destruct (p x); simpl; [|apply IH, Hnd].
  constructor; [|apply IH, Hnd]. intros Hin. apply Hni. eapply filter_keys_subset, Hin.
Qed.

Lemma lookup_filter (p : str * entry -> bool) t st :
  NoDup (map fst st) ->
  lookup_tok t (filter p st) =
  match lookup_tok t st with
  | Some e => if p (t, e) then Some e else None
  | None => None
  end.
Proof.
  induction st as [|[k e] r IH]; simpl; intros Hnd; [reflexivity|].
  inversion Hnd as [|? ? Hni Hnd']; subst. simpl in Hni.
  destruct (str_eqb k t) eqn:E.
  - apply str_eqb_eq in E. subst k. destruct (p (t, e)) eqn:Ep; simpl.
    + rewrite str_eqb_refl. reflexivity.
    + apply notin_lookup_none. intros Hin. apply Hni. eapply filter_keys_subset, Hin.
  - destruct (p (k, e)); simpl; [rewrite E|]; apply IH, Hnd'.
Qed.

Lemma lookup_remove t t' st :
  NoDup (map fst st) ->
  lookup_tok t (remove_tok t' st) = if str_eqb t t' then None else lookup_tok t st.
Proof.
  intros Hnd. unfold remove_tok. rewrite lookup_filter by exact Hnd. cbn [fst].
  destruct (lookup_tok t st); destruct (str_eqb t t'); reflexivity.
Qed.

Lemma lookup_cleanup t now st :
  NoDup (map fst st) ->
  lookup_tok t (cleanup now st) =
  match lookup_tok t st with
  | Some e => if now <? e_expires e + ttl then Some e else None
  | None => None
  end.
Proof. intros Hnd. unfold cleanup. rewrite lookup_filter by exact Hnd. reflexivity. Qed.

Lemma remove_notin t st : ~ In t (map fst (remove_tok t st)).
Proof.
  unfold remove_tok. induction st as [|[k e] r IH]; simpl; [tauto|].
  destruct (str_eqb k t) eqn:E; simpl; [exact IH|].
  intros [H|H]; [subst; rewrite str_eqb_refl in E; discriminate|exact (IH H)].
Qed.

(* ---------- the specification state: live issues ---------- *)

Record issue := mkI { i_tok : str; i_b : binding; i_h : str; i_t : N }.

Definition drop_issue (t : str) (live : list issue) : list issue :=
  filter (fun i => negb (str_eqb (i_tok i) t)) live.

(* What "a token this server instance issued and no successful apply has consumed" means, as a
   function of the operation, the clock and the observable result [x] alone (the spec state): *)
Definition ghost (live : list issue) (st : sstate) (o : op) (x : out) : list issue :=
  match o, x with
  | Issue b fresh, OIssued _ h => mkI fresh b h (s_now st) :: drop_issue fresh live
  | Restart, _ => []
  | Apply tok _ _ _ _, OApplied | Apply tok _ _ _ _, ONoChanges =>
    match token_given tok with Some t => drop_issue t live | None => live end
  | _, _ => live
  end.

Definition fresh (st : sstate) (i : issue) : Prop := s_now st < i_t i + ttl.

Record Inv (st : sstate) (live : list issue) : Prop := {
  inv_nodup : NoDup (map fst (s_store st));
  inv_sound : forall t e, lookup_tok t (s_store st) = Some e ->
     exists i, In i live /\ i_tok i = t /\ e = mkE (i_b i) (i_h i) (i_t i + ttl);
  inv_complete : forall i, In i live -> fresh st i ->
     lookup_tok (i_tok i) (s_store st) = Some (mkE (i_b i) (i_h i) (i_t i + ttl));
  inv_time : forall i, In i live -> i_t i <= s_now st;
  inv_live_nodup : NoDup (map i_tok live) }.

Lemma inv_init f : Inv (init f) [].
Proof. split; simpl; try constructor; try discriminate; intros; contradiction. Qed.

Lemma in_drop i t live : In i (drop_issue t live) <-> In i live /\ i_tok i <> t.
Proof.
  unfold drop_issue. rewrite filter_In. split; intros [H1 H2]; split; auto.
  - apply negb_true_iff, str_eqb_neq in H2. exact H2.
  - apply negb_true_iff, str_eqb_neq. exact H2.
Qed.

Lemma nodup_drop t live : NoDup (map i_tok live) -> NoDup (map i_tok (drop_issue t live)).
Proof.
  unfold drop_issue. induction live as [|i r IH]; simpl; intros H; [constructor|].
  inversion H as [|? ? Hni Hnd]; subst. destruct (negb (str_eqb (i_tok i) t)); simpl; [|apply IH, Hnd].
  constructor; [|apply IH, Hnd]. intros Hin. apply Hni.
  apply in_map_iff in Hin as (j & Hj & Hin). apply in_map_iff. exists j. split; [exact Hj|].
  apply filter_In in Hin. tauto.
Qed.

Lemma live_unique live i j : NoDup (map i_tok live) -> In i live -> In j live -> i_tok i = i_tok j -> i = j.
Proof.
  induction live as [|k r IH]; simpl; intros Hnd Hi Hj E; [contradiction|].
  inversion Hnd as [|? ? Hni Hnd']; subst.
  destruct Hi as [->|Hi], Hj as [->|Hj]; try reflexivity.
  - exfalso. apply Hni. rewrite E. apply in_map, Hj.
  - exfalso. apply Hni. rewrite <- E. apply in_map, Hi.
  - apply IH; assumption.
Qed.

Lemma inv_cleanup st live :
  Inv st live -> Inv (mkS (cleanup (s_now st) (s_store st)) (s_now st) (s_plan st)) live.
Proof.
  intros [Hnd Hs Hc Ht Hl]. split; cbn [s_store s_now s_plan]; try assumption.
  - apply nodup_filter, Hnd.
  - intros t e. rewrite lookup_cleanup by exact Hnd.
    destruct (lookup_tok t (s_store st)) as [e'|] eqn:E; [|discriminate].
    destruct (s_now st <? e_expires e' + ttl); [|discriminate]. intros H; inversion H; subst. apply Hs, E.
  - intros i Hi Hlt. unfold fresh in *. cbn [s_now] in Hlt. rewrite lookup_cleanup by exact Hnd.
    rewrite (Hc i Hi Hlt). cbn [e_expires].
    destruct (N.ltb_spec (s_now st) (i_t i + ttl + ttl)); [reflexivity|lia].
Qed.

(* removing a token from both the store and the live set *)
Lemma inv_remove st live t :
  Inv st live -> Inv (mkS (remove_tok t (s_store st)) (s_now st) (s_plan st)) (drop_issue t live).
Proof.
  intros [Hnd Hs Hc Ht Hl]. split; cbn [s_store s_now s_plan].
  - apply nodup_filter, Hnd.
  - intros k e. rewrite lookup_remove by exact Hnd. destruct (str_eqb k t) eqn:E; [discriminate|].
    intros H. destruct (Hs k e H) as (i & Hi & Hk & He). exists i. split; [|auto].
    apply in_drop. split; [exact Hi|]. apply str_eqb_neq in E. congruence.
  - intros i Hi Hlt. apply in_drop in Hi as [Hi Hne]. rewrite lookup_remove by exact Hnd.
    apply str_eqb_neq in Hne. rewrite Hne. apply Hc; assumption.
  - intros i Hi. apply in_drop in Hi as [Hi _]. apply Ht, Hi.
  - apply nodup_drop, Hl.
Qed.

(* removing an EXPIRED entry from the store only (the E_CONFIRM_TOKEN_EXPIRED path) *)
Lemma inv_remove_expired st live t e :
  Inv st live -> lookup_tok t (s_store st) = Some e -> e_expires e <= s_now st ->
  Inv (mkS (remove_tok t (s_store st)) (s_now st) (s_plan st)) live.
Proof.
  intros [Hnd Hs Hc Ht Hl] He Hex. split; cbn [s_store s_now s_plan]; try assumption.
  - apply nodup_filter, Hnd.
  - intros k e0. rewrite lookup_remove by exact Hnd. destruct (str_eqb k t); [discriminate|]. apply Hs.
  - intros i Hi Hfr. unfold fresh in Hfr. cbn [s_now] in Hfr. rewrite lookup_remove by exact Hnd.
    destruct (str_eqb (i_tok i) t) eqn:E; [|apply Hc; assumption].
    exfalso. apply str_eqb_eq in E. rewrite <- E in He. rewrite (Hc i Hi Hfr) in He.
    inversion He; subst. cbn [e_expires] in Hex. lia.
Qed.

Lemma inv_set_now st live dt :
  Inv st live -> Inv (mkS (s_store st) (s_now st + dt) (s_plan st)) live.
Proof.
  intros [Hnd Hs Hc Ht Hl]. split; cbn [s_store s_now s_plan]; try assumption.
  - intros i Hi Hlt. unfold fresh in *. cbn [s_now] in Hlt. apply Hc; [exact Hi|lia].
  - intros i Hi. specialize (Ht i Hi). lia.
Qed.

Lemma inv_set_plan st live f :
  Inv st live -> Inv (mkS (s_store st) (s_now st) f) live.
Proof. intros [Hnd Hs Hc Ht Hl]. split; assumption. Qed.

Lemma inv_insert st live t b h :
  Inv st live ->
  Inv (mkS (insert_token (s_store st) t b h (s_now st)) (s_now st) (s_plan st))
      (mkI t b h (s_now st) :: drop_issue t live).
Proof.
  intros HI. pose proof (inv_cleanup st live HI) as HC.
  pose proof (inv_remove _ _ t HC) as HR. cbn [s_store s_now s_plan] in HR.
  destruct HR as [Hnd Hs Hc Ht Hl]. cbn [s_store s_now s_plan] in *.
  unfold insert_token. split; cbn [s_store s_now s_plan].
  - cbn [map fst]. constructor; [apply remove_notin|exact Hnd].
  - intros k e. cbn [lookup_tok]. destruct (str_eqb t k) eqn:E.
    + apply str_eqb_eq in E. subst k. intros H; inversion H; subst.
      exists (mkI t b h (s_now st)). split; [left; reflexivity|]. split; reflexivity.
    + intros H. destruct (Hs k e H) as (i & Hi & Hk & He). exists i. split; [right; exact Hi|auto].
  - intros i [<-|Hi] Hlt; cbn [i_tok i_b i_h i_t lookup_tok].
    + rewrite str_eqb_refl. reflexivity.
    + pose proof Hi as Hi'. apply in_drop in Hi' as [_ Hne]. apply str_eqb_neq in Hne.
      rewrite str_eqb_sym, Hne. apply Hc; assumption.
  - intros i [<-|Hi]; cbn [i_t]; [lia|apply Ht, Hi].
  - cbn [map i_tok]. constructor; [|exact Hl].
    intros Hin. apply in_map_iff in Hin as (j & Hj & Hin). apply in_drop in Hin. tauto.
Qed.

Lemma binding_eqb_eq a b : binding_eqb a b = true <-> a = b.
Proof.
  assert (O : forall x y, ostr_eqb x y = true <-> x = y).
  { intros [x|] [y|]; simpl; split; intros H; try discriminate; try reflexivity.
    - apply str_eqb_eq in H. congruence.
    - inversion H. apply str_eqb_refl. }
  destruct a as [a1 a2 a3 a4], b as [b1 b2 b3 b4]. unfold binding_eqb. cbn [b_repo b_profile b_target b_machine].
  rewrite !andb_true_iff, !O. split.
  - intros [[[-> ->] ->] ->]. reflexivity.
  - intros H; inversion H; auto.
Qed.

(* validate_token preserves the invariant with the live set unchanged *)
Lemma inv_validate st live t b :
  Inv st live ->
  Inv (mkS (snd (validate_token (s_store st) t b (s_now st))) (s_now st) (s_plan st)) live.
Proof.
  intros HI. unfold validate_token.
  destruct (lookup_tok t (s_store st)) as [e|] eqn:E; cbn [snd]; [|apply inv_cleanup, HI].
  destruct (N.leb_spec (e_expires e) (s_now st)) as [Hex|Hex].
  - cbn [snd]. apply (inv_cleanup (mkS (remove_tok t (s_store st)) (s_now st) (s_plan st))).
    eapply inv_remove_expired; eassumption.
  - destruct (binding_eqb (e_binding e) b); cbn [snd]; apply inv_cleanup, HI.
Qed.

(* ---------- one step preserves the invariant ---------- *)

Lemma step_inv st live o :
  Inv st live -> Inv (fst (step st o)) (ghost live st o (snd (step st o))).
Proof.
  intros HI. destruct o as [b fr|tok b yes dry adopt|f|dt|]; cbn [step].
  - destruct (s_plan st b) as [c|h a ch]; cbn [fst snd ghost]; [exact HI|]. apply inv_insert, HI.
  - destruct (negb yes || dry) eqn:Eyd.
    + destruct (s_plan st b) as [c|h a ch]; [exact HI|]. destruct dry; exact HI.
    + destruct (token_given tok) as [t|] eqn:Etok; [|exact HI].
      pose proof (inv_validate st live t b HI) as HV.
      destruct (validate_token (s_store st) t b (s_now st)) as [[stored| |] store'] eqn:EV;
        cbn [snd] in HV; cbn [fst snd ghost]; try exact HV.
      destruct (s_plan st b) as [c|h a ch]; cbn [fst snd ghost]; [exact HV|].
      destruct (negb (str_eqb h stored)); cbn [fst snd ghost]; [exact HV|].
      destruct (a && negb adopt); cbn [fst snd ghost]; [exact HV|].
      pose proof (inv_remove _ _ t HV) as HR. cbn [s_store s_now s_plan] in HR.
      unfold consume_token. destruct ch; cbn [fst snd ghost]; rewrite Etok; exact HR.
  - apply inv_set_plan, HI.
  - apply inv_set_now, HI.
  - destruct HI as [Hnd Hs Hc Ht Hl]. split; cbn; try constructor; try discriminate; intros; contradiction.
Qed.

(* ---------- the decision theorem for one deploy_apply call ---------- *)

Definition qualifies (st : sstate) (live : list issue) (t : str) (b : binding) (adopt : bool) : Prop :=
  exists i h a c, In i live /\ i_tok i = t /\ i_b i = b /\ fresh st i /\
                  s_plan st b = PlanOk h a c /\ i_h i = h /\ (a = true -> adopt = true).

Definition succeeded (x : out) : Prop := x = OApplied \/ x = ONoChanges.

Lemma validate_ok_iff st live t b h :
  Inv st live ->
  (fst (validate_token (s_store st) t b (s_now st)) = VOk h <->
   exists i, In i live /\ i_tok i = t /\ i_b i = b /\ fresh st i /\ i_h i = h).
Proof.
  intros HI. destruct HI as [Hnd Hs Hc Ht Hl]. unfold validate_token. split.
  - destruct (lookup_tok t (s_store st)) as [e|] eqn:E; [|discriminate].
    destruct (N.leb_spec (e_expires e) (s_now st)) as [Hex|Hex]; [discriminate|].
    destruct (binding_eqb (e_binding e) b) eqn:Eb; [|discriminate]. cbn [fst]. intros H; inversion H; subst.
    destruct (Hs t e E) as (i & Hi & Hk & He). exists i. subst e. cbn [e_binding e_hash e_expires] in *.
    apply binding_eqb_eq in Eb. unfold fresh. repeat split; auto.
  - intros (i & Hi & Hk & Hb & Hfr & Hh). subst t. rewrite (Hc i Hi Hfr). cbn [e_expires e_binding e_hash].
    unfold fresh in Hfr. destruct (N.leb_spec (i_t i + ttl) (s_now st)); [lia|].
    subst b. rewrite (proj2 (binding_eqb_eq _ _) eq_refl). cbn [fst]. congruence.
Qed.

Theorem apply_success_iff st live tok b yes dry adopt :
  Inv st live ->
  (succeeded (snd (step st (Apply tok b yes dry adopt))) <->
   yes = true /\ dry = false /\ exists t, token_given tok = Some t /\ qualifies st live t b adopt).
Proof.
  intros HI. cbn [step]. unfold succeeded. split.
  - destruct (negb yes || dry) eqn:Eyd.
    { destruct (s_plan st b); [intros [H|H]; discriminate|]. destruct dry; intros [H|H]; discriminate. }
    destruct yes; [|discriminate]. destruct dry; [discriminate|].
    destruct (token_given tok) as [t|]; [|intros [H|H]; discriminate].
    pose proof (validate_ok_iff st live t b) as HV.
    destruct (validate_token (s_store st) t b (s_now st)) as [[stored| |] store'] eqn:EV;
      try (intros [H|H]; discriminate).
    destruct (s_plan st b) as [c|h a ch] eqn:Ep; [intros [H|H]; discriminate|].
    destruct (str_eqb h stored) eqn:Eh; cbn [negb]; [|intros [H|H]; discriminate].
    destruct (a && negb adopt) eqn:Ea; [intros [H|H]; discriminate|]. intros _.
    split; [reflexivity|]. split; [reflexivity|]. exists t. split; [reflexivity|].
    destruct (proj1 (HV stored HI) eq_refl) as (i & Hi & Hk & Hb & Hfr & Hh).
    apply str_eqb_eq in Eh. exists i, h, a, ch. repeat split; auto; try congruence.
    intros ->. destruct adopt; [reflexivity|discriminate].
  - intros (-> & -> & t & Et & (i & h & a & c & Hi & Hk & Hb & Hfr & Hp & Hh & Ha)).
    cbn [negb orb]. rewrite Et.
    pose proof (proj2 (validate_ok_iff st live t b (i_h i) HI)) as HV.
    destruct (validate_token (s_store st) t b (s_now st)) as [v store'] eqn:EV. cbn [fst] in HV.
    rewrite HV by (exists i; repeat split; auto). rewrite Hp. subst h. rewrite str_eqb_refl. cbn [negb].
    assert (Ea : a && negb adopt = false) by (destruct a; [rewrite Ha by reflexivity|]; reflexivity).
    rewrite Ea. destruct c; cbn [snd]; auto.
Qed.

(* exact refusal codes, following the order of checks of the tool *)
Theorem apply_refusal_codes st live tok b yes dry adopt c :
  Inv st live ->
  snd (step st (Apply tok b yes dry adopt)) = ORefused c ->
  (* 1. no confirmation requested: planning error, or E_CONFIRM_REQUIRED *)
  ((yes = false \/ dry = true) /\
     (s_plan st b = PlanErr c \/ (exists h a ch, s_plan st b = PlanOk h a ch) /\ dry = false /\ c = code_confirm)) \/
  (yes = true /\ dry = false /\
    (   (* 2. no token *)
        (token_given tok = None /\ c = code_required)
     \/ (exists t, token_given tok = Some t /\
          (   (* 3a. unknown token: never issued by this instance, consumed, or replaced *)
              ((forall i, In i live -> i_tok i <> t) /\ c = code_mismatch)
           \/ (exists i, In i live /\ i_tok i = t /\
                (   (* 3b. expired *)
                    (~ fresh st i /\ (c = code_expired \/ c = code_mismatch))
                    (* 3c. issued for other arguments *)
                 \/ (fresh st i /\ i_b i <> b /\ c = code_mismatch)
                    (* 3d. the plan changed since the review (or no longer computes) *)
                 \/ (fresh st i /\ i_b i = b /\ c = code_mismatch /\
                       (forall h a ch, s_plan st b = PlanOk h a ch -> i_h i <> h))
                    (* 3e. plan equal but needs adopt *)
                 \/ (fresh st i /\ i_b i = b /\ c = code_adopt /\ adopt = false /\
                       exists ch, s_plan st b = PlanOk (i_h i) true ch))))))).
Proof.
  intros HI. pose proof HI as [Hnd Hs Hc Ht Hl]. cbn [step].
  destruct (negb yes || dry) eqn:Eyd.
  { intros H. left. split; [destruct yes, dry; simpl in Eyd; try discriminate; auto|].
    destruct (s_plan st b) as [pc|h a ch] eqn:Ep; [inversion H; auto|].
    destruct dry; inversion H. right. split; [eauto|]. auto. }
  destruct yes; [|discriminate]. destruct dry; [discriminate|]. clear Eyd.
  intros H. right. split; [reflexivity|]. split; [reflexivity|].
  destruct (token_given tok) as [t|] eqn:Etok; [|left; inversion H; auto].
  right. exists t. split; [reflexivity|].
  unfold validate_token in H.
  destruct (lookup_tok t (s_store st)) as [e|] eqn:E.
  2:{ (* no entry *)
      cbn in H. inversion H; subst c.
      destruct (in_dec (list_eq_dec N.eq_dec) t (map i_tok live)) as [Hin|Hnin].
      - apply in_map_iff in Hin as (i & Hk & Hi). right. exists i. split; [exact Hi|]. split; [exact Hk|].
        left. split; [|auto]. intros Hfr. subst t. rewrite (Hc i Hi Hfr) in E. discriminate.
      - left. split; [|reflexivity]. intros i Hi Hk. apply Hnin. subst t. apply in_map, Hi. }
  destruct (Hs t e E) as (i & Hi & Hk & He). right. exists i. split; [exact Hi|]. split; [exact Hk|].
  subst e. cbn [e_expires e_binding e_hash] in H.
  destruct (N.leb_spec (i_t i + ttl) (s_now st)) as [Hex|Hex].
  { left. split; [unfold fresh; lia|]. cbn in H. inversion H; auto. }
  assert (Hfr : fresh st i) by exact Hex.
  destruct (binding_eqb (i_b i) b) eqn:Eb.
  2:{ right; left. cbn in H. inversion H; subst. split; [exact Hfr|]. split; [|reflexivity].
      intros Hb. subst b. rewrite (proj2 (binding_eqb_eq _ _) eq_refl) in Eb. discriminate. }
  apply binding_eqb_eq in Eb. right; right.
  destruct (s_plan st b) as [pc|h a ch] eqn:Ep.
  { left. cbn in H. inversion H; subst c. repeat split; auto. intros; discriminate. }
  destruct (str_eqb h (i_h i)) eqn:Eh; cbn [negb] in H.
  2:{ left. cbn in H. inversion H; subst c. repeat split; auto. intros h' a' ch' Hp. inversion Hp; subst.
      apply str_eqb_neq in Eh. congruence. }
  apply str_eqb_eq in Eh. subst h.
  destruct (a && negb adopt) eqn:Ea.
  2:{ destruct ch; cbn in H; discriminate. }
  right. cbn in H. inversion H; subst c. destruct a; [|discriminate]. destruct adopt; [discriminate|].
  repeat split; auto. eauto.
Qed.

(* ---------- lifting to every operation sequence ---------- *)

Fixpoint grun (st : sstate) (live : list issue) (ops : list op)
  : list (sstate * list issue * op * out) :=
  match ops with
  | [] => []
  | o :: r => let st' := fst (step st o) in let x := snd (step st o) in
              (st, live, o, x) :: grun st' (ghost live st o x) r
  end.

Lemma grun_inv ops : forall st live, Inv st live ->
  Forall (fun e => let '(st0, live0, _, _) := e in Inv st0 live0) (grun st live ops).
Proof.
  induction ops as [|o r IH]; intros st live HI; cbn [grun]; constructor; [exact HI|].
  apply IH, step_inv, HI.
Qed.

Lemma grun_outs ops : forall st live, map (fun e => snd e) (grun st live ops) = run st ops.
Proof.
  induction ops as [|o r IH]; intros st live; cbn [grun run map]; [reflexivity|].
  destruct (step st o) as [st' x]. cbn [fst snd]. f_equal. apply IH.
Qed.

Lemma grun_step ops : forall st live e, In e (grun st live ops) ->
  let '(st0, live0, o, x) := e in x = snd (step st0 o).
Proof.
  induction ops as [|o r IH]; intros st live e; cbn [grun]; [intros []|].
  intros [<-|Hin]; [reflexivity|]. eapply IH, Hin.
Qed.

Theorem safety_all_sequences f ops :
  Forall (fun e => let '(st0, live0, o, x) := e in
            succeeded x ->
            exists tok b adopt t, o = Apply tok b true false adopt /\ token_given tok = Some t /\
                                  qualifies st0 live0 t b adopt)
         (grun (init f) [] ops).
Proof.
  pose proof (grun_inv ops (init f) [] (inv_init f)) as HI.
  pose proof (grun_step ops (init f) []) as Hstep.
  rewrite Forall_forall in *. intros [[[st0 live0] o] x] Hin.
  specialize (HI _ Hin). specialize (Hstep _ Hin). cbn in HI, Hstep. intros Hsucc.
  destruct o as [b fr|tok b yes dry adopt|g|dt|].
  - subst x. cbn [step] in Hsucc. destruct (s_plan st0 b); destruct Hsucc; discriminate.
  - subst x. apply (apply_success_iff st0 live0 tok b yes dry adopt HI) in Hsucc.
    destruct Hsucc as (-> & -> & t & Et & Hq). exists tok, b, adopt, t. auto.
  - subst x. destruct Hsucc; discriminate.
  - subst x. destruct Hsucc; discriminate.
  - subst x. destruct Hsucc; discriminate.
Qed.

(* the live set really is "issued, by this instance, since the last restart, not consumed":
   every live issue was put there by an Issue op of the run, at that op's clock, with that op's
   plan hash *)
Lemma ghost_origin st live o x i :
  In i (ghost live st o x) ->
  In i live \/ exists b tok', o = Issue b (i_tok i) /\ i_b i = b /\ i_t i = s_now st /\
                             x = OIssued tok' (i_h i).
Proof.
  destruct o as [b fr|tok b yes dry adopt|g|dt|]; cbn [ghost].
  - destruct x as [tok' h|c| | | |]; auto.
    intros [<-|Hin]; [right; exists b, tok'; cbn; auto|left; apply in_drop in Hin; tauto].
  - destruct x; auto; destruct (token_given tok); auto; intros Hin; left; apply in_drop in Hin; tauto.
  - auto.
  - auto.
  - intros [].
Qed.
