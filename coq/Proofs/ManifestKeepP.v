(* Proofs/ManifestKeepP.v — a deploy never removes a manifest-named file (its own per-target manifests are
   rewritten, never deleted; legacy-named manifests and manifests of other targets or tools are left alone):
   the only removals of an apply are the plan's deletes, and those are recorded, non-manifest paths. *)
From AP Require Import Base.Str Base.StrFacts Base.Sorting Gen.Tables Model.Deploy Proofs.DeployP Proofs.ConvergeP.
Open Scope N_scope.

Lemma write_manifests_keeps rs : forall i roots D pl f p,
  f p <> None -> fst (write_manifests_from i rs roots D pl f) p <> None.
Proof.
  induction rs as [|r rs IH]; intros i roots D pl f p H; cbn [write_manifests_from fst]; [exact H|].
  match goal with |- context [if ?b then _ else _] => destruct b end.
  - destruct (write_manifests_from (S i) rs roots D pl (upd f (mf_path r) (Some (new_manifest r (per_root roots D i r))))) as [f2 l] eqn:E.
    cbn [fst].
    pose proof (IH (S i) roots D pl (upd f (mf_path r) (Some (new_manifest r (per_root roots D i r)))) p) as IH'.
    rewrite E in IH'. cbn [fst] in IH'. apply IH'.
    destruct (list_eq_dec (list_eq_dec N.eq_dec) p (mf_path r)) as [->|Hne].
    + rewrite upd_same. discriminate.
    + rewrite upd_other by exact Hne. exact H.
  - apply IH. exact H.
Qed.

Theorem manifests_never_deleted w roots D flt p :
  wfD roots D -> wfM D (managed_for_plan w roots flt) ->
  is_manifest_path p = true -> files w p <> None ->
  files (apply_plan KDeploy w roots D (plan (files w) D (managed_for_plan w roots flt))) p <> None.
Proof.
  intros HD HM Hp Hf. rewrite apply_plan_files. unfold write_manifests. apply write_manifests_keeps.
  rewrite fold_apply_other; [exact Hf|].
  intros c Hc E. apply plan_origin in Hc as [[d (Hd & _ & Hpath & _)]|[Hin _]].
  - destruct HD as (_ & HD2 & _). destruct (HD2 d Hd) as [_ Hn]. rewrite <- Hpath, E, Hp in Hn. discriminate.
  - destruct HM as (HM1 & _). specialize (HM1 _ _ Hin). rewrite E, Hp in HM1. discriminate.
Qed.

(* stronger: a manifest-named file that is not the per-target manifest of a root of this run is byte-identical *)
Theorem foreign_manifests_untouched w roots D flt p :
  wfD roots D -> wfM D (managed_for_plan w roots flt) ->
  is_manifest_path p = true -> (forall r, In r roots -> mf_path r <> p) ->
  files (apply_plan KDeploy w roots D (plan (files w) D (managed_for_plan w roots flt))) p = files w p.
Proof.
  intros HD HM Hp Hr. rewrite apply_plan_files. unfold write_manifests. rewrite write_manifests_other by exact Hr.
  apply fold_apply_other.
  intros c Hc E. apply plan_origin in Hc as [[d (Hd & _ & Hpath & _)]|[Hin _]].
  - destruct HD as (_ & HD2 & _). destruct (HD2 d Hd) as [_ Hn]. rewrite <- Hpath, E, Hp in Hn. discriminate.
  - destruct HM as (HM1 & _). specialize (HM1 _ _ Hin). rewrite E, Hp in HM1. discriminate.
Qed.
