(* Proofs/RootsIndepP.v — the target roots of a run are a function of the environment and the selected
   target configurations alone: which modules exist, are enabled or are selected by the profile never
   adds or removes a root.  (A root that came and went with its modules would take its manifest out of
   sight: files recorded there would stop being managed — no delete planned, no drift reported.) *)
From AP Require Import Base.Str Base.StrFacts Base.PathR Base.Sorting Gen.Tables Model.Render.
Open Scope N_scope.

Lemma adapter_roots_indep e t ms ms' : fst (adapter e ms t) = fst (adapter e ms' t).
Proof.
  unfold adapter.
  destruct (str_eqb (t_name t) t_codex); [reflexivity|].
  destruct (str_eqb (t_name t) t_claude); [reflexivity|].
  destruct (str_eqb (t_name t) t_cursor); [reflexivity|].
  destruct (str_eqb (t_name t) t_vscode); [reflexivity|].
  destruct (str_eqb (t_name t) t_jetbrains); [reflexivity|].
  destruct (str_eqb (t_name t) t_zed); reflexivity.
Qed.

Lemma all_roots_indep e ts ms ms' : all_roots e ms ts = all_roots e ms' ts.
Proof. unfold all_roots. induction ts as [|t r IH]; cbn [flat_map]; [reflexivity|]. rewrite IH, (adapter_roots_indep e t ms ms'). reflexivity. Qed.

(* the roots of a successful render: those of the selected targets with NO module at all *)
Theorem render_roots_of_targets c e prof filt D R :
  render c e prof filt = Ok (D, R) ->
  exists ts, selected_targets c filt = Ok ts /\ R = dedup_roots (all_roots e [] ts).
Proof.
  unfold render. destruct (select_modules c prof) as [ms|]; [|discriminate].
  destruct (selected_targets c filt) as [ts|x]; [|discriminate].
  destruct (run [] (all_steps e ms ts)) as [D'|x]; [|discriminate].
  intros H. inversion H; subst. exists ts. split; [reflexivity|]. rewrite (all_roots_indep e ts ms []). reflexivity.
Qed.

(* two configurations with the same target section (whatever their modules and profiles), same
   environment and --target filter: the same roots whenever both render *)
Theorem render_roots_same_targets c c' e prof prof' filt D R D' R' :
  selected_targets c filt = selected_targets c' filt ->
  render c e prof filt = Ok (D, R) -> render c' e prof' filt = Ok (D', R') -> R = R'.
Proof.
  intros Ht H1 H2.
  destruct (render_roots_of_targets _ _ _ _ _ _ H1) as [ts [E1 ->]].
  destruct (render_roots_of_targets _ _ _ _ _ _ H2) as [ts' [E2 ->]].
  rewrite Ht, E2 in E1. inversion E1. reflexivity.
Qed.
