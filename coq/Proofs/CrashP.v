(* Proofs/CrashP.v — crash-prefix properties of the operation sequence of deploy --apply (C07) *)
From AP Require Import Base.Str Base.StrFacts Base.Sorting Gen.Tables Model.Deploy Model.Crash
                       Proofs.DeployP Proofs.ConvergeP.
From Coq Require Import Lia Arith.
Open Scope N_scope.

(* ---------- which operations affect a target-side file ---------- *)
Definition touches (p : path) (k : step) : bool :=
  match k with
  | KRen (LT q) _ => path_eqb q p
  | KRemove q => path_eqb q p
  | _ => false
  end.

Definition ntouch (p : path) (steps : list step) : nat := length (filter (touches p) steps).

Lemma exec_untouched st k p : touches p k = false -> cfiles (exec st k) p = cfiles st p.
Proof.
  destruct k as [l|l|l|l o|q|q]; simpl; intros H; try reflexivity.
  - destruct l; simpl in *; try reflexivity. apply upd_other. apply path_eqb_neq in H. congruence.
  - apply upd_other. apply path_eqb_neq in H. congruence.
Qed.

Lemma run_untouched steps : forall st p, ntouch p steps = 0%nat -> cfiles (run steps st) p = cfiles st p.
Proof.
  induction steps as [|k steps IH]; intros st p H; [reflexivity|]. unfold ntouch in H. simpl in H.
  destruct (touches p k) eqn:E; [discriminate|]. simpl. unfold run in IH. rewrite IH by exact H.
  apply exec_untouched. exact E.
Qed.

Lemma run_app a b st : run (a ++ b) st = run b (run a st).
Proof. unfold run. apply fold_left_app. Qed.

Lemma ntouch_app p a b : ntouch p (a ++ b) = (ntouch p a + ntouch p b)%nat.
Proof. unfold ntouch. rewrite filter_app, app_length. reflexivity. Qed.

(* C07 old-or-new, general form: if a file is the subject of at most one effective operation, then
   after any prefix it holds its previous or its final content *)
Lemma prefix_old_or_new steps : forall st p k,
  (ntouch p steps <= 1)%nat ->
  cfiles (run_prefix k steps st) p = cfiles st p \/
  cfiles (run_prefix k steps st) p = cfiles (run steps st) p.
Proof.
  induction steps as [|s steps IH]; intros st p k H.
  - left. unfold run_prefix. rewrite firstn_nil. reflexivity.
  - destruct k as [|k]; [left; reflexivity|]. unfold run_prefix. simpl.
    unfold ntouch in H. simpl in H. destruct (touches p s) eqn:E.
    + right. simpl in H. assert (H0 : ntouch p steps = 0%nat) by (unfold ntouch; lia).
      fold (run (firstn k steps) (exec st s)). fold (run steps (exec st s)).
      rewrite run_untouched.
      * symmetry. apply run_untouched. exact H0.
      * unfold ntouch in *. pose proof (firstn_skipn k steps) as Hs.
        assert (length (filter (touches p) steps) =
                (length (filter (touches p) (firstn k steps)) + length (filter (touches p) (skipn k steps)))%nat).
        { rewrite <- Hs at 1. rewrite filter_app, app_length. reflexivity. }
        lia.
    + fold (run (firstn k steps) (exec st s)). fold (run steps (exec st s)).
      destruct (IH (exec st s) p k H) as [Hl|Hr].
      * left. unfold run_prefix in Hl. rewrite Hl. apply exec_untouched. exact E.
      * right. exact Hr.
Qed.

(* ---------- counting the effective operations of the generated sequence ---------- *)
Lemma ntouch_write_atomic p dir q o :
  ntouch p (write_atomic_steps dir (LT q) o) = if path_eqb q p then 1%nat else 0%nat.
Proof. unfold ntouch, write_atomic_steps. simpl. destruct dir; simpl; destruct (path_eqb q p); reflexivity. Qed.

Lemma ntouch_write_atomic_home p dir l o :
  (forall q, l <> LT q) -> ntouch p (write_atomic_steps dir l o) = 0%nat.
Proof.
  intros H. unfold ntouch, write_atomic_steps. simpl. destruct l; try reflexivity. exfalso. eapply H. reflexivity.
Qed.

Definition at_path (p : path) (c : change) : bool := path_eqb (c_path c) p.

Lemma change_steps_ntouch p pl : forall f,
  (ntouch p (change_steps f pl) <= length (filter (at_path p) pl))%nat.
Proof.
  induction pl as [|c pl IH]; intros f; [unfold ntouch; simpl; lia|].
  cbn [change_steps filter]. rewrite !ntouch_app. specialize (IH (apply_change f c)).
  assert (H1 : ntouch p (match c_op c with
                         | PCreate => []
                         | _ => if exists_at f (c_path c) then [KMk (LBackupDir (c_target c)); KBackup (c_path c)] else []
                         end) = 0%nat).
  { destruct (c_op c); try reflexivity; destruct (exists_at f (c_path c)); reflexivity. }
  assert (H2 : (ntouch p (match c_op c with
                          | PDelete => if exists_at f (c_path c) then [KRemove (c_path c)] else []
                          | _ => match c_after c with
                                 | Some n => write_atomic_steps (LDir (parent (c_path c))) (LT (c_path c)) (FBytes n)
                                 | None => []
                                 end
                          end) <= if at_path p c then 1 else 0)%nat).
  { unfold at_path. destruct (c_op c).
    - destruct (c_after c); [rewrite ntouch_write_atomic; destruct (path_eqb (c_path c) p); lia|].
      unfold ntouch; simpl; destruct (path_eqb (c_path c) p); lia.
    - destruct (c_after c); [rewrite ntouch_write_atomic; destruct (path_eqb (c_path c) p); lia|].
      unfold ntouch; simpl; destruct (path_eqb (c_path c) p); lia.
    - destruct (exists_at f (c_path c)); unfold ntouch; simpl; destruct (path_eqb (c_path c) p); simpl; lia. }
  rewrite H1. destruct (at_path p c); simpl; lia.
Qed.

Lemma manifest_steps_ntouch p rs : forall i roots D pl f,
  (ntouch p (manifest_steps i rs roots D pl f) <= length (filter (fun r => path_eqb (mf_path r) p) rs))%nat.
Proof.
  induction rs as [|r rs IH]; intros i roots D pl f; [unfold ntouch; simpl; lia|].
  cbn [manifest_steps filter].
  match goal with |- context [if ?b then _ ++ _ else _] => destruct b end.
  - rewrite !ntouch_app, ntouch_write_atomic, ntouch_write_atomic_home by (intros q; discriminate).
    assert (H1 : ntouch p (if exists_at f (mf_path r) then [KMk (LBackupDir (rtarget r)); KBackup (mf_path r)] else []) = 0%nat)
      by (destruct (exists_at f (mf_path r)); reflexivity).
    rewrite H1. specialize (IH (S i) roots D pl (upd f (mf_path r) (Some (new_manifest r (per_root roots D i r))))).
    destruct (path_eqb (mf_path r) p); simpl; lia.
  - specialize (IH (S i) roots D pl f). destruct (path_eqb (mf_path r) p); simpl; lia.
Qed.

Lemma state_steps_ntouch p D : ntouch p (state_steps D) = 0%nat.
Proof.
  unfold state_steps. induction D as [|d D IH]; [reflexivity|]. cbn [flat_map]. rewrite ntouch_app, IH.
  rewrite ntouch_write_atomic_home by (intros q; discriminate). reflexivity.
Qed.

Lemma nodup_filter_le1 {A} (g : A -> path) (l : list A) p :
  NoDup (map g l) -> (length (filter (fun x => path_eqb (g x) p) l) <= 1)%nat.
Proof.
  induction l as [|x l IH]; simpl; intros H; [lia|]. inversion H as [|? ? Hn Hnd]; subst.
  destruct (path_eqb (g x) p) eqn:E; [|apply IH; exact Hnd]. simpl.
  assert (filter (fun y => path_eqb (g y) p) l = []) as ->; [|simpl; lia].
  apply path_eqb_eq in E. destruct (filter (fun y => path_eqb (g y) p) l) as [|y t] eqn:Ef; [reflexivity|].
  exfalso. assert (Hin : In y (filter (fun y => path_eqb (g y) p) l)) by (rewrite Ef; left; reflexivity).
  apply filter_In in Hin as [Hy Ey]. apply path_eqb_eq in Ey. apply Hn. rewrite E, <- Ey. apply in_map. exact Hy.
Qed.

Lemma filter_nil_iff {A} (g : A -> bool) l : (forall x, In x l -> g x = false) -> filter g l = [].
Proof.
  induction l as [|x l IH]; intros H; [reflexivity|]. simpl. rewrite (H x) by (left; reflexivity).
  apply IH. intros y Hy. apply H. right. exact Hy.
Qed.

(* every target-side file is the subject of at most one effective operation *)
Lemma steps_touch_once f roots D pl p :
  NoDup (map c_path pl) -> NoDup (map mf_path roots) ->
  (forall c r, In c pl -> In r roots -> c_path c <> mf_path r) ->
  (ntouch p (steps_of_apply f roots D pl) <= 1)%nat.
Proof.
  intros H1 H2 H3. unfold steps_of_apply. rewrite !ntouch_app, state_steps_ntouch.
  rewrite ntouch_write_atomic_home by (intros q; discriminate).
  assert (Ha : ntouch p [KMk LSnapDir; KMk LBackupRoot; KMk LStateRoot] = 0%nat) by reflexivity. rewrite Ha.
  pose proof (change_steps_ntouch p pl f) as Hc.
  pose proof (manifest_steps_ntouch p roots 0 roots D pl (fold_left apply_change pl f)) as Hm.
  pose proof (nodup_filter_le1 c_path pl p H1) as Hc1. fold (at_path p) in Hc1.
  pose proof (nodup_filter_le1 mf_path roots p H2) as Hm1.
  destruct (filter (at_path p) pl) as [|c t] eqn:Ec.
  - simpl in *. lia.
  - assert (Hin : In c (filter (at_path p) pl)) by (rewrite Ec; left; reflexivity).
    apply filter_In in Hin as [Hc2 Ecp]. apply path_eqb_eq in Ecp.
    assert (filter (fun r => path_eqb (mf_path r) p) roots = []) as Er.
    { apply filter_nil_iff. intros r Hr. apply path_eqb_neq. intros E. apply (H3 c r Hc2 Hr). congruence. }
    rewrite Er in Hm. simpl in *. lia.
Qed.

(* ---------- the complete sequence computes apply_plan ---------- *)
Definition agrees (st : cstate) (f : fs) : Prop := forall q, cfiles st q = f q.

Lemma exec_nofile st k : (forall p o, k <> KRen (LT p) o) -> (forall p, k <> KRemove p) -> cfiles (exec st k) = cfiles st.
Proof.
  intros H1 H2. destruct k as [l|l|l|l o|q|q]; simpl; try reflexivity.
  - destruct l; try reflexivity. exfalso. eapply H1. reflexivity.
  - exfalso. eapply H2. reflexivity.
Qed.

Lemma run_write_atomic_target st dir p o q :
  cfiles (run (write_atomic_steps dir (LT p) o) st) q = upd (cfiles st) p (Some o) q.
Proof. unfold run, write_atomic_steps. simpl. destruct dir; reflexivity. Qed.

Lemma run_write_atomic_home st dir l o :
  (forall p, l <> LT p) -> cfiles (run (write_atomic_steps dir l o) st) = cfiles st.
Proof.
  intros H. unfold run, write_atomic_steps. simpl. destruct l; try reflexivity; destruct dir; try reflexivity;
    exfalso; eapply H; reflexivity.
Qed.

Lemma upd_agrees st f p v g : agrees st f -> (forall q, g q = upd (cfiles st) p v q) -> forall q, g q = upd f p v q.
Proof. intros Ha Hg q. rewrite Hg. unfold upd. destruct (path_eqb q p); [reflexivity|apply Ha]. Qed.

Lemma run_change_steps pl : forall f st, agrees st f ->
  agrees (run (change_steps f pl) st) (fold_left apply_change pl f).
Proof.
  induction pl as [|c pl IH]; intros f st Ha; [exact Ha|].
  cbn [change_steps fold_left]. rewrite !run_app. apply IH.
  set (st1 := run (match c_op c with
                   | PCreate => []
                   | _ => if exists_at f (c_path c) then [KMk (LBackupDir (c_target c)); KBackup (c_path c)] else []
                   end) st).
  assert (H1 : agrees st1 f).
  { unfold st1. destruct (c_op c); try exact Ha; destruct (exists_at f (c_path c)); exact Ha. }
  intros q. unfold apply_change. destruct (c_op c) eqn:Eo.
  - destruct (c_after c) as [n|]; [|apply H1]. rewrite run_write_atomic_target. unfold upd. destruct (path_eqb q (c_path c)); [reflexivity|apply H1].
  - destruct (c_after c) as [n|]; [|apply H1]. rewrite run_write_atomic_target. unfold upd. destruct (path_eqb q (c_path c)); [reflexivity|apply H1].
  - destruct (exists_at f (c_path c)) eqn:Ex.
    + unfold run. simpl. unfold upd. destruct (path_eqb q (c_path c)); [reflexivity|apply H1].
    + unfold run. simpl. unfold upd. destruct (path_eqb q (c_path c)) eqn:Eq; [|apply H1].
      apply path_eqb_eq in Eq. subst q. rewrite H1. unfold exists_at in Ex. destruct (f (c_path c)); [discriminate|reflexivity].
Qed.

Lemma exists_at_agrees st f p : agrees st f -> exists_at (cfiles st) p = exists_at f p.
Proof. intros H. unfold exists_at. rewrite H. reflexivity. Qed.

Lemma run_manifest_steps rs : forall i roots D pl f st, agrees st f ->
  agrees (run (manifest_steps i rs roots D pl f) st) (fst (write_manifests_from i rs roots D pl f)).
Proof.
  induction rs as [|r rs IH]; intros i roots D pl f st Ha; [exact Ha|].
  cbn [manifest_steps write_manifests_from].
  match goal with |- context [if ?b then _ ++ _ else _] => destruct b end.
  - rewrite !run_app.
    specialize (IH (S i) roots D pl (upd f (mf_path r) (Some (new_manifest r (per_root roots D i r))))).
    destruct (write_manifests_from (S i) rs roots D pl (upd f (mf_path r) (Some (new_manifest r (per_root roots D i r))))) as [f2 l] eqn:Ew.
    cbn [fst] in *. apply IH. intros q. rewrite run_write_atomic_home by (intros p; discriminate).
    rewrite run_write_atomic_target.
    assert (H0 : agrees (run (if exists_at f (mf_path r) then [KMk (LBackupDir (rtarget r)); KBackup (mf_path r)] else []) st) f).
    { destruct (exists_at f (mf_path r)); exact Ha. }
    unfold upd. destruct (path_eqb q (mf_path r)); [reflexivity|apply H0].
  - apply IH. exact Ha.
Qed.

Lemma run_state_steps D st : cfiles (run (state_steps D) st) = cfiles st.
Proof.
  unfold state_steps. revert st. induction D as [|d D IH]; intros st; [reflexivity|].
  cbn [flat_map]. rewrite run_app, IH. apply run_write_atomic_home. intros p. discriminate.
Qed.

(* C07: an uninterrupted run of the operation sequence yields exactly the files of apply_plan *)
Lemma run_all_is_apply_plan w roots D pl q :
  cfiles (run (steps_of_apply (files w) roots D pl) (init_state (files w))) q =
  files (apply_plan KDeploy w roots D pl) q.
Proof.
  rewrite apply_plan_files. unfold steps_of_apply. rewrite !run_app.
  rewrite run_write_atomic_home by (intros p; discriminate). rewrite run_state_steps.
  unfold write_manifests. apply run_manifest_steps. apply run_change_steps.
  intros q'. reflexivity.
Qed.

(* ---------- backup before replace ---------- *)
(* invariant: every target-side file still holds its original content, or did not exist, or its
   original content is in the backup store *)
Definition backed (f0 : fs) (st : cstate) : Prop :=
  forall p, cfiles st p = f0 p \/ f0 p = None \/ cbackup st p = f0 p.

(* a block of operations about one path p: backups of p only before p is touched, p touched only
   once it is backed up (b) — or known absent —, nothing else touches files or backups *)
Fixpoint safe_block (p : path) (b t : bool) (bl : list step) : bool :=
  match bl with
  | [] => true
  | KBackup q :: r => path_eqb q p && negb t && safe_block p true t r
  | KRen (LT q) _ :: r => path_eqb q p && b && safe_block p b true r
  | KRemove q :: r => path_eqb q p && b && safe_block p b true r
  | _ :: r => safe_block p b t r
  end.

Lemma safe_block_run f0 p bl : forall b t st,
  safe_block p b t bl = true -> backed f0 st ->
  (t = false -> cfiles st p = f0 p) ->
  (b = true -> f0 p = None \/ cbackup st p = f0 p) ->
  forall k, backed f0 (run (firstn k bl) st) /\
            (forall q, q <> p -> cfiles (run (firstn k bl) st) q = cfiles st q /\ cbackup (run (firstn k bl) st) q = cbackup st q).
Proof.
  induction bl as [|s bl IH]; intros b t st Hs HI Ht Hb k.
  - rewrite firstn_nil. split; [exact HI|]. intros q _. split; reflexivity.
  - destruct k as [|k]; [split; [exact HI|intros q _; split; reflexivity]|].
    cbn [firstn]. unfold run. cbn [fold_left]. fold (run (firstn k bl) (exec st s)).
    destruct s as [l|l|l|l o|q0|q0]; cbn [safe_block] in Hs.
    + apply (IH b t st Hs HI Ht Hb k).
    + apply (IH b t st Hs HI Ht Hb k).
    + apply (IH b t st Hs HI Ht Hb k).
    + destruct l as [q0| | | | | | | |];
        try (apply (IH b t _ Hs); [intros q; simpl; apply HI|intros E; simpl; apply Ht; exact E|intros E; simpl; apply Hb; exact E]);
        try (match goal with |- context [exec st ?X] =>
               assert (HIx : backed f0 (exec st X)) by (intros q; simpl; apply HI);
               assert (Htx : t = false -> cfiles (exec st X) p = f0 p) by (intros E; simpl; apply Ht; exact E);
               assert (Hbx : b = true -> f0 p = None \/ cbackup (exec st X) p = f0 p) by (intros E; simpl; apply Hb; exact E);
               destruct (IH b t (exec st X) Hs HIx Htx Hbx k) as [H1 H2]; split; [exact H1|exact H2]
             end).
      apply andb_true_iff in Hs as [Hs Hs2]. apply andb_true_iff in Hs as [Eq Eb]. apply path_eqb_eq in Eq. subst q0.
      assert (HI' : backed f0 (exec st (KRen (LT p) o))).
      { intros q. simpl. destruct (list_eq_dec (list_eq_dec N.eq_dec) q p) as [->|Hne].
        - right. apply Hb. exact Eb.
        - rewrite upd_other by exact Hne. apply HI. }
      assert (P1 : true = false -> cfiles (exec st (KRen (LT p) o)) p = f0 p) by discriminate.
      assert (P2 : b = true -> f0 p = None \/ cbackup (exec st (KRen (LT p) o)) p = f0 p) by (simpl; apply Hb).
      destruct (IH b true (exec st (KRen (LT p) o)) Hs2 HI' P1 P2 k) as [H1 H2].
      split; [apply H1|]. intros q Hq. destruct (H2 q Hq) as [Ha Hc]. rewrite Ha, Hc. simpl.
      rewrite upd_other by exact Hq. split; reflexivity.
    + apply andb_true_iff in Hs as [Hs Hs2]. apply andb_true_iff in Hs as [Eq Et]. apply path_eqb_eq in Eq. subst q0.
      apply negb_true_iff in Et. subst t.
      assert (HI' : backed f0 (exec st (KBackup p))).
      { intros q. simpl. destruct (list_eq_dec (list_eq_dec N.eq_dec) q p) as [->|Hne].
        - left. apply Ht. reflexivity.
        - rewrite upd_other by exact Hne. apply HI. }
      assert (P1 : false = false -> cfiles (exec st (KBackup p)) p = f0 p) by (intros _; simpl; apply Ht; reflexivity).
      assert (P2 : true = true -> f0 p = None \/ cbackup (exec st (KBackup p)) p = f0 p)
        by (intros _; right; simpl; rewrite upd_same; apply Ht; reflexivity).
      destruct (IH true false (exec st (KBackup p)) Hs2 HI' P1 P2 k) as [H1 H2].
      split; [apply H1|]. intros q Hq. destruct (H2 q Hq) as [Ha Hc]. rewrite Ha, Hc. simpl.
      rewrite upd_other by exact Hq. split; reflexivity.
    + apply andb_true_iff in Hs as [Hs Hs2]. apply andb_true_iff in Hs as [Eq Eb]. apply path_eqb_eq in Eq. subst q0.
      assert (HI' : backed f0 (exec st (KRemove p))).
      { intros q. simpl. destruct (list_eq_dec (list_eq_dec N.eq_dec) q p) as [->|Hne].
        - right. apply Hb. exact Eb.
        - rewrite upd_other by exact Hne. apply HI. }
      assert (P1 : true = false -> cfiles (exec st (KRemove p)) p = f0 p) by discriminate.
      assert (P2 : b = true -> f0 p = None \/ cbackup (exec st (KRemove p)) p = f0 p) by (simpl; apply Hb).
      destruct (IH b true (exec st (KRemove p)) Hs2 HI' P1 P2 k) as [H1 H2].
      split; [apply H1|]. intros q Hq. destruct (H2 q Hq) as [Ha Hc]. rewrite Ha, Hc. simpl.
      rewrite upd_other by exact Hq. split; reflexivity.
Qed.

Lemma firstn_app_run k a b st :
  run (firstn k (a ++ b)) st = run (firstn (k - length a) b) (run (firstn k a) st).
Proof. rewrite firstn_app, run_app. reflexivity. Qed.

Lemma prefix_inv_app (P : cstate -> Prop) a b st :
  (forall k, P (run (firstn k a) st)) -> (forall k, P (run (firstn k b) (run a st))) ->
  forall k, P (run (firstn k (a ++ b)) st).
Proof.
  intros Ha Hb k. rewrite firstn_app_run. destruct (Nat.le_gt_cases (length a) k) as [Hk|Hk].
  - rewrite (firstn_all2 a) by exact Hk. apply Hb.
  - replace (k - length a)%nat with 0%nat by lia. simpl. apply Ha.
Qed.

(* operations that touch neither target files nor backups *)
Definition inert (k : step) : bool :=
  match k with KRen (LT _) _ | KRemove _ | KBackup _ => false | _ => true end.

Lemma exec_inert st k : inert k = true -> cfiles (exec st k) = cfiles st /\ cbackup (exec st k) = cbackup st.
Proof. destruct k as [l|l|l|l o|q|q]; simpl; intros H; try discriminate; try (split; reflexivity). destruct l; try discriminate; split; reflexivity. Qed.

Lemma run_inert steps : forall st, forallb inert steps = true ->
  cfiles (run steps st) = cfiles st /\ cbackup (run steps st) = cbackup st.
Proof.
  induction steps as [|k steps IH]; intros st H; [split; reflexivity|]. simpl in H. apply andb_true_iff in H as [H1 H2].
  unfold run. simpl. fold (run steps (exec st k)). destruct (IH (exec st k) H2) as [Ha Hb].
  destruct (exec_inert st k H1) as [Hc Hd]. rewrite Ha, Hb. auto.
Qed.

Lemma forallb_firstn {A} (g : A -> bool) k l : forallb g l = true -> forallb g (firstn k l) = true.
Proof.
  revert k. induction l as [|x l IH]; intros k H; [rewrite firstn_nil; reflexivity|].
  destruct k; [reflexivity|]. simpl in *. apply andb_true_iff in H as [H1 H2]. rewrite H1. simpl. apply IH. exact H2.
Qed.

Lemma backed_inert f0 steps st : forallb inert steps = true -> backed f0 st ->
  forall k, backed f0 (run (firstn k steps) st).
Proof.
  intros Hi HI k p. destruct (run_inert (firstn k steps) st (forallb_firstn _ _ _ Hi)) as [Ha Hb].
  rewrite Ha, Hb. apply HI.
Qed.

Lemma state_steps_inert D : forallb inert (state_steps D) = true.
Proof. unfold state_steps. induction D as [|d D IH]; [reflexivity|]. cbn [flat_map]. rewrite forallb_app, IH. reflexivity. Qed.

(* the block of one planned change *)
Definition change_block (f : fs) (c : change) : list step :=
  (match c_op c with
   | PCreate => []
   | _ => if exists_at f (c_path c) then [KMk (LBackupDir (c_target c)); KBackup (c_path c)] else []
   end)
  ++ (match c_op c with
      | PDelete => if exists_at f (c_path c) then [KRemove (c_path c)] else []
      | _ => match c_after c with
             | Some n => write_atomic_steps (LDir (parent (c_path c))) (LT (c_path c)) (FBytes n)
             | None => []
             end
      end).

Lemma change_steps_cons f c pl : change_steps f (c :: pl) = change_block f c ++ change_steps (apply_change f c) pl.
Proof. unfold change_block. cbn [change_steps]. rewrite app_assoc. reflexivity. Qed.

Lemma change_block_safe f c :
  (c_op c = PCreate -> exists_at f (c_path c) = false) ->
  safe_block (c_path c) (negb (exists_at f (c_path c))) false (change_block f c) = true.
Proof.
  intros Hc. unfold change_block. destruct (c_op c) eqn:Eo.
  - rewrite Hc by reflexivity. destruct (c_after c); simpl; rewrite ?path_eqb_refl; reflexivity.
  - destruct (exists_at f (c_path c)); destruct (c_after c); simpl; rewrite ?path_eqb_refl; reflexivity.
  - destruct (exists_at f (c_path c)); simpl; rewrite ?path_eqb_refl; reflexivity.
Qed.

Lemma run_change_block f c st : agrees st f -> agrees (run (change_block f c) st) (apply_change f c).
Proof.
  intros Ha. pose proof (run_change_steps [c] f st Ha) as H. rewrite change_steps_cons in H.
  cbn [change_steps fold_left] in H. rewrite app_nil_r in H. exact H.
Qed.

Lemma backed_change_steps f0 pl : forall f st,
  NoDup (map c_path pl) -> agrees st f -> backed f0 st ->
  (forall c, In c pl -> f (c_path c) = f0 (c_path c)) ->
  (forall c, In c pl -> c_op c = PCreate -> f0 (c_path c) = None) ->
  forall k, backed f0 (run (firstn k (change_steps f pl)) st).
Proof.
  induction pl as [|c pl IH]; intros f st Hnd Ha HI Hun Hcr k; [simpl; rewrite firstn_nil; exact HI|].
  rewrite change_steps_cons. inversion Hnd as [|? ? Hn Hnd']; subst.
  assert (Hf : f (c_path c) = f0 (c_path c)) by (apply Hun; left; reflexivity).
  assert (Hsafe : safe_block (c_path c) (negb (exists_at f (c_path c))) false (change_block f c) = true).
  { apply change_block_safe. intros Eo. unfold exists_at. rewrite Hf, (Hcr c) by (auto; left; reflexivity). reflexivity. }
  assert (Hblock : forall j, backed f0 (run (firstn j (change_block f c)) st)).
  { intros j. eapply (safe_block_run f0 (c_path c) (change_block f c) _ false st Hsafe HI).
    - intros _. rewrite Ha. exact Hf.
    - intros E. left. apply negb_true_iff in E. unfold exists_at in E. rewrite Hf in E. destruct (f0 (c_path c)); [discriminate|reflexivity]. }
  apply prefix_inv_app; [exact Hblock|]. intros j. apply IH.
  - exact Hnd'.
  - apply run_change_block. exact Ha.
  - specialize (Hblock (length (change_block f c))). rewrite firstn_all in Hblock. exact Hblock.
  - intros c' Hc'. rewrite apply_change_other; [apply Hun; right; exact Hc'|].
    intros E. apply Hn. rewrite E. apply in_map. exact Hc'.
  - intros c' Hc'. apply Hcr. right. exact Hc'.
Qed.

(* the block of one root's manifest *)
Definition manifest_block (f : fs) (r : root) (es : list (str * N)) : list step :=
  (if exists_at f (mf_path r) then [KMk (LBackupDir (rtarget r)); KBackup (mf_path r)] else [])
  ++ write_atomic_steps (LDir (rpath r)) (LT (mf_path r)) (new_manifest r es)
  ++ write_atomic_steps (LStateDir (rtarget r)) (LState (rtarget r) (mf_path r)) (new_manifest r es).

Lemma manifest_block_safe f r es :
  safe_block (mf_path r) (negb (exists_at f (mf_path r))) false (manifest_block f r es) = true.
Proof. unfold manifest_block. destruct (exists_at f (mf_path r)); simpl; rewrite ?path_eqb_refl; reflexivity. Qed.

Lemma run_manifest_block f r es st : agrees st f ->
  agrees (run (manifest_block f r es) st) (upd f (mf_path r) (Some (new_manifest r es))).
Proof.
  intros Ha q. unfold manifest_block. rewrite !run_app. rewrite run_write_atomic_home by (intros p; discriminate).
  rewrite run_write_atomic_target.
  assert (H0 : agrees (run (if exists_at f (mf_path r) then [KMk (LBackupDir (rtarget r)); KBackup (mf_path r)] else []) st) f).
  { destruct (exists_at f (mf_path r)); exact Ha. }
  unfold upd. destruct (path_eqb q (mf_path r)); [reflexivity|apply H0].
Qed.

Lemma backed_manifest_steps f0 rs : forall i roots D pl f st,
  NoDup (map mf_path rs) -> agrees st f -> backed f0 st ->
  (forall r, In r rs -> f (mf_path r) = f0 (mf_path r)) ->
  forall k, backed f0 (run (firstn k (manifest_steps i rs roots D pl f)) st).
Proof.
  induction rs as [|r rs IH]; intros i roots D pl f st Hnd Ha HI Hun k; [simpl; rewrite firstn_nil; exact HI|].
  inversion Hnd as [|? ? Hn Hnd']; subst. cbn [manifest_steps].
  match goal with |- context [if ?b then _ ++ _ else _] => destruct b end.
  - set (es := per_root roots D i r).
    change ((if exists_at f (mf_path r) then [KMk (LBackupDir (rtarget r)); KBackup (mf_path r)] else [])
            ++ write_atomic_steps (LDir (rpath r)) (LT (mf_path r)) (new_manifest r es)
            ++ write_atomic_steps (LStateDir (rtarget r)) (LState (rtarget r) (mf_path r)) (new_manifest r es)
            ++ manifest_steps (S i) rs roots D pl (upd f (mf_path r) (Some (new_manifest r es))))
      with ((if exists_at f (mf_path r) then [KMk (LBackupDir (rtarget r)); KBackup (mf_path r)] else [])
            ++ write_atomic_steps (LDir (rpath r)) (LT (mf_path r)) (new_manifest r es)
            ++ write_atomic_steps (LStateDir (rtarget r)) (LState (rtarget r) (mf_path r)) (new_manifest r es)
            ++ manifest_steps (S i) rs roots D pl (upd f (mf_path r) (Some (new_manifest r es)))).
    assert (Eq : (if exists_at f (mf_path r) then [KMk (LBackupDir (rtarget r)); KBackup (mf_path r)] else [])
            ++ write_atomic_steps (LDir (rpath r)) (LT (mf_path r)) (new_manifest r es)
            ++ write_atomic_steps (LStateDir (rtarget r)) (LState (rtarget r) (mf_path r)) (new_manifest r es)
            ++ manifest_steps (S i) rs roots D pl (upd f (mf_path r) (Some (new_manifest r es)))
            = manifest_block f r es ++ manifest_steps (S i) rs roots D pl (upd f (mf_path r) (Some (new_manifest r es)))).
    { unfold manifest_block. rewrite <- !app_assoc. reflexivity. }
    rewrite Eq.
    assert (Hf : f (mf_path r) = f0 (mf_path r)) by (apply Hun; left; reflexivity).
    assert (Hblock : forall j, backed f0 (run (firstn j (manifest_block f r es)) st)).
    { intros j. eapply (safe_block_run f0 (mf_path r) (manifest_block f r es) _ false st (manifest_block_safe f r es) HI).
      - intros _. rewrite Ha. exact Hf.
      - intros E. left. apply negb_true_iff in E. unfold exists_at in E. rewrite Hf in E. destruct (f0 (mf_path r)); [discriminate|reflexivity]. }
    apply prefix_inv_app; [exact Hblock|]. intros j. apply IH.
    + exact Hnd'.
    + apply run_manifest_block. exact Ha.
    + specialize (Hblock (length (manifest_block f r es))). rewrite firstn_all in Hblock. exact Hblock.
    + intros r' Hr'. rewrite upd_other; [apply Hun; right; exact Hr'|].
      intros E. apply Hn. rewrite <- E. apply in_map. exact Hr'.
  - apply IH; auto. intros r' Hr'. apply Hun. right. exact Hr'.
Qed.

(* ---------- the whole sequence ---------- *)
Section Whole.
  Variables (w : world) (roots : list root) (D : list dfile) (pl : list change).
  Let f0 := files w.
  Hypothesis Hnd : NoDup (map c_path pl).
  Hypothesis Hrnd : NoDup (map mf_path roots).
  Hypothesis Hdisj : forall c r, In c pl -> In r roots -> c_path c <> mf_path r.
  Hypothesis Hcreate : forall c, In c pl -> c_op c = PCreate -> f0 (c_path c) = None.
  Let steps := steps_of_apply f0 roots D pl.

  Lemma backed_init : backed f0 (init_state f0).
  Proof. intros p. left. reflexivity. Qed.

  Lemma backed_prefix k : backed f0 (run_prefix k steps (init_state f0)).
  Proof.
    unfold run_prefix, steps, steps_of_apply.
    apply (prefix_inv_app (backed f0)); [apply backed_inert; [reflexivity|apply backed_init]|]. intros k1.
    set (st1 := run [KMk LSnapDir; KMk LBackupRoot; KMk LStateRoot] (init_state f0)).
    assert (Ha1 : agrees st1 f0) by (intros q; reflexivity).
    assert (HI1 : backed f0 st1) by (intros p; left; reflexivity).
    apply (prefix_inv_app (backed f0)).
    { apply backed_change_steps; auto. }
    intros k2.
    assert (HI2 : backed f0 (run (change_steps f0 pl) st1)).
    { pose proof (backed_change_steps f0 pl f0 st1 Hnd Ha1 HI1 (fun c _ => eq_refl) Hcreate (length (change_steps f0 pl))) as H.
      rewrite firstn_all in H. exact H. }
    assert (Ha2 : agrees (run (change_steps f0 pl) st1) (fold_left apply_change pl f0)) by (apply run_change_steps; exact Ha1).
    assert (Hun : forall r, In r roots -> fold_left apply_change pl f0 (mf_path r) = f0 (mf_path r)).
    { intros r Hr. apply fold_apply_other. intros c Hc E. apply (Hdisj c r Hc Hr). exact E. }
    apply (prefix_inv_app (backed f0)).
    { apply backed_manifest_steps; auto. }
    intros k3.
    assert (HI3 : backed f0 (run (manifest_steps 0 roots roots D pl (fold_left apply_change pl f0)) (run (change_steps f0 pl) st1))).
    { pose proof (backed_manifest_steps f0 roots 0 roots D pl _ _ Hrnd Ha2 HI2 Hun
                    (length (manifest_steps 0 roots roots D pl (fold_left apply_change pl f0)))) as H.
      rewrite firstn_all in H. exact H. }
    apply (prefix_inv_app (backed f0)).
    { apply backed_inert; [apply state_steps_inert|exact HI3]. }
    intros k4. apply backed_inert; [reflexivity|].
    pose proof (backed_inert f0 (state_steps D) _ (state_steps_inert D) HI3 (length (state_steps D))) as H.
    rewrite firstn_all in H. exact H.
  Qed.

  (* C07: every target-side file holds its complete previous or its complete new content *)
  Lemma crash_old_or_new k p :
    cfiles (run_prefix k steps (init_state f0)) p = f0 p \/
    cfiles (run_prefix k steps (init_state f0)) p = files (apply_plan KDeploy w roots D pl) p.
  Proof.
    destruct (prefix_old_or_new steps (init_state f0) p k) as [H|H].
    - apply steps_touch_once; auto.
    - left. exact H.
    - right. rewrite H. apply run_all_is_apply_plan.
  Qed.

  (* C07: a file whose previous content was replaced or removed has that content in the backup store *)
  Lemma crash_backup_before_replace k p o :
    f0 p = Some o -> cfiles (run_prefix k steps (init_state f0)) p <> Some o ->
    cbackup (run_prefix k steps (init_state f0)) p = Some o.
  Proof.
    intros Hf Hne. destruct (backed_prefix k p) as [H|[H|H]]; [congruence|congruence|]. rewrite H. exact Hf.
  Qed.
End Whole.

(* ---------- the snapshot record is written last ---------- *)
Definition is_rec (k : step) : bool := match k with KRen LRecord _ => true | _ => false end.

Lemma run_norec steps : forall st, existsb is_rec steps = false -> crecord (run steps st) = crecord st.
Proof.
  induction steps as [|k steps IH]; intros st H; [reflexivity|]. simpl in H. apply orb_false_iff in H as [H1 H2].
  unfold run. simpl. fold (run steps (exec st k)). rewrite IH by exact H2.
  destruct k as [l|l|l|l o|q|q]; try reflexivity. destruct l; try reflexivity. discriminate.
Qed.

Lemma existsb_firstn {A} (g : A -> bool) k l : existsb g l = false -> existsb g (firstn k l) = false.
Proof.
  revert k. induction l as [|x l IH]; intros k H; [rewrite firstn_nil; reflexivity|].
  destruct k; [reflexivity|]. simpl in *. apply orb_false_iff in H as [H1 H2]. rewrite H1. simpl. apply IH. exact H2.
Qed.

Lemma change_steps_norec pl : forall f, existsb is_rec (change_steps f pl) = false.
Proof.
  induction pl as [|c pl IH]; intros f; [reflexivity|]. cbn [change_steps]. rewrite !existsb_app, IH.
  destruct (c_op c); destruct (exists_at f (c_path c)); destruct (c_after c); reflexivity.
Qed.

Lemma manifest_steps_norec rs : forall i roots D pl f, existsb is_rec (manifest_steps i rs roots D pl f) = false.
Proof.
  induction rs as [|r rs IH]; intros i roots D pl f; [reflexivity|]. cbn [manifest_steps].
  match goal with |- context [if ?b then _ ++ _ else _] => destruct b end; [|apply IH].
  rewrite !existsb_app, IH. destruct (exists_at f (mf_path r)); reflexivity.
Qed.

Lemma state_steps_norec D : existsb is_rec (state_steps D) = false.
Proof. unfold state_steps. induction D as [|d D IH]; [reflexivity|]. cbn [flat_map]. rewrite existsb_app, IH. reflexivity. Qed.

(* C07: the snapshot record is visible only when every operation of the apply has been performed
   (all files written, all backups taken, all state files stored) *)
Lemma crash_record_last f roots D pl k :
  crecord (run_prefix k (steps_of_apply f roots D pl) (init_state f)) = true ->
  (length (steps_of_apply f roots D pl) <= k)%nat /\
  run_prefix k (steps_of_apply f roots D pl) (init_state f) = run (steps_of_apply f roots D pl) (init_state f).
Proof.
  intros H. destruct (Nat.le_gt_cases (length (steps_of_apply f roots D pl)) k) as [Hk|Hk].
  - split; [exact Hk|]. unfold run_prefix. rewrite firstn_all2 by exact Hk. reflexivity.
  - exfalso. unfold run_prefix in H.
    remember ([KMk LSnapDir; KMk LBackupRoot; KMk LStateRoot] ++ change_steps f pl
                 ++ manifest_steps 0 roots roots D pl (fold_left apply_change pl f) ++ state_steps D
                 ++ [KMk LSnapDir; KTmpC LRecord; KTmpW LRecord]) as body eqn:Eb.
    assert (Es : steps_of_apply f roots D pl = body ++ [KRen LRecord record_content]).
    { unfold steps_of_apply, write_atomic_steps. rewrite Eb. rewrite <- !app_assoc. reflexivity. }
    rewrite Es in H, Hk. rewrite app_length in Hk. cbn [length] in Hk.
    rewrite firstn_app in H. replace (k - length body)%nat with 0%nat in H by lia. cbn [firstn] in H. rewrite app_nil_r in H.
    rewrite run_norec in H; [discriminate|]. apply existsb_firstn. rewrite Eb.
    rewrite !existsb_app, change_steps_norec, manifest_steps_norec, state_steps_norec. reflexivity.
Qed.

(* ... and then the state store holds the bytes of every desired file *)
Lemma state_steps_store D : forall st d, In d D ->
  In (dtarget d, dpath d, FBytes (dcontent d)) (cstatef (run (state_steps D) st)).
Proof.
  unfold state_steps. induction D as [|x D IH]; intros st d Hd; [contradiction|].
  cbn [flat_map]. rewrite run_app. destruct Hd as [->|Hd]; [|apply IH; exact Hd].
  assert (Hmono : forall steps s0 e, In e (cstatef s0) -> In e (cstatef (run steps s0))).
  { induction steps as [|k steps IHs]; intros s0 e He; [exact He|]. unfold run. simpl. fold (run steps (exec s0 k)).
    apply IHs. destruct k as [l|l|l|l o|q|q]; simpl; try exact He. destruct l; simpl; try exact He. right. exact He. }
  apply Hmono. unfold run, write_atomic_steps. simpl. left. reflexivity.
Qed.

(* ================= rollback under crashes ================= *)
Lemma run_restore_steps l : forall f st, agrees st f -> agrees (run (restore_steps l) st) (restore_managed f l).
Proof.
  unfold restore_steps, restore_managed. induction l as [|e l IH]; intros f st Ha; [exact Ha|].
  cbn [flat_map fold_left]. rewrite run_app. apply IH. intros q. rewrite run_write_atomic_target.
  unfold upd. destruct (path_eqb q (snd (fst e))); [reflexivity|apply Ha].
Qed.

Lemma run_manifest_restore_steps l : forall f st, agrees st f ->
  agrees (run (manifest_restore_steps l) st) (restore_manifests f l).
Proof.
  unfold manifest_restore_steps, restore_manifests. induction l as [|c l IH]; intros f st Ha; [exact Ha|].
  cbn [flat_map fold_left]. rewrite run_app. apply IH.
  destruct (is_manifest_path (a_path c) && is_cu (a_op c)); [|exact Ha].
  destruct (a_after c) as [o|]; [|exact Ha]. intros q. rewrite run_write_atomic_target.
  unfold upd. destruct (path_eqb q (a_path c)); [reflexivity|apply Ha].
Qed.

Lemma run_delete_steps cur tgt : forall f st, agrees st f ->
  agrees (run (delete_steps f cur tgt) st) (delete_unlisted f cur tgt).
Proof.
  induction cur as [|e cur IH]; intros f st Ha; [exact Ha|].
  cbn [delete_steps]. unfold delete_unlisted. cbn [fold_left].
  fold (delete_unlisted (if mem_tpc (fst (fst e), snd (fst e)) tgt then f else upd f (snd (fst e)) None) cur tgt).
  destruct (mem_tpc (fst (fst e), snd (fst e)) tgt) eqn:Em; [apply IH; exact Ha|].
  destruct (exists_at f (snd (fst e))) eqn:Ex.
  - change (KRemove (snd (fst e)) :: delete_steps (upd f (snd (fst e)) None) cur tgt)
      with ([KRemove (snd (fst e))] ++ delete_steps (upd f (snd (fst e)) None) cur tgt).
    rewrite run_app. apply IH. intros q. unfold run. simpl. unfold upd.
    destruct (path_eqb q (snd (fst e))); [reflexivity|apply Ha].
  - (* nothing to remove: the model's pointwise update is the identity there *)
    intros q. pose proof (IH f st Ha q) as H. rewrite H.
    assert (E : forall g g', (forall x, g x = g' x) -> forall x, delete_unlisted g cur tgt x = delete_unlisted g' cur tgt x).
    { clear. induction cur as [|e' cur IHc]; intros g g' Hg x; [apply Hg|].
      unfold delete_unlisted. cbn [fold_left].
      fold (delete_unlisted (if mem_tpc (fst (fst e'), snd (fst e')) tgt then g else upd g (snd (fst e')) None) cur tgt).
      fold (delete_unlisted (if mem_tpc (fst (fst e'), snd (fst e')) tgt then g' else upd g' (snd (fst e')) None) cur tgt).
      apply IHc. intros y. destruct (mem_tpc (fst (fst e'), snd (fst e')) tgt); [apply Hg|].
      unfold upd. destruct (path_eqb y (snd (fst e'))); [reflexivity|apply Hg]. }
    apply E. intros x. unfold upd. destruct (path_eqb x (snd (fst e))) eqn:Ep; [|reflexivity].
    apply path_eqb_eq in Ep. subst x. unfold exists_at in Ex. destruct (f (snd (fst e))); [discriminate|reflexivity].
Qed.

(* C07 (rollback): an uninterrupted run of rollback's operation sequence yields exactly the files
   of the rollback model *)
Lemma run_all_is_rollback w id w' tgt cur h :
  nth_error (snaps w) id = Some tgt -> head_of (snaps w) = Some h -> nth_error (snaps w) h = Some cur ->
  rollback w id = (RbOk, w') ->
  forall q, cfiles (run (steps_of_rollback (files w) tgt cur) (init_state (files w))) q = files w' q.
Proof.
  intros Ht Hh Hc Hrb q. unfold rollback in Hrb. rewrite Ht, Hh, Hc in Hrb.
  assert (Hw : files w' = delete_unlisted (restore_manifests (restore_managed (files w) (sn_managed tgt)) (sn_changes tgt))
                                           (sn_managed cur) (sn_managed tgt)).
  { destruct (sn_kind tgt); try discriminate; destruct (sn_state tgt); try discriminate; inversion Hrb; reflexivity. }
  rewrite Hw. unfold steps_of_rollback. rewrite !run_app.
  rewrite run_write_atomic_home by (intros p; discriminate).
  assert (Hk : forall st, cfiles (run [KMk LSnapDir] st) = cfiles st) by reflexivity. rewrite Hk.
  apply run_delete_steps. apply run_manifest_restore_steps. apply run_restore_steps. intros x. reflexivity.
Qed.

(* counting effective operations of the rollback sequence *)
Lemma restore_steps_ntouch p l :
  ntouch p (restore_steps l) = length (filter (fun e => path_eqb (snd (fst e)) p) l).
Proof.
  unfold restore_steps. induction l as [|e l IH]; [reflexivity|]. cbn [flat_map filter]. rewrite ntouch_app, IH, ntouch_write_atomic.
  destruct (path_eqb (snd (fst e)) p); reflexivity.
Qed.

Lemma manifest_restore_steps_ntouch p l :
  (ntouch p (manifest_restore_steps l) <=
   length (filter (fun c => path_eqb (a_path c) p) (filter (fun c => is_manifest_path (a_path c) && is_cu (a_op c)) l)))%nat.
Proof.
  unfold manifest_restore_steps. induction l as [|c l IH]; [unfold ntouch; simpl; lia|]. cbn [flat_map filter]. rewrite ntouch_app.
  destruct (is_manifest_path (a_path c) && is_cu (a_op c)).
  - cbn [filter]. destruct (a_after c).
    + rewrite ntouch_write_atomic. destruct (path_eqb (a_path c) p); simpl; lia.
    + unfold ntouch at 1. simpl. destruct (path_eqb (a_path c) p); simpl; lia.
  - unfold ntouch at 1. simpl. lia.
Qed.

Lemma delete_steps_ntouch p cur tgt : forall f,
  (ntouch p (delete_steps f cur tgt) <=
   length (filter (fun e => path_eqb (snd (fst e)) p && negb (mem_tpc (fst (fst e), snd (fst e)) tgt)) cur))%nat.
Proof.
  induction cur as [|e cur IH]; intros f; [unfold ntouch; simpl; lia|]. cbn [delete_steps filter].
  destruct (mem_tpc (fst (fst e), snd (fst e)) tgt); [rewrite andb_false_r; apply IH|]. rewrite andb_true_r.
  destruct (exists_at f (snd (fst e))).
  - unfold ntouch. cbn [filter touches]. specialize (IH (upd f (snd (fst e)) None)). unfold ntouch in IH.
    destruct (path_eqb (snd (fst e)) p); simpl; lia.
  - specialize (IH f). destruct (path_eqb (snd (fst e)) p); simpl; lia.
Qed.

(* C07 (rollback): at every crash point every file holds its previous or its final content.
   Hypotheses as for the exact-effect theorem of C06: the chosen snapshot's managed paths are
   pairwise distinct and no manifest files, it wrote each manifest once, the head's managed paths
   are distinct, no manifest files, and a path is managed under one target in both *)
Lemma rollback_old_or_new f tgt cur k p :
  NoDup (map (fun e : str * path * N => snd (fst e)) (sn_managed tgt)) ->
  NoDup (map (fun e : str * path * N => snd (fst e)) (sn_managed cur)) ->
  (forall e, In e (sn_managed tgt) -> is_manifest_path (snd (fst e)) = false) ->
  (forall e, In e (sn_managed cur) -> is_manifest_path (snd (fst e)) = false) ->
  (forall e e', In e (sn_managed cur) -> In e' (sn_managed tgt) -> snd (fst e) = snd (fst e') -> fst (fst e) = fst (fst e')) ->
  NoDup (map a_path (filter (fun c => is_manifest_path (a_path c) && is_cu (a_op c)) (sn_changes tgt))) ->
  cfiles (run_prefix k (steps_of_rollback f tgt cur) (init_state f)) p = f p \/
  cfiles (run_prefix k (steps_of_rollback f tgt cur) (init_state f)) p =
    cfiles (run (steps_of_rollback f tgt cur) (init_state f)) p.
Proof.
  intros H1 H2 H3 H4 H5 H6. apply (prefix_old_or_new (steps_of_rollback f tgt cur) (init_state f) p k).
  unfold steps_of_rollback. rewrite !ntouch_app, restore_steps_ntouch.
  rewrite ntouch_write_atomic_home by (intros q; discriminate).
  assert (Hk : ntouch p [KMk LSnapDir] = 0%nat) by reflexivity. rewrite Hk.
  pose proof (manifest_restore_steps_ntouch p (sn_changes tgt)) as Hm.
  pose proof (delete_steps_ntouch p (sn_managed cur) (sn_managed tgt)
                (restore_manifests (restore_managed f (sn_managed tgt)) (sn_changes tgt))) as Hd.
  pose proof (nodup_filter_le1 (fun e : str * path * N => snd (fst e)) (sn_managed tgt) p H1) as A1.
  pose proof (nodup_filter_le1 a_path _ p H6) as A2.
  assert (A3 : (length (filter (fun e : str * path * N => path_eqb (snd (fst e)) p && negb (mem_tpc (fst (fst e), snd (fst e)) (sn_managed tgt))) (sn_managed cur)) <= 1)%nat).
  { pose proof (nodup_filter_le1 (fun e : str * path * N => snd (fst e)) (sn_managed cur) p H2) as A.
    eapply Nat.le_trans; [|exact A]. clear. induction (sn_managed cur) as [|e l IH]; [simpl; lia|]. simpl.
    destruct (path_eqb (snd (fst e)) p); simpl; [destruct (negb _); simpl; lia|exact IH]. }
  (* the three groups are pairwise exclusive at p *)
  destruct (is_manifest_path p) eqn:Emp.
  - (* p is a manifest: only the manifest group can touch it *)
    assert (Z1 : filter (fun e : str * path * N => path_eqb (snd (fst e)) p) (sn_managed tgt) = []).
    { apply filter_nil_iff. intros e He. apply path_eqb_neq. intros E. rewrite <- E, (H3 e He) in Emp. discriminate. }
    assert (Z3 : filter (fun e : str * path * N => path_eqb (snd (fst e)) p && negb (mem_tpc (fst (fst e), snd (fst e)) (sn_managed tgt))) (sn_managed cur) = []).
    { apply filter_nil_iff. intros e He. apply andb_false_iff. left. apply path_eqb_neq. intros E. rewrite <- E, (H4 e He) in Emp. discriminate. }
    rewrite Z1. rewrite Z3 in Hd. simpl in *. lia.
  - assert (Z2 : filter (fun c => path_eqb (a_path c) p) (filter (fun c => is_manifest_path (a_path c) && is_cu (a_op c)) (sn_changes tgt)) = []).
    { apply filter_nil_iff. intros c Hc. apply filter_In in Hc as [_ Hc]. apply andb_true_iff in Hc as [Hc _].
      apply path_eqb_neq. intros E. rewrite E in Hc. congruence. }
    rewrite Z2 in Hm. simpl in Hm.
    destruct (filter (fun e : str * path * N => path_eqb (snd (fst e)) p) (sn_managed tgt)) as [|e0 t0] eqn:Et.
    + simpl in *. lia.
    + (* p is restored: then it is not deleted *)
      assert (He0 : In e0 (sn_managed tgt) /\ snd (fst e0) = p).
      { assert (Hin : In e0 (filter (fun e : str * path * N => path_eqb (snd (fst e)) p) (sn_managed tgt))) by (rewrite Et; left; reflexivity).
        apply filter_In in Hin as [Ha Hb]. apply path_eqb_eq in Hb. auto. }
      assert (Z3 : filter (fun e : str * path * N => path_eqb (snd (fst e)) p && negb (mem_tpc (fst (fst e), snd (fst e)) (sn_managed tgt))) (sn_managed cur) = []).
      { apply filter_nil_iff. intros e He. destruct (path_eqb (snd (fst e)) p) eqn:Ep; [|reflexivity]. simpl.
        apply path_eqb_eq in Ep. apply negb_false_iff. unfold mem_tpc. apply existsb_exists. exists e0. split; [apply He0|].
        destruct He0 as [Hin0 Hp0]. pose proof (H5 e e0 He Hin0 (eq_trans Ep (eq_sym Hp0))) as Ht.
        apply tp_eqb_eq. rewrite Ht, Ep, Hp0. reflexivity. }
      rewrite Z3 in Hd. simpl in *. lia.
Qed.

(* C07 (rollback): the rollback record is written last *)
Lemma restore_steps_norec l : existsb is_rec (restore_steps l) = false.
Proof. unfold restore_steps. induction l as [|e l IH]; [reflexivity|]. cbn [flat_map]. rewrite existsb_app, IH. reflexivity. Qed.
Lemma manifest_restore_steps_norec l : existsb is_rec (manifest_restore_steps l) = false.
Proof.
  unfold manifest_restore_steps. induction l as [|c l IH]; [reflexivity|]. cbn [flat_map]. rewrite existsb_app, IH.
  destruct (is_manifest_path (a_path c) && is_cu (a_op c)); [destruct (a_after c)|]; reflexivity.
Qed.
Lemma delete_steps_norec cur tgt : forall f, existsb is_rec (delete_steps f cur tgt) = false.
Proof.
  induction cur as [|e cur IH]; intros f; [reflexivity|]. cbn [delete_steps].
  destruct (mem_tpc _ tgt); [apply IH|]. destruct (exists_at f _); [simpl; apply IH|apply IH].
Qed.

Lemma rollback_record_last f tgt cur k :
  crecord (run_prefix k (steps_of_rollback f tgt cur) (init_state f)) = true ->
  (length (steps_of_rollback f tgt cur) <= k)%nat.
Proof.
  intros H. destruct (Nat.le_gt_cases (length (steps_of_rollback f tgt cur)) k) as [Hk|Hk]; [exact Hk|].
  exfalso. unfold run_prefix in H.
  remember (restore_steps (sn_managed tgt) ++ manifest_restore_steps (sn_changes tgt)
            ++ delete_steps (restore_manifests (restore_managed f (sn_managed tgt)) (sn_changes tgt)) (sn_managed cur) (sn_managed tgt)
            ++ [KMk LSnapDir] ++ [KMk LSnapDir; KTmpC LRecord; KTmpW LRecord]) as body eqn:Eb.
  assert (Es : steps_of_rollback f tgt cur = body ++ [KRen LRecord record_content]).
  { unfold steps_of_rollback, write_atomic_steps. rewrite Eb. rewrite <- !app_assoc. reflexivity. }
  rewrite Es in H, Hk. rewrite app_length in Hk. cbn [length] in Hk.
  rewrite firstn_app in H. replace (k - length body)%nat with 0%nat in H by lia. cbn [firstn] in H. rewrite app_nil_r in H.
  rewrite run_norec in H; [discriminate|]. apply existsb_firstn. rewrite Eb.
  rewrite !existsb_app, restore_steps_norec, manifest_restore_steps_norec, delete_steps_norec. reflexivity.
Qed.

(* ---------- the two phases of an interrupted apply ----------
   A prefix of the operation sequence either lies within the change phase — then only planned
   paths have been touched — or contains the whole change phase — then every path that is not a
   root's manifest already holds its final content. *)
Lemma ntouch_firstn_le p k steps : (ntouch p (firstn k steps) <= ntouch p steps)%nat.
Proof.
  unfold ntouch. rewrite <- (firstn_skipn k steps) at 2. rewrite filter_app, app_length. lia.
Qed.

Lemma crash_phase f0 roots D pl k :
  let st := run_prefix k (steps_of_apply f0 roots D pl) (init_state f0) in
  (forall q, (forall c, In c pl -> c_path c <> q) -> cfiles st q = f0 q) \/
  (forall p, (forall r, In r roots -> mf_path r <> p) -> cfiles st p = fold_left apply_change pl f0 p).
Proof.
  cbv zeta. unfold run_prefix, steps_of_apply. rewrite firstn_app_run.
  set (st1 := run (firstn k [KMk LSnapDir; KMk LBackupRoot; KMk LStateRoot]) (init_state f0)).
  assert (Ha1 : agrees st1 f0).
  { intros q. unfold st1. destruct k as [|[|[|k]]]; cbn [firstn]; try reflexivity. rewrite firstn_nil. reflexivity. }
  set (k1 := (k - length [KMk LSnapDir; KMk LBackupRoot; KMk LStateRoot])%nat).
  rewrite firstn_app_run.
  destruct (Nat.le_gt_cases (length (change_steps f0 pl)) k1) as [Hk|Hk].
  - (* the whole change phase is in the prefix *)
    right. intros p Hp. rewrite (firstn_all2 (change_steps f0 pl)) by exact Hk.
    pose proof (run_change_steps pl f0 st1 Ha1) as Ha2.
    rewrite run_untouched; [apply Ha2|].
    assert (H0 : ntouch p (manifest_steps 0 roots roots D pl (fold_left apply_change pl f0) ++ state_steps D ++
                            write_atomic_steps LSnapDir LRecord record_content) = 0%nat).
    { rewrite !ntouch_app, state_steps_ntouch, ntouch_write_atomic_home by (intros q; discriminate).
      pose proof (manifest_steps_ntouch p roots 0 roots D pl (fold_left apply_change pl f0)) as Hm.
      assert (Hf : filter (fun r => path_eqb (mf_path r) p) roots = []).
      { apply filter_nil_iff. intros r Hr. apply path_eqb_neq. apply Hp. exact Hr. }
      rewrite Hf in Hm. simpl in Hm. lia. }
    pose proof (ntouch_firstn_le p (k1 - length (change_steps f0 pl)) (manifest_steps 0 roots roots D pl (fold_left apply_change pl f0) ++ state_steps D ++
                            write_atomic_steps LSnapDir LRecord record_content)) as Hle.
    lia.
  - (* the prefix ends inside the change phase *)
    left. intros q Hq. replace (k1 - length (change_steps f0 pl))%nat with 0%nat by lia. simpl.
    rewrite run_untouched; [apply Ha1|].
    pose proof (change_steps_ntouch q pl f0) as Hc.
    assert (Hf : filter (at_path q) pl = []).
    { apply filter_nil_iff. intros c Hc'. unfold at_path. apply path_eqb_neq. apply Hq. exact Hc'. }
    rewrite Hf in Hc. simpl in Hc.
    pose proof (ntouch_firstn_le q k1 (change_steps f0 pl)). lia.
Qed.
