(* Proofs/DryP.v — dry-run wrappers of the deploy core (C09) *)
From AP Require Import Base.Str Gen.Tables Model.Deploy Proofs.DeployP.
Open Scope N_scope.

Lemma deploy_dry_content json yes apply adopt flt w roots D :
  let dry := deploy_cli json yes apply true adopt flt w roots D in
  let real := deploy_cli json yes apply false adopt flt w roots D in
  snd dry = w /\ snd (fst dry) = None /\ fst (fst dry) = fst (fst real).
Proof.
  unfold deploy_cli. rewrite andb_false_r. cbn [negb].
  rewrite andb_true_r. destruct apply; cbn [fst snd]; [|repeat split; reflexivity].
  destruct (deploy_apply_in (if json then SJsonYes else SInteractive) yes adopt w roots D
              (plan (files w) D (managed_for_plan w roots flt))) as [out w']. repeat split; reflexivity.
Qed.

Lemma deploy_without_apply json yes dry adopt flt w roots D :
  deploy_cli json yes false dry adopt flt w roots D = (plan (files w) D (managed_for_plan w roots flt), None, w).
Proof. reflexivity. Qed.

Lemma restore_dry_content f D :
  snd (restore_cli true f D) = f /\ fst (restore_cli true f D) = fst (restore_cli false f D) /\
  (forall d, In d (fst (restore_cli false f D)) -> f (dpath d) = None) /\
  (forall p, f p <> None -> snd (restore_cli false f D) p = f p).
Proof.
  unfold restore_cli, restore_items. cbn [fst snd]. repeat split.
  - intros d Hd. apply filter_In in Hd as [_ Hx]. apply negb_true_iff in Hx. unfold exists_at in Hx.
    destruct (f (dpath d)); [discriminate|reflexivity].
  - intros p Hp. apply restore_create_only. exact Hp.
Qed.
