(* Proofs/LockWitness.v — concrete counterexamples (known classes K18a–c) for property C18. *)
From AP Require Import Base.Str Base.StrFacts Base.Sorting Model.Lock Proofs.LockP.
From Coq Require Import Lia ZifyBool Sorting.Sorted Sorting.Permutation.
Open Scope N_scope.

(* ------------------------------------------------------------------ refutations (K18a–c) *)

(* K18a, on entry lists: the real SHA-256 values of "hello\n" and "zz" *)
Definition wit_sha1 : str := s "5891b5b522d5df086d0ff0b110fbd9d21bb4fc7163af34d08286a2e846f6be03".
Definition wit_sha2 : str := s "4a60bf7d4bc1e485744cf7e8d0860524752fca1ce42331be7c439fd23043f151".
Definition wit_l1 : list entry :=
  [Build_entry (s "SKILL.md") wit_sha1 6; Build_entry (s "z.txt") wit_sha2 2].
Definition wit_l2 : list entry :=
  [Build_entry (s "SKILL.md" ++ 10 :: wit_sha1 ++ 10 :: s "6" ++ 10 :: s "z.txt") wit_sha2 2].

Definition sha_fields_ok (l : list entry) : Prop := Forall (fun e => is_sha256_hex (e_sha e) = true) l.

Ltac listy :=
  repeat first [apply SSorted_nil | apply SSorted_cons | apply Forall_nil | apply Forall_cons
               | apply NoDup_nil | apply NoDup_cons].
Ltac leaf := vm_compute; first [reflexivity | intuition discriminate].

Theorem encode_refuted :
  exists l1 l2, sorted_nodup l1 /\ sorted_nodup l2 /\ sha_fields_ok l1 /\ sha_fields_ok l2 /\
                l1 <> l2 /\ encode_tree l1 = encode_tree l2.
Proof.
  exists wit_l1, wit_l2.
  split; [|split; [|split; [|split; [|split]]]].
  - split; unfold wit_l1; simpl map; listy; leaf.
  - split; unfold wit_l2; simpl map; listy; leaf.
  - unfold sha_fields_ok, wit_l1. listy; leaf.
  - unfold sha_fields_ok, wit_l2. listy; leaf.
  - unfold wit_l1, wit_l2. intros H. apply (f_equal (@length entry)) in H. discriminate.
  - vm_compute. reflexivity.
Qed.

(* any two consecutive entries can be merged into one entry whose path contains newlines *)
Lemma encode_merge p1 s1 n1 p2 s2 n2 :
  encode_tree [Build_entry p1 s1 n1; Build_entry p2 s2 n2] =
  encode_tree [Build_entry (p1 ++ 10 :: s1 ++ 10 :: dec n1 ++ 10 :: p2) s2 n2].
Proof.
  unfold encode_tree, encode_entry. cbn [e_path e_sha e_size]. rewrite !app_nil_r.
  repeat (rewrite <- app_assoc; cbn [app]). reflexivity.
Qed.

Lemma entries_one sha root f :
  visible root f = true -> hash_tree_entries sha root [f] = [entry_of sha f].
Proof. intros H. unfold hash_tree_entries. cbn [filter]. rewrite H. reflexivity. Qed.

Lemma entries_two sha root f g :
  visible root f = true -> visible root g = true ->
  entry_leb (entry_of sha f) (entry_of sha g) = true ->
  hash_tree_entries sha root [f; g] = [entry_of sha f; entry_of sha g].
Proof.
  intros Hf Hg Hl. unfold hash_tree_entries. cbn [filter]. rewrite Hf, Hg.
  cbn [map isort insert]. rewrite Hl. reflexivity.
Qed.

(* K18a, on trees, for EVERY hash function with hex output: the name of the single file of the
   second tree spells out the first entry and the second path of the first tree *)
Definition wit_c1 : list N := [104; 101; 108; 108; 111; 10].     (* "hello\n" *)
Definition wit_c2 : list N := [122; 122].                        (* "zz" *)
Definition wit_p1 : str := [83; 75; 73; 76; 76; 46; 109; 100].   (* SKILL.md *)
Definition wit_p2 : str := [122; 46; 116; 120; 116].             (* z.txt *)
Definition wit_files1 : list file := [([wit_p1], wit_c1); ([wit_p2], wit_c2)].
Definition wit_name (sha : list N -> str) : str :=
  wit_p1 ++ 10 :: sha wit_c1 ++ 10 :: dec 6 ++ 10 :: wit_p2.
Definition wit_files2 (sha : list N -> str) : list file := [([wit_name sha], wit_c2)].

Lemma render_single name :
  Forall (fun x => x <> 92 /\ is_scalar x = true) name -> render_rel [name] = name.
Proof.
  intros G. unfold render_rel. cbn [join].
  rewrite lossy_id by (eapply Forall_impl; [|exact G]; intros x [_ ?]; assumption).
  apply replace_id. intros Hin. rewrite Forall_forall in G. apply G in Hin as [Hin _]. congruence.
Qed.

Lemma hex_plain x : forallb is_hex_lower x = true ->
  Forall (fun c => c <> 92 /\ is_scalar c = true) x.
Proof.
  intros H. rewrite forallb_forall in H. apply Forall_forall. intros c Hc. apply H in Hc.
  unfold is_hex_lower, is_ascii_digit in Hc. unfold is_scalar. lia.
Qed.

Lemma wit_p1_render : render_rel [wit_p1] = wit_p1. Proof. vm_compute. reflexivity. Qed.
Lemma wit_p2_render : render_rel [wit_p2] = wit_p2. Proof. vm_compute. reflexivity. Qed.
Lemma wit_vis1 : visible [] ([wit_p1], wit_c1) = true. Proof. vm_compute. reflexivity. Qed.
Lemma wit_vis2 : visible [] ([wit_p2], wit_c2) = true. Proof. vm_compute. reflexivity. Qed.
Lemma wit_leb : str_leb wit_p1 wit_p2 = true. Proof. vm_compute. reflexivity. Qed.

Lemma wit_vis_name sha : visible [] ([wit_name sha], wit_c2) = true.
Proof.
  unfold visible, has_git, wit_name, wit_p1, dotgit. cbn [app fst existsb str_eqb].
  replace (46 =? 83) with false by reflexivity. reflexivity.
Qed.

Lemma dec_6 : dec 6 = [54]. Proof. vm_compute. reflexivity. Qed.

Ltac plain_chars := listy; (split; [discriminate|reflexivity]).

Lemma wit_name_render sha : sha_ok sha -> render_rel [wit_name sha] = wit_name sha.
Proof.
  intros Hs. apply render_single. unfold wit_name. rewrite dec_6. apply Forall_app. split.
  - unfold wit_p1. plain_chars.
  - constructor; [split; [discriminate|reflexivity]|]. apply Forall_app. split.
    + apply hex_plain. specialize (Hs wit_c1). unfold is_sha256_hex in Hs.
      apply andb_true_iff in Hs as [_ Hs]. exact Hs.
    + unfold wit_p2. cbn [app]. plain_chars.
Qed.

Lemma wit_entries1 sha :
  hash_tree_entries sha [] wit_files1 =
  [Build_entry wit_p1 (sha wit_c1) 6; Build_entry wit_p2 (sha wit_c2) 2].
Proof.
  unfold wit_files1. rewrite entries_two.
  - unfold entry_of. cbn [fst snd]. rewrite wit_p1_render, wit_p2_render. reflexivity.
  - exact wit_vis1.
  - exact wit_vis2.
  - unfold entry_leb, entry_of. cbn [fst snd e_path]. rewrite wit_p1_render, wit_p2_render. exact wit_leb.
Qed.

Lemma wit_entries2 sha : sha_ok sha ->
  hash_tree_entries sha [] (wit_files2 sha) = [Build_entry (wit_name sha) (sha wit_c2) 2].
Proof.
  intros Hs. unfold wit_files2. rewrite entries_one by apply wit_vis_name.
  unfold entry_of. cbn [fst snd]. rewrite wit_name_render by exact Hs. reflexivity.
Qed.

Theorem module_hash_collision (sha : list N -> str) (sha_text : str -> str) :
  sha_ok sha ->
  NoDup (shown_paths [] wit_files1) /\ NoDup (shown_paths [] (wit_files2 sha)) /\
  ~ same_content (tree_content [] wit_files1) (tree_content [] (wit_files2 sha)) /\
  hash_tree_entries sha [] wit_files1 <> hash_tree_entries sha [] (wit_files2 sha) /\
  module_hash sha sha_text [] (NDir wit_files1) = module_hash sha sha_text [] (NDir (wit_files2 sha)).
Proof.
  intros Hs.
  assert (T2 : tree_content [] (wit_files2 sha) = [(wit_name sha, wit_c2)]).
  { unfold tree_content, shown, wit_files2. cbn [filter]. rewrite wit_vis_name. cbn [map fst snd].
    rewrite wit_name_render by exact Hs. reflexivity. }
  split; [|split; [|split; [|split]]].
  - unfold shown_paths, shown, wit_files1. cbn [filter]. rewrite wit_vis1, wit_vis2. cbn [map fst].
    rewrite wit_p1_render, wit_p2_render. listy; leaf.
  - unfold shown_paths, shown, wit_files2. cbn [filter]. rewrite wit_vis_name. cbn [map].
    listy. intros [].
  - intros H. specialize (H (wit_p2, wit_c2)). destruct H as [H _].
    assert (Hin : In (wit_p2, wit_c2) (tree_content [] wit_files1)).
    { unfold tree_content, shown, wit_files1. cbn [filter]. rewrite wit_vis1, wit_vis2. cbn [map fst snd].
      rewrite wit_p2_render. right. left. reflexivity. }
    apply H in Hin. rewrite T2 in Hin. destruct Hin as [Hin|[]].
    unfold wit_name, wit_p1, wit_p2 in Hin. discriminate.
  - rewrite wit_entries1, (wit_entries2 sha Hs). intros H. apply (f_equal (@length entry)) in H. discriminate.
  - unfold module_hash, hash_tree. rewrite wit_entries1, (wit_entries2 sha Hs). f_equal.
    apply encode_merge.
Qed.

(* K18b: '\' is rewritten to '/', so a file name containing '\' renders like a nested path;
   K18c: ill-formed UTF-8 is rendered as U+FFFD, so different ill-formed names render alike *)
Theorem render_refuted :
  (exists p q, p <> q /\ render_rel p = render_rel q /\ Forall (fun c => ~ In 47 c /\ c <> []) (p ++ q)) /\
  (exists a b, a <> b /\ render_rel [a] = render_rel [b] /\ ~ In 47 a /\ ~ In 92 a /\ ~ In 47 b /\ ~ In 92 b).
Proof.
  split.
  - exists [[97; 92; 98]], [[97]; [98]]. split; [discriminate|]. split; [reflexivity|].
    repeat constructor; simpl; intuition discriminate.
  - exists [97; 1114367], [97; 1114366]. split; [discriminate|]. split; [reflexivity|].
    simpl; intuition discriminate.
Qed.

(* ... and when two files of one tree render alike the (stable) sort keeps the walk order, so the
   entry list depends on it *)
Theorem order_refuted :
  exists (sha : list N -> str) files files',
    Permutation files files' /\ NoDup (map fst files) /\
    hash_tree_entries sha [] files <> hash_tree_entries sha [] files'.
Proof.
  exists (fun c => c), [([[97; 92; 98]], [1]); ([[97]; [98]], [2])],
         [([[97]; [98]], [2]); ([[97; 92; 98]], [1])].
  split; [apply perm_swap|]. split.
  - repeat constructor; simpl; intuition discriminate.
  - vm_compute. discriminate.
Qed.
