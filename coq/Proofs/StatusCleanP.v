(* Proofs/StatusCleanP.v — after a successful deploy, status reports nothing missing or modified (C05) *)
From AP Require Import Base.Str Base.StrFacts Base.Sorting Gen.Tables Model.Deploy Model.Status
                       Proofs.DeployP Proofs.ConvergeP Proofs.StatusP.
Open Scope N_scope.

Lemma find_desired_in D tp d : find_desired D tp = Some d -> In d D /\ dkey d = tp.
Proof. unfold find_desired. intros H. apply find_some in H as [H1 H2]. apply tp_eqb_eq in H2. auto. Qed.

Lemma status_clean_when_converged f universe roots D it :
  (forall d, In d D -> f (dpath d) = Some (FBytes (dcontent d))) ->
  In it (report f universe roots D) -> i_kind it = DExtra.
Proof.
  intros Hconv Hin. apply report_sound_complete in Hin.
  assert (Hcd : forall rt d, In d D -> In it (compare_desired f rt d) -> False).
  { intros rt d Hd Hc. apply compare_desired_spec in Hc as (_ & _ & _ & _ & [[o (Hf & Hne & _)]|(Hf & _)]).
    - rewrite (Hconv d Hd) in Hf. inversion Hf. subst o. contradiction.
    - rewrite (Hconv d Hd) in Hf. discriminate. }
  destruct Hin as [[_ [i [r [Hn Hs]]]]|[_ [d [Hd Hc]]]]; [|exfalso; eapply Hcd; eauto].
  destruct Hs as [[_ [tp (Htp & Ht & Hp & Hr & Hc)]]|[(_ & _ & Hk & _)|[_ [d (Hd & _ & Hc)]]]]; [|exact Hk|exfalso; eapply Hcd; eauto].
  destruct Hc as [[d [o (Hd & Hf & Hne & _)]]|[[d (Hd & Hf & _)]|[o (_ & _ & Hk & _)]]]; [| |exact Hk].
  - exfalso. destruct (find_desired_in _ _ _ Hd) as [Hin Hk]. rewrite <- Hk in Hf. simpl in Hf.
    rewrite (Hconv d Hin) in Hf. inversion Hf. subst o. contradiction.
  - exfalso. destruct (find_desired_in _ _ _ Hd) as [Hin Hk]. rewrite <- Hk in Hf. simpl in Hf.
    rewrite (Hconv d Hin) in Hf. discriminate.
Qed.

Lemma deploy_status_clean st confirmed adopt flt w roots D pl w' universe it :
  deploy_cmd st confirmed adopt flt w roots D = (pl, (OApplied, w')) ->
  wfD roots D -> wfM D (managed_for_plan w roots flt) ->
  In it (report (files w') universe roots D) -> i_kind it = DExtra.
Proof.
  intros H HD HM. apply status_clean_when_converged.
  exact (proj1 (deploy_converged _ _ _ _ _ _ _ _ _ H HD HM)).
Qed.
