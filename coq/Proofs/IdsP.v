(* Proofs/IdsP.v — lemmas about Model/Ids.v *)
From AP Require Import Base.Str Base.StrFacts Model.Ids.
From Coq Require Import Lia ZifyBool.
Open Scope N_scope.
Arguments N.add : simpl never.
Arguments N.sub : simpl never.
Arguments N.eqb : simpl never.
Arguments N.ltb : simpl never.
Arguments N.leb : simpl never.

(* ---------- generic list facts ---------- *)

Lemma app_eq_len_tail {A} (x1 : list A) : forall x2 h1 h2,
  length h1 = length h2 -> x1 ++ h1 = x2 ++ h2 -> x1 = x2 /\ h1 = h2.
Proof.
  induction x1 as [|a x1 IH]; intros [|b x2] h1 h2 Hl He; simpl in *.
  - auto.
  - exfalso. rewrite He in Hl. simpl in Hl. rewrite app_length in Hl. lia.
  - exfalso. rewrite <- He in Hl. simpl in Hl. rewrite app_length in Hl. lia.
  - inversion He; subst. destruct (IH x2 h1 h2 Hl H1) as [-> ->]. auto.
Qed.

Lemma Forall_firstn {A} (P : A -> Prop) n (l : list A) : Forall P l -> Forall P (firstn n l).
Proof.
  revert l. induction n as [|n IH]; intros [|a l] H; simpl; try constructor.
  - inversion H; assumption.
  - inversion H; auto.
Qed.

Lemma mem_char_In c x : mem_char c x = true <-> In c x.
Proof.
  unfold mem_char. rewrite existsb_exists. split.
  - intros [y [Hy E]]. apply N.eqb_eq in E. subst. exact Hy.
  - intros H. exists c. split; [exact H|apply N.eqb_refl].
Qed.

(* ---------- character classes ---------- *)

Definition fs_safe_char (c : N) : Prop := is_fs_keep c = true.

Lemma keep_ascii c : is_fs_keep c = true -> c < 128 /\ c <> 47 /\ c <> 92 /\ c <> 0 /\ c <> 46 /\ c <> 58.
Proof. unfold is_fs_keep, is_ascii_alnum, is_ascii_digit, is_ascii_upper, is_ascii_lower. lia. Qed.

Lemma hex_keep c : is_hex_lower c = true -> is_fs_keep c = true.
Proof. unfold is_hex_lower, is_fs_keep, is_ascii_alnum, is_ascii_digit, is_ascii_upper, is_ascii_lower. lia. Qed.

Lemma sanitize_keep x : Forall fs_safe_char (sanitize x).
Proof.
  induction x as [|c x IH]; simpl; constructor; [|exact IH].
  unfold fs_safe_char. destruct (is_fs_keep c) eqn:E; [exact E|reflexivity].
Qed.

Lemma sanitize_length x : length (sanitize x) = length x.
Proof. apply map_length. Qed.

Lemma sanitize_id x : Forall fs_safe_char x -> sanitize x = x.
Proof.
  induction 1 as [|c x Hc _ IH]; simpl; [reflexivity|]. unfold fs_safe_char in Hc. rewrite Hc, IH. reflexivity.
Qed.

Lemma module_lit_keep : Forall fs_safe_char module_lit.
Proof. repeat constructor. Qed.

Lemma utf8_len_ascii x : Forall (fun c => c < 128) x -> utf8_len x = N.of_nat (length x).
Proof.
  induction 1 as [|c x Hc _ IH]; [reflexivity|].
  unfold utf8_len in *. simpl fold_right. rewrite IH. unfold utf8_len1.
  destruct (c <? 128) eqn:E; simpl length; lia.
Qed.

(* ---------- key prefix ---------- *)

Section WithSha.
  Variable sha : str -> str.
  Hypothesis Hsha : sha_ok sha.

  Lemma sha10_length id : length (sha10 sha id) = 10%nat.
  Proof. unfold sha10. rewrite firstn_length. destruct (Hsha id) as [H _]. rewrite H. reflexivity. Qed.

  Lemma sha10_hex id : Forall (fun c => is_hex_lower c = true) (sha10 sha id).
  Proof.
    unfold sha10. apply Forall_firstn. destruct (Hsha id) as [_ H].
    rewrite forallb_forall in H. apply Forall_forall. exact H.
  Qed.

  Lemma sha10_keep id : Forall fs_safe_char (sha10 sha id).
  Proof. eapply Forall_impl; [|apply sha10_hex]. intros c. apply hex_keep. Qed.

  Lemma key_prefix_keep max id : Forall fs_safe_char (key_prefix max id).
  Proof.
    unfold key_prefix.
    assert (H : Forall fs_safe_char (if is_empty (sanitize id) then module_lit else sanitize id)).
    { destruct (is_empty (sanitize id)); [apply module_lit_keep|apply sanitize_keep]. }
    destruct max as [m|]; [|exact H].
    destruct (m <? _); [apply Forall_firstn|]; exact H.
  Qed.

  Lemma key_prefix_bound m id : N.of_nat (length (key_prefix (Some m) id)) <= m.
  Proof.
    unfold key_prefix.
    set (s1 := if is_empty (sanitize id) then module_lit else sanitize id).
    destruct (m <? N.of_nat (length s1)) eqn:E.
    - rewrite firstn_length. lia.
    - lia.
  Qed.

  Lemma key_prefix_id max x :
    Forall fs_safe_char x -> x <> [] ->
    match max with Some m => N.of_nat (length x) <= m | None => True end ->
    key_prefix max x = x.
  Proof.
    intros Hk Hne Hm. unfold key_prefix. rewrite (sanitize_id x Hk).
    destruct x as [|c x]; [contradiction|]. simpl is_empty.
    destruct max as [m|]; [|reflexivity].
    destruct (m <? N.of_nat (length (c :: x))) eqn:E; [lia|reflexivity].
  Qed.

  Lemma fs_key_with_length max id :
    length (fs_key_with sha max id) = (length (key_prefix max id) + 12)%nat.
  Proof. unfold fs_key_with. rewrite !app_length, sha10_length. simpl. lia. Qed.

  Lemma fs_key_with_keep max id : Forall fs_safe_char (fs_key_with sha max id).
  Proof.
    unfold fs_key_with. apply Forall_app. split; [apply key_prefix_keep|].
    apply Forall_app. split; [repeat constructor|apply sha10_keep].
  Qed.

  Lemma keep_legacy_safe k : k <> [] -> Forall fs_safe_char k -> legacy_safe k = true.
  Proof.
    intros Hne Hk. unfold legacy_safe.
    assert (H47 : mem_char 47 k = false).
    { destruct (mem_char 47 k) eqn:E; [|reflexivity]. apply mem_char_In in E.
      rewrite Forall_forall in Hk. apply Hk, keep_ascii in E. lia. }
    assert (H92 : mem_char 92 k = false).
    { destruct (mem_char 92 k) eqn:E; [|reflexivity]. apply mem_char_In in E.
      rewrite Forall_forall in Hk. apply Hk, keep_ascii in E. lia. }
    rewrite H47, H92.
    assert (Hd : forall r, In 46 r -> str_eqb k r = false \/ ~ Forall fs_safe_char k).
    { intros r Hin. destruct (str_eqb k r) eqn:E; [|auto]. right. apply str_eqb_eq in E. subst.
      intros HF. rewrite Forall_forall in HF. apply HF, keep_ascii in Hin. lia. }
    destruct k as [|c k]; [contradiction|]. simpl is_empty.
    destruct (Hd [46]) as [E1|E1]; [simpl; auto| |contradiction].
    destruct (Hd [46; 46]) as [E2|E2]; [simpl; auto| |contradiction].
    rewrite E1, E2. reflexivity.
  Qed.

  (* C13_key_safe *)
  Theorem key_safe id :
    let k := fs_key sha id in
    k <> [] /\ Forall fs_safe_char k /\
    N.of_nat (length k) <= prefix_max + 12 /\ utf8_len k = N.of_nat (length k) /\
    k <> [46] /\ k <> [46; 46] /\
    ~ In 47 k /\ ~ In 92 k /\ ~ In 0 k /\ legacy_safe k = true.
  Proof.
    intros k.
    assert (Hk : Forall fs_safe_char k) by apply fs_key_with_keep.
    assert (Hl : length k = (length (key_prefix (Some prefix_max) id) + 12)%nat) by apply fs_key_with_length.
    assert (Hne : k <> []) by (intros E; rewrite E in Hl; simpl in Hl; lia).
    assert (Hno : forall c, (c = 47 \/ c = 92 \/ c = 0) -> ~ In c k).
    { intros c Hc Hin. rewrite Forall_forall in Hk. apply Hk, keep_ascii in Hin. lia. }
    repeat split; auto.
    - pose proof (key_prefix_bound prefix_max id). lia.
    - apply utf8_len_ascii. eapply Forall_impl; [|exact Hk]. intros c Hc. apply keep_ascii in Hc. lia.
    - intros E. rewrite E in Hl. simpl in Hl. lia.
    - intros E. rewrite E in Hl. simpl in Hl. lia.
    - apply keep_legacy_safe; assumption.
  Qed.

  (* C13_key_inj (both directions) *)
  Theorem key_inj max a b :
    fs_key_with sha max a = fs_key_with sha max b <->
    key_prefix max a = key_prefix max b /\ sha10 sha a = sha10 sha b.
  Proof.
    unfold fs_key_with. split.
    - intros H. apply app_eq_len_tail in H.
      + destruct H as [H1 H2]. split; [exact H1|]. apply app_inv_head in H2. exact H2.
      + rewrite !app_length, !sha10_length. reflexivity.
    - intros [-> ->]. reflexivity.
  Qed.

  (* keys with different 40-bit hash prefixes differ, whatever the bounds *)
  Lemma keys_differ max1 max2 a b :
    sha10 sha a <> sha10 sha b -> fs_key_with sha max1 a <> fs_key_with sha max2 b.
  Proof.
    intros Hd E. unfold fs_key_with in E. rewrite !app_assoc in E. apply app_eq_len_tail in E.
    - destruct E as [_ E]. contradiction.
    - rewrite !sha10_length. reflexivity.
  Qed.

  (* the name chosen is one of the three candidates *)
  Lemma overlay_dir_name_cases ex id :
    overlay_dir_name sha ex id = fs_key sha id \/
    overlay_dir_name sha ex id = fs_key_unbounded sha id \/
    (overlay_dir_name sha ex id = id /\ legacy_safe id = true /\ ex id = true /\ ex (fs_key sha id) = false).
  Proof.
    unfold overlay_dir_name.
    destruct (ex (fs_key sha id)) eqn:E1; [auto|].
    destruct (negb (str_eqb (fs_key_unbounded sha id) (fs_key sha id)) && ex (fs_key_unbounded sha id)); [auto|].
    destruct (legacy_safe id) eqn:E3; simpl; [|auto].
    destruct (ex id) eqn:E4; [|auto].
    right. right. repeat split; reflexivity.
  Qed.

  (* C13_no_collision_partial: outside the two known classes, distinct ids never share a directory *)
  Theorem no_collision_partial ex a b :
    a <> b -> ~ K13a sha a b -> ~ K13b sha a b ->
    overlay_dir_name sha ex a <> overlay_dir_name sha ex b.
  Proof.
    intros Hab Ha Hb. unfold K13a in Ha. unfold K13b in Hb.
    assert (Ha' : sha10 sha b <> sha10 sha a) by congruence.
    pose proof (keys_differ (Some prefix_max) (Some prefix_max) a b Ha) as D1.
    pose proof (keys_differ (Some prefix_max) None a b Ha) as D2.
    pose proof (keys_differ None (Some prefix_max) a b Ha) as D3.
    pose proof (keys_differ None None a b Ha) as D4.
    fold (fs_key sha a) (fs_key sha b) (fs_key_unbounded sha a) (fs_key_unbounded sha b) in *.
    destruct (overlay_dir_name_cases ex a) as [Ea|[Ea|[Ea _]]];
    destruct (overlay_dir_name_cases ex b) as [Eb|[Eb|[Eb _]]]; rewrite Ea, Eb; try assumption.
    - intros E. apply Hb. auto.
    - intros E. apply Hb. auto.
    - intros E. apply Hb. right. right. left. exact E.
    - intros E. apply Hb. right. right. right. exact E.
  Qed.

  (* K13b witness, for EVERY hex-valued hash: b := fs_key "x"; only x's canonical directory exists *)
  Theorem legacy_collision :
    exists ex a b, a <> b /\ overlay_dir_name sha ex a = overlay_dir_name sha ex b /\ K13b sha a b.
  Proof.
    set (a := [120] : str). set (b := fs_key sha a).
    exists (fun n => str_eqb n b), a, b.
    assert (Lb : length b = 13%nat).
    { unfold b, fs_key. rewrite fs_key_with_length.
      replace (key_prefix (Some prefix_max) a) with ([120] : str) by (vm_compute; reflexivity).
      reflexivity. }
    assert (Hab : a <> b) by (intros E; rewrite <- E in Lb; simpl in Lb; lia).
    split; [exact Hab|]. split; [|left; reflexivity].
    unfold overlay_dir_name at 1. fold b. rewrite str_eqb_refl.
    unfold overlay_dir_name.
    assert (Kb : Forall fs_safe_char b) by apply fs_key_with_keep.
    assert (Nb : b <> []) by (intros E; rewrite E in Lb; discriminate).
    assert (P1 : key_prefix (Some prefix_max) b = b).
    { apply key_prefix_id; [exact Kb|exact Nb|]. rewrite Lb. vm_compute. discriminate. }
    assert (P2 : key_prefix None b = b) by (apply key_prefix_id; [exact Kb|exact Nb|exact I]).
    assert (N1 : str_eqb (fs_key sha b) b = false).
    { apply str_eqb_neq. intros E. apply (f_equal (@length N)) in E. unfold fs_key in E.
      rewrite fs_key_with_length, P1 in E. lia. }
    rewrite N1.
    assert (N2 : str_eqb (fs_key_unbounded sha b) b = false).
    { apply str_eqb_neq. intros E. apply (f_equal (@length N)) in E. unfold fs_key_unbounded in E.
      rewrite fs_key_with_length, P2 in E. lia. }
    rewrite N2, andb_false_r.
    assert (S : legacy_safe b = true).
    { apply keep_legacy_safe; [intros E; rewrite E in Lb; discriminate|apply fs_key_with_keep]. }
    rewrite S, str_eqb_refl. reflexivity.
  Qed.
End WithSha.

(* K13a witness: two ids whose real SHA-256 digests (values below, recomputed with hashlib and
   confirmed on the binary by the harness on every run) share their first 40 bits and whose
   sanitised names share the first 64 characters. *)
Definition wit_a : str := s "skill:aaaaaaaaaaaaaaaaaaaaaaaaaaaaaaaaaaaaaaaaaaaaaaaaaaaaaaaaaaaaaaaa529511".
Definition wit_b : str := s "skill:aaaaaaaaaaaaaaaaaaaaaaaaaaaaaaaaaaaaaaaaaaaaaaaaaaaaaaaaaaaaaaaa1983538".
Definition wit_sha_a : str := s "f4a8591a7e539a51ea339fe4d8f22c24b100b10f73ed13579eb00fedc543f42e".
Definition wit_sha_b : str := s "f4a8591a7ec1e20147e6615766c68b10c08860b8d71e0010dea7f5867f89e95d".

Theorem sha10_collision :
  wit_a <> wit_b /\
  forall sha, sha wit_a = wit_sha_a -> sha wit_b = wit_sha_b ->
    K13a sha wit_a wit_b /\ fs_key sha wit_a = fs_key sha wit_b /\
    forall ex, ex (fs_key sha wit_a) = true \/ (forall n, ex n = false) ->
      overlay_dir_name sha ex wit_a = overlay_dir_name sha ex wit_b.
Proof.
  split; [vm_compute; discriminate|].
  intros sha Ha Hb.
  assert (K : fs_key sha wit_a = fs_key sha wit_b).
  { unfold fs_key, fs_key_with, sha10. rewrite Ha, Hb. vm_compute. reflexivity. }
  split; [unfold K13a, sha10; rewrite Ha, Hb; vm_compute; reflexivity|].
  split; [exact K|].
  intros ex [H|H]; unfold overlay_dir_name.
  - rewrite <- K, H. reflexivity.
  - rewrite !H, !andb_false_r. simpl. exact K.
Qed.

(* ---------- helpers for whole directories ---------- *)

Fixpoint strip_prefix_list (p x : list str) : option (list str) :=
  match p, x with
  | [], _ => Some x
  | a :: p', b :: x' => if str_eqb a b then strip_prefix_list p' x' else None
  | _ :: _, [] => None
  end.

Lemma strip_prefix_list_app p x : strip_prefix_list p (p ++ x) = Some x.
Proof. induction p as [|a p IH]; simpl; [reflexivity|]. rewrite str_eqb_refl. exact IH. Qed.

Lemma overlay_dir_name_ext sha ex1 ex2 id :
  (forall n, ex1 n = ex2 n) -> overlay_dir_name sha ex1 id = overlay_dir_name sha ex2 id.
Proof. intros H. unfold overlay_dir_name. rewrite !H. reflexivity. Qed.

(* the same at the level of whole directories (scope base ++ [name]) *)
Theorem dirs_no_collision_partial sha machine project ex sc a b :
  sha_ok sha -> a <> b -> ~ K13a sha a b -> ~ K13b sha a b ->
  overlay_dir_for sha machine project ex sc a <> overlay_dir_for sha machine project ex sc b.
Proof.
  intros Hs Hab Ha Hb E. unfold overlay_dir_for in E. apply app_inv_head in E. inversion E as [E'].
  revert E'. apply no_collision_partial; assumption.
Qed.

Theorem dirs_legacy_collision sha machine project sc :
  sha_ok sha ->
  exists ex a b, a <> b /\ K13b sha a b /\
    overlay_dir_for sha machine project ex sc a = overlay_dir_for sha machine project ex sc b.
Proof.
  intros Hs. destruct (legacy_collision sha Hs) as [ex [a [b [Hab [E K]]]]].
  set (base := scope_base machine project sc).
  exists (fun p => match strip_prefix_list base p with Some [n] => ex n | _ => false end), a, b.
  split; [exact Hab|]. split; [exact K|]. unfold overlay_dir_for. fold base. f_equal. f_equal.
  assert (X : forall n, (match strip_prefix_list base (base ++ [n]) with Some [n'] => ex n' | _ => false end) = ex n).
  { intros n. rewrite strip_prefix_list_app. reflexivity. }
  erewrite (overlay_dir_name_ext sha _ ex a X), (overlay_dir_name_ext sha _ ex b X). exact E.
Qed.

(* directories of different scopes never coincide *)
Theorem dirs_scopes_disjoint sha machine project ex1 ex2 sc1 sc2 a b :
  sc1 <> sc2 ->
  overlay_dir_for sha machine project ex1 sc1 a <> overlay_dir_for sha machine project ex2 sc2 b.
Proof.
  intros Hsc E. unfold overlay_dir_for in E.
  destruct sc1, sc2; try contradiction; simpl in E; try discriminate.
Qed.
