(* Proofs/ReplanP.v — "… so re-planning S's configuration shows no changes" (C06): in ANY world whose
   files are those right after the applied deploy S (whatever snapshot records it holds — e.g. the
   world after the rollback of C06_restore_histories), the plan of S's configuration is empty. *)
From AP Require Import Base.Str Base.StrFacts Base.Sorting Gen.Tables Model.Deploy
                       Proofs.DeployP Proofs.ConvergeP Proofs.LedgerP Proofs.RollbackP Proofs.HistoryP.
From Coq Require Import Lia Arith.
Open Scope N_scope.

Lemma nil_or_head {A} (l : list A) : l = [] \/ exists a, nth_error l 0 = Some a.
Proof. destruct l as [|a r]; [left; reflexivity | right; exists a; reflexivity]. Qed.

Lemma under_roots_nil tp : under_roots [] tp = false.
Proof. reflexivity. Qed.

Section Replan.
  Variables (w : world) (roots : list root) (D : list dfile).
  Let M := managed_for_plan w roots None.
  Let pl := plan (files w) D M.
  Let w' := apply_plan KDeploy w roots D pl.
  Hypothesis HD : wfD roots D.
  Hypothesis HM : wfM D M.
  Hypothesis Hcov : covered roots D.
  Hypothesis Hall' : all_manifests roots (files w').

  Variable x : world.
  Hypothesis Hx : forall p, files x p = files w' p.

  Lemma read_manifest_x r : read_manifest (files x) r = read_manifest (files w') r.
  Proof. apply read_manifest_ext. intros q _. apply Hx. Qed.

  Lemma usable_after i r : nth_error roots i = Some r -> read_manifest (files w') r = Some (per_root roots D i r).
  Proof.
    intros Hn. pose proof (manifest_after_exact w roots D HD HM Hall' i r Hn) as E.
    fold M in E. fold pl in E. fold w' in E.
    unfold read_manifest, chosen_manifest. rewrite E.
    unfold new_manifest, manifest_usable. rewrite N.eqb_refl, str_eqb_refl. reflexivity.
  Qed.

  (* what x treats as managed is desired *)
  Lemma managed_x_desired tp : In tp (managed_for_plan x roots None) -> mem_key tp D = true.
  Proof.
    intros H. apply in_managed_for_plan in H as [_ [[r [Hr Hin]]|[Hl [sn [_ [_ Hu]]]]]].
    - apply in_root_managed in Hin as [es [e (Hread & He & Hsafe & ->)]].
      destruct (In_nth_error_ex _ _ Hr) as [i Hn].
      rewrite read_manifest_x, (usable_after i r Hn) in Hread. inversion Hread as [Hes]. rewrite <- Hes in He.
      apply in_per_root in He as [d (Hd & Hb & ->)]. cbn [fst].
      destruct (join_rel_of roots d i r Hb Hn) as (Hj & _ & Ht); [apply HD; exact Hd|].
      apply mem_key_true. exists d. split; [exact Hd|]. unfold dkey. rewrite Hj, Ht. reflexivity.
    - (* the snapshot fallback is not taken: a root with a readable manifest exists, or there is no root at all *)
      exfalso. destruct (nil_or_head roots) as [Er|[r0 Hn]].
      + rewrite Er, under_roots_nil in Hu. discriminate.
      + assert (Hr0 : In r0 roots) by (eapply nth_error_In; exact Hn).
        pose proof (any_usable_false_none _ _ Hl r0 Hr0) as Hnone.
        rewrite read_manifest_x in Hnone.
        rewrite (usable_after 0%nat r0 Hn) in Hnone. discriminate.
  Qed.

  Lemma desired_in_place d : In d D -> files x (dpath d) = Some (FBytes (dcontent d)).
  Proof.
    intros Hd. rewrite Hx. unfold w'. rewrite apply_plan_files. unfold write_manifests. rewrite write_manifests_other.
    - unfold pl. eapply converged_desired; eauto.
    - apply not_manifest_not_mf. apply HD. exact Hd.
  Qed.

  Theorem replan_empty_any_records : plan (files x) D (managed_for_plan x roots None) = [].
  Proof.
    destruct (plan (files x) D (managed_for_plan x roots None)) as [|c l] eqn:E; [reflexivity|]. exfalso.
    assert (Hc : In c (plan (files x) D (managed_for_plan x roots None))) by (rewrite E; left; reflexivity).
    apply in_plan in Hc as [[d [Hd Hc]]|[tp [Htp Hc]]].
    - apply in_plan_desired in Hc as (_ & _ & _ & _ & [[Hn _]|[o (Ho & Hne & _)]]).
      + rewrite (desired_in_place d Hd) in Hn. discriminate.
      + rewrite (desired_in_place d Hd) in Ho. inversion Ho. congruence.
    - apply in_plan_managed in Hc as (_ & _ & _ & Hk & _). rewrite (managed_x_desired tp Htp) in Hk. discriminate.
  Qed.
End Replan.

(* the C06 corollary: after the rollback of [rollback_inverts_history] re-planning S's configuration shows no changes *)
Theorem rollback_replan_empty st confirmed adopt w0 roots DS pl wS h :
  deploy_cmd st confirmed adopt None w0 roots DS = (pl, (OApplied, wS)) ->
  wfD roots DS -> wfM DS (managed_for_plan w0 roots None) -> covered roots DS ->
  all_manifests roots (files wS) ->
  hist_ok roots wS h ->
  let w := run_hist roots wS h in
  let id := length (snaps w0) in
  (forall cur init, snaps w = init ++ [cur] ->
     forall e e', In e (sn_managed cur) -> In e' (triples DS) -> mpath e = mpath e' -> mtp e = mtp e') ->
  exists w', rollback w id = (RbOk, w') /\ plan (files w') DS (managed_for_plan w' roots None) = [].
Proof.
  intros H HD HM Hcov Hall Hh w id Hc.
  destruct (rollback_inverts_history st confirmed adopt w0 roots DS pl wS h H HD HM Hcov Hall Hh Hc) as [w' [Hr Hf]].
  exists w'. split; [exact Hr|].
  unfold deploy_cmd in H. inversion H as [[Hpl Hd]].
  apply deploy_apply_in_cases in Hd as [[Hx _]|(_ & Hw & _)]; [contradiction|].
  subst wS.
  apply (replan_empty_any_records w0 roots DS HD HM Hall w' Hf).
Qed.
