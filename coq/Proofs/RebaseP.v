(* Proofs/RebaseP.v — lemmas about Model/Rebase.v (property C14). *)
From AP Require Import Base.Str Base.StrFacts Base.Sorting Model.Rebase.
From Coq Require Import Lia Permutation.
Open Scope N_scope.

Definition keys (l : files) : list rel := map fst l.

(* ---------- association lists ---------- *)

Lemma lookup_In l : forall r c, lookup r l = Some c -> In (r, c) l.
Proof.
  induction l as [|[k c0] t IH]; intros r c H; simpl in *; [discriminate|].
  destruct (str_eqb k r) eqn:E.
  - apply str_eqb_eq in E. inversion H; subst. left; reflexivity.
  - right. apply IH, H.
Qed.

Lemma lookup_None l : forall r, lookup r l = None <-> ~ In r (keys l).
Proof.
  induction l as [|[k c0] t IH]; intros r; simpl; [tauto|].
  destruct (str_eqb k r) eqn:E.
  - apply str_eqb_eq in E. subst. split; [discriminate|intros H; exfalso; apply H; left; reflexivity].
  - apply str_eqb_neq in E. rewrite IH. split; intros H; [intros [H1|H1]; [contradiction|auto]|intros H1; apply H; right; exact H1].
Qed.

Lemma In_lookup l : forall r c, NoDup (keys l) -> In (r, c) l -> lookup r l = Some c.
Proof.
  induction l as [|[k c0] t IH]; intros r c Hnd Hin; simpl in *; [contradiction|].
  inversion Hnd as [|k' t' Hnotin Hnd']; subst.
  destruct Hin as [Heq|Hin].
  - inversion Heq; subst. rewrite str_eqb_refl. reflexivity.
  - destruct (str_eqb k r) eqn:E.
    + apply str_eqb_eq in E. subst. exfalso. apply Hnotin. apply (in_map fst) in Hin. exact Hin.
    + apply IH; assumption.
Qed.

Lemma lookup_perm l l' r : NoDup (keys l) -> Permutation l l' -> lookup r l = lookup r l'.
Proof.
  intros Hnd Hp.
  assert (Hnd' : NoDup (keys l')).
  { eapply Permutation_NoDup; [apply Permutation_map, Hp|exact Hnd]. }
  destruct (lookup r l) as [c|] eqn:E.
  - symmetry. apply In_lookup; [exact Hnd'|]. eapply Permutation_in; [exact Hp|]. apply lookup_In, E.
  - destruct (lookup r l') as [c'|] eqn:E'; [|reflexivity].
    apply lookup_In in E'. apply Permutation_sym in Hp. eapply Permutation_in in E'; [|exact Hp].
    apply In_lookup in E'; [congruence|exact Hnd].
Qed.

Lemma lookup_set_same r c l : lookup r (set_key r c l) = Some c.
Proof.
  induction l as [|[k c0] t IH]; simpl.
  - rewrite str_eqb_refl. reflexivity.
  - destruct (str_eqb k r) eqn:E; simpl; rewrite E; [reflexivity|exact IH].
Qed.

Lemma lookup_set_other r r' c l : r' <> r -> lookup r' (set_key r c l) = lookup r' l.
Proof.
  intros Hne. induction l as [|[k c0] t IH]; simpl.
  - destruct (str_eqb r r') eqn:E; [apply str_eqb_eq in E; congruence|reflexivity].
  - destruct (str_eqb k r) eqn:E; simpl.
    + apply str_eqb_eq in E. subst k.
      destruct (str_eqb r r') eqn:E2; [apply str_eqb_eq in E2; congruence|reflexivity].
    + destruct (str_eqb k r'); [reflexivity|exact IH].
Qed.

Lemma lookup_remove_same r l : lookup r (remove_key r l) = None.
Proof.
  induction l as [|[k c0] t IH]; simpl; [reflexivity|].
  destruct (str_eqb k r) eqn:E; simpl; [exact IH|rewrite E; exact IH].
Qed.

Lemma lookup_remove_other r r' l : r' <> r -> lookup r' (remove_key r l) = lookup r' l.
Proof.
  intros Hne. induction l as [|[k c0] t IH]; simpl; [reflexivity|].
  destruct (str_eqb k r) eqn:E; simpl.
  - apply str_eqb_eq in E. subst k.
    destruct (str_eqb r r') eqn:E2; [apply str_eqb_eq in E2; congruence|exact IH].
  - destruct (str_eqb k r'); [reflexivity|exact IH].
Qed.

Lemma keys_set_key r c l : In r (keys l) -> keys (set_key r c l) = keys l.
Proof.
  induction l as [|[k c0] t IH]; simpl; intros H; [contradiction|].
  destruct (str_eqb k r) eqn:E; simpl; [reflexivity|].
  f_equal. apply IH. destruct H as [H|H]; [subst; rewrite str_eqb_refl in E; discriminate|exact H].
Qed.

Lemma keys_set_key_new r c l : ~ In r (keys l) -> keys (set_key r c l) = keys l ++ [r].
Proof.
  induction l as [|[k c0] t IH]; simpl; intros H; [reflexivity|].
  destruct (str_eqb k r) eqn:E; simpl.
  - apply str_eqb_eq in E. exfalso. apply H. left. exact E.
  - f_equal. apply IH. intros H1. apply H. right. exact H1.
Qed.

Lemma NoDup_set_key r c l : NoDup (keys l) -> NoDup (keys (set_key r c l)).
Proof.
  intros Hnd. destruct (in_dec (list_eq_dec N.eq_dec) r (keys l)) as [Hin|Hnin].
  - rewrite keys_set_key; assumption.
  - rewrite keys_set_key_new by assumption.
    apply NoDup_rev in Hnd. rewrite <- (rev_involutive (keys l ++ [r])). apply NoDup_rev.
    rewrite rev_app_distr. simpl. constructor; [rewrite <- in_rev; exact Hnin|exact Hnd].
Qed.

Lemma NoDup_filter_keys (f : rel * content -> bool) l : NoDup (keys l) -> NoDup (keys (filter f l)).
Proof.
  induction l as [|[k c0] t IH]; simpl; intros Hnd; [constructor|].
  inversion Hnd as [|k' t' Hnotin Hnd']; subst.
  destruct (f (k, c0)); simpl; [constructor|apply IH, Hnd'].
  - intros Hin. apply Hnotin. unfold keys in *. apply in_map_iff in Hin as [[k2 c2] [H1 H2]].
    apply filter_In in H2 as [H2 _]. simpl in H1. subst. apply (in_map fst) in H2. exact H2.
  - apply IH, Hnd'.
Qed.

(* a boolean check of key distinctness, for concrete overlays *)
Fixpoint nodupb (l : list str) : bool :=
  match l with [] => true | x :: r => negb (mem_str x r) && nodupb r end.

Lemma mem_str_In x l : mem_str x l = false -> ~ In x l.
Proof.
  induction l as [|y r IH]; simpl; intros H; [tauto|].
  apply Bool.orb_false_iff in H as [H1 H2]. apply str_eqb_neq in H1.
  intros [Hx|Hx]; [congruence|apply IH; assumption].
Qed.

Lemma nodupb_sound l : nodupb l = true -> NoDup l.
Proof.
  induction l as [|x r IH]; simpl; intros H; [constructor|].
  apply Bool.andb_true_iff in H as [H1 H2]. apply Bool.negb_true_iff in H1.
  constructor; [apply mem_str_In, H1|apply IH, H2].
Qed.

(* ---------- actions ---------- *)

Definition after (a : act) (cur : option content) : option content :=
  match a with AKeep => cur | AWrite c => Some c | ADelete => None end.

Lemma lookup_apply_same r a st : lookup r (apply_act r a st) = after a (lookup r st).
Proof. destruct a; simpl; [reflexivity|apply lookup_set_same|apply lookup_remove_same]. Qed.

Lemma lookup_apply_other r r' a st : r' <> r -> lookup r' (apply_act r a st) = lookup r' st.
Proof. intros H. destruct a; simpl; [reflexivity|apply lookup_set_other, H|apply lookup_remove_other, H]. Qed.

Lemma NoDup_apply_act r a st : NoDup (keys st) -> NoDup (keys (apply_act r a st)).
Proof. intros H. destruct a; simpl; [exact H|apply NoDup_set_key, H|apply NoDup_filter_keys, H]. Qed.

(* ---------- reports ---------- *)

Lemma In_app_single {A} (x y : A) l : In x (l ++ [y]) <-> In x l \/ x = y.
Proof. rewrite in_app_iff. simpl. split; intros [H|H]; auto; destruct H as [H|[]]; auto. Qed.

Lemma upd_add x n t cf rep : In x (updated (add_rep n t cf rep)) <-> In x (updated rep) \/ (t = TUpdated /\ x = n).
Proof. destruct t; simpl; try rewrite In_app_single; intuition congruence. Qed.
Lemma del_add x n t cf rep : In x (deleted (add_rep n t cf rep)) <-> In x (deleted rep) \/ (t = TDeleted /\ x = n).
Proof. destruct t; simpl; try rewrite In_app_single; intuition congruence. Qed.
Lemma skp_add x n t cf rep : In x (skipped (add_rep n t cf rep)) <-> In x (skipped rep) \/ (t = TSkipped /\ x = n).
Proof. destruct t; simpl; try rewrite In_app_single; intuition congruence. Qed.
Lemma cnf_add x n t cf rep : In x (conflicts (add_rep n t cf rep)) <-> In x (conflicts rep) \/ (cf = true /\ x = n).
Proof. destruct cf; simpl; try rewrite In_app_single; intuition congruence. Qed.

Lemma In_isort {A} (leb : A -> A -> bool) l x : In x (isort leb l) <-> In x l.
Proof.
  split; intros H.
  - eapply Permutation_in; [apply Permutation_sym, isort_perm|exact H].
  - eapply Permutation_in; [apply isort_perm|exact H].
Qed.

Section Dir.
  Variable merge3 : content -> content -> content -> option (content * bool).
  Variables (o : opts) (bl base up : fmap).

  Let f (r : rel) (ours : content) : fout := rebase_dir_file merge3 o (bl r) (base r) ours (up r).

  (* what a completed loop did, file by file *)
  Lemma dir_loop_ok : forall todo st rep st' rep',
    NoDup (keys todo) ->
    dir_loop merge3 o bl base up todo st rep = (st', inr rep') ->
    (forall r, lookup r st' =
               match lookup r todo with
               | Some ours => match f r ours with FOk a _ _ => after a (lookup r st) | FErr _ => lookup r st end
               | None => lookup r st
               end) /\
    (forall r ours, In (r, ours) todo -> exists a t cf, f r ours = FOk a t cf) /\
    (forall x, In x (updated rep') <-> In x (updated rep) \/ exists ours a cf, In (x, ours) todo /\ f x ours = FOk a TUpdated cf) /\
    (forall x, In x (deleted rep') <-> In x (deleted rep) \/ exists ours a cf, In (x, ours) todo /\ f x ours = FOk a TDeleted cf) /\
    (forall x, In x (skipped rep') <-> In x (skipped rep) \/ exists ours a cf, In (x, ours) todo /\ f x ours = FOk a TSkipped cf) /\
    (forall x, In x (conflicts rep') <-> In x (conflicts rep) \/ exists ours a t, In (x, ours) todo /\ f x ours = FOk a t true) /\
    processed rep' = processed rep + N.of_nat (length todo) /\
    (NoDup (keys st) -> NoDup (keys st')).
  Proof.
    induction todo as [|[r0 ours0] rest IH]; intros st rep st' rep' Hnd H; simpl in H.
    - inversion H; subst. repeat split; try tauto; try (intros [?|(?&?&?&[]&_)]; assumption);
        try (intros [?|(?&?&?&[]&_)]; assumption).
      + intros r ours [].
      + simpl. lia.
    - inversion Hnd as [|k t Hnotin Hnd']; subst.
      fold (f r0 ours0) in H. destruct (f r0 ours0) as [c|a t cf] eqn:Ef; [discriminate|].
      specialize (IH _ _ _ _ Hnd' H) as (IH1 & IH2 & IH3 & IH4 & IH5 & IH6 & IH7 & IH8).
      assert (Hlk : lookup r0 rest = None) by (apply lookup_None; exact Hnotin).
      repeat split.
      + intros r. simpl. destruct (str_eqb r0 r) eqn:E.
        * apply str_eqb_eq in E. subst r. rewrite IH1, Hlk, Ef. apply lookup_apply_same.
        * apply str_eqb_neq in E. rewrite IH1.
          destruct (lookup r rest) as [ours|]; [destruct (f r ours)|]; try (rewrite lookup_apply_other by congruence); reflexivity.
      + intros r ours [Heq|Hin]; [inversion Heq; subst; eauto|eauto].
      + intros Hx. apply IH3 in Hx as [Hx|(ours & a' & cf' & Hin & Hf)].
        * apply upd_add in Hx as [Hx|[Ht Hx]]; [left; exact Hx|subst; right; exists ours0, a, cf; split; [left; reflexivity|exact Ef]].
        * right. exists ours, a', cf'. split; [right; exact Hin|exact Hf].
      + intros [Hx|(ours & a' & cf' & [Heq|Hin] & Hf)]; apply IH3.
        * left. apply upd_add. left. exact Hx.
        * inversion Heq; subst. left. apply upd_add. right. rewrite Ef in Hf. inversion Hf; subst. auto.
        * right. eauto.
      + intros Hx. apply IH4 in Hx as [Hx|(ours & a' & cf' & Hin & Hf)].
        * apply del_add in Hx as [Hx|[Ht Hx]]; [left; exact Hx|subst; right; exists ours0, a, cf; split; [left; reflexivity|exact Ef]].
        * right. exists ours, a', cf'. split; [right; exact Hin|exact Hf].
      + intros [Hx|(ours & a' & cf' & [Heq|Hin] & Hf)]; apply IH4.
        * left. apply del_add. left. exact Hx.
        * inversion Heq; subst. left. apply del_add. right. rewrite Ef in Hf. inversion Hf; subst. auto.
        * right. eauto.
      + intros Hx. apply IH5 in Hx as [Hx|(ours & a' & cf' & Hin & Hf)].
        * apply skp_add in Hx as [Hx|[Ht Hx]]; [left; exact Hx|subst; right; exists ours0, a, cf; split; [left; reflexivity|exact Ef]].
        * right. exists ours, a', cf'. split; [right; exact Hin|exact Hf].
      + intros [Hx|(ours & a' & cf' & [Heq|Hin] & Hf)]; apply IH5.
        * left. apply skp_add. left. exact Hx.
        * inversion Heq; subst. left. apply skp_add. right. rewrite Ef in Hf. inversion Hf; subst. auto.
        * right. eauto.
      + intros Hx. apply IH6 in Hx as [Hx|(ours & a' & t' & Hin & Hf)].
        * apply cnf_add in Hx as [Hx|[Ht Hx]]; [left; exact Hx|subst; right; exists ours0, a, t; split; [left; reflexivity|exact Ef]].
        * right. exists ours, a', t'. split; [right; exact Hin|exact Hf].
      + intros [Hx|(ours & a' & t' & [Heq|Hin] & Hf)]; apply IH6.
        * left. apply cnf_add. left. exact Hx.
        * inversion Heq; subst. left. apply cnf_add. right. rewrite Ef in Hf. inversion Hf; subst. auto.
        * right. eauto.
      + rewrite IH7. simpl processed. simpl length. lia.
      + intros Hst. apply IH8. apply NoDup_apply_act, Hst.
  Qed.
End Dir.

(* ---------- the property's own case analysis, as a specification ---------- *)

(* what the module must materialise to for a tracked overlay file *)
Definition expected (merge3 : content -> content -> content -> option (content * bool))
           (b ours : content) (upstream : option content) : option content :=
  match upstream with
  | None => if str_eqb ours b then None else Some ours
  | Some u =>
    if str_eqb ours b then Some u
    else if str_eqb u b then Some ours
    else if str_eqb ours u then Some ours
    else match merge3 b ours u with Some (m, _) => Some m | None => Some ours end
  end.

Ltac eqb_prop :=
  repeat match goal with
  | H : str_eqb _ _ = true |- _ => apply str_eqb_eq in H
  | H : str_eqb _ _ = false |- _ => apply str_eqb_neq in H
  | H : negb _ = true |- _ => apply Bool.negb_true_iff in H
  | H : negb _ = false |- _ => apply Bool.negb_false_iff in H
  | H : _ && _ = true |- _ => apply Bool.andb_true_iff in H; destruct H
  end.

(* open every test of one rebase_dir_file result *)
Ltac split_dir H :=
  unfold rebase_dir_file, do_write, do_delete in H;
  repeat (match type of H with
          | context[match ?x with _ => _ end] =>
            lazymatch x with
            | context[match _ with _ => _ end] => fail
            | _ => destruct x eqn:?
            end
          end; simpl in H; try discriminate H).

Section DirFile.
  Variable merge3 : content -> content -> content -> option (content * bool).

  Lemma dir_file_mat o b base ours upstream a t cf :
    rebase_dir_file merge3 o (Some b) base ours upstream = FOk a t cf -> dry_run o = false ->
    match after a (Some ours) with Some c => Some c | None => upstream end = expected merge3 b ours upstream.
  Proof.
    intros H Hd. unfold expected. split_dir H; inversion H; subst; clear H; eqb_prop; subst; simpl;
      repeat match goal with
             | |- context[str_eqb ?x ?x] => rewrite str_eqb_refl
             | H : ?x <> ?y |- context[str_eqb ?x ?y] => rewrite (proj2 (str_eqb_neq x y) H)
             | H : merge3 _ _ _ = _ |- _ => rewrite H
             end; simpl; try reflexivity; try congruence.
  Qed.
End DirFile.

(* ---------- rebase_overlay on a directory overlay ---------- *)

Section Top.
  Variable merge3 : content -> content -> content -> option (content * bool).
  Variable git_apply : content -> rel -> content -> option content.
  Variable diff : rel -> content -> content -> option content.

  Notation rebase := (rebase_overlay merge3 git_apply diff).

  Definition dfile (o : opts) (bl : baseline) (w : world) (r : rel) (ours : content) : fout :=
    rebase_dir_file merge3 o (bl_files bl r) (bl_base bl r) ours (w_up w r).

  Lemma rebase_dir_spec o w ov ov' rep :
    ov_kind ov = KDir -> NoDup (keys (ov_files ov)) ->
    rebase o w ov = (ov', inr rep) ->
    exists bl, ov_baseline ov = Some bl /\ ov_exists ov = true /\
      (forall r, lookup r (ov_files ov') =
                 match lookup r (ov_files ov) with
                 | Some ours => match dfile o bl w r ours with FOk a _ _ => after a (Some ours) | FErr _ => Some ours end
                 | None => None
                 end) /\
      (forall r ours, lookup r (ov_files ov) = Some ours -> exists a t cf, dfile o bl w r ours = FOk a t cf) /\
      (forall x, In x (updated rep) <-> exists ours a cf, lookup x (ov_files ov) = Some ours /\ dfile o bl w x ours = FOk a TUpdated cf) /\
      (forall x, In x (deleted rep) <-> exists ours a cf, lookup x (ov_files ov) = Some ours /\ dfile o bl w x ours = FOk a TDeleted cf) /\
      (forall x, In x (skipped rep) <-> exists ours a cf, lookup x (ov_files ov) = Some ours /\ dfile o bl w x ours = FOk a TSkipped cf) /\
      (forall x, In x (conflicts rep) <-> exists ours a t, lookup x (ov_files ov) = Some ours /\ dfile o bl w x ours = FOk a t true) /\
      ov' = mkOv true KDir (ov_files ov') (ov_patches ov) (ov_conflicts ov) (refreshed o w (Some bl)) /\
      NoDup (keys (ov_files ov')) /\ nilb (patch_files_of ov) = true /\ bl_rev bl <> None.
  Proof.
    intros Hk Hnd H. unfold rebase_overlay in H.
    destruct (ov_exists ov) eqn:Hex; simpl in H; [|inversion H].
    destruct (ov_baseline ov) as [bl|] eqn:Hbl; [|inversion H].
    destruct (negb (nilb (ov_files ov)) && negb (nilb (patch_files_of ov))); [inversion H|].
    rewrite Hk in H.
    destruct (nilb (patch_files_of ov)) eqn:Hnp; simpl in H; [|inversion H].
    destruct (bl_rev bl) eqn:Hrev; [|inversion H].
    destruct (dir_loop merge3 o (bl_files bl) (bl_base bl) (w_up w) (isort entry_leb (ov_files ov)) (ov_files ov) empty_report)
      as [fs [c|rep0]] eqn:Hloop; inversion H; subst; clear H.
    assert (Hperm : Permutation (ov_files ov) (isort entry_leb (ov_files ov))) by apply isort_perm.
    assert (Hnd2 : NoDup (keys (isort entry_leb (ov_files ov)))).
    { eapply Permutation_NoDup; [apply Permutation_map, Hperm|exact Hnd]. }
    assert (Hlk : forall r, lookup r (isort entry_leb (ov_files ov)) = lookup r (ov_files ov)).
    { intros r. symmetry. apply lookup_perm; assumption. }
    assert (Hin : forall r c, In (r, c) (isort entry_leb (ov_files ov)) <-> lookup r (ov_files ov) = Some c).
    { intros r c. rewrite In_isort. split; [apply In_lookup, Hnd|apply lookup_In]. }
    destruct (dir_loop_ok merge3 o (bl_files bl) (bl_base bl) (w_up w) _ _ _ _ _ Hnd2 Hloop)
      as (S1 & S2 & S3 & S4 & S5 & S6 & _ & S8).
    exists bl. split; [reflexivity|]. split; [reflexivity|]. simpl.
    split; [|split; [|split; [|split; [|split; [|split; [|split; [|split; [|split]]]]]]]].
    - intros r. rewrite S1, Hlk. destruct (lookup r (ov_files ov)); reflexivity.
    - intros r ours Hr. apply (S2 r ours). apply Hin, Hr.
    - intros x. rewrite In_isort, S3. simpl. split.
      + intros [[]|(ours & a & cf & H1 & H2)]. exists ours, a, cf. split; [apply Hin, H1|exact H2].
      + intros (ours & a & cf & H1 & H2). right. exists ours, a, cf. split; [apply Hin, H1|exact H2].
    - intros x. rewrite In_isort, S4. simpl. split.
      + intros [[]|(ours & a & cf & H1 & H2)]. exists ours, a, cf. split; [apply Hin, H1|exact H2].
      + intros (ours & a & cf & H1 & H2). right. exists ours, a, cf. split; [apply Hin, H1|exact H2].
    - intros x. rewrite In_isort, S5. simpl. split.
      + intros [[]|(ours & a & cf & H1 & H2)]. exists ours, a, cf. split; [apply Hin, H1|exact H2].
      + intros (ours & a & cf & H1 & H2). right. exists ours, a, cf. split; [apply Hin, H1|exact H2].
    - intros x. rewrite In_isort, S6. simpl. split.
      + intros [[]|(ours & a & t & H1 & H2)]. exists ours, a, t. split; [apply Hin, H1|exact H2].
      + intros (ours & a & t & H1 & H2). right. exists ours, a, t. split; [apply Hin, H1|exact H2].
    - reflexivity.
    - apply S8, Hnd.
    - reflexivity.
    - congruence.
  Qed.
End Top.

(* close goals about report membership from the per-file iffs *)
Ltac fin_rep Hu Hdl Hs Hc :=
  repeat split; try congruence; try reflexivity;
  try (apply Hu; reflexivity); try (apply Hdl; reflexivity); try (apply Hs; reflexivity); try (apply Hc; reflexivity);
  try (intros; apply Hs; reflexivity); try (intros; apply Hc; assumption);
  try (let Hx := fresh in intros Hx; apply Hdl in Hx; discriminate);
  try (let Hx := fresh in intros Hx; apply Hu in Hx; discriminate);
  try (let Hx := fresh in intros Hx; apply Hc in Hx; discriminate).

Section DirThms.
  Variable merge3 : content -> content -> content -> option (content * bool).
  Variable git_apply : content -> rel -> content -> option content.
  Variable diff : rel -> content -> content -> option content.

  Notation rebase := (rebase_overlay merge3 git_apply diff).
  Notation dfl := (dfile merge3).

  (* a completed rebase of a directory overlay (any options) *)
  Definition dir_run (o : opts) (w : world) (ov ov' : overlay) (rep : report) (bl : baseline) : Prop :=
    ov_kind ov = KDir /\ NoDup (keys (ov_files ov)) /\ ov_baseline ov = Some bl /\
    rebase o w ov = (ov', inr rep).

  Lemma rebase_dir_at o w ov ov' rep bl r ours :
    dir_run o w ov ov' rep bl -> lookup r (ov_files ov) = Some ours ->
    exists a t cf, dfl o bl w r ours = FOk a t cf /\ lookup r (ov_files ov') = after a (Some ours) /\
      (In r (updated rep) <-> t = TUpdated) /\ (In r (deleted rep) <-> t = TDeleted) /\
      (In r (skipped rep) <-> t = TSkipped) /\ (In r (conflicts rep) <-> cf = true).
  Proof.
    intros (Hk & Hnd & Hbl & Hrun) Hlk.
    destruct (rebase_dir_spec _ _ _ _ _ _ _ _ Hk Hnd Hrun) as (bl' & Hbl' & _ & S1 & S2 & S3 & S4 & S5 & S6 & _).
    rewrite Hbl in Hbl'. inversion Hbl'; subst bl'. clear Hbl'.
    destruct (S2 _ _ Hlk) as (a & t & cf & Hf). exists a, t, cf. split; [exact Hf|].
    split; [rewrite S1, Hlk, Hf; reflexivity|].
    split; [|split; [|split]].
    - rewrite S3. split; [intros (o1 & a1 & c1 & H1 & H2); rewrite Hlk in H1; inversion H1; subst; rewrite Hf in H2; inversion H2; reflexivity
                         |intros ->; eauto].
    - rewrite S4. split; [intros (o1 & a1 & c1 & H1 & H2); rewrite Hlk in H1; inversion H1; subst; rewrite Hf in H2; inversion H2; reflexivity
                         |intros ->; eauto].
    - rewrite S5. split; [intros (o1 & a1 & c1 & H1 & H2); rewrite Hlk in H1; inversion H1; subst; rewrite Hf in H2; inversion H2; reflexivity
                         |intros ->; eauto].
    - rewrite S6. split; [intros (o1 & a1 & c1 & H1 & H2); rewrite Hlk in H1; inversion H1; subst; rewrite Hf in H2; inversion H2; reflexivity
                         |intros ->; eauto].
  Qed.

  (* C14_cases, directory overlays *)
  Theorem dir_cases o w ov ov' rep bl r ours b :
    dir_run o w ov ov' rep bl -> dry_run o = false ->
    lookup r (ov_files ov) = Some ours -> bl_files bl r = Some b ->
    materialize_dir (ov_files ov') (w_up w) r = expected merge3 b ours (w_up w r).
  Proof.
    intros Hrun Hd Hlk Hb.
    destruct (rebase_dir_at _ _ _ _ _ _ _ _ Hrun Hlk) as (a & t & cf & Hf & Hl' & _).
    unfold materialize_dir. rewrite Hl'. unfold dfile in Hf. rewrite Hb in Hf.
    eapply dir_file_mat; eassumption.
  Qed.

  Theorem dir_untracked o w ov ov' rep bl r ours :
    dir_run o w ov ov' rep bl -> lookup r (ov_files ov) = Some ours -> bl_files bl r = None ->
    lookup r (ov_files ov') = Some ours /\ In r (skipped rep) /\ ~ In r (updated rep) /\ ~ In r (deleted rep).
  Proof.
    intros Hrun Hlk Hb.
    destruct (rebase_dir_at _ _ _ _ _ _ _ _ Hrun Hlk) as (a & t & cf & Hf & Hl' & Hu & Hdl & Hs & _).
    unfold dfile, rebase_dir_file in Hf. rewrite Hb in Hf. inversion Hf; subst.
    rewrite Hl', Hs, Hu, Hdl. simpl. repeat split; congruence.
  Qed.

  Theorem dir_not_overlaid o w ov ov' rep bl r :
    dir_run o w ov ov' rep bl -> lookup r (ov_files ov) = None ->
    materialize_dir (ov_files ov') (w_up w) r = w_up w r.
  Proof.
    intros (Hk & Hnd & Hbl & Hrun) Hlk.
    destruct (rebase_dir_spec _ _ _ _ _ _ _ _ Hk Hnd Hrun) as (bl' & _ & _ & S1 & _).
    unfold materialize_dir. rewrite S1, Hlk. reflexivity.
  Qed.

  (* the same, clause by clause *)
  Theorem dir_cases_explicit o w ov ov' rep bl r ours b :
    dir_run o w ov ov' rep bl -> dry_run o = false ->
    lookup r (ov_files ov) = Some ours -> bl_files bl r = Some b ->
    let mat := materialize_dir (ov_files ov') (w_up w) r in
    (ours = b -> mat = w_up w r) /\
    (ours <> b -> w_up w r = Some b -> mat = Some ours) /\
    (ours <> b -> w_up w r = None -> mat = Some ours /\ In r (skipped rep)) /\
    (forall u, ours <> b -> w_up w r = Some u -> u <> b -> ours = u -> mat = Some ours) /\
    (forall u, ours <> b -> w_up w r = Some u -> u <> b -> ours <> u ->
       exists m c, merge3 b ours u = Some (m, c) /\ mat = Some m /\ (c = true <-> In r (conflicts rep))).
  Proof.
    intros Hrun Hd Hlk Hb mat.
    assert (Hmat : mat = expected merge3 b ours (w_up w r)) by (eapply dir_cases; eassumption).
    destruct (rebase_dir_at _ _ _ _ _ _ _ _ Hrun Hlk) as (a & t & cf & Hf & Hl' & Hu & Hdl & Hs & Hc).
    unfold dfile in Hf. rewrite Hb in Hf. unfold expected in Hmat.
    split; [|split; [|split; [|split]]].
    - intros ->. rewrite Hmat. destruct (w_up w r); rewrite str_eqb_refl; reflexivity.
    - intros Hne Hup. rewrite Hmat, Hup, (proj2 (str_eqb_neq _ _) Hne), str_eqb_refl. reflexivity.
    - intros Hne Hup. rewrite Hmat, Hup, (proj2 (str_eqb_neq _ _) Hne). split; [reflexivity|].
      rewrite Hup in Hf. split_dir Hf; inversion Hf; subst; eqb_prop; subst; try congruence. apply Hs. reflexivity.
    - intros u Hne Hup Hub ->. rewrite Hmat, Hup, (proj2 (str_eqb_neq _ _) Hub), str_eqb_refl. reflexivity.
    - intros u Hne Hup Hub Hou. rewrite Hup in Hf, Hmat.
      rewrite (proj2 (str_eqb_neq _ _) Hne), (proj2 (str_eqb_neq _ _) Hub), (proj2 (str_eqb_neq _ _) Hou) in Hmat.
      split_dir Hf; inversion Hf; subst; eqb_prop; subst; try congruence;
        match goal with Hm : merge3 _ _ _ = Some (?m, ?c) |- _ => exists m, c; rewrite Hm in Hmat end;
        (split; [assumption|]; split; [exact Hmat|]); rewrite Hc; split; congruence.
  Qed.

  (* C14_no_silent_loss, directory overlays *)
  Theorem dir_no_silent_loss o w ov ov' rep bl r ours b :
    dir_run o w ov ov' rep bl -> dry_run o = false ->
    lookup r (ov_files ov) = Some ours -> bl_files bl r = Some b -> ours <> b ->
    (lookup r (ov_files ov') = Some ours /\ ~ In r (deleted rep) /\ (w_up w r = None -> In r (skipped rep)))
    \/ (exists u m c, w_up w r = Some u /\ merge3 b ours u = Some (m, c) /\
          lookup r (ov_files ov') = Some m /\ In r (updated rep) /\ (c = true -> In r (conflicts rep)))
    \/ (sparsify o = true /\ lookup r (ov_files ov') = None /\ In r (deleted rep) /\
        ~ In r (conflicts rep) /\ exists u, w_up w r = Some u /\ expected merge3 b ours (Some u) = Some u).
  Proof.
    intros Hrun Hdry Hlk Hb Hne.
    destruct (rebase_dir_at _ _ _ _ _ _ _ _ Hrun Hlk) as (a & t & cf & Hf & Hl' & Hu & Hdl & Hs & Hc).
    unfold dfile in Hf. rewrite Hb in Hf. rewrite Hl'. clear Hl'.
    unfold expected.
    split_dir Hf; inversion Hf; subst; clear Hf; eqb_prop; subst; simpl; try congruence;
      try solve [left; fin_rep Hu Hdl Hs Hc];
      try solve [right; left; do 3 eexists; split; [reflexivity|]; split; [eassumption|]; fin_rep Hu Hdl Hs Hc];
      try solve [right; right; split; [first [assumption|reflexivity]|]; split; [reflexivity|];
                 split; [apply Hdl; reflexivity|]; split; [intros Hx; apply Hc in Hx; discriminate|];
                 eexists; split; [reflexivity|];
                 repeat match goal with
                        | |- context[str_eqb ?x ?x] => rewrite str_eqb_refl
                        | H : ?x <> ?y |- context[str_eqb ?x ?y] => rewrite (proj2 (str_eqb_neq x y) H)
                        | H : merge3 _ _ _ = _ |- _ => rewrite H
                        end; reflexivity].
  Qed.

  (* C14_conflict_reported, directory overlays *)
  Theorem dir_conflict_reported o w ov ov' rep bl r ours b u m :
    dir_run o w ov ov' rep bl ->
    lookup r (ov_files ov) = Some ours -> bl_files bl r = Some b -> w_up w r = Some u ->
    ours <> b -> u <> b -> ours <> u -> merge3 b ours u = Some (m, true) ->
    In r (conflicts rep) /\ In r (updated rep) /\ (dry_run o = false -> lookup r (ov_files ov') = Some m).
  Proof.
    intros Hrun Hlk Hb Hup H1 H2 H3 Hm.
    destruct (rebase_dir_at _ _ _ _ _ _ _ _ Hrun Hlk) as (a & t & cf & Hf & Hl' & Hu & Hdl & Hs & Hc).
    unfold dfile, rebase_dir_file in Hf. rewrite Hb, Hup in Hf.
    destruct (bl_base bl r) as [b'|]; [|discriminate].
    destruct (str_eqb b' b) eqn:E; simpl in Hf; [|discriminate]. apply str_eqb_eq in E. subst b'.
    rewrite (proj2 (str_eqb_neq _ _) H1), (proj2 (str_eqb_neq _ _) H2), (proj2 (str_eqb_neq _ _) H3), Hm in Hf.
    rewrite Bool.andb_false_r in Hf. simpl in Hf. inversion Hf; subst.
    rewrite Hl'. split; [apply Hc; reflexivity|]. split; [apply Hu; reflexivity|].
    intros Hd. unfold do_write. rewrite Hd. reflexivity.
  Qed.

  Theorem dir_conflict_only_if o w ov ov' rep bl r :
    dir_run o w ov ov' rep bl -> In r (conflicts rep) ->
    exists ours b u m, lookup r (ov_files ov) = Some ours /\ bl_files bl r = Some b /\ w_up w r = Some u /\
                       ours <> b /\ u <> b /\ ours <> u /\ merge3 b ours u = Some (m, true).
  Proof.
    intros (Hk & Hnd & Hbl & Hrun) Hin.
    destruct (rebase_dir_spec _ _ _ _ _ _ _ _ Hk Hnd Hrun) as (bl' & Hbl' & _ & _ & _ & _ & _ & _ & S6 & _).
    rewrite Hbl in Hbl'. inversion Hbl'; subst bl'.
    apply S6 in Hin as (ours & a & t & Hlk & Hf). unfold dfile in Hf.
    split_dir Hf; inversion Hf; subst; eqb_prop; subst; try discriminate;
      do 4 eexists; repeat split; try eassumption; try reflexivity; congruence.
  Qed.

  Lemma cmd_of_rebase json yes o w ov ov' rep :
    (json && negb yes && negb (dry_run o)) = false -> rebase o w ov = (ov', inr rep) ->
    overlay_rebase_cmd merge3 git_apply diff json yes o w ov =
    (ov', match conflicts rep with [] => COk rep | _ => CConflict (conflicts rep) rep end).
  Proof.
    intros Hg Hr. unfold overlay_rebase_cmd. rewrite Hg, Hr. destruct (conflicts rep); reflexivity.
  Qed.

  Lemma cmd_refused o w ov :
    dry_run o = false ->
    overlay_rebase_cmd merge3 git_apply diff true false o w ov = (ov, CErr code_confirm_required).
  Proof. intros Hd. unfold overlay_rebase_cmd. rewrite Hd. reflexivity. Qed.

  (* ---- the dry run ---- *)
  Definition strip (x : fout) : str + (tag * bool) :=
    match x with FErr c => inl c | FOk _ t cf => inr (t, cf) end.

  Lemma dir_file_dry_same s ib base ours upstream :
    strip (rebase_dir_file merge3 (mkOpts true s) ib base ours upstream) =
    strip (rebase_dir_file merge3 (mkOpts false s) ib base ours upstream).
  Proof.
    unfold rebase_dir_file, do_write, do_delete; simpl.
    repeat (match goal with
            | |- context[match ?x with _ => _ end] =>
              lazymatch x with context[match _ with _ => _ end] => fail | _ => destruct x eqn:? end
            end; simpl); reflexivity.
  Qed.

  Lemma dir_file_dry_keep s ib base ours upstream a t cf :
    rebase_dir_file merge3 (mkOpts true s) ib base ours upstream = FOk a t cf -> a = AKeep.
  Proof. intros H. split_dir H; inversion H; reflexivity. Qed.

  Lemma dir_loop_dry s bl base up : forall todo st1 st2 rep,
    dir_loop merge3 (mkOpts true s) bl base up todo st1 rep =
    (st1, snd (dir_loop merge3 (mkOpts false s) bl base up todo st2 rep)).
  Proof.
    induction todo as [|[r ours] rest IH]; intros st1 st2 rep; simpl; [reflexivity|].
    pose proof (dir_file_dry_same s (bl r) (base r) ours (up r)) as Hs.
    destruct (rebase_dir_file merge3 (mkOpts true s) (bl r) (base r) ours (up r)) as [c|a t cf] eqn:E1;
      destruct (rebase_dir_file merge3 (mkOpts false s) (bl r) (base r) ours (up r)) as [c2|a2 t2 cf2] eqn:E2;
      simpl in Hs; try discriminate Hs.
    - inversion Hs; reflexivity.
    - inversion Hs; subst. apply dir_file_dry_keep in E1. subst a. simpl. apply IH.
  Qed.

  Theorem dir_dry s w ov :
    ov_kind ov = KDir ->
    rebase (mkOpts true s) w ov = (ov, snd (rebase (mkOpts false s) w ov)).
  Proof.
    intros Hk. unfold rebase_overlay. rewrite Hk.
    destruct (ov_exists ov) eqn:Hex; simpl; [|reflexivity].
    destruct (ov_baseline ov) as [bl|] eqn:Hbl; [|reflexivity].
    destruct (negb (nilb (ov_files ov)) && negb (nilb (patch_files_of ov))); [reflexivity|].
    destruct (negb (nilb (patch_files_of ov))); [reflexivity|].
    destruct (bl_rev bl); [|reflexivity].
    rewrite (dir_loop_dry s (bl_files bl) (bl_base bl) (w_up w) _ (ov_files ov) (ov_files ov) empty_report).
    destruct (dir_loop merge3 (mkOpts false s) (bl_files bl) (bl_base bl) (w_up w) (isort entry_leb (ov_files ov)) (ov_files ov) empty_report)
      as [fs [c|rep]]; simpl; destruct ov; simpl in *; subst; reflexivity.
  Qed.

  (* ---- sparsify ---- *)
  Theorem dir_sparsify w ov ovs reps ovn repn bl r :
    dir_run (mkOpts false true) w ov ovs reps bl -> dir_run (mkOpts false false) w ov ovn repn bl ->
    materialize_dir (ov_files ovs) (w_up w) r = materialize_dir (ov_files ovn) (w_up w) r.
  Proof.
    intros Hs Hn. destruct (lookup r (ov_files ov)) as [ours|] eqn:Hlk.
    - destruct (bl_files bl r) as [b|] eqn:Hb.
      + rewrite (dir_cases _ _ _ _ _ _ _ _ _ Hs eq_refl Hlk Hb), (dir_cases _ _ _ _ _ _ _ _ _ Hn eq_refl Hlk Hb). reflexivity.
      + destruct (dir_untracked _ _ _ _ _ _ _ _ Hs Hlk Hb) as [H1 _].
        destruct (dir_untracked _ _ _ _ _ _ _ _ Hn Hlk Hb) as [H2 _].
        unfold materialize_dir. rewrite H1, H2. reflexivity.
    - rewrite (dir_not_overlaid _ _ _ _ _ _ _ Hs Hlk), (dir_not_overlaid _ _ _ _ _ _ _ Hn Hlk). reflexivity.
  Qed.

  (* a file removed from the overlay was tracked, and upstream itself is what the module must
     materialise to there *)
  Theorem dir_deleted_equals_upstream o w ov ov' rep bl r ours :
    dir_run o w ov ov' rep bl -> dry_run o = false ->
    lookup r (ov_files ov) = Some ours -> lookup r (ov_files ov') = None ->
    exists b, bl_files bl r = Some b /\ expected merge3 b ours (w_up w r) = w_up w r /\ In r (deleted rep) /\
              (ours <> b -> sparsify o = true).
  Proof.
    intros Hrun Hd Hlk Hl'.
    destruct (bl_files bl r) as [b|] eqn:Hb.
    - exists b. split; [reflexivity|].
      pose proof (dir_cases _ _ _ _ _ _ _ _ _ Hrun Hd Hlk Hb) as Hc.
      unfold materialize_dir in Hc. rewrite Hl' in Hc. split; [symmetry; exact Hc|].
      destruct (rebase_dir_at _ _ _ _ _ _ _ _ Hrun Hlk) as (a & t & cf & Hf & Hl2 & Hu & Hdl & Hs & Hcf).
      rewrite Hl' in Hl2. unfold dfile in Hf. rewrite Hb in Hf.
      split_dir Hf; inversion Hf; subst; simpl in Hl2; try discriminate Hl2; eqb_prop; subst;
        (split; [apply Hdl; reflexivity|intros; congruence]).
    - destruct (dir_untracked _ _ _ _ _ _ _ _ Hrun Hlk Hb) as [H1 _]. congruence.
  Qed.

  (* ---- idempotence ---- *)

  (* after a conflict-free pass whose baseline was refreshed (new manifest = new base = upstream), the
     second pass keeps every file; no merge is attempted (the oracle [merge3'] is arbitrary) *)
  Lemma dir_file_second merge3' o ib base ours upstream a t c1 :
    rebase_dir_file merge3 o ib base ours upstream = FOk a t false -> dry_run o = false ->
    after a (Some ours) = Some c1 ->
    (sparsify o = true -> ib = None -> upstream <> Some ours) ->
    exists t', rebase_dir_file merge3' o upstream upstream c1 upstream = FOk AKeep t' false /\
               (t' = TNone \/ t' = TSkipped).
  Proof.
    intros H Hd Ha Hk.
    split_dir H; inversion H; subst; clear H; simpl in Ha; inversion Ha; subst; clear Ha; eqb_prop; subst;
      unfold rebase_dir_file, do_write, do_delete;
      repeat (match goal with
              | |- context[match ?x with _ => _ end] =>
                lazymatch x with context[match _ with _ => _ end] => fail | _ => destruct x eqn:? end
              end; simpl);
      eqb_prop; subst; try congruence;
      try solve [eexists; split; [reflexivity|auto]];
      try solve [exfalso; eapply Hk; eauto; congruence];
      try solve [simpl in *; discriminate].
  Qed.

  Lemma dir_loop_keep mg o bl base up : forall todo st rep,
    (forall r c, In (r, c) todo -> exists t, rebase_dir_file mg o (bl r) (base r) c (up r) = FOk AKeep t false /\
                                              (t = TNone \/ t = TSkipped)) ->
    exists rep', dir_loop mg o bl base up todo st rep = (st, inr rep') /\
                 updated rep' = updated rep /\ deleted rep' = deleted rep /\ conflicts rep' = conflicts rep.
  Proof.
    induction todo as [|[r c] rest IH]; intros st rep H; simpl.
    - exists rep. repeat split; reflexivity.
    - destruct (H r c (or_introl eq_refl)) as (t & Hf & Ht). rewrite Hf. simpl.
      destruct (IH st (add_rep r t false rep)) as (rep' & Hl & H1 & H2 & H3).
      { intros r' c' Hin. apply H. right. exact Hin. }
      exists rep'. split; [exact Hl|]. rewrite H1, H2, H3. destruct Ht; subst t; repeat split; reflexivity.
  Qed.

  (* the class excluded from idempotence (known finding K14b): under --sparsify, an overlay file the
     old baseline does not track is byte-identical to the upstream file of the same name *)
  Definition K14b (o : opts) (w : world) (ov : overlay) (bl : baseline) : Prop :=
    sparsify o = true /\
    exists r c, lookup r (ov_files ov) = Some c /\ bl_files bl r = None /\ w_up w r = Some c.

  Theorem dir_idempotent merge3' o w ov ov1 rep1 bl :
    dir_run o w ov ov1 rep1 bl -> dry_run o = false -> conflicts rep1 = [] ->
    (forall r, w_head w r = w_up w r) -> w_rev w <> None ->
    ~ K14b o w ov bl ->
    exists rep2, rebase_overlay merge3' git_apply diff o w ov1 = (ov1, inr rep2) /\
                 updated rep2 = [] /\ deleted rep2 = [] /\ conflicts rep2 = [].
  Proof.
    intros Hrun Hd Hnc Hclean Hrev Hk.
    pose proof Hrun as (Hkind & Hnd & Hbl & Hr).
    destruct (rebase_dir_spec _ _ _ _ _ _ _ _ Hkind Hnd Hr)
      as (bl' & Hbl' & Hex & S1 & S2 & _ & _ & _ & S6 & Hov1 & Hnd1 & Hnp & _).
    rewrite Hbl in Hbl'. inversion Hbl'; subst bl'. clear Hbl'.
    unfold refreshed in Hov1. rewrite Hd in Hov1.
    assert (Hkeep : forall r c, In (r, c) (isort entry_leb (ov_files ov1)) ->
              exists t, rebase_dir_file merge3' o (w_up w r) (w_head w r) c (w_up w r) = FOk AKeep t false /\
                        (t = TNone \/ t = TSkipped)).
    { intros r c1 Hin. apply In_isort in Hin. apply In_lookup in Hin; [|exact Hnd1].
      rewrite S1 in Hin. destruct (lookup r (ov_files ov)) as [ours|] eqn:Hlk; [|discriminate].
      destruct (S2 _ _ Hlk) as (a & t & cf & Hf). rewrite Hf in Hin.
      assert (cf = false).
      { destruct cf; [|reflexivity]. assert (Hin' : In r (conflicts rep1)) by (apply S6; eauto).
        rewrite Hnc in Hin'. destruct Hin'. }
      subst cf. rewrite Hclean. unfold dfile in Hf.
      eapply dir_file_second; try eassumption.
      intros Hsp Hib Hup. apply Hk. split; [exact Hsp|]. exists r, ours. auto. }
    destruct (dir_loop_keep merge3' o (w_up w) (w_head w) (w_up w) _ (ov_files ov1) empty_report Hkeep)
      as (rep' & Hloop & H1 & H2 & H3).
    exists (sort_report rep').
    destruct ov1 as [e1 k1 f1 p1 c1 b1]. simpl in *. inversion Hov1; subst e1 k1 p1 c1 b1. clear Hov1.
    unfold rebase_overlay. simpl. unfold patch_files_of in *. simpl. rewrite Hnp. rewrite Bool.andb_false_r. simpl.
    destruct (w_rev w) eqn:Hw; [|congruence].
    rewrite Hloop. unfold refreshed. rewrite Hd. simpl. rewrite Hw.
    split; [reflexivity|].
    simpl. rewrite H1, H2, H3. simpl. repeat split; reflexivity.
  Qed.
End DirThms.

(* ====================================================================================== *)
(* patch overlays *)

Lemma strip_prefix_some p : forall x r, strip_prefix p x = Some r -> x = p ++ r.
Proof.
  induction p as [|a p IH]; intros x r H; simpl in H.
  - inversion H. reflexivity.
  - destruct x as [|b x]; [discriminate|]. destruct (a =? b) eqn:E; [|discriminate].
    apply N.eqb_eq in E. subst b. simpl. f_equal. apply IH, H.
Qed.

Lemma strip_suffix_some p x r : strip_suffix p x = Some r -> x = r ++ p.
Proof.
  unfold strip_suffix. destruct (strip_prefix (rev p) (rev x)) as [q|] eqn:E; [|discriminate].
  intros H. inversion H; subst. apply strip_prefix_some in E.
  rewrite <- (rev_involutive x), E, rev_app_distr, rev_involutive. reflexivity.
Qed.

Lemma strip_prefix_app a : forall b, strip_prefix a (a ++ b) = Some b.
Proof. induction a as [|x l IH]; intros b; simpl; [reflexivity|]. rewrite N.eqb_refl. apply IH. Qed.

Lemma strip_suffix_app p r : strip_suffix p (r ++ p) = Some r.
Proof. unfold strip_suffix. rewrite rev_app_distr, strip_prefix_app, rev_involutive. reflexivity. Qed.

(* open every test of one rebase_patch_file result *)
Ltac split_patch H :=
  unfold rebase_patch_file, do_write, do_delete in H;
  repeat (match type of H with
          | context[match ?x with _ => _ end] =>
            lazymatch x with
            | context[match _ with _ => _ end] => fail
            | _ => destruct x eqn:?
            end
          end; simpl in H; try discriminate H).

Section Patch.
  Variable merge3 : content -> content -> content -> option (content * bool).
  Variable git_apply : content -> rel -> content -> option content.
  Variable diff : rel -> content -> content -> option content.
  Variables (o : opts) (bl base up : fmap).

  Let g (rp : rel) (p : content) : pout := rebase_patch_file merge3 git_apply diff o bl base up rp p.

  (* the artefact a completed loop leaves at [rt] *)
  Fixpoint art_of (todo : files) (rt : rel) : option content :=
    match todo with
    | [] => None
    | (rp, p) :: rest =>
      match art_of rest rt with
      | Some c => Some c
      | None => match g rp p with
                | POk _ (Some (r', c)) _ _ _ => if str_eqb r' rt then Some c else None
                | _ => None
                end
      end
    end.

  Lemma patch_loop_ok : forall todo ps cfs rep ps' cfs' rep',
    NoDup (keys todo) ->
    patch_loop merge3 git_apply diff o bl base up todo ps cfs rep = (ps', cfs', inr rep') ->
    (forall rp, lookup rp ps' =
                match lookup rp todo with
                | Some p => match g rp p with POk a _ _ _ _ => after a (lookup rp ps) | PErr _ => lookup rp ps end
                | None => lookup rp ps
                end) /\
    (forall rp p, In (rp, p) todo -> exists a art t n cf, g rp p = POk a art t n cf) /\
    (forall rt, lookup rt cfs' = match art_of todo rt with Some c => Some c | None => lookup rt cfs end) /\
    (forall x, In x (updated rep') <-> In x (updated rep) \/ exists rp p a art cf, In (rp, p) todo /\ g rp p = POk a art TUpdated x cf) /\
    (forall x, In x (deleted rep') <-> In x (deleted rep) \/ exists rp p a art cf, In (rp, p) todo /\ g rp p = POk a art TDeleted x cf) /\
    (forall x, In x (skipped rep') <-> In x (skipped rep) \/ exists rp p a art cf, In (rp, p) todo /\ g rp p = POk a art TSkipped x cf) /\
    (forall x, In x (conflicts rep') <-> In x (conflicts rep) \/ exists rp p a art t, In (rp, p) todo /\ g rp p = POk a art t x true).
  Proof.
    induction todo as [|[r0 p0] rest IH]; intros ps cfs rep ps' cfs' rep' Hnd H; simpl in H.
    - inversion H; subst. repeat split; try tauto; try (intros [?|(?&?&?&?&?&[]&_)]; assumption).
      intros rp p [].
    - inversion Hnd as [|k t Hnotin Hnd']; subst.
      fold (g r0 p0) in H. destruct (g r0 p0) as [c|a art t n cf] eqn:Eg; [discriminate|].
      specialize (IH _ _ _ _ _ _ Hnd' H) as (IH1 & IH2 & IH3 & IH4 & IH5 & IH6 & IH7).
      assert (Hlk : lookup r0 rest = None) by (apply lookup_None; exact Hnotin).
      split; [|split; [|split; [|split; [|split; [|split]]]]].
      + intros rp. simpl. destruct (str_eqb r0 rp) eqn:E.
        * apply str_eqb_eq in E. subst rp. rewrite IH1, Hlk, Eg. apply lookup_apply_same.
        * apply str_eqb_neq in E. rewrite IH1.
          destruct (lookup rp rest) as [p|]; [destruct (g rp p)|]; try (rewrite lookup_apply_other by congruence); reflexivity.
      + intros rp p [Heq|Hin]; [inversion Heq; subst; eauto 6|eauto].
      + intros rt. rewrite IH3. simpl. destruct (art_of rest rt); [reflexivity|]. rewrite Eg.
        destruct art as [[r' c']|]; simpl; [|reflexivity].
        destruct (str_eqb r' rt) eqn:E.
        * apply str_eqb_eq in E. subst. apply lookup_set_same.
        * apply str_eqb_neq in E. apply lookup_set_other. congruence.
      + intros x. rewrite IH4, upd_add. split.
        * intros [[Hx|[Ht Hx]]|(rp & p & a' & art' & cf' & Hin & Hf)]; [left; exact Hx| |right; exists rp, p, a', art', cf'; split; [right; exact Hin|exact Hf]].
          subst. right. exists r0, p0, a, art, cf. split; [left; reflexivity|exact Eg].
        * intros [Hx|(rp & p & a' & art' & cf' & [Heq|Hin] & Hf)]; [left; left; exact Hx| |right; eauto 8].
          inversion Heq; subst. rewrite Eg in Hf. inversion Hf; subst. left. right. auto.
      + intros x. rewrite IH5, del_add. split.
        * intros [[Hx|[Ht Hx]]|(rp & p & a' & art' & cf' & Hin & Hf)]; [left; exact Hx| |right; exists rp, p, a', art', cf'; split; [right; exact Hin|exact Hf]].
          subst. right. exists r0, p0, a, art, cf. split; [left; reflexivity|exact Eg].
        * intros [Hx|(rp & p & a' & art' & cf' & [Heq|Hin] & Hf)]; [left; left; exact Hx| |right; eauto 8].
          inversion Heq; subst. rewrite Eg in Hf. inversion Hf; subst. left. right. auto.
      + intros x. rewrite IH6, skp_add. split.
        * intros [[Hx|[Ht Hx]]|(rp & p & a' & art' & cf' & Hin & Hf)]; [left; exact Hx| |right; exists rp, p, a', art', cf'; split; [right; exact Hin|exact Hf]].
          subst. right. exists r0, p0, a, art, cf. split; [left; reflexivity|exact Eg].
        * intros [Hx|(rp & p & a' & art' & cf' & [Heq|Hin] & Hf)]; [left; left; exact Hx| |right; eauto 8].
          inversion Heq; subst. rewrite Eg in Hf. inversion Hf; subst. left. right. auto.
      + intros x. rewrite IH7, cnf_add. split.
        * intros [[Hx|[Ht Hx]]|(rp & p & a' & art' & t' & Hin & Hf)]; [left; exact Hx| |right; exists rp, p, a', art', t'; split; [right; exact Hin|exact Hf]].
          subst. right. exists r0, p0, a, art, t. split; [left; reflexivity|exact Eg].
        * intros [Hx|(rp & p & a' & art' & t' & [Heq|Hin] & Hf)]; [left; left; exact Hx| |right; eauto 8].
          inversion Heq; subst. rewrite Eg in Hf. inversion Hf; subst. left. right. auto.
  Qed.

  (* an artefact is written at the patch's own target *)
  Lemma patch_art_target rp p a rt c t n cf :
    g rp p = POk a (Some (rt, c)) t n cf -> rp = rt ++ dot_patch /\ n = rt.
  Proof.
    intros H. unfold g in H. split_patch H; inversion H; subst;
      match goal with Hs : strip_suffix dot_patch rp = Some _ |- _ => apply strip_suffix_some in Hs end; auto.
  Qed.

  Lemma patch_name rp p a art t n cf :
    g rp p = POk a art t n cf ->
    (strip_suffix dot_patch rp = None /\ n = rp) \/ (rp = n ++ dot_patch /\ strip_suffix dot_patch rp = Some n).
  Proof.
    intros H. unfold g in H. split_patch H; inversion H; subst; auto;
      right; match goal with Hs : strip_suffix dot_patch rp = Some _ |- _ => pose proof (strip_suffix_some _ _ _ Hs) end; auto.
  Qed.

  Lemma art_of_None todo rt :
    (forall rp p a c t n cf, In (rp, p) todo -> g rp p <> POk a (Some (rt, c)) t n cf) -> art_of todo rt = None.
  Proof.
    induction todo as [|[rp p] rest IH]; intros H; simpl; [reflexivity|].
    rewrite IH by (intros; apply H; right; assumption).
    destruct (g rp p) as [|a [[r' c]|] t n cf] eqn:E; try reflexivity.
    destruct (str_eqb r' rt) eqn:E2; [|reflexivity]. apply str_eqb_eq in E2. subst r'.
    exfalso. eapply H; [left; reflexivity|exact E].
  Qed.

  Lemma art_of_In todo rp p a rt c t n cf :
    NoDup (keys todo) -> In (rp, p) todo -> g rp p = POk a (Some (rt, c)) t n cf -> art_of todo rt = Some c.
  Proof.
    induction todo as [|[rp0 p0] rest IH]; intros Hnd Hin Hg; [destruct Hin|].
    inversion Hnd as [|k l Hnotin Hnd']; subst. simpl.
    destruct Hin as [Heq|Hin].
    - inversion Heq; subst.
      rewrite art_of_None.
      + rewrite Hg, str_eqb_refl. reflexivity.
      + intros rp' p' a' c' t' n' cf' Hin' Hg'.
        apply patch_art_target in Hg as [Hg _]. apply patch_art_target in Hg' as [Hg' _]. subst.
        apply Hnotin. apply (in_map fst) in Hin'. exact Hin'.
    - rewrite (IH Hnd' Hin Hg). reflexivity.
  Qed.
End Patch.

Lemma lookup_filter_key (h : rel -> bool) l r :
  lookup r (filter (fun kc : rel * content => h (fst kc)) l) = if h r then lookup r l else None.
Proof.
  induction l as [|[k c] t IH]; simpl; [destruct (h r); reflexivity|].
  destruct (h k) eqn:Hk; simpl.
  - destruct (str_eqb k r) eqn:E; [apply str_eqb_eq in E; subst; rewrite Hk; reflexivity|exact IH].
  - destruct (str_eqb k r) eqn:E; [apply str_eqb_eq in E; subst; rewrite Hk in IH; rewrite Hk; exact IH|exact IH].
Qed.

Section PatchTop.
  Variable merge3 : content -> content -> content -> option (content * bool).
  Variable git_apply : content -> rel -> content -> option content.
  Variable diff : rel -> content -> content -> option content.

  Notation rebase := (rebase_overlay merge3 git_apply diff).

  Definition pfile (o : opts) (bl : baseline) (w : world) (rp : rel) (p : content) : pout :=
    rebase_patch_file merge3 git_apply diff o (bl_files bl) (bl_base bl) (w_up w) rp p.

  (* a completed rebase of a patch overlay *)
  Definition patch_run (o : opts) (w : world) (ov ov' : overlay) (rep : report) (bl : baseline) : Prop :=
    ov_kind ov = KPatch /\ NoDup (keys (ov_patches ov)) /\ ov_baseline ov = Some bl /\
    rebase o w ov = (ov', inr rep).

  (* [rp] names a patch file of the overlay with text [p] *)
  Definition is_patch (ov : overlay) (rp : rel) (p : content) : Prop :=
    has_patch_ext rp = true /\ lookup rp (ov_patches ov) = Some p.

  Lemma rebase_patch_at o w ov ov' rep bl rp p :
    patch_run o w ov ov' rep bl -> is_patch ov rp p ->
    exists a art t n cf, pfile o bl w rp p = POk a art t n cf /\
      lookup rp (ov_patches ov') = after a (Some p) /\
      (forall rt c, art = Some (rt, c) -> lookup rt (ov_conflicts ov') = Some c) /\
      (t = TUpdated -> In n (updated rep)) /\ (t = TDeleted -> In n (deleted rep)) /\
      (t = TSkipped -> In n (skipped rep)) /\ (cf = true -> In n (conflicts rep)).
  Proof.
    intros (Hk & Hnd & Hbl & H) [Hext Hlk]. unfold rebase_overlay in H.
    destruct (ov_exists ov) eqn:Hex; simpl in H; [|inversion H].
    rewrite Hbl in H.
    destruct (negb (nilb (ov_files ov)) && negb (nilb (patch_files_of ov))); [inversion H|].
    rewrite Hk in H.
    destruct (negb (nilb (ov_files ov))); [inversion H|].
    destruct (bl_rev bl) as [revn|]; [|inversion H].
    destruct (patch_loop merge3 git_apply diff o (bl_files bl) (bl_base bl) (w_up w) (isort entry_leb (patch_files_of ov))
                         (ov_patches ov) (ov_conflicts ov) empty_report) as [[ps cfs] [c|rep0]] eqn:Hloop;
      inversion H; subst; clear H.
    assert (Hndp : NoDup (keys (patch_files_of ov))) by (apply NoDup_filter_keys, Hnd).
    assert (Hperm : Permutation (patch_files_of ov) (isort entry_leb (patch_files_of ov))) by apply isort_perm.
    assert (Hnd2 : NoDup (keys (isort entry_leb (patch_files_of ov)))).
    { eapply Permutation_NoDup; [apply Permutation_map, Hperm|exact Hndp]. }
    assert (Hlkp : lookup rp (patch_files_of ov) = Some p).
    { unfold patch_files_of. rewrite lookup_filter_key, Hext. exact Hlk. }
    assert (Hlk2 : lookup rp (isort entry_leb (patch_files_of ov)) = Some p).
    { rewrite <- Hlkp. symmetry. apply lookup_perm; assumption. }
    assert (Hin : In (rp, p) (isort entry_leb (patch_files_of ov))) by (apply lookup_In, Hlk2).
    destruct (patch_loop_ok merge3 git_apply diff o (bl_files bl) (bl_base bl) (w_up w) _ _ _ _ _ _ _ Hnd2 Hloop)
      as (S1 & S2 & S3 & S4 & S5 & S6 & S7).
    destruct (S2 _ _ Hin) as (a & art & t & n & cf & Hg). exists a, art, t, n, cf.
    split; [exact Hg|]. simpl.
    split; [rewrite S1, Hlk2; unfold pfile in Hg; rewrite Hg, Hlk; reflexivity|].
    split; [|split; [|split; [|split]]].
    - intros rt c ->. rewrite S3. erewrite art_of_In; [reflexivity|exact Hnd2|exact Hin|exact Hg].
    - intros ->. apply In_isort. apply S4. right. eauto 8.
    - intros ->. apply In_isort. apply S5. right. eauto 8.
    - intros ->. apply In_isort. apply S6. right. eauto 8.
    - intros ->. apply In_isort. apply S7. right. eauto 8.
  Qed.

  (* what the module materialises to at [rt] under the overlay's patch for it, taken alone *)
  Definition patch_result (ps : files) (up : fmap) (rt : rel) : option content :=
    match lookup (rt ++ dot_patch) ps with
    | Some p => match up rt with Some u => git_apply p rt u | None => None end
    | None => up rt
    end.

  (* git's contract, as far as the statements below need it, stated on the byte strings at hand:
     [diff_ok r a b]: what `git diff --no-index` printed for (a, b) is a UTF-8 single-file patch whose
     header names r and which `git apply` turns a into b with; no output means a = b *)
  Definition diff_ok (r : rel) (a b : content) : Prop :=
    match diff r a b with
    | Some p => utf8_valid p = true /\ patch_header_ok r (utf8_decode p) = true /\ git_apply p r a = Some b
    | None => a = b
    end.
  Definition apply_utf8_law : Prop :=
    forall p r b c, git_apply p r b = Some c -> utf8_valid p = true -> utf8_valid b = true -> utf8_valid c = true.

  (* C14_cases / no_silent_loss / conflict_reported for one patch file, in one statement: every
     patch file of a completed, non-dry rebase falls in exactly one of these outcomes *)
  Theorem patch_outcome o w ov ov' rep bl rp p :
    patch_run o w ov ov' rep bl -> dry_run o = false -> is_patch ov rp p ->
    (* not a *.patch name, or a target the baseline does not track: skipped, untouched *)
    (lookup rp (ov_patches ov') = Some p /\
     ((strip_suffix dot_patch rp = None /\ In rp (skipped rep)) \/
      (exists rt, rp = rt ++ dot_patch /\ bl_files bl rt = None /\ In rt (skipped rep))))
    \/ exists rt b ours, rp = rt ++ dot_patch /\ bl_files bl rt = Some b /\ bl_base bl rt = Some b /\
         git_apply p rt b = Some ours /\
         ( (* upstream deleted the file: conflict, the edited text kept in the artefact, patch untouched *)
           (w_up w rt = None /\ In rt (conflicts rep) /\ lookup rp (ov_patches ov') = Some p /\
            lookup rt (ov_conflicts ov') = Some (markers_deleted ours))
           \/ exists u m, w_up w rt = Some u /\
              ( (* conflict: reported, artefact = merge-file output, patch rewritten to produce it *)
                (merge3 b ours u = Some (m, true) /\ In rt (conflicts rep) /\
                 lookup rt (ov_conflicts ov') = Some m /\
                 lookup rp (ov_patches ov') = match diff rt u m with Some p' => Some p' | None => Some p end)
                \/ (* clean merge: the patch becomes diff(upstream', merged), or disappears when equal *)
                (merge3 b ours u = Some (m, false) /\
                 ((diff rt u m = None /\ lookup rp (ov_patches ov') = None /\ In rt (deleted rep)) \/
                  (exists p', diff rt u m = Some p' /\ lookup rp (ov_patches ov') = Some p' /\ In rt (updated rep)))))).
  Proof.
    intros Hrun Hd Hp.
    destruct (rebase_patch_at _ _ _ _ _ _ _ _ Hrun Hp) as (a & art & t & n & cf & Hg & Hl & Hart & Hu & Hdl & Hs & Hc).
    rewrite Hl. clear Hl. unfold pfile in Hg.
    split_patch Hg; inversion Hg; subst; clear Hg; eqb_prop; subst;
      repeat match goal with Hs : strip_suffix dot_patch rp = Some _ |- _ => apply strip_suffix_some in Hs; subst rp end;
      try congruence.
    all: simpl after.
    all: first
      [ solve [left; split; [reflexivity|]; left; split; auto]
      | solve [left; split; [reflexivity|]; right; eexists; repeat split; auto]
      | right; do 3 eexists; split; [reflexivity|]; split; [eassumption|]; split; [eassumption|]; split; [eassumption|];
        first
        [ solve [left; split; [assumption|]; split; [auto|]; split; [reflexivity|]; apply Hart; reflexivity]
        | right; do 2 eexists; split; [eassumption|];
          first
          [ solve [left; split; [eassumption|]; split; [auto|]; split; [apply Hart; reflexivity|];
                   repeat match goal with H : diff _ _ _ = _ |- _ => rewrite H end; reflexivity]
          | solve [right; split; [eassumption|]; left; repeat split; auto]
          | solve [right; split; [eassumption|]; right; eexists; repeat split; auto] ] ] ].
  Qed.

  (* C14_cases for patch overlays: under git's diff/apply contract the rebased patch, applied to the
     new upstream, yields the merge-file output *)
  Theorem patch_cases o w ov ov' rep bl rt p b u ours m c :
    patch_run o w ov ov' rep bl -> dry_run o = false -> is_patch ov (rt ++ dot_patch) p ->
    bl_files bl rt = Some b -> w_up w rt = Some u ->
    git_apply p rt b = Some ours -> merge3 b ours u = Some (m, c) -> diff_ok rt u m ->
    (c = false \/ diff rt u m <> None -> patch_result (ov_patches ov') (w_up w) rt = Some m) /\
    (c = true -> In rt (conflicts rep) /\ lookup rt (ov_conflicts ov') = Some m) /\
    (c = false -> lookup (rt ++ dot_patch) (ov_patches ov') = None -> m = u).
  Proof.
    intros Hrun Hd Hp Hb Hu Hours Hmerge Hlaw. unfold diff_ok in Hlaw.
    destruct (patch_outcome _ _ _ _ _ _ _ _ Hrun Hd Hp) as [[_ [[Hs _]|(rt' & Hrt & Hn & _)]]|(rt' & b' & ours' & Hrt & Hb' & _ & Hap & Hcase)].
    - rewrite strip_suffix_app in Hs. discriminate.
    - apply app_inv_tail in Hrt. subst rt'. congruence.
    - apply app_inv_tail in Hrt. subst rt'. rewrite Hb in Hb'. inversion Hb'; subst b'.
      rewrite Hours in Hap. inversion Hap; subst ours'.
      destruct Hcase as [(Hnone & _)|(u' & m' & Hu' & Hcase)]; [congruence|].
      rewrite Hu in Hu'. inversion Hu'; subst u'.
      unfold patch_result. rewrite Hu.
      destruct Hcase as [(Hm & Hc & Hart & Hl)|(Hm & [(Hdf & Hl & _)|(p' & Hdf & Hl & _)])];
        rewrite Hmerge in Hm; inversion Hm; subst m' c.
      + repeat split; auto; try discriminate.
        intros [Hx|Hx]; [discriminate|]. rewrite Hl.
        destruct (diff rt u m) as [p'|]; [|congruence]. apply Hlaw.
      + rewrite Hdf in Hlaw. repeat split; auto; try discriminate.
        intros _. rewrite Hl. congruence.
      + rewrite Hdf in Hlaw. repeat split; auto; try discriminate.
        * intros _. rewrite Hl. apply Hlaw.
        * intros _ Hx. congruence.
  Qed.

  (* ... so, with git's answers for the trivial merges, the first two clauses of the property *)
  Corollary patch_cases_trivial o w ov ov' rep bl rt p b u ours :
    patch_run o w ov ov' rep bl -> dry_run o = false -> is_patch ov (rt ++ dot_patch) p ->
    bl_files bl rt = Some b -> w_up w rt = Some u -> git_apply p rt b = Some ours ->
    (ours = b -> merge3 b b u = Some (u, false) -> diff_ok rt u u ->
       patch_result (ov_patches ov') (w_up w) rt = Some u) /\
    (u = b -> merge3 b ours b = Some (ours, false) -> diff_ok rt b ours ->
       patch_result (ov_patches ov') (w_up w) rt = Some ours).
  Proof.
    intros Hrun Hd Hp Hb Hu Hap. split.
    - intros -> Hm Hdk. destruct (patch_cases _ _ _ _ _ _ _ _ _ _ _ _ _ Hrun Hd Hp Hb Hu Hap Hm Hdk) as (H1 & _). auto.
    - intros -> Hm Hdk. destruct (patch_cases _ _ _ _ _ _ _ _ _ _ _ _ _ Hrun Hd Hp Hb Hu Hap Hm Hdk) as (H1 & _). auto.
  Qed.

  (* ---- the dry run of a patch overlay ---- *)
  Definition pstrip (x : pout) : str + (tag * rel * bool) :=
    match x with PErr c => inl c | POk _ _ t n cf => inr (t, n, cf) end.

  Lemma patch_file_dry_keep s bl base up rp p a art t n cf :
    rebase_patch_file merge3 git_apply diff (mkOpts true s) bl base up rp p = POk a art t n cf ->
    a = AKeep /\ art = None.
  Proof. intros H. split_patch H; inversion H; auto. Qed.

  Lemma patch_file_dry_same s bl base up rp p :
    apply_utf8_law ->
    pstrip (rebase_patch_file merge3 git_apply diff (mkOpts true s) bl base up rp p) =
    pstrip (rebase_patch_file merge3 git_apply diff (mkOpts false s) bl base up rp p).
  Proof.
    intros Hlaw. unfold rebase_patch_file, do_write, do_delete; simpl.
    repeat (match goal with
            | |- context[match ?x with _ => _ end] =>
              lazymatch x with context[match _ with _ => _ end] => fail | _ => destruct x eqn:? end
            end; simpl); try reflexivity.
    eqb_prop. exfalso.
    match goal with Ha : git_apply _ _ _ = Some ?c, Hv : utf8_valid ?c = false |- _ =>
      rewrite (Hlaw _ _ _ _ Ha) in Hv by assumption; discriminate end.
  Qed.

  Lemma patch_loop_dry s bl base up : apply_utf8_law -> forall todo ps1 cfs1 ps2 cfs2 rep,
    patch_loop merge3 git_apply diff (mkOpts true s) bl base up todo ps1 cfs1 rep =
    (ps1, cfs1, snd (patch_loop merge3 git_apply diff (mkOpts false s) bl base up todo ps2 cfs2 rep)).
  Proof.
    intros Hlaw. induction todo as [|[rp p] rest IH]; intros ps1 cfs1 ps2 cfs2 rep; simpl; [reflexivity|].
    pose proof (patch_file_dry_same s bl base up rp p Hlaw) as Hs.
    destruct (rebase_patch_file merge3 git_apply diff (mkOpts true s) bl base up rp p) as [c|a art t n cf] eqn:E1;
      destruct (rebase_patch_file merge3 git_apply diff (mkOpts false s) bl base up rp p) as [c2|a2 art2 t2 n2 cf2] eqn:E2;
      simpl in Hs; try discriminate Hs.
    - inversion Hs; reflexivity.
    - inversion Hs; subst. apply patch_file_dry_keep in E1 as [-> ->]. simpl. apply IH.
  Qed.

  Theorem patch_dry s w ov :
    apply_utf8_law -> ov_kind ov = KPatch ->
    rebase (mkOpts true s) w ov = (ov, snd (rebase (mkOpts false s) w ov)).
  Proof.
    intros Hlaw Hk. unfold rebase_overlay. rewrite Hk.
    destruct (ov_exists ov) eqn:Hex; simpl; [|reflexivity].
    destruct (ov_baseline ov) as [bl|] eqn:Hbl; [|reflexivity].
    destruct (negb (nilb (ov_files ov)) && negb (nilb (patch_files_of ov))); [reflexivity|].
    destruct (negb (nilb (ov_files ov))); [reflexivity|].
    destruct (bl_rev bl); [|reflexivity].
    rewrite (patch_loop_dry s (bl_files bl) (bl_base bl) (w_up w) Hlaw _ (ov_patches ov) (ov_conflicts ov)
                            (ov_patches ov) (ov_conflicts ov) empty_report).
    destruct (patch_loop merge3 git_apply diff (mkOpts false s) (bl_files bl) (bl_base bl) (w_up w)
                         (isort entry_leb (patch_files_of ov)) (ov_patches ov) (ov_conflicts ov) empty_report)
      as [[ps cfs] [c|rep]]; simpl; destruct ov; simpl in *; subst; reflexivity.
  Qed.

  (* without the law: a dry run still never changes the overlay *)
  Lemma patch_loop_dry_state s bl base up : forall todo ps cfs rep,
    fst (patch_loop merge3 git_apply diff (mkOpts true s) bl base up todo ps cfs rep) = (ps, cfs).
  Proof.
    induction todo as [|[rp p] rest IH]; intros ps cfs rep; simpl; [reflexivity|].
    destruct (rebase_patch_file merge3 git_apply diff (mkOpts true s) bl base up rp p) as [c|a art t n cf] eqn:E1; [reflexivity|].
    apply patch_file_dry_keep in E1 as [-> ->]. simpl. apply IH.
  Qed.

  Theorem dry_state_unchanged s w ov : fst (rebase (mkOpts true s) w ov) = ov.
  Proof.
    unfold rebase_overlay.
    destruct (ov_exists ov) eqn:Hex; simpl; [|reflexivity].
    destruct (ov_baseline ov) as [bl|] eqn:Hbl; [|reflexivity].
    destruct (negb (nilb (ov_files ov)) && negb (nilb (patch_files_of ov))); [reflexivity|].
    destruct (ov_kind ov) eqn:Hk.
    - destruct (negb (nilb (patch_files_of ov))); [reflexivity|].
      destruct (bl_rev bl); [|reflexivity].
      rewrite (dir_loop_dry merge3 s (bl_files bl) (bl_base bl) (w_up w) _ (ov_files ov) (ov_files ov) empty_report).
      destruct (snd (dir_loop merge3 (mkOpts false s) (bl_files bl) (bl_base bl) (w_up w) (isort entry_leb (ov_files ov)) (ov_files ov) empty_report));
        simpl; destruct ov; simpl in *; subst; reflexivity.
    - destruct (negb (nilb (ov_files ov))); [reflexivity|].
      destruct (bl_rev bl); [|reflexivity].
      pose proof (patch_loop_dry_state s (bl_files bl) (bl_base bl) (w_up w) (isort entry_leb (patch_files_of ov))
                                       (ov_patches ov) (ov_conflicts ov) empty_report) as Hst.
      destruct (patch_loop merge3 git_apply diff (mkOpts true s) (bl_files bl) (bl_base bl) (w_up w)
                           (isort entry_leb (patch_files_of ov)) (ov_patches ov) (ov_conflicts ov) empty_report)
        as [[ps cfs] [c|rep]]; simpl in Hst; inversion Hst; subst; simpl; destruct ov; simpl in *; subst; reflexivity.
  Qed.

  (* ---- idempotence of a patch overlay rebase ---- *)

  Lemma set_key_same r c l : lookup r l = Some c -> set_key r c l = l.
  Proof.
    induction l as [|[k c0] t IH]; simpl; intros H; [discriminate|].
    destruct (str_eqb k r) eqn:E; [inversion H; reflexivity|]. f_equal. apply IH, H.
  Qed.

  Lemma rebase_patch_frame o w ov ov' rep bl :
    patch_run o w ov ov' rep bl ->
    (forall rp, lookup rp (ov_patches ov) = None -> lookup rp (ov_patches ov') = None) /\
    (forall rt, (forall rp p a c t n cf, is_patch ov rp p -> pfile o bl w rp p <> POk a (Some (rt, c)) t n cf) ->
                lookup rt (ov_conflicts ov') = lookup rt (ov_conflicts ov)) /\
    ov' = mkOv true KPatch (ov_files ov) (ov_patches ov') (ov_conflicts ov') (refreshed o w (Some bl)) /\
    nilb (ov_files ov) = true /\ bl_rev bl <> None /\ ov_exists ov = true.
  Proof.
    intros (Hk & Hnd & Hbl & H). unfold rebase_overlay in H.
    destruct (ov_exists ov) eqn:Hex; simpl in H; [|inversion H].
    rewrite Hbl in H.
    destruct (negb (nilb (ov_files ov)) && negb (nilb (patch_files_of ov))); [inversion H|].
    rewrite Hk in H.
    destruct (nilb (ov_files ov)) eqn:Hnf; simpl in H; [|inversion H].
    destruct (bl_rev bl) as [revn|] eqn:Hrev; [|inversion H].
    destruct (patch_loop merge3 git_apply diff o (bl_files bl) (bl_base bl) (w_up w) (isort entry_leb (patch_files_of ov))
                         (ov_patches ov) (ov_conflicts ov) empty_report) as [[ps cfs] [c|rep0]] eqn:Hloop;
      inversion H; subst; clear H.
    assert (Hndp : NoDup (keys (patch_files_of ov))) by (apply NoDup_filter_keys, Hnd).
    assert (Hperm : Permutation (patch_files_of ov) (isort entry_leb (patch_files_of ov))) by apply isort_perm.
    assert (Hnd2 : NoDup (keys (isort entry_leb (patch_files_of ov)))).
    { eapply Permutation_NoDup; [apply Permutation_map, Hperm|exact Hndp]. }
    destruct (patch_loop_ok merge3 git_apply diff o (bl_files bl) (bl_base bl) (w_up w) _ _ _ _ _ _ _ Hnd2 Hloop)
      as (S1 & S2 & S3 & _).
    simpl. repeat split; try reflexivity; try congruence.
    - intros rp Hn. rewrite S1.
      assert (Hl : lookup rp (isort entry_leb (patch_files_of ov)) = None).
      { rewrite <- (lookup_perm _ _ rp Hndp Hperm). unfold patch_files_of. rewrite lookup_filter_key, Hn.
        destruct (has_patch_ext rp); reflexivity. }
      rewrite Hl. exact Hn.
    - intros rt Hno. rewrite S3. rewrite art_of_None; [reflexivity|].
      intros rp p a c t n cf Hin. apply In_isort in Hin.
      apply (Hno rp p a c t n cf). unfold patch_files_of in Hin. apply filter_In in Hin as [Hin Hext]. simpl in Hext.
      split; [exact Hext|apply In_lookup; assumption].
  Qed.

  Lemma patch_loop_same o bl base up : forall todo ps cfs rep,
    (forall rp p, In (rp, p) todo ->
        lookup rp ps = Some p /\
        exists a t n, rebase_patch_file merge3 git_apply diff o bl base up rp p = POk a None t n false /\
                      (a = AKeep \/ a = AWrite p) /\ t <> TDeleted) ->
    exists rep', patch_loop merge3 git_apply diff o bl base up todo ps cfs rep = (ps, cfs, inr rep') /\
                 deleted rep' = deleted rep /\ conflicts rep' = conflicts rep.
  Proof.
    induction todo as [|[rp p] rest IH]; intros ps cfs rep H; simpl.
    - exists rep. repeat split; reflexivity.
    - destruct (H rp p (or_introl eq_refl)) as (Hlk & a & t & n & Hg & Ha & Ht). rewrite Hg.
      assert (Hst : apply_act rp a ps = ps).
      { destruct Ha; subst a; simpl; [reflexivity|apply set_key_same, Hlk]. }
      rewrite Hst. simpl.
      destruct (IH ps cfs (add_rep n t false rep)) as (rep' & Hl & H1 & H2).
      { intros rp' p' Hin. apply H. right. exact Hin. }
      exists rep'. split; [exact Hl|]. rewrite H1, H2. destruct t; try congruence; repeat split; reflexivity.
  Qed.

  (* a patch whose target the old baseline did not track must not meet a file newly added upstream:
     such a dangling patch was refused by the composition all along (E_CONFIG_INVALID, patch target
     missing) and has no base to be rebased from *)
  Definition no_dangling_adoption (w : world) (ov : overlay) (bl : baseline) : Prop :=
    forall rt p, is_patch ov (rt ++ dot_patch) p -> bl_files bl rt = None -> w_up w rt = None.

  (* the (target, upstream, merged) triples a clean patch rebase produces *)
  Definition touched (w : world) (ov : overlay) (bl : baseline) (rt : rel) (u m : content) : Prop :=
    exists p b ours, is_patch ov (rt ++ dot_patch) p /\ bl_files bl rt = Some b /\
                     git_apply p rt b = Some ours /\ w_up w rt = Some u /\ merge3 b ours u = Some (m, false).

  Theorem patch_idempotent o w ov ov1 rep1 bl :
    (forall rt u m, touched w ov bl rt u m ->
        diff_ok rt u m /\ merge3 u m u = Some (m, false) /\ utf8_valid m = true) ->
    patch_run o w ov ov1 rep1 bl -> dry_run o = false -> conflicts rep1 = [] ->
    (forall r, w_head w r = w_up w r) -> w_rev w <> None ->
    no_dangling_adoption w ov bl ->
    exists rep2, rebase o w ov1 = (ov1, inr rep2) /\ deleted rep2 = [] /\ conflicts rep2 = [].
  Proof.
    intros Hlaws Hrun Hd Hnc Hclean Hrev Hdang.
    destruct (rebase_patch_frame _ _ _ _ _ _ Hrun) as (F1 & _ & Hov1 & Hnf & _ & _).
    unfold refreshed in Hov1. rewrite Hd in Hov1.
    assert (Hsame : forall rp p1, In (rp, p1) (isort entry_leb (patch_files_of ov1)) ->
              lookup rp (ov_patches ov1) = Some p1 /\
              exists a t n, rebase_patch_file merge3 git_apply diff o (w_up w) (w_head w) (w_up w) rp p1 = POk a None t n false /\
                            (a = AKeep \/ a = AWrite p1) /\ t <> TDeleted).
    { intros rp p1 Hin. apply In_isort in Hin. unfold patch_files_of in Hin. apply filter_In in Hin as [Hin Hext].
      simpl in Hext.
      assert (Hnd1 : NoDup (keys (ov_patches ov1))).
      { pose proof Hrun as (Hk & Hnd & Hbl & H). unfold rebase_overlay in H.
        destruct (ov_exists ov); simpl in H; [|inversion H]. rewrite Hbl in H.
        destruct (negb (nilb (ov_files ov)) && negb (nilb (patch_files_of ov))); [inversion H|].
        rewrite Hk in H. destruct (negb (nilb (ov_files ov))); [inversion H|].
        destruct (bl_rev bl); [|inversion H].
        destruct (patch_loop merge3 git_apply diff o (bl_files bl) (bl_base bl) (w_up w) (isort entry_leb (patch_files_of ov))
                             (ov_patches ov) (ov_conflicts ov) empty_report) as [[ps cfs] [c|rep0]] eqn:Hloop;
          inversion H; subst; clear H. simpl.
        clear - Hnd Hloop.
        revert Hnd Hloop. generalize (isort entry_leb (patch_files_of ov)) (ov_patches ov) (ov_conflicts ov) empty_report.
        induction l as [|[r0 p0] rest IH]; intros ps0 cfs0 rep Hnd H; simpl in H; [inversion H; subst; exact Hnd|].
        destruct (rebase_patch_file merge3 git_apply diff o (bl_files bl) (bl_base bl) (w_up w) r0 p0); [discriminate|].
        eapply IH; [|exact H]. apply NoDup_apply_act, Hnd. }
      assert (Hlk1 : lookup rp (ov_patches ov1) = Some p1) by (apply In_lookup; assumption).
      split; [exact Hlk1|].
      destruct (lookup rp (ov_patches ov)) as [p|] eqn:Hlk; [|rewrite (F1 _ Hlk) in Hlk1; discriminate].
      assert (Hp : is_patch ov rp p) by (split; assumption).
      destruct (patch_outcome _ _ _ _ _ _ _ _ Hrun Hd Hp)
        as [[Hl [[Hs _]|(rt & Hrt & Hn & _)]]|(rt & b & ours & Hrt & Hb & Hbase & Hap & Hcase)].
      - (* not a .patch name *)
        exists AKeep, TSkipped, rp. unfold rebase_patch_file. rewrite Hs. repeat split; auto; discriminate.
      - (* untracked target: still absent upstream *)
        subst rp. rewrite Hl in Hlk1. inversion Hlk1; subst p1.
        pose proof (Hdang _ _ Hp Hn) as Hup.
        assert (Hss : strip_suffix dot_patch (rt ++ dot_patch) = Some rt).
        { destruct (rebase_patch_at _ _ _ _ _ _ _ _ Hrun Hp) as (a & art & t & n & cf & Hg & _).
          apply patch_name in Hg as [[Hx _]|[Hx Hy]].
          - exfalso. unfold strip_suffix in Hx. rewrite rev_app_distr in Hx.
            assert (Hz : strip_prefix (rev dot_patch) (rev dot_patch ++ rev rt) = Some (rev rt)).
            { clear. induction (rev dot_patch) as [|x l IH]; simpl; [reflexivity|]. rewrite N.eqb_refl. exact IH. }
            rewrite Hz in Hx. discriminate.
          - apply app_inv_tail in Hx. subst n. exact Hy. }
        destruct (rebase_patch_at _ _ _ _ _ _ _ _ Hrun Hp) as (a & art & t & n & cf & Hg & _).
        unfold pfile, rebase_patch_file in Hg. rewrite Hss in Hg.
        destruct (valid_relpath rt) eqn:Hv; simpl in Hg; [|discriminate].
        exists AKeep, TSkipped, rt. unfold rebase_patch_file. rewrite Hss, Hv, Hup. simpl.
        repeat split; auto; discriminate.
      - subst rp.
        destruct Hcase as [(Hup & Hc & _)|(u & m & Hup & [(Hm & Hc & _)|(Hm & Hdf)])];
          try (rewrite Hnc in Hc; destruct Hc).
        destruct (rebase_patch_at _ _ _ _ _ _ _ _ Hrun Hp) as (a & art & t & n & cf & Hg & _).
        unfold pfile in Hg.
        assert (Hfacts : strip_suffix dot_patch (rt ++ dot_patch) = Some rt /\ valid_relpath rt = true /\
                         utf8_valid b = true /\ utf8_valid ours = true /\ utf8_valid u = true).
        { pose proof (strip_suffix_app dot_patch rt) as Hss. unfold rebase_patch_file in Hg. rewrite Hss in Hg.
          destruct (valid_relpath rt) eqn:Hv; simpl in Hg; [|discriminate].
          rewrite Hb, Hbase, str_eqb_refl in Hg. simpl in Hg.
          destruct (utf8_valid b) eqn:Hub; simpl in Hg; [|discriminate].
          destruct (utf8_valid p); simpl in Hg; [|discriminate].
          destruct (patch_header_ok rt (utf8_decode p)); simpl in Hg; [|discriminate].
          rewrite Hap, Hup in Hg.
          destruct (utf8_valid ours) eqn:Huo; simpl in Hg; [|discriminate].
          destruct (utf8_valid u) eqn:Huu; simpl in Hg; [|discriminate].
          repeat split; try reflexivity; exact Hss. }
        destruct Hfacts as (Hss & Hv & Hub & Huo & Huu).
        destruct Hdf as [(Hdf & Hl & _)|(p' & Hdf & Hl & _)]; [congruence|].
        rewrite Hl in Hlk1. inversion Hlk1; subst p1.
        destruct (Hlaws rt u m) as (Hd1 & Hm2 & Hum).
        { exists p, b, ours. auto. }
        unfold diff_ok in Hd1. rewrite Hdf in Hd1. destruct Hd1 as (Hup' & Hhd & Hap').
        exists (AWrite p'), TUpdated, rt.
        unfold rebase_patch_file. rewrite Hss, Hv, Hup, Hclean, Hup, str_eqb_refl. simpl.
        rewrite Huu, Hup', Hhd. simpl. rewrite Hap', Hum. simpl.
        rewrite Hm2, Hdf. unfold do_write. rewrite Hd.
        repeat split; auto; discriminate. }
    destruct (patch_loop_same o (w_up w) (w_head w) (w_up w) _ (ov_patches ov1) (ov_conflicts ov1) empty_report Hsame)
      as (rep' & Hloop & H1 & H2).
    exists (sort_report rep').
    destruct ov1 as [e1 k1 f1 p1 c1 b1]. simpl in *. inversion Hov1; subst e1 k1 f1 b1. clear Hov1.
    unfold rebase_overlay. simpl. rewrite Hnf. simpl.
    destruct (w_rev w) eqn:Hw; [|congruence].
    unfold patch_files_of in *. simpl in *. rewrite Hloop. unfold refreshed. rewrite Hd. simpl. rewrite Hw.
    split; [reflexivity|]. rewrite H1, H2. simpl. split; reflexivity.
  Qed.

  (* ---- materialisation of a patch overlay (compose_module_tree with one patch layer) ---- *)
  Lemma compose_patch_loop_spec : forall todo out res,
    NoDup (keys todo) -> compose_patch_loop git_apply todo out = inr res ->
    forall rt, res rt = match lookup (rt ++ dot_patch) todo with
                        | Some p => match out rt with Some target => git_apply p rt target | None => None end
                        | None => out rt
                        end.
  Proof.
    induction todo as [|[rp p] rest IH]; intros out res Hnd H rt; simpl in H.
    - inversion H. reflexivity.
    - inversion Hnd as [|k l Hnotin Hnd']; subst. simpl.
      destruct (strip_suffix dot_patch rp) as [rt0|] eqn:Hs.
      + apply strip_suffix_some in Hs. subst rp.
        destruct (valid_relpath rt0); simpl in H; [|discriminate].
        destruct (out rt0) as [target|] eqn:Ho; [|discriminate].
        destruct (utf8_valid target); simpl in H; [|discriminate].
        destruct (utf8_valid p); simpl in H; [|discriminate].
        destruct (patch_header_ok rt0 (utf8_decode p)); simpl in H; [|discriminate].
        destruct (git_apply p rt0 target) as [c|] eqn:Ha; [|discriminate].
        rewrite (IH _ _ Hnd' H rt).
        destruct (str_eqb (rt0 ++ dot_patch) (rt ++ dot_patch)) eqn:E.
        * apply str_eqb_eq in E. apply app_inv_tail in E. subst rt0.
          assert (Hl : lookup (rt ++ dot_patch) rest = None) by (apply lookup_None; exact Hnotin).
          rewrite Hl, Ho, Ha. unfold set_out. rewrite str_eqb_refl. reflexivity.
        * apply str_eqb_neq in E. unfold set_out.
          destruct (str_eqb rt0 rt) eqn:E2; [apply str_eqb_eq in E2; subst; congruence|]. reflexivity.
      + rewrite (IH _ _ Hnd' H rt).
        destruct (str_eqb rp (rt ++ dot_patch)) eqn:E; [|reflexivity].
        apply str_eqb_eq in E. subst rp. rewrite strip_suffix_app in Hs. discriminate.
  Qed.

  Theorem patch_materialize ov up out rt :
    ov_exists ov = true -> ov_kind ov = KPatch -> NoDup (keys (ov_patches ov)) ->
    materialize git_apply ov up = inr out ->
    has_patch_ext (rt ++ dot_patch) = true \/ lookup (rt ++ dot_patch) (ov_patches ov) = None ->
    out rt = patch_result (ov_patches ov) up rt.
  Proof.
    intros Hex Hk Hnd H Hext. unfold materialize in H. rewrite Hk, Hex in H. simpl in H.
    destruct (negb (nilb (ov_files ov)) && negb (nilb (patch_files_of ov))); [discriminate|].
    destruct (negb (nilb (ov_files ov))); [discriminate|].
    assert (Hndp : NoDup (keys (patch_files_of ov))) by (apply NoDup_filter_keys, Hnd).
    assert (Hperm : Permutation (patch_files_of ov) (isort entry_leb (patch_files_of ov))) by apply isort_perm.
    assert (Hnd2 : NoDup (keys (isort entry_leb (patch_files_of ov)))).
    { eapply Permutation_NoDup; [apply Permutation_map, Hperm|exact Hndp]. }
    rewrite (compose_patch_loop_spec _ _ _ Hnd2 H rt).
    rewrite <- (lookup_perm _ _ _ Hndp Hperm). unfold patch_files_of. rewrite lookup_filter_key.
    unfold patch_result.
    destruct Hext as [-> | Hn]; [reflexivity|]. rewrite Hn. destruct (has_patch_ext (rt ++ dot_patch)); reflexivity.
  Qed.
End PatchTop.
