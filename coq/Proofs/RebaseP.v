(* Proofs/RebaseP.v — lemmas about Model/Rebase.v (property C14). *)
From AP Require Import Base.Str Base.StrFacts Base.Sorting Model.Rebase.
From Coq Require Import Lia Permutation.
Open Scope N_scope.

Definition keys (l : files) : list rel := map fst l.

(* ---------- association lists ---------- *)

Lemma lookup_In l : forall r c, lookup r l = Some c -> In (r, c) l.
Proof.
  induction l as [|[k c0] t IH]; intros r c H; simpl in *; [discriminate|].
  destruct (str_eqb k r) eqn:E.
  - apply str_eqb_eq in E. inversion H; subst. left; reflexivity.
  - right. apply IH, H.
Qed.

Lemma lookup_None l : forall r, lookup r l = None <-> ~ In r (keys l).
Proof.
  induction l as [|[k c0] t IH]; intros r; simpl; [tauto|].
  destruct (str_eqb k r) eqn:E.
  - apply str_eqb_eq in E. subst. split; [discriminate|intros H; exfalso; apply H; left; reflexivity].
  - apply str_eqb_neq in E. rewrite IH. split; intros H; [intros [H1|H1]; [contradiction|auto]|intros H1; apply H; right; exact H1].
Qed.

Lemma In_lookup l : forall r c, NoDup (keys l) -> In (r, c) l -> lookup r l = Some c.
Proof.
  induction l as [|[k c0] t IH]; intros r c Hnd Hin; simpl in *; [contradiction|].
  inversion Hnd as [|k' t' Hnotin Hnd']; subst.
  destruct Hin as [Heq|Hin].
  - inversion Heq; subst. rewrite str_eqb_refl. reflexivity.
  - destruct (str_eqb k r) eqn:E.
    + apply str_eqb_eq in E. subst. exfalso. apply Hnotin. apply (in_map fst) in Hin. exact Hin.
    + apply IH; assumption.
Qed.

Lemma lookup_perm l l' r : NoDup (keys l) -> Permutation l l' -> lookup r l = lookup r l'.
Proof.
  intros Hnd Hp.
  assert (Hnd' : NoDup (keys l')).
  { eapply Permutation_NoDup; [apply Permutation_map, Hp|exact Hnd]. }
  destruct (lookup r l) as [c|] eqn:E.
  - symmetry. apply In_lookup; [exact Hnd'|]. eapply Permutation_in; [exact Hp|]. apply lookup_In, E.
  - destruct (lookup r l') as [c'|] eqn:E'; [|reflexivity].
    apply lookup_In in E'. apply Permutation_sym in Hp. eapply Permutation_in in E'; [|exact Hp].
    apply In_lookup in E'; [congruence|exact Hnd].
Qed.

Lemma lookup_set_same r c l : lookup r (set_key r c l) = Some c.
Proof.
  induction l as [|[k c0] t IH]; simpl.
  - rewrite str_eqb_refl. reflexivity.
  - destruct (str_eqb k r) eqn:E; simpl; rewrite E; [reflexivity|exact IH].
Qed.

Lemma lookup_set_other r r' c l : r' <> r -> lookup r' (set_key r c l) = lookup r' l.
Proof.
  intros Hne. induction l as [|[k c0] t IH]; simpl.
  - destruct (str_eqb r r') eqn:E; [apply str_eqb_eq in E; congruence|reflexivity].
  - destruct (str_eqb k r) eqn:E; simpl.
    + apply str_eqb_eq in E. subst k.
      destruct (str_eqb r r') eqn:E2; [apply str_eqb_eq in E2; congruence|reflexivity].
    + destruct (str_eqb k r'); [reflexivity|exact IH].
Qed.

Lemma lookup_remove_same r l : lookup r (remove_key r l) = None.
Proof.
  induction l as [|[k c0] t IH]; simpl; [reflexivity|].
  destruct (str_eqb k r) eqn:E; simpl; [exact IH|rewrite E; exact IH].
Qed.

Lemma lookup_remove_other r r' l : r' <> r -> lookup r' (remove_key r l) = lookup r' l.
Proof.
  intros Hne. induction l as [|[k c0] t IH]; simpl; [reflexivity|].
  destruct (str_eqb k r) eqn:E; simpl.
  - apply str_eqb_eq in E. subst k.
    destruct (str_eqb r r') eqn:E2; [apply str_eqb_eq in E2; congruence|exact IH].
  - destruct (str_eqb k r'); [reflexivity|exact IH].
Qed.

Lemma keys_set_key r c l : In r (keys l) -> keys (set_key r c l) = keys l.
Proof.
  induction l as [|[k c0] t IH]; simpl; intros H; [contradiction|].
  destruct (str_eqb k r) eqn:E; simpl; [reflexivity|].
  f_equal. apply IH. destruct H as [H|H]; [subst; rewrite str_eqb_refl in E; discriminate|exact H].
Qed.

Lemma keys_set_key_new r c l : ~ In r (keys l) -> keys (set_key r c l) = keys l ++ [r].
Proof.
  induction l as [|[k c0] t IH]; simpl; intros H; [reflexivity|].
  destruct (str_eqb k r) eqn:E; simpl.
  - apply str_eqb_eq in E. exfalso. apply H. left. exact E.
  - f_equal. apply IH. intros H1. apply H. right. exact H1.
Qed.

Lemma NoDup_set_key r c l : NoDup (keys l) -> NoDup (keys (set_key r c l)).
Proof.
  intros Hnd. destruct (in_dec (list_eq_dec N.eq_dec) r (keys l)) as [Hin|Hnin].
  - rewrite keys_set_key; assumption.
  - rewrite keys_set_key_new by assumption.
    apply NoDup_rev in Hnd. rewrite <- (rev_involutive (keys l ++ [r])). apply NoDup_rev.
    rewrite rev_app_distr. simpl. constructor; [rewrite <- in_rev; exact Hnin|exact Hnd].
Qed.

Lemma NoDup_filter_keys (f : rel * content -> bool) l : NoDup (keys l) -> NoDup (keys (filter f l)).
Proof.
  induction l as [|[k c0] t IH]; simpl; intros Hnd; [constructor|].
  inversion Hnd as [|k' t' Hnotin Hnd']; subst.
  destruct (f (k, c0)); simpl; [constructor|apply IH, Hnd'].
  - intros Hin. apply Hnotin. unfold keys in *. apply in_map_iff in Hin as [[k2 c2] [H1 H2]].
    apply filter_In in H2 as [H2 _]. simpl in H1. subst. apply (in_map fst) in H2. exact H2.
  - apply IH, Hnd'.
Qed.

(* ---------- actions ---------- *)

Definition after (a : act) (cur : option content) : option content :=
  match a with AKeep => cur | AWrite c => Some c | ADelete => None end.

Lemma lookup_apply_same r a st : lookup r (apply_act r a st) = after a (lookup r st).
Proof. destruct a; simpl; [reflexivity|apply lookup_set_same|apply lookup_remove_same]. Qed.

Lemma lookup_apply_other r r' a st : r' <> r -> lookup r' (apply_act r a st) = lookup r' st.
Proof. intros H. destruct a; simpl; [reflexivity|apply lookup_set_other, H|apply lookup_remove_other, H]. Qed.

Lemma NoDup_apply_act r a st : NoDup (keys st) -> NoDup (keys (apply_act r a st)).
Proof. intros H. destruct a; simpl; [exact H|apply NoDup_set_key, H|apply NoDup_filter_keys, H]. Qed.

(* ---------- reports ---------- *)

Lemma In_app_single {A} (x y : A) l : In x (l ++ [y]) <-> In x l \/ x = y.
Proof. rewrite in_app_iff. simpl. split; intros [H|H]; auto; destruct H as [H|[]]; auto. Qed.

Lemma upd_add x n t cf rep : In x (updated (add_rep n t cf rep)) <-> In x (updated rep) \/ (t = TUpdated /\ x = n).
Proof. destruct t; simpl; try rewrite In_app_single; intuition congruence. Qed.
Lemma del_add x n t cf rep : In x (deleted (add_rep n t cf rep)) <-> In x (deleted rep) \/ (t = TDeleted /\ x = n).
Proof. destruct t; simpl; try rewrite In_app_single; intuition congruence. Qed.
Lemma skp_add x n t cf rep : In x (skipped (add_rep n t cf rep)) <-> In x (skipped rep) \/ (t = TSkipped /\ x = n).
Proof. destruct t; simpl; try rewrite In_app_single; intuition congruence. Qed.
Lemma cnf_add x n t cf rep : In x (conflicts (add_rep n t cf rep)) <-> In x (conflicts rep) \/ (cf = true /\ x = n).
Proof. destruct cf; simpl; try rewrite In_app_single; intuition congruence. Qed.

Lemma In_isort {A} (leb : A -> A -> bool) l x : In x (isort leb l) <-> In x l.
Proof.
  split; intros H.
  - eapply Permutation_in; [apply Permutation_sym, isort_perm|exact H].
  - eapply Permutation_in; [apply isort_perm|exact H].
Qed.

Section Dir.
  Variable merge3 : content -> content -> content -> option (content * bool).
  Variables (o : opts) (bl base up : fmap).

  Let f (r : rel) (ours : content) : fout := rebase_dir_file merge3 o (bl r) (base r) ours (up r).

  (* what a completed loop did, file by file *)
  Lemma dir_loop_ok : forall todo st rep st' rep',
    NoDup (keys todo) ->
    dir_loop merge3 o bl base up todo st rep = (st', inr rep') ->
    (forall r, lookup r st' =
               match lookup r todo with
               | Some ours => match f r ours with FOk a _ _ => after a (lookup r st) | FErr _ => lookup r st end
               | None => lookup r st
               end) /\
    (forall r ours, In (r, ours) todo -> exists a t cf, f r ours = FOk a t cf) /\
    (forall x, In x (updated rep') <-> In x (updated rep) \/ exists ours a cf, In (x, ours) todo /\ f x ours = FOk a TUpdated cf) /\
    (forall x, In x (deleted rep') <-> In x (deleted rep) \/ exists ours a cf, In (x, ours) todo /\ f x ours = FOk a TDeleted cf) /\
    (forall x, In x (skipped rep') <-> In x (skipped rep) \/ exists ours a cf, In (x, ours) todo /\ f x ours = FOk a TSkipped cf) /\
    (forall x, In x (conflicts rep') <-> In x (conflicts rep) \/ exists ours a t, In (x, ours) todo /\ f x ours = FOk a t true) /\
    processed rep' = processed rep + N.of_nat (length todo) /\
    (NoDup (keys st) -> NoDup (keys st')).
  Proof.
    induction todo as [|[r0 ours0] rest IH]; intros st rep st' rep' Hnd H; simpl in H.
    - inversion H; subst. repeat split; try tauto; try (intros [?|(?&?&?&[]&_)]; assumption);
        try (intros [?|(?&?&?&[]&_)]; assumption).
      + intros r ours [].
      + simpl. lia.
    - inversion Hnd as [|k t Hnotin Hnd']; subst.
      fold (f r0 ours0) in H. destruct (f r0 ours0) as [c|a t cf] eqn:Ef; [discriminate|].
      specialize (IH _ _ _ _ Hnd' H) as (IH1 & IH2 & IH3 & IH4 & IH5 & IH6 & IH7 & IH8).
      assert (Hlk : lookup r0 rest = None) by (apply lookup_None; exact Hnotin).
      repeat split.
      + intros r. simpl. destruct (str_eqb r0 r) eqn:E.
        * apply str_eqb_eq in E. subst r. rewrite IH1, Hlk, Ef. apply lookup_apply_same.
        * apply str_eqb_neq in E. rewrite IH1.
          destruct (lookup r rest) as [ours|]; [destruct (f r ours)|]; try (rewrite lookup_apply_other by congruence); reflexivity.
      + intros r ours [Heq|Hin]; [inversion Heq; subst; eauto|eauto].
      + intros Hx. apply IH3 in Hx as [Hx|(ours & a' & cf' & Hin & Hf)].
        * apply upd_add in Hx as [Hx|[Ht Hx]]; [left; exact Hx|subst; right; exists ours0, a, cf; split; [left; reflexivity|exact Ef]].
        * right. exists ours, a', cf'. split; [right; exact Hin|exact Hf].
      + intros [Hx|(ours & a' & cf' & [Heq|Hin] & Hf)]; apply IH3.
        * left. apply upd_add. left. exact Hx.
        * inversion Heq; subst. left. apply upd_add. right. rewrite Ef in Hf. inversion Hf; subst. auto.
        * right. eauto.
      + intros Hx. apply IH4 in Hx as [Hx|(ours & a' & cf' & Hin & Hf)].
        * apply del_add in Hx as [Hx|[Ht Hx]]; [left; exact Hx|subst; right; exists ours0, a, cf; split; [left; reflexivity|exact Ef]].
        * right. exists ours, a', cf'. split; [right; exact Hin|exact Hf].
      + intros [Hx|(ours & a' & cf' & [Heq|Hin] & Hf)]; apply IH4.
        * left. apply del_add. left. exact Hx.
        * inversion Heq; subst. left. apply del_add. right. rewrite Ef in Hf. inversion Hf; subst. auto.
        * right. eauto.
      + intros Hx. apply IH5 in Hx as [Hx|(ours & a' & cf' & Hin & Hf)].
        * apply skp_add in Hx as [Hx|[Ht Hx]]; [left; exact Hx|subst; right; exists ours0, a, cf; split; [left; reflexivity|exact Ef]].
        * right. exists ours, a', cf'. split; [right; exact Hin|exact Hf].
      + intros [Hx|(ours & a' & cf' & [Heq|Hin] & Hf)]; apply IH5.
        * left. apply skp_add. left. exact Hx.
        * inversion Heq; subst. left. apply skp_add. right. rewrite Ef in Hf. inversion Hf; subst. auto.
        * right. eauto.
      + intros Hx. apply IH6 in Hx as [Hx|(ours & a' & t' & Hin & Hf)].
        * apply cnf_add in Hx as [Hx|[Ht Hx]]; [left; exact Hx|subst; right; exists ours0, a, t; split; [left; reflexivity|exact Ef]].
        * right. exists ours, a', t'. split; [right; exact Hin|exact Hf].
      + intros [Hx|(ours & a' & t' & [Heq|Hin] & Hf)]; apply IH6.
        * left. apply cnf_add. left. exact Hx.
        * inversion Heq; subst. left. apply cnf_add. right. rewrite Ef in Hf. inversion Hf; subst. auto.
        * right. eauto.
      + rewrite IH7. simpl processed. simpl length. lia.
      + intros Hst. apply IH8. apply NoDup_apply_act, Hst.
  Qed.
End Dir.

(* ---------- the property's own case analysis, as a specification ---------- *)

(* what the module must materialise to for a tracked overlay file *)
Definition expected (merge3 : content -> content -> content -> option (content * bool))
           (b ours : content) (upstream : option content) : option content :=
  match upstream with
  | None => if str_eqb ours b then None else Some ours
  | Some u =>
    if str_eqb ours b then Some u
    else if str_eqb u b then Some ours
    else if str_eqb ours u then Some ours
    else match merge3 b ours u with Some (m, _) => Some m | None => Some ours end
  end.

Ltac eqb_prop :=
  repeat match goal with
  | H : str_eqb _ _ = true |- _ => apply str_eqb_eq in H
  | H : str_eqb _ _ = false |- _ => apply str_eqb_neq in H
  | H : negb _ = true |- _ => apply Bool.negb_true_iff in H
  | H : negb _ = false |- _ => apply Bool.negb_false_iff in H
  | H : _ && _ = true |- _ => apply Bool.andb_true_iff in H; destruct H
  end.

(* open every test of one rebase_dir_file result *)
Ltac split_dir H :=
  unfold rebase_dir_file, do_write, do_delete in H;
  repeat (match type of H with
          | context[match ?x with _ => _ end] =>
            lazymatch x with
            | context[match _ with _ => _ end] => fail
            | _ => destruct x eqn:?
            end
          end; simpl in H; try discriminate H).

Section DirFile.
  Variable merge3 : content -> content -> content -> option (content * bool).

  Lemma dir_file_mat o b base ours upstream a t cf :
    rebase_dir_file merge3 o (Some b) base ours upstream = FOk a t cf -> dry_run o = false ->
    match after a (Some ours) with Some c => Some c | None => upstream end = expected merge3 b ours upstream.
  Proof.
    intros H Hd. unfold expected. split_dir H; inversion H; subst; clear H; eqb_prop; subst; simpl;
      repeat match goal with
             | |- context[str_eqb ?x ?x] => rewrite str_eqb_refl
             | H : ?x <> ?y |- context[str_eqb ?x ?y] => rewrite (proj2 (str_eqb_neq x y) H)
             | H : merge3 _ _ _ = _ |- _ => rewrite H
             end; simpl; try reflexivity; try congruence.
  Qed.
End DirFile.

(* ---------- rebase_overlay on a directory overlay ---------- *)

Section Top.
  Variable merge3 : content -> content -> content -> option (content * bool).
  Variable git_apply : content -> rel -> content -> option content.
  Variable diff : rel -> content -> content -> option content.

  Notation rebase := (rebase_overlay merge3 git_apply diff).

  Definition dfile (o : opts) (bl : baseline) (w : world) (r : rel) (ours : content) : fout :=
    rebase_dir_file merge3 o (bl_files bl r) (bl_base bl r) ours (w_up w r).

  Lemma rebase_dir_spec o w ov ov' rep :
    ov_kind ov = KDir -> NoDup (keys (ov_files ov)) ->
    rebase o w ov = (ov', inr rep) ->
    exists bl, ov_baseline ov = Some bl /\ ov_exists ov = true /\
      (forall r, lookup r (ov_files ov') =
                 match lookup r (ov_files ov) with
                 | Some ours => match dfile o bl w r ours with FOk a _ _ => after a (Some ours) | FErr _ => Some ours end
                 | None => None
                 end) /\
      (forall r ours, lookup r (ov_files ov) = Some ours -> exists a t cf, dfile o bl w r ours = FOk a t cf) /\
      (forall x, In x (updated rep) <-> exists ours a cf, lookup x (ov_files ov) = Some ours /\ dfile o bl w x ours = FOk a TUpdated cf) /\
      (forall x, In x (deleted rep) <-> exists ours a cf, lookup x (ov_files ov) = Some ours /\ dfile o bl w x ours = FOk a TDeleted cf) /\
      (forall x, In x (skipped rep) <-> exists ours a cf, lookup x (ov_files ov) = Some ours /\ dfile o bl w x ours = FOk a TSkipped cf) /\
      (forall x, In x (conflicts rep) <-> exists ours a t, lookup x (ov_files ov) = Some ours /\ dfile o bl w x ours = FOk a t true) /\
      ov' = mkOv true KDir (ov_files ov') (ov_patches ov) (ov_conflicts ov) (refreshed o w (Some bl)) /\
      NoDup (keys (ov_files ov')) /\ nilb (patch_files_of ov) = true /\ bl_rev bl <> None.
  Proof.
    intros Hk Hnd H. unfold rebase_overlay in H.
    destruct (ov_exists ov) eqn:Hex; simpl in H; [|inversion H].
    destruct (ov_baseline ov) as [bl|] eqn:Hbl; [|inversion H].
    destruct (negb (nilb (ov_files ov)) && negb (nilb (patch_files_of ov))); [inversion H|].
    rewrite Hk in H.
    destruct (nilb (patch_files_of ov)) eqn:Hnp; simpl in H; [|inversion H].
    destruct (bl_rev bl) eqn:Hrev; [|inversion H].
    destruct (dir_loop merge3 o (bl_files bl) (bl_base bl) (w_up w) (isort entry_leb (ov_files ov)) (ov_files ov) empty_report)
      as [fs [c|rep0]] eqn:Hloop; inversion H; subst; clear H.
    assert (Hperm : Permutation (ov_files ov) (isort entry_leb (ov_files ov))) by apply isort_perm.
    assert (Hnd2 : NoDup (keys (isort entry_leb (ov_files ov)))).
    { eapply Permutation_NoDup; [apply Permutation_map, Hperm|exact Hnd]. }
    assert (Hlk : forall r, lookup r (isort entry_leb (ov_files ov)) = lookup r (ov_files ov)).
    { intros r. symmetry. apply lookup_perm; assumption. }
    assert (Hin : forall r c, In (r, c) (isort entry_leb (ov_files ov)) <-> lookup r (ov_files ov) = Some c).
    { intros r c. rewrite In_isort. split; [apply In_lookup, Hnd|apply lookup_In]. }
    destruct (dir_loop_ok merge3 o (bl_files bl) (bl_base bl) (w_up w) _ _ _ _ _ Hnd2 Hloop)
      as (S1 & S2 & S3 & S4 & S5 & S6 & _ & S8).
    exists bl. split; [reflexivity|]. split; [reflexivity|]. simpl.
    split; [|split; [|split; [|split; [|split; [|split; [|split; [|split; [|split]]]]]]]].
    - intros r. rewrite S1, Hlk. destruct (lookup r (ov_files ov)); reflexivity.
    - intros r ours Hr. apply (S2 r ours). apply Hin, Hr.
    - intros x. rewrite In_isort, S3. simpl. split.
      + intros [[]|(ours & a & cf & H1 & H2)]. exists ours, a, cf. split; [apply Hin, H1|exact H2].
      + intros (ours & a & cf & H1 & H2). right. exists ours, a, cf. split; [apply Hin, H1|exact H2].
    - intros x. rewrite In_isort, S4. simpl. split.
      + intros [[]|(ours & a & cf & H1 & H2)]. exists ours, a, cf. split; [apply Hin, H1|exact H2].
      + intros (ours & a & cf & H1 & H2). right. exists ours, a, cf. split; [apply Hin, H1|exact H2].
    - intros x. rewrite In_isort, S5. simpl. split.
      + intros [[]|(ours & a & cf & H1 & H2)]. exists ours, a, cf. split; [apply Hin, H1|exact H2].
      + intros (ours & a & cf & H1 & H2). right. exists ours, a, cf. split; [apply Hin, H1|exact H2].
    - intros x. rewrite In_isort, S6. simpl. split.
      + intros [[]|(ours & a & t & H1 & H2)]. exists ours, a, t. split; [apply Hin, H1|exact H2].
      + intros (ours & a & t & H1 & H2). right. exists ours, a, t. split; [apply Hin, H1|exact H2].
    - reflexivity.
    - apply S8, Hnd.
    - reflexivity.
    - congruence.
  Qed.
End Top.

(* close goals about report membership from the per-file iffs *)
Ltac fin_rep Hu Hdl Hs Hc :=
  repeat split; try congruence; try reflexivity;
  try (apply Hu; reflexivity); try (apply Hdl; reflexivity); try (apply Hs; reflexivity); try (apply Hc; reflexivity);
  try (intros; apply Hs; reflexivity); try (intros; apply Hc; assumption);
  try (let Hx := fresh in intros Hx; apply Hdl in Hx; discriminate);
  try (let Hx := fresh in intros Hx; apply Hu in Hx; discriminate);
  try (let Hx := fresh in intros Hx; apply Hc in Hx; discriminate).

Section DirThms.
  Variable merge3 : content -> content -> content -> option (content * bool).
  Variable git_apply : content -> rel -> content -> option content.
  Variable diff : rel -> content -> content -> option content.

  Notation rebase := (rebase_overlay merge3 git_apply diff).
  Notation dfl := (dfile merge3).

  (* a completed rebase of a directory overlay (any options) *)
  Definition dir_run (o : opts) (w : world) (ov ov' : overlay) (rep : report) (bl : baseline) : Prop :=
    ov_kind ov = KDir /\ NoDup (keys (ov_files ov)) /\ ov_baseline ov = Some bl /\
    rebase o w ov = (ov', inr rep).

  Lemma rebase_dir_at o w ov ov' rep bl r ours :
    dir_run o w ov ov' rep bl -> lookup r (ov_files ov) = Some ours ->
    exists a t cf, dfl o bl w r ours = FOk a t cf /\ lookup r (ov_files ov') = after a (Some ours) /\
      (In r (updated rep) <-> t = TUpdated) /\ (In r (deleted rep) <-> t = TDeleted) /\
      (In r (skipped rep) <-> t = TSkipped) /\ (In r (conflicts rep) <-> cf = true).
  Proof.
    intros (Hk & Hnd & Hbl & Hrun) Hlk.
    destruct (rebase_dir_spec _ _ _ _ _ _ _ _ Hk Hnd Hrun) as (bl' & Hbl' & _ & S1 & S2 & S3 & S4 & S5 & S6 & _).
    rewrite Hbl in Hbl'. inversion Hbl'; subst bl'. clear Hbl'.
    destruct (S2 _ _ Hlk) as (a & t & cf & Hf). exists a, t, cf. split; [exact Hf|].
    split; [rewrite S1, Hlk, Hf; reflexivity|].
    split; [|split; [|split]].
    - rewrite S3. split; [intros (o1 & a1 & c1 & H1 & H2); rewrite Hlk in H1; inversion H1; subst; rewrite Hf in H2; inversion H2; reflexivity
                         |intros ->; eauto].
    - rewrite S4. split; [intros (o1 & a1 & c1 & H1 & H2); rewrite Hlk in H1; inversion H1; subst; rewrite Hf in H2; inversion H2; reflexivity
                         |intros ->; eauto].
    - rewrite S5. split; [intros (o1 & a1 & c1 & H1 & H2); rewrite Hlk in H1; inversion H1; subst; rewrite Hf in H2; inversion H2; reflexivity
                         |intros ->; eauto].
    - rewrite S6. split; [intros (o1 & a1 & c1 & H1 & H2); rewrite Hlk in H1; inversion H1; subst; rewrite Hf in H2; inversion H2; reflexivity
                         |intros ->; eauto].
  Qed.

  (* C14_cases, directory overlays *)
  Theorem dir_cases o w ov ov' rep bl r ours b :
    dir_run o w ov ov' rep bl -> dry_run o = false ->
    lookup r (ov_files ov) = Some ours -> bl_files bl r = Some b ->
    materialize_dir (ov_files ov') (w_up w) r = expected merge3 b ours (w_up w r).
  Proof.
    intros Hrun Hd Hlk Hb.
    destruct (rebase_dir_at _ _ _ _ _ _ _ _ Hrun Hlk) as (a & t & cf & Hf & Hl' & _).
    unfold materialize_dir. rewrite Hl'. unfold dfile in Hf. rewrite Hb in Hf.
    eapply dir_file_mat; eassumption.
  Qed.

  Theorem dir_untracked o w ov ov' rep bl r ours :
    dir_run o w ov ov' rep bl -> lookup r (ov_files ov) = Some ours -> bl_files bl r = None ->
    lookup r (ov_files ov') = Some ours /\ In r (skipped rep) /\ ~ In r (updated rep) /\ ~ In r (deleted rep).
  Proof.
    intros Hrun Hlk Hb.
    destruct (rebase_dir_at _ _ _ _ _ _ _ _ Hrun Hlk) as (a & t & cf & Hf & Hl' & Hu & Hdl & Hs & _).
    unfold dfile, rebase_dir_file in Hf. rewrite Hb in Hf. inversion Hf; subst.
    rewrite Hl', Hs, Hu, Hdl. simpl. repeat split; congruence.
  Qed.

  Theorem dir_not_overlaid o w ov ov' rep bl r :
    dir_run o w ov ov' rep bl -> lookup r (ov_files ov) = None ->
    materialize_dir (ov_files ov') (w_up w) r = w_up w r.
  Proof.
    intros (Hk & Hnd & Hbl & Hrun) Hlk.
    destruct (rebase_dir_spec _ _ _ _ _ _ _ _ Hk Hnd Hrun) as (bl' & _ & _ & S1 & _).
    unfold materialize_dir. rewrite S1, Hlk. reflexivity.
  Qed.

  (* C14_no_silent_loss, directory overlays *)
  Theorem dir_no_silent_loss o w ov ov' rep bl r ours b :
    dir_run o w ov ov' rep bl -> dry_run o = false ->
    lookup r (ov_files ov) = Some ours -> bl_files bl r = Some b -> ours <> b ->
    (lookup r (ov_files ov') = Some ours /\ ~ In r (deleted rep) /\ (w_up w r = None -> In r (skipped rep)))
    \/ (exists u m c, w_up w r = Some u /\ merge3 b ours u = Some (m, c) /\
          lookup r (ov_files ov') = Some m /\ In r (updated rep) /\ (c = true -> In r (conflicts rep)))
    \/ (sparsify o = true /\ lookup r (ov_files ov') = None /\ In r (deleted rep) /\
        ~ In r (conflicts rep) /\ exists u, w_up w r = Some u /\ expected merge3 b ours (Some u) = Some u).
  Proof.
    intros Hrun Hdry Hlk Hb Hne.
    destruct (rebase_dir_at _ _ _ _ _ _ _ _ Hrun Hlk) as (a & t & cf & Hf & Hl' & Hu & Hdl & Hs & Hc).
    unfold dfile in Hf. rewrite Hb in Hf. rewrite Hl'. clear Hl'.
    unfold expected.
    split_dir Hf; inversion Hf; subst; clear Hf; eqb_prop; subst; simpl; try congruence;
      try solve [left; fin_rep Hu Hdl Hs Hc];
      try solve [right; left; do 3 eexists; split; [reflexivity|]; split; [eassumption|]; fin_rep Hu Hdl Hs Hc];
      try solve [right; right; split; [first [assumption|reflexivity]|]; split; [reflexivity|];
                 split; [apply Hdl; reflexivity|]; split; [intros Hx; apply Hc in Hx; discriminate|];
                 eexists; split; [reflexivity|];
                 repeat match goal with
                        | |- context[str_eqb ?x ?x] => rewrite str_eqb_refl
                        | H : ?x <> ?y |- context[str_eqb ?x ?y] => rewrite (proj2 (str_eqb_neq x y) H)
                        | H : merge3 _ _ _ = _ |- _ => rewrite H
                        end; reflexivity].
  Qed.
End DirThms.
