(* Proofs/HistoryDec.v — the history theorem of C06 in decidable-instance form: a boolean function
   that evaluates every hypothesis of [rollback_inverts_history] on concrete data, and the corollary
   that wherever it returns true the conclusion holds.  Used (i) for the non-vacuity Examples and
   (ii) by the correspondence harness to count on how many OBSERVED histories the theorem (not
   only the executable model) speaks. *)
From AP Require Import Base.Str Base.StrFacts Base.Sorting Gen.Tables Model.Deploy
  Proofs.DeployP Proofs.ConvergeP Proofs.RollbackP Proofs.HistoryP Proofs.WfDec.
From Coq Require Import Lia Arith.
Open Scope N_scope.

Definition c06_prem_b (st : style) (confirmed adopt : bool) (w0 : world) (roots : list root)
           (DS : list dfile) (h : list hop) : bool :=
  match deploy_cmd st confirmed adopt None w0 roots DS with
  | (_, (OApplied, wS)) =>
    wfD_b roots DS && wfM_b DS (managed_for_plan w0 roots None) && covered_b roots DS
    && all_manifests_b roots (files wS) && hist_ok_b roots wS h && compat_b (run_hist roots wS h) DS
  | _ => false
  end.

Lemma c06_prem_sound st confirmed adopt w0 roots DS h :
  c06_prem_b st confirmed adopt w0 roots DS h = true ->
  let wS := snd (snd (deploy_cmd st confirmed adopt None w0 roots DS)) in
  exists w', rollback (run_hist roots wS h) (length (snaps w0)) = (RbOk, w') /\
             forall p, files w' p = files wS p.
Proof.
  unfold c06_prem_b. destruct (deploy_cmd st confirmed adopt None w0 roots DS) as [pl [out wS]] eqn:E.
  destruct out; try discriminate. intros H. cbn [snd].
  apply andb_true_iff in H as [H H6]. apply andb_true_iff in H as [H H5]. apply andb_true_iff in H as [H H4].
  apply andb_true_iff in H as [H H3]. apply andb_true_iff in H as [H1 H2].
  eapply rollback_inverts_history.
  - exact E.
  - apply wfD_b_sound; exact H1.
  - apply wfM_b_sound; exact H2.
  - apply covered_b_sound; exact H3.
  - apply all_manifests_b_sound; exact H4.
  - apply hist_ok_b_sound; exact H5.
  - apply compat_b_sound; exact H6.
Qed.
