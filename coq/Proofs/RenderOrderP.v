(* Proofs/RenderOrderP.v — C12_tree_order: module trees are consumed as SETS.  Permuting the file list of
   every module (directory iteration order) leaves the rendered result unchanged: same error, or the
   same desired map (pointwise: bytes and module_ids per key) and the same roots. *)
From AP Require Import Base.Str Base.StrFacts Base.PathR Base.PathRFacts Base.Sorting Gen.Tables Model.Render
     Proofs.RenderP Proofs.RenderSafeP.
From Coq Require Import Lia Sorting.Sorted Sorting.Permutation.
Open Scope N_scope.

(* ---------- the observable view of a desired map ---------- *)

Definition vw (o : option entry) : option (list N * list str) := option_map (fun x => (d_bytes x, d_ids x)) o.
Definition deq (D D' : list entry) : Prop := forall k, vw (lookup D k) = vw (lookup D' k).

Definition req {A} (eqv : A -> A -> Prop) (r r' : result A) : Prop :=
  match r, r' with
  | Ok a, Ok b => eqv a b
  | Err x, Err y => x = y
  | _, _ => False
  end.

Lemma deq_refl D : deq D D. Proof. intros k. reflexivity. Qed.
Lemma deq_trans A B C : deq A B -> deq B C -> deq A C.
Proof. intros H1 H2 k. rewrite H1. apply H2. Qed.

Lemma req_trans {A} (eqv : A -> A -> Prop) (Ht : forall a b c, eqv a b -> eqv b c -> eqv a c) r1 r2 r3 :
  req eqv r1 r2 -> req eqv r2 r3 -> req eqv r1 r3.
Proof.
  destruct r1, r2, r3; simpl; intros H1 H2; try contradiction; try congruence. eapply Ht; eauto.
Qed.

(* ---------- lookup through the two ways insert_desired changes the map ---------- *)

Lemma lookup_app D e k :
  lookup (D ++ [e]) k = match lookup D k with Some x => Some x | None => if key_eqb (d_key e) k then Some e else None end.
Proof.
  induction D as [|y r IH]; simpl; [reflexivity|]. destruct (key_eqb (d_key y) k); [reflexivity|exact IH].
Qed.

Lemma lookup_set_ids D k ids k' :
  vw (lookup (set_ids D k ids) k') =
  if key_eqb k k' then option_map (fun p => (fst p, ids)) (vw (lookup D k)) else vw (lookup D k').
Proof.
  induction D as [|y r IH]; simpl.
  - destruct (key_eqb k k'); reflexivity.
  - destruct (key_eqb (d_key y) k) eqn:E1.
    + apply key_eqb_eq in E1. simpl. destruct (key_eqb k k') eqn:E2.
      * apply key_eqb_eq in E2. subst. rewrite !key_eqb_refl. reflexivity.
      * rewrite E1, E2. reflexivity.
    + simpl. destruct (key_eqb (d_key y) k') eqn:E3.
      * apply key_eqb_eq in E3. destruct (key_eqb k k') eqn:E2.
        -- apply key_eqb_eq in E2. subst. rewrite key_eqb_refl in E1. discriminate.
        -- reflexivity.
      * exact IH.
Qed.

(* insert_desired, seen through [vw] *)
Definition ins_view (L : option (list N * list str)) (em : emit) : option (list N * list str) :=
  Some (e_bytes em, match L with Some (_, ids) => set_union ids (e_ids em) | None => e_ids em end).

Lemma insert_view D em :
  match vw (lookup D (e_key em)) with
  | Some (b, _) => if bytes_eqb b (e_bytes em) then True else insert_desired D em = Err EConflict
  | None => True
  end /\
  forall D1, insert_desired D em = Ok D1 ->
    (match vw (lookup D (e_key em)) with Some (b, _) => b = e_bytes em | None => True end) /\
    forall k', vw (lookup D1 k') = if key_eqb (e_key em) k' then ins_view (vw (lookup D (e_key em))) em else vw (lookup D k').
Proof.
  unfold insert_desired. destruct (lookup D (e_key em)) as [x|] eqn:L; simpl.
  - destruct (bytes_eqb (d_bytes x) (e_bytes em)) eqn:B.
    + split; [exact I|]. intros D1 H. inversion H; subst D1. apply bytes_eqb_eq in B. split; [exact B|].
      intros k'. rewrite lookup_set_ids, L. simpl. destruct (key_eqb (e_key em) k'); [|reflexivity].
      unfold ins_view. simpl. rewrite B. reflexivity.
    + split; [reflexivity|]. intros D1 H. discriminate.
  - split; [exact I|]. intros D1 H. inversion H; subst D1. split; [exact I|].
    intros k'. rewrite lookup_app. simpl. destruct (key_eqb (e_key em) k') eqn:E.
    + apply key_eqb_eq in E. subst k'. rewrite L. reflexivity.
    + destruct (lookup D k'); reflexivity.
Qed.

Lemma insert_result D em :
  (exists D1, insert_desired D em = Ok D1) \/ insert_desired D em = Err EConflict.
Proof.
  unfold insert_desired. destruct (lookup D (e_key em)) as [x|]; [|left; eexists; reflexivity].
  destruct (bytes_eqb (d_bytes x) (e_bytes em)); [left; eexists; reflexivity|right; reflexivity].
Qed.

Lemma insert_ok_iff D em :
  (exists D1, insert_desired D em = Ok D1) <->
  match vw (lookup D (e_key em)) with Some (b, _) => b = e_bytes em | None => True end.
Proof.
  unfold insert_desired. destruct (lookup D (e_key em)) as [x|]; simpl; [|split; [intros; exact I|intros; eexists; reflexivity]].
  destruct (bytes_eqb (d_bytes x) (e_bytes em)) eqn:B.
  - apply bytes_eqb_eq in B. split; [intros; exact B|intros; eexists; reflexivity].
  - apply bytes_eqb_neq in B. split; [intros [D1 H]; discriminate|intros H; contradiction].
Qed.

(* congruence *)
Lemma insert_cong D D' em : deq D D' -> req deq (insert_desired D em) (insert_desired D' em).
Proof.
  intros Hd.
  destruct (insert_result D em) as [[D1 H1]|H1], (insert_result D' em) as [[D1' H1']|H1']; rewrite H1, H1'; simpl.
  - intros k'. destruct (insert_view D em) as [_ V]. destruct (V D1 H1) as [_ V1].
    destruct (insert_view D' em) as [_ V']. destruct (V' D1' H1') as [_ V1'].
    rewrite V1, V1', !Hd. reflexivity.
  - assert (X : exists D1, insert_desired D em = Ok D1) by (eexists; exact H1).
    apply insert_ok_iff in X. rewrite Hd in X. apply insert_ok_iff in X as [D2 H2]. congruence.
  - assert (X : exists D1, insert_desired D' em = Ok D1) by (eexists; exact H1').
    apply insert_ok_iff in X. rewrite <- Hd in X. apply insert_ok_iff in X as [D2 H2]. congruence.
  - reflexivity.
Qed.

Lemma run_cong steps : forall D D', deq D D' -> req deq (run D steps) (run D' steps).
Proof.
  induction steps as [|[em|c] r IH]; intros D D' Hd; simpl.
  - exact Hd.
  - pose proof (insert_cong D D' em Hd) as H.
    destruct (insert_desired D em) as [D1|x], (insert_desired D' em) as [D1'|y]; simpl in H; try contradiction.
    + apply IH. exact H.
    + subst. reflexivity.
  - reflexivity.
Qed.

(* ---------- set_union is canonical ---------- *)

Lemma set_union_canon a b a' b' : (forall x, In x a \/ In x b <-> In x a' \/ In x b') -> set_union a b = set_union a' b'.
Proof.
  intros H. apply ssorted_unique; try apply set_union_sorted. intros x. rewrite !set_union_in. apply H.
Qed.

(* ---------- two adjacent inserts commute ---------- *)

Definition ins2 (D : list entry) (a b : emit) : result (list entry) :=
  match insert_desired D a with Ok D1 => insert_desired D1 b | Err c => Err c end.

Lemma ins2_err D a b : forall c, ins2 D a b = Err c -> c = EConflict.
Proof.
  intros c. unfold ins2. destruct (insert_result D a) as [[D1 H]|H]; rewrite H; [|congruence].
  destruct (insert_result D1 b) as [[D2 H2]|H2]; rewrite H2; congruence.
Qed.

(* when both inserts succeed (in this order), the final view *)
Lemma ins2_view D a b D2 : ins2 D a b = Ok D2 ->
  (match vw (lookup D (e_key a)) with Some (x, _) => x = e_bytes a | None => True end) /\
  (match vw (lookup D (e_key b)) with Some (x, _) => x = e_bytes b | None => True end) /\
  (e_key a = e_key b -> e_bytes a = e_bytes b) /\
  forall k, vw (lookup D2 k) =
    if key_eqb (e_key b) k
    then ins_view (if key_eqb (e_key a) (e_key b) then ins_view (vw (lookup D (e_key a))) a else vw (lookup D (e_key b))) b
    else if key_eqb (e_key a) k then ins_view (vw (lookup D (e_key a))) a else vw (lookup D k).
Proof.
  unfold ins2. destruct (insert_desired D a) as [D1|c] eqn:Ha; [|discriminate]. intros Hb.
  destruct (insert_view D a) as [_ Va]. destruct (Va D1 Ha) as [Ca V1].
  destruct (insert_view D1 b) as [_ Vb]. destruct (Vb D2 Hb) as [Cb V2].
  split; [exact Ca|]. rewrite V1 in Cb.
  split; [|split].
  - destruct (key_eqb (e_key a) (e_key b)) eqn:E; [|exact Cb].
    apply key_eqb_eq in E. rewrite <- E. unfold ins_view in Cb. simpl in Cb.
    destruct (vw (lookup D (e_key a))) as [[x ids]|]; [congruence|exact I].
  - intros E. rewrite E, key_eqb_refl in Cb. unfold ins_view in Cb. simpl in Cb. congruence.
  - intros k. rewrite V2. destruct (key_eqb (e_key b) k); [rewrite V1; reflexivity|apply V1].
Qed.

Lemma ins2_ok_cond D a b :
  (exists D2, ins2 D a b = Ok D2) <->
  (match vw (lookup D (e_key a)) with Some (x, _) => x = e_bytes a | None => True end) /\
  (match vw (lookup D (e_key b)) with Some (x, _) => x = e_bytes b | None => True end) /\
  (e_key a = e_key b -> e_bytes a = e_bytes b).
Proof.
  split.
  - intros [D2 H]. destruct (ins2_view _ _ _ _ H) as [A [B [C _]]]. repeat split; assumption.
  - intros [A [B C]]. unfold ins2. apply insert_ok_iff in A as [D1 Ha]. rewrite Ha.
    apply insert_ok_iff. destruct (insert_view D a) as [_ Va]. destruct (Va D1 Ha) as [_ V1]. rewrite V1.
    destruct (key_eqb (e_key a) (e_key b)) eqn:E; [|exact B].
    apply key_eqb_eq in E. unfold ins_view. simpl. apply C. exact E.
Qed.

Lemma ins2_comm D a b : req deq (ins2 D a b) (ins2 D b a).
Proof.
  destruct (ins2 D a b) as [D2|c] eqn:H1; destruct (ins2 D b a) as [D2'|c'] eqn:H2; simpl.
  - destruct (ins2_view _ _ _ _ H1) as [A [B [C V]]]. destruct (ins2_view _ _ _ _ H2) as [_ [_ [_ V']]].
    intros k. rewrite V, V'.
    destruct (key_eqb (e_key a) (e_key b)) eqn:Eab.
    + apply key_eqb_eq in Eab. rewrite <- Eab, key_eqb_refl.
      destruct (key_eqb (e_key a) k); [|reflexivity].
      unfold ins_view. simpl. rewrite (C Eab). f_equal. f_equal.
      destruct (vw (lookup D (e_key a))) as [[x ids]|].
      * apply ssorted_unique; try apply set_union_sorted. intros i. rewrite !set_union_in. tauto.
      * apply set_union_canon. intros i. tauto.
    + assert (Eba : key_eqb (e_key b) (e_key a) = false)
        by (apply key_eqb_neq; intros E; rewrite E, key_eqb_refl in Eab; discriminate).
      rewrite Eba.
      destruct (key_eqb (e_key b) k) eqn:Ebk, (key_eqb (e_key a) k) eqn:Eak; try reflexivity.
      apply key_eqb_eq in Ebk. apply key_eqb_eq in Eak. subst k. rewrite Eak, key_eqb_refl in Eab. discriminate.
  - exfalso. assert (X : exists D2, ins2 D a b = Ok D2) by (eexists; exact H1).
    apply ins2_ok_cond in X as [A [B C]].
    assert (Y : exists D2, ins2 D b a = Ok D2) by (apply ins2_ok_cond; repeat split; try assumption; intros E; symmetry; apply C; symmetry; exact E).
    destruct Y as [D3 Y]. congruence.
  - exfalso. assert (X : exists D2, ins2 D b a = Ok D2) by (eexists; exact H2).
    apply ins2_ok_cond in X as [A [B C]].
    assert (Y : exists D2, ins2 D a b = Ok D2) by (apply ins2_ok_cond; repeat split; try assumption; intros E; symmetry; apply C; symmetry; exact E).
    destruct Y as [D3 Y]. congruence.
  - rewrite (ins2_err _ _ _ _ H1), (ins2_err _ _ _ _ H2). reflexivity.
Qed.

Lemma run_ins2 D a b r : run D (Emit a :: Emit b :: r) = match ins2 D a b with Ok D2 => run D2 r | Err c => Err c end.
Proof. simpl. unfold ins2. destruct (insert_desired D a); reflexivity. Qed.

(* ---------- a block of inserts may be permuted ---------- *)

Definition tail_ok (rest rest' : list step) : Prop := forall D1 D1', deq D1 D1' -> req deq (run D1 rest) (run D1' rest').

Lemma tail_ok_refl rest : tail_ok rest rest.
Proof. intros D1 D1' H. apply run_cong. exact H. Qed.

Lemma run_perm ems ems' : Permutation ems ems' -> forall D D' rest rest', deq D D' -> tail_ok rest rest' ->
  req deq (run D (map Emit ems ++ rest)) (run D' (map Emit ems' ++ rest')).
Proof.
  induction 1 as [|x l l' Hp IH|x y l|l l' l'' H1 IH1 H2 IH2]; intros D D' rest rest' Hd Ht.
  - simpl. apply Ht. exact Hd.
  - simpl. pose proof (insert_cong D D' x Hd) as H.
    destruct (insert_desired D x) as [D1|c], (insert_desired D' x) as [D1'|c']; simpl in H; try contradiction.
    + apply IH; assumption.
    + subst. reflexivity.
  - change (map Emit (y :: x :: l) ++ rest) with (Emit y :: Emit x :: (map Emit l ++ rest)).
    change (map Emit (x :: y :: l) ++ rest') with (Emit x :: Emit y :: (map Emit l ++ rest')).
    rewrite !run_ins2.
    assert (Hc : req deq (ins2 D y x) (ins2 D' x y)).
    { eapply (req_trans deq deq_trans); [apply ins2_comm|].
      unfold ins2. pose proof (insert_cong D D' x Hd) as H.
      destruct (insert_desired D x) as [D1|c], (insert_desired D' x) as [D1'|c']; simpl in H; try contradiction.
      - apply insert_cong. exact H.
      - subst. reflexivity. }
    destruct (ins2 D y x) as [D2|c], (ins2 D' x y) as [D2'|c']; simpl in Hc; try contradiction.
    + assert (Hl : Permutation l l) by apply Permutation_refl.
      clear - Hc Ht. revert D2 D2' Hc. induction l as [|z l IH]; intros D2 D2' Hc; simpl.
      * apply Ht. exact Hc.
      * pose proof (insert_cong D2 D2' z Hc) as H.
        destruct (insert_desired D2 z) as [D3|c], (insert_desired D2' z) as [D3'|c']; simpl in H; try contradiction.
        -- apply IH. exact H.
        -- subst. reflexivity.
    + subst. reflexivity.
  - eapply (req_trans deq deq_trans).
    + apply (IH1 D D rest rest (deq_refl D) (tail_ok_refl rest)).
    + apply IH2; assumption.
Qed.

(* ---------- step lists equal up to permutation inside blocks of inserts ---------- *)

Inductive SE : list step -> list step -> Prop :=
| SE_nil : SE [] []
| SE_fail c l l' : SE (Fail c :: l) (Fail c :: l')
| SE_block ems ems' l l' : Permutation ems ems' -> SE l l' -> SE (map Emit ems ++ l) (map Emit ems' ++ l').

Lemma SE_run l l' : SE l l' -> tail_ok l l'.
Proof.
  induction 1 as [|c l l'|ems ems' l l' Hp Hs IH]; intros D D' Hd.
  - exact Hd.
  - reflexivity.
  - apply run_perm; assumption.
Qed.

Lemma SE_refl l : SE l l.
Proof.
  induction l as [|[e|c] r IH]; [constructor| |constructor].
  apply (SE_block [e] [e] r r (Permutation_refl _) IH).
Qed.

Lemma SE_app a a' b b' : SE a a' -> SE b b' -> SE (a ++ b) (a' ++ b').
Proof.
  induction 1 as [|c l l'|ems ems' l l' Hp Hs IH]; intros Hb; simpl.
  - exact Hb.
  - constructor.
  - rewrite <- !app_assoc. constructor; [exact Hp|apply IH; exact Hb].
Qed.

Lemma SE_emits ems ems' : Permutation ems ems' -> SE (map Emit ems) (map Emit ems').
Proof.
  intros H. rewrite <- (app_nil_r (map Emit ems)), <- (app_nil_r (map Emit ems')). constructor; [exact H|constructor].
Qed.

Lemma SE_flat_map {A} (R : A -> A -> Prop) (f f' : A -> list step) l l' :
  Forall2 R l l' -> (forall x y, R x y -> SE (f x) (f' y)) -> SE (flat_map f l) (flat_map f' l').
Proof.
  induction 1 as [|x y l l' Hxy Hl IH]; intros Hf; simpl; [constructor|].
  apply SE_app; [apply Hf; exact Hxy|apply IH; exact Hf].
Qed.

(* ---------- modules that differ only in the order of their file lists ---------- *)

Definition same_tree (m m' : module) : Prop :=
  m_id m = m_id m' /\ m_type m = m_type m' /\ m_enabled m = m_enabled m' /\ m_tags m = m_tags m' /\
  m_targets m = m_targets m' /\ m_fm_ok m = m_fm_ok m' /\ m_h10 m = m_h10 m' /\
  Permutation (m_files m) (m_files m') /\ NoDup (map f_rel (m_files m)).

Lemma rel_eqb_eq a : forall b, rel_eqb a b = true <-> a = b.
Proof.
  induction a as [|x a IH]; intros [|y b]; simpl; split; intros H; try reflexivity; try discriminate.
  - apply andb_true_iff in H as [H1 H2]. apply str_eqb_eq in H1. apply IH in H2. congruence.
  - inversion H; subst. rewrite str_eqb_refl. apply IH. reflexivity.
Qed.

Lemma find_file_spec rel fs : NoDup (map f_rel fs) ->
  forall f, find_file rel fs = Some f <-> In f fs /\ f_rel f = rel.
Proof.
  unfold find_file. induction fs as [|g r IH]; intros Hnd f; simpl.
  - split; [discriminate|intros [[] _]].
  - inversion Hnd as [|? ? Hn Hr]; subst. destruct (rel_eqb (f_rel g) rel) eqn:E.
    + apply rel_eqb_eq in E. split.
      * intros H. inversion H; subst. split; [left; reflexivity|reflexivity].
      * intros [[ -> |Hin] Hrel]; [reflexivity|]. exfalso. apply Hn. rewrite E, <- Hrel. apply in_map. exact Hin.
    + rewrite (IH Hr f). split.
      * intros [Hin Hrel]. split; [right; exact Hin|exact Hrel].
      * intros [[ -> |Hin] Hrel]; [apply rel_eqb_eq in Hrel; congruence|split; assumption].
Qed.

Lemma find_file_perm rel fs fs' : NoDup (map f_rel fs) -> Permutation fs fs' -> find_file rel fs = find_file rel fs'.
Proof.
  intros Hnd Hp.
  assert (Hnd' : NoDup (map f_rel fs')) by (eapply Permutation_NoDup; [apply Permutation_map; exact Hp|exact Hnd]).
  destruct (find_file rel fs) as [f|] eqn:E.
  - symmetry. apply (find_file_spec rel fs' Hnd'). apply (find_file_spec rel fs Hnd) in E as [Hin Hrel].
    split; [eapply Permutation_in; eauto|exact Hrel].
  - destruct (find_file rel fs') as [f'|] eqn:E'; [|reflexivity].
    apply (find_file_spec rel fs' Hnd') in E' as [Hin Hrel].
    assert (X : find_file rel fs = Some f') by (apply (find_file_spec rel fs Hnd); split; [eapply Permutation_in; [apply Permutation_sym; exact Hp|exact Hin]|exact Hrel]).
    congruence.
Qed.

Lemma existsb_perm {A} (p : A -> bool) l l' : Permutation l l' -> existsb p l = existsb p l'.
Proof.
  induction 1 as [|x l l' H IH|x y l|l l' l'' H1 IH1 H2 IH2]; simpl; try congruence.
  destruct (p x), (p y); reflexivity.
Qed.

Lemma perm_shape {A} (l l' : list A) : Permutation l l' ->
  match l with
  | [] => l' = []
  | [a] => l' = [a]
  | _ :: _ :: _ => exists a b r, l' = a :: b :: r
  end.
Proof.
  intros H. destruct l as [|a [|b r]].
  - apply Permutation_nil. exact H.
  - apply Permutation_length_1_inv. exact H.
  - apply Permutation_length in H. destruct l' as [|x [|y r']]; simpl in H; try lia. eexists _, _, _. reflexivity.
Qed.

Lemma validate_tree_perm m m' fs fs' : same_tree m m' -> NoDup (map f_rel fs) -> Permutation fs fs' ->
  validate_tree m fs = validate_tree m' fs'.
Proof.
  intros [Hid [Hty [_ [_ [_ [Hfm _]]]]]] Hnd Hp. unfold validate_tree.
  rewrite (existsb_perm has_backslash fs fs' Hp). destruct (existsb has_backslash fs'); [reflexivity|].
  rewrite <- Hty, <- Hfm. pose proof (perm_shape fs fs' Hp) as Hs.
  destruct (m_type m).
  - rewrite (find_file_perm _ fs fs' Hnd Hp). reflexivity.
  - rewrite (find_file_perm _ fs fs' Hnd Hp). reflexivity.
  - destruct fs as [|a [|b r]]; [subst; reflexivity|subst; reflexivity|].
    destruct Hs as [x [y [r' ->]]]. reflexivity.
  - destruct fs as [|a [|b r]]; [subst; reflexivity|subst; reflexivity|].
    destruct Hs as [x [y [r' ->]]]. reflexivity.
Qed.

Lemma copied_perm fs fs' : Permutation fs fs' -> Permutation (copied fs) (copied fs').
Proof. apply Permutation_filter'. Qed.

Lemma copied_nodup fs : NoDup (map f_rel fs) -> NoDup (map f_rel (copied fs)).
Proof. apply NoDup_map_filter. Qed.

(* materialize on equivalent modules: the same error, or file lists that are permutations *)
Lemma materialize_perm m m' : same_tree m m' ->
  match materialize m, materialize m' with
  | Ok fs, Ok fs' => Permutation fs fs' /\ NoDup (map f_rel fs)
  | Err a, Err b => a = b
  | _, _ => False
  end.
Proof.
  intros Hs. pose proof Hs as [_ [_ [_ [_ [_ [_ [_ [Hp Hnd]]]]]]]].
  unfold materialize.
  rewrite <- (validate_tree_perm m m' (copied (m_files m)) (copied (m_files m')) Hs (copied_nodup _ Hnd) (copied_perm _ _ Hp)).
  destruct (validate_tree m (copied (m_files m))); [reflexivity|].
  split; [apply copied_perm; exact Hp|apply copied_nodup; exact Hnd].
Qed.

(* ---------- the module-level step functions ---------- *)

Lemma skill_emits_map t m fs dests :
  skill_emits t m fs dests =
  map Emit (flat_map (fun f => map (fun d => mkEmit t d [skill_name m; rel_string f] (f_bytes f) [m_id m]) dests) fs).
Proof.
  unfold skill_emits. induction fs as [|f r IH]; simpl; [reflexivity|].
  rewrite map_app, IH, map_map. reflexivity.
Qed.

Lemma Permutation_flat_map' {A B} (g : A -> list B) l l' : Permutation l l' -> Permutation (flat_map g l) (flat_map g l').
Proof.
  induction 1 as [|x l l' H IH|x y l|l l' l'' H1 IH1 H2 IH2]; simpl.
  - constructor.
  - apply Permutation_app_head. exact IH.
  - rewrite !app_assoc. apply Permutation_app_tail. apply Permutation_app_comm.
  - eapply Permutation_trans; eauto.
Qed.

Lemma skill_name_same m m' : same_tree m m' -> skill_name m = skill_name m'.
Proof. intros [Hid _]. unfold skill_name. rewrite Hid. reflexivity. Qed.

Lemma skill_steps_SE t m m' dests : same_tree m m' -> SE (skill_steps t m dests) (skill_steps t m' dests).
Proof.
  intros Hs. pose proof (materialize_perm m m' Hs) as Hm. unfold skill_steps.
  destruct (materialize m) as [fs|a], (materialize m') as [fs'|b]; try contradiction.
  - destruct Hm as [Hp _]. rewrite !skill_emits_map. apply SE_emits.
    rewrite <- (skill_name_same m m' Hs). destruct Hs as [Hid _]. rewrite <- Hid.
    apply Permutation_flat_map'. exact Hp.
  - subst. apply SE_refl.
Qed.

Lemma single_steps_SE t m m' default rename dests : same_tree m m' -> (m_type m = TPrompt \/ m_type m = TCommand) ->
  SE (single_steps t m default rename dests) (single_steps t m' default rename dests).
Proof.
  intros Hs Hty. pose proof (materialize_perm m m' Hs) as Hm. unfold single_steps.
  destruct (materialize m) as [fs|a] eqn:E, (materialize m') as [fs'|b]; try contradiction.
  - destruct Hm as [Hp _]. destruct (materialize_ok _ _ E) as [_ [_ Hv]].
    assert (Hone : exists f, fs = [f]).
    { unfold validate_tree in Hv. destruct (existsb has_backslash fs); [discriminate|].
      destruct Hty as [Hty|Hty]; rewrite Hty in Hv; destruct fs as [|f [|g r]]; try discriminate; eexists; reflexivity. }
    destruct Hone as [f ->]. apply Permutation_length_1_inv in Hp. subst fs'.
    destruct Hs as [Hid _]. rewrite <- Hid. apply SE_refl.
  - subst. apply SE_refl.
Qed.

Definition same_trees (ms ms' : list module) : Prop := Forall2 same_tree ms ms'.

Lemma collect_parts_same ms ms' : same_trees ms ms' -> collect_parts ms = collect_parts ms'.
Proof.
  induction 1 as [|m m' r r' Hs Hr IH]; simpl; [reflexivity|].
  pose proof (materialize_perm m m' Hs) as Hm.
  destruct (materialize m) as [fs|a], (materialize m') as [fs'|b]; try contradiction; [|congruence].
  destruct Hm as [Hp Hnd]. rewrite <- (find_file_perm [agents_md] fs fs' Hnd Hp).
  destruct Hs as [Hid _]. rewrite <- Hid, IH. reflexivity.
Qed.

Lemma cursor_steps_same m m' d : same_tree m m' -> cursor_steps m d = cursor_steps m' d.
Proof.
  intros Hs. pose proof (materialize_perm m m' Hs) as Hm. unfold cursor_steps.
  destruct (materialize m) as [fs|a], (materialize m') as [fs'|b]; try contradiction; [|congruence].
  destruct Hm as [Hp Hnd]. rewrite <- (find_file_perm [agents_md] fs fs' Hnd Hp).
  destruct Hs as [Hid [_ [_ [_ [_ [_ [Hh _]]]]]]].
  unfold fs_key, cursor_rule_bytes. rewrite <- Hid, <- Hh. reflexivity.
Qed.

Lemma Forall2_filter {A} (R : A -> A -> Prop) (p : A -> bool) l l' :
  Forall2 R l l' -> (forall x y, R x y -> p x = p y) -> Forall2 R (filter p l) (filter p l').
Proof.
  induction 1 as [|x y l l' Hxy Hl IH]; intros Hp; simpl; [constructor|].
  rewrite <- (Hp x y Hxy). destruct (p x); [constructor; [exact Hxy|]|]; apply IH; exact Hp.
Qed.

Lemma mods_for_same t ty ms ms' : same_trees ms ms' -> same_trees (mods_for t ty ms) (mods_for t ty ms').
Proof.
  intros H. apply Forall2_filter; [exact H|].
  intros x y [_ [Hty [_ [_ [Htg _]]]]]. unfold permits. rewrite Hty, Htg. reflexivity.
Qed.

Lemma when_same b ms ms' : same_trees ms ms' -> same_trees (when b ms) (when b ms').
Proof. destruct b; simpl; [auto|constructor]. Qed.

Lemma same_trees_type t ty ms ms' : same_trees (mods_for t ty ms) (mods_for t ty ms') ->
  Forall2 (fun m m' => same_tree m m' /\ m_type m = ty) (mods_for t ty ms) (mods_for t ty ms').
Proof.
  intros H. assert (Hall : forall m, In m (mods_for t ty ms) -> m_type m = ty) by (intros m Hm; apply (mods_for_in t ty ms m Hm)).
  revert Hall. induction H as [|x y l l' Hxy Hl IH]; intros Hall; constructor.
  - split; [exact Hxy|apply Hall; left; reflexivity].
  - apply IH. intros m Hm. apply Hall. right. exact Hm.
Qed.

(* ---------- the adapters ---------- *)

Lemma adapter_roots_same e ms ms' t : fst (adapter e ms t) = fst (adapter e ms' t).
Proof.
  unfold adapter.
  repeat match goal with |- context [if ?b then _ else _] => destruct b end; reflexivity.
Qed.

Lemma adapter_steps_SE e ms ms' t : same_trees ms ms' -> SE (snd (adapter e ms t)) (snd (adapter e ms' t)).
Proof.
  intros H. unfold adapter.
  destruct (str_eqb (t_name t) t_codex).
  { unfold codex_adapter. cbn [snd].
    rewrite <- (collect_parts_same _ _ (mods_for_same t_codex TInstructions ms ms' H)).
    destruct (collect_parts (mods_for t_codex TInstructions ms)); [|apply SE_refl].
    apply SE_app; [apply SE_refl|]. apply SE_app.
    - eapply SE_flat_map; [apply same_trees_type, mods_for_same; exact H|].
      intros x y [Hxy Hty]. destruct (flag t (s "write_user_prompts") opt_codex_write_user_prompts); [|constructor].
      apply single_steps_SE; [exact Hxy|left; exact Hty].
    - eapply SE_flat_map; [apply mods_for_same; exact H|]. intros x y Hxy. apply skill_steps_SE. exact Hxy. }
  destruct (str_eqb (t_name t) t_claude).
  { unfold claude_adapter. cbn [snd]. apply SE_app.
    - eapply SE_flat_map; [apply same_trees_type, mods_for_same; exact H|].
      intros x y [Hxy Hty]. apply single_steps_SE; [exact Hxy|right; exact Hty].
    - eapply SE_flat_map; [apply mods_for_same; exact H|]. intros x y Hxy.
      destruct (flag t (s "write_user_skills") opt_claude_code_write_user_skills || flag t (s "write_repo_skills") opt_claude_code_write_repo_skills);
        [apply skill_steps_SE; exact Hxy|constructor]. }
  destruct (str_eqb (t_name t) t_cursor).
  { unfold cursor_adapter. cbn [snd]. eapply SE_flat_map; [apply mods_for_same; exact H|].
    intros x y Hxy. destruct (flag t (s "write_rules") opt_cursor_write_rules); [|constructor].
    rewrite (cursor_steps_same x y _ Hxy). apply SE_refl. }
  destruct (str_eqb (t_name t) t_vscode).
  { unfold vscode_adapter. cbn [snd].
    rewrite <- (collect_parts_same _ _ (mods_for_same t_vscode TInstructions ms ms' H)).
    destruct (collect_parts (mods_for t_vscode TInstructions ms)); [|apply SE_refl].
    apply SE_app; [apply SE_refl|].
    eapply SE_flat_map; [apply same_trees_type, mods_for_same; exact H|].
    intros x y [Hxy Hty]. destruct (flag t (s "write_prompts") opt_vscode_write_prompts); [|constructor].
    apply single_steps_SE; [exact Hxy|left; exact Hty]. }
  destruct (str_eqb (t_name t) t_jetbrains).
  { unfold jetbrains_adapter, simple_agg_adapter. cbn [snd].
    rewrite <- (collect_parts_same _ _ (when_same _ _ _ (mods_for_same t_jetbrains TInstructions ms ms' H))). apply SE_refl. }
  destruct (str_eqb (t_name t) t_zed).
  { unfold zed_adapter, simple_agg_adapter. cbn [snd].
    rewrite <- (collect_parts_same _ _ (when_same _ _ _ (mods_for_same t_zed TInstructions ms ms' H))). apply SE_refl. }
  constructor.
Qed.

Lemma all_steps_SE e ms ms' ts : same_trees ms ms' -> SE (all_steps e ms ts) (all_steps e ms' ts).
Proof.
  intros H. unfold all_steps. induction ts as [|t r IH]; simpl; [constructor|].
  apply SE_app; [apply adapter_steps_SE; exact H|exact IH].
Qed.

Lemma all_roots_same e ms ms' ts : all_roots e ms ts = all_roots e ms' ts.
Proof.
  unfold all_roots. induction ts as [|t r IH]; simpl; [reflexivity|]. rewrite IH, (adapter_roots_same e ms ms' t). reflexivity.
Qed.

(* ---------- select_modules ---------- *)

Lemma Forall2_insert {A} (R : A -> A -> Prop) (leb : A -> A -> bool) x x' l l' :
  (forall a a' b b', R a a' -> R b b' -> leb a b = leb a' b') -> R x x' -> Forall2 R l l' ->
  Forall2 R (insert leb x l) (insert leb x' l').
Proof.
  intros Hl Hx. induction 1 as [|y y' r r' Hy Hr IH]; simpl; [constructor; [exact Hx|constructor]|].
  rewrite <- (Hl x x' y y' Hx Hy). destruct (leb x y).
  - constructor; [exact Hx|]. constructor; assumption.
  - constructor; [exact Hy|exact IH].
Qed.

Lemma Forall2_isort {A} (R : A -> A -> Prop) (leb : A -> A -> bool) l l' :
  (forall a a' b b', R a a' -> R b b' -> leb a b = leb a' b') -> Forall2 R l l' ->
  Forall2 R (isort leb l) (isort leb l').
Proof.
  intros Hl. induction 1 as [|x x' r r' Hx Hr IH]; simpl; [constructor|]. apply Forall2_insert; assumption.
Qed.

Definition same_cfg (c c' : cfg) : Prop :=
  c_version c = c_version c' /\ c_profiles c = c_profiles c' /\ c_targets c = c_targets c' /\
  same_trees (c_modules c) (c_modules c').

Lemma select_modules_same c c' prof : same_cfg c c' ->
  match select_modules c prof, select_modules c' prof with
  | Some ms, Some ms' => same_trees ms ms'
  | None, None => True
  | _, _ => False
  end.
Proof.
  intros [_ [Hp [_ Hm]]]. unfold select_modules, find_profile. rewrite <- Hp.
  destruct (find (fun p => str_eqb (p_name p) prof) (c_profiles c)) as [p|]; [|exact I].
  apply Forall2_isort.
  - intros a a' b b' [Ha _] [Hb _]. unfold id_leb. rewrite Ha, Hb. reflexivity.
  - apply Forall2_filter; [exact Hm|]. intros x y [Hid [_ [Hen [Htg _]]]]. unfold selected_by. rewrite Hid, Hen, Htg. reflexivity.
Qed.

Lemma selected_targets_same c c' filt : same_cfg c c' -> selected_targets c filt = selected_targets c' filt.
Proof. intros [_ [_ [Ht _]]]. unfold selected_targets, sorted_targets. rewrite Ht. reflexivity. Qed.

Definition res_eq (a b : list entry * list root) : Prop := deq (fst a) (fst b) /\ snd a = snd b.

Lemma render_same c c' e prof filt : same_cfg c c' -> req res_eq (render c e prof filt) (render c' e prof filt).
Proof.
  intros H. unfold render. pose proof (select_modules_same c c' prof H) as Hs.
  rewrite <- (selected_targets_same c c' filt H).
  destruct (select_modules c prof) as [ms|], (select_modules c' prof) as [ms'|]; try contradiction; [|reflexivity].
  destruct (selected_targets c filt) as [ts|x]; [|reflexivity].
  pose proof (SE_run _ _ (all_steps_SE e ms ms' ts Hs) [] [] (deq_refl [])) as Hr.
  rewrite <- (all_roots_same e ms ms' ts).
  destruct (run [] (all_steps e ms ts)) as [D|x], (run [] (all_steps e ms' ts)) as [D'|y]; simpl in Hr; try contradiction.
  - split; [exact Hr|reflexivity].
  - exact Hr.
Qed.
