(* Proofs/RepeatP.v — C05: any number of repeated deploys after a converged one is a no-op.
   Each repeat may use its own confirmation style and --adopt flag. *)
From AP Require Import Base.Str Gen.Tables Model.Deploy Proofs.DeployP Proofs.ConvergeP.
Open Scope N_scope.

(* run the deploys of [rs] (style, adopt) one after the other, confirmed, on the same desired
   state; collect the (plan, outcome) of each *)
Fixpoint redeploys (rs : list (style * bool)) (flt : option str) (w : world) (roots : list root)
         (D : list dfile) : list (list change * outcome) * world :=
  match rs with
  | [] => ([], w)
  | (st, adopt) :: r =>
    let '(pl, (o, w1)) := deploy_cmd st true adopt flt w roots D in
    let '(outs, w2) := redeploys r flt w1 roots D in
    ((pl, o) :: outs, w2)
  end.

Lemma redeploys_noop w roots D flt rs :
  wfD roots D -> wfM D (managed_for_plan w roots flt) ->
  let w' := apply_plan KDeploy w roots D (plan (files w) D (managed_for_plan w roots flt)) in
  redeploys rs flt w' roots D = (map (fun _ => ([], ONoChanges)) rs, w').
Proof.
  intros HD HM w'. induction rs as [|[st adopt] r IH]; cbn [redeploys map]; [reflexivity|].
  unfold w'. rewrite (redeploy_noop w roots D flt HD HM st adopt).
  fold w'. rewrite IH. reflexivity.
Qed.
