(* Proofs/ConvergeP.v — convergence / idempotence of deploy (C05) over Model/Deploy.v *)
From AP Require Import Base.Str Base.StrFacts Base.Sorting Gen.Tables Model.Deploy Proofs.DeployP.
From Coq Require Import Lia Arith Sorting.Permutation.
Open Scope N_scope.
Local Arguments str_eqb : simpl never.
Local Arguments existsb : simpl never.

(* ---------- well-formedness of inputs (hypotheses kept visible in the theorems) ---------- *)
Definition wf_comp (c : str) : Prop := c <> [] /\ c <> dot /\ c <> dotdot /\ ~ In slash c.
Definition wf_path (p : path) : Prop := Forall wf_comp p.

(* desired state: one entry per path (no two targets write one path), paths are proper component
   lists and never manifest files; roots have pairwise distinct manifest paths *)
Definition wfD (roots : list root) (D : list dfile) : Prop :=
  NoDup (map dpath D) /\
  (forall d, In d D -> wf_path (dpath d) /\ is_manifest_path (dpath d) = false) /\
  NoDup (map mf_path roots).

(* managed set: never a manifest file; a path is managed under one target only, and if it is also
   desired then under the same target *)
Definition wfM (D : list dfile) (M : list tpath) : Prop :=
  (forall t p, In (t, p) M -> is_manifest_path p = false) /\
  (forall t p d, In (t, p) M -> In d D -> dpath d = p -> dtarget d = t) /\
  (forall t1 t2 p, In (t1, p) M -> In (t2, p) M -> t1 = t2).

(* ---------- strings: comps (render_rel cs) = cs ---------- *)
Lemma split_on_nosep c a : ~ In c a -> split_on c a = [a].
Proof.
  induction a as [|x a IH]; intros H; simpl; [reflexivity|].
  destruct (x =? c) eqn:E; [apply N.eqb_eq in E; subst; exfalso; apply H; left; reflexivity|].
  rewrite IH; [reflexivity|]. intros Hin. apply H. right. exact Hin.
Qed.

Lemma split_on_app_sep c a b : ~ In c a -> split_on c (a ++ c :: b) = a :: split_on c b.
Proof.
  induction a as [|x a IH]; intros H; simpl.
  - rewrite N.eqb_refl. reflexivity.
  - destruct (x =? c) eqn:E; [apply N.eqb_eq in E; subst; exfalso; apply H; left; reflexivity|].
    rewrite IH; [reflexivity|]. intros Hin. apply H. right. exact Hin.
Qed.

Lemma keep_wf c : wf_comp c -> negb (is_empty c) && negb (str_eqb c dot) = true.
Proof.
  intros (H1 & H2 & _). destruct c as [|x c]; [contradiction|]. cbn [is_empty negb andb].
  apply negb_true_iff. apply str_eqb_neq. exact H2.
Qed.

Lemma comps_render cs : Forall wf_comp cs -> comps (render_rel cs) = cs.
Proof.
  induction cs as [|a cs IH]; intros H; [reflexivity|].
  inversion H as [|? ? Ha Hcs]; subst. destruct cs as [|b cs].
  - simpl. unfold comps. rewrite split_on_nosep by apply Ha. simpl. rewrite keep_wf by exact Ha. reflexivity.
  - change (render_rel (a :: b :: cs)) with (a ++ slash :: render_rel (b :: cs)).
    unfold comps. rewrite split_on_app_sep by apply Ha. simpl filter. rewrite keep_wf by exact Ha.
    f_equal. apply IH. exact Hcs.
Qed.

Lemma render_not_absolute cs : Forall wf_comp cs -> is_absolute (render_rel cs) = false.
Proof.
  intros H. destruct cs as [|a cs]; [reflexivity|]. inversion H as [|? ? Ha _]; subst.
  destruct Ha as (Hne & _ & _ & Hs). destruct a as [|x a]; [contradiction|].
  assert (E : (x =? slash) = false) by (apply N.eqb_neq; intros ->; apply Hs; left; reflexivity).
  destruct cs; simpl; exact E.
Qed.

Lemma safe_rel_render cs : Forall wf_comp cs -> safe_rel (render_rel cs) = true.
Proof.
  intros H. unfold safe_rel. rewrite render_not_absolute by exact H. rewrite comps_render by exact H.
  cbn [negb andb]. apply negb_true_iff. apply not_true_is_false. intros E. apply existsb_exists in E as [c [Hc E]].
  apply str_eqb_eq in E. subst c. rewrite Forall_forall in H. destruct (H _ Hc) as (_ & _ & Hdd & _).
  contradiction.
Qed.

(* ---------- roots ---------- *)
Lemma strip_root_prefix r : forall p, is_prefix r p = true -> exists cs, p = r ++ cs /\ strip_root r p = Some cs.
Proof.
  induction r as [|x r IH]; intros p H; simpl in *; [exists p; auto|].
  destruct p as [|y p]; [discriminate|]. apply andb_true_iff in H as [H1 H2].
  rewrite H1. apply str_eqb_eq in H1. subst y. destruct (IH p H2) as [cs [-> Hs]]. exists cs. auto.
Qed.

Lemma best_root_from_spec rs : forall i t p best j n,
  best_root_from i rs t p best = Some (j, n) ->
  best = Some (j, n) \/
  exists r, nth_error rs (j - i) = Some r /\ (i <= j)%nat /\ rtarget r = t /\ is_prefix (rpath r) p = true.
Proof.
  induction rs as [|r rs IH]; intros i t p best j n H; simpl in H; [left; exact H|].
  apply IH in H as [H|[r' (H1 & H2 & H3 & H4)]].
  - destruct (str_eqb (rtarget r) t && is_prefix (rpath r) p) eqn:E.
    + apply andb_true_iff in E as [E1 E2]. apply str_eqb_eq in E1.
      destruct best as [[bj bn]|].
      * destruct (Nat.leb bn (length (rpath r))); [|left; exact H].
        inversion H; subst. right. exists r. match goal with |- context [(?a - ?a)%nat] => replace (a - a)%nat with 0%nat by lia end. simpl. auto.
      * inversion H; subst. right. exists r. match goal with |- context [(?a - ?a)%nat] => replace (a - a)%nat with 0%nat by lia end. simpl. auto.
    + left. exact H.
  - right. exists r'. replace (j - i)%nat with (S (j - S i)) by lia. simpl. repeat split; auto. lia.
Qed.

Lemma best_root_idx_spec rs t p i :
  best_root_idx rs t p = Some i ->
  exists r, nth_error rs i = Some r /\ rtarget r = t /\ is_prefix (rpath r) p = true.
Proof.
  unfold best_root_idx. destruct (best_root_from 0 rs t p None) as [[j n]|] eqn:E; [|discriminate].
  intros H. inversion H; subst. apply best_root_from_spec in E as [E|[r (H1 & _ & H3 & H4)]]; [discriminate|].
  rewrite Nat.sub_0_r in H1. exists r. auto.
Qed.

Lemma idx_is_spec o i : idx_is o i = true <-> o = Some i.
Proof.
  unfold idx_is. destruct o as [j|]; [|split; discriminate].
  rewrite Nat.eqb_eq. split; [intros ->; reflexivity|intros H; inversion H; reflexivity].
Qed.

(* a written entry leads back to the desired path it was computed from *)
Lemma join_rel_of roots d i r :
  best_root_idx roots (dtarget d) (dpath d) = Some i -> nth_error roots i = Some r ->
  wf_path (dpath d) ->
  join_rel (rpath r) (rel_of r (dpath d)) = dpath d /\ safe_rel (rel_of r (dpath d)) = true /\
  rtarget r = dtarget d.
Proof.
  intros Hb Hn Hw. apply best_root_idx_spec in Hb as [r' (Hn' & Ht & Hp)].
  rewrite Hn in Hn'. inversion Hn'; subst r'. apply strip_root_prefix in Hp as [cs [Hp Hs]].
  unfold rel_of. rewrite Hs. assert (Hcs : Forall wf_comp cs).
  { unfold wf_path in Hw. rewrite Hp in Hw. apply Forall_app in Hw. apply Hw. }
  unfold join_rel. rewrite comps_render by exact Hcs. rewrite safe_rel_render by exact Hcs. auto.
Qed.

(* ---------- manifest names ---------- *)
Lemma starts_with_app p x : starts_with p (p ++ x) = true.
Proof. induction p as [|a p IH]; simpl; [reflexivity|]. rewrite N.eqb_refl. exact IH. Qed.

Lemma mf_name_is_manifest t : is_manifest_name (mf_name t) = true.
Proof.
  unfold is_manifest_name, mf_name. apply orb_true_iff. right. apply andb_true_iff. split.
  - apply starts_with_app.
  - unfold ends_with. rewrite !rev_app_distr. rewrite <- app_assoc. apply starts_with_app.
Qed.

Lemma last_comp_app p c : last_comp (p ++ [c]) = Some c.
Proof. unfold last_comp. rewrite rev_app_distr. reflexivity. Qed.

Lemma mf_path_is_manifest r : is_manifest_path (mf_path r) = true.
Proof. unfold is_manifest_path, mf_path. rewrite last_comp_app. apply mf_name_is_manifest. Qed.

Lemma legacy_path_is_manifest r : is_manifest_path (legacy_path r) = true.
Proof.
  unfold is_manifest_path, legacy_path. rewrite last_comp_app. unfold is_manifest_name.
  rewrite str_eqb_refl. reflexivity.
Qed.

Lemma mf_name_not_legacy t : mf_name t <> legacy_manifest_filename.
Proof.
  intros E. apply (f_equal (@length N)) in E. unfold mf_name, sanitize_id in E.
  rewrite !app_length, map_length in E.
  assert (L : (length manifest_filename_prefix + length manifest_filename_suffix > length legacy_manifest_filename)%nat)
    by (vm_compute; lia).
  lia.
Qed.

Lemma legacy_not_mf r r' : legacy_path r <> mf_path r'.
Proof.
  unfold legacy_path, mf_path. intros E. apply (f_equal last_comp) in E. rewrite !last_comp_app in E.
  assert (E' : mf_name (rtarget r') = legacy_manifest_filename) by congruence.
  apply mf_name_not_legacy in E'. exact E'.
Qed.

(* ---------- write_manifests at a root's own manifest path ---------- *)
Definition is_nil {A} (l : list A) : bool := match l with [] => true | _ => false end.

(* the condition under which write_target_manifests (re)writes a root's manifest *)
Definition should_write (f : fs) (roots : list root) (D : list dfile) (pl : list change) (i : nat) (r : root) : bool :=
  exists_at f (mf_path r) || negb (is_nil (per_root roots D i r)) || root_had_changes roots pl i || legacy_stale f r.

Lemma legacy_stale_upd f r0 v r : mf_path r0 <> mf_path r ->
  legacy_stale (upd f (mf_path r0) v) r = legacy_stale f r.
Proof.
  intros Hne. unfold legacy_stale, exists_at, read_manifest, chosen_manifest.
  rewrite !upd_other; [reflexivity| |].
  - intros X. apply (legacy_not_mf r r0). exact X.
  - intros X. apply Hne. auto.
Qed.

Lemma legacy_stale_ext f g r :
  f (mf_path r) = g (mf_path r) -> f (legacy_path r) = g (legacy_path r) -> legacy_stale f r = legacy_stale g r.
Proof. intros E1 E2. unfold legacy_stale, exists_at, read_manifest, chosen_manifest. rewrite E1, E2. reflexivity. Qed.

Lemma should_write_ext f g roots D pl i r :
  f (mf_path r) = g (mf_path r) -> f (legacy_path r) = g (legacy_path r) ->
  should_write f roots D pl i r = should_write g roots D pl i r.
Proof. intros E1 E2. unfold should_write, exists_at. rewrite (legacy_stale_ext f g r E1 E2), E1. reflexivity. Qed.

Lemma write_manifests_at rs : forall i roots D pl f j r,
  NoDup (map mf_path rs) -> nth_error rs j = Some r ->
  fst (write_manifests_from i rs roots D pl f) (mf_path r) =
  if should_write f roots D pl (i + j) r
  then Some (new_manifest r (per_root roots D (i + j) r)) else f (mf_path r).
Proof.
  unfold should_write.
  induction rs as [|r0 rs IH]; intros i roots D pl f j r Hnd Hn; [destruct j; discriminate|].
  inversion Hnd as [|? ? Hnotin Hnd']; subst. destruct j as [|j]; simpl in Hn.
  - inversion Hn; subst r0. rewrite Nat.add_0_r. cbn [write_manifests_from].
    change (match per_root roots D i r with [] => true | _ :: _ => false end) with (is_nil (per_root roots D i r)).
    destruct (exists_at f (mf_path r) || negb (is_nil (per_root roots D i r)) || root_had_changes roots pl i || legacy_stale f r) eqn:E.
    + pose proof (write_manifests_other rs (S i) roots D pl
                    (upd f (mf_path r) (Some (new_manifest r (per_root roots D i r)))) (mf_path r)) as Ho.
      destruct (write_manifests_from (S i) rs roots D pl _) as [f2 l]. simpl in *.
      rewrite Ho; [apply upd_same|]. intros r' Hr' Eq. apply Hnotin. rewrite <- Eq. apply in_map. exact Hr'.
    + apply write_manifests_other. intros r' Hr' Eq. apply Hnotin. rewrite <- Eq. apply in_map. exact Hr'.
  - replace (i + S j)%nat with (S i + j)%nat by lia. cbn [write_manifests_from].
    assert (Hne : mf_path r0 <> mf_path r).
    { intros Eq. apply Hnotin. rewrite Eq. apply in_map. eapply nth_error_In. exact Hn. }
    match goal with |- context [if ?b then _ else _] => destruct b eqn:E end.
    + pose proof (IH (S i) roots D pl (upd f (mf_path r0) (Some (new_manifest r0 (per_root roots D i r0)))) j r Hnd' Hn) as H.
      destruct (write_manifests_from (S i) rs roots D pl _) as [f2 l]. simpl in *. rewrite H.
      rewrite legacy_stale_upd by exact Hne.
      unfold exists_at. rewrite !upd_other by (intros X; apply Hne; auto). reflexivity.
    + apply IH; auto.
Qed.

(* ---------- plan paths are pairwise distinct under wfD / wfM ---------- *)
Lemma plan_desired_paths f M D :
  map c_path (flat_map (plan_desired f M) D) =
  map dpath (filter (fun d => negb (is_nil (plan_desired f M d))) D).
Proof.
  induction D as [|d D IH]; [reflexivity|]. cbn [flat_map filter]. rewrite map_app, IH.
  assert (H : map c_path (plan_desired f M d) = if negb (is_nil (plan_desired f M d)) then [dpath d] else []).
  { unfold plan_desired. destruct (f (dpath d)) as [o|]; [|reflexivity].
    destruct (fobj_eqb o (FBytes (dcontent d))); reflexivity. }
  rewrite H. destruct (negb (is_nil (plan_desired f M d))); reflexivity.
Qed.

Lemma plan_managed_paths f D M :
  map c_path (flat_map (plan_managed f D) M) =
  map snd (filter (fun tp => negb (is_nil (plan_managed f D tp))) M).
Proof.
  induction M as [|tp M IH]; [reflexivity|]. cbn [flat_map filter]. rewrite map_app, IH.
  assert (H : map c_path (plan_managed f D tp) = if negb (is_nil (plan_managed f D tp)) then [snd tp] else []).
  { unfold plan_managed. destruct (mem_key tp D); [reflexivity|]. destruct (f (snd tp)); reflexivity. }
  rewrite H. destruct (negb (is_nil (plan_managed f D tp))); reflexivity.
Qed.

Lemma NoDup_map_filter {A B} (g : A -> B) (p : A -> bool) l :
  NoDup (map g l) -> NoDup (map g (filter p l)).
Proof.
  induction l as [|x l IH]; simpl; intros H; [constructor|].
  inversion H as [|? ? Hn Hnd]; subst. destruct (p x); simpl; [|apply IH; exact Hnd].
  constructor; [|apply IH; exact Hnd]. intros Hin. apply Hn.
  apply in_map_iff in Hin as [y [Hy Hin]]. apply filter_In in Hin as [Hin _].
  apply in_map_iff. exists y. auto.
Qed.

Lemma dedup_paths_nodup M :
  (forall t1 t2 p, In (t1, p) M -> In (t2, p) M -> t1 = t2) -> NoDup (map snd (dedup_tp M)).
Proof.
  intros H. pose proof (dedup_tp_NoDup M) as Hnd.
  assert (H' : forall t1 t2 p, In (t1, p) (dedup_tp M) -> In (t2, p) (dedup_tp M) -> t1 = t2).
  { intros t1 t2 p H1 H2. apply (proj1 (dedup_tp_In _ _)) in H1. apply (proj1 (dedup_tp_In _ _)) in H2. exact (H t1 t2 p H1 H2). }
  clear H. induction (dedup_tp M) as [|[t p] l IH]; simpl; [constructor|].
  inversion Hnd as [|? ? Hn Hnd']; subst. constructor.
  - intros Hin. apply in_map_iff in Hin as [[t' p'] [Ep Hin]]. simpl in Ep. subst p'.
    assert (t = t') by (apply (H' t t' p); [left; reflexivity|right; exact Hin]). subst t'. contradiction.
  - apply IH; auto. intros t1 t2 p0 H1 H2. apply (H' t1 t2 p0); right; assumption.
Qed.

Lemma NoDup_app_intro {A} (a b : list A) :
  NoDup a -> NoDup b -> (forall x, In x a -> In x b -> False) -> NoDup (a ++ b).
Proof.
  induction a as [|x a IH]; intros Ha Hb H; simpl; [exact Hb|].
  inversion Ha as [|? ? Hn Ha']; subst. constructor.
  - rewrite in_app_iff. intros [Hin|Hin]; [contradiction|]. apply (H x); [left; reflexivity|exact Hin].
  - apply IH; auto. intros y Hy1 Hy2. apply (H y); [right; exact Hy1|exact Hy2].
Qed.

Lemma plan_paths_nodup roots f D M : wfD roots D -> wfM D M -> NoDup (map c_path (plan f D M)).
Proof.
  intros (HD1 & HD2 & _) (HM1 & HM2 & HM3).
  eapply Permutation_NoDup; [apply Permutation_map; apply isort_perm|].
  unfold plan_unsorted. rewrite map_app, plan_desired_paths, plan_managed_paths.
  apply NoDup_app_intro.
  - apply NoDup_map_filter. exact HD1.
  - apply NoDup_map_filter. apply dedup_paths_nodup. exact HM3.
  - intros p H1 H2. apply in_map_iff in H1 as [d [Ep Hd]]. apply filter_In in Hd as [Hd _].
    apply in_map_iff in H2 as [[t p'] [Ep' Htp]]. simpl in Ep'. subst p'. apply filter_In in Htp as [Htp Hne].
    apply (proj1 (dedup_tp_In _ _)) in Htp. pose proof (HM2 t p d Htp Hd Ep) as Ht.
    unfold plan_managed in Hne. assert (Hk : mem_key (t, p) D = true).
    { apply mem_key_true. exists d. split; [exact Hd|]. unfold dkey. rewrite Ht, Ep. reflexivity. }
    rewrite Hk in Hne. discriminate.
Qed.

(* ---------- convergence of the file part ---------- *)
Lemma NoDup_map_inj {A B} (g : A -> B) l x y :
  NoDup (map g l) -> In x l -> In y l -> g x = g y -> x = y.
Proof.
  induction l as [|z l IH]; simpl; intros Hnd Hx Hy E; [contradiction|].
  inversion Hnd as [|? ? Hn Hnd']; subst.
  destruct Hx as [->|Hx], Hy as [->|Hy]; auto.
  - exfalso. apply Hn. rewrite E. apply in_map. exact Hy.
  - exfalso. apply Hn. rewrite <- E. apply in_map. exact Hx.
Qed.

Section Converge.
  Variables (roots : list root) (f : fs) (D : list dfile) (M : list tpath).
  Hypothesis HD : wfD roots D.
  Hypothesis HM : wfM D M.
  Let pl := plan f D M.

  Lemma changes_at_desired d c :
    In d D -> In c pl -> c_path c = dpath d -> In c (plan_desired f M d).
  Proof.
    intros Hd Hc Hp. destruct HD as (HD1 & _ & _). destruct HM as (_ & HM2 & _).
    apply in_plan in Hc as [[d' [Hd' Hc]]|[tp [Htp Hc]]].
    - pose proof (in_plan_desired _ _ _ _ Hc) as (_ & Hp' & _).
      assert (d' = d) by (eapply NoDup_map_inj; eauto; congruence). subst d'. exact Hc.
    - exfalso. apply in_plan_managed in Hc as (_ & Hp' & _ & Hk & _).
      destruct tp as [t p]. simpl in *. rewrite Hp in Hp'. subst p.
      pose proof (HM2 t (dpath d) d Htp Hd eq_refl) as Ht.
      assert (mem_key (t, dpath d) D = true).
      { apply mem_key_true. exists d. split; [exact Hd|]. unfold dkey. rewrite Ht. reflexivity. }
      congruence.
  Qed.

  Lemma converged_desired d :
    In d D -> fold_left apply_change pl f (dpath d) = Some (FBytes (dcontent d)).
  Proof.
    intros Hd. destruct (plan_desired f M d) as [|c l] eqn:E.
    - rewrite fold_apply_other.
      + unfold plan_desired in E. destruct (f (dpath d)) as [o|] eqn:Ef; [|discriminate].
        destruct (fobj_eqb o (FBytes (dcontent d))) eqn:Eo; [|discriminate].
        apply fobj_eqb_eq in Eo. subst o. reflexivity.
      + intros c Hc Hp. pose proof (changes_at_desired d c Hd Hc Hp) as H. rewrite E in H. exact H.
    - assert (Hc : In c (plan_desired f M d)) by (rewrite E; left; reflexivity).
      pose proof (in_plan_desired _ _ _ _ Hc) as (_ & Hp & _ & Ha & Hop).
      assert (Hin : In c pl) by (apply in_plan; left; exists d; auto).
      rewrite <- Hp. rewrite fold_apply_realised.
      + unfold after_obj. rewrite Ha. destruct Hop as [[_ ->]|[o (_ & _ & ->)]]; reflexivity.
      + eapply plan_paths_nodup; eauto.
      + exact Hin.
      + intros _. rewrite Ha. discriminate.
  Qed.

  Lemma converged_removed t p :
    In (t, p) M -> mem_key (t, p) D = false -> fold_left apply_change pl f p = None.
  Proof.
    intros Htp Hk. destruct HM as (_ & HM2 & HM3).
    destruct (f p) as [o|] eqn:Ef.
    - pose proof (plan_delete_complete f D M t p o Htp Hk Ef) as Hc.
      change p with (c_path (Build_change t PDelete p (Some o) None)).
      rewrite fold_apply_realised; [reflexivity| | |].
      + eapply plan_paths_nodup; eauto.
      + exact Hc.
      + simpl. intros H. contradiction.
    - rewrite fold_apply_other; [exact Ef|]. intros c Hc Hp.
      apply in_plan in Hc as [[d [Hd Hc]]|[tp [Htp' Hc]]].
      + apply in_plan_desired in Hc as (_ & Hp' & _). rewrite Hp in Hp'.
        pose proof (HM2 t p d Htp Hd (eq_sym Hp')) as Ht.
        assert (mem_key (t, p) D = true).
        { apply mem_key_true. exists d. split; [exact Hd|]. unfold dkey. rewrite Ht, <- Hp'. reflexivity. }
        congruence.
      + apply in_plan_managed in Hc as (_ & Hp' & _ & _ & _ & Hex & _). rewrite Hp in Hp'. rewrite <- Hp' in Hex.
        contradiction.
  Qed.

  Lemma plan_paths_not_manifest c : In c pl -> is_manifest_path (c_path c) = false.
  Proof.
    intros Hc. destruct HD as (_ & HD2 & _). destruct HM as (HM1 & _ & _).
    apply plan_origin in Hc as [[d (Hd & _ & Hp & _)]|[Hin _]].
    - rewrite Hp. apply HD2. exact Hd.
    - eapply HM1. exact Hin.
  Qed.

  Lemma fold_at_manifest p : is_manifest_path p = true -> fold_left apply_change pl f p = f p.
  Proof.
    intros Hp. apply fold_apply_other. intros c Hc E. apply plan_paths_not_manifest in Hc.
    rewrite E in Hc. congruence.
  Qed.
End Converge.

Lemma not_manifest_not_mf p (roots : list root) :
  is_manifest_path p = false -> forall r, In r roots -> mf_path r <> p.
Proof. intros H r _ E. rewrite <- E, mf_path_is_manifest in H. discriminate. Qed.

(* C05: after a successful deploy every desired output holds the rendered bytes and every
   previously managed output that is no longer desired is gone *)
Lemma deploy_converged st confirmed adopt flt w roots D pl w' :
  deploy_cmd st confirmed adopt flt w roots D = (pl, (OApplied, w')) ->
  wfD roots D -> wfM D (managed_for_plan w roots flt) ->
  (forall d, In d D -> files w' (dpath d) = Some (FBytes (dcontent d))) /\
  (forall t p, In (t, p) (managed_for_plan w roots flt) -> mem_key (t, p) D = false -> files w' p = None).
Proof.
  intros H HD HM. unfold deploy_cmd in H. inversion H as [[Hpl Hd]]. clear H.
  apply deploy_apply_in_cases in Hd as [[Hx _]|(_ & -> & _)]; [contradiction|].
  rewrite Hpl in *. split.
  - intros d Hd. rewrite apply_plan_files. unfold write_manifests. rewrite write_manifests_other.
    + subst pl. eapply converged_desired; eauto.
    + apply not_manifest_not_mf. apply HD. exact Hd.
  - intros t p Htp Hk. rewrite apply_plan_files. unfold write_manifests. rewrite write_manifests_other.
    + subst pl. eapply converged_removed; eauto.
    + apply not_manifest_not_mf. destruct HM as (HM1 & _). eapply HM1. exact Htp.
Qed.

(* C05: the manifest of every root that had one, holds desired files, or saw a change lists
   exactly the root's desired files with their contents *)
Lemma deploy_manifests_exact st confirmed adopt flt w roots D pl w' i r :
  deploy_cmd st confirmed adopt flt w roots D = (pl, (OApplied, w')) ->
  wfD roots D -> wfM D (managed_for_plan w roots flt) -> nth_error roots i = Some r ->
  files w' (mf_path r) =
  if should_write (files w) roots D pl i r
  then Some (new_manifest r (per_root roots D i r)) else None.
Proof.
  intros H HD HM Hn. unfold deploy_cmd in H. inversion H as [[Hpl Hd]]. clear H.
  apply deploy_apply_in_cases in Hd as [[Hx _]|(_ & -> & _)]; [contradiction|].
  rewrite Hpl in *. rewrite apply_plan_files. unfold write_manifests.
  rewrite (write_manifests_at roots 0 roots D pl _ i r) by (try apply HD; exact Hn). simpl.
  assert (E : fold_left apply_change pl (files w) (mf_path r) = files w (mf_path r)).
  { subst pl. eapply fold_at_manifest; eauto. apply mf_path_is_manifest. }
  assert (E2 : fold_left apply_change pl (files w) (legacy_path r) = files w (legacy_path r)).
  { subst pl. eapply fold_at_manifest; eauto. apply legacy_path_is_manifest. }
  rewrite (should_write_ext _ (files w) roots D pl i r E E2). rewrite E.
  destruct (should_write (files w) roots D pl i r) eqn:Es; [reflexivity|].
  unfold should_write in Es. destruct (files w (mf_path r)) eqn:Ef; [|reflexivity].
  unfold exists_at in Es. rewrite Ef in Es. simpl in Es. discriminate.
Qed.

(* ---------- the managed set after a successful deploy ---------- *)
Lemma latest_dr_app_last l x : kind_dr (sn_kind x) = true -> latest_dr (l ++ [x]) = Some x.
Proof.
  intros K. induction l as [|y l IH]; simpl; [rewrite K; reflexivity|]. rewrite IH. reflexivity.
Qed.

Lemma apply_changes_snd f pl a :
  In a (snd (apply_changes f pl)) -> exists g c, In c pl /\ a = applied_of g c.
Proof.
  revert f. induction pl as [|c pl IH]; intros f H; simpl in H; [contradiction|].
  destruct (apply_changes (apply_change f c) pl) as [f' l] eqn:E. simpl in H. destruct H as [<-|H].
  - exists f, c. split; [left; reflexivity|reflexivity].
  - specialize (IH (apply_change f c)). rewrite E in IH. destruct (IH H) as [g [c' [H1 H2]]].
    exists g, c'. split; [right; exact H1|exact H2].
Qed.

Lemma write_manifests_snd rs : forall i roots D pl f a,
  In a (snd (write_manifests_from i rs roots D pl f)) -> is_manifest_path (a_path a) = true.
Proof.
  induction rs as [|r rs IH]; intros i roots D pl f a H; simpl in H; [contradiction|].
  match type of H with context [if ?b then _ else _] => destruct b end.
  - match type of H with context [write_manifests_from ?i' rs roots D pl ?f'] =>
      specialize (IH i' roots D pl f' a); destruct (write_manifests_from i' rs roots D pl f') as [f2 l] end.
    simpl in H. destruct H as [<-|H]; [simpl; apply mf_path_is_manifest|apply IH; exact H].
  - eapply IH. exact H.
Qed.

Lemma flat_map_nil {A B} (g : A -> list B) l : (forall x, In x l -> g x = []) -> flat_map g l = [].
Proof.
  induction l as [|x l IH]; intros H; simpl; [reflexivity|].
  rewrite (H x) by (left; reflexivity). apply IH. intros y Hy. apply H. right. exact Hy.
Qed.

Lemma In_nth_error_ex {A} (l : list A) x : In x l -> exists i, nth_error l i = Some x.
Proof. apply In_nth_error. Qed.

Lemma in_per_root roots D i r e :
  In e (per_root roots D i r) ->
  exists d, In d D /\ best_root_idx roots (dtarget d) (dpath d) = Some i /\
            e = (rel_of r (dpath d), dcontent d).
Proof.
  unfold per_root. rewrite in_map_iff. intros [d [<- Hd]]. apply filter_In in Hd as [Hd Hi].
  apply idx_is_spec in Hi. exists d. auto.
Qed.

Lemma entries_same_refl es : entries_same es es = true.
Proof.
  unfold entries_same. assert (H : entries_subset es es = true); [|rewrite H; reflexivity].
  unfold entries_subset. apply forallb_forall. intros x Hx. apply existsb_exists. exists x. split; [exact Hx|].
  unfold entry_eqb. rewrite str_eqb_refl, N.eqb_refl. reflexivity.
Qed.

Section After.
  Variables (w : world) (roots : list root) (D : list dfile) (flt : option str).
  Let M := managed_for_plan w roots flt.
  Let pl := plan (files w) D M.
  Let w' := apply_plan KDeploy w roots D pl.
  Hypothesis HD : wfD roots D.
  Hypothesis HM : wfM D M.

  Lemma files_after_manifest_path p :
    is_manifest_path p = true -> (forall r, In r roots -> mf_path r <> p) -> files w' p = files w p.
  Proof.
    intros Hp Hr. unfold w'. rewrite apply_plan_files. unfold write_manifests.
    rewrite write_manifests_other by exact Hr. eapply fold_at_manifest; eauto.
  Qed.

  Lemma files_after_mf i r :
    nth_error roots i = Some r ->
    files w' (mf_path r) =
    if should_write (files w) roots D pl i r
    then Some (new_manifest r (per_root roots D i r)) else None.
  Proof.
    intros Hn. unfold w'. rewrite apply_plan_files. unfold write_manifests.
    rewrite (write_manifests_at roots 0 roots D pl _ i r) by (try apply HD; exact Hn). simpl.
    assert (E : fold_left apply_change pl (files w) (mf_path r) = files w (mf_path r)).
    { eapply fold_at_manifest; eauto. apply mf_path_is_manifest. }
    assert (E2 : fold_left apply_change pl (files w) (legacy_path r) = files w (legacy_path r)).
    { eapply fold_at_manifest; eauto. apply legacy_path_is_manifest. }
    rewrite (should_write_ext _ (files w) roots D pl i r E E2). rewrite E.
    destruct (should_write (files w) roots D pl i r) eqn:Es; [reflexivity|].
    unfold should_write in Es. destruct (files w (mf_path r)) eqn:Ef; [|reflexivity].
    unfold exists_at in Es. rewrite Ef in Es. simpl in Es. discriminate.
  Qed.

  Lemma files_after_desired d : In d D -> files w' (dpath d) = Some (FBytes (dcontent d)).
  Proof.
    intros Hd. unfold w'. rewrite apply_plan_files. unfold write_manifests. rewrite write_manifests_other.
    - eapply converged_desired; eauto.
    - apply not_manifest_not_mf. apply HD. exact Hd.
  Qed.

  Lemma files_after_removed t p : In (t, p) M -> mem_key (t, p) D = false -> files w' p = None.
  Proof.
    intros Htp Hk. unfold w'. rewrite apply_plan_files. unfold write_manifests. rewrite write_manifests_other.
    - eapply converged_removed; eauto.
    - apply not_manifest_not_mf. destruct HM as (HM1 & _). eapply HM1. exact Htp.
  Qed.

  (* every recorded path after the deploy is desired, or its file is gone *)
  Lemma managed_after tp :
    In tp (managed_for_plan w' roots flt) -> mem_key tp D = true \/ files w' (snd tp) = None.
  Proof.
    intros H. apply in_managed_for_plan in H as [Hpass [[r [Hr Hin]]|[Hl [sn [Hs [Hin _]]]]]].
    - apply in_root_managed in Hin as [es [e (Hread & He & Hsafe & ->)]].
      pose proof (read_manifest_usable _ _ _ Hread) as Hch.
      destruct (In_nth_error_ex _ _ Hr) as [i Hn].
      apply chosen_manifest_spec in Hch as [Hmf|[Hmf Hleg]].
      + (* the preferred manifest: it was written by this deploy *)
        rewrite (files_after_mf i r Hn) in Hmf.
        destruct (should_write (files w) roots D pl i r); [|discriminate].
        inversion Hmf as [Hes]. rewrite <- Hes in He.
        apply in_per_root in He as [d (Hd & Hb & ->)]. simpl.
        destruct (join_rel_of roots d i r Hb Hn) as (Hj & _ & Ht); [apply HD; exact Hd|].
        left. apply mem_key_true. exists d. split; [exact Hd|]. unfold dkey. rewrite Hj, Ht. reflexivity.
      + (* only a legacy manifest: it is the one that was there before, and its entries were planned *)
        rewrite files_after_manifest_path in Hleg
          by (try apply legacy_path_is_manifest; intros r' _ E; symmetry in E; revert E; apply legacy_not_mf).
        rewrite (files_after_mf i r Hn) in Hmf.
        destruct (should_write (files w) roots D pl i r) eqn:Es; [discriminate|].
        unfold should_write in Es.
        destruct (exists_at (files w) (mf_path r)) eqn:Ex; [simpl in Es; discriminate|].
        assert (Hold : read_manifest (files w) r = Some es).
        { unfold read_manifest, chosen_manifest. unfold exists_at in Ex.
          destruct (files w (mf_path r)); [discriminate|]. rewrite Hleg. unfold manifest_usable.
          rewrite N.eqb_refl, str_eqb_refl. reflexivity. }
        set (tp := (rtarget r, join_rel (rpath r) (fst e))) in *.
        assert (HinM : In tp M).
        { unfold M. apply load_in_managed_for_plan; [|exact Hpass].
          unfold load_managed. apply in_flat_map. exists r. split; [exact Hr|].
          unfold root_managed. rewrite Hold. apply in_map_iff. exists e. split; [reflexivity|].
          apply filter_In. auto. }
        destruct (mem_key tp D) eqn:Ek; [left; reflexivity|right].
        destruct tp as [t p]. eapply files_after_removed; eauto.
    - (* snapshot fallback: the record this deploy has just written *)
      unfold w', apply_plan in Hs.
      destruct (apply_changes (files w) pl) as [f1 l1] eqn:E1.
      destruct (write_manifests roots D pl f1) as [f2 l2] eqn:E2. simpl in Hs.
      rewrite latest_dr_app_last in Hs by reflexivity. inversion Hs; subst sn. clear Hs.
      unfold snap_managed in Hin. simpl in Hin.
      destruct D as [|d0 D'] eqn:ED.
      + simpl in Hin. exfalso. apply in_map_iff in Hin as [a [_ Ha]]. apply filter_In in Ha as [Ha Hf].
        apply andb_true_iff in Hf as [Hcu Hnm]. apply negb_true_iff in Hnm.
        apply in_app_iff in Ha as [Ha|Ha].
        * assert (Ha' : In a (snd (apply_changes (files w) pl))) by (rewrite E1; exact Ha).
          apply apply_changes_snd in Ha' as [g [c [Hc ->]]].
          apply plan_origin in Hc as [[d (Hd & _)]|[_ Hop]]; [contradiction|].
          unfold applied_of in Hcu. rewrite Hop in Hcu. discriminate.
        * assert (Ha' : In a (snd (write_manifests_from 0 roots roots [] pl f1))).
          { unfold write_manifests in E2. rewrite E2. exact Ha. }
          apply write_manifests_snd in Ha'. congruence.
      + simpl in Hin. left. apply mem_key_true.
        destruct Hin as [<-|Hin].
        * exists d0. split; [left; reflexivity|reflexivity].
        * apply in_map_iff in Hin as [[[t p] c] [<- Hin]]. apply in_map_iff in Hin as [d [Ed Hd]].
          inversion Ed; subst. exists d. split; [right; exact Hd|reflexivity].
  Qed.

  (* C05: an immediate plan is empty *)
  Lemma replan_empty : plan (files w') D (managed_for_plan w' roots flt) = [].
  Proof.
    unfold plan. assert (E : plan_unsorted (files w') D (managed_for_plan w' roots flt) = []); [|rewrite E; reflexivity].
    unfold plan_unsorted. rewrite !flat_map_nil; [reflexivity| |].
    - intros tp Htp. apply (proj1 (dedup_tp_In _ _)) in Htp. unfold plan_managed.
      destruct (managed_after tp Htp) as [Hk|Hn]; [rewrite Hk; reflexivity|].
      destruct (mem_key tp D); [reflexivity|]. rewrite Hn. reflexivity.
    - intros d Hd. unfold plan_desired. rewrite (files_after_desired d Hd).
      rewrite (proj2 (fobj_eqb_eq _ _) eq_refl). reflexivity.
  Qed.

  (* ... and no used root lacks an exact manifest *)
  Lemma manifests_present_from rs : forall i,
    (forall j r, nth_error rs j = Some r -> nth_error roots (i + j) = Some r) ->
    manifests_missing_from i rs roots D (files w') = false.
  Proof.
    induction rs as [|r rs IH]; intros i H; simpl; [reflexivity|]. apply orb_false_iff. split.
    - assert (Hn : nth_error roots i = Some r) by (rewrite <- (Nat.add_0_r i); apply H; reflexivity).
      destruct (existsb (fun d => idx_is (best_root_idx roots (dtarget d) (dpath d)) i) D) eqn:Eu.
      + assert (Hp : is_nil (per_root roots D i r) = false).
        { apply existsb_exists in Eu as [d [Hd Hi]]. unfold per_root.
          destruct (filter _ D) eqn:Ef.
          - exfalso. assert (Hin : In d (filter (fun d => idx_is (best_root_idx roots (dtarget d) (dpath d)) i) D))
              by (apply filter_In; auto). rewrite Ef in Hin. exact Hin.
          - reflexivity. }
        assert (Hmf : files w' (mf_path r) = Some (new_manifest r (per_root roots D i r))).
        { rewrite (files_after_mf i r Hn). unfold should_write. rewrite Hp. simpl. rewrite orb_true_r. reflexivity. }
        unfold read_manifest, chosen_manifest. rewrite Hmf. unfold new_manifest, manifest_usable.
        rewrite N.eqb_refl, str_eqb_refl. cbn [andb]. rewrite entries_same_refl. reflexivity.
      + assert (Hp : per_root roots D i r = []).
        { unfold per_root. assert (Ef : filter (fun d => idx_is (best_root_idx roots (dtarget d) (dpath d)) i) D = []);
            [|rewrite Ef; reflexivity].
          destruct (filter _ D) as [|d l] eqn:Ef; [reflexivity|]. exfalso.
          assert (Hin : In d (filter (fun d => idx_is (best_root_idx roots (dtarget d) (dpath d)) i) D)) by (rewrite Ef; left; reflexivity).
          apply filter_In in Hin as [Hd Hi].
          assert (existsb (fun d => idx_is (best_root_idx roots (dtarget d) (dpath d)) i) D = true)
            by (apply existsb_exists; exists d; auto). congruence. }
        pose proof (files_after_mf i r Hn) as Hmf.
        destruct (should_write (files w) roots D pl i r) eqn:Es.
        * rewrite Hmf, Hp. unfold new_manifest, manifest_usable. rewrite N.eqb_refl, str_eqb_refl. reflexivity.
        * rewrite Hmf. unfold should_write in Es.
          apply orb_false_iff in Es as [Es Hls]. apply orb_false_iff in Es as [Es _]. apply orb_false_iff in Es as [Ex _].
          rewrite <- Hls. apply legacy_stale_ext.
          -- rewrite Hmf. unfold exists_at in Ex. destruct (files w (mf_path r)); [discriminate|reflexivity].
          -- apply files_after_manifest_path; [apply legacy_path_is_manifest|].
             intros r' _ E. symmetry in E. revert E. apply legacy_not_mf.
    - apply IH. intros j r' Hj. replace (S i + j)%nat with (i + S j)%nat by lia. apply H. exact Hj.
  Qed.

  Lemma manifests_present : manifests_missing roots D (files w') = false.
  Proof. apply manifests_present_from. intros j r H. exact H. Qed.

  (* C05: repeating the deploy changes nothing and records no new snapshot *)
  Lemma redeploy_noop st adopt :
    deploy_cmd st true adopt flt w' roots D = ([], (ONoChanges, w')).
  Proof.
    unfold deploy_cmd. rewrite replan_empty. unfold deploy_apply_in.
    rewrite andb_false_r. cbn [has_adopt existsb andb]. rewrite manifests_present. reflexivity.
  Qed.
End After.
