(* Proofs/RankOrderP.v — C19: the ranking does not depend on the order in which the scores arrive. *)
From AP Require Import Base.Str Model.Events Proofs.EventsP.
From Coq Require Import Permutation Sorted.
Open Scope N_scope.

Lemma rank_order_indep l l' :
  Forall bounded l -> NoDup (map sc_id l) -> Permutation l l' -> rank l = rank l'.
Proof.
  intros Hb Hnd Hp. apply rank_unique; [exact Hb|exact Hnd| |].
  - eapply Permutation_trans; [exact Hp|apply rank_perm].
  - apply rank_sorted. eapply Permutation_Forall; eassumption.
Qed.

Lemma rank_idempotent l : Forall bounded l -> NoDup (map sc_id l) -> rank (rank l) = rank l.
Proof.
  intros Hb Hnd. symmetry. apply rank_order_indep; [exact Hb|exact Hnd|apply rank_perm].
Qed.
