(* Proofs/DeployEchoP.v — C04: the plan echoed by deploy is the preview plan of the same state, and a
   deploy adds exactly one snapshot record (earlier records are kept as they are) or changes nothing. *)
From AP Require Import Base.Str Gen.Tables Model.Deploy Proofs.DeployP.
Open Scope N_scope.

Lemma echo_is_preview st confirmed adopt flt w roots D :
  fst (deploy_cmd st confirmed adopt flt w roots D) = plan (files w) D (managed_for_plan w roots flt).
Proof. reflexivity. Qed.

Lemma apply_plan_snaps k w roots D pl :
  exists rec, snaps (apply_plan k w roots D pl) = snaps w ++ [rec] /\ sn_kind rec = k /\
              sn_managed rec = map (fun d => (dtarget d, dpath d, dcontent d)) D /\ sn_to rec = None.
Proof.
  unfold apply_plan. destruct (apply_changes (files w) pl) as [f1 l1].
  destruct (match k with KDeploy | KBootstrap => write_manifests roots D pl f1 | _ => (f1, []) end) as [f2 l2].
  eexists. cbn [snaps]. split; [reflexivity|]. cbn. repeat split; reflexivity.
Qed.

Lemma deploy_snapshots st confirmed adopt flt w roots D pl out w' :
  deploy_cmd st confirmed adopt flt w roots D = (pl, (out, w')) ->
  (out <> OApplied /\ w' = w) \/
  (out = OApplied /\ exists rec, snaps w' = snaps w ++ [rec] /\ sn_kind rec = KDeploy /\
                                 sn_managed rec = map (fun d => (dtarget d, dpath d, dcontent d)) D /\
                                 sn_to rec = None).
Proof.
  unfold deploy_cmd. intros H. inversion H as [[Hpl Hd]]. clear H.
  apply deploy_apply_in_cases in Hd as [[Hx ->]|(-> & -> & _)].
  - left. split; [exact Hx|reflexivity].
  - right. split; [reflexivity|]. apply apply_plan_snaps.
Qed.
