(* Proofs/RenderRootsP.v — C03: dedup_roots leaves exactly one root per (target, path); best_root_for picks
   a deepest containing root; the relpath recorded in its manifest is relative without "..";
   every desired path is inside a declared root. *)
From AP Require Import Base.Str Base.StrFacts Base.PathR Base.PathRFacts Base.Sorting Gen.Tables Model.Render
     Proofs.RenderP Proofs.RenderSafeP.
From Coq Require Import Lia PeanoNat Sorting.Sorted Sorting.Permutation.
Open Scope N_scope.

(* ---------- the order used by dedup_roots ---------- *)

Definition cle (a b : list comp) : bool := match comps_compare a b with Gt => false | _ => true end.

Lemma cle_total a b : cle a b = true \/ cle b a = true.
Proof. unfold cle. rewrite (comps_compare_antisym a b). destruct (comps_compare a b); simpl; auto. Qed.

Lemma cle_trans a b c : cle a b = true -> cle b c = true -> cle a c = true.
Proof.
  unfold cle. intros H1 H2.
  destruct (comps_compare a b) eqn:E1; try discriminate.
  - apply comps_compare_eq in E1. subst b. exact H2.
  - destruct (comps_compare b c) eqn:E2; try discriminate.
    + apply comps_compare_eq in E2. subst c. rewrite E1. reflexivity.
    + rewrite (comps_compare_trans_lt _ _ _ E1 E2). reflexivity.
Qed.

Lemma cle_antisym a b : cle a b = true -> cle b a = true -> a = b.
Proof.
  unfold cle. rewrite (comps_compare_antisym a b). intros H1 H2.
  destruct (comps_compare a b) eqn:E; simpl in *; try discriminate. apply comps_compare_eq in E. exact E.
Qed.

Lemma cle_refl a : cle a a = true.
Proof. unfold cle. assert (E : comps_compare a a = Eq) by (apply comps_compare_eq; reflexivity). rewrite E. reflexivity. Qed.

Lemma root_leb_alt a b :
  root_leb a b = match str_compare (r_target a) (r_target b) with
                 | Lt => true | Gt => false | Eq => cle (components (r_path a)) (components (r_path b)) end.
Proof. reflexivity. Qed.

Lemma root_leb_total a b : root_leb a b = true \/ root_leb b a = true.
Proof.
  rewrite !root_leb_alt. rewrite (str_compare_antisym (r_target a) (r_target b)).
  destruct (str_compare (r_target a) (r_target b)); simpl; auto. apply cle_total.
Qed.

Lemma root_leb_trans a b c : root_leb a b = true -> root_leb b c = true -> root_leb a c = true.
Proof.
  rewrite !root_leb_alt. intros H1 H2.
  destruct (str_compare (r_target a) (r_target b)) eqn:E1; try discriminate.
  - apply str_compare_eq in E1. rewrite E1.
    destruct (str_compare (r_target b) (r_target c)); try discriminate; [|reflexivity].
    eapply cle_trans; eauto.
  - destruct (str_compare (r_target b) (r_target c)) eqn:E2; try discriminate.
    + apply str_compare_eq in E2. rewrite <- E2, E1. reflexivity.
    + rewrite (str_compare_trans_lt _ _ _ E1 E2). reflexivity.
Qed.

Lemma root_leb_antisym a b : root_leb a b = true -> root_leb b a = true -> root_key a = root_key b.
Proof.
  rewrite !root_leb_alt. rewrite (str_compare_antisym (r_target a) (r_target b)). intros H1 H2.
  destruct (str_compare (r_target a) (r_target b)) eqn:E; simpl in *; try discriminate.
  apply str_compare_eq in E. unfold root_key. f_equal; [exact E|apply cle_antisym; assumption].
Qed.

Lemma root_leb_of_key a b : root_key a = root_key b -> root_leb a b = true.
Proof.
  unfold root_key. intros H. inversion H as [[Ht Hc]]. rewrite root_leb_alt, Ht, str_compare_refl, Hc. apply cle_refl.
Qed.

Definition rle (a b : root) : Prop := root_leb a b = true.

(* ---------- dedup ---------- *)

Lemma dedup_from_sub l : forall a x, In x (dedup_from a l) -> In x (a :: l).
Proof.
  induction l as [|b r IH]; intros a x H; simpl in H.
  - exact H.
  - destruct (key_eqb (root_key a) (root_key b)).
    + destruct (IH a x H) as [Hx|Hx]; [left; exact Hx|right; right; exact Hx].
    + destruct H as [H|H]; [left; exact H|right; apply IH; exact H].
Qed.

Lemma dedup_from_repr l : forall a x, In x (a :: l) -> exists r, In r (dedup_from a l) /\ root_key r = root_key x.
Proof.
  induction l as [|b r IH]; intros a x H; simpl.
  - destruct H as [ <- |[]]. exists a. split; [left; reflexivity|reflexivity].
  - destruct (key_eqb (root_key a) (root_key b)) eqn:E.
    + apply key_eqb_eq in E. destruct H as [ <- |[ <- |H]].
      * apply IH. left. reflexivity.
      * destruct (IH a a (or_introl eq_refl)) as [y [Hy Ky]]. exists y. split; [exact Hy|congruence].
      * apply IH. right. exact H.
    + destruct H as [ <- |H].
      * exists a. split; [left; reflexivity|reflexivity].
      * destruct (IH b x H) as [y [Hy Ky]]. exists y. split; [right; exact Hy|exact Ky].
Qed.

Lemma dedup_from_nodup l : forall a, StronglySorted rle (a :: l) -> NoDup (map root_key (dedup_from a l)).
Proof.
  induction l as [|b r IH]; intros a Hs; simpl.
  - constructor; [intros []|constructor].
  - inversion Hs as [|? ? Hs' Hall]; subst. inversion Hall as [|? ? Hab Har]; subst.
    inversion Hs' as [|? ? Hs'' Hbr]; subst.
    destruct (key_eqb (root_key a) (root_key b)) eqn:E.
    + apply IH. constructor; assumption.
    + apply key_eqb_neq in E. simpl. constructor; [|apply IH; exact Hs'].
      intros Hin. apply in_map_iff in Hin as [y [Ky Hy]]. apply dedup_from_sub in Hy.
      assert (Hby : rle b y).
      { destruct Hy as [ <- |Hy]; [apply root_leb_of_key; reflexivity|]. rewrite Forall_forall in Hbr. apply Hbr. exact Hy. }
      assert (Hya : rle y a) by (apply root_leb_of_key; exact Ky).
      apply E. apply root_leb_antisym; [exact Hab|]. eapply root_leb_trans; eauto.
Qed.

Lemma dedup_roots_sub l r : In r (dedup_roots l) -> In r l.
Proof.
  unfold dedup_roots, dedup_by_key. destruct (isort root_leb l) as [|a t] eqn:E; [intros []|].
  intros H. apply dedup_from_sub in H. eapply Permutation_in; [apply Permutation_sym, (isort_perm root_leb)|]. rewrite E. exact H.
Qed.

Lemma dedup_roots_repr l x : In x l -> exists r, In r (dedup_roots l) /\ root_key r = root_key x.
Proof.
  intros H. assert (H' : In x (isort root_leb l)) by (eapply Permutation_in; [apply isort_perm|exact H]).
  unfold dedup_roots, dedup_by_key. destruct (isort root_leb l) as [|a t]; [destruct H'|]. apply dedup_from_repr. exact H'.
Qed.

Lemma dedup_roots_nodup l : NoDup (map root_key (dedup_roots l)).
Proof.
  unfold dedup_roots, dedup_by_key.
  pose proof (isort_sorted root_leb root_leb_total root_leb_trans l) as Hs.
  destruct (isort root_leb l) as [|a t]; [constructor|]. apply dedup_from_nodup. exact Hs.
Qed.

(* ---------- best_root_for ---------- *)

Definition depth (r : root) : nat := length (components (r_path r)).

Lemma last_max_spec l : forall best r, last_max best l = Some r ->
  (best = Some r \/ In r l) /\ (forall b, best = Some b -> (depth b <= depth r)%nat) /\
  (forall x, In x l -> (depth x <= depth r)%nat).
Proof.
  induction l as [|y t IH]; intros best r H; simpl in H.
  - subst best. split; [left; reflexivity|]. split; [intros b Hb; inversion Hb; lia|intros x []].
  - destruct best as [b|].
    + destruct (Nat.leb (length (components (r_path b))) (length (components (r_path y)))) eqn:E.
      * destruct (IH _ _ H) as [Hin [Hb Hall]]. apply Nat.leb_le in E.
        split; [destruct Hin as [Hin|Hin]; [inversion Hin; subst; right; left; reflexivity|right; right; exact Hin]|].
        split.
        -- intros b' Hb'. inversion Hb'; subst b'. specialize (Hb y eq_refl). unfold depth in *. lia.
        -- intros x [ <- |Hx]; [apply Hb; reflexivity|apply Hall; exact Hx].
      * destruct (IH _ _ H) as [Hin [Hb Hall]]. apply Nat.leb_gt in E.
        split; [destruct Hin as [Hin|Hin]; [left; exact Hin|right; right; exact Hin]|].
        split; [exact Hb|]. intros x [ <- |Hx]; [specialize (Hb b eq_refl); unfold depth in *; lia|apply Hall; exact Hx].
    + destruct (IH _ _ H) as [Hin [Hb Hall]].
      split; [destruct Hin as [Hin|Hin]; [inversion Hin; subst; right; left; reflexivity|right; right; exact Hin]|].
      split; [intros b Hb'; discriminate|]. intros x [ <- |Hx]; [apply Hb; reflexivity|apply Hall; exact Hx].
Qed.

Lemma last_max_some l : forall best, (best <> None \/ l <> []) -> last_max best l <> None.
Proof.
  induction l as [|y t IH]; intros best H; simpl.
  - destruct H as [H|H]; [exact H|congruence].
  - destruct best as [b|]; [|apply IH; left; discriminate].
    destruct (Nat.leb _ _); apply IH; left; discriminate.
Qed.

Lemma best_root_spec R k b : best_root_for R k = Some b ->
  In b R /\ contains_path b k = true /\ forall r, In r R -> contains_path r k = true -> (depth r <= depth b)%nat.
Proof.
  unfold best_root_for. intros H. destruct (last_max_spec _ _ _ H) as [[Hn|Hin] [_ Hall]]; [discriminate|].
  apply filter_In in Hin as [Hin Hc]. split; [exact Hin|]. split; [exact Hc|].
  intros r Hr Hcr. apply Hall. apply filter_In. split; assumption.
Qed.

Lemma best_root_exists R k r : In r R -> contains_path r k = true -> best_root_for R k <> None.
Proof.
  intros Hr Hc. unfold best_root_for. apply last_max_some. right.
  intros E. assert (X : In r (filter (fun r => contains_path r k) R)) by (apply filter_In; split; assumption).
  rewrite E in X. destruct X.
Qed.

Lemma root_eqb_refl r : root_eqb r r = true.
Proof. unfold root_eqb. rewrite key_eqb_refl. destruct (r_scan r); reflexivity. Qed.

Lemma index_of_spec R b : forall i j, index_of R b i = Some j ->
  exists r, nth_error R (j - i) = Some r /\ root_eqb r b = true /\ (i <= j)%nat.
Proof.
  induction R as [|y t IH]; intros i j H; simpl in H; [discriminate|].
  destruct (root_eqb y b) eqn:E.
  - inversion H; subst j. exists y. rewrite Nat.sub_diag. split; [reflexivity|]. split; [exact E|lia].
  - destruct (IH _ _ H) as [r [Hn [Hr Hle]]]. exists r.
    replace (j - i)%nat with (S (j - S i)) by lia. split; [exact Hn|]. split; [exact Hr|lia].
Qed.

Lemma index_of_some R b : forall i, In b R -> index_of R b i <> None.
Proof.
  induction R as [|y t IH]; intros i H; simpl; [destruct H|].
  destruct (root_eqb y b) eqn:E; [discriminate|].
  destruct H as [ -> |H]; [rewrite root_eqb_refl in E; discriminate|apply IH; exact H].
Qed.

(* ---------- relpaths ---------- *)

Definition name_nice (n : str) : Prop := n <> [] /\ ~ In 47 n /\ ~ In 92 n /\ n <> dotdot.

Lemma nice_names rest : Forall nice rest -> Forall name_nice (map comp_str rest).
Proof.
  induction 1 as [|c r Hc Hr IH]; simpl; constructor; [|exact IH].
  destruct c; simpl in Hc; try contradiction. exact Hc.
Qed.

Lemma render_rel_safe rest : Forall nice rest ->
  let p := replace_char 92 47 (render_rel rest) in seg_safe p = true /\ ~ In 92 p.
Proof.
  intros Hn. pose proof (nice_names rest Hn) as Hnames. unfold render_rel.
  set (names := map comp_str rest) in *.
  assert (H92 : ~ In 92 (Str.join [47] names)).
  { intros H. apply join_chars in H as [[H|[]]|[n [Hin Hc]]]; [discriminate|].
    rewrite Forall_forall in Hnames. destruct (Hnames n Hin) as [_ [_ [Hb _]]]. contradiction. }
  cbn zeta. rewrite replace_char_id by exact H92. split; [|exact H92].
  destruct names as [|a r] eqn:En; [reflexivity|].
  unfold seg_safe. rewrite split_on_join.
  - rewrite Forall_forall in Hnames. apply andb_true_iff. split.
    + destruct (Hnames a (or_introl eq_refl)) as [Ha [H47 _]].
      destruct (join_head [47] a r Ha) as [t Ht]. rewrite Ht.
      destruct a as [|c a']; [congruence|]. simpl. apply negb_true_iff. apply N.eqb_neq. intros ->. apply H47. left. reflexivity.
    + rewrite forallb_forall. intros n Hin. destruct (Hnames n Hin) as [_ [_ [_ Hdd]]].
      destruct (str_eqb n dotdot) eqn:E; [apply str_eqb_eq in E; contradiction|reflexivity].
  - discriminate.
  - eapply Forall_impl; [|exact Hnames]. intros n Hn'. apply Hn'.
Qed.

(* ---------- the assembled statements ---------- *)

Lemma all_steps_in e ms ts em : In (Emit em) (all_steps e ms ts) -> exists t, In t ts /\ In (Emit em) (snd (adapter e ms t)).
Proof. unfold all_steps. intros H. apply in_flat_map in H. exact H. Qed.

Lemma all_roots_in e ms ts t r : In t ts -> In r (fst (adapter e ms t)) -> In r (all_roots e ms ts).
Proof. intros Ht Hr. unfold all_roots. apply in_flat_map. exists t. split; assumption. Qed.

(* every desired path = <declared root of its target> ++ nice normal components *)
Lemma desired_under_root c e prof filt D R :
  validate_manifest c = None -> env_ok e -> cfg_ok c ->
  render c e prof filt = Ok (D, R) ->
  NoDup (map root_key R) /\
  forall x, In x D -> exists r ns, In r R /\ r_target r = fst (d_key x) /\
                                   snd (d_key x) = components (r_path r) ++ ns /\ Forall nice ns.
Proof.
  intros Hv He Hc Hr. unfold render in Hr.
  destruct (select_modules c prof) as [ms|] eqn:Hs; [|discriminate].
  destruct (selected_targets c filt) as [ts|x] eqn:Ht; [|discriminate].
  destruct (run [] (all_steps e ms ts)) as [D0|x] eqn:Rn; [|discriminate].
  inversion Hr; subst D R. clear Hr. split; [apply dedup_roots_nodup|].
  destruct (run_ok _ _ _ _ inv_nil Rn) as [_ I]. simpl in I.
  intros x Hx. destruct (inv_src _ _ I x Hx) as [em [Hem Hk]].
  apply emits_of_in in Hem. destruct (all_steps_in _ _ _ _ Hem) as [t [Htin Hemt]].
  pose proof (adapter_wf e ms t em He (mods_ok_of c prof ms Hv Hc Hs) Hemt) as Hwf.
  destruct (emit_wf_path _ _ Hwf) as [ns [Hcomp Hnice]].
  destruct Hwf as [_ [[sc Hroot] _]].
  destruct (dedup_roots_repr (all_roots e ms ts) _ (all_roots_in _ _ _ _ _ Htin Hroot)) as [r [Hrin Hrk]].
  unfold root_key in Hrk. simpl in Hrk. injection Hrk as Hrt Hrc.
  exists r, ns. split; [exact Hrin|]. rewrite <- Hk. unfold e_key. simpl.
  split; [exact Hrt|]. split; [rewrite Hrc; exact Hcomp|exact Hnice].
Qed.

Lemma contains_under r k ns : r_target r = fst k -> snd k = components (r_path r) ++ ns -> contains_path r k = true.
Proof.
  intros Ht Hk. unfold contains_path. rewrite Ht, str_eqb_refl, Hk, strip_prefix_c_app. reflexivity.
Qed.

Lemma Forall_nice_normal ns : Forall nice ns -> Forall (fun x => is_normal x = true) ns.
Proof. intros H. eapply Forall_impl; [|exact H]. intros c Hc. apply nice_normal. exact Hc. Qed.

Lemma inside_thm c e prof filt D R :
  validate_manifest c = None -> env_ok e -> cfg_ok c -> render c e prof filt = Ok (D, R) ->
  forall x, In x D -> exists r, In r R /\ r_target r = fst (d_key x) /\
                                inside_c (components (r_path r)) (snd (d_key x)) = true.
Proof.
  intros Hv He Hc Hr x Hx. destruct (desired_under_root _ _ _ _ _ _ Hv He Hc Hr) as [_ H].
  destruct (H x Hx) as [r [ns [Hrin [Ht [Hk Hn]]]]]. exists r. split; [exact Hrin|]. split; [exact Ht|].
  rewrite Hk. apply inside_c_app_normals. apply Forall_nice_normal. exact Hn.
Qed.

Definition entry_safe (p : str) : Prop := seg_safe p = true /\ ~ In 92 p.     (* relative, no "..", no backslash *)

Lemma manifest_entries_thm c e prof filt D R :
  validate_manifest c = None -> env_ok e -> cfg_ok c -> render c e prof filt = Ok (D, R) ->
  forall x b, In x D -> best_root_for R (d_key x) = Some b ->
  exists p, manifest_rel b (d_key x) = Some p /\ entry_safe p.
Proof.
  intros Hv He Hc Hr x b Hx Hb. destruct (desired_under_root _ _ _ _ _ _ Hv He Hc Hr) as [_ H].
  destruct (H x Hx) as [r [ns [Hrin [Ht [Hk Hn]]]]].
  destruct (best_root_spec _ _ _ Hb) as [Hbin [Hbc Hmax]].
  pose proof (Hmax r Hrin (contains_under r (d_key x) ns Ht Hk)) as Hdepth.
  unfold contains_path in Hbc. apply andb_true_iff in Hbc as [_ Hbc].
  unfold manifest_rel. destruct (strip_prefix_c (components (r_path b)) (snd (d_key x))) as [rest|] eqn:Es; [|discriminate].
  rewrite Hk in Es. destruct (strip_prefix_deeper _ _ _ _ Es Hdepth) as [k Hrest].
  eexists. split; [reflexivity|]. apply render_rel_safe. rewrite Hrest. apply Forall_skipn. exact Hn.
Qed.

Lemma one_manifest_thm c e prof filt D R :
  validate_manifest c = None -> env_ok e -> cfg_ok c -> render c e prof filt = Ok (D, R) ->
  NoDup (map root_key R) /\
  forall x, In x D ->
    exists i r p, best_root_index R (d_key x) = Some i /\ nth_error R i = Some r /\
                  manifest_rel r (d_key x) = Some p /\
                  forall j, (exists q, In (d_key x, q) (manifest_entries R D j)) <-> j = i.
Proof.
  intros Hv He Hc Hr. destruct (desired_under_root _ _ _ _ _ _ Hv He Hc Hr) as [Hnd H]. split; [exact Hnd|].
  intros x Hx. destruct (H x Hx) as [r0 [ns [Hrin [Ht [Hk Hn]]]]].
  pose proof (contains_under r0 (d_key x) ns Ht Hk) as Hc0.
  destruct (best_root_for R (d_key x)) as [b|] eqn:Eb; [|exfalso; eapply best_root_exists; eauto].
  destruct (best_root_spec _ _ _ Eb) as [Hbin [Hbc _]].
  destruct (index_of R b 0) as [i|] eqn:Ei; [|exfalso; eapply index_of_some; eauto].
  destruct (index_of_spec _ _ _ _ Ei) as [r [Hnth [Hreq _]]]. rewrite Nat.sub_0_r in Hnth.
  assert (Hbi : best_root_index R (d_key x) = Some i) by (unfold best_root_index; rewrite Eb; exact Ei).
  assert (Hrk : root_key r = root_key b) by (unfold root_eqb in Hreq; apply andb_true_iff in Hreq as [Hq _]; apply key_eqb_eq; exact Hq).
  assert (Hrel : exists p, manifest_rel r (d_key x) = Some p).
  { unfold manifest_rel. unfold root_key in Hrk. injection Hrk as _ Hcomp. rewrite Hcomp.
    unfold contains_path in Hbc. apply andb_true_iff in Hbc as [_ Hbc].
    destruct (strip_prefix_c (components (r_path b)) (snd (d_key x))); [eexists; reflexivity|discriminate]. }
  destruct Hrel as [p Hp]. exists i, r, p. split; [exact Hbi|]. split; [exact Hnth|]. split; [exact Hp|].
  intros j. split.
  - intros [q Hq]. unfold manifest_entries in Hq. apply in_flat_map in Hq as [y [Hy Hq]].
    destruct (best_root_index R (d_key y)) as [j'|] eqn:Ej; [|destruct Hq].
    destruct (Nat.eqb j j') eqn:Ejj; [|destruct Hq]. apply Nat.eqb_eq in Ejj. subst j'.
    destruct (nth_error R j) as [rj|]; [|destruct Hq].
    destruct (manifest_rel rj (d_key y)) as [pj|]; [|destruct Hq].
    destruct Hq as [Hq|[]]. injection Hq as Hkey _. rewrite Hkey in Ej. congruence.
  - intros ->. exists p. unfold manifest_entries. apply in_flat_map. exists x. split; [exact Hx|].
    rewrite Hbi, Nat.eqb_refl, Hnth, Hp. left. reflexivity.
Qed.
