(* Proofs/PolicyUrlP.v — lemmas about Model/PolicyUrl.v (C20, git-remote allowlist). *)
From AP Require Import Base.Str Base.StrFacts Model.PolicyUrl.
From Coq Require Import Lia ZifyBool.
Open Scope N_scope.
Arguments N.add : simpl never.
Arguments N.sub : simpl never.
Arguments N.eqb : simpl never.
Arguments N.ltb : simpl never.
Arguments N.leb : simpl never.

(* ------------------------------------------------------------------ generalities *)

Lemma bool_eq_iff (a b : bool) : (a = true <-> b = true) -> a = b.
Proof. destruct a, b; intros [H1 H2]; auto; try (symmetry; auto); exfalso; try (specialize (H1 eq_refl); discriminate); specialize (H2 eq_refl); discriminate. Qed.

Lemma mem_char_In c x : mem_char c x = true <-> In c x.
Proof.
  unfold mem_char. rewrite existsb_exists. split.
  - intros [y [Hy E]]. apply N.eqb_eq in E. subst. exact Hy.
  - intros H. exists c. split; [exact H|apply N.eqb_refl].
Qed.

Lemma mem_char_false c x : mem_char c x = false <-> ~ In c x.
Proof.
  rewrite <- mem_char_In. destruct (mem_char c x); split; intros H.
  - discriminate.
  - exfalso. apply H. reflexivity.
  - discriminate.
  - reflexivity.
Qed.

Lemma mem_char_app c x y : mem_char c (x ++ y) = mem_char c x || mem_char c y.
Proof. unfold mem_char. apply existsb_app. Qed.

Lemma mem_str_In a l : mem_str a l = true <-> In a l.
Proof.
  induction l as [|b l IH]; simpl; [split; [discriminate|tauto]|].
  rewrite orb_true_iff, IH, str_eqb_eq. split; intros [H|H]; auto.
Qed.

Lemma take_drop f (x : str) : x = take_chars f x ++ drop_while f x.
Proof. induction x as [|c r IH]; [reflexivity|]. simpl. destruct (f c); [simpl; f_equal; exact IH|reflexivity]. Qed.

Lemma take_chars_all f (x : str) : forallb f (take_chars f x) = true.
Proof. induction x as [|c r IH]; [reflexivity|]. simpl. destruct (f c) eqn:E; [simpl; rewrite E; exact IH|reflexivity]. Qed.

Lemma drop_while_head f (x : str) : drop_while f x = [] \/ exists c r, drop_while f x = c :: r /\ f c = false.
Proof.
  induction x as [|c r IH]; [left; reflexivity|]. simpl. destruct (f c) eqn:E; [exact IH|].
  right. exists c, r. split; [reflexivity|exact E].
Qed.

Lemma take_chars_app_stop f (a : str) c r : forallb f a = true -> f c = false ->
  take_chars f (a ++ c :: r) = a /\ drop_while f (a ++ c :: r) = c :: r.
Proof.
  intros Ha Hc. induction a as [|x a IH]; simpl in *; [rewrite Hc; split; reflexivity|].
  apply andb_true_iff in Ha as [Hx Ha]. rewrite Hx. destruct (IH Ha) as [-> ->]. split; reflexivity.
Qed.

Lemma take_chars_all_id f (a : str) : forallb f a = true -> take_chars f a = a /\ drop_while f a = [].
Proof.
  induction a as [|x a IH]; [split; reflexivity|]. simpl. intros H. apply andb_true_iff in H as [Hx Ha].
  rewrite Hx. destruct (IH Ha) as [-> ->]. split; reflexivity.
Qed.

Lemma starts_with_iff p : forall x, starts_with p x = true <-> exists r, x = p ++ r.
Proof.
  induction p as [|a p IH]; intros x; simpl.
  - split; [intros _; exists x; reflexivity|reflexivity].
  - destruct x as [|b x]; [split; [discriminate|intros [r H]; discriminate]|].
    rewrite andb_true_iff, N.eqb_eq, IH. split.
    + intros [-> [r ->]]. exists r. reflexivity.
    + intros [r H]. injection H as -> ->. split; [reflexivity|exists r; reflexivity].
Qed.

Lemma ends_with_iff p x : ends_with p x = true <-> exists a, x = a ++ p.
Proof.
  unfold ends_with. rewrite starts_with_iff. split.
  - intros [r H]. exists (rev r). rewrite <- (rev_involutive x), H, rev_app_distr, rev_involutive. reflexivity.
  - intros [a ->]. exists (rev a). apply rev_app_distr.
Qed.

Lemma strip_prefix_eq p : forall x r, strip_prefix p x = Some r -> x = p ++ r.
Proof.
  induction p as [|a p IH]; intros x r; simpl; [intros H; injection H as ->; reflexivity|].
  destruct x as [|b x]; [discriminate|]. destruct (a =? b) eqn:E; [|discriminate].
  apply N.eqb_eq in E. subst. intros H. f_equal. apply IH. exact H.
Qed.

Lemma strip_prefix_app p r : strip_prefix p (p ++ r) = Some r.
Proof. induction p as [|a p IH]; [reflexivity|]. simpl. rewrite N.eqb_refl. exact IH. Qed.

(* ------------------------------------------------------------------ lower-casing *)

Definition is_special (c : N) : bool := (c =? 47) || (c =? 58) || (c =? 64) || (c =? 63) || (c =? 35).

Lemma lower_char_small c : c < 65 -> lower_char c = [c].
Proof.
  intros H. unfold lower_char.
  replace ((65 <=? c) && (c <=? 90)) with false by lia.
  replace (c <? 192) with true by lia. reflexivity.
Qed.

Lemma special_small c : is_special c = true -> c < 65.
Proof. unfold is_special. rewrite !orb_true_iff, !N.eqb_eq. lia. Qed.

Lemma lower_char_special c : is_special c = true -> lower_char c = [c].
Proof. intros H. apply lower_char_small, special_small, H. Qed.

Lemma lower_char_reflects c d : In d (lower_char c) -> d < 65 -> c = d.
Proof.
  unfold lower_char.
  destruct ((65 <=? c) && (c <=? 90)) eqn:E1; [intros [<-|[]]; lia|].
  destruct (c <? 192) eqn:E2; [intros [<-|[]]; reflexivity|].
  destruct ((c <=? 222) && negb (c =? 215)) eqn:E3; [intros [<-|[]]; lia|].
  destruct (c =? 304) eqn:E4; [intros [<-|[<-|[]]]; lia|].
  destruct ((913 <=? c) && (c <=? 939) && negb (c =? 930)) eqn:E5; [intros [<-|[]]; lia|].
  destruct ((1024 <=? c) && (c <=? 1039)) eqn:E6; [intros [<-|[]]; lia|].
  destruct ((1040 <=? c) && (c <=? 1071)) eqn:E7; [intros [<-|[]]; lia|].
  destruct (c =? 8486) eqn:E8; [intros [<-|[]]; lia|].
  destruct (c =? 8490) eqn:E9; [intros [<-|[]]; lia|].
  destruct (c =? 8491) eqn:E10; [intros [<-|[]]; lia|].
  intros [<-|[]]; reflexivity.
Qed.

Lemma lower_char_nonempty c : lower_char c <> [].
Proof.
  unfold lower_char.
  repeat match goal with |- context [if ?b then _ else _] => destruct b end; discriminate.
Qed.

Lemma to_lower_app x y : to_lower (x ++ y) = to_lower x ++ to_lower y.
Proof. unfold to_lower. apply flat_map_app. Qed.

Lemma to_lower_nil_iff x : to_lower x = [] <-> x = [].
Proof.
  split; [|intros ->; reflexivity]. destruct x as [|c r]; [reflexivity|].
  unfold to_lower. cbn [flat_map]. intros H. apply app_eq_nil in H as [H _]. exfalso. exact (lower_char_nonempty c H).
Qed.

Lemma to_lower_In_small d x : d < 65 -> (In d (to_lower x) <-> In d x).
Proof.
  intros Hd. unfold to_lower. rewrite in_flat_map. split.
  - intros (c & Hc & Hin). rewrite <- (lower_char_reflects c d Hin Hd). exact Hc.
  - intros H. exists d. split; [exact H|]. rewrite (lower_char_small d Hd). left. reflexivity.
Qed.

Lemma to_lower_cons_small c r : c < 65 -> to_lower (c :: r) = c :: to_lower r.
Proof. intros H. unfold to_lower. cbn [flat_map]. rewrite (lower_char_small c H). reflexivity. Qed.

(* split_pred commutes with lower-casing when the delimiters are small (non-letters) *)
Lemma split_pred_nonnil f x : split_pred f x <> [].
Proof. induction x as [|a r IH]; simpl; [discriminate|]. destruct (f a); [discriminate|]. destruct (split_pred f r); discriminate. Qed.

Lemma split_pred_app_nodelim f a x : forallb (fun c => negb (f c)) a = true ->
  split_pred f (a ++ x) = match split_pred f x with h :: t => (a ++ h) :: t | [] => [a] end.
Proof.
  induction a as [|c a IH]; intros H; simpl in *.
  - destruct (split_pred f x) eqn:E; [exfalso; eapply split_pred_nonnil; eauto|reflexivity].
  - apply andb_true_iff in H as [Hc Ha]. apply negb_true_iff in Hc. rewrite Hc, (IH Ha).
    destruct (split_pred f x); reflexivity.
Qed.

Lemma split_pred_lower f x :
  (forall c, f c = true -> c < 65) ->
  split_pred f (to_lower x) = map to_lower (split_pred f x).
Proof.
  intros Hf. induction x as [|c r IH]; [reflexivity|].
  cbn [split_pred]. destruct (f c) eqn:E.
  - rewrite (to_lower_cons_small c r (Hf c E)). cbn [split_pred map]. rewrite E, IH. reflexivity.
  - change (to_lower (c :: r)) with (lower_char c ++ to_lower r).
    rewrite split_pred_app_nodelim.
    + rewrite IH. destruct (split_pred f r) as [|h t] eqn:Er; [exfalso; eapply split_pred_nonnil; eauto|].
      cbn [map]. reflexivity.
    + apply forallb_forall. intros d Hd. apply negb_true_iff.
      destruct (f d) eqn:Ed; [|reflexivity]. rewrite <- (lower_char_reflects c d Hd (Hf d Ed)) in Ed. congruence.
Qed.

(* ------------------------------------------------------------------ the matcher *)

Definition slash_led (x : str) : Prop := x = [] \/ exists r, x = 47 :: r.

Lemma matches_inv r al : matches r al = true ->
  al <> [] /\ existsb is_dot_segment (split_pred is_seg_delim r) = false /\
  exists q, r = al ++ q /\ (q = [] \/ ends_with [47] al = true \/ slash_led q).
Proof.
  unfold matches. destruct al as [|a0 al0]; [cbn; discriminate|]. cbn [is_empty].
  set (al := a0 :: al0).
  destruct (existsb is_dot_segment (split_pred is_seg_delim r)); [discriminate|].
  intros H. split; [discriminate|]. split; [reflexivity|].
  destruct (str_eqb r al) eqn:E1.
  - apply str_eqb_eq in E1. exists []. rewrite app_nil_r. split; [exact E1|left; reflexivity].
  - destruct (starts_with al r) eqn:E2; [|discriminate]. cbn [negb] in H.
    apply starts_with_iff in E2 as [q Hq]. exists q. split; [exact Hq|].
    destruct (ends_with [47] al); [right; left; reflexivity|].
    right. right. subst r. rewrite nth_error_app2 in H by lia. replace (length al - length al)%nat with 0%nat in H by lia.
    destruct q as [|c q']; [discriminate|]. cbn [nth_error] in H.
    destruct (N.eq_dec c 47) as [->|Hc]; [right; exists q'; reflexivity|].
    exfalso. destruct c as [|p]; [discriminate|].
    destruct p as [p|p|]; try discriminate; repeat (destruct p as [p|p|]; try discriminate); congruence.
Qed.

Lemma token_unique : forall A B C D : str,
  A ++ B = C ++ D -> ~ In 47 A -> ~ In 47 C -> slash_led B -> slash_led D -> A = C /\ B = D.
Proof.
  induction A as [|a A IH]; intros B C D E HA HC HB HD.
  - destruct C as [|c C]; [split; [reflexivity|exact E]|]. exfalso. simpl in E.
    destruct HB as [->|[r ->]]; [discriminate|]. injection E as <- _. apply HC. left. reflexivity.
  - destruct C as [|c C].
    + exfalso. simpl in E. destruct HD as [->|[r ->]]; [discriminate|]. injection E as -> _. apply HA. left. reflexivity.
    + simpl in E. injection E as -> E. destruct (IH B C D E) as [-> ->]; auto.
      * intros H. apply HA. right. exact H.
      * intros H. apply HC. right. exact H.
Qed.

(* segments: the non-empty pieces between delimiters *)
Definition nonempty (p : str) : bool := negb (is_empty p).
Definition segs (f : N -> bool) (x : str) : list str := filter nonempty (split_pred f x).

Lemma split_pred_app_delim f a c x : f c = true ->
  split_pred f (a ++ c :: x) = split_pred f a ++ split_pred f x.
Proof.
  intros Hc. induction a as [|d a IH]; simpl.
  - rewrite Hc. reflexivity.
  - destruct (f d); [rewrite IH; reflexivity|]. rewrite IH.
    destruct (split_pred f a) eqn:E; [exfalso; eapply split_pred_nonnil; eauto|reflexivity].
Qed.

Lemma segs_app_delim f a c x : f c = true -> segs f (a ++ c :: x) = segs f a ++ segs f x.
Proof. intros Hc. unfold segs. rewrite (split_pred_app_delim f a c x Hc). apply filter_app. Qed.

Lemma segs_snoc_delim f a c : f c = true -> segs f (a ++ [c]) = segs f a.
Proof. intros Hc. rewrite (segs_app_delim f a c [] Hc). unfold segs. simpl. apply app_nil_r. Qed.

Lemma is_prefix_app a b : is_prefix a (a ++ b) = true.
Proof. induction a as [|x a IH]; [reflexivity|]. simpl. rewrite str_eqb_refl. exact IH. Qed.

Lemma is_prefix_refl a : is_prefix a a = true.
Proof. rewrite <- (app_nil_r a) at 2. apply is_prefix_app. Qed.

Lemma segs_prefix f P q : f 47 = true ->
  (q = [] \/ ends_with [47] P = true \/ slash_led q) ->
  is_prefix (segs f P) (segs f (P ++ q)) = true.
Proof.
  intros Hf [->|[H|[->|[q' ->]]]].
  - rewrite app_nil_r. apply is_prefix_refl.
  - apply ends_with_iff in H as [P0 ->]. rewrite (segs_snoc_delim f P0 47 Hf).
    rewrite <- app_assoc. cbn [app]. rewrite (segs_app_delim f P0 47 q Hf). apply is_prefix_app.
  - rewrite app_nil_r. apply is_prefix_refl.
  - rewrite (segs_app_delim f P 47 q' Hf). apply is_prefix_app.
Qed.

Lemma delim_small c : is_seg_delim c = true -> c < 65.
Proof. unfold is_seg_delim. rewrite !orb_true_iff, !N.eqb_eq. lia. Qed.

Lemma segs_lower x : segs is_seg_delim (to_lower x) = map to_lower (segs is_seg_delim x).
Proof.
  unfold segs. rewrite (split_pred_lower is_seg_delim x delim_small).
  induction (split_pred is_seg_delim x) as [|p l IH]; [reflexivity|]. cbn [map filter].
  assert (E : nonempty (to_lower p) = nonempty p).
  { unfold nonempty. destruct p as [|c p]; [reflexivity|]. destruct (to_lower (c :: p)) eqn:T; [|reflexivity].
    apply (proj1 (to_lower_nil_iff _)) in T. discriminate T. }
  rewrite E. destruct (nonempty p); cbn [map]; rewrite IH; reflexivity.
Qed.

(* every reference spelling of a dot segment lower-cases to one the matcher rejects *)
Lemma ref_dot_rejected sg : ref_is_dot sg = true -> is_dot_segment (to_lower sg) = true.
Proof.
  unfold ref_is_dot. rewrite mem_str_In. intros H.
  assert (A : forallb (fun x => is_dot_segment (to_lower x)) ref_dot_spellings = true) by (vm_compute; reflexivity).
  rewrite forallb_forall in A. exact (A sg H).
Qed.

Lemma existsb_false_In {A} (f : A -> bool) l x : existsb f l = false -> In x l -> f x = false.
Proof.
  intros H Hx. destruct (f x) eqn:E; [|reflexivity].
  assert (existsb f l = true) by (apply existsb_exists; exists x; auto). congruence.
Qed.

(* ------------------------------------------------------------------ the core argument *)

Definition special_free (x : str) : bool := forallb (fun c => negb (is_special c)) x.
Definition delim_led (x : str) : Prop := x = [] \/ exists c r, x = c :: r /\ is_seg_delim c = true.

Lemma special_free_not_in x c : special_free x = true -> is_special c = true -> ~ In c x.
Proof.
  unfold special_free. rewrite forallb_forall. intros H Hc Hin. specialize (H c Hin). rewrite Hc in H. discriminate.
Qed.

Lemma special_free_lower x : special_free (to_lower x) = special_free x.
Proof.
  apply bool_eq_iff. unfold special_free. rewrite !forallb_forall. split; intros H c Hc.
  - destruct (is_special c) eqn:E; [|reflexivity]. exfalso.
    assert (Hin : In c (to_lower x)) by (apply to_lower_In_small; [apply special_small, E|exact Hc]).
    specialize (H c Hin). rewrite E in H. discriminate.
  - destruct (is_special c) eqn:E; [|reflexivity]. exfalso.
    assert (Hin : In c x) by (apply (to_lower_In_small c x (special_small c E)); exact Hc).
    specialize (H c Hin). rewrite E in H. discriminate.
Qed.

Lemma slash_led_lower x : slash_led x -> slash_led (to_lower x).
Proof. intros [->|[r ->]]; [left; reflexivity|right]. exists (to_lower r). apply to_lower_cons_small. lia. Qed.

Lemma ends_with_app_nonempty (H P : str) : P <> [] -> ends_with [47] (H ++ P) = ends_with [47] P.
Proof.
  intros HP. unfold ends_with. rewrite rev_app_distr.
  destruct (rev P) as [|c r] eqn:E.
  - exfalso. apply HP. rewrite <- (rev_involutive P), E. reflexivity.
  - reflexivity.
Qed.

Lemma not_slash_take (x : str) : ~ In 47 (take_chars not_slash x).
Proof.
  intros H. pose proof (take_chars_all not_slash x) as A. rewrite forallb_forall in A.
  specialize (A 47 H). discriminate.
Qed.

Lemma not_slash_drop (x : str) : slash_led (drop_while not_slash x).
Proof.
  destruct (drop_while_head not_slash x) as [->|(c & r & -> & Hc)]; [left; reflexivity|].
  right. exists r. unfold not_slash in Hc. apply negb_false_iff, N.eqb_eq in Hc. subst. reflexivity.
Qed.

Lemma core_no_match T R ca h p :
  ~ In 47 T -> slash_led R -> In 58 T ->
  ca = h ++ p -> h <> [] -> special_free h = true -> slash_led p ->
  matches (to_lower (T ++ R)) (to_lower ca) = false.
Proof.
  intros HT HR H58 -> Hh Hsf Hp. destruct (matches _ _) eqn:M; [|reflexivity]. exfalso.
  apply matches_inv in M as (_ & _ & q & E & Hq).
  rewrite !to_lower_app, <- app_assoc in E.
  assert (Hr' : slash_led (to_lower p ++ q)).
  { destruct Hp as [->|[p' ->]].
    - cbn [to_lower flat_map app]. destruct Hq as [->|[Hq|Hq]]; [left; reflexivity| |exact Hq].
      exfalso. rewrite app_nil_r in Hq. apply ends_with_iff in Hq as [a Ha].
      apply (special_free_not_in (to_lower h) 47); [rewrite special_free_lower; exact Hsf|reflexivity|].
      rewrite Ha. apply in_or_app. right. left. reflexivity.
    - right. exists (to_lower p' ++ q). rewrite (to_lower_cons_small 47 p') by lia. reflexivity. }
  destruct (token_unique (to_lower T) (to_lower R) (to_lower h) (to_lower p ++ q) E) as [E1 _].
  - intros H. apply HT. apply (to_lower_In_small 47 T); [lia|exact H].
  - apply (special_free_not_in (to_lower h) 47); [rewrite special_free_lower; exact Hsf|reflexivity].
  - apply slash_led_lower. exact HR.
  - exact Hr'.
  - apply (special_free_not_in (to_lower h) 58); [rewrite special_free_lower; exact Hsf|reflexivity|].
    rewrite <- E1. apply to_lower_In_small; [lia|exact H58].
Qed.

Lemma core_match X pu ca h p :
  ~ In 47 X -> delim_led pu ->
  ca = h ++ p -> h <> [] -> special_free h = true -> slash_led p -> ~ In 63 p -> ~ In 35 p ->
  matches (to_lower (X ++ pu)) (to_lower ca) = true ->
  to_lower X = to_lower h /\ special_free X = true /\ slash_led pu /\
  is_prefix (map to_lower (segs is_seg_delim p)) (map to_lower (segs is_seg_delim pu)) = true /\
  existsb ref_is_dot (segs is_seg_delim pu) = false.
Proof.
  intros HX Hpu -> Hh Hsf Hp H63 H35 M.
  apply matches_inv in M as (_ & Hdots & q & E & Hq).
  rewrite !to_lower_app in E. rewrite to_lower_app in Hdots. rewrite <- app_assoc in E.
  pose proof (special_free_lower h) as HsfL. rewrite Hsf in HsfL.
  assert (Hr' : slash_led (to_lower p ++ q)).
  { destruct Hp as [->|[p' ->]].
    - cbn [to_lower flat_map app]. destruct Hq as [->|[Hq|Hq]]; [left; reflexivity| |exact Hq].
      exfalso. rewrite app_nil_r in Hq. apply ends_with_iff in Hq as [a Ha].
      apply (special_free_not_in (to_lower h) 47 HsfL); [reflexivity|].
      rewrite Ha. apply in_or_app. right. left. reflexivity.
    - right. exists (to_lower p' ++ q). rewrite (to_lower_cons_small 47 p') by lia. reflexivity. }
  (* split the remote's path at its first slash *)
  set (Q := take_chars not_slash pu). set (P' := drop_while not_slash pu).
  assert (Epu : pu = Q ++ P') by apply take_drop.
  rewrite Epu in E. rewrite to_lower_app, app_assoc in E.
  destruct (token_unique (to_lower X ++ to_lower Q) (to_lower P') (to_lower h) (to_lower p ++ q) E) as [E1 E2].
  - intros H. apply in_app_or in H as [H|H].
    + apply HX. apply (to_lower_In_small 47 X); [lia|exact H].
    + apply (not_slash_take pu). apply (to_lower_In_small 47 Q); [lia|exact H].
  - apply (special_free_not_in (to_lower h) 47 HsfL). reflexivity.
  - apply slash_led_lower. apply not_slash_drop.
  - exact Hr'.
  - (* the token is special-free, so the path starts with a slash *)
    assert (HQ : Q = []).
    { destruct Hpu as [Hpu|(c & r & Hpu & Hc)].
      - subst Q. rewrite Hpu. reflexivity.
      - destruct (c =? 47) eqn:E47.
        + apply N.eqb_eq in E47. subst Q. rewrite Hpu. subst c. reflexivity.
        + exfalso. assert (Hsp : is_special c = true).
          { unfold is_seg_delim in Hc. unfold is_special. rewrite E47 in Hc |- *. cbn [orb] in Hc |- *.
            apply orb_true_iff in Hc as [Hc|Hc]; rewrite Hc; rewrite ?orb_true_r; reflexivity. }
          apply (special_free_not_in (to_lower h) c HsfL Hsp).
          rewrite <- E1. apply in_or_app. right.
          apply to_lower_In_small; [apply special_small, Hsp|].
          subst Q. rewrite Hpu. cbn [take_chars]. unfold not_slash at 1. rewrite E47. left. reflexivity. }
    rewrite HQ in E1, Epu. cbn [to_lower flat_map] in E1. rewrite app_nil_r in E1. cbn [app] in Epu.
    assert (HsX : special_free X = true) by (rewrite <- special_free_lower, E1; exact HsfL).
    assert (Hled : slash_led pu) by (rewrite Epu; apply not_slash_drop).
    split; [exact E1|]. split; [exact HsX|]. split; [exact Hled|]. rewrite <- Epu in E2. split.
    + rewrite <- !segs_lower, E2.
      destruct (to_lower p) as [|c0 P0] eqn:EP.
      * reflexivity.
      * apply segs_prefix; [reflexivity|].
        destruct Hq as [Hq|[Hq|Hq]]; [left; exact Hq| |right; right; exact Hq].
        right. left. rewrite <- Hq. symmetry. rewrite <- EP. rewrite to_lower_app in Hq |- *. apply ends_with_app_nonempty.
        rewrite EP. discriminate.
    + destruct (existsb ref_is_dot (segs is_seg_delim pu)) eqn:D; [|reflexivity]. exfalso.
      apply existsb_exists in D as (sg & Hsg & Hdot). unfold segs in Hsg. apply filter_In in Hsg as [Hsg Hne].
      destruct Hled as [Hnil|[pu' Hpu']]; [rewrite Hnil in Hsg; destruct Hsg as [<-|[]]; discriminate|].
      rewrite Hpu' in Hsg, Hdots. cbn [split_pred] in Hsg. change (is_seg_delim 47) with true in Hsg. cbv iota in Hsg.
      destruct Hsg as [<-|Hsg]; [discriminate|].
      rewrite (to_lower_cons_small 47 pu') in Hdots by lia.
      rewrite (split_pred_app_delim is_seg_delim (to_lower X) 47 (to_lower pu') eq_refl) in Hdots.
      rewrite existsb_app in Hdots. apply orb_false_iff in Hdots as [_ Hdots].
      rewrite (split_pred_lower is_seg_delim pu' delim_small) in Hdots.
      assert (Hin : In (to_lower sg) (map to_lower (split_pred is_seg_delim pu'))) by (apply in_map; exact Hsg).
      pose proof (ref_dot_rejected sg Hdot) as Hr. rewrite (existsb_false_In _ _ _ Hdots Hin) in Hr. discriminate.
Qed.

(* ------------------------------------------------------------------ the two parsers, form by form *)

Definition ne58 (c : N) : bool := negb (c =? 58).

Definition ref_parse_t (t : str) : option ref_url :=
  match ref_split_scheme t with
  | Some (sc, rest) =>
    let stop := if is_ssh_scheme sc then not_slash else not_delim in
    ref_authority FUrl sc (take_chars stop rest) (drop_while stop rest)
  | None =>
    let head := take_chars ne58 t in
    match drop_while ne58 t with
    | _ :: path =>
      if mem_char 47 head then
        ref_authority FBare [] (take_chars not_delim t) (drop_while not_delim t)
      else
        match ref_authority FScp [] head (47 :: path) with
        | Some d => match r_port d with None => Some d | Some _ => None end
        | None => None
        end
    | [] => ref_authority FBare [] (take_chars not_delim t) (drop_while not_delim t)
    end
  end.

Lemma ref_parse_unfold u : ref_parse u = ref_parse_t (pre_url u).
Proof. reflexivity. Qed.

Definition trim_slash (x : str) : str := trim_start_matches (N.eqb 47) x.

Lemma normalize_unfold u : normalize u = to_lower (trim_slash (normalize_core (pre_url u))).
Proof. reflexivity. Qed.

Lemma trim_slash_id x : ~ In 47 (firstn 1 x) -> trim_slash x = x.
Proof.
  destruct x as [|c r]; [reflexivity|]. cbn [firstn]. intros H.
  unfold trim_slash, trim_start_matches. cbn [drop_while].
  destruct (47 =? c) eqn:E; [|reflexivity]. apply N.eqb_eq in E. subst. exfalso. apply H. left. reflexivity.
Qed.

Lemma trim_slash_app A R : A <> [] -> ~ In 47 A -> trim_slash (A ++ R) = A ++ R.
Proof.
  intros HA H47. apply trim_slash_id. destruct A as [|c A]; [contradiction|]. cbn [app firstn].
  intros [E|[]]. apply H47. left. exact E.
Qed.

(* after_last / before_last *)
Lemma after_last_none c x : ~ In c x -> after_last c x = x /\ before_last c x = None.
Proof.
  induction x as [|a r IH]; [split; reflexivity|]. intros H.
  assert (Hr : ~ In c r) by (intros H'; apply H; right; exact H').
  assert (Ha : (a =? c) = false) by (apply N.eqb_neq; intros ->; apply H; left; reflexivity).
  destruct (IH Hr) as [IH1 IH2]. cbn [after_last before_last].
  rewrite (proj2 (mem_char_false c r) Hr), Ha, IH2. split; reflexivity.
Qed.

Lemma after_last_no_c c x : ~ In c (after_last c x).
Proof.
  induction x as [|a r IH]; [exact (fun H => H)|]. cbn [after_last].
  destruct (mem_char c r) eqn:M; [exact IH|].
  apply mem_char_false in M. destruct (a =? c) eqn:E; [exact M|].
  intros [H|H]; [apply N.eqb_neq in E; congruence|exact (M H)].
Qed.

Lemma before_last_some c x b : before_last c x = Some b -> x = b ++ c :: after_last c x.
Proof.
  revert b. induction x as [|a r IH]; intros b; [discriminate|]. cbn [before_last after_last].
  destruct (before_last c r) as [h|] eqn:B.
  - intros H. injection H as <-. 
    assert (M : mem_char c r = true).
    { apply mem_char_In. rewrite (IH h eq_refl). apply in_or_app. right. left. reflexivity. }
    rewrite M. cbn [app]. f_equal. apply IH. reflexivity.
  - destruct (a =? c) eqn:E; [|discriminate]. intros H. injection H as <-.
    apply N.eqb_eq in E. subst a.
    assert (M : mem_char c r = false).
    { apply mem_char_false. intros Hin. clear IH. induction r as [|y r IHr]; [contradiction|].
      cbn [before_last] in B. destruct (before_last c r) eqn:B'; [discriminate|].
      destruct (y =? c) eqn:Ey; [discriminate|]. destruct Hin as [->|Hin]; [rewrite N.eqb_refl in Ey; discriminate|].
      exact (IHr eq_refl Hin). }
    rewrite M. reflexivity.
Qed.

Lemma after_last_suffix c x : exists a, x = a ++ after_last c x.
Proof.
  induction x as [|y r [a IH]]; [exists []; reflexivity|]. cbn [after_last].
  destruct (mem_char c r); [exists (y :: a); cbn [app]; f_equal; exact IH|].
  destruct (y =? c); [exists [y]; reflexivity|exists []; reflexivity].
Qed.

(* what ref_authority returns *)
Lemma ref_authority_some form sc A R d : ref_authority form sc A R = Some d ->
  r_form d = form /\ r_scheme d = sc /\ r_path d = R /\ r_userinfo d = before_last 64 A /\
  r_host d = take_chars ne58 (after_last 64 A) /\ r_host d <> [] /\
  r_port d = match drop_while ne58 (after_last 64 A) with _ :: p => Some p | [] => None end.
Proof.
  unfold ref_authority. fold ne58.
  destruct (take_chars ne58 (after_last 64 A)) as [|h0 h] eqn:Eh; [discriminate|].
  destruct (drop_while ne58 (after_last 64 A)) as [|c p] eqn:Ep.
  - intros H. injection H as <-. cbn. repeat split; discriminate.
  - destruct (forallb is_ascii_digit p); [|discriminate]. intros H. injection H as <-. cbn. repeat split; discriminate.
Qed.

Lemma ne58_all_of_not_in x : ~ In 58 x -> forallb ne58 x = true.
Proof.
  intros H. apply forallb_forall. intros c Hc. unfold ne58. apply negb_true_iff, N.eqb_neq. intros ->. exact (H Hc).
Qed.

(* an authority free of '@' and ':' is its own host *)
Lemma authority_plain form sc A R d : ref_authority form sc A R = Some d ->
  ~ In 64 A -> ~ In 58 A -> r_host d = A /\ r_port d = None /\ r_userinfo d = None.
Proof.
  intros H H64 H58. apply ref_authority_some in H as (_ & _ & _ & Hu & Hh & _ & Hp).
  destruct (after_last_none 64 A H64) as [E1 E2]. rewrite E1 in Hh, Hp. rewrite E2 in Hu.
  destruct (take_chars_all_id ne58 A (ne58_all_of_not_in A H58)) as [T D]. rewrite T in Hh. rewrite D in Hp.
  auto.
Qed.

Lemma special_free_no x c : special_free x = true -> is_special c = true -> ~ In c x.
Proof. apply special_free_not_in. Qed.

Definition user_ok (d : ref_url) : Prop :=
  match r_userinfo d with
  | None => True
  | Some _ => match r_form d with FUrl => is_ssh_scheme (r_scheme d) = true | _ => True end
  end.

(* how the text X that the normaliser keeps in front of the path relates to the authority A the
   reference reads *)
Inductive xrel (X A : str) (d : ref_url) : Prop :=
| XSame : X = A -> r_form d <> FScp -> (r_form d = FUrl -> is_ssh_scheme (r_scheme d) = false) -> xrel X A d
| XSsh : X = after_last 64 A -> r_form d = FUrl -> is_ssh_scheme (r_scheme d) = true -> xrel X A d
| XGit : A = p_git_at ++ X -> r_form d <> FUrl -> xrel X A d.

Inductive shape (cu : str) (d : ref_url) : Prop :=
| ShapeStd X A form sc : ref_authority form sc A (r_path d) = Some d -> xrel X A d ->
    cu = X ++ r_path d -> ~ In 47 X -> delim_led (r_path d) -> shape cu d
| ShapeColon T R : cu = T ++ R -> ~ In 47 T -> slash_led R -> In 58 T ->
    ((r_form d = FScp /\ r_userinfo d <> Some (s "git")) \/
     (r_form d = FUrl /\ r_scheme d <> s "https" /\ r_scheme d <> s "http" /\ r_scheme d <> s "ssh")) -> shape cu d.

Lemma not_delim_take_no47 x : ~ In 47 (take_chars not_delim x).
Proof.
  intros H. pose proof (take_chars_all not_delim x) as A. rewrite forallb_forall in A.
  specialize (A 47 H). discriminate.
Qed.

Lemma not_delim_drop_led x : delim_led (drop_while not_delim x).
Proof.
  destruct (drop_while_head not_delim x) as [->|(c & r & -> & Hc)]; [left; reflexivity|].
  right. exists c, r. split; [reflexivity|]. unfold not_delim in Hc. apply negb_false_iff in Hc. exact Hc.
Qed.

Lemma slash_led_delim_led x : slash_led x -> delim_led x.
Proof. intros [->|[r ->]]; [left; reflexivity|right; exists 47, r; split; reflexivity]. Qed.

(* the common case: the normalised text is the whole authority followed by the path *)
Lemma shape_plain form sc A R d cu :
  ref_authority form sc A R = Some d -> form <> FScp -> (form = FUrl -> is_ssh_scheme sc = false) ->
  cu = A ++ R -> ~ In 47 A -> delim_led R -> shape cu d.
Proof.
  intros H Hf Hs E H47 HR. pose proof (ref_authority_some _ _ _ _ _ H) as (Hform & Hsc & HP & _).
  apply (ShapeStd cu d A A form sc); rewrite ?HP; auto.
  apply XSame; rewrite ?Hform, ?Hsc; auto.
Qed.

Lemma authority_nonempty form sc A R d : ref_authority form sc A R = Some d -> A <> [].
Proof. intros H ->. discriminate. Qed.

Lemma split_once_some c : forall x h p, split_once_c c x = Some (h, p) -> x = h ++ c :: p /\ ~ In c h.
Proof.
  induction x as [|a r IH]; intros h p; [discriminate|]. cbn [split_once_c].
  destruct (a =? c) eqn:E.
  - intros H. injection H as <- <-. apply N.eqb_eq in E. subst. split; [reflexivity|exact (fun H => H)].
  - destruct (split_once_c c r) as [[h' t']|]; [|discriminate]. intros H. injection H as <- <-.
    destruct (IH h' t' eq_refl) as [-> Hn]. split; [reflexivity|].
    intros [H|H]; [apply N.eqb_neq in E; congruence|exact (Hn H)].
Qed.

Lemma split_once_none c : forall x, split_once_c c x = None -> ~ In c x.
Proof.
  induction x as [|a r IH]; [intros _ H; exact H|]. cbn [split_once_c].
  destruct (a =? c) eqn:E; [discriminate|]. destruct (split_once_c c r) as [[h t]|]; [discriminate|].
  intros _ [H|H]; [apply N.eqb_neq in E; congruence|exact (IH eq_refl H)].
Qed.

Lemma after_last_app c x y : ~ In c y -> after_last c (x ++ c :: y) = y.
Proof.
  intros Hy. induction x as [|a x IH]; cbn [app after_last].
  - rewrite (proj2 (mem_char_false c y) Hy), N.eqb_refl. reflexivity.
  - assert (M : mem_char c (x ++ c :: y) = true) by (apply mem_char_In, in_or_app; right; left; reflexivity).
    rewrite M. exact IH.
Qed.

Lemma span_until_eq x : span_until 47 x = (take_chars not_slash x, drop_while not_slash x).
Proof.
  induction x as [|a r IH]; [reflexivity|]. cbn [span_until take_chars drop_while]. unfold not_slash at 1 3.
  destruct (a =? 47); [reflexivity|]. cbn [negb]. rewrite IH. reflexivity.
Qed.

Lemma rsplit_after c x : match rsplit_once c x with Some (_, h) => h | None => x end = after_last c x.
Proof.
  induction x as [|a r IH]; [reflexivity|]. cbn [rsplit_once after_last].
  destruct (rsplit_once c r) as [[h t]|] eqn:E.
  - assert (M : mem_char c r = true).
    { clear IH. revert h t E. induction r as [|y r IHr]; intros h t E; [discriminate|]. cbn [rsplit_once] in E.
      apply mem_char_In. destruct (rsplit_once c r) as [[h' t']|] eqn:E'.
      - right. apply mem_char_In. exact (IHr h' t' eq_refl).
      - destruct (y =? c) eqn:Ey; [|discriminate]. left. apply N.eqb_eq in Ey. exact Ey. }
    rewrite M. exact IH.
  - assert (M : mem_char c r = false).
    { clear IH. apply mem_char_false. induction r as [|y r IHr]; [exact (fun H => H)|]. cbn [rsplit_once] in E.
      destruct (rsplit_once c r) as [[h' t']|]; [discriminate|]. destruct (y =? c) eqn:Ey; [discriminate|].
      intros [H|H]; [apply N.eqb_neq in Ey; congruence|exact (IHr eq_refl H)]. }
    rewrite M. destruct (a =? c); reflexivity.
Qed.

Lemma split_scheme_some t sc rest : ref_split_scheme t = Some (sc, rest) ->
  t = sc ++ s "://" ++ rest /\ sc <> [] /\ forallb scheme_char sc = true.
Proof.
  unfold ref_split_scheme. destruct (take_chars scheme_char t) as [|c sc'] eqn:E; [discriminate|].
  destruct (scheme_start c); [|discriminate].
  destruct (strip_prefix (s "://") (drop_while scheme_char t)) as [r|] eqn:P; [|discriminate].
  intros H. injection H as <- <-. apply strip_prefix_eq in P.
  split; [|split; [discriminate|rewrite <- E; apply take_chars_all]].
  rewrite <- P, <- E. apply take_drop.
Qed.

Lemma shape_git_at form Y R d cu :
  ref_authority form [] (p_git_at ++ Y) R = Some d -> form <> FUrl ->
  cu = trim_slash (Y ++ R) -> ~ In 47 Y -> delim_led R -> shape cu d.
Proof.
  intros H Hf E H47 HR. pose proof (ref_authority_some _ _ _ _ _ H) as (Hform & _ & HP & Hu & Hh & Hne & Hp).
  assert (HY : Y <> []) by (intros ->; rewrite Hh in Hne; apply Hne; reflexivity).
  rewrite (trim_slash_app Y R HY H47) in E.
  apply (ShapeStd cu d Y (p_git_at ++ Y) form []); rewrite ?HP; auto.
  apply XGit; rewrite ?Hform; auto.
Qed.

Lemma trim_slash_take f x : take_chars f x <> [] -> ~ In 47 (take_chars f x) ->
  trim_slash x = take_chars f x ++ drop_while f x.
Proof. intros H1 H2. rewrite (take_drop f x) at 1. apply trim_slash_app; assumption. Qed.

Lemma remote_shape_t t d : ref_parse_t t = Some d -> shape (trim_slash (normalize_core t)) d.
Proof.
  unfold normalize_core.
  destruct (strip_prefix p_git_at t) as [rest|] eqn:G.
  { (* git@... *)
    apply strip_prefix_eq in G. subst t. unfold ref_parse_t.
    change (ref_split_scheme (p_git_at ++ rest)) with (@None (str * str)). cbv iota.
    change (take_chars ne58 (p_git_at ++ rest)) with (p_git_at ++ take_chars ne58 rest).
    change (drop_while ne58 (p_git_at ++ rest)) with (drop_while ne58 rest).
    change (take_chars not_delim (p_git_at ++ rest)) with (p_git_at ++ take_chars not_delim rest).
    change (drop_while not_delim (p_git_at ++ rest)) with (drop_while not_delim rest).
    assert (Bare : ref_authority FBare [] (p_git_at ++ take_chars not_delim rest) (drop_while not_delim rest) = Some d ->
                   shape (trim_slash rest) d).
    { intros H. apply (shape_git_at FBare (take_chars not_delim rest) (drop_while not_delim rest) d); auto.
      - discriminate.
      - rewrite <- take_drop. reflexivity.
      - apply not_delim_take_no47.
      - apply not_delim_drop_led. }
    destruct (split_once_c 58 rest) as [[H P]|] eqn:S.
    - destruct (split_once_some 58 rest H P S) as [-> H58].
      destruct (take_chars_app_stop ne58 H 58 P (ne58_all_of_not_in H H58) eq_refl) as [T D]. rewrite T, D.
      rewrite mem_char_app. change (mem_char 47 p_git_at) with false. cbn [orb].
      destruct (mem_char 47 H) eqn:M; cbn [negb].
      + exact Bare.
      + destruct (ref_authority FScp [] (p_git_at ++ H) (47 :: P)) as [d0|] eqn:A; [|discriminate].
        destruct (r_port d0); [discriminate|]. intros E. injection E as ->.
        apply (shape_git_at FScp H (47 :: P) d); auto.
        * discriminate.
        * apply mem_char_false. exact M.
        * right. exists 47, P. split; reflexivity.
    - pose proof (split_once_none 58 rest S) as H58.
      destruct (take_chars_all_id ne58 rest (ne58_all_of_not_in rest H58)) as [_ D]. rewrite D. exact Bare. }
  destruct (strip_prefix p_https t) as [rest|] eqn:Hs.
  { apply strip_prefix_eq in Hs. subst t. unfold ref_parse_t.
    change (ref_split_scheme (p_https ++ rest)) with (Some (s "https", rest)). cbv iota beta.
    change (is_ssh_scheme (s "https")) with false. cbv iota.
    intros H. apply (shape_plain _ _ _ _ d _ H).
    - discriminate.
    - reflexivity.
    - apply trim_slash_take; [exact (authority_nonempty _ _ _ _ _ H)|apply not_delim_take_no47].
    - apply not_delim_take_no47.
    - apply not_delim_drop_led. }
  destruct (strip_prefix p_http t) as [rest|] eqn:Hp.
  { apply strip_prefix_eq in Hp. subst t. unfold ref_parse_t.
    change (ref_split_scheme (p_http ++ rest)) with (Some (s "http", rest)). cbv iota beta.
    change (is_ssh_scheme (s "http")) with false. cbv iota.
    intros H. apply (shape_plain _ _ _ _ d _ H).
    - discriminate.
    - reflexivity.
    - apply trim_slash_take; [exact (authority_nonempty _ _ _ _ _ H)|apply not_delim_take_no47].
    - apply not_delim_take_no47.
    - apply not_delim_drop_led. }
  destruct (strip_prefix p_ssh t) as [rest|] eqn:Hsh.
  { apply strip_prefix_eq in Hsh. subst t. unfold ref_parse_t.
    change (ref_split_scheme (p_ssh ++ rest)) with (Some (s "ssh", rest)). cbv iota beta.
    change (is_ssh_scheme (s "ssh")) with true. cbv iota.
    rewrite span_until_eq, rsplit_after.
    set (A := take_chars not_slash rest). set (R := drop_while not_slash rest).
    intros H. pose proof (ref_authority_some _ _ _ _ _ H) as (Hform & Hsc & HP & Hu & Hh & Hne & Hpt).
    assert (HX : after_last 64 A <> []) by (intros E; rewrite E in Hh; apply Hne; exact Hh).
    assert (H47 : ~ In 47 (after_last 64 A)).
    { destruct (after_last_suffix 64 A) as [a Ea]. intros Hin. apply (not_slash_take rest). fold A. rewrite Ea.
      apply in_or_app. right. exact Hin. }
    apply (ShapeStd _ d (after_last 64 A) A FUrl (s "ssh")); rewrite ?HP.
    - exact H.
    - apply XSsh; [reflexivity|exact Hform|rewrite Hsc; reflexivity].
    - apply trim_slash_app; assumption.
    - exact H47.
    - apply slash_led_delim_led, not_slash_drop. }
  (* no known prefix: the text is used as it is *)
  unfold ref_parse_t. destruct (ref_split_scheme t) as [[sc rest]|] eqn:S.
  { intros HA. destruct (split_scheme_some t sc rest S) as (Et & Hne & Hall).
    pose proof (ref_authority_some _ _ _ _ _ HA) as (Hform & Hsc & _).
    apply (ShapeColon _ d (sc ++ [58]) (47 :: 47 :: rest)).
    - rewrite Et. change (s "://") with [58; 47; 47]. rewrite <- app_assoc. cbn [app].
      change (sc ++ 58 :: 47 :: 47 :: rest) with (sc ++ [58] ++ 47 :: 47 :: rest). rewrite app_assoc.
      apply trim_slash_app.
      + destruct sc; discriminate.
      + intros H. apply in_app_or in H as [H|[H|[]]]; [|discriminate].
        rewrite forallb_forall in Hall. specialize (Hall 47 H). discriminate.
    - intros H. apply in_app_or in H as [H|[H|[]]]; [|discriminate].
      rewrite forallb_forall in Hall. specialize (Hall 47 H). discriminate.
    - right. eexists. reflexivity.
    - apply in_or_app. right. left. reflexivity.
    - right. split; [exact Hform|]. rewrite Hsc.
      repeat split; intros ->; rewrite Et in *.
      + change (s "https" ++ s "://" ++ rest) with (p_https ++ rest) in Hs. rewrite strip_prefix_app in Hs. discriminate.
      + change (s "http" ++ s "://" ++ rest) with (p_http ++ rest) in Hp. rewrite strip_prefix_app in Hp. discriminate.
      + change (s "ssh" ++ s "://" ++ rest) with (p_ssh ++ rest) in Hsh. rewrite strip_prefix_app in Hsh. discriminate. }
  assert (Bare : ref_authority FBare [] (take_chars not_delim t) (drop_while not_delim t) = Some d ->
                 shape (trim_slash t) d).
  { intros H. apply (shape_plain _ _ _ _ d _ H).
    - discriminate.
    - discriminate.
    - apply trim_slash_take; [exact (authority_nonempty _ _ _ _ _ H)|apply not_delim_take_no47].
    - apply not_delim_take_no47.
    - apply not_delim_drop_led. }
  destruct (drop_while ne58 t) as [|c path] eqn:D; [exact Bare|].
  destruct (mem_char 47 (take_chars ne58 t)) eqn:M; [exact Bare|].
  destruct (ref_authority FScp [] (take_chars ne58 t) (47 :: path)) as [d0|] eqn:A; [|discriminate].
  destruct (r_port d0); [discriminate|]. intros E. injection E as ->.
  assert (Hc : c = 58).
  { destruct (drop_while_head ne58 t) as [E|(c' & r' & E & Hc')]; rewrite D in E; [discriminate|].
    injection E as <- <-. unfold ne58 in Hc'. apply negb_false_iff, N.eqb_eq in Hc'. exact Hc'. }
  subst c. set (head := take_chars ne58 t) in *.
  assert (Et : t = head ++ 58 :: path) by (rewrite <- D; apply take_drop).
  apply mem_char_false in M.
  apply (ShapeColon _ d (head ++ 58 :: take_chars not_slash path) (drop_while not_slash path)).
  - rewrite Et at 1. rewrite (take_drop not_slash path) at 1.
    change (head ++ 58 :: take_chars not_slash path ++ drop_while not_slash path)
      with (head ++ (58 :: take_chars not_slash path) ++ drop_while not_slash path).
    rewrite app_assoc. apply trim_slash_app.
    + pose proof (authority_nonempty _ _ _ _ _ A). destruct head; [contradiction|discriminate].
    + intros H. apply in_app_or in H as [H|[H|H]]; [exact (M H)|discriminate|exact (not_slash_take path H)].
  - intros H. apply in_app_or in H as [H|[H|H]]; [exact (M H)|discriminate|exact (not_slash_take path H)].
  - apply not_slash_drop.
  - apply in_or_app. right. left. reflexivity.
  - left. pose proof (ref_authority_some _ _ _ _ _ A) as (Hform & _ & _ & Hu & _).
    split; [exact Hform|]. rewrite Hu. intros Hg. apply before_last_some in Hg.
    rewrite Et, Hg in G. change (s "git" ++ 64 :: after_last 64 head) with (p_git_at ++ after_last 64 head) in G.
    rewrite <- app_assoc, strip_prefix_app in G. discriminate.
Qed.

(* ------------------------------------------------------------------ from shapes to the verdict *)

Lemma drop_while_nil_all f (x : str) : drop_while f x = [] -> forallb f x = true.
Proof. induction x as [|c r IH]; [reflexivity|]. simpl. destruct (f c); [exact IH|discriminate]. Qed.

Lemma ne58_all_not_in x : forallb ne58 x = true -> ~ In 58 x.
Proof. rewrite forallb_forall. intros H Hin. specialize (H 58 Hin). discriminate. Qed.

(* remote side: a kept text free of special characters is the host itself *)
Lemma std_remote X A form sc d :
  ref_authority form sc A (r_path d) = Some d -> xrel X A d -> special_free X = true ->
  X = r_host d /\ r_port d = None /\ user_ok d.
Proof.
  intros H Hx Hsf. pose proof (ref_authority_some _ _ _ _ _ H) as (Hform & Hsc & _ & Hu & Hh & Hne & Hp).
  assert (H64 : ~ In 64 X) by (apply (special_free_no X 64 Hsf); reflexivity).
  assert (H58 : ~ In 58 X) by (apply (special_free_no X 58 Hsf); reflexivity).
  destruct (take_chars_all_id ne58 X (ne58_all_of_not_in X H58)) as [T D].
  destruct Hx as [E Hf Hs|E Hf Hs|E Hf].
  - subst A. destruct (after_last_none 64 X H64) as [E1 E2]. rewrite E1 in Hh, Hp. rewrite E2 in Hu.
    rewrite T in Hh. rewrite D in Hp. split; [auto|]. split; [exact Hp|]. unfold user_ok. rewrite Hu. exact I.
  - rewrite <- E in Hh, Hp. rewrite T in Hh. rewrite D in Hp. split; [auto|]. split; [exact Hp|].
    unfold user_ok. destruct (r_userinfo d); [|exact I]. rewrite Hf. exact Hs.
  - subst A. change (p_git_at ++ X) with (s "git" ++ 64 :: X) in Hh, Hp.
    rewrite (after_last_app 64 (s "git") X H64) in Hh, Hp. rewrite T in Hh. rewrite D in Hp.
    split; [auto|]. split; [exact Hp|]. unfold user_ok. destruct (r_userinfo d); [|exact I].
    destruct (r_form d); [contradiction|exact I|exact I].
Qed.

(* allow side: the conditions of ref_allow make the kept text the host, free of special characters *)
Lemma std_allow X A form sc d :
  ref_authority form sc A (r_path d) = Some d -> xrel X A d -> ~ In 47 X ->
  ~ In 63 (r_host d) -> ~ In 35 (r_host d) -> r_port d = None ->
  (r_form d = FBare -> r_userinfo d = None) ->
  (r_form d = FScp -> r_userinfo d = Some (s "git")) ->
  (r_form d = FUrl -> is_ssh_scheme (r_scheme d) = false -> r_userinfo d = None) ->
  X = r_host d /\ special_free X = true.
Proof.
  intros H Hx H47 H63 H35 Hport Hbare Hscp Hurl.
  pose proof (ref_authority_some _ _ _ _ _ H) as (Hform & Hsc & _ & Hu & Hh & Hne & Hp).
  assert (P58 : ~ In 58 (after_last 64 A)).
  { rewrite Hport in Hp. destruct (drop_while ne58 (after_last 64 A)) eqn:D; [|discriminate].
    apply ne58_all_not_in, drop_while_nil_all, D. }
  assert (Hhost : r_host d = after_last 64 A).
  { rewrite Hh. apply (take_chars_all_id ne58 _ (ne58_all_of_not_in _ P58)). }
  assert (Fin : X = after_last 64 A -> X = r_host d /\ special_free X = true).
  { intros E. split; [rewrite Hhost; exact E|].
    unfold special_free. apply forallb_forall. intros c Hc. apply negb_true_iff.
    destruct (is_special c) eqn:S; [|reflexivity]. exfalso.
    unfold is_special in S. rewrite !orb_true_iff, !N.eqb_eq in S.
    destruct S as [[[[->| ->]| ->]| ->]| ->].
    - exact (H47 Hc).
    - apply P58. rewrite <- E. exact Hc.
    - apply (after_last_no_c 64 A). rewrite <- E. exact Hc.
    - apply H63. rewrite Hhost, <- E. exact Hc.
    - apply H35. rewrite Hhost, <- E. exact Hc. }
  destruct Hx as [E Hf Hs|E Hf Hs|E Hf].
  - subst A. apply Fin.
    assert (Hnone : r_userinfo d = None).
    { destruct (r_form d) eqn:F; [apply Hurl; auto|contradiction|apply Hbare; reflexivity]. }
    rewrite Hu in Hnone.
    destruct (mem_char 64 X) eqn:M.
    + exfalso. clear -Hnone M. induction X as [|a r IH]; [discriminate|]. cbn [before_last] in Hnone.
      destruct (before_last 64 r) eqn:B; [discriminate|]. destruct (a =? 64) eqn:E; [discriminate|].
      unfold mem_char in M. cbn [existsb] in M. rewrite N.eqb_sym, E in M. exact (IH eq_refl M).
    + apply mem_char_false in M. symmetry. apply (after_last_none 64 X M).
  - apply Fin. exact E.
  - subst A. apply Fin. destruct (r_form d) eqn:F; [contradiction| |].
    + pose proof (Hscp eq_refl) as Hg. rewrite Hu in Hg. apply before_last_some in Hg.
      change (p_git_at ++ X) with (s "git" ++ 64 :: X) in Hg at 1.
      apply app_inv_head in Hg. injection Hg as Hg. exact Hg.
    + pose proof (Hbare eq_refl) as Hn. rewrite Hu in Hn. exfalso.
      change (p_git_at ++ X) with (103 :: 105 :: 116 :: 64 :: X) in Hn. cbn [before_last] in Hn.
      destruct (before_last 64 X); discriminate.
Qed.

Lemma ref_allow_some a d : ref_allow a = Some d ->
  ref_parse a = Some d /\ ~ In 63 (r_host d) /\ ~ In 35 (r_host d) /\ ~ In 63 (r_path d) /\ ~ In 35 (r_path d) /\
  r_port d = None /\
  (r_form d = FBare -> r_userinfo d = None) /\
  (r_form d = FScp -> r_userinfo d = Some (s "git")) /\
  (r_form d = FUrl -> is_ssh_scheme (r_scheme d) = false -> r_userinfo d = None) /\
  (r_form d = FUrl -> r_scheme d = s "ssh" \/ r_scheme d = s "https" \/ r_scheme d = s "http").
Proof.
  unfold ref_allow. destruct (ref_parse a) as [d0|]; [|discriminate].
  destruct (negb (mem_char 63 (r_host d0)) && negb (mem_char 35 (r_host d0)) && negb (mem_char 63 (r_path d0)) && negb (mem_char 35 (r_path d0))) eqn:P; [|discriminate].
  destruct (r_port d0) eqn:Port; [discriminate|]. cbn [andb].
  match goal with |- (if ?u && ?sc then _ else _) = _ -> _ => destruct u eqn:U; [|discriminate]; destruct sc eqn:SC; [|discriminate] end.
  intros E. injection E as <-. split; [reflexivity|].
  rewrite !andb_true_iff, !negb_true_iff in P. destruct P as [[[P1 P2] P3] P4].
  rewrite <- !mem_char_false. repeat split; auto.
  - intros F. rewrite F in U. destruct (r_userinfo d0); [discriminate|reflexivity].
  - intros F. rewrite F in U. destruct (r_userinfo d0) as [u|]; [|discriminate]. apply str_eqb_eq in U. rewrite U. reflexivity.
  - intros F Hs. rewrite F in U, SC.
    destruct (str_eqb (r_scheme d0) (s "ssh")) eqn:S1.
    + apply str_eqb_eq in S1. rewrite S1 in Hs. discriminate.
    + destruct (str_eqb (r_scheme d0) (s "https") || str_eqb (r_scheme d0) (s "http")); [|discriminate].
      destruct (r_userinfo d0); [discriminate|reflexivity].
  - intros F. rewrite F in SC. rewrite !orb_true_iff, !str_eqb_eq in SC. tauto.
Qed.

Lemma delim_led_no_query p : delim_led p -> ~ In 63 p -> ~ In 35 p -> slash_led p.
Proof.
  intros [->|(c & r & -> & Hc)] H63 H35; [left; reflexivity|]. right. exists r.
  unfold is_seg_delim in Hc. rewrite !orb_true_iff, !N.eqb_eq in Hc. destruct Hc as [[->| ->]| ->].
  - reflexivity.
  - exfalso. apply H63. left. reflexivity.
  - exfalso. apply H35. left. reflexivity.
Qed.

Lemma split_pred_ext f g (x : str) : (forall c, f c = g c) -> split_pred f x = split_pred g x.
Proof. intros H. induction x as [|a r IH]; [reflexivity|]. simpl. rewrite H, IH. reflexivity. Qed.

Lemma ref_segments_segs d : ref_segments d = segs is_seg_delim (r_path d).
Proof.
  unfold ref_segments, segs. f_equal. apply split_pred_ext. intros c. unfold not_delim, is_seg_delim.
  apply negb_involutive.
Qed.

(* the theorem: whatever the matcher accepts lies under the allow-listed host and path prefix *)
Theorem url_sound u a du da :
  ref_parse u = Some du -> ref_allow a = Some da ->
  matches (normalize u) (normalize a) = true -> ref_under du da = true.
Proof.
  intros Hu Ha M. rewrite !normalize_unfold in M.
  apply ref_allow_some in Ha as (Hpa & A63 & A35 & P63 & P35 & Aport & Abare & Ascp & Aurl & Asch).
  rewrite ref_parse_unfold in Hu, Hpa.
  pose proof (remote_shape_t _ _ Hpa) as Sa. pose proof (remote_shape_t _ _ Hu) as Su.
  destruct Sa as [Xa Aa fa sca HAa Hxa Eca H47a Hleda|T R _ _ _ _ Why].
  2:{ exfalso. destruct Why as [[F Hg]|[F (N1 & N2 & N3)]].
      - apply Hg, Ascp, F.
      - destruct (Asch F) as [E|[E|E]]; congruence. }
  destruct (std_allow Xa Aa fa sca da HAa Hxa H47a A63 A35 Aport Abare Ascp Aurl) as [EXa Sfa].
  pose proof (ref_authority_some _ _ _ _ _ HAa) as (_ & _ & _ & _ & _ & Hnea & _).
  assert (Hp_led : slash_led (r_path da)) by (apply delim_led_no_query; assumption).
  destruct Su as [Xu Au fu scu HAu Hxu Ecu H47u Hledu|T R Ecu HT HR H58 _].
  2:{ exfalso. rewrite Ecu in M.
      rewrite (core_no_match T R _ Xa (r_path da) HT HR H58 Eca) in M; [discriminate| |exact Sfa|exact Hp_led].
      rewrite EXa. exact Hnea. }
  rewrite Ecu in M.
  destruct (core_match Xu (r_path du) _ Xa (r_path da) H47u Hledu Eca) as (E1 & SfX & Hled & Hpre & Hdots); auto.
  { rewrite EXa. exact Hnea. }
  destruct (std_remote Xu Au fu scu du HAu Hxu SfX) as (EXu & Hport & Huser).
  unfold ref_under. rewrite !ref_segments_segs, Hpre, Hdots, Hport, <- EXu, <- EXa, E1, str_eqb_refl. cbn [andb negb].
  unfold user_ok in Huser. destruct (r_userinfo du); [|reflexivity].
  destruct (r_form du); [exact Huser|reflexivity|reflexivity].
Qed.
