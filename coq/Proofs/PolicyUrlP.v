(* Proofs/PolicyUrlP.v — lemmas about Model/PolicyUrl.v (C20, git-remote allowlist). *)
From AP Require Import Base.Str Base.StrFacts Model.PolicyUrl.
From Coq Require Import Lia ZifyBool.
Open Scope N_scope.
Arguments N.add : simpl never.
Arguments N.sub : simpl never.
Arguments N.eqb : simpl never.
Arguments N.ltb : simpl never.
Arguments N.leb : simpl never.

(* ------------------------------------------------------------------ generalities *)

Lemma bool_eq_iff (a b : bool) : (a = true <-> b = true) -> a = b.
Proof. destruct a, b; intros [H1 H2]; auto; try (symmetry; auto); exfalso; try (specialize (H1 eq_refl); discriminate); specialize (H2 eq_refl); discriminate. Qed.

Lemma mem_char_In c x : mem_char c x = true <-> In c x.
Proof.
  unfold mem_char. rewrite existsb_exists. split.
  - intros [y [Hy E]]. apply N.eqb_eq in E. subst. exact Hy.
  - intros H. exists c. split; [exact H|apply N.eqb_refl].
Qed.

Lemma mem_char_false c x : mem_char c x = false <-> ~ In c x.
Proof.
  rewrite <- mem_char_In. destruct (mem_char c x); split; intros H.
  - discriminate.
  - exfalso. apply H. reflexivity.
  - discriminate.
  - reflexivity.
Qed.

Lemma mem_char_app c x y : mem_char c (x ++ y) = mem_char c x || mem_char c y.
Proof. unfold mem_char. apply existsb_app. Qed.

Lemma mem_str_In a l : mem_str a l = true <-> In a l.
Proof.
  induction l as [|b l IH]; simpl; [split; [discriminate|tauto]|].
  rewrite orb_true_iff, IH, str_eqb_eq. split; intros [H|H]; auto.
Qed.

Lemma take_drop f (x : str) : x = take_chars f x ++ drop_while f x.
Proof. induction x as [|c r IH]; [reflexivity|]. simpl. destruct (f c); [simpl; f_equal; exact IH|reflexivity]. Qed.

Lemma take_chars_all f (x : str) : forallb f (take_chars f x) = true.
Proof. induction x as [|c r IH]; [reflexivity|]. simpl. destruct (f c) eqn:E; [simpl; rewrite E; exact IH|reflexivity]. Qed.

Lemma drop_while_head f (x : str) : drop_while f x = [] \/ exists c r, drop_while f x = c :: r /\ f c = false.
Proof.
  induction x as [|c r IH]; [left; reflexivity|]. simpl. destruct (f c) eqn:E; [exact IH|].
  right. exists c, r. split; [reflexivity|exact E].
Qed.

Lemma take_chars_app_stop f (a : str) c r : forallb f a = true -> f c = false ->
  take_chars f (a ++ c :: r) = a /\ drop_while f (a ++ c :: r) = c :: r.
Proof.
  intros Ha Hc. induction a as [|x a IH]; simpl in *; [rewrite Hc; split; reflexivity|].
  apply andb_true_iff in Ha as [Hx Ha]. rewrite Hx. destruct (IH Ha) as [-> ->]. split; reflexivity.
Qed.

Lemma take_chars_all_id f (a : str) : forallb f a = true -> take_chars f a = a /\ drop_while f a = [].
Proof.
  induction a as [|x a IH]; [split; reflexivity|]. simpl. intros H. apply andb_true_iff in H as [Hx Ha].
  rewrite Hx. destruct (IH Ha) as [-> ->]. split; reflexivity.
Qed.

Lemma starts_with_iff p : forall x, starts_with p x = true <-> exists r, x = p ++ r.
Proof.
  induction p as [|a p IH]; intros x; simpl.
  - split; [intros _; exists x; reflexivity|reflexivity].
  - destruct x as [|b x]; [split; [discriminate|intros [r H]; discriminate]|].
    rewrite andb_true_iff, N.eqb_eq, IH. split.
    + intros [-> [r ->]]. exists r. reflexivity.
    + intros [r H]. injection H as -> ->. split; [reflexivity|exists r; reflexivity].
Qed.

Lemma ends_with_iff p x : ends_with p x = true <-> exists a, x = a ++ p.
Proof.
  unfold ends_with. rewrite starts_with_iff. split.
  - intros [r H]. exists (rev r). rewrite <- (rev_involutive x), H, rev_app_distr, rev_involutive. reflexivity.
  - intros [a ->]. exists (rev a). apply rev_app_distr.
Qed.

Lemma strip_prefix_eq p : forall x r, strip_prefix p x = Some r -> x = p ++ r.
Proof.
  induction p as [|a p IH]; intros x r; simpl; [intros H; injection H as ->; reflexivity|].
  destruct x as [|b x]; [discriminate|]. destruct (a =? b) eqn:E; [|discriminate].
  apply N.eqb_eq in E. subst. intros H. f_equal. apply IH. exact H.
Qed.

(* ------------------------------------------------------------------ lower-casing *)

Definition is_special (c : N) : bool := (c =? 47) || (c =? 58) || (c =? 64) || (c =? 63) || (c =? 35).

Lemma lower_char_small c : c < 65 -> lower_char c = [c].
Proof.
  intros H. unfold lower_char.
  replace ((65 <=? c) && (c <=? 90)) with false by lia.
  replace (c <? 192) with true by lia. reflexivity.
Qed.

Lemma special_small c : is_special c = true -> c < 65.
Proof. unfold is_special. rewrite !orb_true_iff, !N.eqb_eq. lia. Qed.

Lemma lower_char_special c : is_special c = true -> lower_char c = [c].
Proof. intros H. apply lower_char_small, special_small, H. Qed.

Lemma lower_char_reflects c d : In d (lower_char c) -> d < 65 -> c = d.
Proof.
  unfold lower_char.
  destruct ((65 <=? c) && (c <=? 90)) eqn:E1; [intros [<-|[]]; lia|].
  destruct (c <? 192) eqn:E2; [intros [<-|[]]; reflexivity|].
  destruct ((c <=? 222) && negb (c =? 215)) eqn:E3; [intros [<-|[]]; lia|].
  destruct (c =? 304) eqn:E4; [intros [<-|[<-|[]]]; lia|].
  destruct ((913 <=? c) && (c <=? 939) && negb (c =? 930)) eqn:E5; [intros [<-|[]]; lia|].
  destruct ((1024 <=? c) && (c <=? 1039)) eqn:E6; [intros [<-|[]]; lia|].
  destruct ((1040 <=? c) && (c <=? 1071)) eqn:E7; [intros [<-|[]]; lia|].
  destruct (c =? 8486) eqn:E8; [intros [<-|[]]; lia|].
  destruct (c =? 8490) eqn:E9; [intros [<-|[]]; lia|].
  destruct (c =? 8491) eqn:E10; [intros [<-|[]]; lia|].
  intros [<-|[]]; reflexivity.
Qed.

Lemma lower_char_nonempty c : lower_char c <> [].
Proof.
  unfold lower_char.
  repeat match goal with |- context [if ?b then _ else _] => destruct b end; discriminate.
Qed.

Lemma to_lower_app x y : to_lower (x ++ y) = to_lower x ++ to_lower y.
Proof. unfold to_lower. apply flat_map_app. Qed.

Lemma to_lower_nil_iff x : to_lower x = [] <-> x = [].
Proof.
  split; [|intros ->; reflexivity]. destruct x as [|c r]; [reflexivity|].
  unfold to_lower. cbn [flat_map]. intros H. apply app_eq_nil in H as [H _]. exfalso. exact (lower_char_nonempty c H).
Qed.

Lemma to_lower_In_small d x : d < 65 -> (In d (to_lower x) <-> In d x).
Proof.
  intros Hd. unfold to_lower. rewrite in_flat_map. split.
  - intros (c & Hc & Hin). rewrite <- (lower_char_reflects c d Hin Hd). exact Hc.
  - intros H. exists d. split; [exact H|]. rewrite (lower_char_small d Hd). left. reflexivity.
Qed.

Lemma to_lower_cons_small c r : c < 65 -> to_lower (c :: r) = c :: to_lower r.
Proof. intros H. unfold to_lower. cbn [flat_map]. rewrite (lower_char_small c H). reflexivity. Qed.

(* split_pred commutes with lower-casing when the delimiters are small (non-letters) *)
Lemma split_pred_nonnil f x : split_pred f x <> [].
Proof. induction x as [|a r IH]; simpl; [discriminate|]. destruct (f a); [discriminate|]. destruct (split_pred f r); discriminate. Qed.

Lemma split_pred_app_nodelim f a x : forallb (fun c => negb (f c)) a = true ->
  split_pred f (a ++ x) = match split_pred f x with h :: t => (a ++ h) :: t | [] => [a] end.
Proof.
  induction a as [|c a IH]; intros H; simpl in *.
  - destruct (split_pred f x) eqn:E; [exfalso; eapply split_pred_nonnil; eauto|reflexivity].
  - apply andb_true_iff in H as [Hc Ha]. apply negb_true_iff in Hc. rewrite Hc, (IH Ha).
    destruct (split_pred f x); reflexivity.
Qed.

Lemma split_pred_lower f x :
  (forall c, f c = true -> c < 65) ->
  split_pred f (to_lower x) = map to_lower (split_pred f x).
Proof.
  intros Hf. induction x as [|c r IH]; [reflexivity|].
  cbn [split_pred]. destruct (f c) eqn:E.
  - rewrite (to_lower_cons_small c r (Hf c E)). cbn [split_pred map]. rewrite E, IH. reflexivity.
  - change (to_lower (c :: r)) with (lower_char c ++ to_lower r).
    rewrite split_pred_app_nodelim.
    + rewrite IH. destruct (split_pred f r) as [|h t] eqn:Er; [exfalso; eapply split_pred_nonnil; eauto|].
      cbn [map]. reflexivity.
    + apply forallb_forall. intros d Hd. apply negb_true_iff.
      destruct (f d) eqn:Ed; [|reflexivity]. rewrite <- (lower_char_reflects c d Hd (Hf d Ed)) in Ed. congruence.
Qed.
