(* Proofs/EnvelopeP.v — lemmas about Model/Envelope.v (C10). *)
From AP Require Import Base.Str Base.StrFacts Model.Envelope.
From AP Require Gen.Tables.
From Coq Require Import Lia.
Open Scope N_scope.

(* ---------- envelope coherence on the single exit path ---------- *)

Lemma parts_shape c : exists code msg det, parts c = (code, msg, det).
Proof. destruct (parts c) as [[code msg] det]. eauto. Qed.

Lemma of_result_coherent m r :
  let '(x, e) := of_result m r in
  (ok e = true <-> x = 0) /\
  (ok e = true <-> errors e = []) /\
  (ok e = false -> data e = JObj [] /\ length (errors e) = 1%nat) /\
  command_id e = Some (m_id m) /\
  command_path e = Some (m_path m) /\
  m_id m = join [32] (m_path m) /\
  schema_version e = Gen.Tables.json_schema_version.
Proof.
  destruct r as [cmd d w|c]; simpl.
  - repeat split; auto; try discriminate.
  - destruct (parts c) as [[code msg] det]. simpl.
    repeat split; auto; try discriminate; intros H; try discriminate H; lia.
Qed.

(* the code of the reported error: the first UserError of the chain, else E_UNEXPECTED *)
Lemma of_result_error_code m c :
  let e := snd (of_result m (RErr c)) in
  exists msg det, errors e = [mkErr (match find_user_error c with Some u => u_code u | None => e_unexpected end) msg det].
Proof.
  simpl. unfold parts. destruct (find_user_error c) as [u|]; simpl; eauto.
Qed.

(* find_user_error looks through context layers *)
Lemma find_user_through_context msgs u rest :
  find_user (map LOther msgs ++ LUser u :: rest) = Some u.
Proof. induction msgs as [|x msgs IH]; simpl; auto. Qed.

(* ---------- codes and the registry (tables regenerated from source and docs) ---------- *)

Lemma subset_In a b : subset a b = true -> forall x, In x a -> In x b.
Proof.
  unfold subset. rewrite forallb_forall. intros H x Hx. specialize (H x Hx).
  induction b as [|y b IH]; simpl in *; [discriminate|].
  apply orb_true_iff in H as [H|H]; [left; symmetry; apply str_eqb_eq; assumption|right; auto].
Qed.

Lemma codes_registered : subset Gen.Tables.source_error_codes registry = true.
Proof. vm_compute. reflexivity. Qed.

Lemma unexpected_registered : mem_str e_unexpected registry = true.
Proof. vm_compute. reflexivity. Qed.

(* the codes for which the registry documents {reason_code, next_actions} are registry codes *)
Lemma guidance_codes_registered : subset Gen.Tables.registry_guidance_codes registry = true.
Proof. vm_compute. reflexivity. Qed.

Lemma default_codes_documented :
  subset (map fst Gen.Tables.default_guidance) Gen.Tables.registry_guidance_codes = true.
Proof. vm_compute. reflexivity. Qed.

Lemma spec_codes_documented :
  subset (map fst Gen.Tables.spec_guidance) Gen.Tables.registry_guidance_codes = true.
Proof. vm_compute. reflexivity. Qed.

(* where SPEC.md documents values for a code of the default table, the table agrees *)
Definition guidance_agrees (e : str * (str * list str)) : bool :=
  match spec_guidance_of (fst e) with
  | None => true
  | Some (rc, acts) => str_eqb rc (fst (snd e)) && (if list_eq_dec (list_eq_dec N.eq_dec) acts (snd (snd e)) then true else false)
  end.

Lemma default_agrees_with_spec : forallb guidance_agrees Gen.Tables.default_guidance = true.
Proof. vm_compute. reflexivity. Qed.

Lemma codes_registered_all :
  (forall c, In c Gen.Tables.source_error_codes -> In c registry) /\
  In e_unexpected registry /\
  (forall c, In c Gen.Tables.registry_guidance_codes -> In c registry) /\
  (forall c, In c (map fst Gen.Tables.default_guidance) -> In c Gen.Tables.registry_guidance_codes) /\
  (forall c, In c (map fst Gen.Tables.spec_guidance) -> In c Gen.Tables.registry_guidance_codes) /\
  forallb guidance_agrees Gen.Tables.default_guidance = true.
Proof.
  split; [exact (subset_In _ _ codes_registered)|].
  split; [apply (subset_In [e_unexpected] registry); [vm_compute; reflexivity|left; reflexivity]|].
  split; [exact (subset_In _ _ guidance_codes_registered)|].
  split; [exact (subset_In _ _ default_codes_documented)|].
  split; [exact (subset_In _ _ spec_codes_documented)|].
  exact default_agrees_with_spec.
Qed.

(* ---------- default guidance ---------- *)

Lemma obj_get_app_l k m m' v : obj_get k m = Some v -> obj_get k (m ++ m') = Some v.
Proof.
  induction m as [|[k' v'] m IH]; simpl; [discriminate|]. destruct (str_eqb k' k); auto.
Qed.

Lemma obj_get_app_r k m m' : obj_get k m = None -> obj_get k (m ++ m') = obj_get k m'.
Proof.
  induction m as [|[k' v'] m IH]; simpl; [reflexivity|]. destruct (str_eqb k' k); [discriminate|auto].
Qed.

Lemma or_insert_has k v m : has_key k (or_insert k v m) = true.
Proof.
  unfold or_insert. destruct (has_key k m) eqn:H; [assumption|].
  unfold has_key in *. destruct (obj_get k m) eqn:G; [discriminate|].
  rewrite (obj_get_app_r _ _ _ G). simpl. rewrite str_eqb_refl. reflexivity.
Qed.

Lemma or_insert_keeps k v m k' x : obj_get k' m = Some x -> obj_get k' (or_insert k v m) = Some x.
Proof.
  intros H. unfold or_insert. destruct (has_key k m); [assumption|]. apply obj_get_app_l. assumption.
Qed.

Lemma or_insert_other k v m k' : str_eqb k k' = false -> obj_get k' (or_insert k v m) = obj_get k' m.
Proof.
  intros Hk. unfold or_insert. destruct (has_key k m); [reflexivity|].
  destruct (obj_get k' m) eqn:G.
  - apply obj_get_app_l. assumption.
  - rewrite (obj_get_app_r _ _ _ G). simpl. rewrite Hk. reflexivity.
Qed.

Lemma has_key_or_insert_mono k v m k' : has_key k' m = true -> has_key k' (or_insert k v m) = true.
Proof.
  unfold has_key. destruct (obj_get k' m) eqn:G; [|discriminate]. intros _.
  rewrite (or_insert_keeps _ _ _ _ _ G). reflexivity.
Qed.

Definition is_obj_or_none (d : option json) : Prop := d = None \/ exists m, d = Some (JObj m).

(* for a code of the default table and details that are absent or a JSON object, the result is an
   object carrying both guidance fields; fields the constructor already set are kept, everything
   else is untouched *)
Lemma add_default_guidance code rc acts details :
  assoc code Gen.Tables.default_guidance = Some (rc, acts) -> is_obj_or_none details ->
  exists m', add_default code details = Some (JObj m') /\
    has_key k_reason m' = true /\ has_key k_actions m' = true /\
    (forall m k x, details = Some (JObj m) -> obj_get k m = Some x -> obj_get k m' = Some x) /\
    (details = None -> obj_get k_reason m' = Some (JStr rc) /\ obj_get k_actions m' = Some (JArr (map JStr acts))).
Proof.
  intros Ha Hd. unfold add_default. rewrite Ha. destruct Hd as [->|[m ->]].
  - eexists; split; [reflexivity|]. repeat split; try (vm_compute; reflexivity).
    intros m k x H; discriminate H.
  - eexists; split; [reflexivity|]. split; [|split; [|split]].
    + apply has_key_or_insert_mono. apply or_insert_has.
    + apply or_insert_has.
    + intros m0 k x H G. inversion H; subst. apply or_insert_keeps, or_insert_keeps. assumption.
    + intros H; discriminate H.
Qed.

(* a code outside the default table keeps the details its constructor gave *)
Lemma add_default_other code details :
  assoc code Gen.Tables.default_guidance = None -> add_default code details = details.
Proof. intros H. unfold add_default. rewrite H. reflexivity. Qed.

(* details that already carry both fields are never changed in those fields *)
Lemma add_default_keeps_inline code m rcv nav :
  obj_get k_reason m = Some rcv -> obj_get k_actions m = Some nav ->
  exists m', add_default code (Some (JObj m)) = Some (JObj m') /\
             obj_get k_reason m' = Some rcv /\ obj_get k_actions m' = Some nav.
Proof.
  intros H1 H2. unfold add_default. destruct (assoc code Gen.Tables.default_guidance) as [[rc acts]|].
  - eexists; split; [reflexivity|]. split; apply or_insert_keeps, or_insert_keeps; assumption.
  - eexists; split; [reflexivity|]. auto.
Qed.

(* ---------- posix ---------- *)

Lemma posix_map x : posix x = map (fun c => if c =? 92 then 47 else c) x.
Proof.
  unfold posix, replace_char_str. induction x as [|c x IH]; simpl; [reflexivity|].
  rewrite IH. destruct (c =? 92); reflexivity.
Qed.

Lemma posix_no_backslash x : ~ In 92 (posix x).
Proof.
  rewrite posix_map. induction x as [|c x IH]; simpl; [tauto|].
  intros [H|H]; [|tauto]. destruct (c =? 92) eqn:E; [discriminate|].
  apply N.eqb_neq in E. congruence.
Qed.

Lemma posix_idem x : posix (posix x) = posix x.
Proof.
  rewrite !posix_map, map_map. apply map_ext. intros c.
  destruct (c =? 92) eqn:E; [reflexivity|]. rewrite E. reflexivity.
Qed.

Lemma posix_id_without_backslash x : ~ In 92 x -> posix x = x.
Proof.
  rewrite posix_map. induction x as [|c x IH]; simpl; [reflexivity|]. intros H.
  destruct (c =? 92) eqn:E.
  - apply N.eqb_eq in E. exfalso. apply H. left. congruence.
  - f_equal. apply IH. tauto.
Qed.

Lemma posix_spec x :
  posix x = map (fun c => if c =? 92 then 47 else c) x /\ ~ In 92 (posix x) /\ posix (posix x) = posix x.
Proof. split; [apply posix_map|]. split; [apply posix_no_backslash|apply posix_idem]. Qed.

(* ---------- MCP ---------- *)

Lemma mcp_wrapper m r :
  let e := mcp_envelope m r in
  let t := mcp_tool_result m r in
  t_is_error t = Some (negb (ok e)) /\ t_structured t = Some e /\ t_text t = e /\
  (ok e = true <-> errors e = []) /\
  (ok e = false -> data e = JObj [] /\ length (errors e) = 1%nat) /\
  command_id e = Some (m_id m) /\ command_path e = Some (m_path m).
Proof.
  destruct r as [[cmd d w|c]|u|msg]; simpl.
  - repeat split; auto; discriminate.
  - unfold envelope_from_anyhow_error. destruct (parts c) as [[code msg] det]. simpl.
    repeat split; auto; discriminate.
  - repeat split; auto; discriminate.
  - repeat split; auto; discriminate.
Qed.

(* the CLI and the MCP wrapper build the same error envelope from the same error *)
Lemma mcp_same_envelope_as_cli m c :
  mcp_envelope m (MHandler (RErr c)) = snd (of_result m (RErr c)).
Proof.
  simpl. unfold envelope_from_anyhow_error, envelope_error. destruct (parts c) as [[code msg] det]. reflexivity.
Qed.
