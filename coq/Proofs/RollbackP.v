(* Proofs/RollbackP.v — rollback (Model/Deploy.v [rollback]) : rejection, exact effect. *)
From AP Require Import Base.Str Base.StrFacts Base.Sorting Gen.Tables Model.Deploy Proofs.DeployP Proofs.ConvergeP.
From Coq Require Import Lia Arith.
Open Scope N_scope.

Definition mpath (e : str * path * N) : path := snd (fst e).
Definition mtp (e : str * path * N) : tpath := (fst (fst e), snd (fst e)).

(* ---------- rejected targets: nothing is written ---------- *)
Lemma rollback_reject_unknown w id : nth_error (snaps w) id = None -> rollback w id = (RbErr, w).
Proof. intros H. unfold rollback. rewrite H. reflexivity. Qed.

Lemma rollback_reject_rollback_record w id sn :
  nth_error (snaps w) id = Some sn -> sn_kind sn = KRollback -> rollback w id = (RbErr, w).
Proof. intros H K. unfold rollback. rewrite H, K. reflexivity. Qed.

Lemma rollback_err_no_write w id w' : rollback w id = (RbErr, w') -> w' = w.
Proof.
  unfold rollback. destruct (nth_error (snaps w) id) as [tgt|]; [|intros H; inversion H; reflexivity].
  destruct (sn_kind tgt); try (intros H; inversion H; reflexivity);
    (destruct (head_of (snaps w)) as [h|]; [|intros H; inversion H; reflexivity];
     destruct (nth_error (snaps w) h) as [cur|]; [|intros H; inversion H; reflexivity];
     destruct (sn_state tgt); intros H; inversion H; reflexivity).
Qed.

(* ---------- the three phases, pointwise ---------- *)
Lemma restore_managed_other l : forall f p, (forall e, In e l -> mpath e <> p) -> restore_managed f l p = f p.
Proof.
  unfold restore_managed. induction l as [|e l IH]; intros f p H; simpl; [reflexivity|].
  rewrite IH by (intros e' He'; apply H; right; exact He').
  apply upd_other. intros E. apply (H e); [left; reflexivity|]. unfold mpath. auto.
Qed.

Lemma restore_managed_at l : forall f e,
  NoDup (map mpath l) -> In e l -> restore_managed f l (mpath e) = Some (FBytes (snd e)).
Proof.
  unfold restore_managed. induction l as [|x l IH]; intros f e Hnd Hin; simpl in *; [contradiction|].
  inversion Hnd as [|? ? Hn Hnd']; subst. destruct Hin as [->|Hin].
  - fold (restore_managed (upd f (snd (fst e)) (Some (FBytes (snd e)))) l).
    rewrite restore_managed_other; [apply upd_same|].
    intros e' He' E. apply Hn. rewrite <- E. apply in_map. exact He'.
  - apply IH; auto.
Qed.

Lemma restore_manifests_other l : forall f p,
  (forall c, In c l -> is_manifest_path (a_path c) = true -> is_cu (a_op c) = true -> a_path c <> p) ->
  restore_manifests f l p = f p.
Proof.
  unfold restore_manifests. induction l as [|c l IH]; intros f p H; simpl; [reflexivity|].
  rewrite IH by (intros c' Hc'; apply H; right; exact Hc').
  destruct (is_manifest_path (a_path c) && is_cu (a_op c)) eqn:E; [|reflexivity].
  apply andb_true_iff in E as [E1 E2]. destruct (a_after c); [|reflexivity].
  apply upd_other. intros X. apply (H c); [left; reflexivity|exact E1|exact E2|auto].
Qed.

Lemma restore_manifests_nonmanifest l f p : is_manifest_path p = false -> restore_manifests f l p = f p.
Proof.
  intros Hp. apply restore_manifests_other. intros c _ Hm _ E. rewrite E in Hm. congruence.
Qed.

Definition man_changes (l : list achange) : list achange :=
  filter (fun c => is_manifest_path (a_path c) && is_cu (a_op c)) l.

Lemma restore_manifests_at l : forall f c o,
  NoDup (map a_path (man_changes l)) -> In c (man_changes l) -> a_after c = Some o ->
  restore_manifests f l (a_path c) = Some o.
Proof.
  unfold restore_manifests. induction l as [|x l IH]; intros f c o Hnd Hin Ha; simpl in *; [contradiction|].
  destruct (is_manifest_path (a_path x) && is_cu (a_op x)) eqn:E.
  - simpl in Hnd, Hin. inversion Hnd as [|? ? Hn Hnd']; subst. destruct Hin as [->|Hin].
    + rewrite Ha. fold (restore_manifests (upd f (a_path c) (Some o)) l).
      rewrite restore_manifests_other; [apply upd_same|].
      intros c' Hc' H1 H2 E'. apply Hn. rewrite <- E'. apply in_map. unfold man_changes.
      apply filter_In. split; [exact Hc'|]. rewrite H1, H2. reflexivity.
    + apply IH; auto.
  - apply IH; auto.
Qed.

Lemma delete_unlisted_cons f x cur tgt :
  delete_unlisted f (x :: cur) tgt =
  delete_unlisted (if mem_tpc (mtp x) tgt then f else upd f (mpath x) None) cur tgt.
Proof. reflexivity. Qed.

Lemma delete_unlisted_other cur tgt : forall f p,
  (forall e, In e cur -> mem_tpc (mtp e) tgt = false -> mpath e <> p) -> delete_unlisted f cur tgt p = f p.
Proof.
  induction cur as [|e cur IH]; intros f p H; [reflexivity|]. rewrite delete_unlisted_cons.
  rewrite IH by (intros e' He'; apply H; right; exact He').
  destruct (mem_tpc (mtp e) tgt) eqn:E; [reflexivity|].
  apply upd_other. intros X. apply (H e); [left; reflexivity|exact E|auto].
Qed.

Lemma delete_unlisted_at cur tgt : forall f e,
  In e cur -> mem_tpc (mtp e) tgt = false -> delete_unlisted f cur tgt (mpath e) = None.
Proof.
  induction cur as [|x cur IH]; intros f e Hin Hm; [contradiction|]. rewrite delete_unlisted_cons.
  destruct Hin as [->|Hin]; [|apply IH; auto].
  rewrite Hm.
  destruct (existsb (fun e' => path_eqb (mpath e') (mpath e) && negb (mem_tpc (mtp e') tgt)) cur) eqn:Ex.
  - apply existsb_exists in Ex as [e' [He' Hx]]. apply andb_true_iff in Hx as [H1 H2].
    apply path_eqb_eq in H1. apply negb_true_iff in H2. rewrite <- H1. apply IH; auto.
  - rewrite delete_unlisted_other; [apply upd_same|].
    intros e' He' Hm' E.
    assert (existsb (fun e' => path_eqb (mpath e') (mpath e) && negb (mem_tpc (mtp e') tgt)) cur = true).
    { apply existsb_exists. exists e'. split; [exact He'|]. rewrite E, path_eqb_refl, Hm'. reflexivity. }
    congruence.
Qed.

Lemma mem_tpc_true tp l : mem_tpc tp l = true <-> exists e, In e l /\ mtp e = tp.
Proof.
  unfold mem_tpc. rewrite existsb_exists. split; intros [e [H1 H2]]; exists e; split; auto.
  - apply tp_eqb_eq in H2. unfold mtp. auto.
  - apply tp_eqb_eq. unfold mtp in H2. auto.
Qed.

(* ---------- the exact effect of a successful rollback ---------- *)
(* [tgt] the chosen snapshot S, [cur] the current head.  Hypotheses (visible): S's managed paths
   are pairwise distinct and none is a manifest file; the head's managed paths are no manifest
   files; S wrote each manifest once. *)
Section Effect.
  Variables (w : world) (id h : nat) (tgt cur : snapshot).
  Hypothesis Htgt : nth_error (snaps w) id = Some tgt.
  Hypothesis Hkind : sn_kind tgt <> KRollback.
  Hypothesis Hhead : head_of (snaps w) = Some h.
  Hypothesis Hcur : nth_error (snaps w) h = Some cur.
  Hypothesis Hstate : sn_state tgt = true.

  Lemma rollback_ok : exists w', rollback w id = (RbOk, w') /\
    files w' = delete_unlisted (restore_manifests (restore_managed (files w) (sn_managed tgt)) (sn_changes tgt))
                               (sn_managed cur) (sn_managed tgt) /\
    snaps w' = snaps w ++ [ {| sn_kind := KRollback; sn_managed := sn_managed tgt; sn_changes := [];
                               sn_to := Some id; sn_state := false |} ].
  Proof.
    unfold rollback. rewrite Htgt, Hhead, Hcur, Hstate.
    destruct (sn_kind tgt) eqn:K; try contradiction; eexists; repeat split.
  Qed.

  Hypothesis Hnd : NoDup (map mpath (sn_managed tgt)).
  Hypothesis Hnm_t : forall e, In e (sn_managed tgt) -> is_manifest_path (mpath e) = false.
  Hypothesis Hnm_c : forall e, In e (sn_managed cur) -> is_manifest_path (mpath e) = false.
  Hypothesis Hone : forall e e', In e (sn_managed cur) -> In e' (sn_managed tgt) -> mpath e = mpath e' -> mtp e = mtp e'.
  Hypothesis Hmnd : NoDup (map a_path (man_changes (sn_changes tgt))).

  Variable w' : world.
  Hypothesis Hrb : rollback w id = (RbOk, w').

  Lemma rb_files :
    files w' = delete_unlisted (restore_manifests (restore_managed (files w) (sn_managed tgt)) (sn_changes tgt))
                               (sn_managed cur) (sn_managed tgt).
  Proof. destruct rollback_ok as [w'' (H1 & H2 & _)]. rewrite Hrb in H1. inversion H1; subst. exact H2. Qed.

  (* every file S recorded holds S's bytes again *)
  Lemma rb_restores e : In e (sn_managed tgt) -> files w' (mpath e) = Some (FBytes (snd e)).
  Proof.
    intros He. rewrite rb_files. rewrite delete_unlisted_other.
    - rewrite restore_manifests_nonmanifest by (apply Hnm_t; exact He). apply restore_managed_at; auto.
    - intros e' He' Hm E. pose proof (Hone e' e He' He E) as Ht.
      assert (mem_tpc (mtp e') (sn_managed tgt) = true) by (apply mem_tpc_true; exists e; auto). congruence.
  Qed.

  (* every file the head recorded and S did not is gone *)
  Lemma rb_deletes e : In e (sn_managed cur) -> mem_tpc (mtp e) (sn_managed tgt) = false ->
    files w' (mpath e) = None.
  Proof. intros He Hm. rewrite rb_files. apply delete_unlisted_at; auto. Qed.

  (* every manifest S wrote holds S's version again *)
  Lemma rb_manifests c o : In c (man_changes (sn_changes tgt)) -> a_after c = Some o ->
    files w' (a_path c) = Some o.
  Proof.
    intros Hc Ha. rewrite rb_files. rewrite delete_unlisted_other.
    - apply restore_manifests_at; auto.
    - intros e He _ E. apply filter_In in Hc as [_ Hc]. apply andb_true_iff in Hc as [Hc _].
      rewrite <- E in Hc. rewrite (Hnm_c e He) in Hc. discriminate.
  Qed.

  (* and nothing else changes *)
  Lemma rb_frame p :
    (forall e, In e (sn_managed tgt) -> mpath e <> p) ->
    (forall e, In e (sn_managed cur) -> mpath e <> p) ->
    (forall c, In c (man_changes (sn_changes tgt)) -> a_path c <> p) ->
    files w' p = files w p.
  Proof.
    intros H1 H2 H3. rewrite rb_files. rewrite delete_unlisted_other by (intros e He _; apply H2; exact He).
    rewrite restore_manifests_other.
    - apply restore_managed_other. exact H1.
    - intros c Hc Hm Hcu. apply H3. unfold man_changes. apply filter_In. split; [exact Hc|]. rewrite Hm, Hcu. reflexivity.
  Qed.

  Lemma rb_effect :
    (forall e, In e (sn_managed tgt) -> files w' (mpath e) = Some (FBytes (snd e))) /\
    (forall e, In e (sn_managed cur) -> mem_tpc (mtp e) (sn_managed tgt) = false -> files w' (mpath e) = None) /\
    (forall c o, In c (man_changes (sn_changes tgt)) -> a_after c = Some o -> files w' (a_path c) = Some o) /\
    (forall p, (forall e, In e (sn_managed tgt) -> mpath e <> p) ->
               (forall e, In e (sn_managed cur) -> mpath e <> p) ->
               (forall c, In c (man_changes (sn_changes tgt)) -> a_path c <> p) -> files w' p = files w p).
  Proof.
    split; [exact rb_restores|]. split; [exact rb_deletes|]. split; [exact rb_manifests|exact rb_frame].
  Qed.
End Effect.

(* ---------- what a deploy snapshot records is what is on disk right after it ---------- *)
Lemma apply_plan_snaps k w roots D pl :
  exists l, snaps (apply_plan k w roots D pl) =
            snaps w ++ [ {| sn_kind := k; sn_managed := map (fun d => (dtarget d, dpath d, dcontent d)) D;
                            sn_changes := l; sn_to := None; sn_state := true |} ].
Proof.
  unfold apply_plan. destruct (apply_changes (files w) pl) as [f1 l1].
  destruct k; simpl; try (eexists; reflexivity); destruct (write_manifests roots D pl f1); eexists; reflexivity.
Qed.

Lemma snapshot_records_disk st confirmed adopt flt w roots D pl w' :
  deploy_cmd st confirmed adopt flt w roots D = (pl, (OApplied, w')) ->
  wfD roots D -> wfM D (managed_for_plan w roots flt) ->
  exists sn, snaps w' = snaps w ++ [sn] /\ sn_kind sn = KDeploy /\ sn_state sn = true /\
             sn_managed sn = map (fun d => (dtarget d, dpath d, dcontent d)) D /\
             forall e, In e (sn_managed sn) -> files w' (mpath e) = Some (FBytes (snd e)).
Proof.
  intros H HD HM. pose proof (deploy_converged _ _ _ _ _ _ _ _ _ H HD HM) as [Hconv _].
  unfold deploy_cmd in H. inversion H as [[Hpl Hd]]. clear H.
  apply deploy_apply_in_cases in Hd as [[Hx _]|(_ & -> & _)]; [contradiction|].
  destruct (apply_plan_snaps KDeploy w roots D (plan (files w) D (managed_for_plan w roots flt))) as [l Hl].
  eexists. split; [exact Hl|]. simpl. repeat split; auto.
  intros e He. apply in_map_iff in He as [d [<- Hd]]. unfold mpath. simpl. apply Hconv. exact Hd.
Qed.

(* ---------- what rollback may delete (C02) ---------- *)
Lemma restore_managed_keeps l : forall f p, f p <> None -> restore_managed f l p <> None.
Proof.
  unfold restore_managed. induction l as [|e l IH]; intros f p H; simpl; [exact H|].
  apply IH. unfold upd. destruct (path_eqb p (snd (fst e))); [discriminate|exact H].
Qed.

Lemma restore_manifests_keeps l : forall f p, f p <> None -> restore_manifests f l p <> None.
Proof.
  unfold restore_manifests. induction l as [|c l IH]; intros f p H; simpl; [exact H|].
  apply IH. destruct (is_manifest_path (a_path c) && is_cu (a_op c)); [|exact H].
  destruct (a_after c); [|exact H]. unfold upd. destruct (path_eqb p (a_path c)); [discriminate|exact H].
Qed.

Lemma delete_unlisted_removed cur tgt : forall f p,
  f p <> None -> delete_unlisted f cur tgt p = None ->
  exists e, In e cur /\ mpath e = p /\ mem_tpc (mtp e) tgt = false.
Proof.
  induction cur as [|x cur IH]; intros f p Hf Hn; [unfold delete_unlisted in Hn; simpl in Hn; contradiction|].
  rewrite delete_unlisted_cons in Hn. destruct (mem_tpc (mtp x) tgt) eqn:E.
  - destruct (IH f p Hf Hn) as [e (H1 & H2 & H3)]. exists e. split; [right; exact H1|auto].
  - destruct (list_eq_dec (list_eq_dec N.eq_dec) (mpath x) p) as [Ep|Ep].
    + exists x. split; [left; reflexivity|auto].
    + destruct (IH (upd f (mpath x) None) p) as [e (H1 & H2 & H3)].
      * rewrite upd_other by congruence. exact Hf.
      * exact Hn.
      * exists e. split; [right; exact H1|auto].
Qed.

(* a file that disappears during a rollback was recorded as managed by the current head snapshot
   and is not recorded by the chosen snapshot *)
Lemma rollback_removes_only_head_managed w id w' p :
  rollback w id = (RbOk, w') -> files w p <> None -> files w' p = None ->
  exists h cur tgt e, head_of (snaps w) = Some h /\ nth_error (snaps w) h = Some cur /\
                      nth_error (snaps w) id = Some tgt /\
                      In e (sn_managed cur) /\ mpath e = p /\ mem_tpc (mtp e) (sn_managed tgt) = false.
Proof.
  unfold rollback. destruct (nth_error (snaps w) id) as [tgt|] eqn:Et; [|discriminate].
  destruct (head_of (snaps w)) as [h|] eqn:Eh; [|destruct (sn_kind tgt); discriminate].
  destruct (nth_error (snaps w) h) as [cur|] eqn:Ec; [|destruct (sn_kind tgt); discriminate].
  destruct (sn_state tgt); [|destruct (sn_kind tgt); discriminate].
  intros H Hf Hn.
  assert (Hw : files w' = delete_unlisted (restore_manifests (restore_managed (files w) (sn_managed tgt)) (sn_changes tgt))
                                           (sn_managed cur) (sn_managed tgt)).
  { destruct (sn_kind tgt); try discriminate; inversion H; reflexivity. }
  rewrite Hw in Hn. apply delete_unlisted_removed in Hn as [e (H1 & H2 & H3)].
  - exists h, cur, tgt, e. repeat split; auto.
  - apply restore_manifests_keeps. apply restore_managed_keeps. exact Hf.
Qed.
