(* Proofs/PolicyCmdP.v — lemmas about Model/PolicyCmd.v (C20, command side). *)
From AP Require Import Base.Str Base.StrFacts Gen.Tables Model.PolicyCmd.
From Coq Require Import Lia ZifyBool.
Open Scope N_scope.
Arguments N.add : simpl never.
Arguments N.sub : simpl never.
Arguments N.eqb : simpl never.
Arguments N.ltb : simpl never.
Arguments N.leb : simpl never.

(* ------------------------------------------------------------------ generalities *)

Lemma mem_str_In a l : mem_str a l = true <-> In a l.
Proof.
  induction l as [|b l IH]; simpl; [split; [discriminate|tauto]|].
  rewrite orb_true_iff, IH, str_eqb_eq. split; intros [H|H]; auto.
Qed.

Lemma mem_str_false a l : mem_str a l = false <-> ~ In a l.
Proof.
  rewrite <- mem_str_In. destruct (mem_str a l); split; intros H.
  - discriminate.
  - exfalso. apply H. reflexivity.
  - discriminate.
  - reflexivity.
Qed.

Lemma mem_char_In c x : mem_char c x = true <-> In c x.
Proof.
  unfold mem_char. rewrite existsb_exists. split.
  - intros [y [Hy E]]. apply N.eqb_eq in E. subst. exact Hy.
  - intros H. exists c. split; [exact H|apply N.eqb_refl].
Qed.

(* ------------------------------------------------------------------ A. tokenisation *)

(* the unfiltered pieces behind split_whitespace *)
Definition ws_step (a : N) (acc : list str) : list str :=
  if is_ws a then [] :: acc else match acc with [] => [[a]] | h :: t => (a :: h) :: t end.
Definition ws_pieces (x : str) : list str := fold_right ws_step [[]] x.
Definition nonempty (p : str) : bool := negb (match p with [] => true | _ => false end).

Lemma split_whitespace_pieces x : split_whitespace x = filter nonempty (ws_pieces x).
Proof. reflexivity. Qed.

Lemma ws_pieces_cons c r : ws_pieces (c :: r) = ws_step c (ws_pieces r).
Proof. reflexivity. Qed.

Lemma ws_pieces_nonnil x : ws_pieces x <> [].
Proof.
  induction x as [|c r IH]; [discriminate|]. rewrite ws_pieces_cons. unfold ws_step.
  destruct (is_ws c); [discriminate|]. destruct (ws_pieces r); discriminate.
Qed.

Definition is_sep_piece (p : str) : bool := match p with [c] => is_ctl_char c | _ => false end.
Definition ctl_free (p : str) : bool := forallb (fun c => negb (is_ctl_char c)) p.

Fixpoint groups (P : list str) : list (list str) :=
  match P with
  | [] => [[]]
  | p :: r =>
    if is_sep_piece p then [] :: groups r
    else match groups r with
         | g :: gs => (p :: g) :: gs
         | [] => [[p]]
         end
  end.

Lemma groups_nonnil P : groups P <> [].
Proof. induction P as [|p r IH]; simpl; [discriminate|]. destruct (is_sep_piece p); [discriminate|]. destruct (groups r); discriminate. Qed.

Lemma is_op_is_ctl c : is_op_char c = is_ctl_char c.
Proof. unfold is_op_char, is_ctl_char, policy_op_chars. simpl. rewrite orb_false_r, orb_assoc. reflexivity. Qed.

Lemma ctl_not_ws c : is_ctl_char c = true -> is_ws c = false.
Proof.
  unfold is_ctl_char. rewrite !orb_true_iff, !N.eqb_eq. intros [[->| ->]| ->]; reflexivity.
Qed.

Lemma pad_ops_cons c r :
  pad_ops (c :: r) = (if is_ctl_char c then [32; c; 32] else [c]) ++ pad_ops r.
Proof. unfold pad_ops. simpl. rewrite is_op_is_ctl. reflexivity. Qed.

(* every piece of the padded line is a lone operator character or operator-free; the first is operator-free *)
Lemma pieces_pad_shape x :
  exists p ps, ws_pieces (pad_ops x) = p :: ps /\ ctl_free p = true
               /\ Forall (fun q => is_sep_piece q = true \/ ctl_free q = true) ps.
Proof.
  induction x as [|c r (p & ps & E & Hp & Hps)].
  - exists [], []. repeat split; constructor.
  - rewrite pad_ops_cons. destruct (is_ctl_char c) eqn:Hc.
    + simpl app. rewrite !ws_pieces_cons, E. unfold ws_step.
      rewrite (ctl_not_ws c Hc). change (is_ws 32) with true. cbv iota.
      exists [], ([c] :: p :: ps). repeat split.
      constructor; [left; simpl; exact Hc|]. constructor; [right; exact Hp|exact Hps].
    + simpl app. rewrite ws_pieces_cons, E. unfold ws_step. destruct (is_ws c).
      * exists [], (p :: ps). repeat split. constructor; [right; exact Hp|exact Hps].
      * exists (c :: p), ps. repeat split; [|exact Hps]. simpl. rewrite Hc. exact Hp.
Qed.

Lemma ctl_free_not_sep p : ctl_free p = true -> is_sep_piece p = false.
Proof.
  destruct p as [|c [|d p]]; simpl; try reflexivity. rewrite andb_true_r. intros H. apply negb_true_iff in H. exact H.
Qed.

Lemma split_ctl_nonnil x : split_ctl x <> [].
Proof. induction x as [|c r IH]; simpl; [discriminate|]. destruct (is_ctl_char c); [discriminate|]. destruct (split_ctl r); discriminate. Qed.

Lemma groups_pieces_pad x : groups (ws_pieces (pad_ops x)) = map ws_pieces (split_ctl x).
Proof.
  induction x as [|c r IH]; [reflexivity|].
  destruct (pieces_pad_shape r) as (p & ps & E & Hp & _).
  rewrite pad_ops_cons. simpl split_ctl. destruct (is_ctl_char c) eqn:Hc.
  - simpl app. rewrite !ws_pieces_cons. unfold ws_step at 1 2 3.
    rewrite (ctl_not_ws c Hc). change (is_ws 32) with true. cbv iota.
    destruct (ws_pieces (pad_ops r)) as [|p0 ps0] eqn:E0; [discriminate|].
    cbn [groups is_sep_piece]. rewrite Hc. cbn [map]. rewrite <- IH. cbn [groups]. reflexivity.
  - simpl app. rewrite ws_pieces_cons. unfold ws_step.
    destruct (split_ctl r) as [|h t] eqn:Es; [exfalso; eapply split_ctl_nonnil; eauto|].
    cbn [map] in IH |- *. rewrite ws_pieces_cons. unfold ws_step.
    destruct (is_ws c) eqn:Hw.
    + cbn [groups is_sep_piece]. rewrite IH. reflexivity.
    + rewrite E in IH |- *. cbn [groups] in IH. rewrite (ctl_free_not_sep p Hp) in IH.
      assert (Hs : is_sep_piece (c :: p) = false).
      { destruct p; simpl; [exact Hc|reflexivity]. }
      cbn [groups]. rewrite Hs.
      destruct (groups ps) as [|g gs] eqn:Eg; [exfalso; eapply groups_nonnil; eauto|].
      injection IH as IH1 IH2. rewrite <- IH1, IH2. reflexivity.
Qed.

Lemma groups_filter P :
  Forall (fun q => is_sep_piece q = true \/ ctl_free q = true) P ->
  groups (filter nonempty P) = map (filter nonempty) (groups P).
Proof.
  induction 1 as [|p r Hp _ IH]; [reflexivity|].
  cbn [filter groups]. destruct (is_sep_piece p) eqn:Hs.
  - assert (nonempty p = true) by (destruct p; [discriminate|reflexivity]).
    rewrite H. cbn [groups]. rewrite Hs, IH. reflexivity.
  - destruct (groups r) as [|g gs] eqn:Eg; [exfalso; eapply groups_nonnil; eauto|].
    cbn [map] in IH |- *. destruct (nonempty p) eqn:Hn.
    + cbn [groups filter]. rewrite Hs, Hn, IH. reflexivity.
    + cbn [filter]. rewrite Hn. exact IH.
Qed.

Lemma groups_shell_words line :
  groups (shell_words line) = map split_whitespace (split_ctl line).
Proof.
  unfold shell_words. rewrite split_whitespace_pieces.
  destruct (pieces_pad_shape line) as (p & ps & E & Hp & Hps).
  rewrite groups_filter.
  - rewrite groups_pieces_pad, map_map. reflexivity.
  - rewrite E. constructor; [right; exact Hp|exact Hps].
Qed.

(* on the tokens of a padded line, the separator table agrees with "a lone operator character" *)
Lemma sep_table_has_ctl t : is_shell_separator t = true -> exists c, In c t /\ is_ctl_char c = true.
Proof.
  unfold is_shell_separator, shell_separators. cbn [mem_str].
  rewrite !orb_true_iff, !str_eqb_eq.
  intros [H|[H|[H|[H|[H|H]]]]]; try discriminate; subst; eexists; (split; [left; reflexivity|reflexivity]).
Qed.

Lemma ctl_free_not_separator t : ctl_free t = true -> is_shell_separator t = false.
Proof.
  intros H. destruct (is_shell_separator t) eqn:E; [|reflexivity].
  destruct (sep_table_has_ctl t E) as (c & Hin & Hc).
  unfold ctl_free in H. rewrite forallb_forall in H. specialize (H c Hin). rewrite Hc in H. discriminate.
Qed.

Lemma sep_piece_is_separator t : is_sep_piece t = true -> is_shell_separator t = true.
Proof.
  destruct t as [|c [|d t]]; try discriminate. simpl. unfold is_ctl_char.
  rewrite !orb_true_iff, !N.eqb_eq. intros [[->| ->]| ->]; reflexivity.
Qed.

Definition tok_ok (t : str) : Prop := is_shell_separator t = is_sep_piece t.

Lemma shell_words_tok_ok line : Forall tok_ok (shell_words line).
Proof.
  unfold shell_words. rewrite split_whitespace_pieces.
  destruct (pieces_pad_shape line) as (p & ps & E & Hp & Hps). rewrite E.
  assert (H : Forall (fun q => is_sep_piece q = true \/ ctl_free q = true) (p :: ps)) by (constructor; auto).
  clear E. induction H as [|q r Hq _ IH]; [constructor|].
  cbn [filter]. destruct (nonempty q); [|exact IH]. constructor; [|exact IH].
  unfold tok_ok. destruct Hq as [Hq|Hq].
  - rewrite Hq. apply sep_piece_is_separator. exact Hq.
  - rewrite (ctl_free_not_sep q Hq). apply ctl_free_not_separator. exact Hq.
Qed.

(* the first group and what follows it *)
Lemma groups_take_drop T : Forall tok_ok T ->
  groups T = take_while not_sep T ::
             match drop_until is_shell_separator T with [] => [] | _ :: r => groups r end.
Proof.
  induction 1 as [|t r Ht _ IH]; [reflexivity|].
  cbn [groups take_while drop_until]. unfold not_sep at 1. rewrite Ht.
  destruct (is_sep_piece t); [reflexivity|]. cbn [negb]. rewrite IH. reflexivity.
Qed.

Definition first_inv (g : list str) : list (list str) :=
  match drop_until is_agentpack_token g with
  | [] => []
  | _ :: argv => match argv with [] => [] | _ => [argv] end
  end.

Lemma sep_piece_not_agentpack t : is_sep_piece t = true -> is_agentpack_token t = false.
Proof.
  destruct t as [|c [|d t]]; try discriminate. simpl. unfold is_ctl_char.
  rewrite !orb_true_iff, !N.eqb_eq. intros [[->| ->]| ->]; reflexivity.
Qed.

Lemma drop_until_length {A} (f : A -> bool) l : (length (drop_until f l) <= length l)%nat.
Proof. induction l as [|x r IH]; simpl; [lia|]. destruct (f x); simpl; lia. Qed.

Lemma drop_until_Forall {A} (P : A -> Prop) f l : Forall P l -> Forall P (drop_until f l).
Proof. induction 1 as [|x r Hx Hr IH]; simpl; [constructor|]. destruct (f x); [constructor; auto|exact IH]. Qed.

Lemma drop_until_head {A} (f : A -> bool) l x r : drop_until f l = x :: r -> f x = true.
Proof. induction l as [|y l IH]; simpl; [discriminate|]. destruct (f y) eqn:E; [intros H; injection H as -> _; exact E|exact IH]. Qed.

Lemma scan_groups fuel : forall T, Forall tok_ok T -> (length T < fuel)%nat ->
  scan_invocations fuel T = flat_map first_inv (groups T).
Proof.
  induction fuel as [|f IH]; intros T HT Hlen; [lia|].
  destruct T as [|t r]; [reflexivity|].
  inversion HT as [|? ? Ht Hr]; subst. cbn [scan_invocations]. simpl in Hlen.
  destruct (is_agentpack_token t) eqn:Hap.
  - assert (Hs : is_sep_piece t = false).
    { destruct (is_sep_piece t) eqn:E; [|reflexivity]. rewrite (sep_piece_not_agentpack t E) in Hap. discriminate. }
    cbn [groups]. rewrite Hs. rewrite (groups_take_drop r Hr).
    cbn [flat_map]. unfold first_inv at 1. cbn [drop_until]. rewrite Hap.
    f_equal.
    pose proof (drop_until_length is_shell_separator r) as Hl.
    pose proof (drop_until_Forall tok_ok is_shell_separator r Hr) as Hr'.
    rewrite (IH _ Hr' ltac:(lia)).
    destruct (drop_until is_shell_separator r) as [|sp r'] eqn:Ed; [reflexivity|].
    inversion Hr' as [|? ? Hsp _]; subst.
    pose proof (drop_until_head _ _ _ _ Ed) as Hsep.
    unfold tok_ok in Hsp. rewrite Hsep in Hsp.
    cbn [groups]. rewrite <- Hsp. reflexivity.
  - rewrite (IH r Hr ltac:(lia)). cbn [groups]. destruct (is_sep_piece t) eqn:Hs; [reflexivity|].
    destruct (groups r) as [|g gs] eqn:Eg; [exfalso; eapply groups_nonnil; eauto|].
    cbn [flat_map]. f_equal. unfold first_inv. cbn [drop_until]. rewrite Hap. reflexivity.
Qed.

Lemma invocations_groups line :
  extract_agentpack_invocations line = flat_map first_inv (map split_whitespace (split_ctl line)).
Proof.
  unfold extract_agentpack_invocations. rewrite scan_groups.
  - rewrite groups_shell_words. reflexivity.
  - apply shell_words_tok_ok.
  - lia.
Qed.

(* ------------------------------------------------------------------ B. the command word *)

Lemma bool_eq_iff (a b : bool) : (a = true <-> b = true) -> a = b.
Proof. destruct a, b; intros [H1 H2]; auto; try (symmetry; auto); exfalso; try (specialize (H1 eq_refl); discriminate); specialize (H2 eq_refl); discriminate. Qed.

Lemma name_char_ident c : ref_name_char c = is_ident_char c.
Proof.
  unfold ref_name_char, ref_name_start, is_ident_char, is_ascii_alnum.
  destruct (is_ascii_upper c), (is_ascii_lower c), (is_ascii_digit c), (c =? 95); reflexivity.
Qed.

Lemma name_start_ident c : ref_name_start c = is_ident_char c && negb (is_ascii_digit c).
Proof.
  unfold ref_name_start, is_ident_char, is_ascii_alnum, is_ascii_upper, is_ascii_lower, is_ascii_digit.
  destruct ((48 <=? c) && (c <=? 57)) eqn:D; [|rewrite andb_true_r; destruct ((65 <=? c) && (c <=? 90)), ((97 <=? c) && (c <=? 122)), (c =? 95); reflexivity].
  rewrite andb_false_r.
  assert (c <= 57) by lia.
  replace ((65 <=? c) && (c <=? 90)) with false by lia.
  replace ((97 <=? c) && (c <=? 122)) with false by lia.
  replace (c =? 95) with false by lia. reflexivity.
Qed.

Definition eq_after_name (w : str) : bool := match drop_while ref_name_char w with 61 :: _ => true | _ => false end.
Definition name_before_eq (w : str) : bool :=
  match split_once 61 w with Some (name, _) => forallb is_ident_char name | None => false end.

Lemma eq_after_name_split w : eq_after_name w = name_before_eq w.
Proof.
  unfold eq_after_name, name_before_eq. induction w as [|c r IH]; [reflexivity|].
  cbn [drop_while split_once]. rewrite name_char_ident.
  destruct (c =? 61) eqn:E.
  - apply N.eqb_eq in E. subst. reflexivity.
  - destruct (is_ident_char c) eqn:I.
    + rewrite IH. destruct (split_once 61 r) as [[h t]|]; [|reflexivity]. cbn [forallb]. rewrite I. reflexivity.
    + destruct (split_once 61 r) as [[h t]|]; cbn [forallb]; rewrite ?I.
      * destruct c as [|p]; [reflexivity|]. destruct p as [p|p|]; try reflexivity;
          repeat (destruct p as [p|p|]; try reflexivity); discriminate.
      * destruct c as [|p]; [reflexivity|]. destruct p as [p|p|]; try reflexivity;
          repeat (destruct p as [p|p|]; try reflexivity); discriminate.
Qed.

Lemma assignment_equiv w : ref_is_assignment w = is_env_assignment w.
Proof.
  unfold ref_is_assignment, is_env_assignment.
  destruct w as [|c r]; [reflexivity|].
  fold (eq_after_name (c :: r)). rewrite eq_after_name_split. unfold name_before_eq.
  cbn [split_once]. destruct (c =? 61) eqn:E.
  - apply N.eqb_eq in E. subst. reflexivity.
  - destruct (split_once 61 r) as [[h t]|].
    + cbn [is_empty negb forallb andb]. rewrite name_start_ident.
      destruct (is_ident_char c), (is_ascii_digit c), (forallb is_ident_char h); reflexivity.
    + apply andb_false_r.
Qed.

Lemma starts_with_iff p : forall x, starts_with p x = true <-> exists r, x = p ++ r.
Proof.
  induction p as [|a p IH]; intros x; simpl.
  - split; [intros _; exists x; reflexivity|reflexivity].
  - destruct x as [|b x]; [split; [discriminate|intros [r H]; discriminate]|].
    rewrite andb_true_iff, N.eqb_eq, IH. split.
    + intros [-> [r ->]]. exists r. reflexivity.
    + intros [r H]. injection H as -> ->. split; [reflexivity|exists r; reflexivity].
Qed.

Lemma ends_with_iff p x : ends_with p x = true <-> exists a, x = a ++ p.
Proof.
  unfold ends_with. rewrite starts_with_iff. split.
  - intros [r H]. exists (rev r). rewrite <- (rev_involutive x), H, rev_app_distr, rev_involutive. reflexivity.
  - intros [a ->]. exists (rev a). apply rev_app_distr.
Qed.

Lemma last_component_nosep sep x : mem_char sep x = false -> last_component sep x = x.
Proof.
  destruct x as [|c r]; [reflexivity|]. unfold mem_char. cbn [existsb last_component].
  rewrite orb_false_iff. intros [H1 H2]. fold (mem_char sep r). unfold mem_char. rewrite H2.
  rewrite N.eqb_sym, H1. reflexivity.
Qed.

Lemma last_component_app sep a w : mem_char sep w = false -> last_component sep (a ++ sep :: w) = w.
Proof.
  intros Hw. induction a as [|c a IH]; cbn [app last_component].
  - rewrite Hw, N.eqb_refl. reflexivity.
  - assert (H : mem_char sep (a ++ sep :: w) = true).
    { apply mem_char_In. apply in_or_app. right. left. reflexivity. }
    rewrite H. exact IH.
Qed.

Lemma last_component_split sep x : mem_char sep x = true ->
  exists a, x = a ++ sep :: last_component sep x /\ mem_char sep (last_component sep x) = false.
Proof.
  induction x as [|c r IH]; [discriminate|]. intros H. cbn [last_component].
  destruct (mem_char sep r) eqn:Hr.
  - destruct (IH eq_refl) as (a & E & Hn). exists (c :: a). split; [simpl; f_equal; exact E|exact Hn].
  - unfold mem_char in H. cbn [existsb] in H. fold (mem_char sep r) in H. rewrite Hr, orb_false_r in H.
    rewrite N.eqb_sym, H. apply N.eqb_eq in H. subst c. exists []. split; [reflexivity|exact Hr].
Qed.

Lemma last_eq_ends sep w t : mem_char sep w = false ->
  (mem_char sep t && str_eqb (last_component sep t) w) = ends_with (sep :: w) t.
Proof.
  intros Hw. apply bool_eq_iff. rewrite andb_true_iff, str_eqb_eq, ends_with_iff. split.
  - intros [Hm E]. destruct (last_component_split sep t Hm) as (a & Ht & _). exists a. rewrite <- E. exact Ht.
  - intros [a ->]. split.
    + apply mem_char_In. apply in_or_app. right. left. reflexivity.
    + apply last_component_app. exact Hw.
Qed.

Lemma names_agentpack_equiv t :
  ref_names_agentpack t =
  (str_eqb t agentpack_word || ends_with slash_agentpack t || ends_with bslash_agentpack_exe t).
Proof.
  unfold ref_names_agentpack. f_equal.
  - change (s "agentpack") with agentpack_word. change slash_agentpack with (47 :: agentpack_word).
    rewrite <- (last_eq_ends 47 agentpack_word t eq_refl).
    destruct (mem_char 47 t) eqn:Hm.
    + cbn [andb]. replace (str_eqb t agentpack_word) with false; [reflexivity|].
      symmetry. apply str_eqb_neq. intros ->. discriminate.
    + rewrite (last_component_nosep 47 t Hm). cbn [andb]. rewrite orb_false_r. reflexivity.
  - change bslash_agentpack_exe with (92 :: s "agentpack.exe"). apply last_eq_ends. reflexivity.
Qed.

Lemma command_word_equiv w : ref_command_word w = is_agentpack_token w.
Proof.
  unfold ref_command_word, is_agentpack_token. rewrite assignment_equiv, names_agentpack_equiv.
  destruct (is_env_assignment w); reflexivity.
Qed.

Lemma ref_invocation_first_inv g :
  match ref_invocation g with Some a => [a] | None => [] end = first_inv g.
Proof.
  unfold first_inv. induction g as [|w r IH]; [reflexivity|].
  cbn [ref_invocation drop_until]. rewrite command_word_equiv.
  destruct (is_agentpack_token w); [destruct r; reflexivity|exact IH].
Qed.

(* the lint reads a shell line exactly as the reference does *)
Lemma invocations_equiv line : extract_agentpack_invocations line = ref_invocations_line line.
Proof.
  rewrite invocations_groups. unfold ref_invocations_line, ref_simple_commands.
  induction (map split_whitespace (split_ctl line)) as [|g gs IH]; [reflexivity|].
  cbn [flat_map]. rewrite IH, ref_invocation_first_inv. reflexivity.
Qed.

(* ------------------------------------------------------------------ C. the command id *)

Lemma mem_str_set_eq A B :
  forallb (fun x => mem_str x B) A && forallb (fun x => mem_str x A) B = true ->
  forall t, mem_str t A = mem_str t B.
Proof.
  rewrite andb_true_iff, !forallb_forall. intros [H1 H2] t. apply bool_eq_iff.
  rewrite !mem_str_In. split; intros H; [apply mem_str_In, H1, H|apply mem_str_In, H2, H].
Qed.

(* table fact: lint skips a value after exactly the options the CLI declares global with a value *)
Lemma value_flags_agree t : mem_str t cli_global_value_flags = mem_str t policy_flags_with_value.
Proof. apply mem_str_set_eq. vm_compute. reflexivity. Qed.

Lemma starts_with_dash t : starts_with [45] t = match t with 45 :: _ => true | _ => false end.
Proof.
  destruct t as [|c r]; [reflexivity|]. cbn [starts_with]. rewrite andb_true_r.
  destruct (45 =? c) eqn:E.
  - apply N.eqb_eq in E. subst. reflexivity.
  - destruct c as [|p]; [reflexivity|]. 
    assert (Npos p <> 45) by (intros H; rewrite H in E; discriminate).
    destruct p as [p|p|]; try reflexivity; repeat (destruct p as [p|p|]; try reflexivity); congruence.
Qed.

Lemma next_word_skip n : forall argv w r, (length argv <= n)%nat ->
  ref_next_word argv = Some (w, r) -> skip_global_flags argv = w :: r.
Proof.
  induction n as [|n IH]; intros argv w r Hlen H.
  - destruct argv; [discriminate|simpl in Hlen; lia].
  - destruct argv as [|t rest]; [discriminate|]. simpl in Hlen.
    cbn [ref_next_word skip_global_flags] in H |- *. unfold classify in H.
    change (s "--") with dashdash in H. destruct (str_eqb t dashdash); [discriminate|].
    rewrite starts_with_dash. destruct t as [|c t']; [injection H as <- <-; reflexivity|].
    destruct (N.eq_dec c 45) as [->|Hc].
    + cbn [negb]. rewrite <- value_flags_agree.
      destruct (mem_str (45 :: t') cli_global_value_flags).
      * destruct rest as [|v rest']; [discriminate|]. apply IH; [simpl in Hlen; lia|exact H].
      * destruct (mem_str (45 :: t') policy_flags_no_value); (apply IH; [lia|exact H]).
    + assert (E : match c :: t' with 45 :: _ => true | _ => false end = false).
      { destruct c as [|p]; [reflexivity|]. destruct p as [p|p|]; try reflexivity; repeat (destruct p as [p|p|]; try reflexivity); congruence. }
      rewrite E. cbn [negb].
      assert (E2 : match c :: t' with 45 :: _ => (if mem_str (c :: t') cli_global_value_flags then WValueFlag else WFlag) | _ => WPositional end = WPositional).
      { destruct c as [|p]; [reflexivity|]. destruct p as [p|p|]; try reflexivity; repeat (destruct p as [p|p|]; try reflexivity); congruence. }
      rewrite E2 in H. injection H as <- <-. reflexivity.
Qed.

Lemma variant_flag_In w tbl f : variant_flag w tbl = Some f -> In (w, f) tbl.
Proof.
  induction tbl as [|[w' f'] r IH]; simpl; [discriminate|].
  destruct (str_eqb w w') eqn:E.
  - apply str_eqb_eq in E. subst. intros H. injection H as ->. left. reflexivity.
  - intros H. right. exact (IH H).
Qed.

(* whenever the reference calls an invocation mutating, lint computes the very same id *)
Lemma ref_id_lint argv id :
  ref_id argv = Some id -> mem_str id mutating_ids = true -> agentpack_command_id argv = Some id.
Proof.
  unfold ref_id, agentpack_command_id.
  destruct (ref_next_word argv) as [[w1 after1]|] eqn:E1; [|discriminate].
  rewrite (next_word_skip _ _ _ _ (le_n _) E1).
  destruct (mem_str w1 group_names) eqn:G.
  - apply mem_str_In in G. vm_compute in G.
    destruct (ref_next_word after1) as [[w2 r2]|] eqn:E2.
    + pose proof (next_word_skip _ _ _ _ (le_n _) E2) as S2.
      intros H Hm. injection H as <-. f_equal. unfold command_id_of. rewrite S2.
      repeat (destruct G as [G|G]; [subst w1; try reflexivity; vm_compute in Hm; discriminate|]). contradiction.
    + intros H Hm. injection H as <-.
      repeat (destruct G as [G|G]; [subst w1; vm_compute in Hm; discriminate|]). contradiction.
  - destruct (variant_flag w1 variant_table) as [f|] eqn:V.
    + apply variant_flag_In in V. vm_compute in V.
      destruct (mem_str f after1) eqn:M; intros H Hm; injection H as <-; f_equal; unfold command_id_of;
        repeat (destruct V as [V|V];
                [injection V as <- <-;
                 first [ assert (M' : mem_str f_apply after1 = true) by exact M; rewrite M'; reflexivity
                       | assert (M' : mem_str f_fix after1 = true) by exact M; rewrite M'; reflexivity
                       | vm_compute in Hm; discriminate ]|]); contradiction.
    + intros H Hm. injection H as <-. f_equal. unfold command_id_of.
      apply mem_str_In in Hm. vm_compute in Hm.
      repeat (destruct Hm as [Hm|Hm]; [subst w1; reflexivity|]). contradiction.
Qed.

Lemma ref_mutating_lint argv : ref_mutating argv = true -> lint_mutating argv = true.
Proof.
  unfold ref_mutating, lint_mutating. destruct (ref_id argv) as [id|] eqn:E; [|discriminate].
  intros Hm. rewrite (ref_id_lint argv id E Hm). exact Hm.
Qed.

(* ------------------------------------------------------------------ D. which lines are run *)

Lemma drop_while_sub (f g : N -> bool) : (forall c, f c = true -> g c = true) ->
  forall y, drop_while g (drop_while f y) = drop_while g y.
Proof.
  intros Hfg. induction y as [|c r IH]; [reflexivity|]. cbn [drop_while].
  destruct (f c) eqn:E; [rewrite (Hfg c E); exact IH|reflexivity].
Qed.

Lemma drop_while_all f z : forallb f z = true -> drop_while f z = [].
Proof. induction z as [|c r IH]; [reflexivity|]. simpl. destruct (f c); [exact IH|discriminate]. Qed.

Lemma drop_while_snoc f z c : f c = true ->
  drop_while f (z ++ [c]) = if forallb f z then [] else drop_while f z ++ [c].
Proof.
  intros Hc. induction z as [|a r IH]; simpl; [rewrite Hc; reflexivity|].
  destruct (f a); [exact IH|reflexivity].
Qed.

(* E y = rev (trim (rev y)) *)
Lemma trim_rev_cons c r : is_ws c = true ->
  drop_while is_ws (rev (drop_while is_ws (rev (c :: r)))) = drop_while is_ws (rev (drop_while is_ws (rev r))).
Proof.
  intros Hc. cbn [rev]. rewrite (drop_while_snoc is_ws (rev r) c Hc).
  destruct (forallb is_ws (rev r)) eqn:A.
  - rewrite (drop_while_all _ _ A). reflexivity.
  - rewrite rev_app_distr. cbn [rev app drop_while]. rewrite Hc. reflexivity.
Qed.

Lemma trim_trim_cr x : trim (trim_cr x) = trim x.
Proof.
  unfold trim, trim_cr, trim_matches, trim_end_matches, trim_start_matches.
  f_equal. rewrite <- (rev_involutive x) at 2. generalize (rev x) as y. clear x. intros y.
  induction y as [|c r IH]; [reflexivity|]. cbn [drop_while].
  destruct (13 =? c) eqn:E; [|reflexivity].
  apply N.eqb_eq in E. subst c. rewrite IH. symmetry. apply trim_rev_cons. reflexivity.
Qed.

Lemma marker_nonempty raw : ref_is_marker raw = true -> trim raw <> [].
Proof.
  unfold ref_is_marker, ref_line_text. rewrite orb_true_iff, !str_eqb_eq. intros [->| ->]; discriminate.
Qed.

Lemma go_false_true ls : forall k p, In p (extract_bash_go false k ls) -> In p (extract_bash_go true k ls).
Proof.
  induction ls as [|raw r IH]; intros k p; [exact (fun H => H)|].
  cbn [extract_bash_go]. rewrite trim_trim_cr.
  destruct (trim raw) as [|c t] eqn:T.
  - cbn [is_empty]. change (str_eqb [] marker_bash || str_eqb [] marker_bash_tick) with false. cbv iota. exact (fun H => H).
  - cbn [is_empty]. destruct (str_eqb (c :: t) marker_bash || str_eqb (c :: t) marker_bash_tick); intros H; right; [exact H|apply IH; exact H].
Qed.

Lemma run_below_go ls : forall k x, In x (ref_run_below ls) -> exists n, In (n, x) (extract_bash_go true k ls).
Proof.
  induction ls as [|raw r IH]; intros k x; [contradiction|].
  cbn [ref_run_below extract_bash_go]. rewrite trim_trim_cr. unfold ref_line_text.
  destruct (trim raw) as [|c t] eqn:T; [contradiction|]. cbn [is_empty].
  intros [<-|H].
  - exists (k + 1). left. reflexivity.
  - destruct (IH (k + 1) x H) as [n Hn]. exists n. right. exact Hn.
Qed.

Lemma shell_lines_go ls : forall k x, In x (ref_shell_lines_of ls) -> exists n, In (n, x) (extract_bash_go false k ls).
Proof.
  induction ls as [|raw r IH]; intros k x; [contradiction|].
  cbn [ref_shell_lines_of extract_bash_go]. rewrite trim_trim_cr. intros H. apply in_app_or in H.
  unfold ref_is_marker, ref_line_text in H.
  change (s "!bash") with marker_bash in H. change (s "!`bash`") with marker_bash_tick in H.
  destruct (str_eqb (trim raw) marker_bash || str_eqb (trim raw) marker_bash_tick) eqn:M.
  - destruct H as [H|H]; [exact (run_below_go r (k + 1) x H)|].
    destruct (IH (k + 1) x H) as [n Hn]. exists n. apply go_false_true. exact Hn.
  - destruct H as [H|H]; [contradiction|]. exact (IH (k + 1) x H).
Qed.

Lemma ref_shell_lines_extracted md x :
  In x (ref_shell_lines md) -> exists n, In (n, x) (extract_bash_commands md).
Proof. apply shell_lines_go. Qed.

Lemma shell_lines_marker ls x : In x (ref_shell_lines_of ls) -> exists l, In l ls /\ ref_is_marker l = true.
Proof.
  induction ls as [|raw r IH]; [contradiction|]. cbn [ref_shell_lines_of]. intros H. apply in_app_or in H.
  destruct H as [H|H].
  - destruct (ref_is_marker raw) eqn:M; [|contradiction]. exists raw. split; [left; reflexivity|exact M].
  - destruct (IH H) as (l & Hl & Hm). exists l. split; [right; exact Hl|exact Hm].
Qed.

(* substrings *)
Definition sub (p x : str) : Prop := exists a b, x = a ++ p ++ b.

Lemma sub_trans p q x : sub p q -> sub q x -> sub p x.
Proof.
  intros (a & b & ->) (c & d & ->). exists (c ++ a), (b ++ d). rewrite <- !app_assoc. reflexivity.
Qed.

Lemma sub_contains p x : sub p x -> contains p x = true.
Proof.
  intros (a & b & ->). induction a as [|c a IH].
  - destruct (p ++ b) eqn:E; simpl; rewrite <- ?E; apply orb_true_iff; left; apply starts_with_iff; exists b; auto.
  - cbn [app contains]. rewrite IH. apply orb_true_r.
Qed.

Lemma drop_while_suffix f x : exists a, x = a ++ drop_while f x.
Proof.
  induction x as [|c r [a IH]]; [exists []; reflexivity|]. simpl. destruct (f c).
  - exists (c :: a). simpl. f_equal. exact IH.
  - exists []. reflexivity.
Qed.

Lemma trim_end_matches_prefix f x : exists b, x = trim_end_matches f x ++ b.
Proof.
  unfold trim_end_matches. destruct (drop_while_suffix f (rev x)) as [a H].
  exists (rev a). rewrite <- (rev_involutive x) at 1. rewrite H at 1. apply rev_app_distr.
Qed.

Lemma trim_sub x : sub (trim x) x.
Proof.
  unfold trim, trim_matches, trim_start_matches.
  destruct (drop_while_suffix is_ws x) as [a Ha].
  destruct (trim_end_matches_prefix is_ws (drop_while is_ws x)) as [b Hb].
  exists a, b. rewrite <- Hb. exact Ha.
Qed.

Lemma strip_prefix_eq p : forall x r, strip_prefix p x = Some r -> x = p ++ r.
Proof.
  induction p as [|a p IH]; intros x r; simpl; [intros H; injection H as ->; reflexivity|].
  destruct x as [|b x]; [discriminate|]. destruct (a =? b) eqn:E; [|discriminate].
  apply N.eqb_eq in E. subst. intros H. f_equal. apply IH. exact H.
Qed.

Lemma strip_suffix_eq p x r : strip_suffix p x = Some r -> x = r ++ p.
Proof.
  unfold strip_suffix. destruct (strip_prefix (rev p) (rev x)) as [q|] eqn:E; [|discriminate].
  intros H. injection H as <-. apply strip_prefix_eq in E.
  rewrite <- (rev_involutive x), E, rev_app_distr, rev_involutive. reflexivity.
Qed.

Lemma concat_split_inclusive x : concat (split_inclusive_nl x) = x.
Proof.
  induction x as [|a r IH]; [reflexivity|]. cbn [split_inclusive_nl].
  destruct (a =? 10); [simpl; f_equal; exact IH|].
  destruct (split_inclusive_nl r) as [|h t]; simpl in *; [rewrite <- IH; reflexivity|f_equal; exact IH].
Qed.

Lemma line_sub md l : In l (lines md) -> sub l md.
Proof.
  unfold lines. rewrite in_map_iff. intros (q & <- & Hq).
  assert (Hs : sub q md).
  { apply in_split in Hq. destruct Hq as (l1 & l2 & E). rewrite <- (concat_split_inclusive md), E.
    exists (concat l1), (concat l2). rewrite concat_app. reflexivity. }
  refine (sub_trans _ q _ _ Hs).
  destruct (strip_suffix [10] q) as [r|] eqn:E1.
  - apply strip_suffix_eq in E1. unfold strip_cr. destruct (strip_suffix [13] r) as [r2|] eqn:E2.
    + apply strip_suffix_eq in E2. exists [], ([13] ++ [10]). rewrite E1, E2, <- !app_assoc. reflexivity.
    + exists [], [10]. exact E1.
  - exists [], []. rewrite app_nil_r. reflexivity.
Qed.

Lemma ref_shell_lines_uses_bash md x : In x (ref_shell_lines md) -> uses_bash_tool md = true.
Proof.
  intros H. destruct (shell_lines_marker _ _ H) as (l & Hl & Hm).
  unfold ref_is_marker, ref_line_text in Hm. unfold uses_bash_tool.
  pose proof (sub_trans _ _ _ (trim_sub l) (line_sub md l Hl)) as Hs.
  rewrite orb_true_iff, !str_eqb_eq in Hm. apply orb_true_iff.
  destruct Hm as [E|E]; rewrite E in Hs; [left|right]; apply sub_contains; exact Hs.
Qed.

(* ------------------------------------------------------------------ E. soundness of the rule *)

Lemma flat_map_nil {A B} (f : A -> list B) l : flat_map f l = [] -> forall x, In x l -> f x = [].
Proof.
  induction l as [|a l IH]; [contradiction|]. cbn [flat_map]. intros H x [<-|Hx].
  - destruct (f a); [reflexivity|discriminate].
  - apply IH; [|exact Hx]. destruct (f a); [exact H|discriminate].
Qed.

Lemma dangerous_sound md :
  dangerous_issues md = [] ->
  forall inv, In inv (ref_invocations md) -> ref_mutating inv = true ->
  has_flag f_json inv = true /\ has_flag f_yes inv = true.
Proof.
  intros Hd inv Hin Hm. unfold ref_invocations in Hin. apply in_flat_map in Hin.
  destruct Hin as (line & Hline & Hinv).
  destruct (ref_shell_lines_extracted md line Hline) as [n Hn].
  unfold dangerous_issues in Hd. pose proof (flat_map_nil _ _ Hd (n, line) Hn) as H0. cbn [fst snd] in H0.
  apply map_eq_nil in H0. rewrite invocations_equiv in H0.
  assert (Hi : inv_issue inv = false).
  { destruct (inv_issue inv) eqn:E; [|reflexivity].
    assert (In inv (filter inv_issue (ref_invocations_line line))) by (apply filter_In; split; assumption).
    rewrite H0 in H. contradiction. }
  unfold inv_issue in Hi. rewrite (ref_mutating_lint inv Hm) in Hi. cbn [andb] in Hi.
  apply negb_false_iff, andb_true_iff in Hi. exact Hi.
Qed.
