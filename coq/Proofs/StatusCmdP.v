(* Proofs/StatusCmdP.v — the status command as a whole (cli/commands/status.rs run): what is listed is the --only
   subset of the report, and EVERY summary it prints — overall and per (target, root) — counts exactly the listed
   items; summary_total (only with --only) counts the unfiltered report. *)
From AP Require Import Base.Str Base.StrFacts Base.Sorting Gen.Tables Model.Deploy Model.Status Proofs.DeployP Proofs.StatusP.
From Coq Require Import Lia Arith.
Open Scope N_scope.

Lemma gk_eqb_eq a b : gk_eqb a b = true <-> a = b.
Proof.
  destruct a as [ta ra], b as [tb rb]. unfold gk_eqb. cbn [fst snd]. split.
  - intros H. apply andb_prop in H as [H1 H2]. apply str_eqb_eq in H1. subst tb.
    destruct ra as [x|], rb as [y|]; try discriminate; [apply path_eqb_eq in H2; subst; reflexivity | reflexivity].
  - intros E. inversion E; subst. rewrite str_eqb_refl. destruct rb; [apply path_eqb_eq; reflexivity | reflexivity].
Qed.

Lemma mem_gk seen g : existsb (gk_eqb g) seen = true <-> In g seen.
Proof.
  rewrite existsb_exists. split.
  - intros [x [Hx E]]. apply gk_eqb_eq in E. subst. exact Hx.
  - intros H. exists g. split; [exact H | apply gk_eqb_eq; reflexivity].
Qed.

Definition key_of (it : ditem) : group_key := (i_target it, i_root it).

Lemma same_root_key t rt it : same_root t rt it = true <-> key_of it = (t, rt).
Proof.
  unfold same_root, key_of. split.
  - intros H. apply andb_prop in H as [H1 H2]. apply str_eqb_eq in H1. rewrite H1.
    destruct rt as [a|], (i_root it) as [b|]; try discriminate; [apply path_eqb_eq in H2; subst; reflexivity | reflexivity].
  - intros E. inversion E as [[E1 E2]]. rewrite str_eqb_refl. destruct (i_root it); [apply path_eqb_eq; reflexivity | reflexivity].
Qed.

Lemma groups_of_sound l : forall seen g, In g (groups_of seen l) -> ~ In g seen /\ exists it, In it l /\ key_of it = g.
Proof.
  induction l as [|it r IH]; intros seen g H; cbn [groups_of] in H; [contradiction|].
  fold (key_of it) in H. destruct (existsb (gk_eqb (key_of it)) seen) eqn:E.
  - destruct (IH _ _ H) as [Hn [x [Hx Hk]]]. split; [exact Hn|]. exists x. split; [right; exact Hx | exact Hk].
  - destruct H as [<-|H].
    + split; [intros Hin; apply mem_gk in Hin; congruence|]. exists it. split; [left; reflexivity | reflexivity].
    + destruct (IH _ _ H) as [Hn [x [Hx Hk]]]. split; [intros Hin; apply Hn; right; exact Hin|].
      exists x. split; [right; exact Hx | exact Hk].
Qed.

Lemma groups_of_complete l : forall seen it, In it l -> In (key_of it) seen \/ In (key_of it) (groups_of seen l).
Proof.
  induction l as [|x r IH]; intros seen it H; [contradiction|]. cbn [groups_of]. fold (key_of x).
  destruct H as [->|H].
  - destruct (existsb (gk_eqb (key_of it)) seen) eqn:E; [left; apply mem_gk; exact E | right; left; reflexivity].
  - destruct (existsb (gk_eqb (key_of x)) seen) eqn:E.
    + apply IH. exact H.
    + destruct (IH (key_of x :: seen) it H) as [[Hx|Hs]|Hg].
      * right. left. exact Hx.
      * left. exact Hs.
      * right. right. exact Hg.
Qed.

Lemma groups_of_nodup l : forall seen, NoDup (groups_of seen l).
Proof.
  induction l as [|x r IH]; intros seen; cbn [groups_of]; [constructor|]. fold (key_of x).
  destruct (existsb (gk_eqb (key_of x)) seen); [apply IH|].
  constructor; [|apply IH]. intros Hin. apply groups_of_sound in Hin as [Hn _]. apply Hn. left. reflexivity.
Qed.

Theorem summary_by_root_spec l :
  (forall g s, In (g, s) (summary_by_root l) ->
     s = drift_summary (filter (same_root (fst g) (snd g)) l) /\ exists it, In it l /\ same_root (fst g) (snd g) it = true) /\
  (forall it, In it l -> exists s, In (key_of it, s) (summary_by_root l)) /\
  NoDup (map fst (summary_by_root l)).
Proof.
  unfold summary_by_root. split; [|split].
  - intros g s H. apply in_map_iff in H as [g' [E Hg]]. inversion E; subst. split; [reflexivity|].
    apply groups_of_sound in Hg as [_ [it [Hit Hk]]]. exists it. split; [exact Hit|]. apply same_root_key. rewrite Hk. destruct g; reflexivity.
  - intros it H. destruct (groups_of_complete l [] it H) as [[]|Hg].
    exists (summary_of_root (fst (key_of it)) (snd (key_of it)) l). apply in_map_iff. exists (key_of it). split; [reflexivity | exact Hg].
  - rewrite map_map. cbn [fst]. rewrite map_id. apply groups_of_nodup.
Qed.

Theorem status_cmd_spec only f U roots D :
  let o := status_cmd only f U roots D in
  let all := report f U roots D in
  so_drift o = filter_only only all /\
  so_summary o = drift_summary (so_drift o) /\
  (forall g s, In (g, s) (so_by_root o) ->
     s = drift_summary (filter (same_root (fst g) (snd g)) (so_drift o)) /\
     exists it, In it (so_drift o) /\ same_root (fst g) (snd g) it = true) /\
  (forall it, In it (so_drift o) -> exists s, In ((i_target it, i_root it), s) (so_by_root o)) /\
  NoDup (map fst (so_by_root o)) /\
  so_total o = match only with [] => None | _ => Some (drift_summary all) end.
Proof.
  cbv zeta. unfold status_cmd. cbn [so_drift so_summary so_by_root so_total].
  destruct (summary_by_root_spec (filter_only only (report f U roots D))) as (H1 & H2 & H3).
  split; [reflexivity|]. split; [reflexivity|]. split; [exact H1|]. split; [exact H2|]. split; [exact H3|reflexivity].
Qed.
