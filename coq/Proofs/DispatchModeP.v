(* Proofs/DispatchModeP.v — the confirmation guard and the output mode (C08).
   A refusal happens only in --json mode without --yes; with --yes the outcome, the writes and the
   reports of every handler are the same with and without --json (the guard is the only
   mode-dependent step of any handler). *)
From AP Require Import Base.Str Base.StrFacts Model.Dispatch Proofs.DispatchP.
From AP Require Gen.Tables.
Open Scope N_scope.

(* for ANY handler program (not only those of the table): a refusal implies --json without --yes *)
Lemma run_refused_mode p f lit :
  r_out (run p f) = ORefused lit -> f_json f = true /\ f_yes f = false.
Proof.
  induction p as [|st p IH]; simpl; [discriminate|].
  destruct st as [c code|c|c l|t|c w]; simpl.
  - destruct (c f); simpl; [discriminate|auto].
  - destruct (c f); simpl; [discriminate|auto].
  - destruct (f_json f && negb (f_yes f) && c f) eqn:G; simpl; [|auto].
    intros _. apply andb_true_iff in G. destruct G as [G _].
    apply andb_true_iff in G. destruct G as [Gj Gy].
    split; [exact Gj|]. destruct (f_yes f); [discriminate Gy|reflexivity].
  - auto.
  - destruct (c f); simpl; auto.
Qed.

Lemma refused_mode base f lit :
  guard base f = Some (ConfirmRequired lit) -> f_json f = true /\ f_yes f = false.
Proof.
  unfold guard, exec. destruct (r_out (run (prog_of base) f)) eqn:R; try discriminate.
  intros _. eapply run_refused_mode; eassumption.
Qed.

(* never refused with --yes, never refused in human mode *)
Lemma yes_never_refused base f : f_yes f = true -> guard base f = None.
Proof.
  intros Hy. destruct (guard base f) as [[lit]|] eqn:G; [|reflexivity].
  apply refused_mode in G. destruct G as [_ G]. rewrite G in Hy. discriminate.
Qed.

Lemma human_never_refused base f : f_json f = false -> guard base f = None.
Proof.
  intros Hj. destruct (guard base f) as [[lit]|] eqn:G; [|reflexivity].
  apply refused_mode in G. destruct G as [G _]. rewrite G in Hj. discriminate.
Qed.

(* the refused invocation, re-issued with --yes, is not refused *)
Lemma retry_with_yes_not_refused base f : guard base (with_yes f) = None.
Proof. apply yes_never_refused. destruct f; reflexivity. Qed.

Definition with_json (b : bool) (f : facts) : facts :=
  mkFacts b (f_yes f) (f_dry f) (f_apply f) (f_fix f) (f_guided f) (f_lock f) (f_fetch f)
          (f_nolock f) (f_nofetch f) (w_pre_ok f) (w_tty f) (w_cfg_exists f) (w_plan_nonempty f)
          (w_manifest_missing f) (w_adopt_blocked f) (w_boot_nonempty f) (w_missing_outputs f)
          (w_drift f) (w_lockfile f) (w_has_creates f) (w_git_repo f) (w_git_dirty f) (w_body_writes f).

(* with --yes, --json changes nothing a handler decides: same outcome, same writes, same reports *)
Lemma yes_json_indep base f b : f_yes f = true -> exec base (with_json b f) = exec base f.
Proof.
  intros Hy. unfold exec, prog_of.
  destruct (lookup base table) as [p|] eqn:L; [|reflexivity].
  open_facts f. simpl in Hy. subst y.
  table_cases L; vm_compute; split_bools; reflexivity.
Qed.

(* what --yes unlocks is exactly what the human-mode invocation does: the --json --yes invocation
   has the effects of the same invocation without --json (with or without --yes there) *)
Lemma human_yes_indep base f yy :
  f_json f = false ->
  exec base (mkFacts false yy (f_dry f) (f_apply f) (f_fix f) (f_guided f) (f_lock f) (f_fetch f)
          (f_nolock f) (f_nofetch f) (w_pre_ok f) (w_tty f) (w_cfg_exists f) (w_plan_nonempty f)
          (w_manifest_missing f) (w_adopt_blocked f) (w_boot_nonempty f) (w_missing_outputs f)
          (w_drift f) (w_lockfile f) (w_has_creates f) (w_git_repo f) (w_git_dirty f) (w_body_writes f))
  = exec base f.
Proof.
  intros Hj. unfold exec, prog_of.
  destruct (lookup base table) as [p|] eqn:L; [|reflexivity].
  open_facts f. simpl in Hj. subst j.
  table_cases L; vm_compute; split_bools; reflexivity.
Qed.
