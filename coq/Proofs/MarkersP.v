(* Proofs/MarkersP.v — lemmas about Model/Markers.v (property C17). *)
From AP Require Import Base.Str Base.StrFacts Gen.Tables Model.Markers.
From Coq Require Import Lia.
Open Scope N_scope.

(* ------------------------------------------------------------------ generic list/string facts *)

Lemma forallb_rev {A} (f : A -> bool) l : forallb f (rev l) = forallb f l.
Proof.
  induction l as [|a l IH]; simpl; [reflexivity|].
  rewrite forallb_app, IH. simpl. rewrite andb_true_r. apply andb_comm.
Qed.

Lemma dw_len f x : (length (drop_while f x) <= length x)%nat.
Proof. induction x as [|c r IH]; simpl; [lia|]. destruct (f c); simpl; lia. Qed.

Lemma dw_fix f x : length (drop_while f x) = length x -> drop_while f x = x.
Proof.
  destruct x as [|c r]; simpl; [reflexivity|]. destruct (f c); [|reflexivity].
  intros H. pose proof (dw_len f r). lia.
Qed.

Lemma dw_all f pre z : forallb f pre = true -> drop_while f (pre ++ z) = drop_while f z.
Proof.
  induction pre as [|c r IH]; simpl; [reflexivity|]. intros H.
  apply andb_true_iff in H as [H1 H2]. rewrite H1. auto.
Qed.

Lemma dw_all_nil f pre : forallb f pre = true -> drop_while f pre = [].
Proof. intros H. rewrite <- (app_nil_r pre). rewrite dw_all by exact H. reflexivity. Qed.

Lemma dw_head f x y : x <> [] -> drop_while f x = x -> drop_while f (x ++ y) = x ++ y.
Proof.
  destruct x as [|c r]; [congruence|]. intros _. simpl. destruct (f c) eqn:E; [|reflexivity].
  intros H. pose proof (dw_len f r) as L. rewrite H in L. simpl in L. lia.
Qed.

Definition tight (x : str) : Prop :=
  drop_while is_ws x = x /\ drop_while is_ws (rev x) = rev x.

Lemma trim_unfold x : trim x = rev (drop_while is_ws (rev (drop_while is_ws x))).
Proof. reflexivity. Qed.

Lemma trim_eq_tight x : trim x = x -> tight x.
Proof.
  intros H. rewrite trim_unfold in H.
  assert (L : length (rev (drop_while is_ws (rev (drop_while is_ws x)))) = length x) by (rewrite H; reflexivity).
  rewrite rev_length in L.
  pose proof (dw_len is_ws (rev (drop_while is_ws x))) as L1. rewrite rev_length in L1.
  pose proof (dw_len is_ws x) as L2.
  assert (E1 : drop_while is_ws x = x) by (apply dw_fix; lia).
  split; [exact E1|]. apply dw_fix. rewrite E1 in L. rewrite rev_length. lia.
Qed.

Lemma trim_sandwich pre y post :
  forallb is_ws pre = true -> forallb is_ws post = true -> tight y -> trim (pre ++ y ++ post) = y.
Proof.
  intros Hpre Hpost [T1 T2]. rewrite trim_unfold. rewrite dw_all by exact Hpre.
  destruct y as [|c r].
  - simpl. rewrite (dw_all_nil is_ws post Hpost). reflexivity.
  - rewrite dw_head by (congruence || exact T1). rewrite rev_app_distr.
    rewrite dw_all by (rewrite forallb_rev; exact Hpost). rewrite T2. apply rev_involutive.
Qed.

Lemma tight_ends a m b : is_ws a = false -> is_ws b = false -> tight (a :: m ++ [b]).
Proof.
  intros Ha Hb. split.
  - simpl. rewrite Ha. reflexivity.
  - simpl. rewrite rev_app_distr. simpl. rewrite Hb. reflexivity.
Qed.

Lemma sw_app p z : starts_with p (p ++ z) = true.
Proof. induction p as [|a p IH]; simpl; [reflexivity|]. rewrite N.eqb_refl. exact IH. Qed.

Lemma sp_app p z : strip_prefix p (p ++ z) = Some z.
Proof. induction p as [|a p IH]; simpl; [reflexivity|]. rewrite N.eqb_refl. exact IH. Qed.

Lemma ew_app p z : ends_with p (z ++ p) = true.
Proof. unfold ends_with. rewrite rev_app_distr. apply sw_app. Qed.

Lemma ss_app p z : strip_suffix p (z ++ p) = Some z.
Proof. unfold strip_suffix. rewrite rev_app_distr, sp_app, rev_involutive. reflexivity. Qed.

Lemma sw_inv p : forall x, starts_with p x = true -> exists z, x = p ++ z.
Proof.
  induction p as [|a p IH]; intros x H; simpl in *; [eauto|].
  destruct x as [|b x]; [discriminate|]. apply andb_true_iff in H as [H1 H2].
  apply N.eqb_eq in H1. subst b. destruct (IH _ H2) as [z ->]. eauto.
Qed.

Lemma ew_inv p x : ends_with p x = true -> exists z, x = z ++ p.
Proof.
  unfold ends_with. intros H. apply sw_inv in H as [z Hz]. exists (rev z).
  rewrite <- (rev_involutive x), Hz, rev_app_distr, rev_involutive. reflexivity.
Qed.

Lemma contains_app_l p z : contains p (p ++ z) = true.
Proof. destruct (p ++ z) eqn:E; simpl; rewrite <- E, sw_app; reflexivity. Qed.

Lemma mem_char_cons c a x : mem_char c (a :: x) = (c =? a) || mem_char c x.
Proof. reflexivity. Qed.

Lemma mem_char_app c x y : mem_char c (x ++ y) = mem_char c x || mem_char c y.
Proof. apply existsb_app. Qed.

(* ------------------------------------------------------------------ split_inclusive('\n') *)

Lemma split_nil_inv x : split_inclusive_nl x = [] -> x = [].
Proof.
  destruct x as [|a r]; [reflexivity|]. simpl. destruct (a =? 10); [discriminate|].
  destruct (split_inclusive_nl r); discriminate.
Qed.

Lemma split_snoc_app x : forall y,
  split_inclusive_nl (x ++ 10 :: y) = split_inclusive_nl (x ++ [10]) ++ split_inclusive_nl y.
Proof.
  induction x as [|a x IH]; intros y.
  - reflexivity.
  - rewrite <- !app_comm_cons. cbn [split_inclusive_nl]. destruct (a =? 10).
    + rewrite IH. reflexivity.
    + rewrite IH. destruct (split_inclusive_nl (x ++ [10])) as [|h t] eqn:E.
      * apply split_nil_inv in E. destruct x; discriminate.
      * reflexivity.
Qed.

Definition termd (x : str) : Prop := x = [] \/ exists x', x = x' ++ [10].

Lemma termd_b x : is_empty x || ends_with [nl] x = true -> termd x.
Proof.
  intros H. apply orb_true_iff in H as [H|H].
  - left. destruct x; [reflexivity|discriminate].
  - right. apply ew_inv in H. exact H.
Qed.

Lemma split_app_termd x y : termd x ->
  split_inclusive_nl (x ++ y) = split_inclusive_nl x ++ split_inclusive_nl y.
Proof.
  intros [->|[x' ->]]; [reflexivity|]. rewrite <- app_assoc. apply (split_snoc_app x' y).
Qed.

Lemma split_line x : mem_char 10 x = false -> split_inclusive_nl (x ++ [10]) = [x ++ [10]].
Proof.
  induction x as [|a x IH]; intros H; [reflexivity|].
  rewrite mem_char_cons in H. apply orb_false_iff in H as [H1 H2].
  simpl app. cbn [split_inclusive_nl]. rewrite N.eqb_sym, H1. rewrite (IH H2). reflexivity.
Qed.

Lemma split_last x : mem_char 10 x = false -> x <> [] -> split_inclusive_nl x = [x].
Proof.
  induction x as [|a x IH]; intros H Hne; [congruence|].
  rewrite mem_char_cons in H. apply orb_false_iff in H as [H1 H2].
  cbn [split_inclusive_nl]. rewrite N.eqb_sym, H1.
  destruct x as [|b x']; [reflexivity|]. rewrite (IH H2) by discriminate. reflexivity.
Qed.

Lemma concat_split x : concat (split_inclusive_nl x) = x.
Proof.
  induction x as [|a x IH]; [reflexivity|]. cbn [split_inclusive_nl]. destruct (a =? 10) eqn:E.
  - simpl. rewrite IH. reflexivity.
  - destruct (split_inclusive_nl x) as [|h t] eqn:S.
    + apply split_nil_inv in S. subst x. reflexivity.
    + simpl in *. rewrite IH. reflexivity.
Qed.

(* ------------------------------------------------------------------ facts about the table constants
   (re-checked by computation whenever Gen/Tables.v changes) *)

Lemma prefix_shape : exists c r, marker_start_prefix = c :: r /\ is_ws c = false.
Proof. vm_compute. do 2 eexists. split; reflexivity. Qed.

Lemma prefix_no_nl : mem_char 10 marker_start_prefix = false.
Proof. vm_compute. reflexivity. Qed.

Lemma end_no_nl : mem_char 10 marker_end = false.
Proof. vm_compute. reflexivity. Qed.

Lemma end_nonempty : marker_end <> [].
Proof. vm_compute. discriminate. Qed.

Lemma end_trim : trim marker_end = marker_end.
Proof. vm_compute. reflexivity. Qed.

Lemma end_trim_nl : trim (marker_end ++ [10]) = marker_end.
Proof. vm_compute. reflexivity. Qed.

Lemma seps_table_ok : forallb (fun p => sep_ok (snd p)) instructions_join_seps = true.
Proof. vm_compute. reflexivity. Qed.

(* ------------------------------------------------------------------ the start marker line *)

Lemma id_ok_inv id : id_ok id = true -> mem_char 10 id = false /\ tight id /\ id <> [].
Proof.
  unfold id_ok. intros H. apply andb_true_iff in H as [H H3]. apply andb_true_iff in H as [H1 H2].
  split; [|split].
  - destruct (mem_char nl id) eqn:E; [discriminate|exact E].
  - apply trim_eq_tight. apply str_eqb_eq. exact H2.
  - destruct id; [discriminate|congruence].
Qed.

Definition start_line (id : str) : str := marker_start_prefix ++ id ++ start_close.

Lemma start_line_parse id : id_ok id = true -> parse_start_marker (start_line id) = Some id.
Proof.
  intros H. destruct (id_ok_inv _ H) as (_ & Ht & Hne).
  destruct prefix_shape as (c & r & Hp & Hc).
  unfold parse_start_marker, start_line.
  assert (T : trim (marker_start_prefix ++ id ++ start_close)
              = marker_start_prefix ++ (id ++ [32]) ++ arrow_close).
  { change start_close with ([32] ++ arrow_close ++ [10]).
    replace (marker_start_prefix ++ id ++ [32] ++ arrow_close ++ [10])
      with ([] ++ (marker_start_prefix ++ (id ++ [32]) ++ arrow_close) ++ [10])
      by (simpl; rewrite <- !app_assoc; reflexivity).
    apply trim_sandwich; [reflexivity|reflexivity|].
    rewrite Hp. change arrow_close with ([45;45] ++ [62]).
    replace ((c :: r) ++ (id ++ [32]) ++ [45; 45] ++ [62])
      with (c :: (r ++ (id ++ [32]) ++ [45;45]) ++ [62])
      by (simpl; rewrite <- !app_assoc; reflexivity).
    apply tight_ends; [exact Hc|reflexivity]. }
  rewrite T. rewrite sw_app. cbn [negb].
  rewrite app_assoc, ew_app. cbn [negb]. rewrite <- app_assoc.
  rewrite sp_app, ss_app.
  replace (id ++ [32]) with ([] ++ id ++ [32]) by reflexivity.
  rewrite trim_sandwich by (reflexivity || exact Ht).
  destruct id; [congruence|reflexivity].
Qed.

Lemma start_line_no_nl id : mem_char 10 id = false ->
  start_line id = (marker_start_prefix ++ id ++ [32;45;45;62]) ++ [10]
  /\ mem_char 10 (marker_start_prefix ++ id ++ [32;45;45;62]) = false.
Proof.
  intros H. split.
  - unfold start_line, start_close. rewrite <- !app_assoc. reflexivity.
  - rewrite !mem_char_app, prefix_no_nl, H. reflexivity.
Qed.

(* ------------------------------------------------------------------ the line loop *)

Lemma run_app st l1 : forall l2,
  run_lines st (l1 ++ l2) =
  match run_lines st l1 with inl st' => run_lines st' l2 | inr e => inr e end.
Proof.
  revert st. induction l1 as [|l r IH]; intros st l2; [reflexivity|].
  simpl. destruct (step st l); [apply IH|reflexivity].
Qed.

Lemma run_body secs id : forall ls buf,
  forallb (fun l => negb (marker_like l)) ls = true ->
  run_lines (secs, Some (id, buf)) ls = inl (secs, Some (id, buf ++ concat ls)).
Proof.
  induction ls as [|l r IH]; intros buf H.
  - simpl. rewrite app_nil_r. reflexivity.
  - simpl in H. apply andb_true_iff in H as [H1 H2].
    unfold marker_like in H1. apply negb_true_iff in H1. apply orb_false_iff in H1 as [E1 E2].
    cbn [run_lines step]. rewrite E1.
    destruct (parse_start_marker l); [discriminate|].
    rewrite IH by exact H2. simpl. rewrite <- app_assoc. reflexivity.
Qed.

Lemma run_outside secs : forall ls,
  forallb (fun l => negb (is_start_marker l)) ls = true ->
  run_lines (secs, None) ls = inl (secs, None).
Proof.
  induction ls as [|l r IH]; intros H; [reflexivity|].
  simpl in H. apply andb_true_iff in H as [H1 H2]. unfold is_start_marker in H1.
  cbn [run_lines step]. destruct (parse_start_marker l); [discriminate|]. apply IH, H2.
Qed.

Lemma has_key_false k l : ~ In k (map fst l) -> has_key k l = false.
Proof.
  unfold has_key. induction l as [|[k' v] r IH]; intros H; [reflexivity|].
  simpl in *. destruct (str_eqb k k') eqn:E.
  - apply str_eqb_eq in E. subst. tauto.
  - apply IH. tauto.
Qed.

Lemma sec_run secs id body endl :
  id_ok id = true -> has_key id secs = false ->
  forallb (fun l => negb (marker_like l)) (split_inclusive_nl body) = true ->
  trim endl = marker_end ->
  run_lines (secs, None) (start_line id :: split_inclusive_nl body ++ [endl])
  = inl (secs ++ [(id, body)], None).
Proof.
  intros Hid Hk Hb He. cbn [run_lines step]. rewrite (start_line_parse _ Hid).
  rewrite run_app, run_body by exact Hb. cbn [run_lines step app].
  rewrite He, str_eqb_refl, Hk, concat_split. reflexivity.
Qed.

(* ------------------------------------------------------------------ lines of a section *)

Lemma body_ok_inv b : body_ok b = true ->
  termd b /\ forallb (fun l => negb (marker_like l)) (split_inclusive_nl b) = true.
Proof.
  unfold body_ok. intros H. apply andb_true_iff in H as [H1 H2]. split; [apply termd_b, H1|exact H2].
Qed.

Lemma split_section_mid id body rest : mem_char 10 id = false -> termd body ->
  split_inclusive_nl (raw_section id body ++ [10] ++ rest)
  = (start_line id :: split_inclusive_nl body ++ [marker_end ++ [10]]) ++ split_inclusive_nl rest.
Proof.
  intros Hid Hb. destruct (start_line_no_nl id Hid) as [E N].
  unfold raw_section.
  replace ((marker_start_prefix ++ id ++ start_close ++ body ++ marker_end) ++ [10] ++ rest)
    with (start_line id ++ body ++ (marker_end ++ [10]) ++ rest)
    by (unfold start_line; rewrite <- !app_assoc; reflexivity).
  rewrite split_app_termd by (right; eexists; exact E).
  rewrite split_app_termd by exact Hb.
  rewrite split_app_termd by (right; eexists; reflexivity).
  rewrite E, (split_line _ N), (split_line _ end_no_nl). cbn [app].
  rewrite <- (app_assoc (split_inclusive_nl body)). reflexivity.
Qed.

Lemma split_section_last id body : mem_char 10 id = false -> termd body ->
  split_inclusive_nl (raw_section id body)
  = start_line id :: split_inclusive_nl body ++ [marker_end].
Proof.
  intros Hid Hb. destruct (start_line_no_nl id Hid) as [E N].
  unfold raw_section.
  replace (marker_start_prefix ++ id ++ start_close ++ body ++ marker_end)
    with (start_line id ++ body ++ marker_end)
    by (unfold start_line; rewrite <- !app_assoc; reflexivity).
  rewrite split_app_termd by (right; eexists; exact E).
  rewrite split_app_termd by exact Hb.
  rewrite E, (split_line _ N), (split_last _ end_no_nl end_nonempty). reflexivity.
Qed.

Lemma sep_ok_inv sep : sep_ok sep = true ->
  exists tail, sep = 10 :: tail /\ termd tail
               /\ forallb (fun l => negb (is_start_marker l)) (split_inclusive_nl tail) = true.
Proof.
  destruct sep as [|c tail]; [discriminate|]. simpl. intros H.
  apply andb_true_iff in H as [H H3]. apply andb_true_iff in H as [H1 H2].
  apply N.eqb_eq in H1. subst c. exists tail. split; [reflexivity|]. split; [apply termd_b, H2|exact H3].
Qed.

(* ------------------------------------------------------------------ round trip on raw sections *)

Definition part_ok (p : str * str) : Prop := id_ok (fst p) = true /\ body_ok (snd p) = true.

Lemma join_cons2 sep (a b : str) r : join sep (a :: b :: r) = a ++ sep ++ join sep (b :: r).
Proof. reflexivity. Qed.

Lemma run_aggregate_raw sep : sep_ok sep = true -> forall ms secs,
  Forall part_ok ms -> NoDup (map fst secs ++ map fst ms) ->
  run_lines (secs, None) (split_inclusive_nl (aggregate_raw sep ms)) = inl (secs ++ ms, None).
Proof.
  intros Hsep. destruct (sep_ok_inv _ Hsep) as (tail & -> & Htail & Hout).
  induction ms as [|[id body] r IH]; intros secs Hok Hnd.
  - simpl. rewrite app_nil_r. reflexivity.
  - inversion Hok as [|p r' [Hid Hbody] Hr]; subst. simpl in Hid, Hbody.
    destruct (id_ok_inv _ Hid) as (Hnl & _ & _).
    destruct (body_ok_inv _ Hbody) as (Hterm & Hlines).
    assert (Hk : has_key id secs = false).
    { apply has_key_false. simpl in Hnd. apply NoDup_remove_2 in Hnd.
      intros Hin. apply Hnd. apply in_or_app. left. exact Hin. }
    destruct r as [|p2 r2].
    + unfold aggregate_raw. simpl map. cbn [join fst snd].
      rewrite split_section_last by assumption.
      apply sec_run; try assumption. apply end_trim.
    + unfold aggregate_raw in *. cbn [map]. rewrite join_cons2. cbn [fst snd].
      change ((10 :: tail) ++ ?x) with ([10] ++ tail ++ x).
      rewrite split_section_mid by assumption.
      rewrite (split_app_termd tail _ Htail).
      rewrite run_app, sec_run by (assumption || apply end_trim_nl).
      rewrite run_app, run_outside by exact Hout.
      change (raw_section (fst p2) (snd p2) :: map (fun p => raw_section (fst p) (snd p)) r2)
        with (map (fun p => raw_section (fst p) (snd p)) (p2 :: r2)).
      rewrite IH.
      * rewrite <- app_assoc. reflexivity.
      * exact Hr.
      * rewrite map_app. simpl map. rewrite <- app_assoc. exact Hnd.
Qed.

Lemma parse_aggregate_raw sep ms :
  sep_ok sep = true -> NoDup (map fst ms) -> Forall part_ok ms ->
  parse_sections (aggregate_raw sep ms) = POk ms.
Proof.
  intros Hs Hnd Hok. unfold parse_sections.
  rewrite (run_aggregate_raw sep Hs ms []) by assumption. reflexivity.
Qed.

(* ------------------------------------------------------------------ formatted sections *)

Definition norm (p : str * str) : str * str := (fst p, ensure_nl (snd p)).

Lemma format_raw id t : format_section id t = raw_section id (ensure_nl t).
Proof.
  unfold format_section, raw_section, ensure_nl. destruct (ends_with [nl] t).
  - reflexivity.
  - rewrite <- !app_assoc. reflexivity.
Qed.

Lemma aggregate_norm sep ms : aggregate sep ms = aggregate_raw sep (map norm ms).
Proof.
  unfold aggregate, aggregate_raw. rewrite map_map. f_equal. apply map_ext. intros [id t].
  apply format_raw.
Qed.

Lemma ensure_nl_ends t : ends_with [nl] (ensure_nl t) = true.
Proof.
  unfold ensure_nl. destruct (ends_with [nl] t) eqn:E; [exact E|]. apply ew_app.
Qed.

Lemma ensure_nl_idem t : ends_with [nl] t = true -> ensure_nl t = t.
Proof. unfold ensure_nl. intros ->. reflexivity. Qed.

Lemma text_ok_body t : text_ok t = true -> body_ok (ensure_nl t) = true.
Proof.
  unfold text_ok, body_ok. intros H. rewrite ensure_nl_ends, orb_true_r. exact H.
Qed.

Definition src_ok (p : str * str) : Prop := id_ok (fst p) = true /\ text_ok (snd p) = true.

Lemma src_ok_norm ms : Forall src_ok ms -> Forall part_ok (map norm ms).
Proof.
  induction 1 as [|[id t] r [H1 H2] Hr IH]; simpl; constructor; [|exact IH].
  split; [exact H1|apply text_ok_body, H2].
Qed.

Lemma map_fst_norm ms : map fst (map norm ms) = map fst ms.
Proof. rewrite map_map. apply map_ext. intros [? ?]. reflexivity. Qed.

Theorem roundtrip sep ms :
  sep_ok sep = true -> NoDup (map fst ms) -> Forall src_ok ms ->
  parse_sections (aggregate sep ms) = POk (map norm ms).
Proof.
  intros Hs Hnd Hok. rewrite aggregate_norm. apply parse_aggregate_raw.
  - exact Hs.
  - rewrite map_fst_norm. exact Hnd.
  - apply src_ok_norm, Hok.
Qed.

(* the renderer of the targets: one part ⇒ the text itself, no markers *)
Lemma render_single sep id t : render_instructions sep [(id, t)] = t.
Proof. reflexivity. Qed.

Lemma render_many sep ms : (2 <= length ms)%nat -> render_instructions sep ms = aggregate sep ms.
Proof.
  intros H. unfold render_instructions.
  destruct (1 <? N.of_nat (length ms)) eqn:E; [reflexivity|]. apply N.ltb_ge in E. lia.
Qed.

(* ------------------------------------------------------------------ attribution *)

Lemma lookup_mid pre : forall id v post, ~ In id (map fst pre) ->
  lookup id (pre ++ (id, v) :: post) = Some v.
Proof.
  induction pre as [|[k w] r IH]; intros id v post H; simpl.
  - rewrite str_eqb_refl. reflexivity.
  - simpl in H. destruct (str_eqb id k) eqn:E; [apply str_eqb_eq in E; subst; tauto|].
    apply IH. tauto.
Qed.

Lemma lookup_other pre : forall id v v' post k, k <> id ->
  lookup k (pre ++ (id, v) :: post) = lookup k (pre ++ (id, v') :: post).
Proof.
  induction pre as [|[k0 w] r IH]; intros id v v' post k H; simpl.
  - destruct (str_eqb k id) eqn:E; [apply str_eqb_eq in E; congruence|reflexivity].
  - destruct (str_eqb k k0); [reflexivity|]. apply IH, H.
Qed.

Theorem attribution sep pre id t t' post :
  sep_ok sep = true ->
  NoDup (map fst (pre ++ (id, t) :: post)) ->
  Forall src_ok (pre ++ (id, t) :: post) -> text_ok t' = true ->
  exists m m',
    parse_sections (aggregate sep (pre ++ (id, t) :: post)) = POk m /\
    parse_sections (aggregate sep (pre ++ (id, t') :: post)) = POk m' /\
    lookup id m = Some (ensure_nl t) /\ lookup id m' = Some (ensure_nl t') /\
    (forall k, k <> id -> lookup k m' = lookup k m).
Proof.
  intros Hs Hnd Hok Ht'.
  assert (Hnd' : NoDup (map fst (pre ++ (id, t') :: post))).
  { rewrite map_app in *. exact Hnd. }
  assert (Hok' : Forall src_ok (pre ++ (id, t') :: post)).
  { apply Forall_app in Hok as [H1 H2]. apply Forall_app. split; [exact H1|].
    inversion H2 as [|? ? [Hi _] Hr]; subst. constructor; [split; [exact Hi|exact Ht']|exact Hr]. }
  assert (Hnin : ~ In id (map fst (map norm pre))).
  { rewrite map_fst_norm. rewrite map_app in Hnd. simpl in Hnd. apply NoDup_remove_2 in Hnd.
    intros Hin. apply Hnd. apply in_or_app. left. exact Hin. }
  exists (map norm (pre ++ (id, t) :: post)), (map norm (pre ++ (id, t') :: post)).
  split; [apply roundtrip; assumption|]. split; [apply roundtrip; assumption|].
  rewrite !map_app. cbn [map norm fst snd].
  split; [apply lookup_mid, Hnin|]. split; [apply lookup_mid, Hnin|].
  intros k Hk. apply lookup_other, Hk.
Qed.

(* the aggregated file is  P ++ (stored text of the module) ++ S  with P, S independent of the text *)
Lemma join_mid sep (l1 : list str) : forall a l2,
  join sep (l1 ++ a :: l2)
  = (match l1 with [] => [] | _ => join sep l1 ++ sep end) ++ a
    ++ (match l2 with [] => [] | _ => sep ++ join sep l2 end).
Proof.
  induction l1 as [|x r IH]; intros a l2.
  - simpl. destruct l2; [rewrite app_nil_r; reflexivity|reflexivity].
  - destruct r as [|y r'].
    + simpl app. rewrite join_cons2. specialize (IH a l2). simpl app in IH. rewrite IH.
      simpl. rewrite <- !app_assoc. reflexivity.
    + change ((x :: y :: r') ++ a :: l2) with (x :: y :: (r' ++ a :: l2)).
      rewrite join_cons2. change (y :: r' ++ a :: l2) with ((y :: r') ++ a :: l2). rewrite IH.
      rewrite join_cons2. rewrite <- !app_assoc. reflexivity.
Qed.

Theorem section_locality sep pre id post : exists P S, forall t,
  aggregate sep (pre ++ (id, t) :: post) = P ++ ensure_nl t ++ S.
Proof.
  set (f := fun p : str * str => format_section (fst p) (snd p)).
  exists ((match map f pre with [] => [] | _ => join sep (map f pre) ++ sep end)
          ++ marker_start_prefix ++ id ++ start_close),
         (marker_end ++ (match map f post with [] => [] | _ => sep ++ join sep (map f post) end)).
  intros t. unfold aggregate. fold f. rewrite map_app. cbn [map]. rewrite join_mid.
  unfold f at 3. cbn [fst snd]. rewrite format_raw. unfold raw_section.
  rewrite <- !app_assoc. reflexivity.
Qed.

(* ------------------------------------------------------------------ capture fix-point *)

(* one entry per module: (id, source text, section body found on disk) *)
Definition tri := (str * str * str)%type.
Definition t_id (z : tri) : str := fst (fst z).
Definition t_src (z : tri) : str := snd (fst z).
Definition t_body (z : tri) : str := snd z.
Definition srcs (zs : list tri) : list (str * str) := map (fun z => (t_id z, t_src z)) zs.
Definition disk (zs : list tri) : list (str * str) := map (fun z => (t_id z, t_body z)) zs.

Definition tri_ok (z : tri) : Prop :=
  id_ok (t_id z) = true /\ text_ok (t_src z) = true /\ body_ok (t_body z) = true.

Lemma lookup_map_in {A} (key : A -> str) (val : A -> str) (l : list A) : forall z,
  NoDup (map key l) -> In z l -> lookup (key z) (map (fun x => (key x, val x)) l) = Some (val z).
Proof.
  induction l as [|x r IH]; intros z Hnd Hin; [contradiction|].
  simpl. inversion Hnd as [|? ? Hx Hr]; subst. destruct Hin as [->|Hin].
  - rewrite str_eqb_refl. reflexivity.
  - destruct (str_eqb (key z) (key x)) eqn:E.
    + apply str_eqb_eq in E. exfalso. apply Hx. rewrite <- E. apply in_map, Hin.
    + apply IH; assumption.
Qed.

Lemma lookup_not_in k l : ~ In k (map fst l) -> lookup k l = None.
Proof.
  induction l as [|[k' v] r IH]; intros H; [reflexivity|]. simpl in *.
  destruct (str_eqb k k') eqn:E; [apply str_eqb_eq in E; subst; tauto|]. apply IH. tauto.
Qed.

Lemma flat_map_ext_in {A B} (f g : A -> list B) l :
  (forall a, In a l -> f a = g a) -> flat_map f l = flat_map g l.
Proof.
  induction l as [|a r IH]; intros H; [reflexivity|]. simpl. rewrite H by (left; reflexivity).
  f_equal. apply IH. intros b Hb. apply H. right. exact Hb.
Qed.

Definition changed (z : tri) : bool := negb (str_eqb (ensure_nl (t_src z)) (t_body z)).
Definition delta (z : tri) : list (str * str) := if changed z then [(t_id z, t_body z)] else [].

Lemma delta_keys zs k : In k (map fst (flat_map delta zs)) -> In k (map t_id zs).
Proof.
  induction zs as [|z r IH]; simpl; [tauto|]. rewrite map_app, in_app_iff. intros [H|H].
  - unfold delta in H. destruct (changed z); simpl in H; [left; tauto|contradiction].
  - right. apply IH, H.
Qed.

Lemma lookup_delta zs : forall z, NoDup (map t_id zs) -> In z zs ->
  lookup (t_id z) (flat_map delta zs) = if changed z then Some (t_body z) else None.
Proof.
  induction zs as [|x r IH]; intros z Hnd Hin; [contradiction|].
  inversion Hnd as [|? ? Hx Hr]; subst. simpl. destruct Hin as [->|Hin].
  - unfold delta at 1. destruct (changed z).
    + simpl. rewrite str_eqb_refl. reflexivity.
    + simpl. apply lookup_not_in. intros H. apply Hx. apply delta_keys, H.
  - assert (E : str_eqb (t_id z) (t_id x) = false).
    { apply str_eqb_neq. intros E. apply Hx. rewrite <- E. apply in_map, Hin. }
    unfold delta at 1. destruct (changed x); simpl; [rewrite E|]; apply IH; assumption.
Qed.

Lemma capture_eq sep zs :
  sep_ok sep = true -> zs <> [] -> NoDup (map t_id zs) -> Forall tri_ok zs ->
  capture (aggregate sep (srcs zs)) (aggregate_raw sep (disk zs)) (map t_id zs)
  = if is_nil (flat_map delta zs) then None else Some (flat_map delta zs).
Proof.
  intros Hs Hne Hnd Hok.
  assert (Fs : map fst (srcs zs) = map t_id zs) by (unfold srcs; rewrite map_map; reflexivity).
  assert (Fd : map fst (disk zs) = map t_id zs) by (unfold disk; rewrite map_map; reflexivity).
  assert (Pd : parse_sections (aggregate sep (srcs zs)) = POk (map norm (srcs zs))).
  { apply roundtrip; [exact Hs|rewrite Fs; exact Hnd|].
    unfold srcs. apply Forall_map. eapply Forall_impl; [|exact Hok].
    intros z (H1 & H2 & _). split; assumption. }
  assert (Pa : parse_sections (aggregate_raw sep (disk zs)) = POk (disk zs)).
  { apply parse_aggregate_raw; [exact Hs|rewrite Fd; exact Hnd|].
    unfold disk. apply Forall_map. eapply Forall_impl; [|exact Hok].
    intros z (H1 & _ & H3). split; assumption. }
  assert (Nd : map norm (srcs zs) = map (fun z => (t_id z, ensure_nl (t_src z))) zs).
  { unfold srcs. rewrite map_map. reflexivity. }
  unfold capture.
  assert (C1 : contains marker_start_prefix (aggregate sep (srcs zs)) = true).
  { destruct zs as [|z r]; [congruence|]. unfold aggregate. cbn [srcs map].
    destruct (map (fun z0 => (t_id z0, t_src z0)) r); cbn [map join fst snd];
      unfold format_section; rewrite <- ?app_assoc; apply contains_app_l. }
  assert (C2 : contains marker_start_prefix (aggregate_raw sep (disk zs)) = true).
  { destruct zs as [|z r]; [congruence|]. unfold aggregate_raw. cbn [disk map].
    destruct (map (fun z0 => (t_id z0, t_body z0)) r); cbn [map join fst snd];
      unfold raw_section; rewrite <- ?app_assoc; apply contains_app_l. }
  rewrite C1, C2. cbn [negb]. rewrite Pd, Pa, Nd. unfold disk.
  assert (Ld : forall z, In z zs ->
             lookup (t_id z) (map (fun z => (t_id z, ensure_nl (t_src z))) zs) = Some (ensure_nl (t_src z))).
  { intros z Hz. apply (lookup_map_in t_id (fun z => ensure_nl (t_src z))); assumption. }
  assert (La : forall z, In z zs ->
             lookup (t_id z) (map (fun z => (t_id z, t_body z)) zs) = Some (t_body z)).
  { intros z Hz. apply (lookup_map_in t_id t_body); assumption. }
  assert (Ex : existsb (fun id => negb (has_key id (map (fun z => (t_id z, ensure_nl (t_src z))) zs))
                                  || negb (has_key id (map (fun z => (t_id z, t_body z)) zs)))
                       (map t_id zs) = false).
  { destruct (existsb _ _) eqn:E; [|reflexivity]. apply existsb_exists in E as (k & Hk & Hb).
    apply in_map_iff in Hk as (z & <- & Hz). unfold has_key in Hb.
    rewrite (Ld z Hz), (La z Hz) in Hb. discriminate. }
  rewrite Ex. rewrite flat_map_concat_map, map_map, <- flat_map_concat_map.
  rewrite (flat_map_ext_in _ delta).
  - reflexivity.
  - intros z Hz. rewrite (Ld z Hz), (La z Hz). unfold delta, changed.
    destruct (str_eqb (ensure_nl (t_src z)) (t_body z)); reflexivity.
Qed.

Definition nonempty_bodies (zs : list tri) : Prop := Forall (fun z => K17f (t_body z) = false) zs.

Lemma body_nonempty_ensure b : body_ok b = true -> K17f b = false -> ensure_nl b = b.
Proof.
  unfold body_ok, K17f. intros H Hne. apply andb_true_iff in H as [H _]. rewrite Hne in H.
  apply ensure_nl_idem. exact H.
Qed.

Lemma rerender_eq sep zs :
  NoDup (map t_id zs) -> Forall tri_ok zs -> nonempty_bodies zs ->
  aggregate sep (apply_capture (srcs zs) (flat_map delta zs)) = aggregate_raw sep (disk zs).
Proof.
  intros Hnd Hok Hne. rewrite aggregate_norm. f_equal.
  unfold apply_capture, srcs, disk. rewrite !map_map.
  apply map_ext_in. intros z Hz. unfold norm. cbn [fst snd]. f_equal.
  rewrite (lookup_delta zs z Hnd Hz).
  unfold nonempty_bodies in Hne. rewrite Forall_forall in Hok, Hne. destruct (Hok z Hz) as (_ & _ & Hb). specialize (Hne z Hz).
  unfold changed. destruct (str_eqb (ensure_nl (t_src z)) (t_body z)) eqn:E; cbn [negb].
  - apply str_eqb_eq in E. exact E.
  - apply body_nonempty_ensure; assumption.
Qed.

Lemma delta_nil_same sep zs : flat_map delta zs = [] ->
  aggregate_raw sep (disk zs) = aggregate sep (srcs zs).
Proof.
  intros H. rewrite aggregate_norm. f_equal. unfold srcs, disk. rewrite map_map.
  apply map_ext_in. intros z Hz. unfold norm. cbn [fst snd]. f_equal.
  assert (D : delta z = []).
  { clear -H Hz. induction zs as [|x r IH]; [contradiction|]. simpl in H.
    apply app_eq_nil in H as [H1 H2]. destruct Hz as [->|Hz]; [exact H1|apply IH; assumption]. }
  unfold delta, changed in D. destruct (str_eqb (ensure_nl (t_src z)) (t_body z)) eqn:E; [|discriminate].
  apply str_eqb_eq in E. symmetry. exact E.
Qed.

Theorem fix_aggregated sep zs :
  sep_ok sep = true -> zs <> [] -> NoDup (map t_id zs) -> Forall tri_ok zs -> nonempty_bodies zs ->
  match capture (aggregate sep (srcs zs)) (aggregate_raw sep (disk zs)) (map t_id zs) with
  | Some out => aggregate sep (apply_capture (srcs zs) out) = aggregate_raw sep (disk zs)
  | None => aggregate_raw sep (disk zs) = aggregate sep (srcs zs)
  end.
Proof.
  intros Hs Hne Hnd Hok Hb. rewrite capture_eq by assumption.
  destruct (flat_map delta zs) eqn:E; cbn [is_nil].
  - apply delta_nil_same, E.
  - rewrite <- E. apply rerender_eq; assumption.
Qed.

(* the decision for an aggregated output whose drift is confined to section bodies: never
   skipped, never "not drifted" unless the file is unchanged *)
Theorem decide_aggregated sep zs :
  sep_ok sep = true -> (2 <= length zs)%nat -> NoDup (map t_id zs) -> Forall tri_ok zs ->
  nonempty_bodies zs ->
  let desired := render_instructions sep (srcs zs) in
  let drifted := aggregate_raw sep (disk zs) in
  match decide desired (map t_id zs) (Some drifted) with
  | NotDrifted => drifted = desired
  | Candidates out => render_instructions sep (apply_capture (srcs zs) out) = drifted
  | SkipMissing | SkipMultiModule => False
  end.
Proof.
  intros Hs Hlen Hnd Hok Hb desired drifted. subst desired drifted.
  assert (Hne : zs <> []) by (destruct zs; simpl in Hlen; [lia|congruence]).
  assert (L1 : (2 <= length (srcs zs))%nat) by (unfold srcs; rewrite map_length; exact Hlen).
  rewrite (render_many sep _ L1). unfold decide.
  destruct (str_eqb (aggregate_raw sep (disk zs)) (aggregate sep (srcs zs))) eqn:E.
  - apply str_eqb_eq, E.
  - pose proof (fix_aggregated sep zs Hs Hne Hnd Hok Hb) as F.
    destruct (map t_id zs) as [|i1 [|i2 ir]] eqn:Ei.
    + destruct zs; [congruence|discriminate].
    + destruct zs as [|? [|? ?]]; simpl in Hlen; try lia; discriminate.
    + destruct (capture _ _ (i1 :: i2 :: ir)) as [out|].
      * rewrite render_many; [exact F|]. unfold apply_capture, srcs. rewrite !map_length. exact Hlen.
      * apply str_eqb_neq in E. contradiction.
Qed.

(* single-module instructions output (no markers): the whole file is captured and re-renders *)
Theorem fix_single sep id t d : d <> t ->
  decide (render_instructions sep [(id, t)]) [id] (Some d) = Candidates [(id, d)]
  /\ render_instructions sep (apply_capture [(id, t)] [(id, d)]) = d.
Proof.
  intros H. split.
  - unfold decide. rewrite render_single.
    destruct (str_eqb d t) eqn:E; [apply str_eqb_eq in E; contradiction|reflexivity].
  - unfold apply_capture. cbn [map fst snd lookup]. rewrite str_eqb_refl. reflexivity.
Qed.

Theorem decide_missing desired ids : decide desired ids None = SkipMissing.
Proof. reflexivity. Qed.

(* ------------------------------------------------------------------ cursor rules (K17c) *)

Lemma cursor_rule_len hdr d : (length hdr + length d <= length (cursor_rule hdr d))%nat.
Proof.
  unfold cursor_rule. destruct (ends_with [nl] (hdr ++ d)); rewrite ?app_length; simpl; lia.
Qed.

Theorem cursor_never_fixpoint hdr d : hdr <> [] -> cursor_rule hdr d <> d.
Proof.
  intros Hne E. pose proof (cursor_rule_len hdr d) as L. rewrite E in L.
  destruct hdr; [congruence|]. simpl in L. lia.
Qed.

(* ------------------------------------------------------------------ VS Code prompts (K17d) *)

Theorem vscode_prompt_fix n c d : valid_single_md [(n, c)] = true -> K17d n = false ->
  let after := upsert [(n, c)] (vscode_prompt_name n) d in
  valid_single_md after = true /\ vscode_prompt_out after = Some (vscode_prompt_name n, d).
Proof.
  unfold K17d. intros Hv Hk. apply negb_false_iff in Hk.
  assert (E : vscode_prompt_name n = n) by (unfold vscode_prompt_name; rewrite Hk; reflexivity).
  cbv zeta. rewrite E. cbn [upsert]. rewrite str_eqb_refl. cbn [valid_single_md] in *.
  split; [exact Hv|]. cbn [vscode_prompt_out]. rewrite Hv, E. reflexivity.
Qed.

Lemma vscode_name_neq n : K17d n = true -> str_eqb n (vscode_prompt_name n) = false.
Proof.
  unfold K17d. intros Hk. apply negb_true_iff in Hk. apply str_eqb_neq. intros E.
  assert (X : ends_with dot_prompt_md (vscode_prompt_name n) = true).
  { unfold vscode_prompt_name. rewrite Hk. destruct (strip_suffix dot_md n); apply ew_app. }
  rewrite <- E in X. congruence.
Qed.

Theorem vscode_prompt_broken n c d : K17d n = true ->
  valid_single_md (upsert [(n, c)] (vscode_prompt_name n) d) = false.
Proof.
  intros Hk. cbn [upsert]. rewrite (vscode_name_neq n Hk). reflexivity.
Qed.

(* prompt/command outputs that keep the source file name (codex prompts, claude commands):
   the captured file replaces the module's only file *)
Theorem same_name_fix n c d : upsert [(n, c)] n d = [(n, d)].
Proof. cbn [upsert]. rewrite str_eqb_refl. reflexivity. Qed.

(* ------------------------------------------------------------------ restated / exact variants *)

Theorem roundtrip_partial sep (ms : list (str * str)) :
  sep_ok sep = true -> NoDup (map fst ms) ->
  Forall (fun p => K17h (fst p) = false /\ K17a (snd p) = false) ms ->
  parse_sections (aggregate sep ms) = POk (map (fun p => (fst p, ensure_nl (snd p))) ms).
Proof.
  intros Hs Hnd Hok. apply roundtrip; [exact Hs|exact Hnd|].
  eapply Forall_impl; [|exact Hok]. intros p [H1 H2]. unfold K17h, K17a in *.
  split; [destruct (id_ok (fst p)); [reflexivity|discriminate]
         |destruct (text_ok (snd p)); [reflexivity|discriminate]].
Qed.

Theorem roundtrip_exact sep (ms : list (str * str)) :
  sep_ok sep = true -> NoDup (map fst ms) ->
  Forall (fun p => id_ok (fst p) = true /\ text_ok (snd p) = true /\ K17b (snd p) = false) ms ->
  parse_sections (aggregate sep ms) = POk ms.
Proof.
  intros Hs Hnd Hok. rewrite roundtrip; [|exact Hs|exact Hnd|].
  - f_equal. rewrite <- (map_id ms) at 2. apply map_ext_in. intros [id t] Hin.
    rewrite Forall_forall in Hok. destruct (Hok _ Hin) as (_ & _ & Hb). unfold K17b in Hb.
    apply negb_false_iff in Hb. unfold norm. cbn [fst snd] in *. rewrite ensure_nl_idem by exact Hb. reflexivity.
  - eapply Forall_impl; [|exact Hok]. intros p (H1 & H2 & _). split; assumption.
Qed.

(* ------------------------------------------------------------------ witnesses *)

Definition sep0 : str := [10;10;45;45;45;10;10].          (* "\n\n---\n\n" *)
Definition sep1 : str := [10;10;42;42;42;10;10].          (* "\n\n***\n\n" *)
Definition w_b : list (str * str) := [([97], [120]); ([98], [121;10])].
Definition w_a_end : list (str * str) :=
  [([97], [120;10] ++ marker_end ++ [10;121;10]); ([98], [122;10])].
Definition w_a_start : list (str * str) :=
  [([97], [120;10] ++ marker_start_prefix ++ [113;32;45;45;62;10]); ([98], [122;10])].
Definition w_h : list (str * str) := [([97;32], [120;10]); ([98], [122;10])].
Definition w_src : list (str * str) := [([97], [120;10]); ([98], [121;10])].
Definition w_disk_f : list (str * str) := [([97], []); ([98], [121;10])].
Definition w_disk_g : list (str * str) := [([97], [120;50;10]); ([98], [121;10])].

Lemma nodup2 (a b : str) : a <> b -> NoDup [a; b].
Proof. intros H. constructor; [simpl; intuition|]. constructor; [simpl; tauto|constructor]. Qed.

Theorem roundtrip_witnesses :
  sep_ok sep0 = true /\
  (NoDup (map fst w_b) /\ parse_sections (aggregate sep0 w_b) = POk [([97], [120;10]); ([98], [121;10])]
   /\ parse_sections (aggregate sep0 w_b) <> POk w_b) /\
  (NoDup (map fst w_a_end) /\ parse_sections (aggregate sep0 w_a_end) = POk [([97], [120;10]); ([98], [122;10])]) /\
  (NoDup (map fst w_a_start) /\ parse_sections (aggregate sep0 w_a_start) = PErr ErrNested) /\
  (NoDup (map fst w_h) /\ parse_sections (aggregate sep0 w_h) = POk [([97], [120;10]); ([98], [122;10])]).
Proof.
  split; [vm_compute; reflexivity|].
  split; [split; [apply nodup2; discriminate|split; [vm_compute; reflexivity|vm_compute; discriminate]]|].
  split; [split; [apply nodup2; discriminate|vm_compute; reflexivity]|].
  split; [split; [apply nodup2; discriminate|vm_compute; reflexivity]|].
  split; [apply nodup2; discriminate|vm_compute; reflexivity].
Qed.

Theorem fix_aggregated_witnesses :
  (exists out, capture (aggregate sep0 w_src) (aggregate_raw sep0 w_disk_f) [[97]; [98]] = Some out
               /\ aggregate sep0 (apply_capture w_src out) <> aggregate_raw sep0 w_disk_f) /\
  (exists out, capture (aggregate sep0 w_src) (aggregate_raw sep1 w_disk_g) [[97]; [98]] = Some out
               /\ canonical sep0 [[97]; [98]] (aggregate_raw sep1 w_disk_g) = false
               /\ aggregate sep0 (apply_capture w_src out) <> aggregate_raw sep1 w_disk_g).
Proof.
  split.
  - exists [([97], [])]. split; [vm_compute; reflexivity|vm_compute; discriminate].
  - exists [([97], [120;50;10])]. split; [vm_compute; reflexivity|].
    split; [vm_compute; reflexivity|vm_compute; discriminate].
Qed.

(* ------------------------------------------------------------------ canonical files *)

Lemma ids_eqb_refl l : ids_eqb l l = true.
Proof. induction l as [|a l IH]; simpl; [reflexivity|]. rewrite str_eqb_refl. exact IH. Qed.

Theorem canonical_intro sep (ps : list (str * str)) :
  sep_ok sep = true -> NoDup (map fst ps) ->
  Forall (fun p => id_ok (fst p) = true /\ body_ok (snd p) = true) ps ->
  canonical sep (map fst ps) (aggregate_raw sep ps) = true.
Proof.
  intros Hs Hnd Hok. unfold canonical. rewrite parse_aggregate_raw by assumption.
  rewrite str_eqb_refl, ids_eqb_refl. reflexivity.
Qed.

(* ------------------------------------------------------------------ necessity of text_ok *)

Lemma split_lines_nonempty x : forall l, In l (split_inclusive_nl x) -> l <> [].
Proof.
  induction x as [|a x IH]; intros l H; [contradiction|]. cbn [split_inclusive_nl] in H.
  destruct (a =? 10).
  - destruct H as [<-|H]; [discriminate|apply IH, H].
  - destruct (split_inclusive_nl x) as [|h t].
    + destruct H as [<-|[]]. discriminate.
    + destruct H as [<-|H]; [discriminate|]. apply IH. right. exact H.
Qed.

Lemma run_grows : forall ls secs cur secs' cur',
  run_lines (secs, cur) ls = inl (secs', cur') -> exists ext, secs' = secs ++ ext.
Proof.
  induction ls as [|l r IH]; intros secs cur secs' cur' H.
  - simpl in H. inversion H; subst. exists []. rewrite app_nil_r. reflexivity.
  - cbn [run_lines] in H. destruct (step (secs, cur) l) as [[s1 c1]|e] eqn:E; [|discriminate].
    apply IH in H as [ext ->]. unfold step in E. destruct cur as [[id buf]|].
    + destruct (str_eqb (trim l) marker_end).
      * destruct (has_key id secs); [discriminate|]. inversion E; subst.
        exists ([(id, buf)] ++ ext). rewrite app_assoc. reflexivity.
      * destruct (parse_start_marker l); [discriminate|]. inversion E; subst. eauto.
    + destruct (parse_start_marker l); inversion E; subst; eauto.
Qed.

Lemma forallb_first_bad {A} (f : A -> bool) l : forallb f l = false ->
  exists l1 x l2, l = l1 ++ x :: l2 /\ forallb f l1 = true /\ f x = false.
Proof.
  induction l as [|a r IH]; intros H; [discriminate|]. simpl in H. destruct (f a) eqn:E.
  - destruct (IH H) as (l1 & x & l2 & -> & H1 & H2). exists (a :: l1), x, l2.
    split; [reflexivity|]. split; [simpl; rewrite E; exact H1|exact H2].
  - exists [], a, r. split; [reflexivity|]. split; [reflexivity|exact E].
Qed.

Lemma bad_body secs id l1 bad rest fin :
  forallb (fun l => negb (marker_like l)) l1 = true -> marker_like bad = true ->
  has_key id secs = false ->
  run_lines (secs, Some (id, [])) (l1 ++ bad :: rest) = inl (fin, None) ->
  exists ext, fin = secs ++ (id, concat l1) :: ext.
Proof.
  intros H1 Hb Hk H. rewrite run_app, run_body in H by exact H1. cbn [run_lines step app] in H.
  unfold marker_like in Hb. destruct (str_eqb (trim bad) marker_end).
  - rewrite Hk in H. apply run_grows in H as [ext ->]. exists ext. rewrite <- app_assoc. reflexivity.
  - simpl in Hb. destruct (parse_start_marker bad); [discriminate H|discriminate Hb].
Qed.

Lemma raw_necessary sep : sep_ok sep = true -> forall ms secs,
  Forall (fun p => id_ok (fst p) = true /\ termd (snd p)) ms ->
  NoDup (map fst secs ++ map fst ms) ->
  run_lines (secs, None) (split_inclusive_nl (aggregate_raw sep ms)) = inl (secs ++ ms, None) ->
  Forall (fun p => forallb (fun l => negb (marker_like l)) (split_inclusive_nl (snd p)) = true) ms.
Proof.
  intros Hsep. destruct (sep_ok_inv _ Hsep) as (tail & -> & Htail & Hout).
  induction ms as [|[id body] r IH]; intros secs Hok Hnd Hrun; [constructor|].
  inversion Hok as [|p r' [Hid Hterm] Hr]; subst. cbn [fst snd] in Hid, Hterm.
  destruct (id_ok_inv _ Hid) as (Hnl & _ & _).
  assert (Hk : has_key id secs = false).
  { apply has_key_false. simpl in Hnd. apply NoDup_remove_2 in Hnd.
    intros Hin. apply Hnd. apply in_or_app. left. exact Hin. }
  (* lines of the file: start line, body lines, then the rest *)
  destruct (forallb (fun l => negb (marker_like l)) (split_inclusive_nl body)) eqn:Hb.
  - (* this body is fine: step over the section and use the induction hypothesis *)
    constructor; [exact Hb|].
    destruct r as [|p2 r2]; [constructor|].
    unfold aggregate_raw in *. cbn [map] in Hrun. rewrite join_cons2 in Hrun. cbn [fst snd] in Hrun.
    change ((10 :: tail) ++ ?x) with ([10] ++ tail ++ x) in Hrun.
    rewrite split_section_mid in Hrun by assumption.
    rewrite (split_app_termd tail _ Htail) in Hrun.
    rewrite run_app, sec_run in Hrun by (assumption || apply end_trim_nl).
    rewrite run_app, run_outside in Hrun by exact Hout.
    change (raw_section (fst p2) (snd p2) :: map (fun p => raw_section (fst p) (snd p)) r2)
      with (map (fun p => raw_section (fst p) (snd p)) (p2 :: r2)) in Hrun.
    apply (IH (secs ++ [(id, body)])).
    + exact Hr.
    + rewrite map_app. simpl map. rewrite <- app_assoc. exact Hnd.
    + rewrite Hrun. rewrite <- app_assoc. reflexivity.
  - (* first marker-like line of this body: the section is cut short or the parse fails *)
    exfalso. destruct (forallb_first_bad _ _ Hb) as (l1 & bad & l2 & El & H1 & Hbad).
    apply negb_false_iff in Hbad.
    assert (Hne : bad <> []).
    { apply (split_lines_nonempty body). rewrite El. apply in_or_app. right. left. reflexivity. }
    assert (X : exists rest, split_inclusive_nl (aggregate_raw (10 :: tail) ((id, body) :: r))
                             = start_line id :: l1 ++ bad :: rest).
    { unfold aggregate_raw. destruct r as [|p2 r2].
      - cbn [map join fst snd]. rewrite split_section_last by assumption. rewrite El.
        rewrite <- app_assoc. eexists. reflexivity.
      - cbn [map]. rewrite join_cons2. cbn [fst snd].
        change ((10 :: tail) ++ ?x) with ([10] ++ tail ++ x).
        rewrite split_section_mid by assumption. rewrite El.
        cbn [app]. rewrite <- !app_assoc. eexists. reflexivity. }
    destruct X as [rest X]. rewrite X in Hrun. cbn [run_lines step] in Hrun.
    rewrite (start_line_parse _ Hid) in Hrun.
    apply bad_body in Hrun as [ext Hfin]; try assumption.
    apply app_inv_head in Hfin. injection Hfin as Hbody _.
    pose proof (concat_split body) as C. rewrite El, concat_app in C. cbn [concat] in C.
    rewrite Hbody in C.
    assert (Z : bad ++ concat l2 = []) by (apply (app_inv_head (concat l1)); rewrite app_nil_r; exact C).
    apply app_eq_nil in Z as [Z _]. contradiction.
Qed.

Theorem text_ok_necessary sep (ms : list (str * str)) :
  sep_ok sep = true -> Forall (fun p => id_ok (fst p) = true) ms -> NoDup (map fst ms) ->
  parse_sections (aggregate sep ms) = POk (map (fun p => (fst p, ensure_nl (snd p))) ms) ->
  Forall (fun p => text_ok (snd p) = true) ms.
Proof.
  intros Hs Hid Hnd Hp. rewrite aggregate_norm in Hp. unfold parse_sections in Hp.
  destruct (run_lines ([], None) (split_inclusive_nl (aggregate_raw sep (map norm ms))))
    as [[secs [[i b]|]]|e] eqn:E; try discriminate.
  inversion Hp; subst secs.
  pose proof (raw_necessary sep Hs (map norm ms) []) as N. cbn [app map] in N.
  assert (F : Forall (fun p => forallb (fun l => negb (marker_like l)) (split_inclusive_nl (snd p)) = true)
                     (map norm ms)).
  { apply N.
    - apply Forall_map. eapply Forall_impl; [|exact Hid]. intros p Hp'. cbn [norm fst snd].
      split; [exact Hp'|]. apply termd_b. rewrite ensure_nl_ends, orb_true_r. reflexivity.
    - rewrite map_fst_norm. exact Hnd.
    - exact E. }
  rewrite Forall_map in F. eapply Forall_impl; [|exact F]. intros p H. exact H.
Qed.
