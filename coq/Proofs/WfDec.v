(* Proofs/WfDec.v — boolean deciders for the hypotheses of the deploy-core theorems (wfD, wfM,
   covered, hop_ok, hist_ok) with soundness lemmas: used for the non-vacuity examples and by the
   harness to count how many generated cases satisfy the theorems' premises. *)
From AP Require Import Base.Str Base.StrFacts Base.Sorting Gen.Tables Model.Deploy
                       Proofs.DeployP Proofs.ConvergeP Proofs.LedgerP Proofs.RollbackP Proofs.HistoryP.
From Coq Require Import Lia Arith.
Open Scope N_scope.

Fixpoint nodup_paths_b (l : list path) : bool :=
  match l with [] => true | x :: r => negb (existsb (path_eqb x) r) && nodup_paths_b r end.

Lemma nodup_paths_b_sound l : nodup_paths_b l = true -> NoDup l.
Proof.
  induction l as [|x l IH]; simpl; intros H; [constructor|]. apply andb_true_iff in H as [H1 H2].
  constructor; [|apply IH; exact H2]. intros Hin. apply negb_true_iff in H1.
  assert (existsb (path_eqb x) l = true) by (apply existsb_exists; exists x; split; [exact Hin|apply path_eqb_refl]).
  congruence.
Qed.

Definition wf_comp_b (c : str) : bool :=
  negb (is_empty c) && negb (str_eqb c dot) && negb (str_eqb c dotdot) && negb (mem_char slash c).

Lemma wf_comp_b_sound c : wf_comp_b c = true -> wf_comp c.
Proof.
  unfold wf_comp_b, wf_comp. intros H. repeat (apply andb_true_iff in H as [H ?]).
  repeat match goal with X : negb _ = true |- _ => apply negb_true_iff in X end.
  split; [destruct c; [discriminate|discriminate]|]. split; [apply str_eqb_neq; assumption|].
  split; [apply str_eqb_neq; assumption|]. intros Hin.
  assert (mem_char slash c = true) by (unfold mem_char; apply existsb_exists; exists slash; split; [exact Hin|apply N.eqb_refl]).
  congruence.
Qed.

Definition wfD_b (roots : list root) (D : list dfile) : bool :=
  nodup_paths_b (map dpath D)
  && forallb (fun d => forallb wf_comp_b (dpath d) && negb (is_manifest_path (dpath d))) D
  && nodup_paths_b (map mf_path roots).

Lemma wfD_b_sound roots D : wfD_b roots D = true -> wfD roots D.
Proof.
  unfold wfD_b, wfD. intros H. apply andb_true_iff in H as [H H3]. apply andb_true_iff in H as [H1 H2].
  split; [apply nodup_paths_b_sound; exact H1|]. split; [|apply nodup_paths_b_sound; exact H3].
  intros d Hd. rewrite forallb_forall in H2. specialize (H2 d Hd). apply andb_true_iff in H2 as [Ha Hb].
  split; [|apply negb_true_iff; exact Hb]. unfold wf_path. apply Forall_forall. intros c Hc.
  rewrite forallb_forall in Ha. apply wf_comp_b_sound. apply Ha. exact Hc.
Qed.

Definition wfM_b (D : list dfile) (M : list tpath) : bool :=
  forallb (fun tp =>
             negb (is_manifest_path (snd tp))
             && forallb (fun d => negb (path_eqb (dpath d) (snd tp)) || str_eqb (dtarget d) (fst tp)) D
             && forallb (fun tp' => negb (path_eqb (snd tp') (snd tp)) || str_eqb (fst tp') (fst tp)) M) M.

Lemma wfM_b_sound D M : wfM_b D M = true -> wfM D M.
Proof.
  unfold wfM_b, wfM. intros H. rewrite forallb_forall in H. repeat split.
  - intros t p Hin. specialize (H _ Hin). apply andb_true_iff in H as [H _]. apply andb_true_iff in H as [H _].
    apply negb_true_iff. exact H.
  - intros t p d Hin Hd Hp. specialize (H _ Hin). apply andb_true_iff in H as [H _]. apply andb_true_iff in H as [_ H].
    rewrite forallb_forall in H. specialize (H d Hd). simpl in H. rewrite Hp, path_eqb_refl in H. simpl in H.
    apply str_eqb_eq. exact H.
  - intros t1 t2 p H1 H2. specialize (H _ H2). apply andb_true_iff in H as [_ H].
    rewrite forallb_forall in H. specialize (H _ H1). simpl in H. rewrite path_eqb_refl in H. simpl in H.
    apply str_eqb_eq. exact H.
Qed.

Definition covered_b (roots : list root) (D : list dfile) : bool :=
  forallb (fun d => match best_root_idx roots (dtarget d) (dpath d) with Some _ => true | None => false end) D.

Lemma covered_b_sound roots D : covered_b roots D = true -> covered roots D.
Proof.
  unfold covered_b, covered. intros H d Hd. rewrite forallb_forall in H. specialize (H d Hd).
  destruct (best_root_idx roots (dtarget d) (dpath d)); [discriminate|discriminate].
Qed.

Definition all_manifests_b (roots : list root) (f : fs) : bool := forallb (fun r => exists_at f (mf_path r)) roots.
Lemma all_manifests_b_sound roots f : all_manifests_b roots f = true -> all_manifests roots f.
Proof.
  unfold all_manifests_b, all_manifests. intros H r Hr. rewrite forallb_forall in H. specialize (H r Hr).
  unfold exists_at in H. destruct (f (mf_path r)); [discriminate|discriminate].
Qed.

Definition hop_ok_b (roots : list root) (w : world) (o : hop) : bool :=
  match o with
  | HopDeploy st confirmed D =>
    wfD_b roots D && wfM_b D (managed_for_plan w roots None) && covered_b roots D
    && forallb (fun d => mem_tp (dkey d) (managed_for_plan w roots None) || negb (exists_at (files w) (dpath d))) D
  | HopDrift p v =>
    negb (is_manifest_path p) && existsb (fun tp => path_eqb (snd tp) p) (managed_for_plan w roots None)
  end.

Lemma hop_ok_b_sound roots w o : hop_ok_b roots w o = true -> hop_ok roots w o.
Proof.
  destruct o as [st confirmed D|p v]; simpl; intros H.
  - apply andb_true_iff in H as [H H4]. apply andb_true_iff in H as [H H3]. apply andb_true_iff in H as [H1 H2].
    split; [apply wfD_b_sound; exact H1|]. split; [apply wfM_b_sound; exact H2|]. split; [apply covered_b_sound; exact H3|].
    intros d Hd Hn. rewrite forallb_forall in H4. specialize (H4 d Hd). apply orb_true_iff in H4 as [H4|H4].
    + apply mem_tp_In in H4. contradiction.
    + apply negb_true_iff in H4. unfold exists_at in H4. destruct (files w (dpath d)); [discriminate|reflexivity].
  - apply andb_true_iff in H as [H1 H2]. split; [apply negb_true_iff; exact H1|].
    apply existsb_exists in H2 as [[t q] [Hin E]]. simpl in E. apply path_eqb_eq in E. subst q. exists t. exact Hin.
Qed.

Fixpoint hist_ok_b (roots : list root) (w : world) (h : list hop) : bool :=
  match h with [] => true | o :: r => hop_ok_b roots w o && hist_ok_b roots (run_hop roots w o) r end.

Lemma hist_ok_b_sound roots h : forall w, hist_ok_b roots w h = true -> hist_ok roots w h.
Proof.
  induction h as [|o h IH]; intros w H; simpl in *; [exact I|]. apply andb_true_iff in H as [H1 H2].
  split; [apply hop_ok_b_sound; exact H1|apply IH; exact H2].
Qed.

(* the target-compatibility premise of the history theorem, decided on the last snapshot *)
Definition compat_b (w : world) (DS : list dfile) : bool :=
  match rev (snaps w) with
  | [] => true
  | cur :: _ => forallb (fun e => forallb (fun d => negb (path_eqb (mpath e) (dpath d)) || str_eqb (fst (fst e)) (dtarget d)) DS)
                        (sn_managed cur)
  end.

Lemma compat_b_sound w DS : compat_b w DS = true ->
  forall cur init, snaps w = init ++ [cur] ->
  forall e e', In e (sn_managed cur) -> In e' (triples DS) -> mpath e = mpath e' -> mtp e = mtp e'.
Proof.
  unfold compat_b. intros H cur init Hs e e' He He' Hp. rewrite Hs, rev_app_distr in H. simpl in H.
  rewrite forallb_forall in H. specialize (H e He). rewrite forallb_forall in H.
  apply triples_in in He' as [d [Hd ->]]. specialize (H d Hd). unfold mpath in *. simpl in *.
  rewrite Hp, path_eqb_refl in H. simpl in H. apply str_eqb_eq in H. unfold mtp. simpl. rewrite H, Hp. reflexivity.
Qed.
