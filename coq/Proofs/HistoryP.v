(* Proofs/HistoryP.v — histories of plain deploys and drift edits after a snapshot S, and the
   exact-inverse theorem for rollback to S (C06), with the manifest-exactness invariant that also
   gives ownership continuity over such histories (C15) and convergence at every step (C05). *)
From AP Require Import Base.Str Base.StrFacts Base.Sorting Gen.Tables Model.Deploy
                       Proofs.DeployP Proofs.ConvergeP Proofs.LedgerP Proofs.RollbackP.
From Coq Require Import Lia Arith.
Open Scope N_scope.

Definition triples (D : list dfile) : list (str * path * N) :=
  map (fun d => (dtarget d, dpath d, dcontent d)) D.
Definition covered (roots : list root) (D : list dfile) : Prop :=
  forall d, In d D -> best_root_idx roots (dtarget d) (dpath d) <> None.
Definition all_manifests (roots : list root) (f : fs) : Prop :=
  forall r, In r roots -> f (mf_path r) <> None.

(* ---------- one applied deploy, when every root ends up with a manifest ---------- *)
Section Exact.
  Variables (w : world) (roots : list root) (D : list dfile).
  Let M := managed_for_plan w roots None.
  Let pl := plan (files w) D M.
  Let w' := apply_plan KDeploy w roots D pl.
  Hypothesis HD : wfD roots D.
  Hypothesis HM : wfM D M.
  Hypothesis Hcov : covered roots D.
  Hypothesis Hall' : all_manifests roots (files w').

  Lemma manifest_after_exact i r :
    nth_error roots i = Some r -> files w' (mf_path r) = Some (new_manifest r (per_root roots D i r)).
  Proof.
    intros Hn. pose proof (files_after_mf w roots D None HD HM i r Hn) as E. fold M in E. fold pl in E. fold w' in E.
    destruct (should_write (files w) roots D pl i r);
      [exact E|]. exfalso. apply (Hall' r); [eapply nth_error_In; eauto|exact E].
  Qed.

  Lemma managed_exact_after tp : In tp (managed_for_plan w' roots None) <-> mem_key tp D = true.
  Proof.
    split.
    - intros H. apply in_managed_for_plan in H as [_ [[r [Hr Hin]]|[Hl [sn [Hs [Hin _]]]]]].
      + apply in_root_managed in Hin as [es [e (Hread & He & Hsafe & ->)]].
        destruct (In_nth_error_ex _ _ Hr) as [i Hn].
        unfold read_manifest, chosen_manifest in Hread. rewrite (manifest_after_exact i r Hn) in Hread.
        unfold new_manifest, manifest_usable in Hread. rewrite N.eqb_refl, str_eqb_refl in Hread. cbn [andb] in Hread.
        inversion Hread as [Hes]. rewrite <- Hes in He.
        apply in_per_root in He as [d (Hd & Hb & ->)]. cbn [fst].
        destruct (join_rel_of roots d i r Hb Hn) as (Hj & _ & Ht); [apply HD; exact Hd|].
        apply mem_key_true. exists d. split; [exact Hd|]. unfold dkey. rewrite Hj, Ht. reflexivity.
      + unfold w', apply_plan in Hs.
        destruct (apply_changes (files w) pl) as [f1 l1] eqn:E1.
        destruct (write_manifests roots D pl f1) as [f2 l2] eqn:E2. simpl in Hs.
        rewrite latest_dr_app_last in Hs by reflexivity. inversion Hs; subst sn. clear Hs.
        unfold snap_managed in Hin. simpl in Hin.
        destruct D as [|d0 D'] eqn:ED.
        * simpl in Hin. exfalso. apply in_map_iff in Hin as [a [_ Ha]]. apply filter_In in Ha as [Ha Hf].
          apply andb_true_iff in Hf as [Hcu Hnm]. apply negb_true_iff in Hnm.
          apply in_app_iff in Ha as [Ha|Ha].
          -- assert (Ha' : In a (snd (apply_changes (files w) pl))) by (rewrite E1; exact Ha).
             apply apply_changes_snd in Ha' as [g [c [Hc ->]]].
             apply plan_origin in Hc as [[d (Hd & _)]|[_ Hop]]; [contradiction|].
             unfold applied_of in Hcu. rewrite Hop in Hcu. discriminate.
          -- assert (Ha' : In a (snd (write_manifests_from 0 roots roots [] pl f1))).
             { unfold write_manifests in E2. rewrite E2. exact Ha. }
             apply write_manifests_snd in Ha'. congruence.
        * simpl in Hin. apply mem_key_true. destruct Hin as [<-|Hin].
          -- exists d0. split; [left; reflexivity|reflexivity].
          -- apply in_map_iff in Hin as [[[t p] c] [<- Hin]]. apply in_map_iff in Hin as [d [Ed Hd]].
             inversion Ed; subst. exists d. split; [right; exact Hd|reflexivity].
    - intros H. apply mem_key_true in H as [d [Hd Hk]].
      destruct (best_root_idx roots (dtarget d) (dpath d)) as [i|] eqn:Eb; [|exfalso; eapply Hcov; eauto].
      destruct (best_root_idx_spec _ _ _ _ Eb) as [r (Hn & _)].
      pose proof (written_is_listed w roots D None HD HM d i r Hd Eb Hn) as Hl. fold M in Hl. fold pl in Hl. fold w' in Hl.
      rewrite Hk in Hl. apply load_in_managed_for_plan; [|reflexivity].
      unfold load_managed. apply in_flat_map. exists r. split; [eapply nth_error_In; eauto|exact Hl].
  Qed.
End Exact.

(* the managed set only looks at manifest-named files (and the snapshot records) *)
Lemma read_manifest_ext f g r :
  (forall p, is_manifest_path p = true -> f p = g p) -> read_manifest f r = read_manifest g r.
Proof.
  intros H. unfold read_manifest, chosen_manifest.
  rewrite (H (mf_path r)) by apply mf_path_is_manifest. rewrite (H (legacy_path r)) by apply legacy_path_is_manifest.
  reflexivity.
Qed.

Lemma load_managed_ext f g roots :
  (forall p, is_manifest_path p = true -> f p = g p) -> load_managed f roots = load_managed g roots.
Proof.
  intros H. unfold load_managed. induction roots as [|r rs IH]; [reflexivity|]. simpl. rewrite IH.
  unfold root_managed. rewrite (read_manifest_ext f g r H). reflexivity.
Qed.

Lemma managed_for_plan_drift w roots flt p v :
  is_manifest_path p = false ->
  managed_for_plan {| files := upd (files w) p v; snaps := snaps w |} roots flt = managed_for_plan w roots flt.
Proof.
  intros Hp. unfold managed_for_plan. simpl.
  assert (Hext : forall q, is_manifest_path q = true -> upd (files w) p v q = files w q).
  { intros q Hq. apply upd_other. intros ->. congruence. }
  rewrite (load_managed_ext (upd (files w) p v) (files w) roots Hext).
  assert (Ha : any_usable (upd (files w) p v) roots = any_usable (files w) roots).
  { unfold any_usable. induction roots as [|r rs IH]; [reflexivity|]. simpl.
    rewrite (read_manifest_ext (upd (files w) p v) (files w) r Hext), IH. reflexivity. }
  rewrite Ha. reflexivity.
Qed.

(* ---------- histories ---------- *)
Inductive hop :=
| HopDeploy (st : style) (confirmed : bool) (D : list dfile)    (* full deploy, no filter, no adopt *)
| HopDrift (p : path) (v : option N).                            (* the user edits or deletes a managed file *)

Definition run_hop (roots : list root) (w : world) (o : hop) : world :=
  match o with
  | HopDeploy st confirmed D => snd (snd (deploy_cmd st confirmed false None w roots D))
  | HopDrift p v => {| files := upd (files w) p (option_map FBytes v); snaps := snaps w |}
  end.

(* what the theorem assumes of each step, evaluated in the world where it runs *)
Definition hop_ok (roots : list root) (w : world) (o : hop) : Prop :=
  match o with
  | HopDeploy st confirmed D =>
    wfD roots D /\ wfM D (managed_for_plan w roots None) /\ covered roots D /\
    (* new outputs are created, never found already present *)
    (forall d, In d D -> ~ In (dkey d) (managed_for_plan w roots None) -> files w (dpath d) = None)
  | HopDrift p v =>
    is_manifest_path p = false /\ exists t, In (t, p) (managed_for_plan w roots None)
  end.

Fixpoint run_hist (roots : list root) (w : world) (h : list hop) : world :=
  match h with [] => w | o :: r => run_hist roots (run_hop roots w o) r end.

Fixpoint hist_ok (roots : list root) (w : world) (h : list hop) : Prop :=
  match h with [] => True | o :: r => hop_ok roots w o /\ hist_ok roots (run_hop roots w o) r end.

(* ---------- the invariant ---------- *)
Record Inv (roots : list root) (wS : world) (DS : list dfile) (w : world) (Dh : list dfile) : Prop := {
  inv_snaps : exists later, snaps w = snaps wS ++ later /\
                            Forall (fun sn => sn_kind sn = KDeploy) later /\
                            (exists init cur, snaps w = init ++ [cur] /\ sn_kind cur = KDeploy /\
                                              sn_managed cur = triples Dh);
  inv_mex : forall tp, In tp (managed_for_plan w roots None) <-> mem_key tp Dh = true;
  inv_allm : all_manifests roots (files w);
  inv_wfh : wfD roots Dh;
  inv_unrec : forall p, is_manifest_path p = false ->
                        (forall d, In d DS -> dpath d <> p) -> (forall d, In d Dh -> dpath d <> p) ->
                        files w p = files wS p;
  inv_new : forall d, In d Dh -> (forall d', In d' DS -> dpath d' <> dpath d) -> files wS (dpath d) = None;
  inv_other_manifests : forall p, is_manifest_path p = true -> (forall r, In r roots -> mf_path r <> p) ->
                                  files w p = files wS p
}.

Lemma mem_key_path D t p : mem_key (t, p) D = true -> exists d, In d D /\ dpath d = p /\ dtarget d = t.
Proof. intros H. apply mem_key_true in H as [d [Hd Hk]]. unfold dkey in Hk. inversion Hk. exists d. auto. Qed.

Lemma inv_step_deploy roots wS DS w Dh st confirmed D :
  Inv roots wS DS w Dh -> hop_ok roots w (HopDeploy st confirmed D) ->
  exists Dh', Inv roots wS DS (run_hop roots w (HopDeploy st confirmed D)) Dh'.
Proof.
  intros I (HD & HM & Hcov & Hnew). unfold run_hop.
  destruct (deploy_cmd st confirmed false None w roots D) as [pl [out w2]] eqn:Ed. cbn [snd].
  pose proof Ed as Ed0. unfold deploy_cmd in Ed. inversion Ed as [[Hpl Hdd]]. clear Ed.
  apply deploy_apply_in_cases in Hdd as [[_ ->]|(-> & Hw2 & _)]; [exists Dh; exact I|].
  exists D. clear Ed0. subst pl.
  assert (Hallm2 : all_manifests roots (files w2)).
  { intros r Hr. destruct (In_nth_error_ex _ _ Hr) as [i Hn]. rewrite Hw2.
    rewrite (files_after_mf w roots D None HD HM i r Hn).
    assert (Ex : exists_at (files w) (mf_path r) = true).
    { unfold exists_at. pose proof (inv_allm _ _ _ _ _ I r Hr) as Hx. destruct (files w (mf_path r)); [reflexivity|contradiction]. }
    unfold should_write. rewrite Ex. simpl. discriminate. }
  assert (HMpaths : forall t p, In (t, p) (managed_for_plan w roots None) -> exists d0, In d0 Dh /\ dpath d0 = p /\ dtarget d0 = t).
  { intros t p Hin. apply (inv_mex _ _ _ _ _ I) in Hin. apply mem_key_path. exact Hin. }
  constructor.
  - (* snapshots *)
    destruct (inv_snaps _ _ _ _ _ I) as [later (Hs & Hf & _)].
    destruct (apply_plan_snaps KDeploy w roots D (plan (files w) D (managed_for_plan w roots None))) as [l Hl]. rewrite <- Hw2 in Hl.
    exists (later ++ [ {| sn_kind := KDeploy; sn_managed := map (fun d => (dtarget d, dpath d, dcontent d)) D;
                          sn_changes := l; sn_to := None; sn_state := true |} ]).
    split; [rewrite Hl, Hs, app_assoc; reflexivity|]. split.
    + apply Forall_app. split; [exact Hf|]. constructor; [reflexivity|constructor].
    + exists (snaps w). eexists. split; [exact Hl|]. split; reflexivity.
  - (* managed set = keys of D *)
    intros tp. rewrite Hw2. apply managed_exact_after; auto. rewrite <- Hw2. exact Hallm2.
  - exact Hallm2.
  - exact HD.
  - (* unrecorded paths unchanged since S *)
    intros p Hp HnS HnD. rewrite Hw2.
    destruct (existsb (fun d0 => path_eqb (dpath d0) p) Dh) eqn:Eh.
    + apply existsb_exists in Eh as [d0 [Hd0 Ep]]. apply path_eqb_eq in Ep.
      assert (HinM : In (dtarget d0, p) (managed_for_plan w roots None)).
      { apply (inv_mex _ _ _ _ _ I). apply mem_key_true. exists d0. split; [exact Hd0|]. unfold dkey. rewrite Ep. reflexivity. }
      assert (Hk : mem_key (dtarget d0, p) D = false).
      { destruct (mem_key (dtarget d0, p) D) eqn:Ek; [|reflexivity]. apply mem_key_path in Ek as [d (Hd & Hpd & _)].
        exfalso. apply (HnD d Hd). exact Hpd. }
      rewrite (files_after_removed w roots D None HD HM (dtarget d0) p HinM Hk).
      symmetry. rewrite <- Ep. apply (inv_new _ _ _ _ _ I d0 Hd0). intros d' Hd' E. apply (HnS d' Hd'). congruence.
    + assert (HnH : forall d0, In d0 Dh -> dpath d0 <> p).
      { intros d0 Hd0 E. assert (existsb (fun d0 => path_eqb (dpath d0) p) Dh = true).
        { apply existsb_exists. exists d0. split; [exact Hd0|apply path_eqb_eq; exact E]. } congruence. }
      rewrite <- (inv_unrec _ _ _ _ _ I p Hp HnS HnH). apply apply_plan_untouched.
      * intros c Hc E. apply plan_origin in Hc as [[d (Hd & _ & Hpd & _)]|[HinM _]].
        -- apply (HnD d Hd). congruence.
        -- destruct (HMpaths _ _ HinM) as [d0 (Hd0 & Hp0 & _)]. apply (HnH d0 Hd0). congruence.
      * apply not_manifest_not_mf. exact Hp.
  - (* files first desired after S were absent right after S *)
    intros d Hd HnS.
    destruct (mem_tp (dkey d) (managed_for_plan w roots None)) eqn:Em.
    + apply mem_tp_In in Em. destruct (HMpaths _ _ Em) as [d0 (Hd0 & Hp0 & _)].
      rewrite <- Hp0. apply (inv_new _ _ _ _ _ I d0 Hd0). intros d' Hd' E. apply (HnS d' Hd'). congruence.
    + apply mem_tp_false in Em. pose proof (Hnew d Hd Em) as Habs.
      assert (HnH : forall d0, In d0 Dh -> dpath d0 <> dpath d).
      { intros d0 Hd0 E. apply Em.
        assert (HinM : In (dtarget d0, dpath d0) (managed_for_plan w roots None)).
        { apply (inv_mex _ _ _ _ _ I). apply mem_key_true. exists d0. split; [exact Hd0|reflexivity]. }
        destruct HM as (_ & HM2 & _). pose proof (HM2 _ _ d HinM Hd (eq_sym E)) as Ht.
        unfold dkey. rewrite Ht, <- E. exact HinM. }
      rewrite <- (inv_unrec _ _ _ _ _ I (dpath d)); [exact Habs| | |exact HnH].
      * apply HD. exact Hd.
      * intros d' Hd'. apply HnS. exact Hd'.
  - (* manifest-named files that are no root's manifest *)
    intros p Hp Hr. rewrite Hw2. rewrite (files_after_manifest_path w roots D None HD HM p Hp Hr).
    apply (inv_other_manifests _ _ _ _ _ I p Hp Hr).
Qed.

Lemma inv_step_drift roots wS DS w Dh p v :
  Inv roots wS DS w Dh -> hop_ok roots w (HopDrift p v) ->
  Inv roots wS DS (run_hop roots w (HopDrift p v)) Dh.
Proof.
  intros I (Hp & t & Hin). unfold run_hop.
  assert (Hd0 : exists d0, In d0 Dh /\ dpath d0 = p).
  { apply (inv_mex _ _ _ _ _ I) in Hin. apply mem_key_path in Hin as [d0 (H1 & H2 & _)]. exists d0. auto. }
  constructor; simpl.
  - exact (inv_snaps _ _ _ _ _ I).
  - intros tp. rewrite managed_for_plan_drift by exact Hp. apply (inv_mex _ _ _ _ _ I).
  - intros r Hr. rewrite upd_other; [apply (inv_allm _ _ _ _ _ I r Hr)|].
    intros E. rewrite <- E, mf_path_is_manifest in Hp. discriminate.
  - exact (inv_wfh _ _ _ _ _ I).
  - intros q Hq HnS HnH. rewrite upd_other; [apply (inv_unrec _ _ _ _ _ I q Hq HnS HnH)|].
    intros ->. destruct Hd0 as [d0 [H1 H2]]. apply (HnH d0 H1). exact H2.
  - exact (inv_new _ _ _ _ _ I).
  - intros q Hq Hr. rewrite upd_other; [apply (inv_other_manifests _ _ _ _ _ I q Hq Hr)|].
    intros ->. congruence.
Qed.

Lemma inv_hist roots wS DS h : forall w Dh,
  Inv roots wS DS w Dh -> hist_ok roots w h -> exists Dh', Inv roots wS DS (run_hist roots w h) Dh'.
Proof.
  induction h as [|o h IH]; intros w Dh I Hok; [exists Dh; exact I|].
  destruct Hok as [Ho Hr]. cbn [run_hist]. destruct o as [st confirmed D|p v].
  - destruct (inv_step_deploy _ _ _ _ _ st confirmed D I Ho) as [Dh' I']. eapply IH; eauto.
  - eapply IH; [apply inv_step_drift; eauto|exact Hr].
Qed.

(* ---------- the snapshot S and the world right after it ---------- *)
Lemma head_from_last l : forall i h x, (sn_kind x = KDeploy \/ sn_kind x = KBootstrap) ->
  head_from i (l ++ [x]) h = Some (i + length l)%nat.
Proof.
  induction l as [|y l IH]; intros i h x Hk; simpl.
  - rewrite Nat.add_0_r. destruct Hk as [-> | ->]; reflexivity.
  - rewrite IH by exact Hk. f_equal. lia.
Qed.

Lemma write_manifests_paths rs : forall i roots D pl f,
  exists sub, map a_path (snd (write_manifests_from i rs roots D pl f)) = map mf_path sub /\
              (forall r, In r sub -> In r rs) /\ (NoDup (map mf_path rs) -> NoDup (map mf_path sub)).
Proof.
  induction rs as [|r rs IH]; intros i roots D pl f; simpl.
  - exists []. split; [reflexivity|]. split; [intros r []|intros _; constructor].
  - match goal with |- context [if ?b then _ else _] => destruct b end.
    + destruct (IH (S i) roots D pl (upd f (mf_path r) (Some (new_manifest r (per_root roots D i r))))) as [sub (H1 & H2 & H3)].
      destruct (write_manifests_from (S i) rs roots D pl _) as [f2 l]. simpl in *.
      exists (r :: sub). simpl. rewrite H1. repeat split; auto.
      * intros r' [->|Hr']; auto.
      * intros Hnd. inversion Hnd as [|? ? Hn Hnd']; subst. constructor; [|apply H3; exact Hnd'].
        intros Hin. apply Hn. apply in_map_iff in Hin as [r' [E Hr']]. rewrite <- E. apply in_map. apply H2. exact Hr'.
    + destruct (IH (S i) roots D pl f) as [sub (H1 & H2 & H3)]. exists sub. repeat split; auto.
      intros Hnd. inversion Hnd; subst. apply H3. assumption.
Qed.

Lemma write_manifests_records rs : forall i roots D pl f j r,
  NoDup (map mf_path rs) -> nth_error rs j = Some r ->
  should_write f roots D pl (i + j) r = true ->
  exists c, In c (snd (write_manifests_from i rs roots D pl f)) /\ a_path c = mf_path r /\ is_cu (a_op c) = true /\
            a_after c = Some (new_manifest r (per_root roots D (i + j) r)).
Proof.
  unfold should_write.
  induction rs as [|r0 rs IH]; intros i roots D pl f j r Hnd Hn Hc; [destruct j; discriminate|].
  inversion Hnd as [|? ? Hnotin Hnd']; subst. destruct j as [|j]; simpl in Hn.
  - inversion Hn; subst r0. rewrite Nat.add_0_r in Hc. cbn [write_manifests_from].
    change (match per_root roots D i r with [] => true | _ :: _ => false end) with (is_nil (per_root roots D i r)).
    rewrite Hc. destruct (write_manifests_from (S i) rs roots D pl _) as [f2 l]. simpl.
    eexists. split; [left; reflexivity|]. simpl. rewrite Nat.add_0_r. repeat split; auto.
    destruct (exists_at f (mf_path r)); reflexivity.
  - replace (i + S j)%nat with (S i + j)%nat in * by lia. cbn [write_manifests_from].
    assert (Hne : mf_path r0 <> mf_path r).
    { intros Eq. apply Hnotin. rewrite Eq. apply in_map. eapply nth_error_In. exact Hn. }
    match goal with |- context [if ?b then _ else _] => destruct b eqn:E end.
    + assert (Hc' : (exists_at (upd f (mf_path r0) (Some (new_manifest r0 (per_root roots D i r0)))) (mf_path r)
                     || negb (is_nil (per_root roots D (S i + j) r)) || root_had_changes roots pl (S i + j)
                     || legacy_stale (upd f (mf_path r0) (Some (new_manifest r0 (per_root roots D i r0)))) r) = true).
      { rewrite legacy_stale_upd by exact Hne. unfold exists_at in *. rewrite upd_other by (intros X; apply Hne; auto). exact Hc. }
      destruct (IH (S i) roots D pl _ j r Hnd' Hn Hc') as [c (H1 & H2 & H3 & H4)].
      destruct (write_manifests_from (S i) rs roots D pl _) as [f2 l]. simpl in *.
      exists c. split; [right; exact H1|auto].
    + destruct (IH (S i) roots D pl f j r Hnd' Hn Hc) as [c H]. exists c. exact H.
Qed.

Lemma write_manifests_ops rs : forall i roots D pl f a,
  In a (snd (write_manifests_from i rs roots D pl f)) -> is_cu (a_op a) = true.
Proof.
  induction rs as [|r rs IH]; intros i roots D pl f a Ha; simpl in Ha; [contradiction|].
  match type of Ha with context [if ?b then _ else _] => destruct b end.
  - match type of Ha with context [write_manifests_from ?i' rs roots D pl ?f'] =>
      specialize (IH i' roots D pl f' a); destruct (write_manifests_from i' rs roots D pl f') as [f2 l] end.
    simpl in Ha. destruct Ha as [<-|Ha]; [simpl; destruct (exists_at f (mf_path r)); reflexivity|apply IH; exact Ha].
  - eapply IH. exact Ha.
Qed.

(* the snapshot written by an applied deploy after which every root has a manifest *)
Definition good_snapshot (roots : list root) (DS : list dfile) (S : snapshot) (wS : world) : Prop :=
  sn_kind S = KDeploy /\ sn_state S = true /\ sn_managed S = triples DS /\
  NoDup (map a_path (man_changes (sn_changes S))) /\
  (forall r, In r roots -> exists c, In c (man_changes (sn_changes S)) /\ a_path c = mf_path r /\
                                     a_after c = files wS (mf_path r)) /\
  (forall c, In c (man_changes (sn_changes S)) -> exists r, In r roots /\ a_path c = mf_path r).

Lemma filter_nil_all {A} (g : A -> bool) l : (forall x, In x l -> g x = false) -> filter g l = [].
Proof.
  induction l as [|x l IH]; intros H; [reflexivity|]. simpl. rewrite (H x) by (left; reflexivity).
  apply IH. intros y Hy. apply H. right. exact Hy.
Qed.

Lemma filter_app_nil {A} (g : A -> bool) a b : filter g a = [] -> filter g (a ++ b) = filter g b.
Proof. intros H. rewrite filter_app, H. reflexivity. Qed.

Lemma deploy_good_snapshot st confirmed adopt w0 roots DS pl wS :
  deploy_cmd st confirmed adopt None w0 roots DS = (pl, (OApplied, wS)) ->
  wfD roots DS -> wfM DS (managed_for_plan w0 roots None) -> all_manifests roots (files wS) ->
  exists S, snaps wS = snaps w0 ++ [S] /\ good_snapshot roots DS S wS.
Proof.
  intros H HD HM Hall. unfold deploy_cmd in H. inversion H as [[Hpl Hd]]. clear H.
  apply deploy_apply_in_cases in Hd as [[Hx _]|(_ & Hw & _)]; [contradiction|]. subst pl.
  set (M := managed_for_plan w0 roots None) in *. set (pl := plan (files w0) DS M) in *.
  unfold apply_plan in Hw. destruct (apply_changes (files w0) pl) as [f1 l1] eqn:E1.
  destruct (write_manifests roots DS pl f1) as [f2 l2] eqn:E2.
  assert (Ef1 : forall q, f1 q = fold_left apply_change pl (files w0) q).
  { intros q. pose proof (apply_changes_fst (files w0) pl) as Hf. rewrite E1 in Hf. simpl in Hf. rewrite Hf. reflexivity. }
  eexists. split; [rewrite Hw; reflexivity|].
  assert (Hl1 : filter (fun c => is_manifest_path (a_path c) && is_cu (a_op c)) l1 = []).
  { apply filter_nil_all. intros a Ha.
    assert (Ha' : In a (snd (apply_changes (files w0) pl))) by (rewrite E1; exact Ha).
    apply apply_changes_snd in Ha' as [g [c [Hc ->]]].
    assert (Hnm : is_manifest_path (c_path c) = false) by (eapply (plan_paths_not_manifest roots (files w0) DS M); eauto).
    unfold applied_of. destruct (c_op c); simpl; rewrite Hnm; reflexivity. }
  assert (Hl2 : filter (fun c => is_manifest_path (a_path c) && is_cu (a_op c)) l2 = l2).
  { assert (Hall2 : forall a, In a l2 -> is_manifest_path (a_path a) && is_cu (a_op a) = true).
    { intros a Ha. assert (Ha' : In a (snd (write_manifests_from 0 roots roots DS pl f1))) by (unfold write_manifests in E2; rewrite E2; exact Ha).
      pose proof (write_manifests_snd _ _ _ _ _ _ _ Ha') as Hm. rewrite Hm. simpl.
      eapply write_manifests_ops. exact Ha'. }
    clear - Hall2. induction l2 as [|a l IH]; [reflexivity|]. simpl. rewrite Hall2 by (left; reflexivity).
    f_equal. apply IH. intros b Hb. apply Hall2. right. exact Hb. }
  unfold good_snapshot, man_changes. simpl. rewrite filter_app_nil by exact Hl1. rewrite Hl2.
  destruct (write_manifests_paths roots 0 roots DS pl f1) as [sub (Hs1 & Hs2 & Hs3)].
  unfold write_manifests in E2. rewrite E2 in Hs1. simpl in Hs1.
  repeat split.
  - rewrite Hs1. apply Hs3. apply HD.
  - intros r Hr. destruct (In_nth_error_ex _ _ Hr) as [j Hn].
    assert (Hfin : files wS (mf_path r) = f2 (mf_path r)) by (rewrite Hw; reflexivity).
    pose proof (write_manifests_at roots 0 roots DS pl f1 j r (proj2 (proj2 HD)) Hn) as Hat.
    rewrite E2 in Hat. simpl in Hat.
    destruct (should_write f1 roots DS pl j r) eqn:Ec.
    + destruct (write_manifests_records roots 0 roots DS pl f1 j r (proj2 (proj2 HD)) Hn Ec) as [c (H1 & H2 & H3 & H4)].
      rewrite E2 in H1. simpl in H1. exists c. split; [exact H1|]. split; [exact H2|]. rewrite H4, Hfin, Hat. reflexivity.
    + exfalso. apply (Hall r Hr). rewrite Hfin, Hat. unfold should_write in Ec.
      apply orb_false_iff in Ec as [Ec _]. apply orb_false_iff in Ec as [Ec _]. apply orb_false_iff in Ec as [Ec _]. unfold exists_at in Ec.
      destruct (f1 (mf_path r)); [discriminate|reflexivity].
  - intros c Hc. assert (Hin : In (a_path c) (map mf_path sub)) by (rewrite <- Hs1; apply in_map; exact Hc).
    apply in_map_iff in Hin as [r [E Hr]]. exists r. split; [apply Hs2; exact Hr|auto].
Qed.

Lemma triples_in D e : In e (triples D) <-> exists d, In d D /\ e = (dtarget d, dpath d, dcontent d).
Proof. unfold triples. rewrite in_map_iff. split; intros [d [H1 H2]]; exists d; auto. Qed.

(* ---------- C06: rollback to S after a plain history restores the world right after S ---------- *)
Theorem rollback_inverts_history st confirmed adopt w0 roots DS pl wS h :
  deploy_cmd st confirmed adopt None w0 roots DS = (pl, (OApplied, wS)) ->
  wfD roots DS -> wfM DS (managed_for_plan w0 roots None) -> covered roots DS ->
  all_manifests roots (files wS) ->
  hist_ok roots wS h ->
  let w := run_hist roots wS h in
  let id := length (snaps w0) in
  (* a path keeps its target between S and the head configuration *)
  (forall cur init, snaps w = init ++ [cur] ->
     forall e e', In e (sn_managed cur) -> In e' (triples DS) -> mpath e = mpath e' -> mtp e = mtp e') ->
  exists w', rollback w id = (RbOk, w') /\ forall p, files w' p = files wS p.
Proof.
  intros Hdep HD HM Hcov Hall Hok w id Hcompat.
  destruct (deploy_good_snapshot _ _ _ _ _ _ _ _ Hdep HD HM Hall) as [S [HsS (Gk & Gs & Gm & Gnd & Gr & Gonly)]].
  (* the invariant holds right after S ... *)
  assert (I0 : Inv roots wS DS wS DS).
  { pose proof Hdep as Hd2. unfold deploy_cmd in Hd2. inversion Hd2 as [[Hpl Hd3]]. clear Hd2.
    apply deploy_apply_in_cases in Hd3 as [[Hx _]|(_ & Hw & _)]; [contradiction|]. subst pl.
    constructor.
    - exists []. rewrite app_nil_r. split; [reflexivity|]. split; [constructor|].
      exists (snaps w0), S. repeat split; auto.
    - intros tp. rewrite Hw. apply managed_exact_after; auto. rewrite <- Hw. exact Hall.
    - exact Hall.
    - exact HD.
    - intros p _ _ _. reflexivity.
    - intros d Hd Hn. exfalso. apply (Hn d Hd). reflexivity.
    - intros p _ _. reflexivity. }
  (* ... and after the whole history *)
  destruct (inv_hist roots wS DS h wS DS I0 Hok) as [Dh I]. fold w in I.
  destruct (inv_snaps _ _ _ _ _ I) as [later (Hsn & Hlater & [init [cur (Hlast & Hck & Hcm)]])].
  assert (Hnth : nth_error (snaps w) id = Some S).
  { rewrite Hsn, HsS. rewrite <- app_assoc. unfold id. rewrite nth_error_app2 by lia. rewrite Nat.sub_diag. reflexivity. }
  assert (Hhead : head_of (snaps w) = Some (length init)).
  { unfold head_of. rewrite Hlast. rewrite head_from_last by (left; exact Hck). reflexivity. }
  assert (Hcur : nth_error (snaps w) (length init) = Some cur).
  { rewrite Hlast. rewrite nth_error_app2 by lia. rewrite Nat.sub_diag. reflexivity. }
  assert (HkS : sn_kind S <> KRollback) by (rewrite Gk; discriminate).
  destruct (rollback_ok w id (length init) S cur Hnth HkS Hhead Hcur Gs) as [w' (Hrb & _ & _)].
  exists w'. split; [exact Hrb|].
  assert (HwfS : NoDup (map mpath (sn_managed S))).
  { rewrite Gm. unfold triples. rewrite map_map. simpl. apply HD. }
  assert (HnmS : forall e, In e (sn_managed S) -> is_manifest_path (mpath e) = false).
  { intros e He. rewrite Gm in He. apply triples_in in He as [d [Hd ->]]. simpl. apply HD. exact Hd. }
  assert (HnmC : forall e, In e (sn_managed cur) -> is_manifest_path (mpath e) = false).
  { intros e He. rewrite Hcm in He. apply triples_in in He as [d [Hd ->]]. simpl. apply (inv_wfh _ _ _ _ _ I). exact Hd. }
  assert (Hone : forall e e', In e (sn_managed cur) -> In e' (sn_managed S) -> mpath e = mpath e' -> mtp e = mtp e').
  { intros e e' He He'. rewrite Gm in He'. apply (Hcompat cur init Hlast e e' He He'). }
  destruct (rb_effect w id (length init) S cur Hnth HkS Hhead Hcur Gs HwfS HnmS HnmC Hone Gnd w' Hrb) as (R1 & R2 & R3 & R4).
  intros p.
  destruct (is_manifest_path p) eqn:Emp.
  - (* manifest-named paths *)
    destruct (existsb (fun r => path_eqb (mf_path r) p) roots) eqn:Er.
    + apply existsb_exists in Er as [r [Hr Ep]]. apply path_eqb_eq in Ep. subst p.
      destruct (Gr r Hr) as [c (Hc & Hpc & Hac)]. rewrite <- Hpc.
      destruct (files wS (mf_path r)) as [o|] eqn:Ew; [|exfalso; apply (Hall r Hr); exact Ew].
      rewrite Hpc, Ew in *. rewrite <- Hpc. apply (R3 c o Hc Hac).
    + assert (Hnr : forall r, In r roots -> mf_path r <> p).
      { intros r Hr E. assert (existsb (fun r => path_eqb (mf_path r) p) roots = true).
        { apply existsb_exists. exists r. split; [exact Hr|apply path_eqb_eq; exact E]. } congruence. }
      rewrite R4.
      * apply (inv_other_manifests _ _ _ _ _ I p Emp Hnr).
      * intros e He E. rewrite <- E, (HnmS e He) in Emp. discriminate.
      * intros e He E. rewrite <- E, (HnmC e He) in Emp. discriminate.
      * intros c Hc E. destruct (Gonly c Hc) as [r [Hr Hpr]]. apply (Hnr r Hr). congruence.
  - (* ordinary paths *)
    destruct (existsb (fun d => path_eqb (dpath d) p) DS) eqn:Es.
    + apply existsb_exists in Es as [d [Hd Ep]]. apply path_eqb_eq in Ep. subst p.
      assert (He : In (dtarget d, dpath d, dcontent d) (sn_managed S)) by (rewrite Gm; apply triples_in; exists d; auto).
      pose proof (R1 _ He) as HR. unfold mpath in HR. cbn [fst snd] in HR. rewrite HR.
      destruct (snapshot_records_disk _ _ _ _ _ _ _ _ _ Hdep HD HM) as [S' (Hs' & _ & _ & Hm' & Hdisk)].
      rewrite HsS in Hs'. apply app_inv_head in Hs'. inversion Hs'; subst S'.
      symmetry. pose proof (Hdisk _ He) as Hdk. unfold mpath in Hdk. cbn [fst snd] in Hdk. exact Hdk.
    + assert (HnS : forall d, In d DS -> dpath d <> p).
      { intros d Hd E. assert (existsb (fun d => path_eqb (dpath d) p) DS = true).
        { apply existsb_exists. exists d. split; [exact Hd|apply path_eqb_eq; exact E]. } congruence. }
      destruct (existsb (fun d => path_eqb (dpath d) p) Dh) eqn:Eh.
      * apply existsb_exists in Eh as [d [Hd Ep]]. apply path_eqb_eq in Ep. subst p.
        assert (He : In (dtarget d, dpath d, dcontent d) (sn_managed cur)) by (rewrite Hcm; apply triples_in; exists d; auto).
        assert (Hnot : mem_tpc (mtp (dtarget d, dpath d, dcontent d)) (sn_managed S) = false).
        { destruct (mem_tpc (mtp (dtarget d, dpath d, dcontent d)) (sn_managed S)) eqn:Em; [|reflexivity].
          apply mem_tpc_true in Em as [e' [He' Etp]]. rewrite Gm in He'. apply triples_in in He' as [d' [Hd' ->]].
          unfold mtp in Etp. simpl in Etp. inversion Etp. exfalso. apply (HnS d' Hd'). assumption. }
        pose proof (R2 _ He Hnot) as HR. unfold mpath in HR. cbn [fst snd] in HR. rewrite HR. symmetry.
        apply (inv_new _ _ _ _ _ I d Hd). intros d' Hd' E. apply (HnS d' Hd'). exact E.
      * assert (HnH : forall d, In d Dh -> dpath d <> p).
        { intros d Hd E. assert (existsb (fun d => path_eqb (dpath d) p) Dh = true).
          { apply existsb_exists. exists d. split; [exact Hd|apply path_eqb_eq; exact E]. } congruence. }
        rewrite R4.
        -- apply (inv_unrec _ _ _ _ _ I p Emp HnS HnH).
        -- intros e He E. rewrite Gm in He. apply triples_in in He as [d [Hd ->]]. apply (HnS d Hd). exact E.
        -- intros e He E. rewrite Hcm in He. apply triples_in in He as [d [Hd ->]]. apply (HnH d Hd). exact E.
        -- intros c Hc E. destruct (Gonly c Hc) as [r [Hr Hpr]]. rewrite <- E, Hpr, mf_path_is_manifest in Emp. discriminate.
Qed.

(* after any plain history the managed set is exactly the key set of the last applied desired
   state, and every file of it that the user has not drifted since is on disk (C05 / C15 over
   histories) *)
Lemma history_managed_exact st confirmed adopt w0 roots DS pl wS h :
  deploy_cmd st confirmed adopt None w0 roots DS = (pl, (OApplied, wS)) ->
  wfD roots DS -> wfM DS (managed_for_plan w0 roots None) -> covered roots DS ->
  all_manifests roots (files wS) -> hist_ok roots wS h ->
  exists Dh, wfD roots Dh /\
             (forall tp, In tp (managed_for_plan (run_hist roots wS h) roots None) <-> mem_key tp Dh = true) /\
             all_manifests roots (files (run_hist roots wS h)).
Proof.
  intros Hdep HD HM Hcov Hall Hok.
  destruct (deploy_good_snapshot _ _ _ _ _ _ _ _ Hdep HD HM Hall) as [S [HsS (Gk & Gs & Gm & _)]].
  assert (I0 : Inv roots wS DS wS DS).
  { pose proof Hdep as Hd2. unfold deploy_cmd in Hd2. inversion Hd2 as [[Hpl Hd3]]. clear Hd2.
    apply deploy_apply_in_cases in Hd3 as [[Hx _]|(_ & Hw & _)]; [contradiction|]. subst pl.
    constructor.
    - exists []. rewrite app_nil_r. split; [reflexivity|]. split; [constructor|].
      exists (snaps w0), S. repeat split; auto.
    - intros tp. rewrite Hw. apply managed_exact_after; auto. rewrite <- Hw. exact Hall.
    - exact Hall.
    - exact HD.
    - intros p _ _ _. reflexivity.
    - intros d Hd Hn. exfalso. apply (Hn d Hd). reflexivity.
    - intros p _ _. reflexivity. }
  destruct (inv_hist roots wS DS h wS DS I0 Hok) as [Dh I].
  exists Dh. split; [exact (inv_wfh _ _ _ _ _ I)|]. split; [exact (inv_mex _ _ _ _ _ I)|exact (inv_allm _ _ _ _ _ I)].
Qed.
