(* Proofs/StatusP.v — status report: sound and complete w.r.t. the property's classification,
   summaries are counts, the only-filter is a filter. *)
From AP Require Import Base.Str Base.StrFacts Base.Sorting Gen.Tables Model.Deploy Model.Status Proofs.DeployP Proofs.ConvergeP.
From Coq Require Import Lia Arith.
Open Scope N_scope.

(* ---------- the property's classification, written declaratively ---------- *)
Definition usable (f : fs) (r : root) : Prop := read_manifest f r <> None.
Definition managed_by (f : fs) (r : root) (tp : tpath) : Prop := In tp (root_managed f r).
Definition desired_as (D : list dfile) (tp : tpath) (d : dfile) : Prop := find_desired D tp = Some d.
Definition not_desired (D : list dfile) (tp : tpath) : Prop := find_desired D tp = None.

(* an item of root r (index i) *)
Definition spec_root_item (f : fs) (universe : list path) (roots : list root) (D : list dfile)
           (i : nat) (r : root) (it : ditem) : Prop :=
  (usable f r /\ exists tp, managed_by f r tp /\ i_target it = fst tp /\ i_path it = snd tp /\
     i_root it = Some (rpath r) /\
     (   (exists d o, desired_as D tp d /\ f (snd tp) = Some o /\ o <> FBytes (dcontent d) /\
                      i_kind it = DModified /\ i_expected it = Some (dcontent d) /\ i_actual it = Some o)
      \/ (exists d, desired_as D tp d /\ f (snd tp) = None /\
                    i_kind it = DMissing /\ i_expected it = Some (dcontent d) /\ i_actual it = None)
      \/ (exists o, not_desired D tp /\ f (snd tp) = Some o /\
                    i_kind it = DExtra /\ i_expected it = None /\ i_actual it = Some o)))
  \/
  (usable f r /\ rscan r = true /\ i_kind it = DExtra /\ i_target it = rtarget r /\
     i_root it = Some (rpath r) /\ In (i_path it) universe /\ listed_under f r (i_path it) = true /\
     is_manifest_path (i_path it) = false /\ ~ managed_by f r (rtarget r, i_path it) /\
     i_expected it = None /\ i_actual it = f (i_path it))
  \/
  (~ usable f r /\ exists d, In d D /\ best_root_idx roots (dtarget d) (dpath d) = Some i /\
     In it (compare_desired f (Some (rpath r)) d)).

Definition spec_item (f : fs) (universe : list path) (roots : list root) (D : list dfile) (it : ditem) : Prop :=
  ((exists r, In r roots /\ usable f r) /\
   exists i r, nth_error roots i = Some r /\ spec_root_item f universe roots D i r it)
  \/
  ((forall r, In r roots -> ~ usable f r) /\
   exists d, In d D /\ In it (compare_desired f (root_path_of roots d) d)).

(* what the desired-versus-disk comparison yields *)
Lemma compare_desired_spec f rt d it :
  In it (compare_desired f rt d) <->
  i_target it = dtarget d /\ i_root it = rt /\ i_path it = dpath d /\ i_expected it = Some (dcontent d) /\
  (   (exists o, f (dpath d) = Some o /\ o <> FBytes (dcontent d) /\ i_kind it = DModified /\ i_actual it = Some o)
   \/ (f (dpath d) = None /\ i_kind it = DMissing /\ i_actual it = None)).
Proof.
  unfold compare_desired. destruct (f (dpath d)) as [o|] eqn:E.
  - destruct (fobj_eqb o (FBytes (dcontent d))) eqn:Eo.
    + apply fobj_eqb_eq in Eo. split; [intros []|]. intros (_ & _ & _ & _ & [[o' (Ho & Hne & _)]|[Hn _]]); [|discriminate].
      inversion Ho; subst. contradiction.
    + split.
      * intros [<-|[]]. simpl. repeat split; auto. left. exists o. repeat split; auto.
        intros ->. rewrite (proj2 (fobj_eqb_eq _ _) eq_refl) in Eo. discriminate.
      * intros (H1 & H2 & H3 & H4 & [[o' (Ho & _ & Hk & Ha)]|[Hn _]]); [|discriminate].
        inversion Ho; subst o'. left. destruct it; simpl in *; subst; reflexivity.
  - split.
    + intros [<-|[]]. simpl. repeat split; auto.
    + intros (H1 & H2 & H3 & H4 & [[o' (Ho & _)]|(_ & Hk & Ha)]); [discriminate|].
      left. destruct it; simpl in *; subst; reflexivity.
Qed.

Lemma read_manifest_dec f r : {es | read_manifest f r = Some es} + {read_manifest f r = None}.
Proof. destruct (read_manifest f r) as [es|]; [left; exists es; reflexivity|right; reflexivity]. Qed.

Lemma dedup_paths_In x l : In x (dedup_paths l) <-> In x l.
Proof.
  induction l as [|y l IH]; simpl; [tauto|].
  destruct (existsb (path_eqb y) l) eqn:E.
  - rewrite IH. split; [auto|]. intros [->|H]; [|exact H].
    apply existsb_exists in E as [z [Hz Ez]]. apply path_eqb_eq in Ez. subst. exact Hz.
  - simpl. rewrite IH. tauto.
Qed.

Lemma root_items_spec f universe roots D i r it :
  In it (root_items f universe roots D i r) <-> spec_root_item f universe roots D i r it.
Proof.
  unfold root_items, spec_root_item, usable, managed_by, desired_as, not_desired.
  destruct (read_manifest f r) as [es|] eqn:Er.
  - cbv zeta. rewrite in_app_iff, in_flat_map. split.
    + intros [[tp [Htp Hit]]|Hex].
      * left. split; [discriminate|]. apply (proj1 (dedup_tp_In _ _)) in Htp. exists tp. split; [exact Htp|].
        unfold compare_managed in Hit.
        destruct (find_desired D tp) as [d|] eqn:Ed; destruct (f (snd tp)) as [o|] eqn:Ef.
        -- destruct (fobj_eqb o (FBytes (dcontent d))) eqn:Eo; [contradiction|].
           destruct Hit as [<-|[]]. simpl. repeat split; auto. left. exists d, o. repeat split; auto.
           intros ->. rewrite (proj2 (fobj_eqb_eq _ _) eq_refl) in Eo. discriminate.
        -- destruct Hit as [<-|[]]. simpl. repeat split; auto. right. left. exists d. repeat split; auto.
        -- destruct Hit as [<-|[]]. simpl. repeat split; auto. right. right. exists o. repeat split; auto.
        -- contradiction.
      * right. left. split; [discriminate|]. destruct (rscan r) eqn:Es; [|contradiction].
        unfold extras_scan in Hex. apply in_map_iff in Hex as [p [<- Hp]]. apply filter_In in Hp as [Hu Hp].
        apply (proj1 (dedup_paths_In _ _)) in Hu. apply andb_true_iff in Hp as [Hp Hm]. apply andb_true_iff in Hp as [Hl Hnm].
        apply negb_true_iff in Hnm. apply negb_true_iff in Hm. simpl. repeat split; auto.
        intros Hin. apply mem_tp_false in Hm. apply Hm. apply dedup_tp_In. exact Hin.
    + intros [[_ [tp (Htp & Ht & Hp & Hr & Hc)]]|[(_ & Hs & Hk & Ht & Hr & Hu & Hl & Hnm & Hm & He & Ha)|[Hn _]]].
      * left. exists tp. split; [apply dedup_tp_In; exact Htp|]. unfold compare_managed.
        destruct Hc as [[d [o (Hd & Hf & Hne & Hk & He & Ha)]]|[[d (Hd & Hf & Hk & He & Ha)]|[o (Hd & Hf & Hk & He & Ha)]]];
          rewrite Hd, Hf.
        -- destruct (fobj_eqb o (FBytes (dcontent d))) eqn:Eo; [apply fobj_eqb_eq in Eo; contradiction|].
           left. destruct it; simpl in *; subst; reflexivity.
        -- left. destruct it; simpl in *; subst; reflexivity.
        -- left. destruct it; simpl in *; subst; reflexivity.
      * right. rewrite Hs. unfold extras_scan. apply in_map_iff. exists (i_path it). split.
        -- destruct it; simpl in *; subst; reflexivity.
        -- apply filter_In. split; [apply dedup_paths_In; exact Hu|]. rewrite Hl, Hnm. simpl.
           apply negb_true_iff. apply mem_tp_false. intros Hin. apply Hm. apply (proj1 (dedup_tp_In _ _)). exact Hin.
      * exfalso. apply Hn. discriminate.
  - rewrite in_flat_map. split.
    + intros [d [Hd Hit]]. apply filter_In in Hd as [Hd Hi]. right. right. split; [intros H; apply H; reflexivity|].
      exists d. split; [exact Hd|]. split; [apply idx_is_spec; exact Hi|exact Hit].
    + intros [[Hn _]|[[Hn _]|[_ [d (Hd & Hb & Hit)]]]]; try (exfalso; apply Hn; reflexivity).
      exists d. split; [|exact Hit]. apply filter_In. split; [exact Hd|]. apply idx_is_spec. exact Hb.
Qed.

Lemma report_roots_spec rs : forall i f universe roots D it,
  In it (report_roots i rs f universe roots D) <->
  exists j r, nth_error rs j = Some r /\ In it (root_items f universe roots D (i + j) r).
Proof.
  induction rs as [|r rs IH]; intros i f universe roots D it; simpl.
  - split; [intros []|]. intros [j [r [H _]]]. destruct j; discriminate.
  - rewrite in_app_iff, IH. split.
    + intros [H|[j [r' [Hn H]]]].
      * exists 0%nat, r. rewrite Nat.add_0_r. auto.
      * exists (S j), r'. replace (i + S j)%nat with (S i + j)%nat by lia. auto.
    + intros [[|j] [r' [Hn H]]]; simpl in Hn.
      * inversion Hn; subst. rewrite Nat.add_0_r in H. left. exact H.
      * right. exists j, r'. replace (S i + j)%nat with (i + S j)%nat by lia. auto.
Qed.

Lemma any_manifest_spec f roots :
  any_manifest f roots = true <-> exists r, In r roots /\ usable f r.
Proof.
  unfold any_manifest, usable. rewrite existsb_exists. split; intros [r [Hr H]]; exists r; split; auto.
  - destruct (read_manifest f r); [discriminate|discriminate].
  - destruct (read_manifest f r); [reflexivity|contradiction].
Qed.

(* C16: the report contains exactly the items of the classification *)
Theorem report_sound_complete f universe roots D it :
  In it (report f universe roots D) <-> spec_item f universe roots D it.
Proof.
  unfold report, spec_item. destruct (any_manifest f roots) eqn:Ea.
  - apply any_manifest_spec in Ea. rewrite report_roots_spec. split.
    + intros [j [r [Hn H]]]. left. split; [exact Ea|]. exists j, r. split; [exact Hn|].
      apply root_items_spec. exact H.
    + intros [[_ [i [r [Hn H]]]]|[Hno _]].
      * exists i, r. split; [exact Hn|]. apply root_items_spec. exact H.
      * destruct Ea as [r [Hr Hu]]. exfalso. eapply Hno; eauto.
  - rewrite in_flat_map. split.
    + intros [d [Hd H]]. right. split; [|exists d; auto].
      intros r Hr Hu. assert (any_manifest f roots = true) by (apply any_manifest_spec; exists r; auto). congruence.
    + intros [[[r [Hr Hu]] _]|[_ [d [Hd H]]]].
      * assert (any_manifest f roots = true) by (apply any_manifest_spec; exists r; auto). congruence.
      * exists d. auto.
Qed.

(* hashes shown are the true ones: actual is the content on disk, expected the desired content *)
Lemma report_hashes_true f universe roots D it :
  In it (report f universe roots D) ->
  i_actual it = f (i_path it) /\
  (forall c, i_expected it = Some c -> exists d, In d D /\ dpath d = i_path it /\ dtarget d = i_target it /\ dcontent d = c).
Proof.
  intros H. apply report_sound_complete in H.
  assert (Hfd : forall tp d, find_desired D tp = Some d -> In d D /\ dkey d = tp).
  { intros tp d Hf. unfold find_desired in Hf. apply find_some in Hf as [H1 H2]. apply tp_eqb_eq in H2. auto. }
  destruct H as [[_ [i [r [Hn Hs]]]]|[_ [d [Hd Hc]]]].
  - destruct Hs as [[_ [tp (Htp & Ht & Hp & Hr & Hc)]]|[(_ & _ & _ & _ & _ & _ & _ & _ & _ & He & Ha)|[_ [d (Hd & _ & Hc)]]]].
    + destruct Hc as [[d [o (Hd & Hf & _ & _ & He & Ha)]]|[[d (Hd & Hf & _ & He & Ha)]|[o (Hd & Hf & _ & He & Ha)]]];
        rewrite Hp, Ha, Hf; (split; [reflexivity|]); intros c Hc; rewrite He in Hc; try discriminate;
        inversion Hc; subst c; destruct (Hfd _ _ Hd) as [Hin Hk]; exists d; unfold dkey in Hk; destruct tp; inversion Hk; subst;
        simpl in *; repeat split; auto.
    + split; [exact Ha|]. intros c Hc. rewrite He in Hc. discriminate.
    + apply compare_desired_spec in Hc as (Ht & _ & Hp & He & [[o (Hf & _ & _ & Ha)]|(Hf & _ & Ha)]);
        rewrite Hp, Ha, Hf; (split; [reflexivity|]); intros c Hc; rewrite He in Hc; inversion Hc; subst c; exists d; auto.
  - apply compare_desired_spec in Hc as (Ht & _ & Hp & He & [[o (Hf & _ & _ & Ha)]|(Hf & _ & Ha)]);
      rewrite Hp, Ha, Hf; (split; [reflexivity|]); intros c Hc; rewrite He in Hc; inversion Hc; subst c; exists d; auto.
Qed.

(* ---------- summaries and the only-filter ---------- *)
Lemma summary_counts l k : count_kind k l = N.of_nat (length (filter (fun it => dkind_eqb (i_kind it) k) l)).
Proof. reflexivity. Qed.

Lemma dkind_eqb_eq a b : dkind_eqb a b = true <-> a = b.
Proof. destruct a, b; simpl; split; intros H; try reflexivity; try discriminate. Qed.

Lemma summary_total l :
  (s_modified (drift_summary l) + s_missing (drift_summary l) + s_extra (drift_summary l) = N.of_nat (length l)).
Proof.
  unfold drift_summary, count_kind. cbn [s_modified s_missing s_extra]. rewrite <- !Nat2N.inj_add. f_equal.
  induction l as [|it l IH]; [reflexivity|]. cbn [filter length]. destruct (i_kind it); cbn [dkind_eqb length]; lia.
Qed.

Lemma filter_only_spec only l it :
  only <> [] -> (In it (filter_only only l) <-> In it l /\ In (i_kind it) only).
Proof.
  intros Hne. unfold filter_only. destruct only as [|k ks]; [contradiction|].
  rewrite filter_In, existsb_exists. split.
  - intros [H [k' [Hk E]]]. apply dkind_eqb_eq in E. subst. auto.
  - intros [H Hk]. split; [exact H|]. exists (i_kind it). split; [exact Hk|]. apply dkind_eqb_eq. reflexivity.
Qed.

Lemma filter_only_nil l : filter_only [] l = l.
Proof. reflexivity. Qed.

Lemma summary_by_root_counts t rt l k :
  count_kind k (filter (same_root t rt) l) =
  N.of_nat (length (filter (fun it => same_root t rt it && dkind_eqb (i_kind it) k) l)).
Proof.
  unfold count_kind. f_equal. induction l as [|it l IH]; [reflexivity|]. simpl.
  destruct (same_root t rt it); simpl; [destruct (dkind_eqb (i_kind it) k); simpl; rewrite IH; reflexivity|exact IH].
Qed.
