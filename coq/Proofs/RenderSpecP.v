(* Proofs/RenderSpecP.v — C12_refines_spec: the desired map computed by the model's adapters is exactly
   the documented mapping of Model/RenderSpec.v (all six targets). *)
From AP Require Import Base.Str Base.StrFacts Base.PathR Base.PathRFacts Base.Sorting Gen.Tables Model.Render Model.RenderSpec
     Proofs.RenderP Proofs.RenderSafeP Proofs.RenderOrderP.
From Coq Require Import Lia Sorting.Sorted Sorting.Permutation.
Open Scope N_scope.

(* ---------- boolean reflection ---------- *)

Lemma mem_str_in a l : mem_str a l = true <-> In a l.
Proof.
  induction l as [|b r IH]; simpl; [split; [discriminate|intros []]|].
  rewrite orb_true_iff, IH, str_eqb_eq. split; intros [H|H]; auto.
Qed.

Lemma mem_str_not a l : mem_str a l = false <-> ~ In a l.
Proof.
  split; intros H.
  - intros Hin. apply mem_str_in in Hin. congruence.
  - destruct (mem_str a l) eqn:E; [apply mem_str_in in E; contradiction|reflexivity].
Qed.

Lemma mtype_eqb_eq a b : mtype_eqb a b = true <-> a = b.
Proof. destruct a, b; simpl; split; intros H; try reflexivity; discriminate. Qed.

Lemma permits_iff tn m : permits tn m = true <-> permitted tn m.
Proof.
  unfold permits, permitted. destruct (m_targets m) as [|a r] eqn:E.
  - split; [intros; left; reflexivity|reflexivity].
  - rewrite mem_str_in. split; [intros H; right; exact H|intros [H|H]; [discriminate|exact H]].
Qed.

Lemma mods_for_iff tn ty ms m : In m (mods_for tn ty ms) <-> In m ms /\ m_type m = ty /\ permitted tn m.
Proof.
  unfold mods_for. rewrite filter_In, andb_true_iff, mtype_eqb_eq, permits_iff. tauto.
Qed.

Lemma flag_opt_on t name tbl : flag t name tbl = true <-> opt_on t name tbl.
Proof.
  unfold flag, opt_on, scope_allows, scope_flags.
  destruct (t_scope t), (snd tbl); simpl; split; intros H;
    try discriminate; try (split; [auto|exact H]); try (destruct H as [[H1|H1] _]; discriminate); try apply H.
Qed.

Lemma ships_iff m f : ships m f <-> In f (copied (m_files m)).
Proof.
  unfold ships, copied, ignored_rel. rewrite filter_In. split; intros [H1 H2]; split; try exact H1.
  - apply negb_true_iff. destruct (existsb _ (f_rel f)) eqn:E; [|reflexivity].
    apply existsb_exists in E as [x [Hx Hm]]. apply mem_str_in in Hm. exfalso. apply (H2 x Hx Hm).
  - intros x Hx Hin. apply negb_true_iff in H2.
    assert (E : existsb (fun c => mem_str c copy_tree_ignored) (f_rel f) = true)
      by (apply existsb_exists; exists x; split; [exact Hx|apply mem_str_in; exact Hin]).
    congruence.
Qed.

Lemma file_name_last f default : f_rel f <> [] -> file_name f default = last_name f.
Proof.
  unfold file_name, last_name. intros H. destruct (f_rel f) as [|a r] using rev_ind; [congruence|].
  rewrite rev_app_distr. simpl. rewrite last_last. reflexivity.
Qed.

(* ---------- no_fail ---------- *)

Lemma no_fail_app a b : no_fail (a ++ b) <-> no_fail a /\ no_fail b.
Proof.
  unfold no_fail. split.
  - intros H. split; intros c Hc; apply (H c); apply in_or_app; [left|right]; exact Hc.
  - intros [H1 H2] c Hc. apply in_app_or in Hc as [Hc|Hc]; [apply (H1 c Hc)|apply (H2 c Hc)].
Qed.

Lemma no_fail_flat_map {A} (f : A -> list step) l : no_fail (flat_map f l) <-> forall x, In x l -> no_fail (f x).
Proof.
  unfold no_fail. split.
  - intros H x Hx c Hc. apply (H c). apply in_flat_map. exists x. split; assumption.
  - intros H c Hc. apply in_flat_map in Hc as [x [Hx Hc]]. apply (H x Hx c Hc).
Qed.

Lemma no_fail_single c : ~ no_fail [Fail c].
Proof. intros H. apply (H c). left. reflexivity. Qed.

Lemma no_fail_when b l : no_fail (when b l) <-> (b = true -> no_fail l).
Proof.
  destruct b; simpl; split.
  - intros H _. exact H.
  - intros H. apply H. reflexivity.
  - intros _ H. discriminate.
  - intros _ c [].
Qed.

(* ---------- what the Inv says about lookups ---------- *)

Lemma lookup_emits done D : Inv done D -> forall k b,
  (exists x, lookup D k = Some x /\ d_bytes x = b) <-> (exists em, In em done /\ e_key em = k /\ e_bytes em = b).
Proof.
  intros I k b. split.
  - intros [x [L B]]. apply lookup_some in L as [Hx Kx]. destruct (inv_src _ _ I x Hx) as [em [Hem Kem]].
    exists em. split; [exact Hem|]. split; [congruence|].
    destruct (inv_bytes _ _ I em Hem) as [y [Hy [Ky By]]].
    assert (y = x).
    { pose proof (lookup_in D (inv_nodup _ _ I) y Hy) as L1. pose proof (lookup_in D (inv_nodup _ _ I) x Hx) as L2.
      rewrite Ky, Kem in L1. congruence. }
    subst y. congruence.
  - intros [em [Hem [Kem Bem]]]. destruct (inv_bytes _ _ I em Hem) as [x [Hx [Kx Bx]]].
    exists x. split; [|congruence]. rewrite <- Kem, <- Kx. apply lookup_in; [apply (inv_nodup _ _ I)|exact Hx].
Qed.

(* ---------- selection ---------- *)

Lemma selected_by_iff c prof p m : find_profile c prof = Some p ->
  (In m (c_modules c) /\ selected_by p m = true <-> selected c prof m).
Proof.
  intros Hp. unfold selected, selected_by. split.
  - intros [Hin H]. apply andb_true_iff in H as [H H3]. apply andb_true_iff in H as [H1 H2].
    split; [exact Hin|]. split; [exact H1|]. exists p. split; [exact Hp|].
    split; [apply mem_str_not; apply negb_true_iff; exact H2|].
    apply orb_true_iff in H3 as [H3|H3].
    + left. apply existsb_exists in H3 as [t [Ht Hm]]. exists t. split; [exact Ht|apply mem_str_in; exact Hm].
    + right. apply mem_str_in. exact H3.
  - intros [Hin [H1 [p' [Hp' [H2 H3]]]]]. rewrite Hp in Hp'. inversion Hp'; subst p'.
    split; [exact Hin|]. rewrite H1. simpl. apply andb_true_iff. split.
    + apply negb_true_iff. apply mem_str_not. exact H2.
    + apply orb_true_iff. destruct H3 as [[t [Ht Hm]]|H3].
      * left. apply existsb_exists. exists t. split; [exact Ht|apply mem_str_in; exact Hm].
      * right. apply mem_str_in. exact H3.
Qed.

Definition id_lt (a b : module) : Prop := str_compare (m_id a) (m_id b) = Lt.

Lemma select_modules_spec c prof ms : NoDup (map m_id (c_modules c)) -> select_modules c prof = Some ms ->
  (forall m, In m ms <-> selected c prof m) /\ StronglySorted id_lt ms.
Proof.
  intros Hnd. unfold select_modules. destruct (find_profile c prof) as [p|] eqn:Hp; [|discriminate].
  intros H. inversion H; subst ms. clear H. split.
  - intros m. rewrite <- (selected_by_iff c prof p m Hp), <- filter_In. split; intros Hm.
    + eapply Permutation_in; [apply Permutation_sym, isort_perm|exact Hm].
    + eapply Permutation_in; [apply isort_perm|exact Hm].
  - pose proof (isort_sorted id_leb id_leb_total id_leb_trans (filter (selected_by p) (c_modules c))) as Hs.
    assert (Hnd' : NoDup (map m_id (isort id_leb (filter (selected_by p) (c_modules c))))).
    { eapply Permutation_NoDup; [apply Permutation_map, isort_perm|]. apply NoDup_map_filter. exact Hnd. }
    induction Hs as [|a l Hl IH Hall]; [constructor|]. simpl in Hnd'. inversion Hnd' as [|? ? Hn Hnd'']; subst.
    constructor; [apply IH; exact Hnd''|]. rewrite Forall_forall in *. intros b Hb.
    apply str_leb_lt; [apply Hall; exact Hb|]. intros E. apply Hn. rewrite E. apply in_map. exact Hb.
Qed.

(* ---------- targets ---------- *)

Lemma find_name_spec (ts : list tcfg) n t : NoDup (map t_name ts) ->
  find (fun x => str_eqb (t_name x) n) ts = Some t <-> In t ts /\ t_name t = n.
Proof.
  induction ts as [|y r IH]; intros Hnd; simpl.
  - split; [discriminate|intros [[] _]].
  - inversion Hnd as [|? ? Hn Hr]; subst. destruct (str_eqb (t_name y) n) eqn:E.
    + apply str_eqb_eq in E. split.
      * intros H. inversion H; subst. split; [left; reflexivity|reflexivity].
      * intros [[ -> |Hin] Hname]; [reflexivity|]. exfalso. apply Hn. rewrite E, <- Hname. apply in_map. exact Hin.
    + rewrite (IH Hr). split.
      * intros [Hin Hname]. split; [right; exact Hin|exact Hname].
      * intros [[ -> |Hin] Hname]; [apply str_eqb_eq in Hname; congruence|split; assumption].
Qed.

Lemma selected_targets_spec c filt ts : NoDup (map t_name (c_targets c)) -> selected_targets c filt = Ok ts ->
  forall t, In t ts <-> target_on c filt t.
Proof.
  intros Hnd. unfold selected_targets, target_on. destruct (str_eqb filt (s "all")) eqn:Ea.
  - apply str_eqb_eq in Ea. intros H t. inversion H; subst ts. unfold sorted_targets. split.
    + intros Hin. split; [eapply Permutation_in; [apply Permutation_sym, isort_perm|exact Hin]|left; exact Ea].
    + intros [Hin _]. eapply Permutation_in; [apply isort_perm|exact Hin].
  - destruct (mem_str filt compiled_targets); [|discriminate].
    destruct (find (fun t => str_eqb (t_name t) filt) (c_targets c)) as [t0|] eqn:Ef; [|discriminate].
    intros H t. inversion H; subst ts. apply (find_name_spec _ _ _ Hnd) in Ef as [Hin0 Hn0]. split.
    + intros [ <- |[]]. split; [exact Hin0|right; symmetry; exact Hn0].
    + intros [Hin [Hall|Hname]]; [rewrite Hall in Ea; vm_compute in Ea; discriminate|].
      left. symmetry. apply (NoDup_map_inj t_name (c_targets c) Hnd); [exact Hin|exact Hin0|congruence].
Qed.

(* ---------- module-level: emits of the step functions, as relations ---------- *)

Lemma skill_steps_spec tn m dests em : no_fail (skill_steps tn m dests) ->
  (In (Emit em) (skill_steps tn m dests) <->
   exists f d, ships m f /\ In d dests /\ em = mkEmit tn d [skill_name m; rel_string f] (f_bytes f) [m_id m]).
Proof.
  intros Hnf. unfold skill_steps in *. destruct (materialize m) as [fs|x] eqn:E; [|exfalso; exact (no_fail_single x Hnf)].
  destruct (materialize_ok _ _ E) as [Hfs _]. unfold skill_emits. split.
  - intros H. apply in_flat_map in H as [f [Hf H]]. apply in_map_iff in H as [d [Hd Hin]].
    exists f, d. split; [apply ships_iff; rewrite <- Hfs; exact Hf|]. split; [exact Hin|]. inversion Hd. reflexivity.
  - intros [f [d [Hs [Hd ->]]]]. apply in_flat_map. exists f. split; [rewrite Hfs; apply ships_iff; exact Hs|].
    apply in_map_iff. exists d. split; [reflexivity|exact Hd].
Qed.

Lemma single_steps_spec tn m default rename dests em :
  (m_type m = TPrompt \/ m_type m = TCommand) -> Forall file_ok (m_files m) ->
  no_fail (single_steps tn m default rename dests) ->
  (In (Emit em) (single_steps tn m default rename dests) <->
   exists f d, ships m f /\ In d dests /\ em = mkEmit tn d [rename (last_name f)] (f_bytes f) [m_id m]).
Proof.
  intros Hty Hok Hnf. unfold single_steps in *.
  destruct (materialize m) as [fs|x] eqn:E; [|exfalso; exact (no_fail_single x Hnf)].
  destruct (materialize_ok _ _ E) as [Hfs [_ Hv]].
  assert (Hone : exists f, fs = [f]).
  { unfold validate_tree in Hv. destruct (existsb has_backslash fs); [discriminate|].
    destruct Hty as [Hty|Hty]; rewrite Hty in Hv; destruct fs as [|f [|g r]]; try discriminate; eexists; reflexivity. }
  destruct Hone as [f0 Hf0]. rewrite Hf0 in *. simpl.
  assert (Hship : forall f, ships m f <-> f = f0).
  { intros f. rewrite ships_iff, <- Hfs. simpl. split; [intros [H|[]]; congruence|intros ->; left; reflexivity]. }
  assert (Hrel : f_rel f0 <> []).
  { rewrite Forall_forall in Hok. assert (Hin : In f0 (m_files m)).
    { assert (X : In f0 (copied (m_files m))) by (rewrite <- Hfs; left; reflexivity). unfold copied in X. apply filter_In in X. apply X. }
    apply (Hok f0 Hin). }
  rewrite (file_name_last f0 default Hrel). split.
  - intros H. apply in_map_iff in H as [d [Hd Hin]]. exists f0, d. split; [apply Hship; reflexivity|]. split; [exact Hin|].
    inversion Hd. reflexivity.
  - intros [f [d [Hs [Hd ->]]]]. apply Hship in Hs. subst f. apply in_map_iff. exists d. split; [reflexivity|exact Hd].
Qed.

Lemma cursor_steps_spec m dir em : m_type m = TInstructions -> NoDup (map f_rel (m_files m)) ->
  no_fail (cursor_steps m dir) ->
  (In (Emit em) (cursor_steps m dir) <->
   exists f, ships m f /\ f_rel f = [agents_md] /\
             em = mkEmit t_cursor dir [fs_key m ++ cursor_rule_ext] (cursor_rule_bytes m (f_bytes f)) [m_id m]).
Proof.
  intros Hty Hnd Hnf. unfold cursor_steps in *.
  destruct (materialize m) as [fs|x] eqn:E; [|exfalso; exact (no_fail_single x Hnf)].
  destruct (materialize_ok _ _ E) as [Hfs _].
  destruct (find_file [agents_md] fs) as [f0|] eqn:Ef; [|exfalso; exact (no_fail_single _ Hnf)].
  assert (Hnd' : NoDup (map f_rel fs)) by (rewrite Hfs; apply copied_nodup; exact Hnd).
  pose proof (find_file_spec [agents_md] fs Hnd') as Hspec. split.
  - intros [H|[]]. exists f0. apply Hspec in Ef as [Hin Hrel].
    split; [apply ships_iff; rewrite <- Hfs; exact Hin|]. split; [exact Hrel|]. inversion H. reflexivity.
  - intros [f [Hs [Hrel ->]]]. left. apply ships_iff in Hs. rewrite <- Hfs in Hs.
    assert (X : find_file [agents_md] fs = Some f) by (apply Hspec; split; assumption).
    rewrite Ef in X. inversion X. reflexivity.
Qed.

(* the parts list of an aggregated file *)
Lemma collect_parts_spec l parts :
  (forall m, In m l -> m_type m = TInstructions /\ NoDup (map f_rel (m_files m))) ->
  collect_parts l = Ok parts ->
  Forall2 (fun m p => exists f, ships m f /\ f_rel f = [agents_md] /\ p = (m_id m, f_bytes f)) l parts.
Proof.
  revert parts. induction l as [|m r IH]; intros parts Hall H; simpl in H.
  - inversion H. constructor.
  - destruct (materialize m) as [fs|x] eqn:E; [|discriminate].
    destruct (materialize_ok _ _ E) as [Hfs [_ Hv]].
    destruct (Hall m (or_introl eq_refl)) as [Hty Hnd].
    assert (Hnd' : NoDup (map f_rel fs)) by (rewrite Hfs; apply copied_nodup; exact Hnd).
    destruct (find_file [agents_md] fs) as [f|] eqn:Ef.
    + destruct (f_utf8 f); [|discriminate]. destruct (collect_parts r) as [ps|y] eqn:Er; [|discriminate].
      inversion H; subst parts. constructor.
      * apply (find_file_spec _ _ Hnd') in Ef as [Hin Hrel]. exists f.
        split; [apply ships_iff; rewrite <- Hfs; exact Hin|]. split; [exact Hrel|reflexivity].
      * apply IH; [intros m' Hm'; apply Hall; right; exact Hm'|reflexivity].
    + exfalso. unfold validate_tree in Hv. destruct (existsb has_backslash fs); [discriminate|].
      rewrite Hty, Ef in Hv. discriminate.
Qed.

Definition part_lt (a b : str * list N) : Prop := str_compare (fst a) (fst b) = Lt.

Lemma sorted_filter {A} (R : A -> A -> Prop) (p : A -> bool) l : StronglySorted R l -> StronglySorted R (filter p l).
Proof.
  induction 1 as [|a l Hl IH Hall]; simpl; [constructor|].
  destruct (p a); [|exact IH]. constructor; [exact IH|].
  rewrite Forall_forall in *. intros x Hx. apply filter_In in Hx. apply Hall. apply Hx.
Qed.

Lemma parts_agg c prof t ms l parts :
  (forall m, In m ms <-> selected c prof m) -> StronglySorted id_lt ms ->
  (forall m, In m (c_modules c) -> NoDup (map f_rel (m_files m))) ->
  l = mods_for (t_name t) TInstructions ms -> collect_parts l = Ok parts ->
  agg_parts c prof t parts.
Proof.
  intros Hsel Hsorted Hnd -> Hc.
  assert (Hall : forall m, In m (mods_for (t_name t) TInstructions ms) -> m_type m = TInstructions /\ NoDup (map f_rel (m_files m))).
  { intros m Hm. apply mods_for_iff in Hm as [Hin [Hty _]]. split; [exact Hty|]. apply Hnd. apply Hsel in Hin. apply Hin. }
  pose proof (collect_parts_spec _ _ Hall Hc) as HF.
  pose proof (sorted_filter id_lt (fun m => mtype_eqb (m_type m) TInstructions && permits (t_name t) m) ms Hsorted) as Hs.
  fold (mods_for (t_name t) TInstructions ms) in Hs.
  split.
  - clear Hc Hall. induction HF as [|m p l ps Hmp Hl IH]; [constructor|].
    inversion Hs as [|? ? Hs' Hlt]; subst. constructor; [apply IH; exact Hs'|].
    destruct Hmp as [f [_ [_ ->]]]. clear IH Hs Hs'. induction Hl as [|m' p' l' ps' Hmp' Hl' IH']; [constructor|].
    inversion Hlt as [|? ? Hm' Hrest]; subst. constructor; [|apply IH'; exact Hrest].
    destruct Hmp' as [f' [_ [_ ->]]]. exact Hm'.
  - intros p. split.
    + intros Hp. clear Hs Hc. induction HF as [|m q l ps Hmq Hl IH]; [destruct Hp|].
      destruct Hp as [ <- |Hp].
      * destruct Hmq as [f [Hsh [Hrel ->]]]. destruct (Hall m (or_introl eq_refl)) as [Hty _].
        assert (Hm : In m (mods_for (t_name t) TInstructions ms)) by (left; reflexivity).
        apply mods_for_iff in Hm as [Hin [_ Hperm]]. exists m, f. repeat split; try assumption; try apply Hsel; try exact Hin; try apply Hsh.
      * apply IH; [intros m' Hm'; apply Hall; right; exact Hm'|exact Hp].
    + intros [m [f [Hselm [Hty [Hperm [Hsh [Hrel ->]]]]]]].
      assert (Hm : In m (mods_for (t_name t) TInstructions ms)) by (apply mods_for_iff; split; [apply Hsel; exact Hselm|split; assumption]).
      clear Hs Hc. induction HF as [|m' q l ps Hmq Hl IH]; [destruct Hm|].
      destruct Hm as [ -> |Hm].
      * left. destruct Hmq as [f' [Hsh' [Hrel' ->]]]. f_equal. f_equal.
        destruct (Hall m (or_introl eq_refl)) as [_ Hndm].
        apply ships_iff in Hsh. apply ships_iff in Hsh'.
        pose proof (find_file_spec [agents_md] (copied (m_files m)) (copied_nodup _ Hndm)) as Hsp.
        assert (X1 : find_file [agents_md] (copied (m_files m)) = Some f) by (apply Hsp; split; assumption).
        assert (X2 : find_file [agents_md] (copied (m_files m)) = Some f') by (apply Hsp; split; assumption).
        congruence.
      * right. apply IH; [intros m'' Hm''; apply Hall; right; exact Hm''|exact Hm].
Qed.

(* strictly sorted part lists with the same members are equal *)
Lemma parts_unique (l1 l2 : list (str * list N)) :
  StronglySorted part_lt l1 -> StronglySorted part_lt l2 -> (forall p, In p l1 <-> In p l2) -> l1 = l2.
Proof.
  intros H1 H2 Hiff.
  assert (Hnd : forall l, StronglySorted part_lt l -> NoDup (map fst l)).
  { induction l as [|a r IH]; intros Hs; [constructor|]. inversion Hs as [|? ? Hr Hall]; subst. simpl.
    constructor; [|apply IH; exact Hr]. intros Hin. apply in_map_iff in Hin as [b [Hb Hin]].
    rewrite Forall_forall in Hall. specialize (Hall b Hin). unfold part_lt in Hall. rewrite Hb, str_compare_refl in Hall. discriminate. }
  assert (Hnd2 : forall l, StronglySorted part_lt l -> NoDup l).
  { intros l Hs. pose proof (Hnd l Hs) as X. clear - X. induction l as [|a r IH]; [constructor|].
    simpl in X. inversion X as [|? ? Hn Hr]; subst. constructor; [|apply IH; exact Hr].
    intros Hin. apply Hn. apply in_map. exact Hin. }
  set (leb := fun a b : str * list N => str_leb (fst a) (fst b)).
  assert (Hle : forall l, StronglySorted part_lt l -> StronglySorted (le leb) l).
  { induction l as [|a r IH]; intros Hs; [constructor|]. inversion Hs as [|? ? Hr Hall]; subst.
    constructor; [apply IH; exact Hr|]. eapply Forall_impl; [|exact Hall]. intros y Hy. unfold le, leb. apply str_lt_leb. exact Hy. }
  apply (sorted_perm_unique leb).
  - intros x y Hx Hy Hxy Hyx. unfold leb in *. pose proof (str_leb_antisym _ _ Hxy Hyx) as E.
    apply (NoDup_map_inj fst l1 (Hnd l1 H1)); assumption.
  - apply Hle. exact H1.
  - apply Hle. exact H2.
  - apply NoDup_Permutation; [apply Hnd2; exact H1|apply Hnd2; exact H2|exact Hiff].
Qed.
