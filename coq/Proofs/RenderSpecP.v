(* Proofs/RenderSpecP.v — C12_refines_spec: the desired map computed by the model's adapters is exactly
   the documented mapping of Model/RenderSpec.v (all six targets). *)
From AP Require Import Base.Str Base.StrFacts Base.PathR Base.PathRFacts Base.Sorting Gen.Tables Model.Render Model.RenderSpec
     Proofs.RenderP Proofs.RenderSafeP Proofs.RenderOrderP.
From Coq Require Import Lia Sorting.Sorted Sorting.Permutation.
Open Scope N_scope.

(* ---------- boolean reflection ---------- *)

Lemma mem_str_in a l : mem_str a l = true <-> In a l.
Proof.
  induction l as [|b r IH]; simpl; [split; [discriminate|intros []]|].
  rewrite orb_true_iff, IH, str_eqb_eq. split; intros [H|H]; auto.
Qed.

Lemma mem_str_not a l : mem_str a l = false <-> ~ In a l.
Proof.
  split; intros H.
  - intros Hin. apply mem_str_in in Hin. congruence.
  - destruct (mem_str a l) eqn:E; [apply mem_str_in in E; contradiction|reflexivity].
Qed.

Lemma mtype_eqb_eq a b : mtype_eqb a b = true <-> a = b.
Proof. destruct a, b; simpl; split; intros H; try reflexivity; discriminate. Qed.

Lemma permits_iff tn m : permits tn m = true <-> permitted tn m.
Proof.
  unfold permits, permitted. destruct (m_targets m) as [|a r] eqn:E.
  - split; [intros; left; reflexivity|reflexivity].
  - rewrite mem_str_in. split; [intros H; right; exact H|intros [H|H]; [discriminate|exact H]].
Qed.

Lemma mods_for_iff tn ty ms m : In m (mods_for tn ty ms) <-> In m ms /\ m_type m = ty /\ permitted tn m.
Proof.
  unfold mods_for. rewrite filter_In, andb_true_iff, mtype_eqb_eq, permits_iff. tauto.
Qed.

Lemma flag_opt_on t name tbl : flag t name tbl = true <-> opt_on t name tbl.
Proof.
  unfold flag, opt_on, scope_allows, scope_flags.
  destruct (t_scope t), (snd tbl); simpl; split; intros H;
    try discriminate; try (split; [auto|exact H]); try (destruct H as [[H1|H1] _]; discriminate); try apply H.
Qed.

Lemma ships_iff m f : ships m f <-> In f (copied (m_files m)).
Proof.
  unfold ships, copied, ignored_rel. rewrite filter_In. split; intros [H1 H2]; split; try exact H1.
  - apply negb_true_iff. destruct (existsb _ (f_rel f)) eqn:E; [|reflexivity].
    apply existsb_exists in E as [x [Hx Hm]]. apply mem_str_in in Hm. exfalso. apply (H2 x Hx Hm).
  - intros x Hx Hin. apply negb_true_iff in H2.
    assert (E : existsb (fun c => mem_str c copy_tree_ignored) (f_rel f) = true)
      by (apply existsb_exists; exists x; split; [exact Hx|apply mem_str_in; exact Hin]).
    congruence.
Qed.

Lemma file_name_last f default : f_rel f <> [] -> file_name f default = last_name f.
Proof.
  unfold file_name, last_name. intros H. destruct (f_rel f) as [|a r] using rev_ind; [congruence|].
  rewrite rev_app_distr. simpl. rewrite last_last. reflexivity.
Qed.

(* ---------- no_fail ---------- *)

Lemma no_fail_app a b : no_fail (a ++ b) <-> no_fail a /\ no_fail b.
Proof.
  unfold no_fail. split.
  - intros H. split; intros c Hc; apply (H c); apply in_or_app; [left|right]; exact Hc.
  - intros [H1 H2] c Hc. apply in_app_or in Hc as [Hc|Hc]; [apply (H1 c Hc)|apply (H2 c Hc)].
Qed.

Lemma no_fail_flat_map {A} (f : A -> list step) l : no_fail (flat_map f l) <-> forall x, In x l -> no_fail (f x).
Proof.
  unfold no_fail. split.
  - intros H x Hx c Hc. apply (H c). apply in_flat_map. exists x. split; assumption.
  - intros H c Hc. apply in_flat_map in Hc as [x [Hx Hc]]. apply (H x Hx c Hc).
Qed.

Lemma no_fail_single c : ~ no_fail [Fail c].
Proof. intros H. apply (H c). left. reflexivity. Qed.

Lemma no_fail_when b l : no_fail (when b l) <-> (b = true -> no_fail l).
Proof.
  destruct b; simpl; split.
  - intros H _. exact H.
  - intros H. apply H. reflexivity.
  - intros _ H. discriminate.
  - intros _ c [].
Qed.

(* ---------- what the Inv says about lookups ---------- *)

Lemma lookup_emits done D : Inv done D -> forall k b,
  (exists x, lookup D k = Some x /\ d_bytes x = b) <-> (exists em, In em done /\ e_key em = k /\ e_bytes em = b).
Proof.
  intros I k b. split.
  - intros [x [L B]]. apply lookup_some in L as [Hx Kx]. destruct (inv_src _ _ I x Hx) as [em [Hem Kem]].
    exists em. split; [exact Hem|]. split; [congruence|].
    destruct (inv_bytes _ _ I em Hem) as [y [Hy [Ky By]]].
    assert (y = x).
    { pose proof (lookup_in D (inv_nodup _ _ I) y Hy) as L1. pose proof (lookup_in D (inv_nodup _ _ I) x Hx) as L2.
      rewrite Ky, Kem in L1. congruence. }
    subst y. congruence.
  - intros [em [Hem [Kem Bem]]]. destruct (inv_bytes _ _ I em Hem) as [x [Hx [Kx Bx]]].
    exists x. split; [|congruence]. rewrite <- Kem, <- Kx. apply lookup_in; [apply (inv_nodup _ _ I)|exact Hx].
Qed.

(* ---------- selection ---------- *)

Lemma selected_by_iff c prof p m : find_profile c prof = Some p ->
  (In m (c_modules c) /\ selected_by p m = true <-> selected c prof m).
Proof.
  intros Hp. unfold selected, selected_by. split.
  - intros [Hin H]. apply andb_true_iff in H as [H H3]. apply andb_true_iff in H as [H1 H2].
    split; [exact Hin|]. split; [exact H1|]. exists p. split; [exact Hp|].
    split; [apply mem_str_not; apply negb_true_iff; exact H2|].
    apply orb_true_iff in H3 as [H3|H3].
    + left. apply existsb_exists in H3 as [t [Ht Hm]]. exists t. split; [exact Ht|apply mem_str_in; exact Hm].
    + right. apply mem_str_in. exact H3.
  - intros [Hin [H1 [p' [Hp' [H2 H3]]]]]. rewrite Hp in Hp'. inversion Hp'; subst p'.
    split; [exact Hin|]. rewrite H1. simpl. apply andb_true_iff. split.
    + apply negb_true_iff. apply mem_str_not. exact H2.
    + apply orb_true_iff. destruct H3 as [[t [Ht Hm]]|H3].
      * left. apply existsb_exists. exists t. split; [exact Ht|apply mem_str_in; exact Hm].
      * right. apply mem_str_in. exact H3.
Qed.

Definition id_lt (a b : module) : Prop := str_compare (m_id a) (m_id b) = Lt.

Lemma select_modules_spec c prof ms : NoDup (map m_id (c_modules c)) -> select_modules c prof = Some ms ->
  (forall m, In m ms <-> selected c prof m) /\ StronglySorted id_lt ms.
Proof.
  intros Hnd. unfold select_modules. destruct (find_profile c prof) as [p|] eqn:Hp; [|discriminate].
  intros H. inversion H; subst ms. clear H. split.
  - intros m. rewrite <- (selected_by_iff c prof p m Hp), <- filter_In. split; intros Hm.
    + eapply Permutation_in; [apply Permutation_sym, isort_perm|exact Hm].
    + eapply Permutation_in; [apply isort_perm|exact Hm].
  - pose proof (isort_sorted id_leb id_leb_total id_leb_trans (filter (selected_by p) (c_modules c))) as Hs.
    assert (Hnd' : NoDup (map m_id (isort id_leb (filter (selected_by p) (c_modules c))))).
    { eapply Permutation_NoDup; [apply Permutation_map, isort_perm|]. apply NoDup_map_filter. exact Hnd. }
    induction Hs as [|a l Hl IH Hall]; [constructor|]. simpl in Hnd'. inversion Hnd' as [|? ? Hn Hnd'']; subst.
    constructor; [apply IH; exact Hnd''|]. rewrite Forall_forall in *. intros b Hb.
    apply str_leb_lt; [apply Hall; exact Hb|]. intros E. apply Hn. rewrite E. apply in_map. exact Hb.
Qed.

(* ---------- targets ---------- *)

Lemma find_name_spec (ts : list tcfg) n t : NoDup (map t_name ts) ->
  find (fun x => str_eqb (t_name x) n) ts = Some t <-> In t ts /\ t_name t = n.
Proof.
  induction ts as [|y r IH]; intros Hnd; simpl.
  - split; [discriminate|intros [[] _]].
  - inversion Hnd as [|? ? Hn Hr]; subst. destruct (str_eqb (t_name y) n) eqn:E.
    + apply str_eqb_eq in E. split.
      * intros H. inversion H; subst. split; [left; reflexivity|reflexivity].
      * intros [[ -> |Hin] Hname]; [reflexivity|]. exfalso. apply Hn. rewrite E, <- Hname. apply in_map. exact Hin.
    + rewrite (IH Hr). split.
      * intros [Hin Hname]. split; [right; exact Hin|exact Hname].
      * intros [[ -> |Hin] Hname]; [apply str_eqb_eq in Hname; congruence|split; assumption].
Qed.

Lemma selected_targets_spec c filt ts : NoDup (map t_name (c_targets c)) -> selected_targets c filt = Ok ts ->
  forall t, In t ts <-> target_on c filt t.
Proof.
  intros Hnd. unfold selected_targets, target_on. destruct (str_eqb filt (s "all")) eqn:Ea.
  - apply str_eqb_eq in Ea. intros H t. inversion H; subst ts. unfold sorted_targets. split.
    + intros Hin. split; [eapply Permutation_in; [apply Permutation_sym, isort_perm|exact Hin]|left; exact Ea].
    + intros [Hin _]. eapply Permutation_in; [apply isort_perm|exact Hin].
  - destruct (mem_str filt compiled_targets); [|discriminate].
    destruct (find (fun t => str_eqb (t_name t) filt) (c_targets c)) as [t0|] eqn:Ef; [|discriminate].
    intros H t. inversion H; subst ts. apply (find_name_spec _ _ _ Hnd) in Ef as [Hin0 Hn0]. split.
    + intros [ <- |[]]. split; [exact Hin0|right; symmetry; exact Hn0].
    + intros [Hin [Hall|Hname]]; [rewrite Hall in Ea; vm_compute in Ea; discriminate|].
      left. symmetry. apply (NoDup_map_inj t_name (c_targets c) Hnd); [exact Hin|exact Hin0|congruence].
Qed.

(* ---------- module-level: emits of the step functions, as relations ---------- *)

Lemma skill_steps_spec tn m dests em : no_fail (skill_steps tn m dests) ->
  (In (Emit em) (skill_steps tn m dests) <->
   exists f d, ships m f /\ In d dests /\ em = mkEmit tn d [skill_name m; rel_string f] (f_bytes f) [m_id m]).
Proof.
  intros Hnf. unfold skill_steps in *. destruct (materialize m) as [fs|x] eqn:E; [|exfalso; exact (no_fail_single x Hnf)].
  destruct (materialize_ok _ _ E) as [Hfs _]. unfold skill_emits. split.
  - intros H. apply in_flat_map in H as [f [Hf H]]. apply in_map_iff in H as [d [Hd Hin]].
    exists f, d. split; [apply ships_iff; rewrite <- Hfs; exact Hf|]. split; [exact Hin|]. inversion Hd. reflexivity.
  - intros [f [d [Hs [Hd ->]]]]. apply in_flat_map. exists f. split; [rewrite Hfs; apply ships_iff; exact Hs|].
    apply in_map_iff. exists d. split; [reflexivity|exact Hd].
Qed.

Lemma single_steps_spec tn m default rename dests em :
  (m_type m = TPrompt \/ m_type m = TCommand) -> Forall file_ok (m_files m) ->
  no_fail (single_steps tn m default rename dests) ->
  (In (Emit em) (single_steps tn m default rename dests) <->
   exists f d, ships m f /\ In d dests /\ em = mkEmit tn d [rename (last_name f)] (f_bytes f) [m_id m]).
Proof.
  intros Hty Hok Hnf. unfold single_steps in *.
  destruct (materialize m) as [fs|x] eqn:E; [|exfalso; exact (no_fail_single x Hnf)].
  destruct (materialize_ok _ _ E) as [Hfs [_ Hv]].
  assert (Hone : exists f, fs = [f]).
  { unfold validate_tree in Hv. destruct (existsb has_backslash fs); [discriminate|].
    destruct Hty as [Hty|Hty]; rewrite Hty in Hv; destruct fs as [|f [|g r]]; try discriminate; eexists; reflexivity. }
  destruct Hone as [f0 Hf0]. rewrite Hf0 in *. simpl.
  assert (Hship : forall f, ships m f <-> f = f0).
  { intros f. rewrite ships_iff, <- Hfs. simpl. split; [intros [H|[]]; congruence|intros ->; left; reflexivity]. }
  assert (Hrel : f_rel f0 <> []).
  { rewrite Forall_forall in Hok. assert (Hin : In f0 (m_files m)).
    { assert (X : In f0 (copied (m_files m))) by (rewrite <- Hfs; left; reflexivity). unfold copied in X. apply filter_In in X. apply X. }
    apply (Hok f0 Hin). }
  rewrite (file_name_last f0 default Hrel). split.
  - intros H. apply in_map_iff in H as [d [Hd Hin]]. exists f0, d. split; [apply Hship; reflexivity|]. split; [exact Hin|].
    inversion Hd. reflexivity.
  - intros [f [d [Hs [Hd ->]]]]. apply Hship in Hs. subst f. apply in_map_iff. exists d. split; [reflexivity|exact Hd].
Qed.

Lemma cursor_steps_spec m dir em : m_type m = TInstructions -> NoDup (map f_rel (m_files m)) ->
  no_fail (cursor_steps m dir) ->
  (In (Emit em) (cursor_steps m dir) <->
   exists f, ships m f /\ f_rel f = [agents_md] /\
             em = mkEmit t_cursor dir [fs_key m ++ cursor_rule_ext] (cursor_rule_bytes m (f_bytes f)) [m_id m]).
Proof.
  intros Hty Hnd Hnf. unfold cursor_steps in *.
  destruct (materialize m) as [fs|x] eqn:E; [|exfalso; exact (no_fail_single x Hnf)].
  destruct (materialize_ok _ _ E) as [Hfs _].
  destruct (find_file [agents_md] fs) as [f0|] eqn:Ef; [|exfalso; exact (no_fail_single _ Hnf)].
  assert (Hnd' : NoDup (map f_rel fs)) by (rewrite Hfs; apply copied_nodup; exact Hnd).
  pose proof (find_file_spec [agents_md] fs Hnd') as Hspec. split.
  - intros [H|[]]. exists f0. apply Hspec in Ef as [Hin Hrel].
    split; [apply ships_iff; rewrite <- Hfs; exact Hin|]. split; [exact Hrel|]. inversion H. reflexivity.
  - intros [f [Hs [Hrel ->]]]. left. apply ships_iff in Hs. rewrite <- Hfs in Hs.
    assert (X : find_file [agents_md] fs = Some f) by (apply Hspec; split; assumption).
    rewrite Ef in X. inversion X. reflexivity.
Qed.

(* the parts list of an aggregated file *)
Lemma collect_parts_spec l parts :
  (forall m, In m l -> m_type m = TInstructions /\ NoDup (map f_rel (m_files m))) ->
  collect_parts l = Ok parts ->
  Forall2 (fun m p => exists f, ships m f /\ f_rel f = [agents_md] /\ p = (m_id m, f_bytes f)) l parts.
Proof.
  revert parts. induction l as [|m r IH]; intros parts Hall H; simpl in H.
  - inversion H. constructor.
  - destruct (materialize m) as [fs|x] eqn:E; [|discriminate].
    destruct (materialize_ok _ _ E) as [Hfs [_ Hv]].
    destruct (Hall m (or_introl eq_refl)) as [Hty Hnd].
    assert (Hnd' : NoDup (map f_rel fs)) by (rewrite Hfs; apply copied_nodup; exact Hnd).
    destruct (find_file [agents_md] fs) as [f|] eqn:Ef.
    + destruct (f_utf8 f); [|discriminate]. destruct (collect_parts r) as [ps|y] eqn:Er; [|discriminate].
      inversion H; subst parts. constructor.
      * apply (find_file_spec _ _ Hnd') in Ef as [Hin Hrel]. exists f.
        split; [apply ships_iff; rewrite <- Hfs; exact Hin|]. split; [exact Hrel|reflexivity].
      * apply IH; [intros m' Hm'; apply Hall; right; exact Hm'|reflexivity].
    + exfalso. unfold validate_tree in Hv. destruct (existsb has_backslash fs); [discriminate|].
      rewrite Hty, Ef in Hv. discriminate.
Qed.

Definition part_lt (a b : str * list N) : Prop := str_compare (fst a) (fst b) = Lt.

Lemma sorted_filter {A} (R : A -> A -> Prop) (p : A -> bool) l : StronglySorted R l -> StronglySorted R (filter p l).
Proof.
  induction 1 as [|a l Hl IH Hall]; simpl; [constructor|].
  destruct (p a); [|exact IH]. constructor; [exact IH|].
  rewrite Forall_forall in *. intros x Hx. apply filter_In in Hx. apply Hall. apply Hx.
Qed.

Lemma Forall2_in_r {A B} (R : A -> B -> Prop) l ps p : Forall2 R l ps -> In p ps -> exists m, In m l /\ R m p.
Proof.
  induction 1 as [|m q l ps Hmq Hl IH]; intros Hp; [destruct Hp|].
  destruct Hp as [ <- |Hp]; [exists m; split; [left; reflexivity|exact Hmq]|].
  destruct (IH Hp) as [m' [Hm' Hr]]. exists m'. split; [right; exact Hm'|exact Hr].
Qed.

Lemma Forall2_in_l {A B} (R : A -> B -> Prop) l ps m : Forall2 R l ps -> In m l -> exists p, In p ps /\ R m p.
Proof.
  induction 1 as [|m' q l ps Hmq Hl IH]; intros Hm; [destruct Hm|].
  destruct Hm as [ <- |Hm]; [exists q; split; [left; reflexivity|exact Hmq]|].
  destruct (IH Hm) as [p [Hp Hr]]. exists p. split; [right; exact Hp|exact Hr].
Qed.

Lemma Forall2_sorted {A B} (R : A -> B -> Prop) (RA : A -> A -> Prop) (RB : B -> B -> Prop) l ps :
  (forall a b p q, R a p -> R b q -> RA a b -> RB p q) ->
  Forall2 R l ps -> StronglySorted RA l -> StronglySorted RB ps.
Proof.
  intros Hmono. induction 1 as [|m q l ps Hmq Hl IH]; intros Hs; [constructor|].
  inversion Hs as [|? ? Hs' Hlt]; subst. constructor; [apply IH; exact Hs'|].
  apply Forall_forall. intros p Hp. destruct (Forall2_in_r R l ps p Hl Hp) as [m' [Hm' Hr]].
  rewrite Forall_forall in Hlt. eapply Hmono; eauto.
Qed.

Lemma parts_agg c prof t ms l parts :
  (forall m, In m ms <-> selected c prof m) -> StronglySorted id_lt ms ->
  (forall m, In m (c_modules c) -> NoDup (map f_rel (m_files m))) ->
  l = mods_for (t_name t) TInstructions ms -> collect_parts l = Ok parts ->
  agg_parts c prof t parts.
Proof.
  intros Hsel Hsorted Hnd -> Hc.
  assert (Hall : forall m, In m (mods_for (t_name t) TInstructions ms) -> m_type m = TInstructions /\ NoDup (map f_rel (m_files m))).
  { intros m Hm. apply mods_for_iff in Hm as [Hin [Hty _]]. split; [exact Hty|]. apply Hnd. apply Hsel in Hin. apply Hin. }
  pose proof (collect_parts_spec _ _ Hall Hc) as HF.
  pose proof (sorted_filter id_lt (fun m => mtype_eqb (m_type m) TInstructions && permits (t_name t) m) ms Hsorted) as Hs.
  fold (mods_for (t_name t) TInstructions ms) in Hs.
  split.
  - eapply Forall2_sorted; [|exact HF|exact Hs].
    intros a b p q [f [_ [_ ->]]] [f' [_ [_ ->]]] Hab. exact Hab.
  - intros p. split.
    + intros Hp. destruct (Forall2_in_r _ _ _ p HF Hp) as [m [Hm [f [Hsh [Hrel ->]]]]].
      destruct (Hall m Hm) as [Hty _]. apply mods_for_iff in Hm as [Hin [_ Hperm]].
      exists m, f. split; [apply Hsel; exact Hin|]. repeat split; try assumption; apply Hsh.
    + intros [m [f [Hselm [Hty [Hperm [Hsh [Hrel ->]]]]]]].
      assert (Hm : In m (mods_for (t_name t) TInstructions ms)) by (apply mods_for_iff; split; [apply Hsel; exact Hselm|split; assumption]).
      destruct (Forall2_in_l _ _ _ m HF Hm) as [q [Hq [f' [Hsh' [Hrel' ->]]]]].
      destruct (Hall m Hm) as [_ Hndm].
      apply ships_iff in Hsh. apply ships_iff in Hsh'.
      pose proof (find_file_spec [agents_md] (copied (m_files m)) (copied_nodup _ Hndm)) as Hsp.
      assert (X1 : find_file [agents_md] (copied (m_files m)) = Some f) by (apply Hsp; split; assumption).
      assert (X2 : find_file [agents_md] (copied (m_files m)) = Some f') by (apply Hsp; split; assumption).
      assert (f = f') by congruence. subst f'. exact Hq.
Qed.

(* strictly sorted part lists with the same members are equal *)
Lemma parts_unique (l1 l2 : list (str * list N)) :
  StronglySorted part_lt l1 -> StronglySorted part_lt l2 -> (forall p, In p l1 <-> In p l2) -> l1 = l2.
Proof.
  intros H1 H2 Hiff.
  assert (Hnd : forall l, StronglySorted part_lt l -> NoDup (map fst l)).
  { induction l as [|a r IH]; intros Hs; [constructor|]. inversion Hs as [|? ? Hr Hall]; subst. simpl.
    constructor; [|apply IH; exact Hr]. intros Hin. apply in_map_iff in Hin as [b [Hb Hin]].
    rewrite Forall_forall in Hall. specialize (Hall b Hin). unfold part_lt in Hall. rewrite Hb, str_compare_refl in Hall. discriminate. }
  assert (Hnd2 : forall l, StronglySorted part_lt l -> NoDup l).
  { intros l Hs. pose proof (Hnd l Hs) as X. clear - X. induction l as [|a r IH]; [constructor|].
    simpl in X. inversion X as [|? ? Hn Hr]; subst. constructor; [|apply IH; exact Hr].
    intros Hin. apply Hn. apply in_map. exact Hin. }
  set (pleb := fun a b : str * list N => str_leb (fst a) (fst b)).
  assert (Hle : forall l, StronglySorted part_lt l -> StronglySorted (le pleb) l).
  { induction l as [|a r IH]; intros Hs; [constructor|]. inversion Hs as [|? ? Hr Hall]; subst.
    constructor; [apply IH; exact Hr|]. eapply Forall_impl; [|exact Hall]. intros y Hy. unfold le, pleb. apply str_lt_leb. exact Hy. }
  apply (sorted_perm_unique pleb).
  - intros x y Hx Hy Hxy Hyx. unfold pleb in *. pose proof (str_leb_antisym _ _ Hxy Hyx) as E.
    apply (NoDup_map_inj fst l1 (Hnd l1 H1)); assumption.
  - apply Hle. exact H1.
  - apply Hle. exact H2.
  - apply NoDup_Permutation; [apply Hnd2; exact H1|apply Hnd2; exact H2|exact Hiff].
Qed.

(* ---------- rule_output, inverted ---------- *)

Lemma ro_skills c prof t o dc dir k b :
  rule_output c prof t (RSkills o dc dir) k b <->
  exists m f, selected c prof m /\ m_type m = TSkill /\ permitted (t_name t) m /\ ships m f /\
              k = out_key t dir [skill_name m; rel_string f] /\ b = f_bytes f.
Proof.
  split.
  - intros H. inversion H; subst. eexists _, _. split; [eassumption|]. split; [eassumption|]. split; [eassumption|]. split; [eassumption|]. split; reflexivity.
  - intros [m [f [H1 [H2 [H3 [H4 [-> ->]]]]]]]. constructor; assumption.
Qed.

Lemma ro_single c prof t ty o dc dir rn k b :
  rule_output c prof t (RSingle ty o dc dir rn) k b <->
  exists m f, selected c prof m /\ m_type m = ty /\ permitted (t_name t) m /\ ships m f /\
              k = out_key t dir [rn (last_name f)] /\ b = f_bytes f.
Proof.
  split.
  - intros H. inversion H; subst. eexists _, _. split; [eassumption|]. split; [reflexivity|]. split; [eassumption|]. split; [eassumption|]. split; reflexivity.
  - intros [m [f [H1 [H2 [H3 [H4 [-> ->]]]]]]]. subst ty. apply (O_single c prof t (m_type m) o dc dir rn m f); try assumption; reflexivity.
Qed.

Lemma ro_cursor c prof t o dc dir k b :
  rule_output c prof t (RCursor o dc dir) k b <->
  exists m f, selected c prof m /\ m_type m = TInstructions /\ permitted (t_name t) m /\ ships m f /\ f_rel f = [agents_md] /\
              k = out_key t dir [fs_key m ++ cursor_rule_ext] /\ b = cursor_rule_bytes m (f_bytes f).
Proof.
  split.
  - intros H. inversion H; subst. eexists _, _. split; [eassumption|]. split; [eassumption|]. split; [eassumption|]. split; [eassumption|]. split; [eassumption|]. split; reflexivity.
  - intros [m [f [H1 [H2 [H3 [H4 [H5 [-> ->]]]]]]]]. apply (O_cursor c prof t o dc dir m f); assumption.
Qed.

Lemma ro_agg c prof t o dc dir fname sep k b :
  rule_output c prof t (RAgg o dc dir fname sep) k b <->
  exists parts, parts <> [] /\ agg_parts c prof t parts /\ k = out_key t dir [fname] /\ b = combine sep parts.
Proof.
  split.
  - intros H. inversion H; subst. eexists. split; [eassumption|]. split; [eassumption|]. split; reflexivity.
  - intros [parts [H1 [H2 [-> ->]]]]. constructor; assumption.
Qed.

(* ---------- blocks of an adapter vs. rules ---------- *)

Definition emit_out (steps : list step) (k : key) (b : list N) : Prop :=
  exists em, In (Emit em) steps /\ e_key em = k /\ e_bytes em = b.

Lemma emit_out_app a b k x : emit_out (a ++ b) k x <-> emit_out a k x \/ emit_out b k x.
Proof.
  unfold emit_out. split.
  - intros [em [H R]]. apply in_app_or in H as [H|H]; [left|right]; exists em; split; assumption.
  - intros [[em [H R]]|[em [H R]]]; exists em; (split; [apply in_or_app|exact R]); [left|right]; exact H.
Qed.

Lemma emit_out_nil k x : ~ emit_out [] k x.
Proof. intros [em [[] _]]. Qed.

Lemma emit_out_fail c k x : ~ emit_out [Fail c] k x.
Proof. intros [em [[H|[]] _]]. discriminate. Qed.

Section Blocks.
  Variables (c : cfg) (prof : str) (ms : list module).
  Hypothesis Hsel : forall m, In m ms <-> selected c prof m.
  Hypothesis Hsorted : StronglySorted id_lt ms.
  Hypothesis Hnd : forall m, In m (c_modules c) -> NoDup (map f_rel (m_files m)).
  Hypothesis Hok : cfg_ok c.

  Lemma sel_in m : In m ms -> In m (c_modules c).
  Proof. intros H. apply Hsel in H. apply H. Qed.

  Lemma skills_block t dests o dc : 
    no_fail (flat_map (fun m => skill_steps (t_name t) m dests) (mods_for (t_name t) TSkill ms)) ->
    forall k b, emit_out (flat_map (fun m => skill_steps (t_name t) m dests) (mods_for (t_name t) TSkill ms)) k b <->
                exists d, In d dests /\ rule_output c prof t (RSkills o dc d) k b.
  Proof.
    intros Hnf k b. rewrite no_fail_flat_map in Hnf. unfold emit_out. split.
    - intros [em [H [Hk Hb]]]. apply in_flat_map in H as [m [Hm H]].
      apply (skill_steps_spec _ _ _ _ (Hnf m Hm)) in H as [f [d [Hsh [Hd ->]]]].
      apply mods_for_iff in Hm as [Hin [Hty Hp]].
      exists d. split; [exact Hd|]. apply ro_skills. exists m, f.
      split; [apply Hsel; exact Hin|]. split; [exact Hty|]. split; [exact Hp|]. split; [exact Hsh|].
      split; [symmetry; exact Hk|symmetry; exact Hb].
    - intros [d [Hd H]]. apply ro_skills in H as [m [f [Hs [Hty [Hp [Hsh [-> ->]]]]]]].
      assert (Hm : In m (mods_for (t_name t) TSkill ms)) by (apply mods_for_iff; split; [apply Hsel; exact Hs|split; assumption]).
      exists (mkEmit (t_name t) d [skill_name m; rel_string f] (f_bytes f) [m_id m]).
      split; [|split; reflexivity]. apply in_flat_map. exists m. split; [exact Hm|].
      apply (skill_steps_spec _ _ _ _ (Hnf m Hm)). exists f, d. split; [exact Hsh|]. split; [exact Hd|reflexivity].
  Qed.

  Lemma single_block t ty default rn dests o dc : (ty = TPrompt \/ ty = TCommand) ->
    no_fail (flat_map (fun m => single_steps (t_name t) m default rn dests) (mods_for (t_name t) ty ms)) ->
    forall k b, emit_out (flat_map (fun m => single_steps (t_name t) m default rn dests) (mods_for (t_name t) ty ms)) k b <->
                exists d, In d dests /\ rule_output c prof t (RSingle ty o dc d rn) k b.
  Proof.
    intros Hty Hnf k b. rewrite no_fail_flat_map in Hnf. unfold emit_out.
    assert (Hpre : forall m, In m (mods_for (t_name t) ty ms) ->
                             (m_type m = TPrompt \/ m_type m = TCommand) /\ Forall file_ok (m_files m)).
    { intros m Hm. apply mods_for_iff in Hm as [Hin [Hmt _]]. split; [rewrite Hmt; exact Hty|].
      unfold cfg_ok in Hok. rewrite Forall_forall in Hok. apply (Hok m (sel_in m Hin)). }
    split.
    - intros [em [H [Hk Hb]]]. apply in_flat_map in H as [m [Hm H]]. destruct (Hpre m Hm) as [Hmt Hf].
      apply (single_steps_spec _ _ _ _ _ _ Hmt Hf (Hnf m Hm)) in H as [f [d [Hsh [Hd ->]]]].
      apply mods_for_iff in Hm as [Hin [Hmty Hp]].
      exists d. split; [exact Hd|]. apply ro_single. exists m, f.
      split; [apply Hsel; exact Hin|]. split; [exact Hmty|]. split; [exact Hp|]. split; [exact Hsh|].
      split; [symmetry; exact Hk|symmetry; exact Hb].
    - intros [d [Hd H]]. apply ro_single in H as [m [f [Hs [Hmty [Hp [Hsh [-> ->]]]]]]].
      assert (Hm : In m (mods_for (t_name t) ty ms)) by (apply mods_for_iff; split; [apply Hsel; exact Hs|split; assumption]).
      destruct (Hpre m Hm) as [Hmt Hf].
      exists (mkEmit (t_name t) d [rn (last_name f)] (f_bytes f) [m_id m]).
      split; [|split; reflexivity]. apply in_flat_map. exists m. split; [exact Hm|].
      apply (single_steps_spec _ _ _ _ _ _ Hmt Hf (Hnf m Hm)). exists f, d. split; [exact Hsh|]. split; [exact Hd|reflexivity].
  Qed.

  Lemma cursor_block t dir o dc : t_name t = t_cursor ->
    no_fail (flat_map (fun m => cursor_steps m dir) (mods_for t_cursor TInstructions ms)) ->
    forall k b, emit_out (flat_map (fun m => cursor_steps m dir) (mods_for t_cursor TInstructions ms)) k b <->
                rule_output c prof t (RCursor o dc dir) k b.
  Proof.
    intros Hn Hnf k b. rewrite no_fail_flat_map in Hnf. unfold emit_out.
    assert (Hpre : forall m, In m (mods_for t_cursor TInstructions ms) -> m_type m = TInstructions /\ NoDup (map f_rel (m_files m))).
    { intros m Hm. apply mods_for_iff in Hm as [Hin [Hmt _]]. split; [exact Hmt|apply Hnd, sel_in, Hin]. }
    split.
    - intros [em [H [Hk Hb]]]. apply in_flat_map in H as [m [Hm H]]. destruct (Hpre m Hm) as [Hmt Hndm].
      apply (cursor_steps_spec _ _ _ Hmt Hndm (Hnf m Hm)) in H as [f [Hsh [Hrel ->]]].
      apply mods_for_iff in Hm as [Hin [_ Hp]]. apply ro_cursor. exists m, f.
      split; [apply Hsel; exact Hin|]. rewrite Hn. split; [exact Hmt|]. split; [exact Hp|]. split; [exact Hsh|]. split; [exact Hrel|].
      split; [|symmetry; exact Hb].
      rewrite <- Hk. unfold e_key, out_key. simpl. rewrite Hn. reflexivity.
    - intros H. apply ro_cursor in H as [m [f [Hs [Hmty [Hp [Hsh [Hrel [-> ->]]]]]]]]. rewrite Hn in Hp.
      assert (Hm : In m (mods_for t_cursor TInstructions ms)) by (apply mods_for_iff; split; [apply Hsel; exact Hs|split; assumption]).
      destruct (Hpre m Hm) as [Hmt Hndm].
      exists (mkEmit t_cursor dir [fs_key m ++ cursor_rule_ext] (cursor_rule_bytes m (f_bytes f)) [m_id m]).
      split; [|split; [unfold e_key, out_key; simpl; rewrite Hn; reflexivity|reflexivity]].
      apply in_flat_map. exists m. split; [exact Hm|].
      apply (cursor_steps_spec _ _ _ Hmt Hndm (Hnf m Hm)). exists f. split; [exact Hsh|]. split; [exact Hrel|reflexivity].
  Qed.

  Lemma agg_block t sep parts dests o dc :
    collect_parts (mods_for (t_name t) TInstructions ms) = Ok parts ->
    forall k b, emit_out (agg_steps (t_name t) sep parts dests) k b <->
                exists d, In d dests /\ rule_output c prof t (RAgg o dc (fst d) (snd d) sep) k b.
  Proof.
    intros Hc k b. pose proof (parts_agg c prof t ms _ parts Hsel Hsorted Hnd eq_refl Hc) as Hagg.
    unfold emit_out. split.
    - intros [em [H [Hk Hb]]].
      assert (Hne : parts <> []) by (intros ->; simpl in H; destruct H).
      apply agg_steps_in in H as [d [Hd ->]].
      exists d. split; [exact Hd|]. apply ro_agg. exists parts. split; [exact Hne|].
      split; [exact Hagg|]. split; [symmetry; exact Hk|symmetry; exact Hb].
    - intros [d [Hd H]]. apply ro_agg in H as [parts' [Hne [Hagg' [-> ->]]]].
      assert (parts' = parts).
      { destruct Hagg as [S1 M1], Hagg' as [S2 M2]. apply parts_unique; try assumption. intros p. rewrite M1, M2. tauto. }
      subst parts'. exists (mkEmit (t_name t) (fst d) [snd d] (combine sep parts) (map fst parts)).
      split; [|split; reflexivity]. unfold agg_steps. destruct parts as [|p ps]; [congruence|].
      apply in_map_iff. exists d. split; [reflexivity|exact Hd].
  Qed.
End Blocks.

(* ---------- the adapters against the documented rule tables ---------- *)

Lemma ex_in_cons {A} (P : A -> Prop) a l : (exists r, In r (a :: l) /\ P r) <-> P a \/ exists r, In r l /\ P r.
Proof.
  split.
  - intros [r [[ <- |Hin] HP]]; [left; exact HP|right; exists r; split; assumption].
  - intros [HP|[r [Hin HP]]]; [exists a; split; [left; reflexivity|exact HP]|exists r; split; [right; exact Hin|exact HP]].
Qed.

Lemma ex_in_nil {A} (P : A -> Prop) : (exists r, In r [] /\ P r) <-> False.
Proof. split; [intros [r [[] _]]|intros []]. Qed.

Lemma ex_when1 {A} (Q : A -> Prop) w d : (exists x, In x (when w [d]) /\ Q x) <-> w = true /\ Q d.
Proof.
  split.
  - intros [x [Hin HQ]]. apply when_in in Hin as [Hw [ <- |[]]]. split; assumption.
  - intros [Hw HQ]. exists d. split; [apply when_in; split; [exact Hw|left; reflexivity]|exact HQ].
Qed.

Lemma ex_when2 {A} (Q : A -> Prop) w1 d1 w2 d2 :
  (exists x, In x (when w1 [d1] ++ when w2 [d2]) /\ Q x) <-> (w1 = true /\ Q d1) \/ (w2 = true /\ Q d2).
Proof.
  split.
  - intros [x [Hin HQ]]. apply in_app_or in Hin as [Hin|Hin]; apply when_in in Hin as [Hw [ <- |[]]]; [left|right]; split; assumption.
  - intros [[Hw HQ]|[Hw HQ]].
    + exists d1. split; [apply in_or_app; left; apply when_in; split; [exact Hw|left; reflexivity]|exact HQ].
    + exists d2. split; [apply in_or_app; right; apply when_in; split; [exact Hw|left; reflexivity]|exact HQ].
Qed.

Lemma ex_single1 {A} (Q : A -> Prop) d : (exists x, In x [d] /\ Q x) <-> Q d.
Proof. split; [intros [x [[ <- |[]] HQ]]; exact HQ|intros HQ; exists d; split; [left; reflexivity|exact HQ]]. Qed.

Lemma flat_map_guard_false {A} (l : list A) : flat_map (fun _ : A => @nil step) l = [].
Proof. induction l; simpl; auto. Qed.

Lemma or_false_r (P : Prop) : P \/ False <-> P.
Proof. split; [intros [H|[]]; exact H|intros H; left; exact H]. Qed.
Lemma false_and (P : Prop) : false = true /\ P <-> False.
Proof. split; [intros [H _]; discriminate|intros []]. Qed.
Lemma true_and (P : Prop) : true = true /\ P <-> P.
Proof. split; [intros [_ H]; exact H|intros H; split; [reflexivity|exact H]]. Qed.
Lemma false_or (P : Prop) : False \/ P <-> P.
Proof. split; [intros [[]|H]; exact H|intros H; right; exact H]. Qed.
Lemma emit_out_nil_iff k b : emit_out [] k b <-> False.
Proof. split; [apply emit_out_nil|intros []]. Qed.

Section Adapters.
  Variables (c : cfg) (e : env) (prof : str) (ms : list module).
  Hypothesis Hsel : forall m, In m ms <-> selected c prof m.
  Hypothesis Hsorted : StronglySorted id_lt ms.
  Hypothesis Hnd : forall m, In m (c_modules c) -> NoDup (map f_rel (m_files m)).
  Hypothesis Hok : cfg_ok c.

  Definition rules_out (t : tcfg) (k : key) (b : list N) : Prop :=
    exists r, In r (doc_rules e t) /\ (opt_on t (fst (rule_opt r)) (snd (rule_opt r)) /\ rule_output c prof t r k b).

  Lemma cursor_spec t : t_name t = t_cursor -> no_fail (snd (cursor_adapter e t ms)) ->
    forall k b, emit_out (snd (cursor_adapter e t ms)) k b <-> rules_out t k b.
  Proof.
    intros Hn Hnf k b. unfold rules_out.
    assert (Hr : doc_rules e t = [RCursor (s "write_rules") doc_opt_cursor_write_rules (proj e (s ".cursor/rules"))])
      by (unfold doc_rules; rewrite Hn; reflexivity).
    rewrite Hr, ex_in_cons, ex_in_nil. cbn [rule_opt fst snd].
    unfold cursor_adapter in *. cbn [snd] in *.
    rewrite <- (flag_opt_on t (s "write_rules") doc_opt_cursor_write_rules).
    change doc_opt_cursor_write_rules with opt_cursor_write_rules.
    destruct (flag t (s "write_rules") opt_cursor_write_rules).
    - cbv beta iota in Hnf. cbv beta iota.
      rewrite (cursor_block c prof ms Hsel Hnd t _ (s "write_rules") opt_cursor_write_rules Hn Hnf k b).
      unfold proj. tauto.
    - cbv beta iota in Hnf. cbv beta iota. rewrite flat_map_guard_false. split; [intros H; exfalso; exact (emit_out_nil _ _ H)|intros [[H _]|[]]; discriminate].
  Qed.

  Lemma collect_nil : collect_parts [] = Ok []. Proof. reflexivity. Qed.

  Lemma simple_agg_spec t w o dc sep dir scan fname :
    (w = true <-> opt_on t o dc) ->
    no_fail (snd (simple_agg_adapter (t_name t) w sep dir scan fname ms)) ->
    forall k b, emit_out (snd (simple_agg_adapter (t_name t) w sep dir scan fname ms)) k b <->
                (opt_on t o dc /\ rule_output c prof t (RAgg o dc dir fname sep) k b).
  Proof.
    intros Hw Hnf k b. unfold simple_agg_adapter in *. cbn [snd] in *. rewrite <- Hw. destruct w.
    - cbn [when] in *. destruct (collect_parts (mods_for (t_name t) TInstructions ms)) as [parts|x] eqn:Ec;
        [|exfalso; exact (no_fail_single x Hnf)].
      rewrite (agg_block c prof ms Hsel Hsorted Hnd t sep parts [(dir, fname)] o dc Ec k b), ex_single1.
      cbn [fst snd]. tauto.
    - cbn [when]. rewrite collect_nil. split; [intros H; exfalso; exact (emit_out_nil _ _ H)|intros [H _]; discriminate].
  Qed.

  Lemma jetbrains_spec t : t_name t = t_jetbrains -> no_fail (snd (jetbrains_adapter e t ms)) ->
    forall k b, emit_out (snd (jetbrains_adapter e t ms)) k b <-> rules_out t k b.
  Proof.
    intros Hn Hnf k b. unfold rules_out.
    assert (Hr : doc_rules e t = [RAgg (s "write_guidelines") doc_opt_jetbrains_write_guidelines
                                       (push (e_project e) (s ".junie")) (s "guidelines.md") agg_sep_jetbrains])
      by (unfold doc_rules; rewrite Hn; reflexivity).
    rewrite Hr, ex_in_cons, ex_in_nil. cbn [rule_opt fst snd].
    unfold jetbrains_adapter in *. rewrite <- Hn in *.
    rewrite (simple_agg_spec t _ (s "write_guidelines") doc_opt_jetbrains_write_guidelines _ _ _ _
                             (flag_opt_on t _ _) Hnf k b).
    tauto.
  Qed.

  Lemma zed_spec t : t_name t = t_zed -> no_fail (snd (zed_adapter e t ms)) ->
    forall k b, emit_out (snd (zed_adapter e t ms)) k b <-> rules_out t k b.
  Proof.
    intros Hn Hnf k b. unfold rules_out.
    assert (Hr : doc_rules e t = [RAgg (s "write_rules") doc_opt_zed_write_rules (e_project e) (s ".rules") agg_sep_zed])
      by (unfold doc_rules; rewrite Hn; reflexivity).
    rewrite Hr, ex_in_cons, ex_in_nil. cbn [rule_opt fst snd].
    unfold zed_adapter in *. rewrite <- Hn in *.
    rewrite (simple_agg_spec t _ (s "write_rules") doc_opt_zed_write_rules _ _ _ _ (flag_opt_on t _ _) Hnf k b).
    tauto.
  Qed.

  Lemma tilde_cmds : expand_tilde e (s "~/.claude/commands") = push (e_home e) (s ".claude/commands").
  Proof. reflexivity. Qed.
  Lemma tilde_skills : expand_tilde e (s "~/.claude/skills") = push (e_home e) (s ".claude/skills").
  Proof. reflexivity. Qed.

  Lemma claude_spec t : t_name t = t_claude -> no_fail (snd (claude_adapter e t ms)) ->
    forall k b, emit_out (snd (claude_adapter e t ms)) k b <-> rules_out t k b.
  Proof.
    intros Hn Hnf k b. unfold rules_out.
    assert (Hr : doc_rules e t =
      [ RSingle TCommand (s "write_user_commands") doc_opt_claude_code_write_user_commands (push (e_home e) (s ".claude/commands")) (fun n => n);
        RSingle TCommand (s "write_repo_commands") doc_opt_claude_code_write_repo_commands (push (e_project e) (s ".claude/commands")) (fun n => n);
        RSkills (s "write_user_skills") doc_opt_claude_code_write_user_skills (push (e_home e) (s ".claude/skills"));
        RSkills (s "write_repo_skills") doc_opt_claude_code_write_repo_skills (push (e_project e) (s ".claude/skills")) ])
      by (unfold doc_rules; rewrite Hn; reflexivity).
    rewrite Hr, !ex_in_cons, ex_in_nil. cbn [rule_opt fst snd].
    unfold claude_adapter in *. cbn [snd] in *. rewrite tilde_cmds, tilde_skills in *. rewrite <- Hn in *.
    apply no_fail_app in Hnf as [Hnf1 Hnf2]. rewrite emit_out_app.
    rewrite (single_block c prof ms Hsel Hok t TCommand _ _ _ (s "write_user_commands") doc_opt_claude_code_write_user_commands
                          (or_intror eq_refl) Hnf1 k b).
    rewrite ex_when2.
    rewrite <- !flag_opt_on.
    change doc_opt_claude_code_write_user_commands with opt_claude_code_write_user_commands.
    change doc_opt_claude_code_write_repo_commands with opt_claude_code_write_repo_commands.
    change doc_opt_claude_code_write_user_skills with opt_claude_code_write_user_skills.
    change doc_opt_claude_code_write_repo_skills with opt_claude_code_write_repo_skills.
    destruct (flag t (s "write_user_skills") opt_claude_code_write_user_skills || flag t (s "write_repo_skills") opt_claude_code_write_repo_skills) eqn:G;
      cbv beta iota in Hnf2; cbv beta iota.
    - rewrite (skills_block c prof ms Hsel t _ (s "write_user_skills") opt_claude_code_write_user_skills Hnf2 k b), ex_when2.
      rewrite !ro_skills, !ro_single. rewrite or_false_r, or_assoc. reflexivity.
    - apply orb_false_elim in G as [G1 G2]. rewrite G1, G2, flat_map_guard_false, emit_out_nil_iff, !false_and.
      rewrite !ro_single. rewrite !or_false_r. reflexivity.
  Qed.

  Lemma emit_out_when w l k b : emit_out (when w l) k b <-> w = true /\ emit_out l k b.
  Proof.
    destruct w; simpl; split.
    - intros H. split; [reflexivity|exact H].
    - intros [_ H]. exact H.
    - intros H. exfalso. exact (emit_out_nil _ _ H).
    - intros [H _]. discriminate.
  Qed.

  Lemma vscode_spec t : t_name t = t_vscode -> no_fail (snd (vscode_adapter e t ms)) ->
    forall k b, emit_out (snd (vscode_adapter e t ms)) k b <-> rules_out t k b.
  Proof.
    intros Hn Hnf k b. unfold rules_out.
    assert (Hr : doc_rules e t =
      [ RAgg (s "write_instructions") doc_opt_vscode_write_instructions (push (e_project e) (s ".github")) (s "copilot-instructions.md") agg_sep_vscode;
        RSingle TPrompt (s "write_prompts") doc_opt_vscode_write_prompts (push (push (e_project e) (s ".github")) (s "prompts")) vscode_prompt_name ])
      by (unfold doc_rules; rewrite Hn; reflexivity).
    rewrite Hr, !ex_in_cons, ex_in_nil. cbn [rule_opt fst snd].
    unfold vscode_adapter in *. cbn [snd] in *. rewrite <- Hn in *.
    destruct (collect_parts (mods_for (t_name t) TInstructions ms)) as [parts|x] eqn:Ec; [|exfalso; exact (no_fail_single x Hnf)].
    apply no_fail_app in Hnf as [Hnf1 Hnf2]. rewrite emit_out_app, emit_out_when.
    rewrite (agg_block c prof ms Hsel Hsorted Hnd t agg_sep_vscode parts _ (s "write_instructions") doc_opt_vscode_write_instructions Ec k b), ex_single1.
    cbn [fst snd]. rewrite <- !flag_opt_on.
    change doc_opt_vscode_write_instructions with opt_vscode_write_instructions.
    change doc_opt_vscode_write_prompts with opt_vscode_write_prompts.
    destruct (flag t (s "write_prompts") opt_vscode_write_prompts) eqn:W2; cbv beta iota in Hnf2; cbv beta iota.
    - rewrite (single_block c prof ms Hsel Hok t TPrompt _ _ _ (s "write_prompts") opt_vscode_write_prompts (or_introl eq_refl) Hnf2 k b), ex_single1.
      rewrite or_false_r, true_and. reflexivity.
    - rewrite flat_map_guard_false, emit_out_nil_iff, false_and, !or_false_r. reflexivity.
  Qed.

  Lemma codex_spec t : t_name t = t_codex -> no_fail (snd (codex_adapter e t ms)) ->
    forall k b, emit_out (snd (codex_adapter e t ms)) k b <-> rules_out t k b.
  Proof.
    intros Hn Hnf k b. unfold rules_out.
    assert (Hr : doc_rules e t =
      [ RAgg (s "write_agents_global") doc_opt_codex_write_agents_global (codex_home e (t_opts t)) agents_md agg_sep_codex;
        RAgg (s "write_agents_repo_root") doc_opt_codex_write_agents_repo_root (e_project e) agents_md agg_sep_codex;
        RSingle TPrompt (s "write_user_prompts") doc_opt_codex_write_user_prompts (push (codex_home e (t_opts t)) (s "prompts")) (fun n => n);
        RSkills (s "write_user_skills") doc_opt_codex_write_user_skills (push (codex_home e (t_opts t)) (s "skills"));
        RSkills (s "write_repo_skills") doc_opt_codex_write_repo_skills (push (e_project e) (s ".codex/skills")) ])
      by (unfold doc_rules; rewrite Hn; reflexivity).
    rewrite Hr, !ex_in_cons, ex_in_nil. cbn [rule_opt fst snd].
    unfold codex_adapter in *. cbn [snd] in *. rewrite <- Hn in *.
    destruct (collect_parts (mods_for (t_name t) TInstructions ms)) as [parts|x] eqn:Ec; [|exfalso; exact (no_fail_single x Hnf)].
    apply no_fail_app in Hnf as [Hnf1 Hnf23]. apply no_fail_app in Hnf23 as [Hnf2 Hnf3]. rewrite !emit_out_app.
    rewrite (agg_block c prof ms Hsel Hsorted Hnd t agg_sep_codex parts _ (s "write_agents_global") doc_opt_codex_write_agents_global Ec k b), ex_when2.
    cbn [fst snd].
    rewrite (skills_block c prof ms Hsel t _ (s "write_user_skills") doc_opt_codex_write_user_skills Hnf3 k b), ex_when2.
    rewrite <- !flag_opt_on.
    change doc_opt_codex_write_agents_global with opt_codex_write_agents_global.
    change doc_opt_codex_write_agents_repo_root with opt_codex_write_agents_repo_root.
    change doc_opt_codex_write_user_prompts with opt_codex_write_user_prompts.
    change doc_opt_codex_write_user_skills with opt_codex_write_user_skills.
    change doc_opt_codex_write_repo_skills with opt_codex_write_repo_skills.
    rewrite !ro_agg, !ro_skills.
    destruct (flag t (s "write_user_prompts") opt_codex_write_user_prompts) eqn:W3; cbv beta iota in Hnf2; cbv beta iota.
    - rewrite (single_block c prof ms Hsel Hok t TPrompt _ _ _ (s "write_user_prompts") opt_codex_write_user_prompts (or_introl eq_refl) Hnf2 k b), ex_single1.
      rewrite or_false_r, true_and, !or_assoc. reflexivity.
    - rewrite flat_map_guard_false, emit_out_nil_iff, false_and, or_false_r, !false_or, !or_assoc. reflexivity.
  Qed.

  (* all six (and the silently skipped unknown names) *)
  Lemma adapter_spec t : no_fail (snd (adapter e ms t)) ->
    forall k b, emit_out (snd (adapter e ms t)) k b <-> rules_out t k b.
  Proof.
    unfold adapter.
    destruct (str_eqb (t_name t) t_codex) eqn:E1; [apply str_eqb_eq in E1; apply codex_spec; exact E1|].
    destruct (str_eqb (t_name t) t_claude) eqn:E2; [apply str_eqb_eq in E2; apply claude_spec; exact E2|].
    destruct (str_eqb (t_name t) t_cursor) eqn:E3; [apply str_eqb_eq in E3; apply cursor_spec; exact E3|].
    destruct (str_eqb (t_name t) t_vscode) eqn:E4; [apply str_eqb_eq in E4; apply vscode_spec; exact E4|].
    destruct (str_eqb (t_name t) t_jetbrains) eqn:E5; [apply str_eqb_eq in E5; apply jetbrains_spec; exact E5|].
    destruct (str_eqb (t_name t) t_zed) eqn:E6; [apply str_eqb_eq in E6; apply zed_spec; exact E6|].
    intros _ k b. unfold rules_out, doc_rules.
    change (s "codex") with t_codex. change (s "claude_code") with t_claude. change (s "cursor") with t_cursor.
    change (s "vscode") with t_vscode. change (s "jetbrains") with t_jetbrains. change (s "zed") with t_zed.
    rewrite E1, E2, E3, E4, E5, E6. cbn [snd]. rewrite ex_in_nil. apply emit_out_nil_iff.
  Qed.
End Adapters.

Lemma emit_out_flat_map {A} (f : A -> list step) l k b :
  emit_out (flat_map f l) k b <-> exists x, In x l /\ emit_out (f x) k b.
Proof.
  unfold emit_out. split.
  - intros [em [H R]]. apply in_flat_map in H as [x [Hx H]]. exists x. split; [exact Hx|]. exists em. split; assumption.
  - intros [x [Hx [em [H R]]]]. exists em. split; [apply in_flat_map; exists x; split; assumption|exact R].
Qed.

(* the desired map = the documented outputs *)
Theorem refines_spec c e prof filt D R :
  NoDup (map m_id (c_modules c)) -> NoDup (map t_name (c_targets c)) ->
  (forall m, In m (c_modules c) -> NoDup (map f_rel (m_files m))) -> cfg_ok c ->
  render c e prof filt = Ok (D, R) ->
  forall k b, (exists x, lookup D k = Some x /\ d_bytes x = b) <-> spec_output c e prof filt k b.
Proof.
  intros Hids Htn Hnd Hok Hr k b. unfold render in Hr.
  destruct (select_modules c prof) as [ms|] eqn:Hs; [|discriminate].
  destruct (selected_targets c filt) as [ts|x] eqn:Ht; [|discriminate].
  destruct (run [] (all_steps e ms ts)) as [D0|x] eqn:Rn; [|discriminate].
  inversion Hr; subst D0 R. clear Hr.
  destruct (run_ok _ _ _ _ inv_nil Rn) as [Hnf I]. simpl in I.
  destruct (select_modules_spec c prof ms Hids Hs) as [Hsel Hsorted].
  rewrite (lookup_emits _ _ I k b).
  assert (E1 : (exists em, In em (emits_of (all_steps e ms ts)) /\ e_key em = k /\ e_bytes em = b) <->
               emit_out (all_steps e ms ts) k b).
  { unfold emit_out. split; intros [em [H Rk]]; exists em; (split; [apply emits_of_in; exact H|exact Rk]). }
  rewrite E1. unfold all_steps in *. rewrite emit_out_flat_map. rewrite no_fail_flat_map in Hnf.
  unfold spec_output. split.
  - intros [t [Hin H]]. apply (adapter_spec c e prof ms Hsel Hsorted Hnd Hok t (Hnf t Hin)) in H as [r [Hr [Ho Hout]]].
    exists t, r. split; [apply (selected_targets_spec c filt ts Htn Ht); exact Hin|]. split; [exact Hr|]. split; assumption.
  - intros [t [r [Hon [Hr [Ho Hout]]]]]. apply (selected_targets_spec c filt ts Htn Ht) in Hon.
    exists t. split; [exact Hon|]. apply (adapter_spec c e prof ms Hsel Hsorted Hnd Hok t (Hnf t Hon)).
    exists r. split; [exact Hr|]. split; assumption.
Qed.

(* the docs' option table and the source's are the same table (re-checked on every run) *)
Lemma doc_table_matches_source : doc_render_option_table = render_option_table.
Proof. vm_compute. reflexivity. Qed.
