(* Proofs/LockP.v — lemmas about Model/Lock.v (property C18). *)
From AP Require Import Base.Str Base.StrFacts Base.Sorting Model.Lock.
From Coq Require Import Lia ZifyBool Sorting.Sorted Sorting.Permutation DecimalN.
Open Scope N_scope.

(* ------------------------------------------------------------------ strings, order *)

Lemma str_leb_total a b : str_leb a b = true \/ str_leb b a = true.
Proof.
  unfold str_leb. rewrite (str_compare_antisym a b). destruct (str_compare a b); simpl; auto.
Qed.

Lemma str_leb_trans a b c : str_leb a b = true -> str_leb b c = true -> str_leb a c = true.
Proof.
  unfold str_leb. intros H1 H2.
  destruct (str_compare a b) eqn:E1; try discriminate.
  - apply str_compare_eq in E1. subst. exact H2.
  - destruct (str_compare b c) eqn:E2; try discriminate.
    + apply str_compare_eq in E2. subst. rewrite E1. reflexivity.
    + rewrite (str_compare_trans_lt _ _ _ E1 E2). reflexivity.
Qed.

Lemma str_leb_antisym a b : str_leb a b = true -> str_leb b a = true -> a = b.
Proof.
  unfold str_leb. rewrite (str_compare_antisym a b).
  destruct (str_compare a b) eqn:E; simpl; try discriminate.
  intros _ _. apply str_compare_eq. exact E.
Qed.

(* ------------------------------------------------------------------ decimal rendering *)

Lemma uint_str_digits u : Forall (fun c => is_ascii_digit c = true) (uint_str u).
Proof. induction u; simpl; constructor; auto. Qed.

Lemma uint_str_inj u : forall v, uint_str u = uint_str v -> u = v.
Proof.
  induction u; intros v H; destruct v; simpl in H; try discriminate; try reflexivity;
    injection H as H; f_equal; apply IHu; exact H.
Qed.

Lemma dec_inj n m : dec n = dec m -> n = m.
Proof. unfold dec. intros H. apply uint_str_inj in H. apply Unsigned.to_uint_inj. exact H. Qed.

Lemma dec_no_nl n : ~ In 10 (dec n).
Proof.
  unfold dec. intros H. pose proof (uint_str_digits (N.to_uint n)) as F.
  rewrite Forall_forall in F. apply F in H. vm_compute in H. discriminate.
Qed.

(* ------------------------------------------------------------------ prefix code *)

Lemma app_nl_inj (x : str) : forall y r r',
  ~ In 10 x -> ~ In 10 y -> x ++ 10 :: r = y ++ 10 :: r' -> x = y /\ r = r'.
Proof.
  induction x as [|a x IH]; intros [|b y] r r' Hx Hy H; simpl in *.
  - injection H as H. auto.
  - injection H as H1 H2. exfalso. apply Hy. left. symmetry. exact H1.
  - injection H as H1 H2. exfalso. apply Hx. left. exact H1.
  - injection H as H1 H2. subst b.
    destruct (IH y r r') as [E1 E2]; auto. subst. auto.
Qed.

Definition nl_free (x : str) : Prop := ~ In 10 x.

Definition entry_ok (e : entry) : Prop :=
  nl_free (e_path e) /\ is_sha256_hex (e_sha e) = true.

(* the weaker condition the prefix-code argument actually uses *)
Definition entry_nl_ok (e : entry) : Prop := nl_free (e_path e) /\ nl_free (e_sha e).

Lemma hex_no_nl x : forallb is_hex_lower x = true -> nl_free x.
Proof.
  intros H Hin. rewrite forallb_forall in H. apply H in Hin. vm_compute in Hin. discriminate.
Qed.

Lemma entry_ok_nl e : entry_ok e -> entry_nl_ok e.
Proof.
  intros [H1 H2]. split; [exact H1|]. unfold is_sha256_hex in H2.
  apply andb_true_iff in H2 as [_ H2]. apply hex_no_nl. exact H2.
Qed.

Lemma encode_entry_inj e1 e2 t1 t2 :
  entry_nl_ok e1 -> entry_nl_ok e2 ->
  encode_entry e1 ++ t1 = encode_entry e2 ++ t2 -> e1 = e2 /\ t1 = t2.
Proof.
  intros [P1 S1] [P2 S2] H. unfold encode_entry in H.
  destruct e1 as [p1 s1 n1], e2 as [p2 s2 n2]; simpl in *.
  repeat rewrite <- app_assoc in H. simpl in H.
  apply app_nl_inj in H as [Ep H]; try assumption.
  repeat rewrite <- app_assoc in H. simpl in H.
  apply app_nl_inj in H as [Es H]; try assumption.
  repeat rewrite <- app_assoc in H. simpl in H.
  apply app_nl_inj in H as [En H]; try apply dec_no_nl.
  apply dec_inj in En. subst. auto.
Qed.

Theorem encode_tree_inj_nl l1 : forall l2,
  Forall entry_nl_ok l1 -> Forall entry_nl_ok l2 -> encode_tree l1 = encode_tree l2 -> l1 = l2.
Proof.
  induction l1 as [|e1 r1 IH]; intros [|e2 r2] F1 F2 H; simpl in H.
  - reflexivity.
  - exfalso. unfold encode_entry in H. destruct (e_path e2); discriminate.
  - exfalso. unfold encode_entry in H. destruct (e_path e1); discriminate.
  - inversion F1; subst. inversion F2; subst.
    apply encode_entry_inj in H as [E H]; try assumption. subst. f_equal. apply IH; assumption.
Qed.

Theorem encode_tree_inj l1 l2 :
  Forall entry_ok l1 -> Forall entry_ok l2 -> encode_tree l1 = encode_tree l2 -> l1 = l2.
Proof.
  intros F1 F2. apply encode_tree_inj_nl; eapply Forall_impl; try apply entry_ok_nl; assumption.
Qed.

(* ------------------------------------------------------------------ sorted entry lists *)

Definition sorted_nodup (l : list entry) : Prop :=
  StronglySorted (fun a b => entry_leb a b = true) l /\ NoDup (map e_path l).

Lemma entry_leb_total a b : entry_leb a b = true \/ entry_leb b a = true.
Proof. apply str_leb_total. Qed.
Lemma entry_leb_trans a b c : entry_leb a b = true -> entry_leb b c = true -> entry_leb a c = true.
Proof. apply str_leb_trans. Qed.

Lemma nodup_key_eq {A} (key : A -> str) (l : list A) a b :
  NoDup (map key l) -> In a l -> In b l -> key a = key b -> a = b.
Proof.
  induction l as [|x r IH]; intros Hn Ha Hb E; [contradiction|].
  simpl in Hn. inversion Hn as [|? ? Hx Hr]; subst.
  destruct Ha as [->|Ha], Hb as [->|Hb]; auto.
  - exfalso. apply Hx. rewrite E. apply in_map. exact Hb.
  - exfalso. apply Hx. rewrite <- E. apply in_map. exact Ha.
Qed.

Lemma Permutation_filter {A} (f : A -> bool) l l' :
  Permutation l l' -> Permutation (filter f l) (filter f l').
Proof.
  induction 1; simpl.
  - constructor.
  - destruct (f x); [constructor|]; assumption.
  - destruct (f x), (f y); try apply Permutation_refl; apply perm_swap.
  - eapply Permutation_trans; eassumption.
Qed.

(* sorting a key-duplicate-free list does not depend on the input order *)
Lemma isort_key_perm {A} (key : A -> str) (l l' : list A) :
  let leb := fun a b => str_leb (key a) (key b) in
  NoDup (map key l) -> Permutation l l' -> isort leb l = isort leb l'.
Proof.
  intros leb Hn Hp. apply isort_unique.
  - intros a b. apply str_leb_total.
  - intros a b c. apply str_leb_trans.
  - intros x y Hx Hy H1 H2. apply (nodup_key_eq key l x y Hn Hx Hy). apply str_leb_antisym; assumption.
  - eapply Permutation_trans; [exact Hp|]. apply isort_perm.
  - apply isort_sorted.
    + intros a b. apply str_leb_total.
    + intros a b c. apply str_leb_trans.
Qed.

Lemma isort_key_nodup {A} (key : A -> str) (l : list A) :
  NoDup (map key l) -> NoDup (map key (isort (fun a b => str_leb (key a) (key b)) l)).
Proof.
  intros H. eapply Permutation_NoDup; [|exact H]. apply Permutation_map. apply isort_perm.
Qed.

(* two sorted key-duplicate-free lists with the same elements are equal *)
Lemma sorted_same_elements {A} (key : A -> str) (l1 l2 : list A) :
  let leb := fun a b => str_leb (key a) (key b) in
  NoDup (map key l1) -> NoDup (map key l2) ->
  StronglySorted (fun a b => leb a b = true) l1 -> StronglySorted (fun a b => leb a b = true) l2 ->
  (forall x, In x l1 <-> In x l2) -> l1 = l2.
Proof.
  intros leb N1 N2 S1 S2 H. apply (sorted_perm_unique leb); try assumption.
  - intros x y Hx Hy L1 L2. apply (nodup_key_eq key l1 x y N1 Hx Hy). apply str_leb_antisym; assumption.
  - apply NoDup_Permutation; try assumption; eapply NoDup_map_inv; eassumption.
Qed.

(* ------------------------------------------------------------------ hash_tree *)

Section Tree.
  Variable sha : list N -> str.
  Variable sha_text : str -> str.

  Notation entry_of := (entry_of sha).
  Notation hash_tree_entries := (hash_tree_entries sha).

  Definition shown (root : list str) (files : list file) : list file := filter (visible root) files.

  (* rendered paths of the files that are hashed *)
  Definition shown_paths (root : list str) (files : list file) : list str :=
    map (fun f => render_rel (fst f)) (shown root files).

  Lemma map_path_entries root files :
    map e_path (map entry_of (shown root files)) = shown_paths root files.
  Proof. unfold shown_paths. rewrite map_map. reflexivity. Qed.

  Lemma entries_perm root files :
    Permutation (map entry_of (shown root files)) (hash_tree_entries root files).
  Proof. apply isort_perm. Qed.

  Lemma entries_sorted root files :
    StronglySorted (fun a b => entry_leb a b = true) (hash_tree_entries root files).
  Proof. apply isort_sorted; [apply entry_leb_total|apply entry_leb_trans]. Qed.

  Lemma entries_nodup root files :
    NoDup (shown_paths root files) -> NoDup (map e_path (hash_tree_entries root files)).
  Proof.
    intros H. rewrite <- map_path_entries in H.
    exact (isort_key_nodup e_path _ H).
  Qed.

  Lemma entries_sorted_nodup root files :
    NoDup (shown_paths root files) -> sorted_nodup (hash_tree_entries root files).
  Proof. intros H. split; [apply entries_sorted|apply entries_nodup, H]. Qed.

  (* membership: exactly the files without a `.git` component on their (root-prefixed) path *)
  Theorem entries_in root files e :
    In e (hash_tree_entries root files) <->
    exists f, In f files /\ has_git (root ++ fst f) = false /\ e = entry_of f.
  Proof.
    split.
    - intros H. eapply Permutation_in in H; [|apply Permutation_sym, entries_perm].
      apply in_map_iff in H as [f [E Hf]]. apply filter_In in Hf as [Hf Hv].
      exists f. unfold visible in Hv. apply negb_true_iff in Hv. auto.
    - intros [f [Hf [Hg E]]]. eapply Permutation_in; [apply entries_perm|].
      subst e. apply in_map. apply filter_In. split; [exact Hf|].
      unfold visible. rewrite Hg. reflexivity.
  Qed.

  (* order independence *)
  Theorem entries_order root files files' :
    NoDup (shown_paths root files) -> Permutation files files' ->
    hash_tree_entries root files' = hash_tree_entries root files.
  Proof.
    intros Hn Hp. symmetry. unfold hash_tree_entries.
    apply (isort_key_perm e_path).
    - rewrite <- map_path_entries in Hn. exact Hn.
    - apply Permutation_map. apply Permutation_filter. exact Hp.
  Qed.

  (* version-control metadata *)
  Lemma has_git_app a b : has_git (a ++ b) = has_git a || has_git b.
  Proof. unfold has_git. apply existsb_app. Qed.

  Theorem entries_vcs_cons root files g :
    has_git (fst g) = true -> hash_tree_entries root (g :: files) = hash_tree_entries root files.
  Proof.
    intros H. unfold hash_tree_entries. simpl. unfold visible at 1.
    rewrite has_git_app, H, orb_true_r. reflexivity.
  Qed.

  Theorem entries_vcs_only root files files' :
    filter (fun f => negb (has_git (fst f))) files = filter (fun f => negb (has_git (fst f))) files' ->
    has_git root = false ->
    hash_tree_entries root files = hash_tree_entries root files'.
  Proof.
    intros H Hr. unfold hash_tree_entries.
    assert (E : forall l, filter (visible root) l = filter (fun f => negb (has_git (fst f))) l).
    { intros l. apply filter_ext. intros f. unfold visible. rewrite has_git_app, Hr. reflexivity. }
    rewrite !E, H. reflexivity.
  Qed.

  (* a root below a directory named `.git` hashes to the empty manifest whatever it contains *)
  Theorem entries_git_root root files : has_git root = true -> hash_tree_entries root files = [].
  Proof.
    intros H. unfold hash_tree_entries.
    assert (E : filter (visible root) files = []).
    { induction files as [|f r IH]; simpl; [reflexivity|].
      unfold visible at 1. rewrite has_git_app, H. simpl. exact IH. }
    rewrite E. reflexivity.
  Qed.

  (* ---------------------------------------------------------------- hash <-> content *)

  Definition sha_ok : Prop := forall c, is_sha256_hex (sha c) = true.

  Definition paths_nl_free (root : list str) (files : list file) : Prop :=
    Forall nl_free (shown_paths root files).

  Lemma entries_ok root files :
    sha_ok -> paths_nl_free root files -> Forall entry_ok (hash_tree_entries root files).
  Proof.
    intros Hs Hp. eapply Permutation_Forall; [apply entries_perm|].
    unfold paths_nl_free, shown_paths in Hp. rewrite Forall_map in Hp. rewrite Forall_map.
    eapply Forall_impl; [|exact Hp]. intros f Hf. split; [exact Hf|apply Hs].
  Qed.

  (* the content of the tree as the hasher sees it: rendered path |-> bytes *)
  Definition tree_content (root : list str) (files : list file) : list (str * list N) :=
    map (fun f => (render_rel (fst f), snd f)) (shown root files).

  Definition same_content (a b : list (str * list N)) : Prop := forall x, In x a <-> In x b.

  Definition entry_of_pair (pc : str * list N) : entry :=
    Build_entry (fst pc) (sha (snd pc)) (size_of (snd pc)).

  Lemma entries_as_pairs root files :
    map entry_of (shown root files) = map entry_of_pair (tree_content root files).
  Proof. unfold tree_content. rewrite map_map. reflexivity. Qed.

  Lemma same_content_entries root1 files1 root2 files2 :
    NoDup (shown_paths root1 files1) -> NoDup (shown_paths root2 files2) ->
    same_content (tree_content root1 files1) (tree_content root2 files2) ->
    hash_tree_entries root1 files1 = hash_tree_entries root2 files2.
  Proof.
    intros N1 N2 H.
    apply (sorted_same_elements e_path); try apply entries_nodup; try apply entries_sorted; try assumption.
    intros e. rewrite !entries_in.
    assert (G : forall r fs, (exists f, In f fs /\ has_git (r ++ fst f) = false /\ e = entry_of f) <->
                             exists pc, In pc (tree_content r fs) /\ e = entry_of_pair pc).
    { intros r fs. split.
      - intros [f [Hf [Hg E]]]. exists (render_rel (fst f), snd f). split; [|exact E].
        unfold tree_content. apply in_map_iff. exists f. split; [reflexivity|].
        apply filter_In. split; [exact Hf|]. unfold visible. rewrite Hg. reflexivity.
      - intros [pc [Hpc E]]. unfold tree_content in Hpc. apply in_map_iff in Hpc as [f [Ef Hf]].
        apply filter_In in Hf as [Hf Hv]. exists f. split; [exact Hf|]. split.
        + unfold visible in Hv. apply negb_true_iff in Hv. exact Hv.
        + subst pc. exact E. }
    rewrite !G. split; intros [pc [Hpc E]]; exists pc; (split; [apply H; exact Hpc|exact E]).
  Qed.

  (* sha injective on the file contents at hand *)
  Definition sha_inj_on (a b : list (str * list N)) : Prop :=
    forall x y, In x (a ++ b) -> In y (a ++ b) -> sha (snd x) = sha (snd y) -> snd x = snd y.

  Lemma entries_same_content root1 files1 root2 files2 :
    sha_inj_on (tree_content root1 files1) (tree_content root2 files2) ->
    hash_tree_entries root1 files1 = hash_tree_entries root2 files2 ->
    same_content (tree_content root1 files1) (tree_content root2 files2).
  Proof.
    intros Hinj H.
    assert (G : forall ra fa rb fb,
               (forall x y, In x (tree_content ra fa) -> In y (tree_content rb fb) ->
                            sha (snd x) = sha (snd y) -> snd x = snd y) ->
               hash_tree_entries ra fa = hash_tree_entries rb fb ->
               forall x, In x (tree_content ra fa) -> In x (tree_content rb fb)).
    { intros ra fa rb fb Hi He x Hx.
      assert (Hin : In (entry_of_pair x) (hash_tree_entries ra fa)).
      { eapply Permutation_in; [apply entries_perm|]. rewrite entries_as_pairs. apply in_map. exact Hx. }
      rewrite He in Hin. eapply Permutation_in in Hin; [|apply Permutation_sym, entries_perm].
      rewrite entries_as_pairs in Hin. apply in_map_iff in Hin as [y [Ey Hy]].
      unfold entry_of_pair in Ey. injection Ey as Ep Es _.
      assert (Ec : snd x = snd y) by (apply Hi; auto).
      destruct x as [px cx], y as [py cy]; simpl in *. subst. exact Hy. }
    intros x. split; apply G; auto.
    - intros a b Ha Hb. apply Hinj; apply in_or_app; auto.
    - intros a b Ha Hb. apply Hinj; apply in_or_app; auto.
  Qed.

  Notation module_hash := (module_hash sha sha_text).

  (* THE hash/content equivalence for directory modules: under the explicit premises
     (a) SHA-256 of a file is 64 lowercase hex digits, (b) SHA-256 is injective on the two
     manifests and on the file contents at hand, (c) no rendered path contains a newline,
     (d) rendered paths are pairwise distinct — the module hash is equal iff the set of
     (relative path, bytes) pairs outside `.git` is equal. *)
  Theorem module_hash_iff root1 files1 root2 files2 :
    sha_ok ->
    (forall a b, a = encode_tree (hash_tree_entries root1 files1) ->
                 b = encode_tree (hash_tree_entries root2 files2) ->
                 sha_text a = sha_text b -> a = b) ->
    sha_inj_on (tree_content root1 files1) (tree_content root2 files2) ->
    paths_nl_free root1 files1 -> paths_nl_free root2 files2 ->
    NoDup (shown_paths root1 files1) -> NoDup (shown_paths root2 files2) ->
    (module_hash root1 (NDir files1) = module_hash root2 (NDir files2) <->
     same_content (tree_content root1 files1) (tree_content root2 files2)).
  Proof.
    intros Hs Ht Hi P1 P2 N1 N2. unfold Lock.module_hash. simpl. split.
    - intros H. apply Ht in H; try reflexivity.
      apply encode_tree_inj in H; try (apply entries_ok; assumption).
      apply entries_same_content; assumption.
    - intros H. f_equal. f_equal. apply same_content_entries; assumption.
  Qed.

  (* ---------------------------------------------------------------- lock generation *)

  Variable fs_local : str -> option (list str * node).
  Variable ls_remote : str -> str -> option str.
  Variable checkout : str -> str -> str -> option (list str * node).

  Notation lock_module := (lock_module sha sha_text fs_local ls_remote checkout).
  Notation lock_all := (lock_all sha sha_text fs_local ls_remote checkout).
  Notation generate_lockfile := (generate_lockfile sha sha_text fs_local ls_remote checkout).

  Lemma lock_module_id m lm : lock_module m = Some lm -> l_id lm = m_id m.
  Proof.
    unfold Lock.lock_module. intros H.
    destruct (m_source m) as [p|url ref subdir sh|].
    - destruct (fs_local p) as [[root n]|]; [|discriminate]. injection H as <-. reflexivity.
    - destruct (resolve_commit ls_remote url ref) as [c|]; [|discriminate].
      destruct (checkout url c subdir) as [[root n]|]; [|discriminate]. injection H as <-. reflexivity.
    - discriminate.
  Qed.

  Definition enabled (ms : list module) : list module := filter m_enabled ms.

  (* lock_all = all-or-nothing map over the enabled modules *)
  Fixpoint all_some {A} (l : list (option A)) : option (list A) :=
    match l with
    | [] => Some []
    | None :: _ => None
    | Some x :: r => match all_some r with Some lr => Some (x :: lr) | None => None end
    end.

  Lemma lock_all_spec ms : lock_all ms = all_some (map lock_module (enabled ms)).
  Proof.
    induction ms as [|m r IH]; simpl; [reflexivity|].
    unfold enabled in *. simpl. destruct (m_enabled m); simpl; [|exact IH].
    destruct (lock_module m); [|reflexivity]. rewrite IH. reflexivity.
  Qed.

  Lemma all_some_perm {A} (l l' : list (option A)) :
    Permutation l l' ->
    match all_some l, all_some l' with
    | Some a, Some b => Permutation a b
    | None, None => True
    | _, _ => False
    end.
  Proof.
    induction 1 as [|x l l' Hp IH|x y l|l l' l'' H1 IH1 H2 IH2]; simpl.
    - constructor.
    - destruct x; [|exact I]. destruct (all_some l), (all_some l'); try contradiction; auto.
    - destruct x, y; try exact I. destruct (all_some l); [apply perm_swap|exact I].
    - destruct (all_some l), (all_some l'), (all_some l''); try contradiction; auto.
      eapply Permutation_trans; eassumption.
  Qed.

  Lemma all_some_map_in {A B} (f : A -> option B) l r y :
    all_some (map f l) = Some r -> In y r -> exists x, In x l /\ f x = Some y.
  Proof.
    revert r. induction l as [|a l IH]; intros r H Hy; simpl in H.
    - injection H as <-. contradiction.
    - destruct (f a) eqn:Ea; [|discriminate]. destruct (all_some (map f l)) eqn:El; [|discriminate].
      injection H as <-. destruct Hy as [<-|Hy].
      + exists a. split; [left; reflexivity|exact Ea].
      + destruct (IH _ eq_refl Hy) as [x [Hx Ex]]. exists x. split; [right; exact Hx|exact Ex].
  Qed.

  Lemma all_some_ids l r :
    all_some (map lock_module l) = Some r -> map l_id r = map m_id l.
  Proof.
    revert r. induction l as [|a l IH]; intros r H; simpl in H.
    - injection H as <-. reflexivity.
    - destruct (lock_module a) eqn:Ea; [|discriminate].
      destruct (all_some (map lock_module l)) eqn:El; [|discriminate].
      injection H as <-. simpl. rewrite (lock_module_id _ _ Ea). f_equal. apply IH. reflexivity.
  Qed.

  (* module order does not matter *)
  Theorem generate_order ms ms' :
    NoDup (map m_id ms) -> Permutation ms ms' -> generate_lockfile ms = generate_lockfile ms'.
  Proof.
    intros Hn Hp. unfold Lock.generate_lockfile. rewrite !lock_all_spec.
    assert (Hpe : Permutation (enabled ms) (enabled ms')) by (apply Permutation_filter; exact Hp).
    pose proof (all_some_perm _ _ (Permutation_map lock_module Hpe)) as H.
    destruct (all_some (map lock_module (enabled ms))) as [a|] eqn:Ea;
      destruct (all_some (map lock_module (enabled ms'))) as [b|] eqn:Eb; try contradiction; [|reflexivity].
    f_equal. apply (isort_key_perm l_id); [|exact H].
    rewrite (all_some_ids _ _ Ea).
    assert (Hne : NoDup (map m_id ms) -> NoDup (map m_id (enabled ms))).
    { clear. induction ms as [|m r IH]; simpl; intros H; [constructor|].
      inversion H as [|? ? Hx Hr]; subst. unfold enabled in *. simpl.
      destruct (m_enabled m); simpl; [|apply IH, Hr].
      constructor; [|apply IH, Hr]. intros Hin. apply Hx.
      apply in_map_iff in Hin as [x [Ex Hin]]. apply filter_In in Hin as [Hin _].
      rewrite <- Ex. apply in_map. exact Hin. }
    apply Hne, Hn.
  Qed.

  (* the output is sorted by id and has exactly the ids of the enabled modules *)
  Theorem generate_sorted ms l :
    generate_lockfile ms = Some l ->
    StronglySorted (fun a b => str_leb (l_id a) (l_id b) = true) l /\
    Permutation (map l_id l) (map m_id (enabled ms)).
  Proof.
    unfold Lock.generate_lockfile. rewrite lock_all_spec.
    destruct (all_some (map lock_module (enabled ms))) as [a|] eqn:Ea; [|discriminate].
    intros H. injection H as <-. split.
    - apply (isort_sorted locked_leb).
      + intros x y. apply str_leb_total.
      + intros x y z. apply str_leb_trans.
    - rewrite <- (all_some_ids _ _ Ea). apply Permutation_map, Permutation_sym, isort_perm.
  Qed.

  (* local sources: recorded as written in the manifest with '\' -> '/', never absolutised *)
  Definition no_backslash (x : str) : Prop := ~ In 92 x.

  Lemma replace_no_backslash x : no_backslash (replace_char 92 47 x).
  Proof.
    unfold no_backslash, replace_char. intros H. apply in_map_iff in H as [c [E _]].
    destruct (c =? 92) eqn:Ec; [discriminate|]. apply N.eqb_neq in Ec. congruence.
  Qed.

  Lemma replace_id x : no_backslash x -> replace_char 92 47 x = x.
  Proof.
    unfold no_backslash, replace_char. induction x as [|c x IH]; intros H; simpl; [reflexivity|].
    destruct (c =? 92) eqn:Ec.
    - apply N.eqb_eq in Ec. exfalso. apply H. left. auto.
    - f_equal. apply IH. intros Hin. apply H. right. exact Hin.
  Qed.

  Lemma replace_head x : hd_error (replace_char 92 47 x) = Some 47 ->
                         hd_error x = Some 47 \/ hd_error x = Some 92.
  Proof.
    destruct x as [|c x]; simpl; [discriminate|]. destruct (c =? 92) eqn:Ec.
    - apply N.eqb_eq in Ec. subst. auto.
    - intros H. auto.
  Qed.

  Theorem lock_local_path m lm p :
    m_source m = SLocal p -> lock_module m = Some lm ->
    l_source lm = RLocal (replace_char 92 47 p) /\ l_version lm = local_str /\
    no_backslash (replace_char 92 47 p) /\
    (no_backslash p -> l_source lm = RLocal p) /\
    (hd_error p <> Some 47 -> hd_error p <> Some 92 -> hd_error (replace_char 92 47 p) <> Some 47).
  Proof.
    intros Hs H. unfold Lock.lock_module in H. rewrite Hs in H.
    destruct (fs_local p) as [[root n]|]; [|discriminate]. injection H as <-. simpl.
    repeat split.
    - apply replace_no_backslash.
    - intros Hb. rewrite replace_id; auto.
    - intros H1 H2 H3. apply replace_head in H3 as [H3|H3]; contradiction.
  Qed.

  (* ---------------------------------------------------------------- fetch / update *)

  Notation fetch_loop := (fetch_loop sha sha_text checkout).
  Notation fetch := (fetch sha sha_text checkout).

  Definition is_git (m : locked) : bool := match l_source m with RGit _ _ _ => true | RLocal _ => false end.

  (* what the cache holds for a locked git module hashes to the locked value *)
  Definition verified (m : locked) : Prop :=
    match l_source m with
    | RLocal _ => True
    | RGit url commit subdir =>
      exists root nd, checkout url commit subdir = Some (root, nd) /\ module_hash root nd = l_sha m
    end.

  Lemma fetch_loop_ok ms : forall n k,
    fetch_loop ms n = FetchOk k ->
    Forall verified ms /\ k = n + N.of_nat (length (filter is_git ms)).
  Proof.
    induction ms as [|m r IH]; intros n k H; simpl in H.
    - injection H as <-. split; [constructor|]. simpl. lia.
    - destruct (l_source m) as [p|url commit subdir] eqn:Es.
      + apply IH in H as [F E]. split.
        * constructor; [|exact F]. unfold verified. rewrite Es. exact I.
        * simpl filter. unfold is_git at 1. rewrite Es. exact E.
      + destruct (checkout url commit subdir) as [[root nd]|] eqn:Ec; [|discriminate].
        destruct (str_eqb (module_hash root nd) (l_sha m)) eqn:Eh; [|discriminate].
        apply IH in H as [F E]. split.
        * constructor; [|exact F]. unfold verified. rewrite Es. exists root, nd.
          split; [exact Ec|]. apply str_eqb_eq. exact Eh.
        * simpl filter. unfold is_git at 1. rewrite Es. simpl length. lia.
  Qed.

  Lemma fetch_loop_complete ms : forall n,
    Forall verified ms -> fetch_loop ms n = FetchOk (n + N.of_nat (length (filter is_git ms))).
  Proof.
    induction ms as [|m r IH]; intros n F; simpl.
    - f_equal. lia.
    - inversion F as [|? ? Hm Hr]; subst. unfold verified in Hm.
      simpl filter. unfold is_git at 1.
      destruct (l_source m) as [p|url commit subdir].
      + apply IH. exact Hr.
      + destruct Hm as [root [nd [Ec Eh]]]. rewrite Ec. rewrite Eh, str_eqb_refl.
        rewrite IH by exact Hr. f_equal. simpl length. lia.
  Qed.

  (* fetch succeeds iff every locked git module's cached checkout hashes to the locked value *)
  Theorem fetch_ok_iff lock :
    (exists k, fetch lock = FetchOk k) <-> Forall verified lock.
  Proof.
    unfold Lock.fetch. split.
    - intros [k H]. apply fetch_loop_ok in H as [F _]. exact F.
    - intros F. eexists. apply fetch_loop_complete. exact F.
  Qed.

  (* ... hence one mismatching module makes the whole command fail, at that module or earlier *)
  Theorem fetch_refuses lock m url commit subdir root nd :
    In m lock -> l_source m = RGit url commit subdir ->
    checkout url commit subdir = Some (root, nd) -> module_hash root nd <> l_sha m ->
    (exists id e g, fetch lock = FetchMismatch id e g /\ e <> g) \/
    (exists id, fetch lock = FetchCheckoutError id).
  Proof.
    intros Hin Hs Hc Hne.
    destruct (fetch lock) as [k|id e g|id] eqn:E.
    - exfalso. assert (F : Forall verified lock) by (apply fetch_ok_iff; eauto).
      rewrite Forall_forall in F. apply F in Hin. unfold verified in Hin. rewrite Hs in Hin.
      destruct Hin as [root' [nd' [Hc' Eh]]]. rewrite Hc in Hc'. injection Hc' as <- <-. contradiction.
    - left. exists id, e, g. split; [reflexivity|].
      clear - E. unfold Lock.fetch in E. revert E. generalize 0. induction lock as [|x r IH]; intros n E; simpl in E.
      + discriminate.
      + destruct (l_source x) as [p|u c sd]; [eapply IH; exact E|].
        destruct (checkout u c sd) as [[rt nd']|]; [|discriminate].
        destruct (str_eqb (module_hash rt nd') (l_sha x)) eqn:Eh; [eapply IH; exact E|].
        injection E as _ <- <-. apply str_eqb_neq in Eh. congruence.
    - right. eauto.
  Qed.

  Notation update := (update sha sha_text fs_local ls_remote checkout).

  (* update with an existing lockfile and no --lock: same verification against the stored lock *)
  Theorem update_verifies l ms fetch_ no_lock w r :
    update (Some (Some l)) ms false fetch_ no_lock false = UDone w (Some r) ->
    w = None /\ r = fetch l.
  Proof.
    unfold Lock.update, update_flags. simpl.
    destruct fetch_, no_lock; simpl; intros H; injection H as <- <-; auto.
  Qed.

  Theorem update_ok_verified l ms fetch_ no_lock w k :
    update (Some (Some l)) ms false fetch_ no_lock false = UDone w (Some (FetchOk k)) ->
    Forall verified l.
  Proof.
    intros H. apply update_verifies in H as [_ H]. apply fetch_ok_iff. eauto.
  Qed.

  (* update that (re)locks first verifies against the lock it has just generated from the very
     same cache — it re-baselines instead of refusing *)
  Theorem update_relock ms existing fetch_ l :
    generate_lockfile ms = Some l ->
    update existing ms true fetch_ false false = UDone (Some l) (Some (fetch l)).
  Proof.
    intros H. unfold Lock.update, update_flags. destruct existing as [[x|]|], fetch_; simpl; rewrite H; reflexivity.
  Qed.

  (* ---------------------------------------------------------------- locked commit *)

  Notation resolve_upstream := (resolve_upstream ls_remote).

  Lemma find_locked_some id l lm : find_locked id l = Some lm -> In lm l /\ l_id lm = id.
  Proof.
    induction l as [|x r IH]; simpl; [discriminate|].
    destruct (str_eqb (l_id x) id) eqn:E.
    - intros H. injection H as <-. split; [left; reflexivity|]. apply str_eqb_eq. exact E.
    - intros H. apply IH in H as [H1 H2]. auto.
  Qed.

  Theorem upstream_locked lock m lm url ref subdir sh lurl lcommit lsubdir :
    m_source m = SGit url ref subdir sh ->
    find_locked (m_id m) lock = Some lm -> l_source lm = RGit lurl lcommit lsubdir ->
    resolve_upstream (Some lock) m = UpGit lurl lcommit lsubdir.
  Proof.
    intros Hs Hf Hl. unfold Lock.resolve_upstream. rewrite Hs, Hf, Hl. reflexivity.
  Qed.
End Tree.

(* the locked commit does not depend on what the remote says now *)
Theorem upstream_ignores_remote ls1 ls2 lock m lm url ref subdir sh lurl lcommit lsubdir :
  m_source m = SGit url ref subdir sh ->
  find_locked (m_id m) lock = Some lm -> l_source lm = RGit lurl lcommit lsubdir ->
  resolve_upstream ls1 (Some lock) m = resolve_upstream ls2 (Some lock) m.
Proof.
  intros Hs Hf Hl. rewrite (upstream_locked ls1 _ _ _ _ _ _ _ _ _ _ Hs Hf Hl).
  rewrite (upstream_locked ls2 _ _ _ _ _ _ _ _ _ _ Hs Hf Hl). reflexivity.
Qed.

(* ------------------------------------------------------------------ path rendering *)

(* a component as the kernel stores it: no '/', no NUL — plus the two conditions that make the
   rendering injective: no '\' and well-formed UTF-8 other than U+FFFD itself *)
Definition comp_plain (c : str) : Prop :=
  c <> [] /\ Forall (fun x => x <> 47 /\ x <> 92 /\ x <> 65533 /\ is_scalar x = true) c.

Definition rel_plain (p : list str) : Prop := p <> [] /\ Forall comp_plain p.

Lemma lossy_id x : Forall (fun c => is_scalar c = true) x -> to_string_lossy x = x.
Proof.
  induction 1 as [|c x Hc _ IH]; simpl; [reflexivity|]. unfold lossy_char. rewrite Hc, IH. reflexivity.
Qed.

Lemma join_slash_inj (p : list str) : forall q,
  p <> [] -> q <> [] -> Forall (fun c => ~ In 47 c) p -> Forall (fun c => ~ In 47 c) q ->
  join [47] p = join [47] q -> p = q.
Proof.
  assert (slash_inj : forall (x y : str) r r',
            ~ In 47 x -> ~ In 47 y -> x ++ 47 :: r = y ++ 47 :: r' -> x = y /\ r = r').
  { induction x as [|a x IH]; intros [|b y] r r' Hx Hy H; simpl in *.
    - injection H as H. auto.
    - injection H as H1 H2. exfalso. apply Hy. left. symmetry. exact H1.
    - injection H as H1 H2. exfalso. apply Hx. left. exact H1.
    - injection H as H1 H2. subst b. destruct (IH y r r') as [E1 E2]; auto. subst. auto. }
  induction p as [|a p IH]; intros q Hp Hq Fp Fq H; [contradiction|].
  destruct q as [|b q]; [contradiction|].
  inversion Fp as [|? ? Ha Fp']; subst. inversion Fq as [|? ? Hb Fq']; subst.
  destruct p as [|a' p], q as [|b' q].
  - simpl in H. subst. reflexivity.
  - exfalso. simpl in H. apply Ha. rewrite H. apply in_or_app. right. left. reflexivity.
  - exfalso. simpl in H. apply Hb. rewrite <- H. apply in_or_app. right. left. reflexivity.
  - change (join [47] (a :: a' :: p)) with (a ++ 47 :: join [47] (a' :: p)) in H.
    change (join [47] (b :: b' :: q)) with (b ++ 47 :: join [47] (b' :: q)) in H.
    apply slash_inj in H as [E H]; try assumption. subst. f_equal.
    apply IH; try assumption; discriminate.
Qed.

Lemma plain_join_id p : Forall comp_plain p ->
  render_rel p = join [47] p.
Proof.
  intros F. unfold render_rel.
  assert (G : Forall (fun x => x <> 92 /\ is_scalar x = true) (join [47] p)).
  { induction F as [|c p [_ Hc] _ IH]; simpl; [constructor|].
    assert (Gc : Forall (fun x => x <> 92 /\ is_scalar x = true) c)
      by (eapply Forall_impl; [|exact Hc]; intros x [? [? [? ?]]]; auto).
    destruct p as [|c' p]; [exact Gc|].
    apply Forall_app. split; [exact Gc|]. simpl. constructor; [split; [discriminate|reflexivity]|exact IH]. }
  rewrite lossy_id by (eapply Forall_impl; [|exact G]; intros x [_ ?]; assumption).
  apply replace_id. intros Hin. rewrite Forall_forall in G. apply G in Hin as [Hin _]. congruence.
Qed.

(* distinct plain relative paths are rendered differently *)
Theorem render_rel_inj p q : rel_plain p -> rel_plain q -> render_rel p = render_rel q -> p = q.
Proof.
  intros [Np Fp] [Nq Fq] H. rewrite !plain_join_id in H by assumption.
  assert (S : forall l, Forall comp_plain l -> Forall (fun c => ~ In 47 c) l).
  { intros l F. eapply Forall_impl; [|exact F]. intros c [_ Hc] Hin.
    rewrite Forall_forall in Hc. apply Hc in Hin as [Hin _]. congruence. }
  apply join_slash_inj; auto.
Qed.

Lemma render_plain_nodup (ps : list (list str)) :
  Forall rel_plain ps -> NoDup ps -> NoDup (map render_rel ps).
Proof.
  induction ps as [|p r IH]; intros F Hn; simpl; [constructor|].
  inversion F as [|? ? Hp Fr]; subst. inversion Hn as [|? ? Hx Hr]; subst.
  constructor; [|apply IH; assumption].
  intros Hin. apply in_map_iff in Hin as [q [E Hq]]. apply Hx.
  rewrite Forall_forall in Fr. apply render_rel_inj in E; auto. subst. exact Hq.
Qed.

(* a plain name without a newline renders without a newline *)
Lemma render_plain_nl p : Forall comp_plain p -> Forall nl_free p -> nl_free (render_rel p).
Proof.
  intros F Hn. rewrite plain_join_id by exact F. clear F.
  induction Hn as [|c p Hc _ IH]; simpl; [intros []|].
  destruct p as [|c' p]; [exact Hc|].
  intros Hin. apply in_app_or in Hin as [Hin|Hin]; [exact (Hc Hin)|].
  simpl in Hin. destruct Hin as [Hin|Hin]; [discriminate|]. exact (IH Hin).
Qed.


(* ------------------------------------------------------------------ plain trees *)

(* the hashed files have pairwise distinct relative paths whose components are non-empty, contain
   no '/', no '\' (not K18b), no ill-formed UTF-8 / U+FFFD (not K18c) and no newline (not K18a) *)
Definition tree_plain (root : list str) (files : list file) : Prop :=
  Forall (fun f => rel_plain (fst f) /\ Forall nl_free (fst f)) (filter (visible root) files) /\
  NoDup (map fst (filter (visible root) files)).

Lemma tree_plain_premises root files :
  tree_plain root files -> paths_nl_free root files /\ NoDup (shown_paths root files).
Proof.
  intros [F Hn]. unfold paths_nl_free, shown_paths, shown. split.
  - rewrite Forall_map. eapply Forall_impl; [|exact F]. intros f [[_ Hp] Hnl].
    apply render_plain_nl; assumption.
  - rewrite <- (map_map fst render_rel). apply render_plain_nodup; [|exact Hn].
    rewrite Forall_map. eapply Forall_impl; [|exact F]. intros f [Hp _]. exact Hp.
Qed.

Theorem module_hash_iff_plain sha sha_text root1 files1 root2 files2 :
  sha_ok sha ->
  (forall a b, a = encode_tree (hash_tree_entries sha root1 files1) ->
               b = encode_tree (hash_tree_entries sha root2 files2) ->
               sha_text a = sha_text b -> a = b) ->
  sha_inj_on sha (tree_content root1 files1) (tree_content root2 files2) ->
  tree_plain root1 files1 -> tree_plain root2 files2 ->
  (module_hash sha sha_text root1 (NDir files1) = module_hash sha sha_text root2 (NDir files2) <->
   same_content (tree_content root1 files1) (tree_content root2 files2)).
Proof.
  intros Hs Ht Hi P1 P2. apply tree_plain_premises in P1 as [A1 B1]. apply tree_plain_premises in P2 as [A2 B2].
  apply module_hash_iff; assumption.
Qed.

Theorem entries_order_plain sha root files files' :
  tree_plain root files -> Permutation files files' ->
  hash_tree_entries sha root files' = hash_tree_entries sha root files.
Proof. intros P. apply tree_plain_premises in P as [_ B]. apply entries_order. exact B. Qed.

(* ------------------------------------------------------------------ boolean version of tree_plain *)

Definition char_plain_b (x : N) : bool :=
  negb (x =? 47) && negb (x =? 92) && negb (x =? 65533) && is_scalar x.
Definition comp_plain_b (c : str) : bool := negb (is_empty c) && forallb char_plain_b c.
Definition rel_plain_b (p : list str) : bool :=
  negb (match p with [] => true | _ => false end) && forallb comp_plain_b p.
Definition nl_free_b (x : str) : bool := negb (mem_char 10 x).

Fixpoint path_eqb (a b : list str) : bool :=
  match a, b with
  | [], [] => true
  | x :: a', y :: b' => str_eqb x y && path_eqb a' b'
  | _, _ => false
  end.

Fixpoint nodup_b (l : list (list str)) : bool :=
  match l with
  | [] => true
  | p :: r => negb (existsb (path_eqb p) r) && nodup_b r
  end.

Definition tree_plain_b (root : list str) (files : list file) : bool :=
  let sh := filter (visible root) files in
  forallb (fun f => rel_plain_b (fst f) && forallb nl_free_b (fst f)) sh && nodup_b (map fst sh).

Lemma path_eqb_refl a : path_eqb a a = true.
Proof. induction a as [|x a IH]; simpl; [reflexivity|]. rewrite str_eqb_refl, IH. reflexivity. Qed.

Lemma nodup_b_ok l : nodup_b l = true -> NoDup l.
Proof.
  induction l as [|p r IH]; simpl; intros H; [constructor|].
  apply andb_true_iff in H as [H1 H2]. constructor; [|apply IH, H2].
  intros Hin. apply negb_true_iff in H1.
  assert (E : existsb (path_eqb p) r = true) by (apply existsb_exists; exists p; split; [exact Hin|apply path_eqb_refl]).
  congruence.
Qed.

Lemma nl_free_b_ok x : nl_free_b x = true -> nl_free x.
Proof.
  unfold nl_free_b, mem_char, nl_free. intros H Hin. apply negb_true_iff in H.
  assert (E : existsb (N.eqb 10) x = true) by (apply existsb_exists; exists 10; split; [exact Hin|reflexivity]).
  congruence.
Qed.

Lemma comp_plain_b_ok c : comp_plain_b c = true -> comp_plain c.
Proof.
  unfold comp_plain_b, comp_plain. intros H. apply andb_true_iff in H as [H1 H2]. split.
  - intros ->. discriminate.
  - rewrite forallb_forall in H2. apply Forall_forall. intros x Hx. apply H2 in Hx.
    unfold char_plain_b in Hx. repeat split; try (intros ->; discriminate).
    apply andb_true_iff in Hx as [_ Hx]. exact Hx.
Qed.

Lemma rel_plain_b_ok p : rel_plain_b p = true -> rel_plain p.
Proof.
  unfold rel_plain_b, rel_plain. intros H. apply andb_true_iff in H as [H1 H2]. split.
  - intros ->. discriminate.
  - rewrite forallb_forall in H2. apply Forall_forall. intros c Hc. apply comp_plain_b_ok, H2, Hc.
Qed.

Lemma tree_plain_b_ok root files : tree_plain_b root files = true -> tree_plain root files.
Proof.
  unfold tree_plain_b, tree_plain. intros H. apply andb_true_iff in H as [H1 H2]. split.
  - rewrite forallb_forall in H1. apply Forall_forall. intros f Hf. apply H1 in Hf.
    apply andb_true_iff in Hf as [Ha Hb]. split; [apply rel_plain_b_ok, Ha|].
    rewrite forallb_forall in Hb. apply Forall_forall. intros c Hc. apply nl_free_b_ok, Hb, Hc.
  - apply nodup_b_ok, H2.
Qed.

(* ------------------------------------------------------------------ known classes K18a–c *)

(* among the hashed files: some component contains a newline / a backslash / ill-formed UTF-8 or U+FFFD *)
Definition K18a (root : list str) (files : list file) : Prop :=
  Exists (fun f => Exists (fun c => In 10 c) (fst f)) (filter (visible root) files).
Definition K18b (root : list str) (files : list file) : Prop :=
  Exists (fun f => Exists (fun c => In 92 c) (fst f)) (filter (visible root) files).
Definition K18c (root : list str) (files : list file) : Prop :=
  Exists (fun f => Exists (fun c => Exists (fun x => x = 65533 \/ is_scalar x = false) c) (fst f))
         (filter (visible root) files).

(* what any directory walk guarantees: relative paths are non-empty lists of non-empty names
   without '/', and no path is yielded twice *)
Definition wf_walk (root : list str) (files : list file) : Prop :=
  Forall (fun f => fst f <> [] /\ Forall (fun c => c <> [] /\ ~ In 47 c) (fst f)) (filter (visible root) files) /\
  NoDup (map fst (filter (visible root) files)).

Theorem not_K18_plain root files :
  wf_walk root files -> ~ K18a root files -> ~ K18b root files -> ~ K18c root files ->
  tree_plain root files.
Proof.
  unfold wf_walk, K18a, K18b, K18c, tree_plain. intros [W Hn] Ha Hb Hc. split; [|exact Hn].
  apply Forall_Exists_neg in Ha. apply Forall_Exists_neg in Hb. apply Forall_Exists_neg in Hc.
  rewrite Forall_forall in W, Ha, Hb, Hc. apply Forall_forall. intros f Hf.
  specialize (W f Hf). specialize (Ha f Hf). specialize (Hb f Hf). specialize (Hc f Hf).
  destruct W as [Wne Wc].
  apply Forall_Exists_neg in Ha. apply Forall_Exists_neg in Hb. apply Forall_Exists_neg in Hc.
  rewrite Forall_forall in Wc, Ha, Hb, Hc. split; [split; [exact Wne|]|].
  - apply Forall_forall. intros c Hcin. destruct (Wc c Hcin) as [Cne Cs]. split; [exact Cne|].
    specialize (Hb c Hcin). specialize (Hc c Hcin). apply Forall_Exists_neg in Hc.
    rewrite Forall_forall in Hc. apply Forall_forall. intros x Hx. specialize (Hc x Hx).
    repeat split.
    + intros ->. exact (Cs Hx).
    + intros ->. exact (Hb Hx).
    + intros ->. apply Hc. left. reflexivity.
    + destruct (is_scalar x) eqn:E; [reflexivity|]. exfalso. apply Hc. right. reflexivity.
  - apply Forall_forall. intros c Hcin. exact (Ha c Hcin).
Qed.

Theorem module_hash_iff_known sha sha_text root1 files1 root2 files2 :
  sha_ok sha ->
  (forall a b, a = encode_tree (hash_tree_entries sha root1 files1) ->
               b = encode_tree (hash_tree_entries sha root2 files2) ->
               sha_text a = sha_text b -> a = b) ->
  sha_inj_on sha (tree_content root1 files1) (tree_content root2 files2) ->
  wf_walk root1 files1 -> wf_walk root2 files2 ->
  ~ K18a root1 files1 -> ~ K18b root1 files1 -> ~ K18c root1 files1 ->
  ~ K18a root2 files2 -> ~ K18b root2 files2 -> ~ K18c root2 files2 ->
  (module_hash sha sha_text root1 (NDir files1) = module_hash sha sha_text root2 (NDir files2) <->
   same_content (tree_content root1 files1) (tree_content root2 files2)).
Proof.
  intros Hs Ht Hi W1 W2 A1 B1 C1 A2 B2 C2.
  apply module_hash_iff_plain; try assumption; apply not_K18_plain; assumption.
Qed.

Theorem entries_order_known sha root files files' :
  wf_walk root files -> ~ K18a root files -> ~ K18b root files -> ~ K18c root files ->
  Permutation files files' ->
  hash_tree_entries sha root files' = hash_tree_entries sha root files.
Proof. intros W A B C. apply entries_order_plain. apply not_K18_plain; assumption. Qed.

(* both halves of the pinning statement *)
Theorem upstream_locked_both ls1 ls2 lock m lm url ref subdir sh lurl lcommit lsubdir :
  m_source m = SGit url ref subdir sh ->
  find_locked (m_id m) lock = Some lm -> l_source lm = RGit lurl lcommit lsubdir ->
  resolve_upstream ls1 (Some lock) m = UpGit lurl lcommit lsubdir /\
  resolve_upstream ls1 (Some lock) m = resolve_upstream ls2 (Some lock) m.
Proof.
  intros Hs Hf Hl. split.
  - exact (upstream_locked ls1 _ _ _ _ _ _ _ _ _ _ Hs Hf Hl).
  - exact (upstream_ignores_remote ls1 ls2 _ _ _ _ _ _ _ _ _ _ Hs Hf Hl).
Qed.

(* decidable versions (the harness mirrors them in Python: props/c18.py k_classes) *)
Definition comp_known_free_b (c : str) : bool :=
  negb (mem_char 10 c) && negb (mem_char 92 c) && forallb (fun x => negb (x =? 65533) && is_scalar x) c.
Definition known_free_b (root : list str) (files : list file) : bool :=
  forallb (fun f => forallb comp_known_free_b (fst f)) (filter (visible root) files).
Definition wf_walk_b (root : list str) (files : list file) : bool :=
  let sh := filter (visible root) files in
  forallb (fun f => negb (match fst f with [] => true | _ => false end) &&
                    forallb (fun c => negb (is_empty c) && negb (mem_char 47 c)) (fst f)) sh &&
  nodup_b (map fst sh).

Lemma mem_char_false c x : mem_char c x = false -> ~ In c x.
Proof.
  unfold mem_char. intros H Hin.
  assert (E : existsb (N.eqb c) x = true) by (apply existsb_exists; exists c; split; [exact Hin|apply N.eqb_refl]).
  congruence.
Qed.

Lemma known_free_b_ok root files :
  known_free_b root files = true -> ~ K18a root files /\ ~ K18b root files /\ ~ K18c root files.
Proof.
  unfold known_free_b, K18a, K18b, K18c. intros H. rewrite forallb_forall in H.
  assert (G : forall f c, In f (filter (visible root) files) -> In c (fst f) -> comp_known_free_b c = true).
  { intros f c Hf Hc. specialize (H f Hf). rewrite forallb_forall in H. exact (H c Hc). }
  repeat split; intros E; apply Exists_exists in E as [f [Hf E]]; apply Exists_exists in E as [c [Hc E]];
    specialize (G f c Hf Hc); unfold comp_known_free_b in G;
    apply andb_true_iff in G as [G G3]; apply andb_true_iff in G as [G1 G2].
  - apply negb_true_iff in G1. exact (mem_char_false _ _ G1 E).
  - apply negb_true_iff in G2. exact (mem_char_false _ _ G2 E).
  - apply Exists_exists in E as [x [Hx E]]. rewrite forallb_forall in G3. specialize (G3 x Hx).
    apply andb_true_iff in G3 as [Ga Gb]. destruct E as [-> | E]; [discriminate|congruence].
Qed.

Lemma wf_walk_b_ok root files : wf_walk_b root files = true -> wf_walk root files.
Proof.
  unfold wf_walk_b, wf_walk. intros H. apply andb_true_iff in H as [H1 H2]. split; [|apply nodup_b_ok, H2].
  rewrite forallb_forall in H1. apply Forall_forall. intros f Hf. specialize (H1 f Hf).
  cbv beta in H1. destruct f as [p c0]. cbn [fst] in *.
  apply andb_true_iff in H1 as [Ha Hb]. split.
  - intros ->. discriminate Ha.
  - rewrite forallb_forall in Hb. apply Forall_forall. intros c Hc. specialize (Hb c Hc).
    apply andb_true_iff in Hb as [Hb1 Hb2]. split.
    + intros ->. discriminate.
    + apply negb_true_iff in Hb2. apply mem_char_false. exact Hb2.
Qed.
