(* Proofs/DispatchP.v — lemmas about Model/Dispatch.v (C08, C09). *)
From AP Require Import Base.Str Base.StrFacts Model.Dispatch.
From AP Require Gen.Tables.
From Coq Require Import Lia.
Open Scope N_scope.

(* ---------- generic list / lookup facts ---------- *)

Lemma mem_str_In x l : mem_str x l = true <-> In x l.
Proof.
  induction l as [|y l IH]; simpl; [split; [discriminate|tauto]|].
  rewrite orb_true_iff, IH, str_eqb_eq. split; intros [H|H]; auto.
Qed.

Lemma mem_str_notIn x l : mem_str x l = false <-> ~ In x l.
Proof.
  rewrite <- mem_str_In. destruct (mem_str x l); split.
  - intros H; discriminate H.
  - intros H; exfalso; apply H; reflexivity.
  - intros _ H; discriminate H.
  - reflexivity.
Qed.

Lemma lookup_Some k t p : lookup k t = Some p -> In (k, p) t.
Proof.
  induction t as [|[k' p'] r IH]; simpl; [discriminate|].
  destruct (str_eqb k' k) eqn:E; intros H.
  - apply str_eqb_eq in E. inversion H; subst. left; reflexivity.
  - right; auto.
Qed.

(* a refusal carries a literal of one of the program's guard sites *)
Lemma run_refused_lit p f lit : r_out (run p f) = ORefused lit -> In lit (step_lits p).
Proof.
  induction p as [|st p IH]; simpl; [discriminate|].
  destruct st as [c code|c|c l|t|c w]; simpl.
  - destruct (c f); simpl; [discriminate|auto].
  - destruct (c f); simpl; [discriminate|auto].
  - destruct (f_json f && negb (f_yes f) && c f); simpl.
    + intros H; inversion H; auto.
    + intros H; right; auto.
  - auto.
  - destruct (c f); simpl; auto.
Qed.

Lemma guard_lit_in base f lit : guard base f = Some (ConfirmRequired lit) -> In lit guard_lits.
Proof.
  unfold guard, exec, prog_of. destruct (lookup base table) as [p|] eqn:L.
  - destruct (r_out (run p f)) eqn:R; try discriminate. intros H; inversion H; subst.
    apply run_refused_lit in R. apply lookup_Some in L.
    unfold guard_lits. apply in_flat_map. exists (base, p); split; assumption.
  - simpl. discriminate.
Qed.

(* ---------- case analysis over the table, with symbolic facts ---------- *)

(* destruct every boolean variable that an [if]/[match] of the goal or of a hypothesis scrutinises *)
Ltac split_bools :=
  repeat match goal with
         | |- context [match ?b with true => _ | false => _ end] => is_var b; destruct b
         | H : context [match ?b with true => _ | false => _ end] |- _ => is_var b; destruct b
         end.

Ltac table_cases L :=
  apply lookup_Some in L; unfold table in L; simpl in L;
  repeat (destruct L as [L|L]; [inversion L; subst; clear L|]); [..|contradiction].

Ltac open_facts f :=
  destruct f as [j y d a fx g lk fe nl nf pre tty cfg pn mm ab bn mo dr lf hc gr gd bw].

(* C08: nothing is written in --json mode without --yes *)
Lemma no_effect base f : f_json f = true -> f_yes f = false -> effects base f = [].
Proof.
  intros Hj Hy. unfold effects, exec, prog_of.
  destruct (lookup base table) as [p|] eqn:L; [|reflexivity].
  open_facts f. simpl in Hj, Hy. subst j y.
  table_cases L; vm_compute; split_bools; reflexivity.
Qed.

(* the refusal names the id of the invoked command *)
Lemma guard_names_id base f lit :
  guard base f = Some (ConfirmRequired lit) -> lit = cmd_id base f.
Proof.
  unfold guard, exec, prog_of.
  destruct (lookup base table) as [p|] eqn:L; [|simpl; discriminate].
  open_facts f.
  table_cases L; vm_compute; split_bools; intros H; inversion H; reflexivity.
Qed.

(* C08: whenever the invocation with --yes would write, it is refused, naming the command *)
Lemma would_write_refused base f :
  f_json f = true -> f_yes f = false -> would_write base f = true ->
  guard base f = Some (ConfirmRequired (cmd_id base f)).
Proof.
  intros Hj Hy. unfold would_write, guard, effects, exec, prog_of.
  destruct (lookup base table) as [p|] eqn:L; [|simpl; discriminate].
  open_facts f. simpl in Hj, Hy. subst j y.
  table_cases L; vm_compute; split_bools; intros H; try discriminate H; reflexivity.
Qed.

(* ---------- the three notions of "mutating" ---------- *)

Definition subsetb (a b : list str) : bool := forallb (fun x => mem_str x b) a.
Definition set_eqb (a b : list str) : bool := subsetb a b && subsetb b a.

Lemma subsetb_In a b : subsetb a b = true -> forall x, In x a -> In x b.
Proof.
  unfold subsetb. rewrite forallb_forall. intros H x Hx. apply mem_str_In. auto.
Qed.

Lemma set_eqb_iff a b : set_eqb a b = true -> forall x, In x a <-> In x b.
Proof.
  unfold set_eqb. rewrite andb_true_iff. intros [H1 H2] x. split; apply subsetb_In; assumption.
Qed.

Lemma lits_eq_mutating : set_eqb guard_lits Gen.Tables.mutating_ids = true.
Proof. vm_compute. reflexivity. Qed.

Lemma sites_eq_mutating : set_eqb Gen.Tables.guard_site_ids Gen.Tables.mutating_ids = true.
Proof. vm_compute. reflexivity. Qed.

Lemma mutating_in_catalogue : subsetb Gen.Tables.mutating_ids catalogue = true.
Proof. vm_compute. reflexivity. Qed.

(* a world in which every guard fires: --json, no --yes, --apply, --fix, everything pending *)
Definition f_all : facts :=
  mkFacts true false false true true false false false false false
          true true false true false false true true true true true true false true.

Definition fires (lit base : str) : bool :=
  match guard base f_all with
  | Some (ConfirmRequired l) => str_eqb l lit
  | None => false
  end.

Lemma lits_realised :
  forallb (fun lit => existsb (fires lit) bases) guard_lits = true.
Proof. vm_compute. reflexivity. Qed.

Lemma set_exact lit :
  (exists base f, In base bases /\ guard base f = Some (ConfirmRequired lit)) <->
  In lit Gen.Tables.mutating_ids.
Proof.
  rewrite <- (set_eqb_iff _ _ lits_eq_mutating lit). split.
  - intros (base & f & _ & H). eapply guard_lit_in; eauto.
  - intros H. pose proof lits_realised as R. rewrite forallb_forall in R.
    specialize (R lit H). apply existsb_exists in R. destruct R as (base & Hb & Hf).
    exists base, f_all. split; [assumption|]. unfold fires in Hf.
    destruct (guard base f_all) as [[l]|]; [|discriminate].
    apply str_eqb_eq in Hf. subst. reflexivity.
Qed.

Lemma set_exact_all :
  (forall lit, (exists base f, In base bases /\ guard base f = Some (ConfirmRequired lit)) <->
               In lit Gen.Tables.mutating_ids) /\
  (forall lit, In lit Gen.Tables.guard_site_ids <-> In lit Gen.Tables.mutating_ids) /\
  (forall lit, In lit Gen.Tables.mutating_ids -> In lit catalogue).
Proof.
  split; [exact set_exact|]. split.
  - exact (set_eqb_iff _ _ sites_eq_mutating).
  - exact (subsetb_In _ _ mutating_in_catalogue).
Qed.

Lemma refused_id_mutating base f lit :
  guard base f = Some (ConfirmRequired lit) ->
  lit = cmd_id base f /\ In (cmd_id base f) Gen.Tables.mutating_ids.
Proof.
  intros H. pose proof (guard_names_id _ _ _ H) as E. split; [assumption|]. rewrite <- E.
  apply (set_eqb_iff _ _ lits_eq_mutating). eapply guard_lit_in; eauto.
Qed.

(* ---------- MCP mutating tools ---------- *)

Lemma mcp_guarded tool cid : In (tool, cid) Gen.Tables.mcp_mutating_tools ->
  exists b, mcp_base tool = Some b /\
    forall dry w,
      effects b (mcp_facts false dry w) = [] /\
      (would_write b (mcp_facts false dry w) = true ->
       guard b (mcp_facts false dry w) = Some (ConfirmRequired cid)).
Proof.
  intros H. unfold Gen.Tables.mcp_mutating_tools in H. simpl in H.
  repeat (destruct H as [H|H]; [inversion H; subst; clear H|]); [..|contradiction];
    (eexists; split; [vm_compute; reflexivity|]); intros dry w; open_facts w; destruct dry;
    vm_compute; split_bools; (split; [reflexivity|]); intros HW; try discriminate HW; reflexivity.
Qed.

(* ---------- C09 ---------- *)

(* an invocation whose command id is not a mutating id has no effects, whatever the flags and world *)
Lemma readonly_no_effect base f :
  ~ In (cmd_id base f) Gen.Tables.mutating_ids -> effects base f = [].
Proof.
  rewrite <- mem_str_notIn. unfold effects, exec, prog_of.
  destruct (lookup base table) as [p|] eqn:L; [|reflexivity].
  open_facts f.
  table_cases L; vm_compute; split_bools; intros H; try discriminate H; reflexivity.
Qed.

(* the read-only commands named by the property, plus the two entries that do not support --json *)
Definition readonly_expected : list str :=
  [s "plan"; s "diff"; s "preview"; s "status";
   s "explain plan"; s "explain diff"; s "explain status";
   s "doctor"; s "score"; s "help"; s "schema";
   s "policy lint"; s "policy audit"; s "overlay path"; s "import"; s "deploy";
   s "completions"; s "mcp serve"].

Definition readonly_derived : list str :=
  filter (fun c => negb (mem_str c Gen.Tables.mutating_ids)) catalogue.

Lemma readonly_list : set_eqb readonly_derived readonly_expected = true.
Proof. vm_compute. reflexivity. Qed.

(* the two extra entries are exactly the catalogue entries that do not support --json *)
Lemma readonly_nojson :
  set_eqb (filter (fun c => mem_str c Gen.Tables.json_unsupported_ids) catalogue)
          [s "completions"; s "mcp serve"] = true.
Proof. vm_compute. reflexivity. Qed.

(* commands that document dry-run support *)
Definition dry_capable : list str :=
  [s "deploy"; s "import"; s "bootstrap"; s "overlay rebase"; s "evolve propose"; s "evolve restore"].

Lemma dry_capable_in_catalogue : subsetb dry_capable bases = true.
Proof. vm_compute. reflexivity. Qed.

(* a dry run writes nothing and computes the same reports as the confirmed real run *)
Lemma dry_run_identity base f : In base dry_capable -> f_dry f = true ->
  effects base f = [] /\
  r_out (exec base f) <> ORefused (cmd_id base f) /\
  reports base f = reports base (with_yes (with_dry false f)).
Proof.
  intros Hb Hd. open_facts f. simpl in Hd. subst d.
  unfold dry_capable in Hb. simpl in Hb.
  repeat (destruct Hb as [Hb|Hb]; [subst base|]); [..|contradiction];
    vm_compute; split_bools; (split; [reflexivity|split; [discriminate|reflexivity]]).
Qed.

(* reports never depend on --yes / --dry-run when the invocation is not refused *)
Lemma reports_flag_independent base f :
  In base dry_capable -> guard base f = None -> reports base f = reports base (with_yes (with_dry false f)).
Proof.
  intros Hb. open_facts f. unfold dry_capable in Hb. simpl in Hb.
  repeat (destruct Hb as [Hb|Hb]; [subst base|]); [..|contradiction];
    vm_compute; split_bools; intros H; try discriminate H; reflexivity.
Qed.

Lemma dry_one base : In base dry_capable -> forall f, f_dry f = true ->
  effects base f = [] /\ reports base f = reports base (with_yes (with_dry false f)).
Proof. intros Hb f H. destruct (dry_run_identity base f Hb H) as (A & _ & B). exact (conj A B). Qed.

Lemma in_dry_deploy : In (s "deploy") dry_capable.
Proof. apply mem_str_In; vm_compute; reflexivity. Qed.
Lemma in_dry_import : In (s "import") dry_capable.
Proof. apply mem_str_In; vm_compute; reflexivity. Qed.
Lemma in_dry_bootstrap : In (s "bootstrap") dry_capable.
Proof. apply mem_str_In; vm_compute; reflexivity. Qed.
Lemma in_dry_rebase : In (s "overlay rebase") dry_capable.
Proof. apply mem_str_In; vm_compute; reflexivity. Qed.
Lemma in_dry_propose : In (s "evolve propose") dry_capable.
Proof. apply mem_str_In; vm_compute; reflexivity. Qed.
Lemma in_dry_restore : In (s "evolve restore") dry_capable.
Proof. apply mem_str_In; vm_compute; reflexivity. Qed.

(* MCP tools with dry_run = true: same handlers *)
Lemma dry_mcp tool cid : In (tool, cid) Gen.Tables.mcp_mutating_tools ->
  forall b, mcp_base tool = Some b -> In b dry_capable ->
  forall yes w, effects b (mcp_facts yes true w) = [] /\
                reports b (mcp_facts yes true w) = reports b (with_yes (with_dry false (mcp_facts yes true w))).
Proof. intros _ b _ Hb yes w. exact (dry_one b Hb (mcp_facts yes true w) eq_refl). Qed.

(* three of the four mutating tools document dry_run; rollback does not *)
Lemma mcp_dry_tools :
  map (fun tc => match mcp_base (fst tc) with Some b => mem_str b dry_capable | None => false end)
      Gen.Tables.mcp_mutating_tools = [true; false; true; true].
Proof. vm_compute. reflexivity. Qed.
