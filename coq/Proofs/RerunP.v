(* Proofs/RerunP.v — re-running deploy from a state an interrupted deploy left behind reaches the
   final state of the uninterrupted run: every non-manifest file identical, every root's manifest
   listing the same files (an absent manifest and one that lists nothing both list nothing).

   The crash states are described semantically.  [phase1]: the interruption hit the change phase —
   manifests and snapshot records untouched, every other file holds its old or its new content.
   [phase2]: the interruption hit the manifest / state / record phase — every non-manifest file is
   final, every manifest holds its old or its new content.  Proofs/CrashP.v (crash_phase) shows
   every prefix of the operation sequence is one of the two. *)
From AP Require Import Base.Str Base.StrFacts Base.Sorting Gen.Tables Model.Deploy
  Proofs.DeployP Proofs.ConvergeP Proofs.HistoryP.
From Coq Require Import Lia Arith.
Open Scope N_scope.

(* ---------- the managed set only looks at manifest-named files and snapshot records ---------- *)
Lemma any_usable_ext f g roots :
  (forall q, is_manifest_path q = true -> f q = g q) -> any_usable f roots = any_usable g roots.
Proof.
  intros H. unfold any_usable. induction roots as [|r rs IH]; [reflexivity|]. simpl.
  rewrite (read_manifest_ext f g r H), IH. reflexivity.
Qed.

Lemma managed_for_plan_ext a b roots flt :
  snaps a = snaps b -> (forall q, is_manifest_path q = true -> files a q = files b q) ->
  managed_for_plan a roots flt = managed_for_plan b roots flt.
Proof.
  intros Hs H. unfold managed_for_plan. rewrite Hs, (any_usable_ext _ _ roots H), (load_managed_ext _ _ roots H).
  reflexivity.
Qed.

(* ---------- a plan computed on a partially applied disk is part of the original plan ---------- *)
Lemma plan_desired_ext f g M d : g (dpath d) = f (dpath d) -> plan_desired g M d = plan_desired f M d.
Proof. intros H. unfold plan_desired. rewrite H. reflexivity. Qed.

Lemma plan_managed_ext f g D tp : g (snd tp) = f (snd tp) -> plan_managed g D tp = plan_managed f D tp.
Proof. intros H. unfold plan_managed. rewrite H. reflexivity. Qed.

Lemma plan_incl f g D M :
  (forall d, In d D -> g (dpath d) = f (dpath d) \/ g (dpath d) = Some (FBytes (dcontent d))) ->
  (forall tp, In tp M -> mem_key tp D = false -> g (snd tp) = f (snd tp) \/ g (snd tp) = None) ->
  forall c, In c (plan g D M) -> In c (plan f D M).
Proof.
  intros HD HM c Hc. apply in_plan in Hc as [[d [Hd Hc]]|[tp [Htp Hc]]]; apply in_plan.
  - left. exists d. split; [exact Hd|]. destruct (HD d Hd) as [E|E].
    + rewrite <- (plan_desired_ext f g M d E). exact Hc.
    + exfalso. unfold plan_desired in Hc. rewrite E in Hc.
      rewrite (proj2 (fobj_eqb_eq _ _) eq_refl) in Hc. exact Hc.
  - right. exists tp. split; [exact Htp|].
    pose proof (in_plan_managed _ _ _ _ Hc) as (_ & _ & _ & Hk & _ & Hex & _).
    destruct (HM tp Htp Hk) as [E|E]; [|contradiction].
    rewrite <- (plan_managed_ext f g D tp E). exact Hc.
Qed.

(* ---------- an empty plan means everything is in place ---------- *)
Lemma plan_nil_desired f D M d :
  plan f D M = [] -> In d D -> f (dpath d) = Some (FBytes (dcontent d)).
Proof.
  intros Hn Hd. destruct (plan_desired f M d) as [|c l] eqn:E.
  - unfold plan_desired in E. destruct (f (dpath d)) as [o|]; [|discriminate].
    destruct (fobj_eqb o (FBytes (dcontent d))) eqn:Eo; [|discriminate].
    apply fobj_eqb_eq in Eo. subst o. reflexivity.
  - exfalso. assert (Hin : In c (plan f D M)).
    { apply in_plan. left. exists d. split; [exact Hd|]. rewrite E. left. reflexivity. }
    rewrite Hn in Hin. exact Hin.
Qed.

Lemma plan_nil_managed f D M tp :
  plan f D M = [] -> In tp M -> mem_key tp D = false -> f (snd tp) = None.
Proof.
  intros Hn Htp Hk. destruct (f (snd tp)) as [o|] eqn:E; [|reflexivity]. exfalso.
  destruct tp as [t p]. pose proof (plan_delete_complete f D M t p o Htp Hk E) as Hin.
  rewrite Hn in Hin. exact Hin.
Qed.

(* ---------- what a root's manifest lists after ANY successful deploy ---------- *)
Definition listing (r : root) (es : list (str * N)) : list tpath :=
  map (fun e => (rtarget r, join_rel (rpath r) (fst e))) (filter (fun e => safe_rel (fst e)) es).

Lemma root_managed_listing f r es : read_manifest f r = Some es -> root_managed f r = listing r es.
Proof. intros H. unfold root_managed, listing. rewrite H. reflexivity. Qed.

Lemma root_managed_after w roots D flt i r :
  wfD roots D -> wfM D (managed_for_plan w roots flt) -> nth_error roots i = Some r ->
  root_managed (files (apply_plan KDeploy w roots D (plan (files w) D (managed_for_plan w roots flt)))) r
  = listing r (per_root roots D i r).
Proof.
  intros HD HM Hn.
  pose proof (files_after_mf w roots D flt HD HM i r Hn) as Hmf.
  destruct (should_write (files w) roots D (plan (files w) D (managed_for_plan w roots flt)) i r) eqn:Es.
  - apply root_managed_listing. unfold read_manifest, chosen_manifest. rewrite Hmf.
    unfold new_manifest, manifest_usable. rewrite N.eqb_refl, str_eqb_refl. reflexivity.
  - unfold should_write in Es.
    apply orb_false_iff in Es as [Es Hls]. apply orb_false_iff in Es as [Es _]. apply orb_false_iff in Es as [Ex Hnil].
    apply negb_false_iff in Hnil. destruct (per_root roots D i r) as [|e es] eqn:Ep; [|discriminate].
    assert (Hleg : files (apply_plan KDeploy w roots D (plan (files w) D (managed_for_plan w roots flt))) (legacy_path r) = files w (legacy_path r)).
    { apply (files_after_manifest_path w roots D flt HD HM); [apply legacy_path_is_manifest|].
      intros r' _ E. symmetry in E. revert E. apply legacy_not_mf. }
    assert (Hw : files w (mf_path r) = None).
    { unfold exists_at in Ex. destruct (files w (mf_path r)); [discriminate|reflexivity]. }
    assert (Hrm : read_manifest (files (apply_plan KDeploy w roots D (plan (files w) D (managed_for_plan w roots flt)))) r = read_manifest (files w) r).
    { unfold read_manifest, chosen_manifest. rewrite Hmf, Hw, Hleg. reflexivity. }
    unfold legacy_stale in Hls. rewrite Ex in Hls. simpl in Hls.
    unfold root_managed. rewrite Hrm. unfold listing. simpl.
    destruct (read_manifest (files w) r) as [[|x l]|]; [reflexivity|discriminate|reflexivity].
Qed.

(* ---------- no manifest missing: every root's manifest lists what it should ---------- *)
Lemma entry_eqb_eq a b : entry_eqb a b = true <-> a = b.
Proof.
  unfold entry_eqb. destruct a as [a1 a2], b as [b1 b2]. simpl. rewrite andb_true_iff, str_eqb_eq, N.eqb_eq.
  split; [intros [-> ->]; reflexivity|intros H; inversion H; auto].
Qed.

Lemma entries_subset_In a b : entries_subset a b = true -> forall e, In e a -> In e b.
Proof.
  unfold entries_subset. rewrite forallb_forall. intros H e He. specialize (H e He).
  apply existsb_exists in H as [x [Hx E]]. apply entry_eqb_eq in E. subst x. exact Hx.
Qed.

Lemma entries_same_listing r a b : entries_same a b = true -> forall tp, In tp (listing r a) <-> In tp (listing r b).
Proof.
  unfold entries_same. rewrite andb_true_iff. intros [H1 H2] tp. unfold listing. rewrite !in_map_iff.
  split; intros [e [E He]]; exists e; (split; [exact E|]); apply filter_In in He as [He Hs]; apply filter_In; split; auto;
    eapply entries_subset_In; eauto.
Qed.

Definition used_root (roots : list root) (D : list dfile) (i : nat) : bool :=
  existsb (fun d => idx_is (best_root_idx roots (dtarget d) (dpath d)) i) D.

Lemma unused_per_root roots D i r : used_root roots D i = false -> per_root roots D i r = [].
Proof.
  unfold used_root, per_root. intros H.
  assert (Ef : filter (fun d => idx_is (best_root_idx roots (dtarget d) (dpath d)) i) D = []); [|rewrite Ef; reflexivity].
  destruct (filter _ D) as [|d l] eqn:Ef; [reflexivity|]. exfalso.
  assert (Hin : In d (filter (fun d => idx_is (best_root_idx roots (dtarget d) (dpath d)) i) D)) by (rewrite Ef; left; reflexivity).
  apply filter_In in Hin as [Hd Hi].
  assert (existsb (fun d => idx_is (best_root_idx roots (dtarget d) (dpath d)) i) D = true) by (apply existsb_exists; exists d; auto).
  congruence.
Qed.

Lemma manifests_ok_from rs : forall i roots D f,
  manifests_missing_from i rs roots D f = false ->
  forall j r, nth_error rs j = Some r ->
  forall tp, In tp (root_managed f r) <-> In tp (listing r (per_root roots D (i + j) r)).
Proof.
  induction rs as [|r0 rs IH]; intros i roots D f H j r Hn; [destruct j; discriminate|].
  cbn [manifests_missing_from] in H. apply orb_false_iff in H as [H0 Hrest].
  destruct j as [|j]; simpl in Hn.
  - inversion Hn; subst r0. rewrite Nat.add_0_r.
    fold (used_root roots D i) in H0. destruct (used_root roots D i) eqn:Eu.
    + destruct (f (mf_path r)) as [o|] eqn:Ep; [|discriminate].
      destruct (read_manifest f r) as [es|] eqn:Er; [|discriminate].
      apply negb_false_iff in H0. intros tp. rewrite (root_managed_listing f r es Er).
      apply entries_same_listing. exact H0.
    + rewrite (unused_per_root roots D i r Eu). intros tp. unfold listing. simpl.
      assert (Hnil : root_managed f r = []); [|rewrite Hnil; reflexivity].
      unfold root_managed, read_manifest, chosen_manifest in *.
      destruct (f (mf_path r)) as [[n|m]|] eqn:Ef; [discriminate| |].
      * destruct (manifest_usable m (rtarget r)) as [[|x l]|]; [reflexivity|discriminate|discriminate].
      * unfold legacy_stale, exists_at, read_manifest, chosen_manifest in H0. rewrite Ef in H0. simpl in H0.
        destruct (f (legacy_path r)) as [[n|m]|]; [reflexivity| |reflexivity].
        destruct (manifest_usable m (rtarget r)) as [[|x l]|]; [reflexivity|discriminate|reflexivity].
  - replace (i + S j)%nat with (S i + j)%nat by lia. apply IH; auto.
Qed.

Lemma manifests_ok roots D f i r :
  manifests_missing roots D f = false -> nth_error roots i = Some r ->
  forall tp, In tp (root_managed f r) <-> In tp (listing r (per_root roots D i r)).
Proof. intros H Hn. exact (manifests_ok_from roots 0 roots D f H i r Hn). Qed.

(* ---------- a confirmed deploy from ANY world ---------- *)
Lemma has_desired_dec (D : list dfile) p : {d | In d D /\ dpath d = p} + {forall d, In d D -> dpath d <> p}.
Proof.
  induction D as [|d D IH]; [right; intros d []|].
  destruct (path_eqb (dpath d) p) eqn:E.
  - left. exists d. split; [left; reflexivity|apply path_eqb_eq; exact E].
  - destruct IH as [[d' [H1 H2]]|H]; [left; exists d'; split; [right; exact H1|exact H2]|].
    right. intros d' [<-|Hd']; [apply path_eqb_neq; exact E|apply H; exact Hd'].
Qed.

Lemma has_managed_dec (M : list tpath) p : {t | In (t, p) M} + {forall t, ~ In (t, p) M}.
Proof.
  induction M as [|[t q] M IH]; [right; intros t []|].
  destruct (path_eqb q p) eqn:E.
  - left. exists t. apply path_eqb_eq in E. subst q. left. reflexivity.
  - destruct IH as [[t' H]|H]; [left; exists t'; right; exact H|].
    right. intros t' [E'|H']; [inversion E'; subst; rewrite path_eqb_refl in E; discriminate|exact (H t' H')].
Qed.

Lemma mem_key_desired_path (D : list dfile) t p : mem_key (t, p) D = true -> exists d, In d D /\ dpath d = p /\ dtarget d = t.
Proof. intros H. apply mem_key_true in H as [d [Hd Hk]]. unfold dkey in Hk. inversion Hk. exists d. auto. Qed.

Section From.
  Variables (roots : list root) (D : list dfile) (flt : option str).
  Hypothesis HD : wfD roots D.

  (* the non-manifest part of the world after a successful deploy from x *)
  Lemma after_untouched x p :
    wfM D (managed_for_plan x roots flt) -> is_manifest_path p = false ->
    (forall d, In d D -> dpath d <> p) -> (forall t, ~ In (t, p) (managed_for_plan x roots flt)) ->
    files (apply_plan KDeploy x roots D (plan (files x) D (managed_for_plan x roots flt))) p = files x p.
  Proof.
    intros HM Hp Hd Hm. apply apply_plan_untouched.
    - intros c Hc E. apply plan_origin in Hc as [[d (Hd' & _ & Hpd & _)]|[Hin _]].
      + apply (Hd d Hd'). congruence.
      + rewrite E in Hin. exact (Hm _ Hin).
    - apply not_manifest_not_mf. exact Hp.
  Qed.

  Lemma rerun_from x st adopt :
    wfM D (managed_for_plan x roots flt) ->
    (has_adopt (plan (files x) D (managed_for_plan x roots flt)) = false \/ adopt = true) ->
    let res := deploy_cmd st true adopt flt x roots D in
    let x2 := snd (snd res) in
    (fst (snd res) = OApplied \/ fst (snd res) = ONoChanges) /\
    (forall d, In d D -> files x2 (dpath d) = Some (FBytes (dcontent d))) /\
    (forall t p, In (t, p) (managed_for_plan x roots flt) -> mem_key (t, p) D = false -> files x2 p = None) /\
    (forall p, is_manifest_path p = false -> (forall d, In d D -> dpath d <> p) ->
               (forall t, ~ In (t, p) (managed_for_plan x roots flt)) -> files x2 p = files x p) /\
    (forall i r, nth_error roots i = Some r ->
                 forall tp, In tp (root_managed (files x2) r) <-> In tp (listing r (per_root roots D i r))).
  Proof.
    intros HM Hgate. unfold deploy_cmd. cbn [fst snd].
    set (Mx := managed_for_plan x roots flt) in *. set (plx := plan (files x) D Mx) in *.
    unfold deploy_apply_in. rewrite andb_false_r.
    assert (Hg : has_adopt plx && negb adopt = false).
    { destruct Hgate as [->| ->]; [reflexivity|apply andb_false_r]. }
    rewrite Hg.
    destruct ((match plx with [] => true | _ :: _ => false end) && negb (manifests_missing roots D (files x))) eqn:Enc.
    - (* no changes: the world stays, and it already is as required *)
      apply andb_true_iff in Enc as [Enil Emm]. apply negb_true_iff in Emm.
      assert (Hnil : plan (files x) D Mx = []) by (fold plx; destruct plx; [reflexivity|discriminate]).
      cbn [fst snd]. split; [right; reflexivity|].
      split; [intros d Hd; eapply plan_nil_desired; eauto|].
      split; [intros t p Hin Hk; apply (plan_nil_managed (files x) D Mx (t, p) Hnil Hin Hk)|].
      split; [intros; reflexivity|].
      intros i r Hn. apply manifests_ok; assumption.
    - cbn [negb fst snd]. split; [left; reflexivity|].
      split; [intros d Hd; apply (files_after_desired x roots D flt HD HM d Hd)|].
      split; [intros t p Hin Hk; apply (files_after_removed x roots D flt HD HM t p Hin Hk)|].
      split; [intros p Hp Hd Hm; apply after_untouched; assumption|].
      intros i r Hn tp. unfold plx, Mx. rewrite (root_managed_after x roots D flt i r HD HM Hn). reflexivity.
  Qed.
End From.

(* ---------- the two kinds of crash state and the re-run from each ---------- *)
Section Rerun.
  Variables (w : world) (roots : list root) (D : list dfile) (flt : option str).
  Let M := managed_for_plan w roots flt.
  Let pl := plan (files w) D M.
  Let w1 := apply_plan KDeploy w roots D pl.
  Hypothesis HD : wfD roots D.
  Hypothesis HM : wfM D M.

  Definition phase1 (wc : world) : Prop :=
    snaps wc = snaps w /\
    (forall q, is_manifest_path q = true -> files wc q = files w q) /\
    (forall p, is_manifest_path p = false -> files wc p = files w p \/ files wc p = files w1 p).

  Definition phase2 (wc : world) : Prop :=
    snaps wc = snaps w /\
    (forall p, is_manifest_path p = false -> files wc p = files w1 p) /\
    (forall q, is_manifest_path q = true -> files wc q = files w q \/ files wc q = files w1 q).

  (* what "the same final state" means: files equal off the manifests, manifests list the same *)
  Definition same_final (x : world) : Prop :=
    (forall p, is_manifest_path p = false -> files x p = files w1 p) /\
    (forall r, In r roots -> forall tp, In tp (root_managed (files x) r) <-> In tp (root_managed (files w1) r)).

  Lemma w1_desired d : In d D -> files w1 (dpath d) = Some (FBytes (dcontent d)).
  Proof. apply (files_after_desired w roots D flt HD HM). Qed.
  Lemma w1_removed t p : In (t, p) M -> mem_key (t, p) D = false -> files w1 p = None.
  Proof. apply (files_after_removed w roots D flt HD HM). Qed.
  Lemma w1_untouched p : is_manifest_path p = false -> (forall d, In d D -> dpath d <> p) -> (forall t, ~ In (t, p) M) ->
    files w1 p = files w p.
  Proof. intros. apply (after_untouched roots D flt w p); assumption. Qed.
  Lemma w1_listing i r : nth_error roots i = Some r -> root_managed (files w1) r = listing r (per_root roots D i r).
  Proof. intros Hn. apply (root_managed_after w roots D flt i r HD HM Hn). Qed.

  Lemma undesired_no_key t p : (forall d, In d D -> dpath d <> p) -> mem_key (t, p) D = false.
  Proof.
    intros H. destruct (mem_key (t, p) D) eqn:E; [|reflexivity]. exfalso.
    apply mem_key_desired_path in E as [d (Hd & Hp & _)]. exact (H d Hd Hp).
  Qed.

  (* from a result characterised like [rerun_from]'s to [same_final] *)
  Lemma same_final_of x x2 Mx :
    (forall d, In d D -> files x2 (dpath d) = Some (FBytes (dcontent d))) ->
    (forall t p, In (t, p) Mx -> mem_key (t, p) D = false -> files x2 p = None) ->
    (forall p, is_manifest_path p = false -> (forall d, In d D -> dpath d <> p) -> (forall t, ~ In (t, p) Mx) -> files x2 p = files x p) ->
    (forall i r, nth_error roots i = Some r -> forall tp, In tp (root_managed (files x2) r) <-> In tp (listing r (per_root roots D i r))) ->
    (* the starting world agrees with the final one wherever the re-run does not act *)
    (forall t p, In (t, p) Mx -> mem_key (t, p) D = false -> files w1 p = None) ->
    (forall p, is_manifest_path p = false -> (forall d, In d D -> dpath d <> p) -> (forall t, ~ In (t, p) Mx) -> files x p = files w1 p) ->
    same_final x2.
  Proof.
    intros H1 H2 H3 H4 H5 H6. split.
    - intros p Hp. destruct (has_desired_dec D p) as [[d [Hd E]]|Hnd].
      + rewrite <- E. rewrite (H1 d Hd), (w1_desired d Hd). reflexivity.
      + destruct (has_managed_dec Mx p) as [[t Ht]|Hnm].
        * rewrite (H2 t p Ht (undesired_no_key t p Hnd)), (H5 t p Ht (undesired_no_key t p Hnd)). reflexivity.
        * rewrite (H3 p Hp Hnd Hnm). apply H6; assumption.
    - intros r Hr tp. destruct (In_nth_error_ex _ _ Hr) as [i Hn].
      rewrite (H4 i r Hn tp), (w1_listing i r Hn). reflexivity.
  Qed.

  Theorem rerun_phase1 wc st adopt :
    phase1 wc -> (has_adopt pl = false \/ adopt = true) ->
    let res := deploy_cmd st true adopt flt wc roots D in
    (fst (snd res) = OApplied \/ fst (snd res) = ONoChanges) /\ same_final (snd (snd res)).
  Proof.
    intros (Hs & Hman & Hold) Hgate.
    assert (HMc : managed_for_plan wc roots flt = M) by (apply managed_for_plan_ext; assumption).
    assert (Hincl : forall c, In c (plan (files wc) D M) -> In c pl).
    { apply plan_incl.
      - intros d Hd. destruct (Hold (dpath d)) as [E|E]; [apply HD; exact Hd|left; exact E|right].
        rewrite E. apply w1_desired. exact Hd.
      - intros [t p] Htp Hk. simpl. destruct (Hold p) as [E|E]; [destruct HM as (HM1 & _); apply (HM1 t p Htp)|left; exact E|right].
        rewrite E. apply (w1_removed t p); assumption. }
    assert (Hg : has_adopt (plan (files wc) D (managed_for_plan wc roots flt)) = false \/ adopt = true).
    { destruct Hgate as [Hf|Ha]; [left|right; exact Ha]. rewrite HMc.
      destruct (has_adopt (plan (files wc) D M)) eqn:E; [|reflexivity]. exfalso.
      unfold has_adopt in E. apply existsb_exists in E as [c [Hc Ha]].
      assert (has_adopt pl = true) by (unfold has_adopt; apply existsb_exists; exists c; split; [apply Hincl; exact Hc|exact Ha]).
      congruence. }
    assert (HMc' : wfM D (managed_for_plan wc roots flt)) by (rewrite HMc; exact HM).
    destruct (rerun_from roots D flt HD wc st adopt HMc' Hg) as (Hout & H1 & H2 & H3 & H4).
    split; [exact Hout|]. rewrite HMc in *.
    eapply (same_final_of wc _ M); eauto.
    - intros t p Hin Hk. apply (w1_removed t p); assumption.
    - intros p Hp Hd Hm. rewrite (w1_untouched p Hp Hd Hm).
      destruct (Hold p Hp) as [E|E]; [exact E|]. rewrite E. apply w1_untouched; assumption.
  Qed.

  (* ---- phase 2 ---- *)
  Lemma legacy_same wc r : phase2 wc -> files wc (legacy_path r) = files w (legacy_path r).
  Proof.
    intros (_ & _ & H). destruct (H (legacy_path r) (legacy_path_is_manifest r)) as [E|E]; [exact E|]. rewrite E.
    apply (files_after_manifest_path w roots D flt HD HM); [apply legacy_path_is_manifest|].
    intros r' _ E'. symmetry in E'. revert E'. apply legacy_not_mf.
  Qed.

  (* a root's manifest, read in a phase-2 state, reads like the old one or is the new one *)
  Lemma phase2_read wc i r : phase2 wc -> nth_error roots i = Some r ->
    read_manifest (files wc) r = read_manifest (files w) r \/ read_manifest (files wc) r = Some (per_root roots D i r).
  Proof.
    intros Hph Hn. pose proof (legacy_same wc r Hph) as Hleg. destruct Hph as (_ & _ & H).
    destruct (H (mf_path r) (mf_path_is_manifest r)) as [E|E].
    - left. unfold read_manifest, chosen_manifest. rewrite E, Hleg. reflexivity.
    - pose proof (files_after_mf w roots D flt HD HM i r Hn) as Hmf. fold M in Hmf. fold pl in Hmf. fold w1 in Hmf.
      destruct (should_write (files w) roots D pl i r) eqn:Es.
      + right. unfold read_manifest, chosen_manifest. rewrite E, Hmf.
        unfold new_manifest, manifest_usable. rewrite N.eqb_refl, str_eqb_refl. reflexivity.
      + left. unfold should_write in Es.
        apply orb_false_iff in Es as [Es _]. apply orb_false_iff in Es as [Es _]. apply orb_false_iff in Es as [Ex _].
        unfold exists_at in Ex. destruct (files w (mf_path r)) eqn:Ew; [discriminate|].
        unfold read_manifest, chosen_manifest. rewrite E, Hmf, Ew, Hleg. reflexivity.
  Qed.

  Lemma listing_desired i r tp : nth_error roots i = Some r -> In tp (listing r (per_root roots D i r)) -> mem_key tp D = true.
  Proof.
    intros Hn Hin. unfold listing in Hin. apply in_map_iff in Hin as [e [<- He]]. apply filter_In in He as [He _].
    apply in_per_root in He as [d (Hd & Hb & ->)]. cbn [fst].
    destruct (join_rel_of roots d i r Hb Hn) as (Hj & _ & Ht); [apply HD; exact Hd|].
    apply mem_key_true. exists d. split; [exact Hd|]. unfold dkey. rewrite Hj, Ht. reflexivity.
  Qed.

  Lemma phase2_managed wc tp :
    phase2 wc -> In tp (managed_for_plan wc roots flt) -> mem_key tp D = false -> In tp M.
  Proof.
    intros Hph Hin Hk. pose proof Hph as (Hs & _ & _).
    apply in_managed_for_plan in Hin as [Hpass [[r [Hr Hin]]|[Hnu [sn [Hsn [Hin Hu]]]]]].
    - destruct (In_nth_error_ex _ _ Hr) as [i Hn].
      apply in_root_managed in Hin as [es [e (Hread & He & Hsafe & Etp)]].
      destruct (phase2_read wc i r Hph Hn) as [E|E]; rewrite E in Hread.
      + unfold M. apply load_in_managed_for_plan; [|exact Hpass].
        unfold load_managed. apply in_flat_map. exists r. split; [exact Hr|].
        unfold root_managed. rewrite Hread. rewrite Etp. apply in_map_iff. exists e. split; [reflexivity|].
        apply filter_In. auto.
      + exfalso. inversion Hread; subst es.
        assert (Hl : In tp (listing r (per_root roots D i r))).
        { unfold listing. rewrite Etp. apply in_map_iff. exists e. split; [reflexivity|]. apply filter_In. auto. }
        rewrite (listing_desired i r tp Hn Hl) in Hk. discriminate.
    - (* snapshot fallback in wc: no root reads a usable manifest there, hence none did before *)
      assert (Hnu0 : any_usable (files w) roots = false).
      { destruct (any_usable (files w) roots) eqn:E; [|reflexivity]. exfalso.
        unfold any_usable in E. apply existsb_exists in E as [r [Hr Hsome]].
        destruct (In_nth_error_ex _ _ Hr) as [i Hn].
        pose proof (any_usable_false_none _ _ Hnu r Hr) as Hnone.
        destruct (phase2_read wc i r Hph Hn) as [E|E]; rewrite E in Hnone; [|discriminate].
        rewrite Hnone in Hsome. discriminate. }
      unfold M, managed_for_plan. rewrite Hnu0, <- Hs, Hsn.
      apply in_filter_managed. split; [|exact Hpass]. apply filter_In. auto.
  Qed.

  Lemma phase2_wfM wc : phase2 wc -> wfM D (managed_for_plan wc roots flt).
  Proof.
    intros Hph. destruct HD as (HD1 & HD2 & _). destruct HM as (HM1 & HM2 & HM3).
    assert (Hcase : forall t p, In (t, p) (managed_for_plan wc roots flt) ->
                    (exists d, In d D /\ dpath d = p /\ dtarget d = t) \/ In (t, p) M).
    { intros t p Hin. destruct (mem_key (t, p) D) eqn:Ek.
      - left. apply mem_key_desired_path. exact Ek.
      - right. eapply phase2_managed; eauto. }
    repeat split.
    - intros t p Hin. destruct (Hcase t p Hin) as [[d (Hd & <- & _)]|Hm]; [apply HD2; exact Hd|eapply HM1; exact Hm].
    - intros t p d Hin Hd Hp. destruct (Hcase t p Hin) as [[d' (Hd' & Hp' & Ht')]|Hm].
      + assert (d' = d) by (eapply NoDup_map_inj; eauto; congruence). subst d'. exact Ht'.
      + eapply HM2; eauto.
    - intros t1 t2 p H1 H2.
      destruct (Hcase t1 p H1) as [[d1 (Hd1 & Hp1 & Ht1)]|Hm1]; destruct (Hcase t2 p H2) as [[d2 (Hd2 & Hp2 & Ht2)]|Hm2].
      + assert (d1 = d2) by (eapply NoDup_map_inj; eauto; congruence). subst d2. congruence.
      + rewrite <- Ht1. apply (HM2 t2 p d1 Hm2 Hd1 Hp1).
      + rewrite <- Ht2. symmetry. apply (HM2 t1 p d2 Hm1 Hd2 Hp2).
      + eapply HM3; eauto.
  Qed.

  Theorem rerun_phase2 wc st adopt :
    phase2 wc ->
    let res := deploy_cmd st true adopt flt wc roots D in
    (fst (snd res) = OApplied \/ fst (snd res) = ONoChanges) /\ same_final (snd (snd res)).
  Proof.
    intros Hph. pose proof Hph as (Hs & Hfin & _).
    pose proof (phase2_wfM wc Hph) as HMc.
    assert (Hg : has_adopt (plan (files wc) D (managed_for_plan wc roots flt)) = false \/ adopt = true).
    { left. destruct (has_adopt (plan (files wc) D (managed_for_plan wc roots flt))) eqn:E; [|reflexivity]. exfalso.
      unfold has_adopt in E. apply existsb_exists in E as [c [Hc Ha]].
      apply in_plan in Hc as [[d [Hd Hc]]|[tp [Htp Hc]]].
      - unfold plan_desired in Hc. rewrite (Hfin (dpath d)) in Hc by (apply HD; exact Hd).
        rewrite (w1_desired d Hd) in Hc. rewrite (proj2 (fobj_eqb_eq _ _) eq_refl) in Hc. exact Hc.
      - apply in_plan_managed in Hc as (_ & _ & Hop & _). unfold is_adopt in Ha. rewrite Hop in Ha. discriminate. }
    destruct (rerun_from roots D flt HD wc st adopt HMc Hg) as (Hout & H1 & H2 & H3 & H4).
    split; [exact Hout|].
    eapply (same_final_of wc _ (managed_for_plan wc roots flt)); eauto.
    - intros t p Hin Hk. apply (w1_removed t p); [|exact Hk]. eapply phase2_managed; eauto.
  Qed.
End Rerun.
