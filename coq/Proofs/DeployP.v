(* Proofs/DeployP.v — lemmas about Model/Deploy.v (C01, C02, C04). *)
From AP Require Import Base.Str Base.StrFacts Base.Sorting Gen.Tables Model.Deploy.
From Coq Require Import Lia Sorting.Permutation.
Open Scope N_scope.

(* ---------- equality deciders ---------- *)
Lemma path_eqb_eq a : forall b, path_eqb a b = true <-> a = b.
Proof.
  induction a as [|x a IH]; intros [|y b]; simpl; split; intros H; try reflexivity; try discriminate.
  - apply andb_true_iff in H as [H1 H2]. apply str_eqb_eq in H1. apply IH in H2. congruence.
  - inversion H; subst. rewrite str_eqb_refl. apply IH. reflexivity.
Qed.
Lemma path_eqb_refl a : path_eqb a a = true.
Proof. apply path_eqb_eq. reflexivity. Qed.
Lemma path_eqb_neq a b : path_eqb a b = false <-> a <> b.
Proof.
  split; intros H.
  - intros ->. rewrite path_eqb_refl in H. discriminate.
  - destruct (path_eqb a b) eqn:E; [apply path_eqb_eq in E; contradiction|reflexivity].
Qed.

Lemma tp_eqb_eq a b : tp_eqb a b = true <-> a = b.
Proof.
  destruct a as [t p], b as [t' p']. unfold tp_eqb. simpl. rewrite andb_true_iff, str_eqb_eq, path_eqb_eq.
  split; [intros [-> ->]; reflexivity | intros H; inversion H; auto].
Qed.
Lemma tp_eqb_refl a : tp_eqb a a = true.
Proof. apply tp_eqb_eq. reflexivity. Qed.

Lemma mem_tp_In x l : mem_tp x l = true <-> In x l.
Proof.
  induction l as [|y l IH]; simpl; [split; [discriminate|tauto]|].
  rewrite orb_true_iff, tp_eqb_eq, IH. split; intros [H|H]; auto.
Qed.
Lemma mem_tp_false x l : mem_tp x l = false <-> ~ In x l.
Proof. rewrite <- mem_tp_In. destruct (mem_tp x l); split; congruence. Qed.

Lemma dedup_tp_In x l : In x (dedup_tp l) <-> In x l.
Proof.
  induction l as [|y l IH]; simpl; [tauto|].
  destruct (mem_tp y l) eqn:E.
  - rewrite IH. split; [auto|]. intros [->|H]; [apply mem_tp_In; exact E|exact H].
  - simpl. rewrite IH. tauto.
Qed.
Lemma dedup_tp_NoDup l : NoDup (dedup_tp l).
Proof.
  induction l as [|y l IH]; simpl; [constructor|].
  destruct (mem_tp y l) eqn:E; [exact IH|].
  constructor; [|exact IH]. rewrite dedup_tp_In. apply mem_tp_false. exact E.
Qed.

Lemma mem_key_true tp D : mem_key tp D = true <-> exists d, In d D /\ dkey d = tp.
Proof.
  unfold mem_key. rewrite existsb_exists. split; intros [d [H1 H2]]; exists d; split; auto.
  - apply tp_eqb_eq in H2. auto.
  - apply tp_eqb_eq. auto.
Qed.

Lemma entries_eqb_eq a : forall b, entries_eqb a b = true <-> a = b.
Proof.
  induction a as [|[x n] a IH]; intros [|[y m] b]; simpl; split; intros H; try reflexivity; try discriminate.
  - apply andb_true_iff in H as [H1 H2]. unfold entry_eqb in H1. simpl in H1.
    apply andb_true_iff in H1 as [H1 H3]. apply str_eqb_eq in H1. apply N.eqb_eq in H3.
    apply IH in H2. congruence.
  - inversion H; subst. unfold entry_eqb. simpl. rewrite str_eqb_refl, N.eqb_refl. apply IH. reflexivity.
Qed.
Lemma fobj_eqb_eq a b : fobj_eqb a b = true <-> a = b.
Proof.
  destruct a as [c|m], b as [c'|m']; simpl; try (split; [discriminate|intros H; discriminate]).
  - rewrite N.eqb_eq. split; congruence.
  - destruct m as [|v t e], m' as [|v' t' e']; simpl; try (split; [discriminate|intros H; discriminate]).
    + tauto.
    + rewrite !andb_true_iff, N.eqb_eq, str_eqb_eq, entries_eqb_eq.
      split; [intros [[-> ->] ->]; reflexivity | intros H; inversion H; auto].
Qed.

(* ---------- upd ---------- *)
Lemma upd_same f p v : upd f p v p = v.
Proof. unfold upd. rewrite path_eqb_refl. reflexivity. Qed.
Lemma upd_other f p v q : q <> p -> upd f p v q = f q.
Proof. intros H. unfold upd. apply path_eqb_neq in H. rewrite H. reflexivity. Qed.

(* ---------- plan ---------- *)
Lemma in_plan f D M c :
  In c (plan f D M) <->
  (exists d, In d D /\ In c (plan_desired f M d)) \/
  (exists tp, In tp M /\ In c (plan_managed f D tp)).
Proof.
  assert (Hs : In c (plan f D M) <-> In c (plan_unsorted f D M)).
  { unfold plan. split; intros H.
    - eapply Permutation_in; [apply Permutation_sym, isort_perm|exact H].
    - eapply Permutation_in; [apply isort_perm|exact H]. }
  rewrite Hs. unfold plan_unsorted. rewrite in_app_iff, !in_flat_map. split; intros [H|H]; auto.
  - right. destruct H as [tp [H1 H2]]. exists tp. rewrite dedup_tp_In in H1. auto.
  - right. destruct H as [tp [H1 H2]]. exists tp. rewrite dedup_tp_In. auto.
Qed.

Lemma in_plan_desired f M d c :
  In c (plan_desired f M d) ->
  c_target c = dtarget d /\ c_path c = dpath d /\ c_before c = f (dpath d) /\
  c_after c = Some (dcontent d) /\
  ((f (dpath d) = None /\ c_op c = PCreate) \/
   (exists o, f (dpath d) = Some o /\ o <> FBytes (dcontent d) /\
              c_op c = PUpdate (if mem_tp (dkey d) M then UManaged else UAdopt))).
Proof.
  unfold plan_desired. destruct (f (dpath d)) as [o|] eqn:E.
  - destruct (fobj_eqb o (FBytes (dcontent d))) eqn:E2; [intros []|].
    intros [<-|[]]. simpl. repeat split; auto. right. exists o. repeat split; auto.
    intros ->. rewrite (proj2 (fobj_eqb_eq _ _) eq_refl) in E2. discriminate.
  - intros [<-|[]]. simpl. repeat split; auto.
Qed.

Lemma in_plan_managed f D tp c :
  In c (plan_managed f D tp) ->
  c_target c = fst tp /\ c_path c = snd tp /\ c_op c = PDelete /\ mem_key tp D = false /\
  c_before c = f (snd tp) /\ f (snd tp) <> None /\ c_after c = None.
Proof.
  unfold plan_managed. destruct (mem_key tp D) eqn:E; [intros []|].
  destruct (f (snd tp)) as [o|] eqn:E2; [|intros []].
  intros [<-|[]]. simpl. repeat split; auto. discriminate.
Qed.

(* C02: a delete is planned only for a recorded path that is absent from the desired state *)
Lemma plan_delete_sound f D M c :
  In c (plan f D M) -> c_op c = PDelete ->
  In (c_target c, c_path c) M /\ mem_key (c_target c, c_path c) D = false /\ f (c_path c) <> None.
Proof.
  intros H Hop. apply in_plan in H as [[d [Hd Hc]]|[tp [Htp Hc]]].
  - apply in_plan_desired in Hc as (_ & _ & _ & _ & [[_ Ho]|[o (_ & _ & Ho)]]); congruence.
  - apply in_plan_managed in Hc as (Ht & Hp & _ & Hk & _ & Hex & _).
    rewrite Ht, Hp. destruct tp; simpl. auto.
Qed.

(* completeness of the delete set *)
Lemma plan_delete_complete f D M t p o :
  In (t, p) M -> mem_key (t, p) D = false -> f p = Some o ->
  In (Build_change t PDelete p (Some o) None) (plan f D M).
Proof.
  intros HM HD Hf. apply in_plan. right. exists (t, p). split; [exact HM|].
  unfold plan_managed. rewrite HD. simpl. rewrite Hf. left. reflexivity.
Qed.

(* every planned change stems from a desired entry or a recorded path *)
Lemma plan_origin f D M c :
  In c (plan f D M) ->
  (exists d, In d D /\ c_target c = dtarget d /\ c_path c = dpath d /\ c_op c <> PDelete) \/
  (In (c_target c, c_path c) M /\ c_op c = PDelete).
Proof.
  intros H. apply in_plan in H as [[d [Hd Hc]]|[tp [Htp Hc]]].
  - left. exists d. apply in_plan_desired in Hc as (H1 & H2 & _ & _ & [[_ Ho]|[o (_ & _ & Ho)]]);
      repeat split; auto; rewrite Ho; discriminate.
  - right. apply in_plan_managed in Hc as (Ht & Hp & Ho & _). rewrite Ht, Hp. destruct tp; auto.
Qed.

Lemma plan_before f D M c : In c (plan f D M) -> c_before c = f (c_path c).
Proof.
  intros H. apply in_plan in H as [[d [Hd Hc]]|[tp [Htp Hc]]].
  - apply in_plan_desired in Hc as (_ & -> & -> & _). reflexivity.
  - apply in_plan_managed in Hc as (_ & -> & _ & _ & -> & _). reflexivity.
Qed.

(* ---------- managed set ---------- *)
Lemma in_root_managed f r tp :
  In tp (root_managed f r) ->
  exists es e, read_manifest f r = Some es /\ In e es /\ safe_rel (fst e) = true /\
               tp = (rtarget r, join_rel (rpath r) (fst e)).
Proof.
  unfold root_managed. destruct (read_manifest f r) as [es|] eqn:E; [|intros []].
  rewrite in_map_iff. intros [e [<- He]]. apply filter_In in He as [He Hs].
  exists es, e. auto.
Qed.

Lemma read_manifest_usable f r es :
  read_manifest f r = Some es ->
  chosen_manifest f r = Some (FMan (Parsed target_manifest_schema_version (rtarget r) es)).
Proof.
  unfold read_manifest. destruct (chosen_manifest f r) as [[c|[|sv tool es']]|]; try discriminate.
  unfold manifest_usable. destruct (sv =? target_manifest_schema_version) eqn:E1; [|discriminate].
  destruct (str_eqb tool (rtarget r)) eqn:E2; [|discriminate]. simpl.
  intros H. inversion H; subst. apply N.eqb_eq in E1. apply str_eqb_eq in E2. subst. reflexivity.
Qed.

Lemma chosen_manifest_spec f r o :
  chosen_manifest f r = Some o ->
  f (mf_path r) = Some o \/ (f (mf_path r) = None /\ f (legacy_path r) = Some o).
Proof. unfold chosen_manifest. destruct (f (mf_path r)); intros H; [left|right]; auto. Qed.

Lemma in_filter_managed flt m tp :
  In tp (filter_managed flt m) <-> In tp m /\ passes flt (fst tp) = true.
Proof. unfold filter_managed. apply filter_In. Qed.

Lemma flat_map_nil_local {A B} (g : A -> list B) l : (forall x, In x l -> g x = []) -> flat_map g l = [].
Proof. induction l as [|x l IH]; simpl; intros H; [reflexivity|]. rewrite H by (left; reflexivity). apply IH. intros y Hy. apply H. right. exact Hy. Qed.

Lemma in_managed_for_plan w roots flt tp :
  In tp (managed_for_plan w roots flt) ->
  passes flt (fst tp) = true /\
  ((exists r, In r roots /\ In tp (root_managed (files w) r)) \/
   (any_usable (files w) roots = false /\
    exists sn, latest_dr (snaps w) = Some sn /\ In tp (snap_managed sn) /\ under_roots roots tp = true)).
Proof.
  unfold managed_for_plan. destruct (any_usable (files w) roots) eqn:E.
  - intros H. apply in_filter_managed in H as [H1 H2]. split; [exact H2|]. left.
    unfold load_managed in H1. apply in_flat_map in H1. exact H1.
  - destruct (latest_dr (snaps w)) as [sn|] eqn:E2; [|intros []].
    intros H. apply in_filter_managed in H as [H1 H2]. apply filter_In in H1 as [H1 H3].
    split; [exact H2|]. right. split; [reflexivity|].
    exists sn. auto.
Qed.

Lemma any_usable_false_load f roots : any_usable f roots = false -> load_managed f roots = [].
Proof.
  unfold any_usable, load_managed. intros H. apply flat_map_nil_local. intros r Hr.
  unfold root_managed. destruct (read_manifest f r) eqn:E; [|reflexivity].
  exfalso. assert (existsb (fun r => match read_manifest f r with Some _ => true | None => false end) roots = true).
  { apply existsb_exists. exists r. rewrite E. auto. }
  congruence.
Qed.

Lemma any_usable_false_none f roots : any_usable f roots = false -> forall r, In r roots -> read_manifest f r = None.
Proof.
  unfold any_usable. intros H r Hr. destruct (read_manifest f r) eqn:E; [|reflexivity].
  exfalso. assert (existsb (fun r => match read_manifest f r with Some _ => true | None => false end) roots = true).
  { apply existsb_exists. exists r. rewrite E. auto. }
  congruence.
Qed.

Lemma load_in_managed_for_plan w roots flt tp :
  In tp (load_managed (files w) roots) -> passes flt (fst tp) = true -> In tp (managed_for_plan w roots flt).
Proof.
  intros Hl Hp. unfold managed_for_plan.
  destruct (any_usable (files w) roots) eqn:E.
  - apply in_filter_managed. auto.
  - rewrite (any_usable_false_load _ _ E) in Hl. contradiction.
Qed.

Lemma latest_dr_in l sn : latest_dr l = Some sn -> In sn l /\ kind_dr (sn_kind sn) = true.
Proof.
  induction l as [|x l IH]; simpl; [discriminate|].
  destruct (latest_dr l) as [y|] eqn:E.
  - intros H. inversion H; subst. destruct (IH eq_refl). auto.
  - destruct (kind_dr (sn_kind x)) eqn:K; [|discriminate]. intros H. inversion H; subst. auto.
Qed.

(* ---------- safe relative paths stay inside the root ---------- *)
Lemma is_prefix_app r p : is_prefix r (r ++ p) = true.
Proof. induction r as [|x r IH]; simpl; [reflexivity|]. rewrite str_eqb_refl. exact IH. Qed.

Lemma lexnorm_acc_nodd acc p :
  existsb (str_eqb dotdot) p = false -> lexnorm_acc acc p = rev acc ++ p.
Proof.
  revert acc. induction p as [|c p IH]; intros acc H.
  - simpl. rewrite app_nil_r. reflexivity.
  - cbn [existsb] in H. apply orb_false_iff in H as [H1 H2].
    rewrite str_eqb_sym in H1. cbn [lexnorm_acc]. rewrite H1. rewrite IH by exact H2.
    cbn [rev]. rewrite <- app_assoc. reflexivity.
Qed.

Lemma existsb_app_false {A} (g : A -> bool) a b :
  existsb g (a ++ b) = false <-> existsb g a = false /\ existsb g b = false.
Proof. rewrite existsb_app. apply orb_false_iff. Qed.

Lemma safe_rel_inside root e :
  existsb (str_eqb dotdot) root = false -> safe_rel e = true ->
  lexnorm (join_rel root e) = join_rel root e /\ is_prefix root (lexnorm (join_rel root e)) = true.
Proof.
  intros Hr Hs. unfold safe_rel in Hs. apply andb_true_iff in Hs as [_ Hs]. apply negb_true_iff in Hs.
  assert (E : lexnorm (join_rel root e) = join_rel root e).
  { unfold lexnorm, join_rel. rewrite lexnorm_acc_nodd; [reflexivity|].
    apply existsb_app_false. auto. }
  split; [exact E|]. rewrite E. apply is_prefix_app.
Qed.

Lemma safe_rel_not_followed e :
  safe_rel e = true -> is_absolute e = false /\ ~ In dotdot (comps e).
Proof.
  unfold safe_rel. intros H. apply andb_true_iff in H as [H1 H2].
  apply negb_true_iff in H1. apply negb_true_iff in H2. split; [exact H1|].
  intros Hin. assert (existsb (str_eqb dotdot) (comps e) = true).
  { apply existsb_exists. exists dotdot. split; [exact Hin|apply str_eqb_refl]. }
  congruence.
Qed.

(* ---------- apply ---------- *)
Lemma apply_changes_fst f pl : fst (apply_changes f pl) = fold_left apply_change pl f.
Proof.
  revert f. induction pl as [|c pl IH]; intros f; simpl; [reflexivity|].
  specialize (IH (apply_change f c)). destruct (apply_changes (apply_change f c) pl). simpl in *. exact IH.
Qed.

Lemma apply_change_other f c p : c_path c <> p -> apply_change f c p = f p.
Proof.
  intros H. unfold apply_change. destruct (c_op c); try destruct (c_after c); auto;
    apply upd_other; congruence.
Qed.

Lemma fold_apply_other pl : forall f p,
  (forall c, In c pl -> c_path c <> p) -> fold_left apply_change pl f p = f p.
Proof.
  induction pl as [|c pl IH]; intros f p H; simpl; [reflexivity|].
  rewrite IH by (intros c' Hc'; apply H; right; exact Hc').
  apply apply_change_other. apply H. left. reflexivity.
Qed.

(* a file can only disappear through a Delete change *)
Lemma fold_apply_removed pl : forall f p,
  f p <> None -> fold_left apply_change pl f p = None ->
  exists c, In c pl /\ c_path c = p /\ c_op c = PDelete.
Proof.
  induction pl as [|c pl IH]; intros f p Hf Hn; simpl in *; [contradiction|].
  destruct (list_eq_dec (list_eq_dec N.eq_dec) (c_path c) p) as [E|E].
  - destruct (c_op c) eqn:Eo.
    + (* create *) destruct (apply_change f c p) eqn:Ea.
      * destruct (IH (apply_change f c) p) as [c' [H1 H2]]; [congruence|exact Hn|]. exists c'. auto.
      * unfold apply_change in Ea. rewrite Eo in Ea. destruct (c_after c); [|contradiction].
        rewrite <- E, upd_same in Ea. discriminate.
    + destruct (apply_change f c p) eqn:Ea.
      * destruct (IH (apply_change f c) p) as [c' [H1 H2]]; [congruence|exact Hn|]. exists c'. auto.
      * unfold apply_change in Ea. rewrite Eo in Ea. destruct (c_after c); [|contradiction].
        rewrite <- E, upd_same in Ea. discriminate.
    + exists c. auto.
  - destruct (IH (apply_change f c) p) as [c' [H1 H2]].
    + rewrite apply_change_other by exact E. exact Hf.
    + exact Hn.
    + exists c'. auto.
Qed.

(* changes at distinct paths: each one is realised *)
Definition after_obj (c : change) : option fobj :=
  match c_op c with PDelete => None | _ => option_map FBytes (c_after c) end.

Lemma fold_apply_realised pl : forall f c,
  NoDup (map c_path pl) -> In c pl -> (c_op c <> PDelete -> c_after c <> None) ->
  fold_left apply_change pl f (c_path c) = after_obj c.
Proof.
  induction pl as [|x pl IH]; intros f c Hnd Hin Hafter; simpl in *; [contradiction|].
  inversion Hnd as [|? ? Hnotin Hnd']; subst.
  destruct Hin as [->|Hin].
  - rewrite fold_apply_other.
    + unfold apply_change, after_obj. destruct (c_op c) eqn:Eo.
      * destruct (c_after c) eqn:Ea; [apply upd_same|]. exfalso. apply Hafter; [discriminate|reflexivity].
      * destruct (c_after c) eqn:Ea; [apply upd_same|]. exfalso. apply Hafter; [discriminate|reflexivity].
      * apply upd_same.
    + intros c' Hc' E. apply Hnotin. rewrite <- E. apply in_map. exact Hc'.
  - apply IH; auto.
Qed.

Lemma write_manifests_other rs : forall i roots D pl f p,
  (forall r, In r rs -> mf_path r <> p) ->
  fst (write_manifests_from i rs roots D pl f) p = f p.
Proof.
  induction rs as [|r rs IH]; intros i roots D pl f p H; simpl; [reflexivity|].
  match goal with |- context [if ?b then _ else _] => destruct b end.
  - specialize (IH (S i) roots D pl (upd f (mf_path r) (Some (new_manifest r (per_root roots D i r)))) p).
    destruct (write_manifests_from (S i) rs roots D pl _) as [f2 l]. simpl in *.
    rewrite IH by (intros r' Hr'; apply H; right; exact Hr').
    apply upd_other. intros E. apply (H r); [left; reflexivity|auto].
  - apply IH. intros r' Hr'. apply H. right. exact Hr'.
Qed.

Lemma apply_plan_files k w roots D pl :
  files (apply_plan k w roots D pl) =
  match k with
  | KDeploy | KBootstrap => fst (write_manifests roots D pl (fold_left apply_change pl (files w)))
  | _ => fold_left apply_change pl (files w)
  end.
Proof.
  unfold apply_plan. rewrite <- apply_changes_fst.
  destruct (apply_changes (files w) pl) as [f1 l1]. simpl.
  destruct k; simpl; try reflexivity; destruct (write_manifests roots D pl f1); reflexivity.
Qed.

(* C04: whatever changes is a planned change or a root manifest *)
Lemma apply_plan_exact k w roots D pl p :
  files (apply_plan k w roots D pl) p <> files w p ->
  (exists c, In c pl /\ c_path c = p) \/ (exists r, In r roots /\ p = mf_path r).
Proof.
  intros H.
  destruct (existsb (fun r => path_eqb (mf_path r) p) roots) eqn:Er.
  { right. apply existsb_exists in Er as [r [Hr E]]. apply path_eqb_eq in E. exists r. auto. }
  destruct (existsb (fun c => path_eqb (c_path c) p) pl) eqn:Ec.
  { left. apply existsb_exists in Ec as [c [Hc E]]. apply path_eqb_eq in E. exists c. auto. }
  exfalso. apply H. rewrite apply_plan_files.
  assert (Hr : forall r, In r roots -> mf_path r <> p).
  { intros r Hr E. assert (existsb (fun r => path_eqb (mf_path r) p) roots = true).
    { apply existsb_exists. exists r. split; [exact Hr|apply path_eqb_eq; exact E]. } congruence. }
  assert (Hc : forall c, In c pl -> c_path c <> p).
  { intros c Hc E. assert (existsb (fun c => path_eqb (c_path c) p) pl = true).
    { apply existsb_exists. exists c. split; [exact Hc|apply path_eqb_eq; exact E]. } congruence. }
  destruct k; try (apply fold_apply_other; exact Hc);
    unfold write_manifests; rewrite write_manifests_other by exact Hr; apply fold_apply_other; exact Hc.
Qed.

(* ---------- deploy ---------- *)
Lemma deploy_apply_in_cases st confirmed adopt w roots D pl out w' :
  deploy_apply_in st confirmed adopt w roots D pl = (out, w') ->
  (out <> OApplied /\ w' = w) \/
  (out = OApplied /\ w' = apply_plan KDeploy w roots D pl /\ confirmed = true /\
   (has_adopt pl = false \/ adopt = true)).
Proof.
  unfold deploy_apply_in.
  destruct (needs_confirm_flag st && negb confirmed) eqn:E1.
  { intros H; inversion H; subst. left. split; [discriminate|reflexivity]. }
  destruct (has_adopt pl && negb adopt) eqn:E2.
  { intros H; inversion H; subst. left. split; [discriminate|reflexivity]. }
  destruct ((match pl with [] => true | _ => false end) && negb (manifests_missing roots D (files w))) eqn:E3.
  { intros H; inversion H; subst. left. split; [discriminate|reflexivity]. }
  destruct confirmed eqn:E4; simpl.
  - intros H; inversion H; subst. right. repeat split; auto.
    apply andb_false_iff in E2 as [E2|E2]; [left; exact E2|right].
    apply negb_false_iff in E2. exact E2.
  - intros H; inversion H; subst. left. split; [discriminate|reflexivity].
Qed.

Lemma has_adopt_false pl c : has_adopt pl = false -> In c pl -> c_op c <> PUpdate UAdopt.
Proof.
  intros H Hc E. assert (has_adopt pl = true).
  { apply existsb_exists. exists c. split; [exact Hc|]. unfold is_adopt. rewrite E. reflexivity. }
  congruence.
Qed.

(* C01: without adopt, a file that exists and is not recorded is never changed *)
Lemma no_change_at_unmanaged f D M p o c :
  has_adopt (plan f D M) = false -> f p = Some o -> (forall t, ~ In (t, p) M) ->
  In c (plan f D M) -> c_path c <> p.
Proof.
  intros Ha Hf Hm Hc Hp. pose proof Hc as Hc0.
  apply in_plan in Hc as [[d [Hd Hc]]|[tp [Htp Hc]]].
  - apply in_plan_desired in Hc as (Ht & Hp' & _ & _ & [[Hnone _]|[o' (Ho' & Hne & Hop)]]).
    + rewrite <- Hp', Hp in Hnone. congruence.
    + destruct (mem_tp (dkey d) M) eqn:Em.
      * apply mem_tp_In in Em. apply (Hm (dtarget d)). unfold dkey in Em. rewrite <- Hp, Hp'. exact Em.
      * eapply has_adopt_false; eauto.
  - apply in_plan_managed in Hc as (Ht & Hp' & _). apply (Hm (fst tp)). rewrite <- Hp, Hp'.
    destruct tp; exact Htp.
Qed.

Lemma apply_plan_untouched k w roots D pl p :
  (forall c, In c pl -> c_path c <> p) -> (forall r, In r roots -> mf_path r <> p) ->
  files (apply_plan k w roots D pl) p = files w p.
Proof.
  intros Hc Hr. rewrite apply_plan_files.
  destruct k; try (apply fold_apply_other; exact Hc);
    unfold write_manifests; rewrite write_manifests_other by exact Hr; apply fold_apply_other; exact Hc.
Qed.

Lemma deploy_no_unmanaged_change st confirmed flt w roots D p o pl out w' :
  deploy_cmd st confirmed false flt w roots D = (pl, (out, w')) ->
  files w p = Some o ->
  (forall t, ~ In (t, p) (managed_for_plan w roots flt)) ->
  (forall r, In r roots -> p <> mf_path r) ->
  files w' p = Some o.
Proof.
  unfold deploy_cmd. intros H Hf Hm Hr. inversion H as [[Hpl Hd]]. clear H.
  apply deploy_apply_in_cases in Hd as [[_ ->]|(_ & -> & _ & [Ha|Ha])]; [exact Hf| |discriminate].
  rewrite Hpl in *. rewrite apply_plan_untouched; [exact Hf| |].
  - intros c Hc. subst pl. eapply no_change_at_unmanaged; eauto.
  - intros r Hr' E. eapply Hr; eauto.
Qed.

(* C01: an unmanaged differing file makes the whole deploy fail before anything is written *)
Lemma has_adopt_iff f D M :
  has_adopt (plan f D M) = true <->
  exists d o, In d D /\ f (dpath d) = Some o /\ o <> FBytes (dcontent d) /\ ~ In (dkey d) M.
Proof.
  unfold has_adopt. rewrite existsb_exists. split.
  - intros [c [Hc Ha]]. unfold is_adopt in Ha. destruct (c_op c) as [|[|]|] eqn:Eo; try discriminate.
    apply in_plan in Hc as [[d [Hd Hc]]|[tp [Htp Hc]]].
    + apply in_plan_desired in Hc as (_ & _ & _ & _ & [[_ Hop]|[o (Ho & Hne & Hop)]]); [congruence|].
      exists d, o. repeat split; auto. destruct (mem_tp (dkey d) M) eqn:Em; [congruence|].
      apply mem_tp_false. exact Em.
    + apply in_plan_managed in Hc as (_ & _ & Hop & _). congruence.
  - intros [d [o (Hd & Ho & Hne & Hm)]].
    exists (Build_change (dtarget d) (PUpdate UAdopt) (dpath d) (Some o) (Some (dcontent d))).
    split; [|reflexivity]. apply in_plan. left. exists d. split; [exact Hd|].
    unfold plan_desired. rewrite Ho. destruct (fobj_eqb o (FBytes (dcontent d))) eqn:Ef.
    + apply fobj_eqb_eq in Ef. contradiction.
    + apply mem_tp_false in Hm. rewrite Hm. left. reflexivity.
Qed.

Lemma deploy_refused_whole st confirmed flt w roots D d o :
  (needs_confirm_flag st = false \/ confirmed = true) ->
  In d D -> files w (dpath d) = Some o -> o <> FBytes (dcontent d) ->
  ~ In (dkey d) (managed_for_plan w roots flt) ->
  snd (deploy_cmd st confirmed false flt w roots D) = (OErr code_adopt_required, w).
Proof.
  intros Hc Hd Ho Hne Hm. unfold deploy_cmd. simpl. unfold deploy_apply_in.
  assert (E1 : needs_confirm_flag st && negb confirmed = false).
  { destruct Hc as [->| ->]; [reflexivity|]. rewrite andb_false_r. reflexivity. }
  rewrite E1.
  assert (E2 : has_adopt (plan (files w) D (managed_for_plan w roots flt)) = true).
  { apply has_adopt_iff. exists d, o. auto. }
  rewrite E2. reflexivity.
Qed.

(* in JSON / explicit style without confirmation nothing is written either *)
Lemma deploy_unconfirmed_no_write st adopt flt w roots D :
  snd (snd (deploy_cmd st false adopt flt w roots D)) = w.
Proof.
  unfold deploy_cmd. cbn [snd]. unfold deploy_apply_in. cbn [negb]. rewrite andb_true_r.
  repeat match goal with |- context [if ?b then _ else _] => destruct b end; reflexivity.
Qed.

(* C01: create-only commands *)
Lemma restore_cons f d D :
  restore_cmd f (d :: D) =
  restore_cmd (match f (dpath d) with None => upd f (dpath d) (Some (FBytes (dcontent d))) | Some _ => f end) D.
Proof. reflexivity. Qed.

Lemma restore_create_only D : forall f p, f p <> None -> restore_cmd f D p = f p.
Proof.
  induction D as [|d D IH]; intros f p H; [reflexivity|]. rewrite restore_cons.
  destruct (f (dpath d)) eqn:E.
  - apply IH. exact H.
  - rewrite IH.
    + apply upd_other. intros ->. congruence.
    + rewrite upd_other; [exact H|]. intros ->. congruence.
Qed.

Lemma restore_writes_missing D : forall f p o, restore_cmd f D p = Some o -> f p = None ->
  exists d, In d D /\ dpath d = p /\ o = FBytes (dcontent d).
Proof.
  induction D as [|d D IH]; intros f p o H Hn; [unfold restore_cmd in H; simpl in H; congruence|].
  rewrite restore_cons in H.
  destruct (f (dpath d)) eqn:E.
  - destruct (IH f p o H Hn) as [d' [H1 H2]]. exists d'. split; [right; exact H1|exact H2].
  - destruct (list_eq_dec (list_eq_dec N.eq_dec) (dpath d) p) as [Ep|Ep].
    + subst p. rewrite (restore_create_only D) in H by (rewrite upd_same; discriminate).
      rewrite upd_same in H. inversion H. exists d. split; [left; reflexivity|auto].
    + destruct (IH _ p o H) as [d' [H1 H2]]; [rewrite upd_other; auto|]. exists d'. split; [right; exact H1|exact H2].
Qed.

Lemma import_fold_other dests : forall f p,
  (forall d, In d dests -> fst d <> p) ->
  fold_left (fun g d => upd g (fst d) (Some (FBytes (snd d)))) dests f p = f p.
Proof.
  induction dests as [|d dests IH]; intros f p H; simpl; [reflexivity|].
  rewrite IH by (intros d' Hd'; apply H; right; exact Hd').
  apply upd_other. intros E. apply (H d); [left; reflexivity|auto].
Qed.

Lemma import_create_only f dests g p :
  import_apply f dests = Some g -> f p <> None -> g p = f p.
Proof.
  unfold import_apply. destruct (existsb (fun d => exists_at f (fst d)) dests) eqn:E; [discriminate|].
  intros H Hp. inversion H; subst. apply import_fold_other. intros d Hd Ed.
  assert (existsb (fun d => exists_at f (fst d)) dests = true).
  { apply existsb_exists. exists d. split; [exact Hd|]. unfold exists_at. rewrite Ed.
    destruct (f p); [reflexivity|contradiction]. }
  congruence.
Qed.

Lemma import_refuses f dests d :
  In d dests -> f (fst d) <> None -> import_apply f dests = None.
Proof.
  intros Hd Hf. unfold import_apply.
  assert (existsb (fun d => exists_at f (fst d)) dests = true) as ->; [|reflexivity].
  apply existsb_exists. exists d. split; [exact Hd|]. unfold exists_at. destruct (f (fst d)); [reflexivity|contradiction].
Qed.

(* ---------- C02 at the level of the command ---------- *)
Lemma deploy_removes_only_recorded st confirmed adopt flt w roots D p pl out w' :
  deploy_cmd st confirmed adopt flt w roots D = (pl, (out, w')) ->
  files w p <> None -> files w' p = None ->
  (forall r, In r roots -> p <> mf_path r) ->
  exists t, In (t, p) (managed_for_plan w roots flt) /\ mem_key (t, p) D = false /\
            In (Build_change t PDelete p (files w p) None) pl.
Proof.
  unfold deploy_cmd. intros H Hf Hn Hr. inversion H as [[Hpl Hd]]. clear H.
  apply deploy_apply_in_cases in Hd as [[_ ->]|(_ & -> & _)]; [contradiction|].
  rewrite Hpl in *. rewrite apply_plan_files in Hn. unfold write_manifests in Hn.
  rewrite write_manifests_other in Hn by (intros r Hr' E; eapply Hr; eauto).
  apply fold_apply_removed in Hn as [c (Hc & Hp & Hop)]; [|exact Hf].
  subst pl. pose proof (plan_delete_sound _ _ _ _ Hc Hop) as (HM & HD & _).
  exists (c_target c). rewrite Hp in *. repeat split; auto.
  pose proof (plan_before _ _ _ _ Hc) as Hb.
  assert (Ha : c_after c = None).
  { pose proof Hc as Hc0. apply in_plan in Hc0 as [[d [Hd Hc']]|[tp [Htp Hc']]].
    - apply in_plan_desired in Hc' as (_ & _ & _ & _ & [[_ Ho]|[o (_ & _ & Ho)]]); congruence.
    - apply in_plan_managed in Hc' as (_ & _ & _ & _ & _ & _ & Ha). exact Ha. }
  destruct c as [ct co cp cb ca]; simpl in *. subst. exact Hc.
Qed.

(* ---------- C04 ---------- *)
Lemma plan_after_ok f D M c : In c (plan f D M) -> c_op c <> PDelete -> c_after c <> None.
Proof.
  intros H Hop. apply in_plan in H as [[d [Hd Hc]]|[tp [Htp Hc]]].
  - apply in_plan_desired in Hc as (_ & _ & _ & -> & _). discriminate.
  - apply in_plan_managed in Hc as (_ & _ & Ho & _). contradiction.
Qed.

Lemma apply_plan_realised k w roots D pl c :
  NoDup (map c_path pl) -> In c pl -> (c_op c <> PDelete -> c_after c <> None) ->
  (forall r, In r roots -> mf_path r <> c_path c) ->
  files (apply_plan k w roots D pl) (c_path c) = after_obj c.
Proof.
  intros Hnd Hc Ha Hr. rewrite apply_plan_files.
  destruct k; try (apply fold_apply_realised; auto);
    unfold write_manifests; rewrite write_manifests_other by exact Hr; apply fold_apply_realised; auto.
Qed.

Lemma plan_targets_pass flt f D M c :
  (forall d, In d D -> passes flt (dtarget d) = true) ->
  In c (plan f D (filter_managed flt M)) -> passes flt (c_target c) = true.
Proof.
  intros HD Hc. apply plan_origin in Hc as [[d (Hd & Ht & _)]|[HM _]].
  - rewrite Ht. apply HD. exact Hd.
  - apply in_filter_managed in HM as [_ HM]. exact HM.
Qed.

Lemma managed_for_plan_pass w roots flt tp :
  In tp (managed_for_plan w roots flt) -> passes flt (fst tp) = true.
Proof. intros H. apply in_managed_for_plan in H as [H _]. exact H. Qed.

(* ---------- every change of a plan lies under a root of its target (C03, deploy side) ---------- *)
Lemma under_roots_spec roots tp :
  under_roots roots tp = true <->
  exists r, In r roots /\ rtarget r = fst tp /\ is_prefix (rpath r) (snd tp) = true.
Proof.
  unfold under_roots. rewrite existsb_exists. split; intros [r [Hr H]]; exists r.
  - apply andb_true_iff in H as [Ht Hp]. apply str_eqb_eq in Ht. auto.
  - destruct H as [Ht Hp]. split; [exact Hr|]. apply andb_true_iff. split; [apply str_eqb_eq; exact Ht|exact Hp].
Qed.

Lemma managed_under_roots w roots flt tp :
  In tp (managed_for_plan w roots flt) -> under_roots roots tp = true.
Proof.
  intros H. apply in_managed_for_plan in H as [_ [[r [Hr Hin]]|[_ [sn [_ [_ Hu]]]]]]; [|exact Hu].
  apply in_root_managed in Hin as [es [e (_ & _ & _ & ->)]].
  apply under_roots_spec. exists r. repeat split; auto. apply is_prefix_app.
Qed.

Lemma plan_under_roots w roots flt D c :
  (forall d, In d D -> under_roots roots (dkey d) = true) ->
  In c (plan (files w) D (managed_for_plan w roots flt)) ->
  under_roots roots (c_target c, c_path c) = true.
Proof.
  intros HD Hc. apply plan_origin in Hc as [[d (Hd & Ht & Hp & _)]|[HM _]].
  - rewrite Ht, Hp. apply (HD d Hd).
  - eapply managed_under_roots. exact HM.
Qed.

Lemma deploy_changes_under_roots st confirmed adopt flt w roots D pl out w' p :
  (forall d, In d D -> under_roots roots (dkey d) = true) ->
  deploy_cmd st confirmed adopt flt w roots D = (pl, (out, w')) ->
  files w' p <> files w p ->
  exists r, In r roots /\ is_prefix (rpath r) p = true.
Proof.
  intros HD H Hne. pose proof H as H0. unfold deploy_cmd in H. inversion H as [[Hpl Hd]]. clear H.
  apply deploy_apply_in_cases in Hd as [[_ ->]|(-> & -> & _)]; [contradiction|].
  rewrite Hpl in *. apply apply_plan_exact in Hne as [[c [Hc Hp]]|[r [Hr Hp]]].
  - subst pl. apply (plan_under_roots _ _ _ _ _ HD) in Hc. apply under_roots_spec in Hc as [r (Hr & _ & Hpre)].
    exists r. simpl in Hpre. rewrite Hp in Hpre. auto.
  - exists r. split; [exact Hr|]. rewrite Hp. unfold mf_path. apply is_prefix_app.
Qed.
