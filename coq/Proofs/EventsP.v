(* Proofs/EventsP.v — lemmas about Model/Events.v *)
From AP Require Import Base.Str Base.StrFacts Base.Sorting Model.Events.
From Coq Require Import Lia QArith Sorting.Sorted Sorting.Permutation.
Open Scope N_scope.

(* ---------- counters ---------- *)

Definition is_io c := match c with LIo => true | _ => false end.
Definition is_empty_c c := match c with LEmpty => true | _ => false end.
Definition is_mal c := match c with LMalformed => true | _ => false end.
Definition is_unsup c := match c with LUnsupported => true | _ => false end.
Definition is_ok c := match c with LOk _ => true | _ => false end.

Definition cnt (f : line_class -> bool) (cs : list line_class) : N := N.of_nat (length (filter f cs)).

Lemma cnt_cons f c cs : cnt f (c :: cs) = (if f c then 1 else 0) + cnt f cs.
Proof. unfold cnt. simpl. destruct (f c); simpl length; lia. Qed.

Lemma fold_stats cs : forall st,
  let st' := fold_left step_stats cs st in
  lines_total st' = lines_total st + N.of_nat (length cs) /\
  lines_empty st' = lines_empty st + cnt is_empty_c cs /\
  records_ok st' = records_ok st + cnt is_ok cs /\
  skipped_io st' = skipped_io st + cnt is_io cs /\
  skipped_malformed st' = skipped_malformed st + cnt is_mal cs /\
  skipped_unsupported st' = skipped_unsupported st + cnt is_unsup cs /\
  skipped_total st' = skipped_total st + cnt is_io cs + cnt is_mal cs + cnt is_unsup cs.
Proof.
  induction cs as [|c cs IH]; intros st; cbn [fold_left].
  - cbv zeta. unfold cnt. cbn [filter length N.of_nat]. repeat split; lia.
  - specialize (IH (step_stats st c)). cbv zeta in IH |- *.
    destruct IH as (H1 & H2 & H3 & H4 & H5 & H6 & H7).
    rewrite H1, H2, H3, H4, H5, H6, H7. rewrite !cnt_cons.
    replace (N.of_nat (length (c :: cs))) with (1 + N.of_nat (length cs)) by (simpl length; lia).
    destruct c; cbn [step_stats lines_total lines_empty records_ok skipped_total skipped_io
                     skipped_malformed skipped_unsupported is_io is_empty_c is_mal is_unsup is_ok];
      repeat split; lia.
Qed.

Lemma classes_partition cs :
  N.of_nat (length cs) = cnt is_empty_c cs + cnt is_ok cs + cnt is_io cs + cnt is_mal cs + cnt is_unsup cs.
Proof.
  induction cs as [|c cs IH]; [reflexivity|]. rewrite !cnt_cons.
  replace (N.of_nat (length (c :: cs))) with (1 + N.of_nat (length cs)) by (simpl length; lia).
  destruct c; cbn [is_io is_empty_c is_mal is_unsup is_ok]; lia.
Qed.

Lemma events_of_length ls : N.of_nat (length (events_of ls)) = cnt is_ok (map classify ls).
Proof.
  unfold events_of. induction ls as [|l ls IH]; [reflexivity|].
  cbn [flat_map map]. rewrite cnt_cons, app_length, Nat2N.inj_add, IH.
  destruct (classify l); reflexivity.
Qed.

Theorem counters_identity ls :
  let st := read_stats ls in
  lines_total st = N.of_nat (length ls) /\
  lines_total st = lines_empty st + records_ok st + skipped_total st /\
  skipped_total st = skipped_io st + skipped_malformed st + skipped_unsupported st /\
  records_ok st = N.of_nat (length (events_of ls)).
Proof.
  cbv zeta. unfold read_stats.
  destruct (fold_stats (map classify ls) stats0) as (H1 & H2 & H3 & H4 & H5 & H6 & H7).
  cbv zeta in *. cbn [stats0 lines_total lines_empty records_ok skipped_io skipped_malformed
                      skipped_unsupported skipped_total] in *.
  rewrite map_length in H1. pose proof (classes_partition (map classify ls)) as HP.
  rewrite map_length in HP. rewrite events_of_length. repeat split; lia.
Qed.

(* ---------- cmp_rate ---------- *)

Definition cmp_rate_ideal (a_fail a_total b_fail b_total : N) : comparison :=
  match a_total =? 0, b_total =? 0 with
  | true, true => Eq
  | true, false => Gt
  | false, true => Lt
  | false, false => (b_fail * a_total) ?= (a_fail * b_total)
  end.

Lemma two64_pos : 0 < two64. Proof. reflexivity. Qed.

Lemma mul_lt_two128 a b : a < two64 -> b < two64 -> a * b < two128.
Proof. intros Ha Hb. unfold two128. apply N.mul_lt_mono; assumption. Qed.

Theorem cmp_rate_no_overflow af at_ bf bt :
  af < two64 -> at_ < two64 -> bf < two64 -> bt < two64 ->
  cmp_rate af at_ bf bt = cmp_rate_ideal af at_ bf bt.
Proof.
  intros H1 H2 H3 H4. unfold cmp_rate, cmp_rate_ideal.
  destruct (at_ =? 0), (bt =? 0); try reflexivity.
  rewrite !N.mod_small by (apply mul_lt_two128; assumption). reflexivity.
Qed.

(* exact rational order: a sorts before b iff rate(b) < rate(a), i.e. descending failure ratio *)
Definition npos (t : N) : positive := match t with N0 => 1%positive | Npos p => p end.
Definition rateQ (f t : N) : Q := Z.of_N f # npos t.

Theorem cmp_rate_ideal_exact af at_ bf bt :
  at_ <> 0 -> bt <> 0 ->
  cmp_rate_ideal af at_ bf bt = Qcompare (rateQ bf bt) (rateQ af at_).
Proof.
  intros Ha Hb. unfold cmp_rate_ideal.
  destruct (N.eqb_spec at_ 0) as [->|_]; [contradiction|].
  destruct (N.eqb_spec bt 0) as [->|_]; [contradiction|].
  unfold Qcompare, rateQ. cbn [Qnum Qden].
  assert (Hpa : Z.pos (npos at_) = Z.of_N at_) by (destruct at_; [contradiction|reflexivity]).
  assert (Hpb : Z.pos (npos bt) = Z.of_N bt) by (destruct bt; [contradiction|reflexivity]).
  rewrite Hpa, Hpb, <- !N2Z.inj_mul, N2Z.inj_compare. reflexivity.
Qed.

Lemma cmp_rate_ideal_antisym af at_ bf bt :
  cmp_rate_ideal bf bt af at_ = CompOpp (cmp_rate_ideal af at_ bf bt).
Proof.
  unfold cmp_rate_ideal. destruct (at_ =? 0), (bt =? 0); try reflexivity.
  apply N.compare_antisym.
Qed.

Definition rate_le af at_ bf bt : Prop := cmp_rate_ideal af at_ bf bt <> Gt.

Lemma rate_le_trans af at_ bf bt cf ct :
  rate_le af at_ bf bt -> rate_le bf bt cf ct -> rate_le af at_ cf ct.
Proof.
  unfold rate_le, cmp_rate_ideal.
  destruct (N.eqb_spec at_ 0) as [Ha|Ha], (N.eqb_spec bt 0) as [Hb|Hb], (N.eqb_spec ct 0) as [Hc|Hc];
    try congruence.
  intros H1 H2. rewrite N.compare_le_iff in *.
  (* bf*at <= af*bt, cf*bt <= bf*ct  |-  cf*at <= af*ct *)
  apply (N.mul_le_mono_pos_r _ _ bt); [lia|].
  apply N.le_trans with (bf * ct * at_).
  - replace (cf * at_ * bt) with (cf * bt * at_) by lia. apply N.mul_le_mono_r. exact H2.
  - replace (bf * ct * at_) with (bf * at_ * ct) by lia.
    replace (af * ct * bt) with (af * bt * ct) by lia. apply N.mul_le_mono_r. exact H1.
Qed.

Lemma cmp_rate_ideal_eq_trans af at_ bf bt cf ct :
  cmp_rate_ideal af at_ bf bt = Eq -> cmp_rate_ideal bf bt cf ct = Eq ->
  cmp_rate_ideal af at_ cf ct = Eq.
Proof.
  intros H1 H2.
  assert (L1 : rate_le af at_ cf ct) by (eapply rate_le_trans; unfold rate_le; [rewrite H1|rewrite H2]; discriminate).
  assert (L2 : rate_le cf ct af at_).
  { eapply rate_le_trans; unfold rate_le.
    - rewrite cmp_rate_ideal_antisym, H2. discriminate.
    - rewrite cmp_rate_ideal_antisym, H1. discriminate. }
  unfold rate_le in *. rewrite cmp_rate_ideal_antisym in L2.
  destruct (cmp_rate_ideal af at_ cf ct); simpl in *; congruence.
Qed.

(* ---------- ranking ---------- *)

Definition score_cmp_ideal (a b : score) : comparison :=
  match cmp_rate_ideal (sc_fail a) (sc_total a) (sc_fail b) (sc_total b) with
  | Eq => str_compare (sc_id a) (sc_id b)
  | c => c
  end.
Definition score_leb_ideal (a b : score) : bool :=
  match score_cmp_ideal a b with Gt => false | _ => true end.

Definition bounded (sc : score) : Prop := sc_fail sc < two64 /\ sc_total sc < two64.

Lemma score_leb_bounded a b : bounded a -> bounded b -> score_leb a b = score_leb_ideal a b.
Proof.
  intros [? ?] [? ?]. unfold score_leb, score_leb_ideal, score_cmp, score_cmp_ideal.
  rewrite cmp_rate_no_overflow by assumption. reflexivity.
Qed.

Lemma score_cmp_ideal_antisym a b : score_cmp_ideal b a = CompOpp (score_cmp_ideal a b).
Proof.
  unfold score_cmp_ideal. rewrite cmp_rate_ideal_antisym.
  destruct (cmp_rate_ideal (sc_fail a) (sc_total a) (sc_fail b) (sc_total b)); simpl; try reflexivity.
  apply str_compare_antisym.
Qed.

Lemma score_leb_ideal_total a b : score_leb_ideal a b = true \/ score_leb_ideal b a = true.
Proof.
  unfold score_leb_ideal. rewrite (score_cmp_ideal_antisym a b).
  destruct (score_cmp_ideal a b); simpl; auto.
Qed.

Lemma str_compare_le_trans a b c :
  str_compare a b <> Gt -> str_compare b c <> Gt -> str_compare a c <> Gt.
Proof.
  intros H1 H2.
  destruct (str_compare a b) eqn:E1; try congruence.
  - apply str_compare_eq in E1. subst. exact H2.
  - destruct (str_compare b c) eqn:E2; try congruence.
    + apply str_compare_eq in E2. subst. rewrite E1. discriminate.
    + rewrite (str_compare_trans_lt _ _ _ E1 E2). discriminate.
Qed.

Lemma score_leb_ideal_trans a b c :
  score_leb_ideal a b = true -> score_leb_ideal b c = true -> score_leb_ideal a c = true.
Proof.
  unfold score_leb_ideal, score_cmp_ideal. intros H1 H2.
  set (ab := cmp_rate_ideal (sc_fail a) (sc_total a) (sc_fail b) (sc_total b)) in *.
  set (bc := cmp_rate_ideal (sc_fail b) (sc_total b) (sc_fail c) (sc_total c)) in *.
  assert (Lab : ab <> Gt) by (destruct ab; congruence).
  assert (Lbc : bc <> Gt) by (destruct bc; congruence).
  pose proof (rate_le_trans _ _ _ _ _ _ Lab Lbc) as Lac. unfold rate_le in Lac.
  destruct (cmp_rate_ideal (sc_fail a) (sc_total a) (sc_fail c) (sc_total c)) eqn:Eac;
    try reflexivity; try congruence.
  (* rates a,c equal: then a=b=c in rate, compare ids *)
  assert (Eab : ab = Eq).
  { destruct ab eqn:E; try reflexivity; try congruence. exfalso.
    (* ab = Lt and a ~ c: then c <= b (since a<=... ) contradiction with b <= c, b > a *)
    assert (Lcb : rate_le (sc_fail c) (sc_total c) (sc_fail b) (sc_total b)).
    { eapply rate_le_trans with (bf := sc_fail a) (bt := sc_total a); unfold rate_le.
      - rewrite cmp_rate_ideal_antisym, Eac. discriminate.
      - fold ab. rewrite E. discriminate. }
    assert (Lba : rate_le (sc_fail b) (sc_total b) (sc_fail a) (sc_total a)).
    { eapply rate_le_trans with (bf := sc_fail c) (bt := sc_total c); unfold rate_le.
      - fold bc. exact Lbc.
      - rewrite cmp_rate_ideal_antisym, Eac. discriminate. }
    unfold rate_le in Lba. rewrite cmp_rate_ideal_antisym in Lba. fold ab in Lba. rewrite E in Lba.
    simpl in Lba. congruence. }
  assert (Ebc : bc = Eq).
  { unfold bc. eapply cmp_rate_ideal_eq_trans; [|exact Eac].
    rewrite cmp_rate_ideal_antisym. fold ab. rewrite Eab. reflexivity. }
  rewrite Eab in H1. rewrite Ebc in H2.
  assert (str_compare (sc_id a) (sc_id c) <> Gt).
  { eapply str_compare_le_trans with (b := sc_id b).
    - destruct (str_compare (sc_id a) (sc_id b)); congruence.
    - destruct (str_compare (sc_id b) (sc_id c)); congruence. }
  destruct (str_compare (sc_id a) (sc_id c)); congruence.
Qed.

Theorem rank_perm l : Permutation l (rank l).
Proof. apply isort_perm. Qed.

Theorem rank_sorted l :
  Forall bounded l -> StronglySorted (fun a b => score_leb_ideal a b = true) (rank l).
Proof.
  intros Hb. unfold rank. rewrite (isort_ext score_leb score_leb_ideal).
  - apply isort_sorted; [apply score_leb_ideal_total|apply score_leb_ideal_trans].
  - rewrite Forall_forall in Hb. intros x y Hx Hy. apply score_leb_bounded; auto.
Qed.

(* with distinct ids, the ranking is the unique list ordered by (rate desc, id asc) *)
Theorem rank_unique l l' :
  Forall bounded l -> NoDup (map sc_id l) ->
  Permutation l l' -> StronglySorted (fun a b => score_leb_ideal a b = true) l' ->
  rank l = l'.
Proof.
  intros Hb Hnd Hp Hs. unfold rank. rewrite (isort_ext score_leb score_leb_ideal).
  - apply isort_unique; try assumption;
      [apply score_leb_ideal_total|apply score_leb_ideal_trans|].
    intros x y Hx Hy H1 H2. unfold score_leb_ideal in *.
    rewrite (score_cmp_ideal_antisym x y) in H2.
    destruct (score_cmp_ideal x y) eqn:E; simpl in *; try discriminate.
    unfold score_cmp_ideal in E.
    destruct (cmp_rate_ideal (sc_fail x) (sc_total x) (sc_fail y) (sc_total y)); try discriminate.
    apply str_compare_eq in E.
    (* same id in a NoDup-by-id list: same element *)
    clear - Hx Hy E Hnd. induction l as [|z l IH]; [contradiction|].
    simpl in Hnd. inversion Hnd as [|? ? Hnotin Hnd']; subst.
    destruct Hx as [->|Hx], Hy as [->|Hy]; try reflexivity.
    + exfalso. apply Hnotin. rewrite E. apply in_map, Hy.
    + exfalso. apply Hnotin. rewrite <- E. apply in_map, Hx.
    + apply IH; assumption.
  - rewrite Forall_forall in Hb. intros x y Hx Hy. apply score_leb_bounded; auto.
Qed.

(* ---------- tally ---------- *)

Definition count_evts (m : str) (f : parsed -> bool) (evts : list parsed) : N :=
  N.of_nat (length (filter (fun p => match evt_module p with
                                     | Some m' => str_eqb m' m && f p
                                     | None => false end) evts)).

Fixpoint lookup (m : str) (l : list score) : option score :=
  match l with
  | [] => None
  | sc :: r => if str_eqb (sc_id sc) m then Some sc else lookup m r
  end.

Definition tot (o : option score) : N := match o with Some sc => sc_total sc | None => 0 end.
Definition fai (o : option score) : N := match o with Some sc => sc_fail sc | None => 0 end.

Lemma lookup_tally_add m ok at_ l k :
  lookup k (tally_add m ok at_ l) =
  if str_eqb m k then
    Some (Build_score m (tot (lookup m l) + 1)
            (if ok then fai (lookup m l) else fai (lookup m l) + 1)
            (match lookup m l with
             | None => Some at_
             | Some sc => match sc_last sc with
                          | None => Some at_
                          | Some prev => if str_ltb prev at_ then Some at_ else Some prev
                          end
             end))
  else lookup k l.
Proof.
  induction l as [|sc r IH]; cbn [tally_add lookup].
  - cbn [sc_id]. destruct (str_eqb m k); reflexivity.
  - destruct (str_eqb (sc_id sc) m) eqn:E.
    + apply str_eqb_eq in E. cbn [lookup sc_id]. rewrite <- E.
      destruct (str_eqb (sc_id sc) k) eqn:Ek; cbn [tot fai]; [|reflexivity].
      f_equal.
    + cbn [lookup]. destruct (str_eqb (sc_id sc) k) eqn:Ek.
      * apply str_eqb_eq in Ek. subst k. rewrite str_eqb_sym, E. reflexivity.
      * exact IH.
Qed.

Lemma tally_ids_nodup_add m ok at_ l :
  NoDup (map sc_id l) -> NoDup (map sc_id (tally_add m ok at_ l)).
Proof.
  induction l as [|sc r IH]; intros Hnd; cbn [tally_add map].
  - cbn. constructor; [intros []|constructor].
  - inversion Hnd as [|? ? Hni Hnd']; subst. destruct (str_eqb (sc_id sc) m) eqn:E.
    + apply str_eqb_eq in E. cbn [map sc_id]. rewrite <- E. constructor; assumption.
    + cbn [map]. constructor; [|apply IH, Hnd'].
      intros Hin. apply Hni. clear - Hin E.
      induction r as [|s r IH]; cbn [tally_add map] in *.
      * destruct Hin as [H|[]]. cbn in H. subst. rewrite str_eqb_refl in E. discriminate.
      * destruct (str_eqb (sc_id s) m) eqn:E2; cbn [map sc_id] in *.
        -- apply str_eqb_eq in E2. destruct Hin as [H|H]; [left; congruence|right; exact H].
        -- destruct Hin as [H|H]; [left; exact H|right; apply IH, H].
Qed.

Theorem tally_counts evts : forall l k,
  let l' := fold_left tally_step evts l in
  tot (lookup k l') = tot (lookup k l) + count_evts k (fun _ => true) evts /\
  fai (lookup k l') = fai (lookup k l) + count_evts k (fun p => negb (evt_success p)) evts.
Proof.
  induction evts as [|p evts IH]; intros l k; cbn [fold_left].
  - unfold count_evts. simpl. split; lia.
  - cbv zeta. destruct (IH (tally_step l p) k) as [H1 H2]. cbv zeta in H1, H2. rewrite H1, H2.
    unfold count_evts. cbn [filter]. unfold tally_step.
    destruct (evt_module p) as [m|] eqn:Em; [|split; reflexivity].
    rewrite lookup_tally_add. destruct (str_eqb m k) eqn:E.
    + apply str_eqb_eq in E. subst m. cbn [tot fai sc_total sc_fail andb].
      destruct (evt_success p); cbn [negb length]; split; lia.
    + cbn [andb]. split; reflexivity.
Qed.

(* ---------- writers ---------- *)

Lemma run_schedule_perm sched : forall queues log,
  let '(q', log') := run_schedule queues sched log in
  Permutation (log ++ concat queues) (log' ++ concat q').
Proof.
  induction sched as [|i rest IH]; intros queues log; cbn [run_schedule]; [apply Permutation_refl|].
  destruct (nth_error queues i) as [[|l q]|] eqn:E; try apply IH.
  specialize (IH (firstn i queues ++ q :: skipn (S i) queues) (log ++ [l])).
  destruct (run_schedule (firstn i queues ++ q :: skipn (S i) queues) rest (log ++ [l])) as [q' log'].
  eapply Permutation_trans; [|exact IH].
  assert (Hsplit : queues = firstn i queues ++ (l :: q) :: skipn (S i) queues).
  { clear - E. revert queues E. induction i as [|i IHi]; intros [|x qs] E; simpl in *; try discriminate.
    - inversion E; reflexivity.
    - f_equal. apply IHi, E. }
  rewrite Hsplit at 1. rewrite !concat_app. cbn [concat]. rewrite <- !app_assoc. cbn [app].
  apply Permutation_app_head.
  apply Permutation_sym. apply Permutation_middle.
Qed.

(* every writer's lines appear in the log in the writer's own order: the log restricted to ... is
   stated via the remaining-queue invariant: log' ++ (what is left) is always a permutation, and a
   schedule that drains all queues yields exactly a permutation of all lines. *)
Theorem interleave_complete queues sched log' q' :
  run_schedule queues sched [] = (q', log') -> concat q' = [] ->
  Permutation (concat queues) log'.
Proof.
  intros H Hdr. pose proof (run_schedule_perm sched queues []) as P. rewrite H in P.
  rewrite Hdr, app_nil_r in P. exact P.
Qed.
