(* Proofs/HeadP.v — what the snapshot records say after a rollback: the replayed head is the chosen snapshot, and
   the latest deployment record (the one the manifest-less fallback consults) is the rollback's own record, which
   lists exactly what the chosen snapshot lists.  (Rollback records carry no data directory and no backup root:
   code that ranks or filters records by those would lose them — and with them the head.) *)
From AP Require Import Base.Str Base.StrFacts Base.Sorting Gen.Tables Model.Deploy Proofs.DeployP Proofs.ConvergeP.
From Coq Require Import Lia Arith.
Open Scope N_scope.

Lemma head_from_last_rollback l : forall i h x t, sn_kind x = KRollback -> sn_to x = Some t ->
  head_from i (l ++ [x]) h = Some t.
Proof.
  induction l as [|y l IH]; intros i h x t Hk Ht; cbn [app head_from].
  - rewrite Hk, Ht. reflexivity.
  - apply IH; assumption.
Qed.

Theorem rollback_records w id w' :
  rollback w id = (RbOk, w') ->
  exists tgt rec,
    nth_error (snaps w) id = Some tgt /\ sn_kind tgt <> KRollback /\
    snaps w' = snaps w ++ [rec] /\ sn_kind rec = KRollback /\ sn_to rec = Some id /\ sn_managed rec = sn_managed tgt /\
    head_of (snaps w') = Some id /\ latest_dr (snaps w') = Some rec.
Proof.
  unfold rollback. destruct (nth_error (snaps w) id) as [tgt|] eqn:E1; [|discriminate].
  destruct (sn_kind tgt) eqn:Ek; try discriminate;
  (destruct (head_of (snaps w)) as [h|]; [|discriminate];
   destruct (nth_error (snaps w) h) as [cur|]; [|discriminate];
   destruct (sn_state tgt); [|discriminate];
   intros H; inversion H; subst w'; clear H; cbn [snaps];
   eexists tgt, _; split; [reflexivity|]; split; [congruence|]; split; [reflexivity|];
   split; [reflexivity|]; split; [reflexivity|]; split; [reflexivity|]; split;
   [unfold head_of; apply head_from_last_rollback; reflexivity | apply latest_dr_app_last; reflexivity]).
Qed.

(* two rollbacks in a row: the second one deletes relative to the FIRST one's target (not to the newest deploy) *)
Theorem rollback_after_rollback w a w1 b w2 :
  rollback w a = (RbOk, w1) -> rollback w1 b = (RbOk, w2) ->
  exists ta tb, nth_error (snaps w) a = Some ta /\ nth_error (snaps w1) b = Some tb /\
    files w2 = delete_unlisted (restore_manifests (restore_managed (files w1) (sn_managed tb)) (sn_changes tb))
                               (sn_managed ta) (sn_managed tb).
Proof.
  intros H1 H2. destruct (rollback_records _ _ _ H1) as (ta & rec & Ea & _ & Es & _ & _ & _ & Hh & _).
  exists ta. unfold rollback in H2. destruct (nth_error (snaps w1) b) as [tb|] eqn:Eb; [|discriminate].
  exists tb. split; [exact Ea|]. split; [reflexivity|].
  rewrite Hh in H2.
  assert (Ea1 : nth_error (snaps w1) a = Some ta).
  { rewrite Es. rewrite nth_error_app1; [exact Ea|]. apply nth_error_Some. congruence. }
  rewrite Ea1 in H2.
  destruct (sn_kind tb); try discriminate; (destruct (sn_state tb); [|discriminate]; inversion H2; reflexivity).
Qed.
