(* Proofs/NotExtraP.v — C15 ("status does not list it as extra"): a file that is recorded by the
   root it is reported under, and that is still desired, is never reported as extra. *)
From AP Require Import Base.Str Base.StrFacts Gen.Tables Model.Deploy Model.Status Proofs.DeployP Proofs.StatusP.
Open Scope N_scope.

Lemma compare_desired_not_extra f rt d it : In it (compare_desired f rt d) -> i_kind it <> DExtra.
Proof.
  intros H. apply compare_desired_spec in H.
  destruct H as (_ & _ & _ & _ & [[o (_ & _ & Hk & _)]|(_ & Hk & _)]); rewrite Hk; discriminate.
Qed.

Lemma recorded_desired_not_extra f U roots D it tp d :
  In it (report f U roots D) ->
  i_target it = fst tp -> i_path it = snd tp -> find_desired D tp = Some d ->
  (forall r, In r roots -> i_root it = Some (rpath r) -> rtarget r = fst tp -> In tp (root_managed f r)) ->
  i_kind it <> DExtra.
Proof.
  intros Hin Ht Hp Hd Hm. apply report_sound_complete in Hin.
  destruct Hin as [[_ (i & r & Hnth & Hs)]|[_ (d' & _ & Hc)]];
    [|eapply compare_desired_not_extra; exact Hc].
  destruct Hs as [(_ & tp' & Hman & Ht' & Hp' & _ & Hcases)
                 |[(_ & _ & _ & Htr & Hroot & _ & _ & _ & Hnm & _)
                  |(_ & d' & _ & _ & Hc)]].
  - assert (E : tp' = tp).
    { destruct tp' as [a b], tp as [a' b']; simpl in *. congruence. }
    subst tp'.
    destruct Hcases as [(d1 & o & _ & _ & _ & Hk & _)|[(d1 & _ & _ & Hk & _)|(o & Hnd & _)]];
      try (rewrite Hk; discriminate).
    unfold not_desired in Hnd. rewrite Hd in Hnd. discriminate.
  - intros _. apply Hnm. unfold managed_by.
    assert (E : (rtarget r, i_path it) = tp).
    { destruct tp as [a b]; simpl in *. congruence. }
    rewrite E. apply Hm; [eapply nth_error_In; exact Hnth|exact Hroot|congruence].
  - eapply compare_desired_not_extra; exact Hc.
Qed.
