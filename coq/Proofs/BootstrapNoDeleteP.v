(* Proofs/BootstrapNoDeleteP.v — C02: bootstrap plans with an empty managed set, so it never plans a
   delete: every change is a create or an update of a desired path. *)
From AP Require Import Base.Str Gen.Tables Model.Deploy Proofs.DeployP.
Open Scope N_scope.

Lemma bootstrap_plan_is w roots D : fst (bootstrap_cmd w roots D) = plan (files w) D [].
Proof. unfold bootstrap_cmd. destruct (plan (files w) D []); reflexivity. Qed.

Lemma bootstrap_no_delete w roots D c :
  In c (fst (bootstrap_cmd w roots D)) ->
  c_op c <> PDelete /\ exists d, In d D /\ c_path c = dpath d /\ c_after c = Some (dcontent d).
Proof.
  rewrite bootstrap_plan_is. intros H. apply in_plan in H as [[d [Hd Hc]]|[tp [[] _]]].
  apply in_plan_desired in Hc as (_ & Hp & _ & Ha & Hop). split.
  - destruct Hop as [[_ ->]|(o & _ & _ & ->)]; discriminate.
  - exists d. auto.
Qed.
