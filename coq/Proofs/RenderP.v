(* Proofs/RenderP.v — lemmas about Model/Render.v (C12): string order, the module-id set union,
   insert_desired_file / run invariants (conflict iff, merge), select_modules under permutation. *)
From AP Require Import Base.Str Base.StrFacts Base.PathR Base.PathRFacts Base.Sorting Gen.Tables Model.Render.
From Coq Require Import Lia Sorting.Sorted Sorting.Permutation.
Open Scope N_scope.

(* ---------- byte order on strings ---------- *)

Lemma str_leb_total a b : str_leb a b = true \/ str_leb b a = true.
Proof.
  unfold str_leb. rewrite (str_compare_antisym a b). destruct (str_compare a b); simpl; auto.
Qed.

Lemma str_leb_trans a b c : str_leb a b = true -> str_leb b c = true -> str_leb a c = true.
Proof.
  unfold str_leb. intros H1 H2.
  destruct (str_compare a b) eqn:E1; try discriminate.
  - apply str_compare_eq in E1. subst b. exact H2.
  - destruct (str_compare b c) eqn:E2; try discriminate.
    + apply str_compare_eq in E2. subst c. rewrite E1. reflexivity.
    + rewrite (str_compare_trans_lt _ _ _ E1 E2). reflexivity.
Qed.

Lemma str_leb_antisym a b : str_leb a b = true -> str_leb b a = true -> a = b.
Proof.
  unfold str_leb. rewrite (str_compare_antisym a b). intros H1 H2.
  destruct (str_compare a b) eqn:E; simpl in *; try discriminate.
  apply str_compare_eq in E. exact E.
Qed.

Lemma str_leb_lt a b : str_leb a b = true -> a <> b -> str_compare a b = Lt.
Proof.
  unfold str_leb. intros H Hne. destruct (str_compare a b) eqn:E; try discriminate; [|reflexivity].
  apply str_compare_eq in E. contradiction.
Qed.

Lemma str_lt_leb a b : str_compare a b = Lt -> str_leb a b = true.
Proof. unfold str_leb. intros ->. reflexivity. Qed.

Lemma str_lt_irrefl a : str_compare a a <> Lt.
Proof. rewrite str_compare_refl. discriminate. Qed.

(* ---------- keys ---------- *)

Lemma key_eqb_eq (a b : key) : key_eqb a b = true <-> a = b.
Proof.
  destruct a as [t1 p1], b as [t2 p2]. unfold key_eqb. simpl. split; intros H.
  - apply andb_true_iff in H as [H1 H2]. apply str_eqb_eq in H1. apply comps_eqb_eq in H2. congruence.
  - inversion H; subst. rewrite str_eqb_refl, comps_eqb_refl. reflexivity.
Qed.

Lemma key_eqb_refl k : key_eqb k k = true.
Proof. apply key_eqb_eq. reflexivity. Qed.

Lemma key_eqb_neq (a b : key) : key_eqb a b = false <-> a <> b.
Proof.
  split; intros H.
  - intros ->. rewrite key_eqb_refl in H. discriminate.
  - destruct (key_eqb a b) eqn:E; [apply key_eqb_eq in E; contradiction|reflexivity].
Qed.

Lemma bytes_eqb_eq a : forall b, bytes_eqb a b = true <-> a = b.
Proof.
  induction a as [|x a IH]; intros [|y b]; simpl; split; intros H; try reflexivity; try discriminate.
  - apply andb_true_iff in H as [H1 H2]. apply N.eqb_eq in H1. apply IH in H2. congruence.
  - inversion H; subst. rewrite N.eqb_refl. apply IH. reflexivity.
Qed.

Lemma bytes_eqb_neq a b : bytes_eqb a b = false <-> a <> b.
Proof.
  split; intros H.
  - intros ->. assert (E : bytes_eqb b b = true) by (apply bytes_eqb_eq; reflexivity). congruence.
  - destruct (bytes_eqb a b) eqn:E; [apply bytes_eqb_eq in E; contradiction|reflexivity].
Qed.

(* ---------- the sorted id set ---------- *)

Definition slt (x y : str) : Prop := str_compare x y = Lt.
Definition ssorted (l : list str) : Prop := StronglySorted slt l.

Lemma dedup_adj_cons2 a b r :
  dedup_adj (a :: b :: r) = if str_eqb a b then dedup_adj (b :: r) else a :: dedup_adj (b :: r).
Proof. reflexivity. Qed.

Lemma dedup_adj_in x l : In x (dedup_adj l) <-> In x l.
Proof.
  induction l as [|a r IH]; [simpl; tauto|].
  destruct r as [|b r'].
  - simpl. tauto.
  - rewrite dedup_adj_cons2. destruct (str_eqb a b) eqn:E.
    + apply str_eqb_eq in E. subst b. rewrite IH. simpl. tauto.
    + change (In x (a :: dedup_adj (b :: r'))) with (a = x \/ In x (dedup_adj (b :: r'))). rewrite IH. simpl. tauto.
Qed.

Lemma dedup_adj_sorted l : StronglySorted (le str_leb) l -> ssorted (dedup_adj l).
Proof.
  induction l as [|a r IH]; intros Hs; [constructor|].
  inversion Hs as [|? ? Hr Hall]; subst.
  destruct r as [|b r'].
  - simpl. constructor; constructor.
  - rewrite dedup_adj_cons2. destruct (str_eqb a b) eqn:E.
    + apply IH. exact Hr.
    + constructor; [apply IH; exact Hr|].
      apply Forall_forall. intros y Hy. rewrite dedup_adj_in in Hy.
      rewrite Forall_forall in Hall. unfold slt. apply str_leb_lt; [apply Hall; exact Hy|].
      intros ->. apply str_eqb_neq in E. apply E.
      inversion Hr as [|? ? _ Hb]; subst. rewrite Forall_forall in Hb.
      destruct Hy as [ -> |Hy]; [reflexivity|].
      apply str_leb_antisym; [apply Hall; left; reflexivity|apply Hb; exact Hy].
Qed.

Lemma set_union_in x a b : In x (set_union a b) <-> In x a \/ In x b.
Proof.
  unfold set_union. rewrite dedup_adj_in.
  split; intros H.
  - apply in_app_or. eapply Permutation_in; [apply Permutation_sym, isort_perm|exact H].
  - eapply Permutation_in; [apply isort_perm|]. apply in_or_app. exact H.
Qed.

Lemma set_union_sorted a b : ssorted (set_union a b).
Proof.
  unfold set_union. apply dedup_adj_sorted. apply isort_sorted; [apply str_leb_total|apply str_leb_trans].
Qed.

(* a strictly sorted list is determined by its elements *)
Lemma ssorted_unique l1 l2 : ssorted l1 -> ssorted l2 -> (forall x, In x l1 <-> In x l2) -> l1 = l2.
Proof.
  intros H1 H2 Hiff.
  assert (Hnd : forall l, ssorted l -> NoDup l).
  { induction l as [|a r IH]; intros Hs; [constructor|]. inversion Hs as [|? ? Hr Hall]; subst.
    constructor; [|apply IH; exact Hr]. intros Hin. rewrite Forall_forall in Hall.
    apply (str_lt_irrefl a). apply Hall. exact Hin. }
  assert (Hle : forall l, ssorted l -> StronglySorted (le str_leb) l).
  { induction l as [|a r IH]; intros Hs; [constructor|]. inversion Hs as [|? ? Hr Hall]; subst.
    constructor; [apply IH; exact Hr|]. eapply Forall_impl; [|exact Hall]. intros y Hy. apply str_lt_leb. exact Hy. }
  apply (sorted_perm_unique str_leb).
  - intros x y _ _. apply str_leb_antisym.
  - apply Hle. exact H1.
  - apply Hle. exact H2.
  - apply NoDup_Permutation; [apply Hnd; exact H1|apply Hnd; exact H2|exact Hiff].
Qed.

(* ---------- lookup / set_ids ---------- *)

Lemma lookup_some D k x : lookup D k = Some x -> In x D /\ d_key x = k.
Proof.
  induction D as [|y r IH]; simpl; [discriminate|].
  destruct (key_eqb (d_key y) k) eqn:E.
  - intros H. inversion H; subst. apply key_eqb_eq in E. split; [left; reflexivity|exact E].
  - intros H. destruct (IH H) as [H1 H2]. split; [right; exact H1|exact H2].
Qed.

Lemma lookup_none D k : lookup D k = None -> forall x, In x D -> d_key x <> k.
Proof.
  induction D as [|y r IH]; simpl; intros H x Hx; [contradiction|].
  destruct (key_eqb (d_key y) k) eqn:E; [discriminate|].
  destruct Hx as [ -> |Hx]; [apply key_eqb_neq; exact E|apply IH; assumption].
Qed.

Lemma lookup_in D : NoDup (map d_key D) -> forall x, In x D -> lookup D (d_key x) = Some x.
Proof.
  induction D as [|y r IH]; intros Hnd x Hx; [contradiction|].
  inversion Hnd as [|? ? Hnotin Hnd']; subst. simpl.
  destruct Hx as [ -> |Hx].
  - rewrite key_eqb_refl. reflexivity.
  - destruct (key_eqb (d_key y) (d_key x)) eqn:E.
    + apply key_eqb_eq in E. exfalso. apply Hnotin. rewrite E. apply in_map. exact Hx.
    + apply IH; assumption.
Qed.

Lemma set_ids_keys D k ids : map d_key (set_ids D k ids) = map d_key D.
Proof.
  induction D as [|y r IH]; simpl; [reflexivity|].
  destruct (key_eqb (d_key y) k); simpl; [reflexivity|]. rewrite IH. reflexivity.
Qed.

Lemma set_ids_in D k ids x : NoDup (map d_key D) -> lookup D k = Some x ->
  forall y, In y (set_ids D k ids) <-> (In y D /\ d_key y <> k) \/ y = mkEntry (d_key x) (d_bytes x) ids.
Proof.
  induction D as [|z r IH]; intros Hnd Hl y; simpl in *; [discriminate|].
  inversion Hnd as [|? ? Hnotin Hnd']; subst.
  destruct (key_eqb (d_key z) k) eqn:E.
  - inversion Hl; subst z. apply key_eqb_eq in E. simpl. split.
    + intros [ <- |Hy]; [right; reflexivity|]. left. split; [right; exact Hy|].
      intros Hk. apply Hnotin. rewrite E, <- Hk. apply in_map. exact Hy.
    + intros [[[ -> |Hy] Hne]| -> ]; [contradiction|right; exact Hy|left; reflexivity].
  - apply key_eqb_neq in E. simpl. rewrite (IH Hnd' Hl y). split.
    + intros [ -> |[[Hy Hne]| -> ]]; [left; split; [left; reflexivity|exact E]|left; split; [right; exact Hy|exact Hne]|right; reflexivity].
    + intros [[[ -> |Hy] Hne]| -> ]; [left; reflexivity|right; left; split; assumption|right; right; reflexivity].
Qed.

(* ---------- the invariant of the desired map after a list of successful inserts ---------- *)

Definition kcount (done : list emit) (k : key) : nat :=
  length (filter (fun em => key_eqb (e_key em) k) done).

Lemma kcount_app done em k :
  kcount (done ++ [em]) k = (kcount done k + (if key_eqb (e_key em) k then 1 else 0))%nat.
Proof.
  unfold kcount. rewrite filter_app, app_length. simpl. destruct (key_eqb (e_key em) k); reflexivity.
Qed.

Lemma kcount_zero done k : (forall em, In em done -> e_key em <> k) -> kcount done k = 0%nat.
Proof.
  unfold kcount. induction done as [|a r IH]; intros H; simpl; [reflexivity|].
  destruct (key_eqb (e_key a) k) eqn:E.
  - apply key_eqb_eq in E. exfalso. apply (H a); [left; reflexivity|exact E].
  - apply IH. intros em Hem. apply H. right. exact Hem.
Qed.

Lemma NoDup_app_single {A} (l : list A) x : NoDup l -> ~ In x l -> NoDup (l ++ [x]).
Proof.
  induction l as [|a r IH]; intros Hnd Hn; simpl.
  - constructor; [intros []|constructor].
  - inversion Hnd as [|? ? Ha Hr]; subst. constructor.
    + intros Hin. apply in_app_or in Hin as [Hin|[Hin|[]]]; [contradiction|]. subst. apply Hn. left. reflexivity.
    + apply IH; [exact Hr|]. intros Hin. apply Hn. right. exact Hin.
Qed.

Record Inv (done : list emit) (D : list entry) : Prop := mkInv {
  inv_nodup : NoDup (map d_key D);
  inv_src : forall x, In x D -> exists em, In em done /\ e_key em = d_key x;
  inv_bytes : forall em, In em done -> exists x, In x D /\ d_key x = e_key em /\ d_bytes x = e_bytes em;
  inv_ids : forall x, In x D -> forall i,
      In i (d_ids x) <-> exists em, In em done /\ e_key em = d_key x /\ In i (e_ids em);
  inv_sorted : forall x, In x D -> (2 <= kcount done (d_key x))%nat -> ssorted (d_ids x)
}.

Lemma inv_nil : Inv [] [].
Proof. constructor; simpl; try constructor; intros; contradiction. Qed.

Lemma inv_no_conflict done D : Inv done D -> forall a b, In a done -> In b done ->
  e_key a = e_key b -> e_bytes a = e_bytes b.
Proof.
  intros I a b Ha Hb Hk.
  destruct (inv_bytes _ _ I a Ha) as [x [Hx [Kx Bx]]]. destruct (inv_bytes _ _ I b Hb) as [y [Hy [Ky By]]].
  assert (x = y).
  { pose proof (lookup_in D (inv_nodup _ _ I) x Hx) as L1. pose proof (lookup_in D (inv_nodup _ _ I) y Hy) as L2.
    rewrite Kx, Hk, <- Ky in L1. congruence. }
  subst y. congruence.
Qed.

Lemma insert_err done D em c : Inv done D -> insert_desired D em = Err c ->
  c = EConflict /\ exists em0, In em0 done /\ e_key em0 = e_key em /\ e_bytes em0 <> e_bytes em.
Proof.
  intros I. unfold insert_desired. destruct (lookup D (e_key em)) as [x|] eqn:L; [|discriminate].
  destruct (bytes_eqb (d_bytes x) (e_bytes em)) eqn:B; [discriminate|].
  intros H. inversion H; subst. split; [reflexivity|].
  apply lookup_some in L as [Hx Kx]. destruct (inv_src _ _ I x Hx) as [em0 [H0 K0]].
  exists em0. split; [exact H0|]. split; [congruence|].
  destruct (inv_bytes _ _ I em0 H0) as [y [Hy [Ky By]]].
  assert (y = x).
  { pose proof (lookup_in D (inv_nodup _ _ I) y Hy) as L1. pose proof (lookup_in D (inv_nodup _ _ I) x Hx) as L2.
    rewrite Ky, K0 in L1. congruence. }
  subst y. rewrite <- By. apply bytes_eqb_neq. exact B.
Qed.

Lemma insert_ok done D em D' : Inv done D -> insert_desired D em = Ok D' -> Inv (done ++ [em]) D'.
Proof.
  intros I. unfold insert_desired. destruct (lookup D (e_key em)) as [x|] eqn:L.
  - (* merge *)
    destruct (bytes_eqb (d_bytes x) (e_bytes em)) eqn:B; [|discriminate].
    intros H. inversion H; subst D'. clear H. apply bytes_eqb_eq in B.
    pose proof (lookup_some _ _ _ L) as [Hx Kx].
    pose proof (set_ids_in D (e_key em) (set_union (d_ids x) (e_ids em)) x (inv_nodup _ _ I) L) as Hin.
    constructor.
    + rewrite set_ids_keys. apply (inv_nodup _ _ I).
    + intros y Hy. apply Hin in Hy as [[Hy Hne]| -> ].
      * destruct (inv_src _ _ I y Hy) as [e0 [H0 K0]]. exists e0. split; [apply in_or_app; left; exact H0|exact K0].
      * simpl. exists em. split; [apply in_or_app; right; left; reflexivity|congruence].
    + intros e0 H0. apply in_app_or in H0 as [H0|[ <- |[]]].
      * destruct (inv_bytes _ _ I e0 H0) as [y [Hy [Ky By]]].
        destruct (key_eqb (d_key y) (e_key em)) eqn:E.
        -- apply key_eqb_eq in E. assert (y = x).
           { pose proof (lookup_in D (inv_nodup _ _ I) y Hy) as L1. rewrite E in L1. congruence. }
           subst y. exists (mkEntry (d_key x) (d_bytes x) (set_union (d_ids x) (e_ids em))).
           split; [apply Hin; right; reflexivity|]. simpl. split; assumption.
        -- apply key_eqb_neq in E. exists y. split; [apply Hin; left; split; assumption|]. split; assumption.
      * exists (mkEntry (d_key x) (d_bytes x) (set_union (d_ids x) (e_ids em))).
        split; [apply Hin; right; reflexivity|]. simpl. split; [exact Kx|exact B].
    + intros y Hy i. apply Hin in Hy as [[Hy Hne]| -> ].
      * rewrite (inv_ids _ _ I y Hy i). split.
        -- intros [e0 [H0 [K0 Hi]]]. exists e0. split; [apply in_or_app; left; exact H0|]. split; assumption.
        -- intros [e0 [H0 [K0 Hi]]]. apply in_app_or in H0 as [H0|[ <- |[]]].
           ++ exists e0. repeat split; assumption.
           ++ exfalso. apply Hne. symmetry. exact K0.
      * simpl. rewrite set_union_in, (inv_ids _ _ I x Hx i). split.
        -- intros [[e0 [H0 [K0 Hi]]]|Hi].
           ++ exists e0. split; [apply in_or_app; left; exact H0|]. split; assumption.
           ++ exists em. split; [apply in_or_app; right; left; reflexivity|]. split; [symmetry; exact Kx|exact Hi].
        -- intros [e0 [H0 [K0 Hi]]]. apply in_app_or in H0 as [H0|[ <- |[]]].
           ++ left. exists e0. repeat split; assumption.
           ++ right. exact Hi.
    + intros y Hy Hc. apply Hin in Hy as [[Hy Hne]| -> ].
      * apply (inv_sorted _ _ I y Hy). rewrite kcount_app in Hc.
        assert (E : key_eqb (e_key em) (d_key y) = false) by (apply key_eqb_neq; congruence).
        rewrite E in Hc. lia.
      * simpl. apply set_union_sorted.
  - (* fresh key *)
    intros H. inversion H; subst D'. clear H.
    pose proof (lookup_none _ _ L) as Hnone.
    constructor.
    + rewrite map_app. simpl. apply NoDup_app_single; [apply (inv_nodup _ _ I)|].
      intros Hk. apply in_map_iff in Hk as [y [Ky Hy]]. apply (Hnone y Hy). exact Ky.
    + intros y Hy. apply in_app_or in Hy as [Hy|[ <- |[]]].
      * destruct (inv_src _ _ I y Hy) as [e0 [H0 K0]]. exists e0. split; [apply in_or_app; left; exact H0|exact K0].
      * exists em. split; [apply in_or_app; right; left; reflexivity|reflexivity].
    + intros e0 H0. apply in_app_or in H0 as [H0|[ <- |[]]].
      * destruct (inv_bytes _ _ I e0 H0) as [y [Hy [Ky By]]]. exists y. split; [apply in_or_app; left; exact Hy|]. split; assumption.
      * exists (mkEntry (e_key em) (e_bytes em) (e_ids em)). split; [apply in_or_app; right; left; reflexivity|]. split; reflexivity.
    + intros y Hy i. apply in_app_or in Hy as [Hy|[ <- |[]]].
      * rewrite (inv_ids _ _ I y Hy i). split.
        -- intros [e0 [H0 [K0 Hi]]]. exists e0. split; [apply in_or_app; left; exact H0|]. split; assumption.
        -- intros [e0 [H0 [K0 Hi]]]. apply in_app_or in H0 as [H0|[ <- |[]]].
           ++ exists e0. repeat split; assumption.
           ++ exfalso. apply (Hnone y Hy). symmetry. exact K0.
      * simpl. split.
        -- intros Hi. exists em. split; [apply in_or_app; right; left; reflexivity|]. split; [reflexivity|exact Hi].
        -- intros [e0 [H0 [K0 Hi]]]. apply in_app_or in H0 as [H0|[ <- |[]]]; [|exact Hi].
           exfalso. destruct (inv_bytes _ _ I e0 H0) as [y [Hy [Ky _]]]. apply (Hnone y Hy). congruence.
    + intros y Hy Hc. apply in_app_or in Hy as [Hy|[ <- |[]]].
      * apply (inv_sorted _ _ I y Hy). rewrite kcount_app in Hc.
        assert (E : key_eqb (e_key em) (d_key y) = false) by (apply key_eqb_neq; intros Hk; apply (Hnone y Hy); congruence).
        rewrite E in Hc. lia.
      * simpl in Hc. rewrite kcount_app, key_eqb_refl in Hc.
        rewrite kcount_zero in Hc; [lia|].
        intros e0 H0 Hk. destruct (inv_bytes _ _ I e0 H0) as [y [Hy [Ky _]]]. apply (Hnone y Hy). congruence.
Qed.

(* ---------- run ---------- *)

Fixpoint emits_of (l : list step) : list emit :=
  match l with
  | [] => []
  | Emit e :: r => e :: emits_of r
  | Fail _ :: r => emits_of r
  end.

Definition no_fail (l : list step) : Prop := forall c, ~ In (Fail c) l.

Lemma emits_of_in e l : In e (emits_of l) <-> In (Emit e) l.
Proof.
  induction l as [|[x|c] r IH]; simpl; [tauto| |].
  - rewrite IH. split; intros [H|H]; try (right; exact H); left; congruence.
  - rewrite IH. split; [intros H; right; exact H|intros [H|H]; [discriminate|exact H]].
Qed.

Lemma emits_of_app a b : emits_of (a ++ b) = emits_of a ++ emits_of b.
Proof. induction a as [|[x|c] r IH]; simpl; [reflexivity| |]; rewrite IH; reflexivity. Qed.

Lemma run_ok steps : forall done D D', Inv done D -> run D steps = Ok D' ->
  no_fail steps /\ Inv (done ++ emits_of steps) D'.
Proof.
  induction steps as [|[em|c] r IH]; intros done D D' I H; simpl in *.
  - inversion H; subst. split; [intros c []|rewrite app_nil_r; exact I].
  - destruct (insert_desired D em) as [D1|c] eqn:E; [|discriminate].
    destruct (IH (done ++ [em]) D1 D' (insert_ok _ _ _ _ I E) H) as [Hnf HI].
    split.
    + intros c [Hc|Hc]; [discriminate|]. apply (Hnf c Hc).
    + rewrite <- app_assoc in HI. exact HI.
  - discriminate.
Qed.

Lemma run_err steps : forall done D c, Inv done D -> no_fail steps -> run D steps = Err c ->
  c = EConflict /\ exists a b, In a (done ++ emits_of steps) /\ In b (emits_of steps) /\
                              e_key a = e_key b /\ e_bytes a <> e_bytes b.
Proof.
  induction steps as [|[em|c0] r IH]; intros done D c I Hnf H; simpl in *.
  - discriminate.
  - destruct (insert_desired D em) as [D1|c1] eqn:E.
    + assert (Hnf' : no_fail r) by (intros x Hx; apply (Hnf x); right; exact Hx).
      destruct (IH (done ++ [em]) D1 c (insert_ok _ _ _ _ I E) Hnf' H) as [Hc [a [b [Ha [Hb [Hk Hne]]]]]].
      split; [exact Hc|]. exists a, b. rewrite <- app_assoc in Ha. simpl in Ha.
      split; [exact Ha|]. split; [right; exact Hb|]. split; assumption.
    + inversion H; subst c1. destruct (insert_err _ _ _ _ I E) as [Hc [e0 [H0 [K0 B0]]]].
      split; [exact Hc|]. exists e0, em. split; [apply in_or_app; left; exact H0|].
      split; [left; reflexivity|]. split; assumption.
  - exfalso. apply (Hnf c0). left. reflexivity.
Qed.

Lemma run_fail_first steps : forall D c, run D steps = Err c -> c <> EConflict -> In (Fail c) steps.
Proof.
  induction steps as [|[em|c0] r IH]; intros D c H Hne; simpl in *.
  - discriminate.
  - unfold insert_desired in H. destruct (lookup D (e_key em)) as [x|].
    + destruct (bytes_eqb (d_bytes x) (e_bytes em)).
      * right. eapply IH; eauto.
      * inversion H; subst. contradiction.
    + right. eapply IH; eauto.
  - inversion H; subst. left. reflexivity.
Qed.

(* ---------- select_modules under permutation of the module list ---------- *)

Lemma id_leb_total a b : id_leb a b = true \/ id_leb b a = true.
Proof. apply str_leb_total. Qed.
Lemma id_leb_trans a b c : id_leb a b = true -> id_leb b c = true -> id_leb a c = true.
Proof. apply str_leb_trans. Qed.

Lemma NoDup_map_inj {A B} (f : A -> B) l : NoDup (map f l) -> forall x y, In x l -> In y l -> f x = f y -> x = y.
Proof.
  induction l as [|a r IH]; intros Hnd x y Hx Hy Hf; [contradiction|].
  inversion Hnd as [|? ? Hnotin Hnd']; subst.
  destruct Hx as [ -> |Hx], Hy as [ -> |Hy]; try reflexivity.
  - exfalso. apply Hnotin. rewrite Hf. apply in_map. exact Hy.
  - exfalso. apply Hnotin. rewrite <- Hf. apply in_map. exact Hx.
  - apply IH; assumption.
Qed.

Lemma Permutation_filter' {A} (f : A -> bool) l l' : Permutation l l' -> Permutation (filter f l) (filter f l').
Proof.
  induction 1 as [|x l l' H IH|x y l|l l' l'' H1 IH1 H2 IH2]; simpl.
  - constructor.
  - destruct (f x); [constructor|]; exact IH.
  - destruct (f x), (f y); try apply Permutation_refl. apply perm_swap.
  - eapply Permutation_trans; eauto.
Qed.

Lemma isort_id_perm l l' : NoDup (map m_id l) -> Permutation l l' -> isort id_leb l' = isort id_leb l.
Proof.
  intros Hnd Hp. symmetry. apply isort_unique; [apply id_leb_total|apply id_leb_trans| | |].
  - intros x y Hx Hy H1 H2. apply (NoDup_map_inj m_id l Hnd x y Hx Hy). apply str_leb_antisym; assumption.
  - eapply Permutation_trans; [exact Hp|apply isort_perm].
  - apply isort_sorted; [apply id_leb_total|apply id_leb_trans].
Qed.

Lemma NoDup_map_filter {A B} (f : A -> B) (p : A -> bool) l : NoDup (map f l) -> NoDup (map f (filter p l)).
Proof.
  induction l as [|a r IH]; intros H; simpl; [constructor|].
  inversion H as [|? ? Hn Hr]; subst. destruct (p a); simpl; [|apply IH; exact Hr].
  constructor; [|apply IH; exact Hr]. intros Hin. apply Hn. apply in_map_iff in Hin as [x [Hx Hi]].
  apply in_map_iff. exists x. split; [exact Hx|]. apply filter_In in Hi. apply Hi.
Qed.

Definition with_modules (c : cfg) (ms : list module) : cfg :=
  mkCfg (c_version c) (c_profiles c) (c_targets c) ms.

Lemma select_modules_perm c ms' prof : Permutation (c_modules c) ms' -> NoDup (map m_id (c_modules c)) ->
  select_modules (with_modules c ms') prof = select_modules c prof.
Proof.
  intros Hp Hnd. unfold select_modules, find_profile, with_modules. simpl.
  destruct (find (fun p => str_eqb (p_name p) prof) (c_profiles c)) as [p|]; [|reflexivity].
  f_equal. apply isort_id_perm.
  - apply NoDup_map_filter. exact Hnd.
  - apply Permutation_filter'. exact Hp.
Qed.

Lemma render_perm c ms' e prof filt : Permutation (c_modules c) ms' -> NoDup (map m_id (c_modules c)) ->
  render (with_modules c ms') e prof filt = render c e prof filt.
Proof.
  intros Hp Hnd. unfold render. rewrite (select_modules_perm c ms' prof Hp Hnd). reflexivity.
Qed.

Lemma plan_desired_perm c ms' e prof filt : Permutation (c_modules c) ms' -> NoDup (map m_id (c_modules c)) ->
  plan_desired (with_modules c ms') e prof filt = plan_desired c e prof filt.
Proof.
  intros Hp Hnd. unfold plan_desired. rewrite (render_perm c ms' e prof filt Hp Hnd). reflexivity.
Qed.

(* ---------- render-level statements about conflicts and merging ---------- *)

Lemma render_unfold c e prof filt ms ts :
  select_modules c prof = Some ms -> selected_targets c filt = Ok ts ->
  render c e prof filt =
  match run [] (all_steps e ms ts) with Err x => Err x | Ok D => Ok (D, dedup_roots (all_roots e ms ts)) end.
Proof. intros H1 H2. unfold render. rewrite H1, H2. reflexivity. Qed.

Definition conflicting (steps : list step) : Prop :=
  exists a b, In (Emit a) steps /\ In (Emit b) steps /\ e_key a = e_key b /\ e_bytes a <> e_bytes b.

Lemma conflict_iff c e prof filt ms ts :
  select_modules c prof = Some ms -> selected_targets c filt = Ok ts ->
  no_fail (all_steps e ms ts) ->
  (render c e prof filt = Err EConflict <-> conflicting (all_steps e ms ts)).
Proof.
  intros H1 H2 Hnf. rewrite (render_unfold _ _ _ _ _ _ H1 H2).
  destruct (run [] (all_steps e ms ts)) as [D|x] eqn:R; split.
  - discriminate.
  - intros [a [b [Ha [Hb [Hk Hne]]]]]. exfalso.
    destruct (run_ok _ _ _ _ inv_nil R) as [_ I]. simpl in I.
    apply Hne. apply (inv_no_conflict _ _ I); [apply emits_of_in; exact Ha|apply emits_of_in; exact Hb|exact Hk].
  - intros _. destruct (run_err _ _ _ _ inv_nil Hnf R) as [_ [a [b [Ha [Hb [Hk Hne]]]]]].
    simpl in Ha. exists a, b. rewrite <- !emits_of_in. repeat split; assumption.
  - intros _. destruct (run_err _ _ _ _ inv_nil Hnf R) as [-> _]. reflexivity.
Qed.

Lemma ok_no_conflict c e prof filt ms ts D R :
  select_modules c prof = Some ms -> selected_targets c filt = Ok ts ->
  render c e prof filt = Ok (D, R) ->
  no_fail (all_steps e ms ts) /\ ~ conflicting (all_steps e ms ts) /\ Inv (emits_of (all_steps e ms ts)) D.
Proof.
  intros H1 H2. rewrite (render_unfold _ _ _ _ _ _ H1 H2).
  destruct (run [] (all_steps e ms ts)) as [D0|x] eqn:Rn; [|discriminate].
  intros H. inversion H; subst. destruct (run_ok _ _ _ _ inv_nil Rn) as [Hnf I]. simpl in I.
  split; [exact Hnf|]. split; [|exact I].
  intros [a [b [Ha [Hb [Hk Hne]]]]]. apply Hne.
  apply (inv_no_conflict _ _ I); [apply emits_of_in; exact Ha|apply emits_of_in; exact Hb|exact Hk].
Qed.

Lemma kcount_two l1 a l2 b l3 k : e_key a = k -> e_key b = k -> (2 <= kcount (l1 ++ a :: l2 ++ b :: l3) k)%nat.
Proof.
  intros Ha Hb. unfold kcount. rewrite filter_app, app_length. simpl.
  rewrite Ha, key_eqb_refl. simpl. rewrite filter_app, app_length. simpl. rewrite Hb, key_eqb_refl. simpl. lia.
Qed.

(* identical bytes from two inserts: ONE entry, whose module_ids are the strictly sorted union of
   the ids of every insert for that key *)
Lemma merge_thm c e prof filt ms ts D R :
  select_modules c prof = Some ms -> selected_targets c filt = Ok ts ->
  render c e prof filt = Ok (D, R) ->
  NoDup (map d_key D) /\
  forall a b l1 l2 l3, emits_of (all_steps e ms ts) = l1 ++ a :: l2 ++ b :: l3 -> e_key a = e_key b ->
    e_bytes a = e_bytes b /\
    exists x, In x D /\ d_key x = e_key a /\ d_bytes x = e_bytes a /\ ssorted (d_ids x) /\
              forall i, In i (d_ids x) <->
                        exists em, In (Emit em) (all_steps e ms ts) /\ e_key em = e_key a /\ In i (e_ids em).
Proof.
  intros H1 H2 Hr. destruct (ok_no_conflict _ _ _ _ _ _ _ _ H1 H2 Hr) as [_ [_ I]].
  split; [apply (inv_nodup _ _ I)|].
  intros a b l1 l2 l3 Hdec Hk.
  assert (Ha : In a (emits_of (all_steps e ms ts))) by (rewrite Hdec; apply in_or_app; right; left; reflexivity).
  assert (Hb : In b (emits_of (all_steps e ms ts)))
    by (rewrite Hdec; apply in_or_app; right; right; apply in_or_app; right; left; reflexivity).
  split; [apply (inv_no_conflict _ _ I); assumption|].
  destruct (inv_bytes _ _ I a Ha) as [x [Hx [Kx Bx]]]. exists x.
  split; [exact Hx|]. split; [exact Kx|]. split; [exact Bx|]. split.
  - apply (inv_sorted _ _ I x Hx). rewrite Hdec. apply kcount_two; congruence.
  - intros i. rewrite (inv_ids _ _ I x Hx i). rewrite Kx. split; intros [em [Hem Hrest]]; exists em;
      (split; [apply emits_of_in; exact Hem|exact Hrest]).
Qed.
