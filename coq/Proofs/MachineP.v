(* Proofs/MachineP.v — the machine id and the project id are single safe path components. *)
From AP Require Import Base.Str Base.StrFacts Model.Ids Model.Machine Proofs.IdsP.
From Coq Require Import Lia ZifyBool ZifyN.
Open Scope N_scope.

(* ---- trimming facts ---- *)
Lemma drop_while_forall (f : N -> bool) x : forallb (fun c => negb (f c)) x = true -> drop_while f x = x.
Proof. destruct x as [|c r]; cbn; [reflexivity|]. intros H. apply andb_prop in H. destruct H as [H _].
  destruct (f c); [discriminate|reflexivity]. Qed.

Lemma drop_while_suffix (f : N -> bool) x : exists p, x = p ++ drop_while f x.
Proof. induction x as [|c r IH]; cbn; [exists []; reflexivity|].
  destruct (f c); [destruct IH as [p Hp]; exists (c :: p); cbn; f_equal; exact Hp | exists []; reflexivity]. Qed.

Lemma drop_while_head (f : N -> bool) x c r : drop_while f x = c :: r -> f c = false.
Proof. induction x as [|d t IH]; cbn; [discriminate|].
  destruct (f d) eqn:E; [exact IH|]. intros H. injection H as -> _. exact E. Qed.

Lemma forallb_drop_while (P f : N -> bool) x : forallb P x = true -> forallb P (drop_while f x) = true.
Proof. induction x as [|c r IH]; cbn; [reflexivity|]. intros H. destruct (f c).
  - apply IH. apply andb_prop in H. tauto.
  - exact H. Qed.

Lemma forallb_rev (P : N -> bool) x : forallb P (rev x) = forallb P x.
Proof. induction x as [|c r IH]; cbn; [reflexivity|]. rewrite forallb_app, IH. cbn. rewrite andb_true_r. apply andb_comm. Qed.

Lemma forallb_trim_matches (P f : N -> bool) x : forallb P x = true -> forallb P (trim_matches f x) = true.
Proof. intros H. unfold trim_matches, trim_end_matches, trim_start_matches.
  rewrite forallb_rev. apply forallb_drop_while. rewrite forallb_rev. apply forallb_drop_while. exact H. Qed.

(* the result of trim_matches neither starts nor ends with a matching character *)
Lemma trim_matches_head (f : N -> bool) x c r : trim_matches f x = c :: r -> f c = false.
Proof. unfold trim_matches, trim_end_matches, trim_start_matches. intros H.
  remember (drop_while f x) as y eqn:Ey.
  destruct (drop_while_suffix f (rev y)) as [p Hp].
  assert (Hy : y = rev (drop_while f (rev y)) ++ rev p).
  { rewrite <- rev_app_distr, <- Hp, rev_involutive. reflexivity. }
  rewrite H in Hy. cbn in Hy. rewrite Hy in Ey.
  exact (drop_while_head f x c _ (eq_sym Ey)). Qed.

Lemma trim_matches_last (f : N -> bool) x l c : trim_matches f x = l ++ [c] -> f c = false.
Proof. unfold trim_matches, trim_end_matches. intros H.
  assert (H' : drop_while f (rev (trim_start_matches f x)) = c :: rev l).
  { apply (f_equal (@rev N)) in H. rewrite rev_involutive, rev_app_distr in H. exact H. }
  exact (drop_while_head f _ c _ H'). Qed.

Lemma trim_matches_id (f : N -> bool) x :
  (forall c r, x = c :: r -> f c = false) -> (forall l c, x = l ++ [c] -> f c = false) -> trim_matches f x = x.
Proof. intros Hh Hl. unfold trim_matches, trim_end_matches, trim_start_matches.
  assert (E1 : drop_while f x = x).
  { destruct x as [|c r]; [reflexivity|]. cbn. rewrite (Hh c r eq_refl). reflexivity. }
  rewrite E1.
  destruct (rev x) as [|c r] eqn:Er.
  - cbn. apply (f_equal (@rev N)) in Er. rewrite rev_involutive in Er. exact (eq_sym Er).
  - cbn. assert (Hx : x = rev r ++ [c]).
    { apply (f_equal (@rev N)) in Er. rewrite rev_involutive in Er. exact Er. }
    rewrite (Hl _ _ Hx). cbn. rewrite <- Hx. reflexivity. Qed.

(* ---- lowercase ---- *)
Definition lowered (c : N) : bool := negb (is_ascii_upper c).

Lemma table_lowered : forallb (fun kv => forallb lowered (snd kv)) Gen.Tables.lower_into_ascii = true.
Proof. vm_compute. reflexivity. Qed.

Lemma lookup_lowered tab c v : forallb (fun kv => forallb lowered (snd kv)) tab = true ->
  lookup_lower tab c = Some v -> forallb lowered v = true.
Proof. induction tab as [|[k w] r IH]; cbn; [discriminate|]. intros H. apply andb_prop in H. destruct H as [H1 H2].
  destruct (k =? c); [intros E; injection E as <-; exact H1 | apply IH; exact H2]. Qed.

Lemma lower1_lowered c : forallb lowered (lower1 c) = true.
Proof. unfold lower1. destruct (is_ascii_upper c) eqn:E.
  - cbn. unfold lowered, is_ascii_upper in *. lia.
  - destruct (lookup_lower _ c) as [v|] eqn:L.
    + exact (lookup_lowered _ _ _ table_lowered L).
    + cbn. unfold lowered. rewrite E. reflexivity. Qed.

Lemma to_lowercase_lowered x : forallb lowered (to_lowercase x) = true.
Proof. unfold to_lowercase. induction x as [|c r IH]; cbn [flat_map]; [reflexivity|]. rewrite forallb_app, lower1_lowered, IH. reflexivity. Qed.

(* ---- the loop ---- *)
Lemma is_mid_char_spec c : is_mid_char c = mid_ok c && lowered c.
Proof. unfold is_mid_char, mid_ok, lowered, is_ascii_alnum, is_ascii_lower, is_ascii_digit, is_ascii_upper. lia. Qed.

Lemma norm_go_chars b x : forallb lowered x = true -> forallb is_mid_char (norm_go b x) = true.
Proof. revert b. induction x as [|c r IH]; intros b H; cbn; [reflexivity|].
  cbn in H. apply andb_prop in H. destruct H as [Hc Hr].
  destruct (mid_ok c) eqn:E.
  - cbn. rewrite is_mid_char_spec, E, Hc. cbn. apply IH. exact Hr.
  - destruct b; [apply IH; exact Hr|]. cbn. apply IH. exact Hr. Qed.

Theorem normalize_chars x : forallb is_mid_char (normalize_machine_id x) = true.
Proof. unfold normalize_machine_id. apply forallb_trim_matches. apply norm_go_chars. apply to_lowercase_lowered. Qed.

Theorem normalize_no_edge_dash x :
  (forall c r, normalize_machine_id x = c :: r -> c <> 45) /\ (forall l c, normalize_machine_id x = l ++ [c] -> c <> 45).
Proof. split.
  - intros c r H. apply trim_matches_head in H. unfold is_dash in H. lia.
  - intros l c H. apply trim_matches_last in H. unfold is_dash in H. lia. Qed.

(* a string of [a-z0-9_-] is a safe component unless empty *)
Lemma mid_chars_no (d : N) v : is_mid_char d = false -> forallb is_mid_char v = true -> mem_char d v = false.
Proof. intros Hd. unfold mem_char. induction v as [|c r IH]; cbn [existsb forallb]; [reflexivity|]. intros H. apply andb_prop in H. destruct H as [Hc Hr].
  rewrite (IH Hr). destruct (d =? c) eqn:E; [|reflexivity]. apply N.eqb_eq in E. subst c. congruence. Qed.

Lemma mid_chars_safe v : forallb is_mid_char v = true -> v <> [] -> safe_component v = true.
Proof. intros H Hne. unfold safe_component.
  rewrite (mid_chars_no 47 v eq_refl H), (mid_chars_no 92 v eq_refl H), (mid_chars_no 0 v eq_refl H).
  destruct v as [|c r]; [congruence|]. cbn [is_empty negb andb].
  cbn in H. apply andb_prop in H. destruct H as [Hc Hr].
  assert (c <> 46) by (intros ->; discriminate Hc).
  cbn. destruct (c =? 46) eqn:E; [apply N.eqb_eq in E; congruence|]. reflexivity. Qed.

Theorem normalize_safe x : normalize_machine_id x <> [] -> safe_component (normalize_machine_id x) = true.
Proof. intros H. apply mid_chars_safe; [apply normalize_chars | exact H]. Qed.

(* ---- idempotence ---- *)
Lemma lookup_lower_low tab c : forallb (fun kv => 128 <=? fst kv) tab = true -> c < 128 -> lookup_lower tab c = None.
Proof. induction tab as [|[k v] r IH]; cbn; [reflexivity|]. intros H Hc. apply andb_prop in H. destruct H as [H1 H2].
  destruct (k =? c) eqn:E; [lia | apply IH; assumption]. Qed.

Lemma table_keys_high : forallb (fun kv => 128 <=? fst kv) Gen.Tables.lower_into_ascii = true.
Proof. vm_compute. reflexivity. Qed.

Lemma mid_char_ascii c : is_mid_char c = true -> c < 128.
Proof. unfold is_mid_char, is_ascii_lower, is_ascii_digit. lia. Qed.

Lemma lower1_id c : is_mid_char c = true -> lower1 c = [c].
Proof. intros H. unfold lower1.
  assert (is_ascii_upper c = false) by (unfold is_mid_char, is_ascii_lower, is_ascii_digit, is_ascii_upper in *; lia).
  rewrite H0, (lookup_lower_low _ c table_keys_high (mid_char_ascii c H)). reflexivity. Qed.

Lemma to_lowercase_id x : forallb is_mid_char x = true -> to_lowercase x = x.
Proof. unfold to_lowercase. induction x as [|c r IH]; cbn [flat_map forallb]; [reflexivity|]. intros H. apply andb_prop in H. destruct H as [Hc Hr].
  rewrite (lower1_id c Hc), (IH Hr). reflexivity. Qed.

Lemma trim_matches_forall (f : N -> bool) x : forallb (fun c => negb (f c)) x = true -> trim_matches f x = x.
Proof. intros H. unfold trim_matches, trim_end_matches, trim_start_matches.
  rewrite (drop_while_forall f x H), (drop_while_forall f (rev x)); [apply rev_involutive|].
  rewrite forallb_rev. exact H. Qed.

Lemma forallb_impl (P Q : N -> bool) x : (forall c, P c = true -> Q c = true) -> forallb P x = true -> forallb Q x = true.
Proof. intros HPQ. induction x as [|c r IH]; cbn; [reflexivity|]. intros H. apply andb_prop in H. destruct H as [Hc Hr].
  rewrite (HPQ c Hc), (IH Hr). reflexivity. Qed.

Lemma trim_id x : forallb is_mid_char x = true -> trim x = x.
Proof. intros H. apply trim_matches_forall. revert H. apply forallb_impl. intros c Hc.
  unfold is_mid_char, is_ascii_lower, is_ascii_digit in Hc. unfold is_ws. lia. Qed.

Lemma norm_go_id b x : forallb is_mid_char x = true -> norm_go b x = x.
Proof. revert b. induction x as [|c r IH]; intros b H; cbn; [reflexivity|]. cbn in H. apply andb_prop in H. destruct H as [Hc Hr].
  rewrite is_mid_char_spec in Hc. apply andb_prop in Hc. destruct Hc as [Hc _]. rewrite Hc, (IH _ Hr). reflexivity. Qed.

Theorem normalize_idem x : normalize_machine_id (normalize_machine_id x) = normalize_machine_id x.
Proof. pose proof (normalize_chars x) as Hc. destruct (normalize_no_edge_dash x) as [Hh Hl].
  set (y := normalize_machine_id x) in *. unfold normalize_machine_id at 1.
  rewrite (trim_id y Hc), (to_lowercase_id y Hc), (norm_go_id false y Hc).
  apply trim_matches_id.
  - intros c r E. specialize (Hh c r E). unfold is_dash. lia.
  - intros l c E. specialize (Hl l c E). unfold is_dash. lia. Qed.


(* ---- detection ---- *)
Lemma unknown_chars : forallb is_mid_char c_unknown = true.  Proof. vm_compute. reflexivity. Qed.

Theorem detect_chars cands : forallb is_mid_char (detect_machine_id cands) = true /\ detect_machine_id cands <> [].
Proof. induction cands as [|v r IH]; cbn [detect_machine_id].
  - split; [exact unknown_chars | discriminate].
  - destruct (normalize_machine_id v) as [|c t] eqn:E; cbn [is_empty]; [exact IH|].
    split; [rewrite <- E; apply normalize_chars | discriminate]. Qed.

Theorem engine_machine_id_chars o cands :
  forallb is_mid_char (engine_machine_id o cands) = true /\ engine_machine_id o cands <> [].
Proof. unfold engine_machine_id. destruct o as [m|]; [|apply detect_chars].
  destruct (normalize_machine_id m) as [|c t] eqn:E; cbn [is_empty]; [apply detect_chars|].
  split; [rewrite <- E; apply normalize_chars | discriminate]. Qed.

Theorem engine_machine_id_safe o cands : safe_component (engine_machine_id o cands) = true.
Proof. destruct (engine_machine_id_chars o cands) as [H1 H2]. apply mid_chars_safe; assumption. Qed.

(* an override that normalises to something non-empty wins; it is a fixed point afterwards *)
Theorem engine_machine_id_override m cands : normalize_machine_id m <> [] ->
  engine_machine_id (Some m) cands = normalize_machine_id m.
Proof. unfold engine_machine_id. destruct (normalize_machine_id m); [congruence|reflexivity]. Qed.

Theorem engine_machine_id_stable o cands cands' :
  engine_machine_id (Some (engine_machine_id o cands)) cands' = engine_machine_id o cands.
Proof. destruct (engine_machine_id_chars o cands) as [Hc Hne]. set (y := engine_machine_id o cands) in *.
  assert (E : normalize_machine_id y = y).
  { unfold normalize_machine_id. rewrite (trim_id y Hc), (to_lowercase_id y Hc), (norm_go_id false y Hc).
    (* y has no edge dash: it is a normal form or "unknown" *)
    unfold y, engine_machine_id.
    assert (D : forall cs, trim_matches is_dash (detect_machine_id cs) = detect_machine_id cs).
    { induction cs as [|v r IH]; cbn; [vm_compute; reflexivity|].
      destruct (normalize_machine_id v) as [|c t] eqn:Ev; cbn [is_empty]; [exact IH|]. rewrite <- Ev.
      destruct (normalize_no_edge_dash v) as [Hh Hl]. apply trim_matches_id.
      - intros c0 r0 E0. specialize (Hh c0 r0 E0). unfold is_dash. lia.
      - intros l0 c0 E0. specialize (Hl l0 c0 E0). unfold is_dash. lia. }
    destruct o as [m|]; [|apply D].
    destruct (normalize_machine_id m) as [|c t] eqn:Em; cbn [is_empty]; [apply D|]. rewrite <- Em.
    destruct (normalize_no_edge_dash m) as [Hh Hl]. apply trim_matches_id.
    - intros c0 r0 E0. specialize (Hh c0 r0 E0). unfold is_dash. lia.
    - intros l0 c0 E0. specialize (Hl l0 c0 E0). unfold is_dash. lia. }
  unfold engine_machine_id at 1. rewrite E. destruct y; [congruence|reflexivity]. Qed.

(* ---- project id ---- *)
Lemma hex_is_mid c : is_hex_lower c = true -> is_mid_char c = true.
Proof. unfold is_hex_lower, is_mid_char, is_ascii_lower, is_ascii_digit. lia. Qed.

Lemma forallb_firstn (P : N -> bool) n x : forallb P x = true -> forallb P (firstn n x) = true.
Proof. revert x. induction n as [|n IH]; intros [|c r]; cbn; try reflexivity. intros H. apply andb_prop in H. destruct H as [Hc Hr].
  rewrite Hc, (IH r Hr). reflexivity. Qed.

Theorem project_id_safe sha : sha_ok sha -> forall basis,
  length (project_id sha basis) = 16%nat /\ forallb is_hex_lower (project_id sha basis) = true
  /\ safe_component (project_id sha basis) = true.
Proof. intros Hs basis. destruct (Hs basis) as [Hl Hh]. unfold project_id.
  assert (L : length (firstn 16 (sha basis)) = 16%nat) by (rewrite firstn_length, Hl; reflexivity).
  split; [exact L|]. split; [apply forallb_firstn; exact Hh|].
  apply mid_chars_safe.
  - apply forallb_firstn. revert Hh. apply forallb_impl. exact hex_is_mid.
  - intros E. rewrite E in L. discriminate. Qed.

(* ---- the directories below which overlays live ---- *)
Theorem scope_base_safe sha o cands basis sc : sha_ok sha ->
  forallb safe_component (scope_base (engine_machine_id o cands) (project_id sha basis) sc) = true.
Proof. intros Hs. destruct sc; cbn [scope_base forallb].
  - reflexivity.
  - rewrite engine_machine_id_safe. reflexivity.
  - destruct (project_id_safe sha Hs basis) as [_ [_ H]]. rewrite H. reflexivity. Qed.

(* ---- every component of a resolved overlay directory (below the config repo) is a safe one ---- *)
Lemma safe_component_legacy v : safe_component v = true -> legacy_safe v = true.
Proof. unfold safe_component, legacy_safe. intros H. repeat (apply andb_prop in H; destruct H as [H ?]).
  repeat (apply andb_true_intro; split); assumption. Qed.

Lemma overlay_dir_name_legacy_safe sha (Hs : sha_ok sha) ex id : legacy_safe (overlay_dir_name sha ex id) = true.
Proof.
  assert (K : forall max, legacy_safe (fs_key_with sha max id) = true).
  { intros max. apply keep_legacy_safe.
    - unfold fs_key_with, dashdash. destruct (key_prefix max id); discriminate.
    - apply fs_key_with_keep. exact Hs. }
  unfold overlay_dir_name, fs_key, fs_key_unbounded.
  destruct (ex _); [apply K|].
  destruct (_ && ex _); [apply K|].
  destruct (legacy_safe id) eqn:L; cbn [andb]; [|apply K].
  destruct (ex id); [exact L | apply K]. Qed.

Theorem overlay_dir_for_safe sha o cands basis ex sc id : sha_ok sha ->
  forallb legacy_safe (overlay_dir_for sha (engine_machine_id o cands) (project_id sha basis) ex sc id) = true.
Proof. intros Hs. unfold overlay_dir_for. rewrite forallb_app. cbn [forallb].
  rewrite (overlay_dir_name_legacy_safe sha Hs). rewrite andb_true_r.
  pose proof (scope_base_safe sha o cands basis sc Hs) as B. revert B.
  generalize (scope_base (engine_machine_id o cands) (project_id sha basis) sc) as l.
  induction l as [|v r IH]; cbn [forallb]; [reflexivity|]. intros H. apply andb_prop in H. destruct H as [Hv Hr].
  rewrite (safe_component_legacy v Hv), (IH Hr). reflexivity. Qed.
