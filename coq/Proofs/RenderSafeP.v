(* Proofs/RenderSafeP.v — C03: every emit of every adapter is <declared root>/<safe segments>;
   dedup_roots leaves one root per (target, path); best root and manifest relpaths. *)
From AP Require Import Base.Str Base.StrFacts Base.PathR Base.PathRFacts Base.Sorting Gen.Tables Model.Render Proofs.RenderP.
From Coq Require Import Lia ZifyBool Sorting.Sorted Sorting.Permutation.
Open Scope N_scope.

(* ---------- hypotheses about the inputs ---------- *)

(* a file-system name: what readdir can return *)
Definition name_okb (n : str) : bool :=
  negb (is_empty n) && negb (mem_char 47 n) && negb (str_eqb n dot) && negb (str_eqb n dotdot).
Definition file_ok (f : file) : Prop := f_rel f <> [] /\ Forall (fun n => name_okb n = true) (f_rel f).
Definition module_ok (m : module) : Prop :=
  Forall file_ok (m_files m) /\ forallb is_hex_lower (m_h10 m) = true.
Definition env_ok (e : env) : Prop := e_home e <> [] /\ e_project e <> [].

(* what validate_manifest guarantees about a skill id *)
Definition skill_id_ok (m : module) : Prop :=
  m_type m = TSkill -> forall pre name, split_once 58 (m_id m) = Some (pre, name) -> safe_skill_name name = true.

(* ---------- characters ---------- *)

Lemma mem_char_false c x : mem_char c x = false <-> ~ In c x.
Proof.
  unfold mem_char. induction x as [|a r IH]; simpl; [tauto|].
  rewrite orb_false_iff, IH. split.
  - intros [H1 H2] [H|H]; [subst; rewrite N.eqb_refl in H1; discriminate|contradiction].
  - intros H. split; [apply N.eqb_neq; intros ->; apply H; left; reflexivity|intros Hin; apply H; right; exact Hin].
Qed.

Lemma mem_char_true c x : mem_char c x = true <-> In c x.
Proof.
  destruct (mem_char c x) eqn:E; split; intros H; try reflexivity; try discriminate.
  - destruct (in_dec N.eq_dec c x) as [Hi|Hn]; [exact Hi|]. apply mem_char_false in Hn. congruence.
  - apply mem_char_false in E. contradiction.
Qed.

Definition clean (q : str) : Prop := ~ In 47 q /\ ~ In 92 q.

Lemma split_on_piece_chars c q : forall x, In x (split_on c q) -> ~ In c x /\ forall ch, In ch x -> In ch q.
Proof.
  induction q as [|a r IH]; simpl; intros x Hx.
  - destruct Hx as [ <- |[]]. split; [intros []|intros ch []].
  - destruct (a =? c) eqn:E.
    + destruct Hx as [ <- |Hx]; [split; [intros []|intros ch []]|].
      destruct (IH x Hx) as [H1 H2]. split; [exact H1|intros ch Hc; right; apply H2; exact Hc].
    + destruct (split_on c r) as [|h t] eqn:Es.
      * destruct Hx as [ <- |[]]. split; [intros [H|[]]; apply N.eqb_neq in E; congruence|intros ch [ <- |[]]; left; reflexivity].
      * destruct Hx as [ <- |Hx].
        -- destruct (IH h (or_introl eq_refl)) as [H1 H2]. split.
           ++ intros [H|H]; [apply N.eqb_neq in E; congruence|contradiction].
           ++ intros ch [ <- |Hc]; [left; reflexivity|right; apply H2; exact Hc].
        -- destruct (IH x (or_intror Hx)) as [H1 H2]. split; [exact H1|intros ch Hc; right; apply H2; exact Hc].
Qed.

(* ---------- safe segments ---------- *)

Definition seg_clean (q : str) : Prop := seg_safe q = true /\ ~ In 92 q.

(* the Normal components a clean segment contributes *)
Definition nice (c : comp) : Prop :=
  match c with CNormal n => n <> [] /\ ~ In 47 n /\ ~ In 92 n /\ n <> dotdot | _ => False end.

Lemma nice_normal c : nice c -> is_normal c = true.
Proof. destruct c; simpl; tauto. Qed.

Lemma seg_clean_nice q : seg_clean q -> Forall nice (raw_comps q).
Proof.
  intros [Hs Hb]. unfold seg_safe in Hs. apply andb_true_iff in Hs as [_ Hs]. rewrite forallb_forall in Hs.
  apply Forall_forall. intros x Hx. unfold raw_comps in Hx. apply in_flat_map in Hx as [p [Hp Hx]].
  destruct (split_on_piece_chars 47 q p Hp) as [Hn Hsub]. specialize (Hs p Hp).
  unfold piece_comp in Hx. destruct (is_empty p) eqn:Ee; [contradiction|].
  destruct (str_eqb p dot); [contradiction|]. destruct (str_eqb p dotdot) eqn:Ed; [discriminate|].
  destruct Hx as [ <- |[]]. simpl. repeat split.
  - intros ->. discriminate.
  - exact Hn.
  - intros H. apply Hb. apply Hsub. exact H.
  - intros ->. rewrite str_eqb_refl in Ed. discriminate.
Qed.

Lemma seg_safe_single n : ~ In 47 n -> n <> dotdot -> seg_safe n = true.
Proof.
  intros H47 Hdd. unfold seg_safe. rewrite split_on_no_sep by exact H47. simpl.
  assert (Ha : is_abs n = false).
  { destruct n as [|c r]; [reflexivity|]. simpl. apply N.eqb_neq. intros ->. apply H47. left. reflexivity. }
  rewrite Ha. simpl. destruct (str_eqb n dotdot) eqn:E; [apply str_eqb_eq in E; contradiction|reflexivity].
Qed.

Lemma name_okb_props n : name_okb n = true -> n <> [] /\ ~ In 47 n /\ n <> dot /\ n <> dotdot.
Proof.
  unfold name_okb. intros H. repeat (apply andb_true_iff in H as [H ?]).
  repeat split.
  - intros ->. discriminate.
  - apply mem_char_false. destruct (mem_char 47 n); [discriminate|reflexivity].
  - intros ->. discriminate.
  - intros ->. discriminate.
Qed.

Lemma In_has_char {A} (x : A) l : In x l -> l <> [].
Proof. destruct l; [intros []|discriminate]. Qed.

Lemma not_dotdot_by_char ch q : In ch q -> ch <> 46 -> q <> dotdot.
Proof. intros Hin Hne ->. destruct Hin as [H|[H|[]]]; congruence. Qed.

(* --- literals --- *)
Ltac lit_clean := split; [vm_compute; reflexivity|vm_compute; intuition discriminate].

Lemma lit_agents : seg_clean agents_md. Proof. lit_clean. Qed.
Lemma lit_copilot : seg_clean (s "copilot-instructions.md"). Proof. lit_clean. Qed.
Lemma lit_guidelines : seg_clean (s "guidelines.md"). Proof. lit_clean. Qed.
Lemma lit_rules : seg_clean (s ".rules"). Proof. lit_clean. Qed.

(* --- sanitised ids --- *)
Lemma sanitize_char_not c : sanitize_char c <> 46 /\ sanitize_char c <> 47 /\ sanitize_char c <> 92.
Proof.
  unfold sanitize_char, is_ascii_alnum, is_ascii_digit, is_ascii_upper, is_ascii_lower.
  destruct (((48 <=? c) && (c <=? 57) || (65 <=? c) && (c <=? 90) || (97 <=? c) && (c <=? 122)) || (c =? 45) || (c =? 95)) eqn:E;
    [|repeat split; discriminate].
  repeat split; intros ->; vm_compute in E; discriminate.
Qed.

Lemma sanitize_not_in x ch : ch = 46 \/ ch = 47 \/ ch = 92 -> ~ In ch (sanitize x).
Proof.
  intros Hch Hin. unfold sanitize in Hin. apply in_map_iff in Hin as [c [Hc _]].
  destruct (sanitize_char_not c) as [H1 [H2 H3]]. destruct Hch as [ -> |[ -> | -> ]]; congruence.
Qed.

Lemma sanitize_seg_clean x : seg_clean (sanitize x).
Proof.
  split; [|apply sanitize_not_in; auto].
  apply seg_safe_single; [apply sanitize_not_in; auto|].
  intros H. apply (sanitize_not_in x 46); [auto|]. rewrite H. left. reflexivity.
Qed.

(* --- skill names --- *)
Lemma skill_name_clean m : skill_id_ok m -> m_type m = TSkill -> seg_clean (skill_name m).
Proof.
  intros Hok Ht. unfold skill_name. destruct (split_once 58 (m_id m)) as [[pre name]|] eqn:E.
  - specialize (Hok Ht pre name E). unfold safe_skill_name in Hok.
    apply andb_true_iff in Hok as [Hok H3]. apply andb_true_iff in Hok as [H1 H2].
    split.
    + unfold seg_safe. rewrite H1. simpl. rewrite forallb_forall. intros c Hc.
      destruct (str_eqb c dotdot) eqn:Ec; [|reflexivity].
      exfalso. assert (Hex : existsb (fun c => str_eqb c dotdot) (split_on 47 name) = true)
        by (apply existsb_exists; exists c; split; assumption).
      rewrite Hex in H3. discriminate.
    + apply mem_char_false. destruct (mem_char 92 name); [discriminate|reflexivity].
  - apply sanitize_seg_clean.
Qed.

(* --- relative paths of module files --- *)
Lemma replace_char_id a b x : ~ In a x -> replace_char a b x = x.
Proof.
  unfold replace_char. induction x as [|c r IH]; intros H; simpl; [reflexivity|].
  destruct (c =? a) eqn:E; [apply N.eqb_eq in E; subst; exfalso; apply H; left; reflexivity|].
  rewrite IH; [reflexivity|]. intros Hin. apply H. right. exact Hin.
Qed.

Lemma join_chars (sep : str) (l : list str) ch : In ch (Str.join sep l) -> In ch sep \/ exists n, In n l /\ In ch n.
Proof.
  induction l as [|a r IH]; simpl; [intros []|].
  destruct r as [|b r'].
  - intros H. right. exists a. split; [left; reflexivity|exact H].
  - intros H. apply in_app_or in H as [H|H]; [right; exists a; split; [left; reflexivity|exact H]|].
    apply in_app_or in H as [H|H]; [left; exact H|].
    destruct (IH H) as [Hs|[n [Hn Hc]]]; [left; exact Hs|right; exists n; split; [right; exact Hn|exact Hc]].
Qed.

Lemma join_head (sep : str) (a : str) (r : list str) : a <> [] -> exists t, Str.join sep (a :: r) = hd 0 a :: t.
Proof.
  intros Ha. destruct a as [|c a']; [congruence|]. destruct r; simpl; eexists; reflexivity.
Qed.

Lemma rel_string_clean f : file_ok f -> has_backslash f = false -> seg_clean (rel_string f).
Proof.
  intros [Hne Hall] Hb. unfold rel_string.
  assert (Hno92 : forall n, In n (f_rel f) -> ~ In 92 n).
  { intros n Hn. apply mem_char_false. unfold has_backslash in Hb.
    destruct (mem_char 92 n) eqn:E; [|reflexivity].
    assert (X : existsb (mem_char 92) (f_rel f) = true) by (apply existsb_exists; exists n; split; assumption). congruence. }
  assert (Hj92 : ~ In 92 (Str.join [47] (f_rel f))).
  { intros H. apply join_chars in H as [[H|[]]|[n [Hn Hc]]]; [discriminate|]. apply (Hno92 n Hn Hc). }
  rewrite replace_char_id by exact Hj92. split; [|exact Hj92].
  rewrite Forall_forall in Hall.
  unfold seg_safe. rewrite split_on_join.
  - apply andb_true_iff. split.
    + destruct (f_rel f) as [|a r] eqn:Er; [congruence|].
      destruct (name_okb_props a (Hall a (or_introl eq_refl))) as [Ha [H47 _]].
      destruct (join_head [47] a r Ha) as [t Ht]. rewrite Ht. simpl.
      destruct a as [|c a']; [congruence|]. simpl. apply negb_true_iff. apply N.eqb_neq. intros ->. apply H47. left. reflexivity.
    + rewrite forallb_forall. intros n Hn. destruct (name_okb_props n (Hall n Hn)) as [_ [_ [_ Hdd]]].
      destruct (str_eqb n dotdot) eqn:E; [apply str_eqb_eq in E; contradiction|reflexivity].
  - exact Hne.
  - apply Forall_forall. intros n Hn. apply (name_okb_props n (Hall n Hn)).
Qed.

(* --- file names (prompts, commands) --- *)
Lemma file_name_ok f default : file_ok f -> name_okb (file_name f default) = true /\ In (file_name f default) (f_rel f).
Proof.
  intros [Hne Hall]. unfold file_name. destruct (rev (f_rel f)) as [|n r] eqn:E.
  - exfalso. apply Hne. rewrite <- (rev_involutive (f_rel f)), E. reflexivity.
  - assert (Hin : In n (f_rel f)) by (apply in_rev; rewrite E; left; reflexivity).
    rewrite Forall_forall in Hall. split; [apply Hall; exact Hin|exact Hin].
Qed.

Lemma name_seg_clean n : name_okb n = true -> ~ In 92 n -> seg_clean n.
Proof.
  intros Hn Hb. destruct (name_okb_props n Hn) as [_ [H47 [_ Hdd]]]. split; [apply seg_safe_single; assumption|exact Hb].
Qed.

Lemma strip_prefix_some p : forall x r, strip_prefix p x = Some r -> x = p ++ r.
Proof.
  induction p as [|a p IH]; intros x r H; simpl in *; [congruence|].
  destruct x as [|b x']; [discriminate|]. destruct (a =? b) eqn:E; [|discriminate].
  apply N.eqb_eq in E. subst b. f_equal. apply IH. exact H.
Qed.

Lemma strip_suffix_some p x r : strip_suffix p x = Some r -> x = r ++ p.
Proof.
  unfold strip_suffix. destruct (strip_prefix (rev p) (rev x)) as [q|] eqn:E; [|discriminate].
  intros H. inversion H; subst. apply strip_prefix_some in E.
  rewrite <- (rev_involutive x), E, rev_app_distr, rev_involutive. reflexivity.
Qed.

Lemma vscode_name_clean n : name_okb n = true -> ~ In 92 n -> seg_clean (vscode_prompt_name n).
Proof.
  intros Hn Hb. unfold vscode_prompt_name. destruct (ends_with (s ".prompt.md") n); [apply name_seg_clean; assumption|].
  destruct (name_okb_props n Hn) as [_ [H47 _]].
  assert (Hlit : forall ch, In ch (s ".prompt.md") -> ch <> 47 /\ ch <> 92).
  { intros ch H. vm_compute in H. intuition (subst; discriminate). }
  assert (Hp : In 112 (s ".prompt.md")) by (vm_compute; tauto).
  destruct (strip_suffix (s ".md") n) as [stem|] eqn:E.
  - apply strip_suffix_some in E.
    assert (Hsub : forall ch, In ch stem -> In ch n) by (intros ch H; rewrite E; apply in_or_app; left; exact H).
    split.
    + apply seg_safe_single.
      * intros H. apply in_app_or in H as [H|H]; [apply H47, Hsub, H|destruct (Hlit 47 H) as [X _]; apply X; reflexivity].
      * apply (not_dotdot_by_char 112); [apply in_or_app; right; exact Hp|discriminate].
    + intros H. apply in_app_or in H as [H|H]; [apply Hb, Hsub, H|destruct (Hlit 92 H) as [_ X]; apply X; reflexivity].
  - split.
    + apply seg_safe_single.
      * intros H. apply in_app_or in H as [H|H]; [apply H47, H|destruct (Hlit 47 H) as [X _]; apply X; reflexivity].
      * apply (not_dotdot_by_char 112); [apply in_or_app; right; exact Hp|discriminate].
    + intros H. apply in_app_or in H as [H|H]; [apply Hb, H|destruct (Hlit 92 H) as [_ X]; apply X; reflexivity].
Qed.

(* --- cursor rule names --- *)
Lemma hex_not ch x : forallb is_hex_lower x = true -> In ch x -> ch <> 47 /\ ch <> 92.
Proof.
  intros H Hin. rewrite forallb_forall in H. specialize (H ch Hin).
  unfold is_hex_lower, is_ascii_digit in H. split; intros ->; vm_compute in H; discriminate.
Qed.

Lemma firstn_in {A} (x : A) n : forall l, In x (firstn n l) -> In x l.
Proof.
  induction n as [|n IH]; intros l H; simpl in H; [contradiction|].
  destruct l; [contradiction|]. destruct H as [H|H]; [left; exact H|right; apply IH; exact H].
Qed.

Lemma cursor_name_clean m : forallb is_hex_lower (m_h10 m) = true -> seg_clean (fs_key m ++ cursor_rule_ext).
Proof.
  intros Hh.
  assert (Hchars : forall ch, In ch (fs_key m ++ cursor_rule_ext) -> ch <> 47 /\ ch <> 92).
  { intros ch H. apply in_app_or in H as [H|H].
    - unfold fs_key in H. apply in_app_or in H as [H|H].
      + apply firstn_in in H. destruct (is_empty (sanitize (m_id m))).
        * vm_compute in H. intuition (subst; discriminate).
        * split; intros ->; [apply (sanitize_not_in (m_id m) 47)|apply (sanitize_not_in (m_id m) 92)]; auto.
      + apply in_app_or in H as [H|H]; [vm_compute in H; intuition (subst; discriminate)|apply (hex_not ch _ Hh H)].
    - vm_compute in H. intuition (subst; discriminate). }
  assert (Hm : In 109 (fs_key m ++ cursor_rule_ext)) by (apply in_or_app; right; vm_compute; tauto).
  split.
  - apply seg_safe_single; [intros H; destruct (Hchars 47 H) as [X _]; apply X; reflexivity|].
    apply (not_dotdot_by_char 109); [exact Hm|discriminate].
  - intros H. destruct (Hchars 92 H) as [_ X]. apply X. reflexivity.
Qed.

(* ---------- materialize ---------- *)

Lemma materialize_ok m fs : materialize m = Ok fs ->
  fs = copied (m_files m) /\ existsb has_backslash fs = false /\ validate_tree m fs = None.
Proof.
  unfold materialize. destruct (validate_tree m (copied (m_files m))) eqn:E; [discriminate|].
  intros H. inversion H; subst. split; [reflexivity|]. split; [|exact E].
  unfold validate_tree in E. destruct (existsb has_backslash (copied (m_files m))); [discriminate|reflexivity].
Qed.

Lemma materialize_file_ok m fs f : module_ok m -> materialize m = Ok fs -> In f fs -> file_ok f /\ has_backslash f = false.
Proof.
  intros [Hall _] Hm Hf. destruct (materialize_ok _ _ Hm) as [-> [Hb _]].
  split.
  - rewrite Forall_forall in Hall. apply Hall. unfold copied in Hf. apply filter_In in Hf. apply Hf.
  - destruct (has_backslash f) eqn:E; [|reflexivity].
    assert (X : existsb has_backslash (copied (m_files m)) = true) by (apply existsb_exists; exists f; split; assumption).
    congruence.
Qed.

Lemma min_file_in f r : In (min_file f r) (f :: r).
Proof.
  revert f. induction r as [|g r IH]; intros f; simpl; [left; reflexivity|].
  destruct (IH (if rel_ltb (f_rel g) (f_rel f) then g else f)) as [H|H]; [|right; right; exact H].
  destruct (rel_ltb (f_rel g) (f_rel f)); [right; left; exact H|left; exact H].
Qed.

Lemma first_file_in fs f : first_file fs = Some f -> In f fs.
Proof. destruct fs as [|g r]; simpl; [discriminate|]. intros H. inversion H. apply min_file_in. Qed.

(* ---------- membership in the step lists ---------- *)

Lemma when_in {A} (b : bool) (l : list A) x : In x (when b l) <-> b = true /\ In x l.
Proof. destruct b; simpl; split; intros H; try tauto. destruct H; discriminate. Qed.

Lemma agg_steps_in t sep parts dests em : In (Emit em) (agg_steps t sep parts dests) ->
  exists d, In d dests /\ em = mkEmit t (fst d) [snd d] (combine sep parts) (map fst parts).
Proof.
  unfold agg_steps. destruct parts; [intros []|]. intros H. apply in_map_iff in H as [d [Hd Hin]].
  exists d. split; [exact Hin|]. inversion Hd. reflexivity.
Qed.

Lemma skill_steps_in t m dests em : In (Emit em) (skill_steps t m dests) ->
  exists fs f d, materialize m = Ok fs /\ In f fs /\ In d dests /\
                 em = mkEmit t d [skill_name m; rel_string f] (f_bytes f) [m_id m].
Proof.
  unfold skill_steps. destruct (materialize m) as [fs|c] eqn:E; [|intros [H|[]]; discriminate].
  unfold skill_emits. intros H. apply in_flat_map in H as [f [Hf H]]. apply in_map_iff in H as [d [Hd Hin]].
  exists fs, f, d. repeat split; try assumption. inversion Hd. reflexivity.
Qed.

Lemma single_steps_in t m default rename dests em : In (Emit em) (single_steps t m default rename dests) ->
  exists fs f d, materialize m = Ok fs /\ first_file fs = Some f /\ In d dests /\
                 em = mkEmit t d [rename (file_name f default)] (f_bytes f) [m_id m].
Proof.
  unfold single_steps. destruct (materialize m) as [fs|c] eqn:E; [|intros [H|[]]; discriminate].
  destruct (first_file fs) as [f|] eqn:Ef; [|intros [H|[]]; discriminate].
  intros H. apply in_map_iff in H as [d [Hd Hin]]. exists fs, f, d. repeat split; try assumption. inversion Hd. reflexivity.
Qed.

Lemma mods_for_in t ty ms m : In m (mods_for t ty ms) -> In m ms /\ m_type m = ty.
Proof.
  unfold mods_for. intros H. apply filter_In in H as [H1 H2]. apply andb_true_iff in H2 as [H2 _].
  split; [exact H1|]. destruct (m_type m), ty; simpl in H2; try discriminate; reflexivity.
Qed.

(* ---------- every emit of an adapter: declared root + clean segments ---------- *)

Definition emit_wf (roots : list root) (em : emit) : Prop :=
  e_root em <> [] /\ (exists sc, In (mkRoot (e_target em) (e_root em) sc) roots) /\ Forall seg_clean (e_segs em).

Definition mods_ok (ms : list module) : Prop := forall m, In m ms -> module_ok m /\ skill_id_ok m.

Lemma expand_tilde_nonempty e x : env_ok e -> x <> [] -> expand_tilde e x <> [].
Proof.
  intros [Hh _] Hx. unfold expand_tilde. destruct (strip_prefix (s "~/") x); [apply push_nonempty; exact Hh|exact Hx].
Qed.

Lemma nonblank_nonempty x : nonblank x = true -> x <> [].
Proof. intros H ->. vm_compute in H. discriminate. Qed.

Lemma codex_home_nonempty e opts : env_ok e -> codex_home e opts <> [].
Proof.
  intros He. unfold codex_home.
  assert (Hd : expand_tilde e codex_home_default <> []) by (apply expand_tilde_nonempty; [exact He|vm_compute; discriminate]).
  assert (Hf : match e_codex_env e with
               | Some v => if nonblank v then expand_tilde e v else expand_tilde e codex_home_default
               | None => expand_tilde e codex_home_default end <> []).
  { destruct (e_codex_env e) as [v|]; [|exact Hd]. destruct (nonblank v) eqn:E; [|exact Hd].
    apply expand_tilde_nonempty; [exact He|apply nonblank_nonempty; exact E]. }
  destruct (assoc codex_home_option_name opts) as [[b|v|]|]; try exact Hf.
  destruct (nonblank v) eqn:E; [|exact Hf]. apply expand_tilde_nonempty; [exact He|apply nonblank_nonempty; exact E].
Qed.

Lemma skill_emit_wf roots t m dests em :
  In (Emit em) (skill_steps t m dests) ->
  module_ok m -> skill_id_ok m -> m_type m = TSkill ->
  (forall d, In d dests -> d <> [] /\ exists sc, In (mkRoot t d sc) roots) ->
  emit_wf roots em.
Proof.
  intros H Hm Hid Hty Hd. apply skill_steps_in in H as [fs [f [d [Hmat [Hf [Hdin ->]]]]]].
  destruct (Hd d Hdin) as [Hne Hroot]. destruct (materialize_file_ok m fs f Hm Hmat Hf) as [Hfo Hb].
  split; [exact Hne|]. split; [exact Hroot|]. simpl.
  constructor; [apply skill_name_clean; assumption|]. constructor; [apply rel_string_clean; assumption|constructor].
Qed.

Lemma single_emit_wf roots t m default rename dests em :
  In (Emit em) (single_steps t m default rename dests) ->
  module_ok m ->
  (forall n, name_okb n = true -> ~ In 92 n -> seg_clean (rename n)) ->
  (forall d, In d dests -> d <> [] /\ exists sc, In (mkRoot t d sc) roots) ->
  emit_wf roots em.
Proof.
  intros H Hm Hren Hd. apply single_steps_in in H as [fs [f [d [Hmat [Hf [Hdin ->]]]]]].
  destruct (Hd d Hdin) as [Hne Hroot]. apply first_file_in in Hf.
  destruct (materialize_file_ok m fs f Hm Hmat Hf) as [Hfo Hb].
  destruct (file_name_ok f default Hfo) as [Hn Hin].
  split; [exact Hne|]. split; [exact Hroot|]. simpl. constructor; [|constructor].
  apply Hren; [exact Hn|]. apply mem_char_false. unfold has_backslash in Hb.
  destruct (mem_char 92 (file_name f default)) eqn:E; [|reflexivity].
  assert (X : existsb (mem_char 92) (f_rel f) = true) by (apply existsb_exists; exists (file_name f default); split; assumption).
  congruence.
Qed.

Lemma agg_emit_wf roots t sep parts dests em :
  In (Emit em) (agg_steps t sep parts dests) ->
  (forall d, In d dests -> fst d <> [] /\ seg_clean (snd d) /\ exists sc, In (mkRoot t (fst d) sc) roots) ->
  emit_wf roots em.
Proof.
  intros H Hd. apply agg_steps_in in H as [d [Hdin ->]]. destruct (Hd d Hdin) as [Hne [Hc Hroot]].
  split; [exact Hne|]. split; [exact Hroot|]. simpl. constructor; [exact Hc|constructor].
Qed.

Ltac in_roots := repeat (apply in_or_app; first [left; apply when_in; split; [assumption|left; reflexivity] | right]);
                 try (apply when_in; split; [assumption|left; reflexivity]).

Lemma codex_wf e t ms em : env_ok e -> mods_ok ms ->
  In (Emit em) (snd (codex_adapter e t ms)) -> emit_wf (fst (codex_adapter e t ms)) em.
Proof.
  intros He Hms. unfold codex_adapter. cbn [fst snd].
  set (home := codex_home e (t_opts t)). set (proj := e_project e).
  assert (Hh : home <> []) by (apply codex_home_nonempty; exact He).
  assert (Hp : proj <> []) by apply He.
  set (w1 := flag t (s "write_repo_skills") opt_codex_write_repo_skills).
  set (w2 := flag t (s "write_user_skills") opt_codex_write_user_skills).
  set (w3 := flag t (s "write_user_prompts") opt_codex_write_user_prompts).
  set (w4 := flag t (s "write_agents_global") opt_codex_write_agents_global).
  set (w5 := flag t (s "write_agents_repo_root") opt_codex_write_agents_repo_root).
  destruct (collect_parts (mods_for t_codex TInstructions ms)) as [parts|c]; [|intros [H|[]]; discriminate].
  intros H. apply in_app_or in H as [H|H]; [|apply in_app_or in H as [H|H]].
  - eapply agg_emit_wf; [exact H|]. intros d Hd. apply in_app_or in Hd as [Hd|Hd]; apply when_in in Hd as [Hw [ <- |[]]]; cbn [fst snd].
    + split; [exact Hh|]. split; [apply lit_agents|]. exists false. apply in_or_app. left. apply when_in. split; [exact Hw|left; reflexivity].
    + split; [exact Hp|]. split; [apply lit_agents|]. exists false.
      do 3 (apply in_or_app; right). apply in_or_app. left. apply when_in. split; [exact Hw|left; reflexivity].
  - apply in_flat_map in H as [m [Hm H]]. apply mods_for_in in Hm as [Hm Hty].
    destruct w3 eqn:Ew3; [|destruct H].
    eapply single_emit_wf; [exact H|apply (Hms m Hm)|intros n Hn Hb; apply name_seg_clean; assumption|].
    intros d [ <- |[]]. split; [apply push_nonempty; exact Hh|]. exists true.
    apply in_or_app. right. apply in_or_app. left. left. reflexivity.
  - apply in_flat_map in H as [m [Hm H]]. apply mods_for_in in Hm as [Hm Hty].
    eapply skill_emit_wf; [exact H|apply (Hms m Hm)|apply (Hms m Hm)|exact Hty|].
    intros d Hd. apply in_app_or in Hd as [Hd|Hd]; apply when_in in Hd as [Hw [ <- |[]]].
    + split; [apply push_nonempty; exact Hh|]. exists true.
      do 2 (apply in_or_app; right). apply in_or_app. left. apply when_in. split; [exact Hw|left; reflexivity].
    + split; [apply push_nonempty; exact Hp|]. exists true.
      do 4 (apply in_or_app; right). apply when_in. split; [exact Hw|left; reflexivity].
Qed.

Lemma claude_wf e t ms em : env_ok e -> mods_ok ms ->
  In (Emit em) (snd (claude_adapter e t ms)) -> emit_wf (fst (claude_adapter e t ms)) em.
Proof.
  intros He Hms. unfold claude_adapter. cbn [fst snd].
  set (proj := e_project e). assert (Hp : proj <> []) by apply He.
  set (w1 := flag t (s "write_repo_commands") opt_claude_code_write_repo_commands).
  set (w2 := flag t (s "write_user_commands") opt_claude_code_write_user_commands).
  set (w3 := flag t (s "write_repo_skills") opt_claude_code_write_repo_skills).
  set (w4 := flag t (s "write_user_skills") opt_claude_code_write_user_skills).
  assert (Hu1 : expand_tilde e (s "~/.claude/commands") <> []) by (apply expand_tilde_nonempty; [exact He|vm_compute; discriminate]).
  assert (Hu2 : expand_tilde e (s "~/.claude/skills") <> []) by (apply expand_tilde_nonempty; [exact He|vm_compute; discriminate]).
  intros H. apply in_app_or in H as [H|H].
  - apply in_flat_map in H as [m [Hm H]]. apply mods_for_in in Hm as [Hm Hty].
    eapply single_emit_wf; [exact H|apply (Hms m Hm)|intros n Hn Hb; apply name_seg_clean; assumption|].
    intros d Hd. apply in_app_or in Hd as [Hd|Hd]; apply when_in in Hd as [Hw [ <- |[]]].
    + split; [exact Hu1|]. exists true. apply in_or_app. left. apply when_in. split; [exact Hw|left; reflexivity].
    + split; [apply push_nonempty; exact Hp|]. exists true.
      apply in_or_app. right. apply in_or_app. left. apply when_in. split; [exact Hw|left; reflexivity].
  - apply in_flat_map in H as [m [Hm H]]. apply mods_for_in in Hm as [Hm Hty].
    destruct (w4 || w3); [|destruct H].
    eapply skill_emit_wf; [exact H|apply (Hms m Hm)|apply (Hms m Hm)|exact Hty|].
    intros d Hd. apply in_app_or in Hd as [Hd|Hd]; apply when_in in Hd as [Hw [ <- |[]]].
    + split; [exact Hu2|]. exists true.
      do 2 (apply in_or_app; right). apply in_or_app. left. apply when_in. split; [exact Hw|left; reflexivity].
    + split; [apply push_nonempty; exact Hp|]. exists true.
      do 3 (apply in_or_app; right). apply when_in. split; [exact Hw|left; reflexivity].
Qed.

Lemma cursor_wf e t ms em : env_ok e -> mods_ok ms ->
  In (Emit em) (snd (cursor_adapter e t ms)) -> emit_wf (fst (cursor_adapter e t ms)) em.
Proof.
  intros He Hms. unfold cursor_adapter. cbn [fst snd].
  set (w := flag t (s "write_rules") opt_cursor_write_rules).
  intros H. apply in_flat_map in H as [m [Hm H]]. apply mods_for_in in Hm as [Hm _].
  destruct w eqn:Ew; [|destruct H].
  unfold cursor_steps in H. destruct (materialize m) as [fs|c]; [|destruct H as [H|[]]; discriminate].
  destruct (find_file [agents_md] fs) as [f|]; [|destruct H as [H|[]]; discriminate].
  destruct H as [H|[]]. inversion H; subst em. clear H.
  split; [apply push_nonempty; apply He|]. split; [exists true; left; reflexivity|].
  simpl. constructor; [|constructor]. apply cursor_name_clean. apply (Hms m Hm).
Qed.

Lemma vscode_wf e t ms em : env_ok e -> mods_ok ms ->
  In (Emit em) (snd (vscode_adapter e t ms)) -> emit_wf (fst (vscode_adapter e t ms)) em.
Proof.
  intros He Hms. unfold vscode_adapter. cbn [fst snd].
  set (w1 := flag t (s "write_instructions") opt_vscode_write_instructions).
  set (w2 := flag t (s "write_prompts") opt_vscode_write_prompts).
  set (github := push (e_project e) (s ".github")).
  assert (Hg : github <> []) by (apply push_nonempty; apply He).
  destruct (collect_parts (mods_for t_vscode TInstructions ms)) as [parts|c]; [|intros [H|[]]; discriminate].
  intros H. apply in_app_or in H as [H|H].
  - apply when_in in H as [Hw H]. eapply agg_emit_wf; [exact H|].
    intros d [ <- |[]]. cbn [fst snd]. split; [exact Hg|]. split; [apply lit_copilot|].
    exists false. apply in_or_app. left. apply when_in. split; [exact Hw|left; reflexivity].
  - apply in_flat_map in H as [m [Hm H]]. apply mods_for_in in Hm as [Hm Hty].
    destruct w2 eqn:Ew2; [|destruct H].
    eapply single_emit_wf; [exact H|apply (Hms m Hm)|apply vscode_name_clean|].
    intros d [ <- |[]]. split; [apply push_nonempty; exact Hg|]. exists true. apply in_or_app. right. left. reflexivity.
Qed.

Lemma simple_agg_wf tn w sep root_dir scan fname ms em :
  root_dir <> [] -> seg_clean fname ->
  In (Emit em) (snd (simple_agg_adapter tn w sep root_dir scan fname ms)) ->
  emit_wf (fst (simple_agg_adapter tn w sep root_dir scan fname ms)) em.
Proof.
  intros Hr Hf. unfold simple_agg_adapter. cbn [fst snd].
  destruct (collect_parts (when w (mods_for tn TInstructions ms))) as [parts|c]; [|intros [H|[]]; discriminate].
  intros H. apply when_in in H as [Hw H]. eapply agg_emit_wf; [exact H|].
  intros d [ <- |[]]. cbn [fst snd]. split; [exact Hr|]. split; [exact Hf|]. exists scan. rewrite Hw. left. reflexivity.
Qed.

Lemma adapter_wf e ms t em : env_ok e -> mods_ok ms ->
  In (Emit em) (snd (adapter e ms t)) -> emit_wf (fst (adapter e ms t)) em.
Proof.
  intros He Hms. unfold adapter.
  destruct (str_eqb (t_name t) t_codex); [apply codex_wf; assumption|].
  destruct (str_eqb (t_name t) t_claude); [apply claude_wf; assumption|].
  destruct (str_eqb (t_name t) t_cursor); [apply cursor_wf; assumption|].
  destruct (str_eqb (t_name t) t_vscode); [apply vscode_wf; assumption|].
  destruct (str_eqb (t_name t) t_jetbrains).
  { unfold jetbrains_adapter. apply simple_agg_wf; [apply push_nonempty; apply He|apply lit_guidelines]. }
  destruct (str_eqb (t_name t) t_zed).
  { unfold zed_adapter. apply simple_agg_wf; [apply He|apply lit_rules]. }
  intros [].
Qed.

(* the path of a well-formed emit *)
Lemma emit_wf_path roots em : emit_wf roots em ->
  exists ns, components (e_path em) = components (e_root em) ++ ns /\ Forall nice ns.
Proof.
  intros [Hne [_ Hsegs]]. unfold e_path.
  destruct (components_fold_push (e_segs em) (e_root em) Hne) as [_ [ns [Hc [_ Hf]]]].
  - eapply Forall_impl; [|exact Hsegs]. intros q [Hq _]. exact Hq.
  - exists ns. split; [exact Hc|]. subst ns. clear Hc.
    induction Hsegs as [|q r Hq Hr IH]; simpl; [constructor|].
    apply Forall_app. split; [apply seg_clean_nice; exact Hq|exact IH].
Qed.

(* ---------- validate_manifest / select_modules provide [mods_ok] ---------- *)

Lemma check_modules_skill_ok ms : forall seen, check_modules seen ms = None -> Forall skill_id_ok ms.
Proof.
  induction ms as [|m r IH]; intros seen H; [constructor|]. cbn [check_modules] in H.
  destruct (mem_str (m_id m) seen); [discriminate|].
  destruct (mtype_eqb (m_type m) TSkill &&
            match split_once 58 (m_id m) with Some (_, name) => negb (safe_skill_name name) | None => false end) eqn:E; [discriminate|].
  destruct (negb (forallb (fun t => mem_str t compiled_targets) (m_targets m))); [discriminate|].
  constructor; [|eapply IH; exact H].
  intros Hty pre name Hs. rewrite Hty, Hs in E. simpl in E. destruct (safe_skill_name name); [reflexivity|discriminate].
Qed.

Lemma check_modules_nodup ms : forall seen, check_modules seen ms = None ->
  NoDup (map m_id ms) /\ forall m, In m ms -> mem_str (m_id m) seen = false.
Proof.
  induction ms as [|m r IH]; intros seen H; [split; [constructor|intros ? []]|]. cbn [check_modules] in H.
  destruct (mem_str (m_id m) seen) eqn:Es; [discriminate|].
  destruct (mtype_eqb (m_type m) TSkill && _); [discriminate|].
  destruct (negb (forallb (fun t => mem_str t compiled_targets) (m_targets m))); [discriminate|].
  destruct (IH _ H) as [Hnd Hseen]. split.
  - simpl. constructor; [|exact Hnd]. intros Hin. apply in_map_iff in Hin as [m' [Hid Hm']].
    specialize (Hseen m' Hm'). simpl in Hseen. rewrite Hid, str_eqb_refl in Hseen. discriminate.
  - intros m' [ <- |Hm']; [exact Es|]. specialize (Hseen m' Hm'). simpl in Hseen.
    apply orb_false_iff in Hseen. apply Hseen.
Qed.

Lemma validate_skill_ok c : validate_manifest c = None -> Forall skill_id_ok (c_modules c).
Proof.
  unfold validate_manifest. destruct (negb (c_version c =? 1)); [discriminate|].
  destruct (check_targets (sorted_targets c)); [discriminate|].
  destruct (find_profile c (s "default")); [|discriminate]. apply check_modules_skill_ok.
Qed.

Lemma validate_nodup c : validate_manifest c = None -> NoDup (map m_id (c_modules c)).
Proof.
  unfold validate_manifest. destruct (negb (c_version c =? 1)); [discriminate|].
  destruct (check_targets (sorted_targets c)); [discriminate|].
  destruct (find_profile c (s "default")); [|discriminate]. intros H. apply (check_modules_nodup _ _ H).
Qed.

Lemma select_modules_sub c prof ms : select_modules c prof = Some ms -> forall m, In m ms -> In m (c_modules c).
Proof.
  unfold select_modules. destruct (find_profile c prof) as [p|]; [|discriminate].
  intros H m Hm. inversion H; subst ms.
  assert (Hin : In m (filter (selected_by p) (c_modules c)))
    by (eapply Permutation_in; [apply Permutation_sym, isort_perm|exact Hm]).
  apply filter_In in Hin. apply Hin.
Qed.

Definition cfg_ok (c : cfg) : Prop := Forall module_ok (c_modules c).

Lemma mods_ok_of c prof ms : validate_manifest c = None -> cfg_ok c -> select_modules c prof = Some ms -> mods_ok ms.
Proof.
  intros Hv Hc Hs m Hm. pose proof (select_modules_sub _ _ _ Hs m Hm) as Hin.
  pose proof (validate_skill_ok c Hv) as Hsk. rewrite Forall_forall in Hsk. unfold cfg_ok in Hc. rewrite Forall_forall in Hc.
  split; [apply Hc; exact Hin|apply Hsk; exact Hin].
Qed.

(* boolean versions of the input hypotheses (for the non-vacuity examples) *)
Definition file_okb (f : file) : bool :=
  negb (match f_rel f with [] => true | _ => false end) && forallb name_okb (f_rel f).
Definition module_okb (m : module) : bool := forallb file_okb (m_files m) && forallb is_hex_lower (m_h10 m).
Definition cfg_okb (c : cfg) : bool := forallb module_okb (c_modules c).

Lemma cfg_okb_ok c : cfg_okb c = true -> cfg_ok c.
Proof.
  unfold cfg_okb, cfg_ok. rewrite forallb_forall. intros H. apply Forall_forall. intros m Hm.
  specialize (H m Hm). unfold module_okb in H. apply andb_true_iff in H as [H1 H2]. split; [|exact H2].
  rewrite forallb_forall in H1. apply Forall_forall. intros f Hf. specialize (H1 f Hf).
  unfold file_okb in H1. apply andb_true_iff in H1 as [Ha Hb]. split.
  - destruct (f_rel f); [discriminate|discriminate].
  - rewrite forallb_forall in Hb. apply Forall_forall. exact Hb.
Qed.

Lemma load_render_ok c e prof filt D R : load_render c e prof filt = Ok (D, R) ->
  validate_manifest c = None /\ render c e prof filt = Ok (D, R).
Proof.
  unfold load_render, plan_desired. destruct (validate_manifest c); [discriminate|].
  destruct (selected_targets c filt); [|discriminate]. intros H. split; [reflexivity|exact H].
Qed.

(* ---------- validate_manifest does not depend on the order of the module list ---------- *)

Definition module_checks (m : module) : bool :=
  negb (mtype_eqb (m_type m) TSkill &&
        match split_once 58 (m_id m) with Some (_, name) => negb (safe_skill_name name) | None => false end) &&
  forallb (fun t => mem_str t compiled_targets) (m_targets m).

Lemma mem_str_cons_false a b l : mem_str a (b :: l) = false <-> a <> b /\ mem_str a l = false.
Proof.
  simpl. rewrite orb_false_iff. split; intros [H1 H2]; split; try exact H2.
  - intros ->. rewrite str_eqb_refl in H1. discriminate.
  - apply str_eqb_neq. exact H1.
Qed.

Lemma check_modules_none_iff ms : forall seen,
  check_modules seen ms = None <->
  (forall m, In m ms -> mem_str (m_id m) seen = false /\ module_checks m = true) /\ NoDup (map m_id ms).
Proof.
  induction ms as [|m r IH]; intros seen.
  - simpl. split; [intros _; split; [intros ? []|constructor]|reflexivity].
  - cbn [check_modules]. unfold module_checks in *.
    destruct (mem_str (m_id m) seen) eqn:Es.
    { split; [discriminate|]. intros [H _]. destruct (H m (or_introl eq_refl)) as [X _]. congruence. }
    destruct (mtype_eqb (m_type m) TSkill &&
              match split_once 58 (m_id m) with Some (_, name) => negb (safe_skill_name name) | None => false end) eqn:E1.
    { split; [discriminate|]. intros [H _]. destruct (H m (or_introl eq_refl)) as [_ X]. rewrite E1 in X. discriminate. }
    destruct (forallb (fun t => mem_str t compiled_targets) (m_targets m)) eqn:E2; cbn [negb].
    2:{ split; [discriminate|]. intros [H _]. destruct (H m (or_introl eq_refl)) as [_ X]. rewrite E1, E2 in X. discriminate. }
    rewrite IH. split.
    + intros [Hall Hnd]. split.
      * intros m' [ <- |Hm']; [split; [exact Es|rewrite E1, E2; reflexivity]|].
        destruct (Hall m' Hm') as [Hs Hc]. apply mem_str_cons_false in Hs as [_ Hs]. split; assumption.
      * simpl. constructor; [|exact Hnd]. intros Hin. apply in_map_iff in Hin as [m' [Hid Hm']].
        destruct (Hall m' Hm') as [Hs _]. apply mem_str_cons_false in Hs as [Hne _]. congruence.
    + intros [Hall Hnd]. simpl in Hnd. inversion Hnd as [|? ? Hn Hnd']; subst. split; [|exact Hnd'].
      intros m' Hm'. destruct (Hall m' (or_intror Hm')) as [Hs Hc]. split; [|exact Hc].
      apply mem_str_cons_false. split; [|exact Hs]. intros E. apply Hn. rewrite <- E. apply in_map. exact Hm'.
Qed.

Lemma validate_manifest_perm c ms' : Permutation (c_modules c) ms' ->
  validate_manifest c = None -> validate_manifest (with_modules c ms') = None.
Proof.
  intros Hp. unfold validate_manifest, with_modules, sorted_targets, find_profile. simpl.
  destruct (negb (c_version c =? 1)); [discriminate|].
  destruct (check_targets (isort name_leb (c_targets c))); [discriminate|].
  destruct (find (fun p => str_eqb (p_name p) (s "default")) (c_profiles c)); [|discriminate].
  rewrite !check_modules_none_iff. intros [Hall Hnd]. split.
  - intros m Hm. apply Hall. eapply Permutation_in; [apply Permutation_sym; exact Hp|exact Hm].
  - eapply Permutation_NoDup; [apply Permutation_map; exact Hp|exact Hnd].
Qed.

Lemma load_render_perm c ms' e prof filt : Permutation (c_modules c) ms' -> validate_manifest c = None ->
  load_render (with_modules c ms') e prof filt = load_render c e prof filt.
Proof.
  intros Hp Hv. unfold load_render. rewrite Hv, (validate_manifest_perm c ms' Hp Hv).
  apply plan_desired_perm; [exact Hp|apply validate_nodup; exact Hv].
Qed.

(* ---------- provenance: the ids carried by an insert are ids of selected modules ---------- *)

Definition ids_from (ms : list module) (em : emit) : Prop :=
  e_ids em <> [] /\ forall i, In i (e_ids em) -> exists m, In m ms /\ m_id m = i.

Lemma collect_parts_ids l : forall parts, collect_parts l = Ok parts ->
  forall p, In p parts -> exists m, In m l /\ m_id m = fst p.
Proof.
  induction l as [|m r IH]; intros parts H p Hp; simpl in H.
  - inversion H; subst. destruct Hp.
  - destruct (materialize m) as [fs|x]; [|discriminate].
    destruct (find_file [agents_md] fs) as [f|].
    + destruct (f_utf8 f); [|discriminate]. destruct (collect_parts r) as [ps|y] eqn:Er; [|discriminate].
      inversion H; subst parts. destruct Hp as [ <- |Hp]; [exists m; split; [left; reflexivity|reflexivity]|].
      destruct (IH ps eq_refl p Hp) as [m' [Hm' Hid]]. exists m'. split; [right; exact Hm'|exact Hid].
    + destruct (IH parts H p Hp) as [m' [Hm' Hid]]. exists m'. split; [right; exact Hm'|exact Hid].
Qed.

Lemma agg_ids ms tn sep l parts dests em :
  collect_parts l = Ok parts -> (forall m, In m l -> In m ms) ->
  In (Emit em) (agg_steps tn sep parts dests) -> ids_from ms em.
Proof.
  intros Hc Hsub H. assert (Hne : parts <> []) by (intros ->; simpl in H; destruct H).
  apply agg_steps_in in H as [d [_ ->]]. split; simpl.
  - destruct parts; [congruence|discriminate].
  - intros i Hi. apply in_map_iff in Hi as [p [Hp Hin]]. destruct (collect_parts_ids l parts Hc p Hin) as [m [Hm Hid]].
    exists m. split; [apply Hsub; exact Hm|congruence].
Qed.

Lemma single_id ms m : In m ms -> forall em, e_ids em = [m_id m] -> ids_from ms em.
Proof.
  intros Hm em He. split; [rewrite He; discriminate|]. intros i Hi. rewrite He in Hi. destruct Hi as [ <- |[]].
  exists m. split; [exact Hm|reflexivity].
Qed.

Lemma mods_for_sub t ty ms m : In m (mods_for t ty ms) -> In m ms.
Proof. intros H. apply (mods_for_in t ty ms m H). Qed.

Lemma adapter_ids e ms t em : In (Emit em) (snd (adapter e ms t)) -> ids_from ms em.
Proof.
  unfold adapter.
  destruct (str_eqb (t_name t) t_codex).
  { unfold codex_adapter. cbn [snd].
    destruct (collect_parts (mods_for t_codex TInstructions ms)) as [parts|c] eqn:Ec; [|intros [H|[]]; discriminate].
    intros H. apply in_app_or in H as [H|H]; [|apply in_app_or in H as [H|H]].
    - eapply agg_ids; [exact Ec|apply mods_for_sub|exact H].
    - apply in_flat_map in H as [m [Hm H]]. destruct (flag t (s "write_user_prompts") opt_codex_write_user_prompts); [|destruct H].
      apply single_steps_in in H as [fs [f [d [_ [_ [_ ->]]]]]]. apply (single_id ms m (mods_for_sub _ _ _ _ Hm)). reflexivity.
    - apply in_flat_map in H as [m [Hm H]].
      apply skill_steps_in in H as [fs [f [d [_ [_ [_ ->]]]]]]. apply (single_id ms m (mods_for_sub _ _ _ _ Hm)). reflexivity. }
  destruct (str_eqb (t_name t) t_claude).
  { unfold claude_adapter. cbn [snd]. intros H. apply in_app_or in H as [H|H]; apply in_flat_map in H as [m [Hm H]].
    - apply single_steps_in in H as [fs [f [d [_ [_ [_ ->]]]]]]. apply (single_id ms m (mods_for_sub _ _ _ _ Hm)). reflexivity.
    - destruct (flag t (s "write_user_skills") opt_claude_code_write_user_skills || flag t (s "write_repo_skills") opt_claude_code_write_repo_skills); [|destruct H].
      apply skill_steps_in in H as [fs [f [d [_ [_ [_ ->]]]]]]. apply (single_id ms m (mods_for_sub _ _ _ _ Hm)). reflexivity. }
  destruct (str_eqb (t_name t) t_cursor).
  { unfold cursor_adapter. cbn [snd]. intros H. apply in_flat_map in H as [m [Hm H]].
    destruct (flag t (s "write_rules") opt_cursor_write_rules); [|destruct H].
    unfold cursor_steps in H. destruct (materialize m) as [fs|c]; [|destruct H as [H|[]]; discriminate].
    destruct (find_file [agents_md] fs) as [f|]; [|destruct H as [H|[]]; discriminate].
    destruct H as [H|[]]. inversion H; subst em. apply (single_id ms m (mods_for_sub _ _ _ _ Hm)). reflexivity. }
  destruct (str_eqb (t_name t) t_vscode).
  { unfold vscode_adapter. cbn [snd].
    destruct (collect_parts (mods_for t_vscode TInstructions ms)) as [parts|c] eqn:Ec; [|intros [H|[]]; discriminate].
    intros H. apply in_app_or in H as [H|H].
    - apply when_in in H as [_ H]. eapply agg_ids; [exact Ec|apply mods_for_sub|exact H].
    - apply in_flat_map in H as [m [Hm H]]. destruct (flag t (s "write_prompts") opt_vscode_write_prompts); [|destruct H].
      apply single_steps_in in H as [fs [f [d [_ [_ [_ ->]]]]]]. apply (single_id ms m (mods_for_sub _ _ _ _ Hm)). reflexivity. }
  assert (Hsimple : forall tn w sep dir scan fname,
             In (Emit em) (snd (simple_agg_adapter tn w sep dir scan fname ms)) -> ids_from ms em).
  { intros tn w sep dir scan fname. unfold simple_agg_adapter. cbn [snd].
    destruct (collect_parts (when w (mods_for tn TInstructions ms))) as [parts|c] eqn:Ec; [|intros [H|[]]; discriminate].
    intros H. apply when_in in H as [_ H]. eapply agg_ids; [exact Ec| |exact H].
    intros m Hm. apply when_in in Hm as [_ Hm]. apply (mods_for_sub _ _ _ _ Hm). }
  destruct (str_eqb (t_name t) t_jetbrains); [apply Hsimple|].
  destruct (str_eqb (t_name t) t_zed); [apply Hsimple|].
  intros [].
Qed.
