(* Proofs/LedgerP.v — ownership continuity of the per-root manifests (C15) over Model/Deploy.v *)
From AP Require Import Base.Str Base.StrFacts Base.Sorting Gen.Tables Model.Deploy Proofs.DeployP Proofs.ConvergeP.
From Coq Require Import Lia Arith.
Open Scope N_scope.

Lemma best_root_from_some rs : forall i t p best,
  best <> None \/ (exists r, In r rs /\ rtarget r = t /\ is_prefix (rpath r) p = true) ->
  best_root_from i rs t p best <> None.
Proof.
  induction rs as [|r rs IH]; intros i t p best H; simpl.
  - destruct H as [H|[r [[] _]]]. exact H.
  - apply IH. destruct H as [H|[r' (Hin & Ht & Hp)]].
    + left. destruct (str_eqb (rtarget r) t && is_prefix (rpath r) p); [|exact H].
      destruct best as [[bj bn]|]; [|discriminate]. destruct (Nat.leb bn (length (rpath r))); discriminate.
    + destruct Hin as [->|Hin].
      * left. rewrite Ht, str_eqb_refl, Hp. simpl.
        destruct best as [[bj bn]|]; [|discriminate]. destruct (Nat.leb bn (length (rpath r'))); discriminate.
      * right. exists r'. auto.
Qed.

Lemma best_root_exists roots r t p :
  In r roots -> rtarget r = t -> is_prefix (rpath r) p = true -> best_root_idx roots t p <> None.
Proof.
  intros Hr Ht Hp. unfold best_root_idx.
  pose proof (best_root_from_some roots 0 t p None) as H.
  destruct (best_root_from 0 roots t p None) as [[i n]|]; [discriminate|].
  exfalso. apply H; [|reflexivity]. right. exists r. auto.
Qed.

Section Ledger.
  Variables (w : world) (roots : list root) (D : list dfile) (flt : option str).
  Let M := managed_for_plan w roots flt.
  Let pl := plan (files w) D M.
  Let w' := apply_plan KDeploy w roots D pl.
  Hypothesis HD : wfD roots D.
  Hypothesis HM : wfM D M.

  (* every desired file (written now, or found byte-identical) is listed by the manifest of its
     best root after the deploy *)
  Lemma written_is_listed d i r :
    In d D -> best_root_idx roots (dtarget d) (dpath d) = Some i -> nth_error roots i = Some r ->
    In (dkey d) (root_managed (files w') r).
  Proof.
    intros Hd Hb Hn.
    assert (Hin : In (rel_of r (dpath d), dcontent d) (per_root roots D i r)).
    { unfold per_root. apply in_map_iff. exists d. split; [reflexivity|]. apply filter_In. split; [exact Hd|].
      apply idx_is_spec. exact Hb. }
    assert (Hmf : files w' (mf_path r) = Some (new_manifest r (per_root roots D i r))).
    { unfold w', pl, M. rewrite (files_after_mf w roots D flt HD HM i r Hn).
      unfold should_write. destruct (per_root roots D i r) eqn:E; [contradiction|]. simpl. rewrite orb_true_r. reflexivity. }
    destruct (join_rel_of roots d i r Hb Hn) as (Hj & Hs & Ht); [apply HD; exact Hd|].
    unfold root_managed, read_manifest, chosen_manifest. rewrite Hmf. unfold new_manifest, manifest_usable.
    rewrite N.eqb_refl, str_eqb_refl. cbn [andb]. apply in_map_iff.
    exists (rel_of r (dpath d), dcontent d). split.
    - cbn [fst]. rewrite Hj, Ht. reflexivity.
    - apply filter_In. split; [exact Hin|exact Hs].
  Qed.

  (* a manifest written by the deploy lists only desired files, each holding its desired bytes *)
  Lemma listed_is_desired i r tp :
    nth_error roots i = Some r -> files w' (mf_path r) <> files w (mf_path r) ->
    In tp (root_managed (files w') r) ->
    exists d, In d D /\ dkey d = tp /\ files w' (dpath d) = Some (FBytes (dcontent d)).
  Proof.
    intros Hn Hch Hin.
    assert (Hmf : files w' (mf_path r) = Some (new_manifest r (per_root roots D i r))).
    { pose proof (files_after_mf w roots D flt HD HM i r Hn) as E. fold M in E. fold pl in E. fold w' in E.
      destruct (should_write (files w) roots D pl i r) eqn:C; [exact E|]. unfold should_write in C.
      exfalso. apply Hch. rewrite E. apply orb_false_iff in C as [C _]. apply orb_false_iff in C as [C _]. apply orb_false_iff in C as [C _].
      unfold exists_at in C. destruct (files w (mf_path r)); [discriminate|reflexivity]. }
    unfold root_managed, read_manifest, chosen_manifest in Hin. rewrite Hmf in Hin.
    unfold new_manifest, manifest_usable in Hin. rewrite N.eqb_refl, str_eqb_refl in Hin. cbn [andb] in Hin.
    apply in_map_iff in Hin as [e [<- He]]. apply filter_In in He as [He _].
    apply in_per_root in He as [d (Hd & Hb & ->)]. cbn [fst].
    destruct (join_rel_of roots d i r Hb Hn) as (Hj & _ & Ht); [apply HD; exact Hd|].
    exists d. split; [exact Hd|]. split; [unfold dkey; rewrite Hj, Ht; reflexivity|].
    unfold w', pl, M. apply (files_after_desired w roots D flt HD HM). exact Hd.
  Qed.

  (* continuity: a recorded file of one of this run's roots that still exists after the deploy is
     still recorded — by the manifest of its best root among this run's roots *)
  Lemma tracking_continues r tp :
    In r roots -> passes flt (rtarget r) = true -> In tp (root_managed (files w) r) ->
    files w' (snd tp) <> None ->
    exists d i r', In d D /\ dkey d = tp /\ best_root_idx roots (dtarget d) (dpath d) = Some i /\
                   nth_error roots i = Some r' /\ In tp (root_managed (files w') r').
  Proof.
    intros Hr Hp Hin Hex.
    assert (HinM : In tp M).
    { unfold M. apply load_in_managed_for_plan.
      - unfold load_managed; apply in_flat_map; exists r; auto.
      - apply in_root_managed in Hin as [es [e (_ & _ & _ & ->)]]. exact Hp. }
    destruct (mem_key tp D) eqn:Ek.
    - apply mem_key_true in Ek as [d [Hd Hk]].
      assert (Hsome : best_root_idx roots (dtarget d) (dpath d) <> None).
      { apply in_root_managed in Hin as [es [e (_ & _ & _ & Etp)]]. rewrite Etp in Hk. unfold dkey in Hk.
        inversion Hk as [[Ht Hpth]]. apply (best_root_exists roots r); auto. rewrite Hpth. apply is_prefix_app. }
      destruct (best_root_idx roots (dtarget d) (dpath d)) as [i|] eqn:Eb; [|contradiction].
      destruct (best_root_idx_spec _ _ _ _ Eb) as [r' (Hn & _)].
      exists d, i, r'. repeat split; auto. rewrite <- Hk. eapply written_is_listed; eauto.
    - exfalso. apply Hex. destruct tp as [t p]. unfold w', pl, M.
      apply (files_after_removed w roots D flt HD HM t p); auto.
  Qed.
End Ledger.
