(* Proofs/PolicyRulesP.v — the lint rules as decisions: what a clean result guarantees (C20). *)
From AP Require Import Base.Str Base.StrFacts Gen.Tables Model.PolicyCmd Model.PolicyUrl Model.PolicyRules
                       Proofs.PolicyCmdP Proofs.PolicyUrlP.
From Coq Require Import Lia.
Open Scope N_scope.

(* ---- dangerous defaults ---- *)
Lemma cmd_sound md fm :
  command_file_clean md fm = true ->
  forall inv, In inv (ref_invocations md) -> ref_mutating inv = true ->
  has_flag f_json inv = true /\ has_flag f_yes inv = true.
Proof.
  intros Hc inv Hin Hm.
  assert (Hu : uses_bash_tool md = true).
  { unfold ref_invocations in Hin. apply in_flat_map in Hin as (line & Hl & _).
    exact (ref_shell_lines_uses_bash md line Hl). }
  unfold command_file_clean, command_file_issues in Hc. rewrite Hu in Hc.
  destruct (negb (allowed_tools_ok fm)); [discriminate|].
  destruct (dangerous_issues md) eqn:D; [|discriminate].
  exact (dangerous_sound md D inv Hin Hm).
Qed.

(* ---- allowed-tools ---- *)
Lemma allowed_tools_rule md fm :
  command_file_clean md fm = true -> uses_bash_tool md = true ->
  exists fields v, fm = FmMap fields /\ yaml_get fields k_allowed_tools = Some v /\ allowed_tools_allows_bash v = true.
Proof.
  unfold command_file_clean, command_file_issues. intros Hc Hu. rewrite Hu in Hc.
  destruct (allowed_tools_ok fm) eqn:A; [|discriminate]. unfold allowed_tools_ok in A.
  destruct fm as [| | |fields]; try discriminate.
  destruct (yaml_get fields k_allowed_tools) as [v|] eqn:G; [|discriminate].
  exists fields, v. auto.
Qed.

Lemma allows_bash_means v : allowed_tools_allows_bash v = true ->
  (exists x, v = YStr x /\ contains bash_paren x = true) \/
  (exists items x, v = YSeq items /\ In (Some x) items /\ contains bash_paren x = true).
Proof.
  destruct v as [x|items|]; simpl; [left; eauto| |discriminate].
  intros H. apply existsb_exists in H as ([x|] & Hin & Hc); [|discriminate]. right. eauto.
Qed.

(* ---- skill front matter ---- *)
Lemma skill_field_ok_means fields k : skill_field_ok fields k = true ->
  exists v, yaml_get fields k = Some (YStr v) /\ trim v <> [].
Proof.
  unfold skill_field_ok. destruct (yaml_get fields k) as [[v| |]|]; try discriminate.
  intros H. exists v. split; [reflexivity|]. destruct (trim v); [discriminate|discriminate].
Qed.

Lemma skill_rule fm : skill_issue_count fm = 0 ->
  exists fields n d, fm = FmMap fields /\
    yaml_get fields k_name = Some (YStr n) /\ trim n <> [] /\
    yaml_get fields k_description = Some (YStr d) /\ trim d <> [].
Proof.
  destruct fm as [| | |fields]; try discriminate. cbn [skill_issue_count].
  destruct (skill_field_ok fields k_name) eqn:A; [|destruct (skill_field_ok fields k_description); discriminate].
  destruct (skill_field_ok fields k_description) eqn:B; [|discriminate]. intros _.
  destruct (skill_field_ok_means _ _ A) as (n & Hn & Tn). destruct (skill_field_ok_means _ _ B) as (d & Hd & Td).
  exists fields, n, d. auto.
Qed.

(* ---- distribution policy ---- *)
Lemma filter_nil_forall {A} (f : A -> bool) l : filter f l = [] -> forall x, In x l -> f x = false.
Proof.
  induction l as [|a l IH]; [contradiction|]. simpl. destruct (f a) eqn:E; [discriminate|].
  intros H x [<-|Hx]; [exact E|exact (IH H x Hx)].
Qed.

Lemma app_nil_both {A} (a b : list A) : a ++ b = [] -> a = [] /\ b = [].
Proof. destruct a; [auto|discriminate]. Qed.

Lemma required_present rt rm targets ms :
  distribution_issues rt rm targets ms = [] ->
  (forall t, In t (nonblank_trimmed rt) -> In t targets) /\
  (forall id, In id (nonblank_trimmed rm) -> exists m, find_module id ms = Some m /\ cm_enabled m = true).
Proof.
  unfold distribution_issues. intros H.
  apply app_nil_both in H as [_ H]. apply app_nil_both in H as [_ H]. apply app_nil_both in H as [H1 H2].
  split.
  - destruct (missing_targets rt targets) eqn:M; [|discriminate]. intros t Ht.
    pose proof (filter_nil_forall _ _ M t Ht) as F. apply negb_false_iff in F. apply mem_str_In. exact F.
  - destruct (missing_modules rm ms) eqn:M1; [|discriminate].
    destruct (disabled_modules rm ms) eqn:M2; [|discriminate]. intros id Hid.
    pose proof (filter_nil_forall _ _ M1 id Hid) as F1. pose proof (filter_nil_forall _ _ M2 id Hid) as F2.
    cbv beta in F1, F2. destruct (find_module id ms) as [m|]; [|discriminate].
    exists m. split; [reflexivity|]. apply negb_false_iff in F2. exact F2.
Qed.

(* ---- lockfile pins ---- *)
Lemma lock_pins lock ms :
  lockfile_issues lock ms = [] ->
  forall m url, In m ms -> cm_enabled m = true -> cm_git m = Some url ->
  exists entries e lurl commit,
    lock = LockOk entries /\ find_lock (cm_id m) entries = Some e /\ le_git e = Some (lurl, commit) /\
    normalize url = normalize lurl /\ is_hex_sha commit = true.
Proof.
  unfold lockfile_issues. intros H m url Hin Hen Hgit.
  assert (Heg : In m (enabled_git ms)).
  { unfold enabled_git. apply filter_In. split; [exact Hin|]. rewrite Hen, Hgit. reflexivity. }
  destruct (enabled_git ms) as [|m0 egm] eqn:E; [contradiction|]. rewrite <- E in H, Heg.
  destruct lock as [| |entries]; try discriminate.
  pose proof (flat_map_nil _ _ H m Heg) as Hm. unfold lock_issues_for in Hm. rewrite Hgit in Hm.
  destruct (find_lock (cm_id m) entries) as [e|] eqn:F; [|discriminate].
  destruct (le_git e) as [[lurl commit]|] eqn:G; [|discriminate].
  apply app_nil_both in Hm as [Hm1 Hm2].
  destruct (str_eqb (normalize url) (normalize lurl)) eqn:U; [|discriminate].
  destruct (is_hex_sha commit) eqn:C; [|discriminate].
  exists entries, e, lurl, commit. apply str_eqb_eq in U. auto.
Qed.

(* ---- supply chain: allowlist and lockfile requirement ---- *)
Lemma supply_chain_clean allowed_raw req pack lock ms :
  supply_chain_issues allowed_raw req pack lock ms = [] ->
  (nonblank_trimmed allowed_raw <> [] ->
     (forall m url, In m ms -> cm_git m = Some url -> remote_allowed url (nonblank_trimmed allowed_raw) = true) /\
     (forall url, pack = Some url -> remote_allowed url (nonblank_trimmed allowed_raw) = true)) /\
  (req = true -> lockfile_issues lock ms = []).
Proof.
  unfold supply_chain_issues. intros H.
  destruct (nonblank_trimmed allowed_raw) as [|a0 al] eqn:A.
  - split; [intros C; contradiction|]. intros ->. apply app_nil_both in H as [_ H]. exact H.
  - apply app_nil_both in H as [_ H]. apply app_nil_both in H as [Hp H]. apply app_nil_both in H as [Hl Hm].
    split.
    + intros _. split.
      * intros m url Hin Hg. pose proof (flat_map_nil _ _ Hm m Hin) as F. cbv beta in F. rewrite Hg in F.
        destruct (remote_allowed url (a0 :: al)); [reflexivity|discriminate].
      * intros url ->. destruct (remote_allowed url (a0 :: al)); [reflexivity|discriminate].
    + intros ->. exact Hl.
Qed.

(* an allow-listed remote lies under one of the entries, in the reference reading *)
Lemma remote_allowed_under url allow du :
  remote_allowed url allow = true -> ref_parse url = Some du ->
  (forall a, In a allow -> ref_allow a <> None) ->
  exists a da, In a allow /\ ref_allow a = Some da /\ ref_under du da = true.
Proof.
  unfold remote_allowed. intros H Hu Hwf. apply existsb_exists in H as (a & Hin & M).
  destruct (ref_allow a) as [da|] eqn:Ha; [|exfalso; exact (Hwf a Hin Ha)].
  exists a, da. split; [exact Hin|]. split; [exact Ha|]. exact (url_sound url a du da Hu Ha M).
Qed.

(* ---- tables and ids ---- *)
Lemma same_id_when_mutating : forall argv id,
  ref_id argv = Some id -> In id mutating_ids -> agentpack_command_id argv = Some id.
Proof. intros argv id H Hin. apply ref_id_lint; [exact H|apply mem_str_In; exact Hin]. Qed.

Lemma ids_producible : forall id, In id mutating_ids ->
  exists argv, agentpack_command_id argv = Some id /\ ref_id argv = Some id.
Proof.
  assert (A : forallb (fun id => match agentpack_command_id (split_whitespace id), ref_id (split_whitespace id) with
                                 | Some x, Some y => str_eqb x id && str_eqb y id
                                 | _, _ => false end) mutating_ids = true) by (vm_compute; reflexivity).
  intros id Hin. rewrite forallb_forall in A. specialize (A id Hin). exists (split_whitespace id).
  destruct (agentpack_command_id (split_whitespace id)) as [x|]; [|discriminate].
  destruct (ref_id (split_whitespace id)) as [y|]; [|discriminate].
  apply andb_true_iff in A as [A1 A2]. apply str_eqb_eq in A1, A2. subst. split; reflexivity.
Qed.

Lemma same_set :
  (forall id, In id mutating_ids <-> In id guard_site_ids) /\
  (forall id, In id mutating_ids -> In id catalogue_ids) /\
  lint_uses_mutating_const = true /\ help_uses_mutating_const = true /\ guard_checks_mutating_const = true /\
  (forall t, mem_str t cli_global_value_flags = mem_str t policy_flags_with_value) /\
  (forall t, mem_str t cli_global_bool_flags = mem_str t policy_flags_no_value).
Proof.
  assert (S : forall A B, forallb (fun x => mem_str x B) A && forallb (fun x => mem_str x A) B = true ->
                          forall id, In id A <-> In id B).
  { intros A B H id. pose proof (mem_str_set_eq A B H id) as E. rewrite <- !mem_str_In, E. tauto. }
  split; [apply S; vm_compute; reflexivity|].
  split.
  { assert (A : forallb (fun x => mem_str x catalogue_ids) mutating_ids = true) by (vm_compute; reflexivity).
    intros id Hin. rewrite forallb_forall in A. apply mem_str_In, A, Hin. }
  repeat split; try reflexivity; apply mem_str_set_eq; vm_compute; reflexivity.
Qed.
