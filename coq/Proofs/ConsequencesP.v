(* Proofs/ConsequencesP.v — what being recorded as managed buys (the "consequently" clause of C15):
   a later change of the source is planned as a MANAGED update (never an adopt), and the removal from
   the configuration is planned as a delete. *)
From AP Require Import Base.Str Base.StrFacts Base.Sorting Gen.Tables Model.Deploy Proofs.DeployP.
Open Scope N_scope.

Theorem recorded_consequences f D M tp :
  In tp M ->
  (forall d o, In d D -> dkey d = tp -> f (dpath d) = Some o -> o <> FBytes (dcontent d) ->
     In (Build_change (dtarget d) (PUpdate UManaged) (dpath d) (Some o) (Some (dcontent d))) (plan f D M)) /\
  (forall o, mem_key tp D = false -> f (snd tp) = Some o ->
     In (Build_change (fst tp) PDelete (snd tp) (Some o) None) (plan f D M)).
Proof.
  intros HM. split.
  - intros d o Hd Hk Hf Hne. apply in_plan. left. exists d. split; [exact Hd|].
    unfold plan_desired. rewrite Hf.
    destruct (fobj_eqb o (FBytes (dcontent d))) eqn:E; [apply fobj_eqb_eq in E; contradiction|].
    assert (Hm : mem_tp (dkey d) M = true) by (apply mem_tp_In; rewrite Hk; exact HM).
    rewrite Hm. left. reflexivity.
  - intros o Hk Hf. apply in_plan. right. exists tp. split; [exact HM|].
    unfold plan_managed. rewrite Hk, Hf. left. reflexivity.
Qed.

(* and no plan ever asks to ADOPT a recorded file *)
Theorem recorded_never_adopt f D M c :
  In c (plan f D M) -> In (c_target c, c_path c) M -> c_op c <> PUpdate UAdopt.
Proof.
  intros Hc HM. apply in_plan in Hc as [[d [Hd Hc]]|[tp [Htp Hc]]].
  - apply in_plan_desired in Hc as (Ht & Hp & _ & _ & [[_ Hop]|[o (_ & _ & Hop)]]); rewrite Hop; [discriminate|].
    assert (Hm : mem_tp (dkey d) M = true) by (apply mem_tp_In; unfold dkey; rewrite <- Ht, <- Hp; exact HM).
    rewrite Hm. discriminate.
  - apply in_plan_managed in Hc as (_ & _ & Hop & _). rewrite Hop. discriminate.
Qed.
