(* Proofs/OverlayP.v — lemmas about Model/Overlay.v *)
From AP Require Import Base.Str Base.StrFacts Base.Sorting Model.Overlay.
From Coq Require Import Lia ZifyBool.
Open Scope N_scope.

(* ---------- paths and lookup ---------- *)

Lemma rpath_eqb_refl a : rpath_eqb a a = true.
Proof. induction a as [|x a IH]; simpl; [reflexivity|]. rewrite str_eqb_refl, IH. reflexivity. Qed.

Lemma rpath_eqb_eq a : forall b, rpath_eqb a b = true <-> a = b.
Proof.
  induction a as [|x a IH]; intros [|y b]; simpl; split; intros H; try reflexivity; try discriminate.
  - apply andb_true_iff in H as [H1 H2]. apply str_eqb_eq in H1. apply IH in H2. congruence.
  - inversion H; subst. rewrite str_eqb_refl. apply rpath_eqb_refl.
Qed.

Lemma rpath_eqb_neq a b : rpath_eqb a b = false <-> a <> b.
Proof.
  split; intros H.
  - intros ->. rewrite rpath_eqb_refl in H. discriminate.
  - destruct (rpath_eqb a b) eqn:E; [apply rpath_eqb_eq in E; contradiction|reflexivity].
Qed.

Lemma get_cons k c t r : get r ((k, c) :: t) = if rpath_eqb k r then Some c else get r t.
Proof. reflexivity. Qed.

(* the first layer (highest precedence first) that provides the path *)
Fixpoint first_some {A} (l : list (option A)) : option A :=
  match l with
  | [] => None
  | Some x :: _ => Some x
  | None :: r => first_some r
  end.

(* what a layer provides at r *)
Definition view (l : layer) (r : rpath) : option content :=
  if l_exists l then get r (l_files l) else None.

(* no path of the tree has a .agentpack / .git component *)
Definition clean (t : files) : Prop := forall r, is_meta r = true -> get r t = None.

Lemma clean_nil : clean [].
Proof. intros r _. reflexivity. Qed.

(* ---------- copy_tree ---------- *)

Lemma copy_tree_get src : forall out o, copy_tree src out = Some o ->
  forall r, get r o = if is_meta r then get r out
                      else match get r src with Some c => Some c | None => get r out end.
Proof.
  induction src as [|[k c] rest IH]; intros out o H r; simpl in H.
  - inversion H; subst. destruct (is_meta r); reflexivity.
  - destruct (copy_tree rest out) as [o'|] eqn:E; [|discriminate].
    specialize (IH out o' E r).
    destruct (is_meta k) eqn:Mk.
    + inversion H; subst o. rewrite IH. destruct (is_meta r) eqn:Mr; [reflexivity|].
      rewrite get_cons. destruct (rpath_eqb k r) eqn:Ek; [|reflexivity].
      apply rpath_eqb_eq in Ek. subst. congruence.
    + destruct (conflicts k o'); [discriminate|]. inversion H; subst o. rewrite !get_cons.
      destruct (rpath_eqb k r) eqn:Ek.
      * apply rpath_eqb_eq in Ek. subst. rewrite Mk. reflexivity.
      * exact IH.
Qed.

Lemma copy_tree_clean src out o : copy_tree src out = Some o -> clean out -> clean o.
Proof.
  intros H Hc r Hr. rewrite (copy_tree_get _ _ _ H r), Hr. apply Hc, Hr.
Qed.

(* ---------- header_check ---------- *)

Lemma header_ok_iff p r :
  header_check p r = HOk <->
  contains lit_binary p = false /\
  exists o n, header_lines (lines p) = ([o], [n]) /\
              str_eqb (parse_header_path o) lit_devnull = false /\
              str_eqb (parse_header_path n) lit_devnull = false /\
              strip_ab_prefix (parse_header_path o) = r /\ strip_ab_prefix (parse_header_path n) = r.
Proof.
  unfold header_check. split.
  - destruct (contains lit_binary p); [discriminate|]. intros H. split; [reflexivity|].
    destruct (header_lines (lines p)) as [[|o [|o' os]] [|n [|n' ns]]]; try discriminate.
    exists o, n. split; [reflexivity|].
    destruct (str_eqb (parse_header_path o) lit_devnull); [discriminate|].
    destruct (str_eqb (parse_header_path n) lit_devnull); [discriminate|]. simpl in H.
    destruct (str_eqb (strip_ab_prefix (parse_header_path o)) r) eqn:E1; [|discriminate].
    destruct (str_eqb (strip_ab_prefix (parse_header_path n)) r) eqn:E2; [|discriminate].
    apply str_eqb_eq in E1. apply str_eqb_eq in E2. auto.
  - intros [Hb [o [n [Hh [Ho [Hn [E1 E2]]]]]]]. rewrite Hb, Hh, Ho, Hn. simpl.
    rewrite E1, E2, str_eqb_refl. reflexivity.
Qed.

Lemma header_count_refused p r os ns :
  header_lines (lines p) = (os, ns) -> (length os <> 1%nat \/ length ns <> 1%nat) ->
  header_check p r = HBinary \/ header_check p r = HCount.
Proof.
  intros Hh Hl. unfold header_check. destruct (contains lit_binary p); [auto|]. right.
  rewrite Hh. destruct os as [|o [|o' os]]; destruct ns as [|n [|n' ns]]; simpl in Hl; try reflexivity.
  lia.
Qed.

Lemma header_devnull_refused p r o n :
  contains lit_binary p = false -> header_lines (lines p) = ([o], [n]) ->
  (parse_header_path o = lit_devnull \/ parse_header_path n = lit_devnull) ->
  header_check p r = HDevNull.
Proof.
  intros Hb Hh Hd. unfold header_check. rewrite Hb, Hh.
  destruct Hd as [-> | ->]; rewrite str_eqb_refl; [reflexivity|]. rewrite orb_true_r. reflexivity.
Qed.

Lemma header_mismatch_refused p r o n :
  contains lit_binary p = false -> header_lines (lines p) = ([o], [n]) ->
  (strip_ab_prefix (parse_header_path o) <> r \/ strip_ab_prefix (parse_header_path n) <> r) ->
  header_check p r <> HOk.
Proof.
  intros Hb Hh Hd H. apply header_ok_iff in H as [_ [o' [n' [Hh' [_ [_ [E1 E2]]]]]]].
  rewrite Hh in Hh'. inversion Hh'; subst. destruct Hd; contradiction.
Qed.

(* ---------- the patch loop ---------- *)

Definition patch_rel (e : rpath * content) : option str :=
  strip_suffix lit_dot_patch (patch_posix (fst e)).
Definition target_of (rel : str) : rpath := split_on 47 rel.
Definition patch_target (e : rpath * content) : option rpath :=
  match patch_rel e with Some rel => Some (target_of rel) | None => None end.

Section WithGit.
  Variable apply_patch : str -> str -> option str.

  Notation patch_step := (patch_step apply_patch).
  Notation apply_patches := (apply_patches apply_patch).
  Notation apply_layer := (apply_layer apply_patch).
  Notation apply_layers := (apply_layers apply_patch).
  Notation compose := (compose apply_patch).

  (* a step that succeeds either skips the entry or rewrites exactly its target with git's answer *)
  Lemma patch_step_ok e out o : patch_step e out = Ok o ->
    (patch_rel e = None /\ o = out) \/
    (exists rel pt tx t', patch_rel e = Some rel /\ validate_posix_relpath rel = true /\
        snd e = Text pt /\ get (target_of rel) out = Some (Text tx) /\
        header_check pt rel = HOk /\ apply_patch pt tx = Some t' /\
        o = (target_of rel, Text t') :: out).
  Proof.
    unfold Overlay.patch_step, patch_rel, target_of.
    destruct (strip_suffix lit_dot_patch (patch_posix (fst e))) as [rel|]; [|intros H; inversion H; auto].
    destruct (validate_posix_relpath rel) eqn:V; simpl; [|discriminate].
    destruct (get (split_on 47 rel) out) as [[tx|b]|] eqn:G; try discriminate.
    destruct (snd e) as [pt|b] eqn:S; try discriminate.
    destruct (header_check pt rel) eqn:Hh; try discriminate.
    destruct (apply_patch pt tx) as [t'|] eqn:A; [|discriminate].
    intros H. inversion H; subst. right. exists rel, pt, tx, t'. repeat split; auto.
  Qed.

  (* every way a step fails, with its code; the apply-failed code comes from the oracle only *)
  Lemma patch_step_err e out c : patch_step e out = Err c ->
    exists rel, patch_rel e = Some rel /\
    ((c = EConfigInvalid /\
        (validate_posix_relpath rel = false \/
         validate_posix_relpath rel = true /\
           (get (target_of rel) out = None \/
            (exists b, get (target_of rel) out = Some (Raw b)) \/
            (exists tx, get (target_of rel) out = Some (Text tx) /\
               ((exists b, snd e = Raw b) \/
                (exists pt, snd e = Text pt /\ header_check pt rel <> HOk)))))) \/
     (c = EPatchApplyFailed /\ validate_posix_relpath rel = true /\
        exists pt tx, snd e = Text pt /\ get (target_of rel) out = Some (Text tx) /\
                      header_check pt rel = HOk /\ apply_patch pt tx = None)).
  Proof.
    unfold Overlay.patch_step, patch_rel, target_of.
    destruct (strip_suffix lit_dot_patch (patch_posix (fst e))) as [rel|]; [|discriminate].
    intros H. exists rel. split; [reflexivity|].
    destruct (validate_posix_relpath rel) eqn:V; simpl in H.
    2:{ inversion H. left. auto. }
    destruct (get (split_on 47 rel) out) as [[tx|b]|] eqn:G.
    - destruct (snd e) as [pt|b] eqn:S.
      + destruct (header_check pt rel) eqn:Hh;
          try (inversion H; left; split; [reflexivity|]; right; split; [reflexivity|];
               right; right; exists tx; split; [reflexivity|]; right; exists pt; split; [reflexivity|];
               congruence).
        destruct (apply_patch pt tx) eqn:A; [discriminate|]. inversion H. right.
        split; [reflexivity|]. split; [reflexivity|]. exists pt, tx. auto.
      + inversion H. left. split; [reflexivity|]. right. split; [reflexivity|]. right. right.
        exists tx. split; [reflexivity|]. left. exists b. reflexivity.
    - inversion H. left. split; [reflexivity|]. right. split; [reflexivity|]. right. left. exists b. reflexivity.
    - inversion H. left. split; [reflexivity|]. right. split; [reflexivity|]. left. reflexivity.
  Qed.

  (* the refusal conditions of one patch entry, each with its code *)
  Lemma patch_step_refusals e out rel :
    patch_rel e = Some rel ->
    (validate_posix_relpath rel = false -> patch_step e out = Err EConfigInvalid) /\
    (validate_posix_relpath rel = true ->
       (get (target_of rel) out = None -> patch_step e out = Err EConfigInvalid) /\
       (forall b, get (target_of rel) out = Some (Raw b) -> patch_step e out = Err EConfigInvalid) /\
       (forall tx, get (target_of rel) out = Some (Text tx) ->
          (forall b, snd e = Raw b -> patch_step e out = Err EConfigInvalid) /\
          (forall pt, snd e = Text pt ->
             (header_check pt rel <> HOk -> patch_step e out = Err EConfigInvalid) /\
             (header_check pt rel = HOk -> apply_patch pt tx = None ->
                patch_step e out = Err EPatchApplyFailed)))).
  Proof.
    intros Hr. unfold patch_rel in Hr. unfold Overlay.patch_step, target_of. rewrite Hr.
    split; [intros ->; reflexivity|]. intros ->. simpl.
    split; [intros ->; reflexivity|]. split; [intros b ->; reflexivity|].
    intros tx ->. split; [intros b ->; reflexivity|]. intros pt ->. split.
    - intros Hh. destruct (header_check pt rel); try reflexivity. contradiction.
    - intros -> ->. reflexivity.
  Qed.

  Lemma patch_step_get e out o r : patch_step e out = Ok o ->
    patch_target e <> Some r -> get r o = get r out.
  Proof.
    intros H Ht. apply patch_step_ok in H as [[_ ->]|[rel [pt [tx [t' [Hr [_ [_ [_ [_ [_ ->]]]]]]]]]]]; [reflexivity|].
    rewrite get_cons. destruct (rpath_eqb (target_of rel) r) eqn:E; [|reflexivity].
    apply rpath_eqb_eq in E. exfalso. apply Ht. unfold patch_target. rewrite Hr, E. reflexivity.
  Qed.

  Lemma patch_step_clean e out o : patch_step e out = Ok o -> clean out -> clean o.
  Proof.
    intros H Hc. apply patch_step_ok in H as [[_ ->]|[rel [pt [tx [t' [_ [_ [_ [G [_ [_ ->]]]]]]]]]]]; [exact Hc|].
    intros r Hr. rewrite get_cons. destruct (rpath_eqb (target_of rel) r) eqn:E; [|apply Hc, Hr].
    apply rpath_eqb_eq in E. subst r. rewrite (Hc _ Hr) in G. discriminate.
  Qed.

  Lemma apply_patches_app a : forall b out,
    apply_patches (a ++ b) out =
    match apply_patches a out with Ok m => apply_patches b m | Err c => Err c end.
  Proof.
    induction a as [|e a IH]; intros b out; simpl; [reflexivity|].
    destruct (patch_step e out); [apply IH|reflexivity].
  Qed.

  Lemma apply_patches_untouched ps : forall lower out r,
    apply_patches ps lower = Ok out ->
    (forall e, In e ps -> patch_target e <> Some r) -> get r out = get r lower.
  Proof.
    induction ps as [|e ps IH]; intros lower out r H Hn; simpl in H.
    - inversion H. reflexivity.
    - destruct (patch_step e lower) as [o|c] eqn:S; [|discriminate].
      rewrite (IH o out r H) by (intros e' He'; apply Hn; right; exact He').
      eapply patch_step_get; [exact S|]. apply Hn. left. reflexivity.
  Qed.

  Lemma apply_patches_clean ps : forall lower out,
    apply_patches ps lower = Ok out -> clean lower -> clean out.
  Proof.
    induction ps as [|e ps IH]; intros lower out H Hc; simpl in H.
    - inversion H; subst. exact Hc.
    - destruct (patch_step e lower) as [o|c] eqn:S; [|discriminate].
      eapply IH; [exact H|]. eapply patch_step_clean; eauto.
  Qed.

  (* C13_precedence, patch layer: the one entry whose file name maps to r turns the lower
     layers' text at r into git's answer; every other path is left as the lower layers had it *)
  Theorem apply_patches_target ps1 e ps2 lower out r :
    apply_patches (ps1 ++ e :: ps2) lower = Ok out ->
    patch_target e = Some r ->
    (forall e', In e' (ps1 ++ ps2) -> patch_target e' <> Some r) ->
    exists rel pt tx t', patch_rel e = Some rel /\ r = target_of rel /\ snd e = Text pt /\
      get r lower = Some (Text tx) /\ header_check pt rel = HOk /\
      apply_patch pt tx = Some t' /\ get r out = Some (Text t').
  Proof.
    intros H Ht Hn. rewrite apply_patches_app in H.
    destruct (apply_patches ps1 lower) as [mid|c] eqn:H1; [|discriminate].
    simpl in H. destruct (patch_step e mid) as [o|c] eqn:S; [|discriminate].
    assert (G1 : get r mid = get r lower).
    { eapply apply_patches_untouched; [exact H1|]. intros e' He'. apply Hn, in_or_app. auto. }
    assert (G2 : get r out = get r o).
    { eapply apply_patches_untouched; [exact H|]. intros e' He'. apply Hn, in_or_app. auto. }
    apply patch_step_ok in S as [[Hr _]|[rel [pt [tx [t' [Hr [_ [Hs [G [Hh [Ha ->]]]]]]]]]]].
    - unfold patch_target in Ht. rewrite Hr in Ht. discriminate.
    - assert (Er : r = target_of rel) by (unfold patch_target in Ht; rewrite Hr in Ht; congruence).
      exists rel, pt, tx, t'. subst r. rewrite <- G1, G2, get_cons, rpath_eqb_refl. auto 10.
  Qed.

  (* the first failing entry decides: its code is the result, nothing is produced *)
  Lemma apply_patches_first_error ps1 e ps2 lower mid c :
    apply_patches ps1 lower = Ok mid -> patch_step e mid = Err c ->
    apply_patches (ps1 ++ e :: ps2) lower = Err c.
  Proof. intros H1 S. rewrite apply_patches_app, H1. simpl. rewrite S. reflexivity. Qed.

  Lemma apply_patches_err ps : forall lower c, apply_patches ps lower = Err c ->
    exists ps1 e ps2 mid, ps = ps1 ++ e :: ps2 /\ apply_patches ps1 lower = Ok mid /\
                          patch_step e mid = Err c.
  Proof.
    induction ps as [|e ps IH]; intros lower c H; simpl in H; [discriminate|].
    destruct (patch_step e lower) as [o|c'] eqn:S.
    - destruct (IH o c H) as [ps1 [e1 [ps2 [mid [-> [H1 S1]]]]]].
      exists (e :: ps1), e1, ps2, mid. split; [reflexivity|]. split; [|exact S1]. simpl. rewrite S. exact H1.
    - inversion H; subst. exists [], e, ps, lower. auto.
  Qed.

  (* ---------- one layer ---------- *)

  Definition has_overrides (l : layer) : bool :=
    negb (is_empty_list (list_files (l_files l))).
  Definition has_patches (l : layer) : bool := negb (is_empty_list (patch_entries (l_files l))).

  Lemma apply_layer_absent l out : l_exists l = false -> apply_layer l out = Ok out.
  Proof. intros H. unfold Overlay.apply_layer. rewrite H. reflexivity. Qed.

  Lemma apply_layer_unfold l out : l_exists l = true -> l_meta l <> MInvalid ->
    apply_layer l out =
    if has_overrides l && has_patches l then Err EConfigInvalid
    else match layer_kind l with
         | KDir => if has_patches l then Err EConfigInvalid
                   else match copy_tree (l_files l) out with Some o => Ok o | None => Err EUnexpected end
         | KPatch => if has_overrides l then Err EConfigInvalid
                     else apply_patches (patch_entries (l_files l)) out
         end.
  Proof.
    intros He Hm. unfold Overlay.apply_layer, has_overrides, has_patches. rewrite He. simpl.
    destruct (l_meta l); try reflexivity. contradiction.
  Qed.

  (* C13_refusals, layer level *)
  Lemma layer_refusals l out : l_exists l = true ->
    (l_meta l = MInvalid -> apply_layer l out = Err EConfigInvalid) /\
    (l_meta l <> MInvalid ->
       (has_overrides l = true -> has_patches l = true -> apply_layer l out = Err EConfigInvalid) /\
       (layer_kind l = KDir -> has_patches l = true -> apply_layer l out = Err EConfigInvalid) /\
       (layer_kind l = KPatch -> has_overrides l = true -> apply_layer l out = Err EConfigInvalid) /\
       (layer_kind l = KDir -> has_patches l = false -> copy_tree (l_files l) out = None ->
          apply_layer l out = Err EUnexpected) /\
       (layer_kind l = KPatch -> has_overrides l = false ->
          apply_layer l out = apply_patches (patch_entries (l_files l)) out)).
  Proof.
    intros He. split.
    - intros Hm. unfold Overlay.apply_layer. rewrite He, Hm. reflexivity.
    - intros Hm. rewrite (apply_layer_unfold l out He Hm). repeat split.
      + intros -> ->. reflexivity.
      + intros -> ->. rewrite andb_true_r. destruct (has_overrides l); reflexivity.
      + intros -> ->. simpl. destruct (has_patches l); reflexivity.
      + intros -> -> ->. rewrite andb_false_r. reflexivity.
      + intros -> ->. reflexivity.
  Qed.

  (* C13_precedence, directory layer: pointwise override on non-metadata paths *)
  Theorem apply_layer_dir l lower out :
    layer_kind l = KDir -> apply_layer l lower = Ok out ->
    forall r, get r out = if is_meta r then get r lower
                          else match view l r with Some c => Some c | None => get r lower end.
  Proof.
    intros Hk H r. unfold view. destruct (l_exists l) eqn:He.
    - destruct (l_meta l) eqn:Hm.
      + rewrite apply_layer_unfold in H by (auto; congruence). rewrite Hk in H.
        destruct (has_overrides l && has_patches l); [discriminate|].
        destruct (has_patches l); [discriminate|].
        destruct (copy_tree (l_files l) lower) as [o|] eqn:C; [|discriminate].
        inversion H; subst. apply (copy_tree_get _ _ _ C).
      + rewrite apply_layer_unfold in H by (auto; congruence). rewrite Hk in H.
        destruct (has_overrides l && has_patches l); [discriminate|].
        destruct (has_patches l); [discriminate|].
        destruct (copy_tree (l_files l) lower) as [o|] eqn:C; [|discriminate].
        inversion H; subst. apply (copy_tree_get _ _ _ C).
      + unfold Overlay.apply_layer in H. rewrite He, Hm in H. discriminate.
    - rewrite apply_layer_absent in H by exact He. inversion H; subst.
      destruct (is_meta r); reflexivity.
  Qed.

  (* a patch layer that is accepted is exactly the patch loop over its sorted patch files *)
  Theorem apply_layer_patch l lower out :
    l_exists l = true -> layer_kind l = KPatch -> apply_layer l lower = Ok out ->
    has_overrides l = false /\ apply_patches (patch_entries (l_files l)) lower = Ok out.
  Proof.
    intros He Hk H.
    assert (Hm : l_meta l <> MInvalid) by (intros E; unfold layer_kind in Hk; rewrite E in Hk; discriminate).
    rewrite apply_layer_unfold in H by assumption. rewrite Hk in H.
    destruct (has_overrides l); simpl in H.
    - destruct (has_patches l); discriminate.
    - auto.
  Qed.

  Lemma apply_layer_clean l lower out : apply_layer l lower = Ok out -> clean lower -> clean out.
  Proof.
    intros H Hc. destruct (l_exists l) eqn:He.
    2:{ rewrite apply_layer_absent in H by exact He. inversion H; subst. exact Hc. }
    destruct (layer_kind l) eqn:Hk.
    - intros r Hr. rewrite (apply_layer_dir l lower out Hk H r), Hr. apply Hc, Hr.
    - destruct (apply_layer_patch l lower out He Hk H) as [_ Hp]. eapply apply_patches_clean; eauto.
  Qed.

  (* every refusal of a layer has one of the listed causes *)
  Lemma apply_layer_err l out c : apply_layer l out = Err c ->
    l_exists l = true /\
    ((c = EConfigInvalid /\
        (l_meta l = MInvalid \/
         has_overrides l = true /\ has_patches l = true \/
         layer_kind l = KDir /\ has_patches l = true \/
         layer_kind l = KPatch /\ has_overrides l = true)) \/
     (c = EUnexpected /\ layer_kind l = KDir /\ copy_tree (l_files l) out = None) \/
     (layer_kind l = KPatch /\ has_overrides l = false /\
        apply_patches (patch_entries (l_files l)) out = Err c)).
  Proof.
    intros H. destruct (l_exists l) eqn:He.
    2:{ rewrite apply_layer_absent in H by exact He. discriminate. }
    split; [reflexivity|].
    destruct (l_meta l) eqn:Hm.
    - rewrite apply_layer_unfold in H by (auto; congruence).
      destruct (has_overrides l) eqn:Ho, (has_patches l) eqn:Hp; simpl in H.
      + inversion H. left. auto.
      + destruct (layer_kind l) eqn:Hk.
        * destruct (copy_tree (l_files l) out) eqn:C; [discriminate|]. inversion H. right. left. auto.
        * inversion H. left. auto 6.
      + destruct (layer_kind l) eqn:Hk.
        * inversion H. left. auto 6.
        * right. right. auto.
      + destruct (layer_kind l) eqn:Hk.
        * destruct (copy_tree (l_files l) out) eqn:C; [discriminate|]. inversion H. right. left. auto.
        * right. right. auto.
    - rewrite apply_layer_unfold in H by (auto; congruence).
      destruct (has_overrides l) eqn:Ho, (has_patches l) eqn:Hp; simpl in H.
      + inversion H. left. auto.
      + destruct (layer_kind l) eqn:Hk.
        * destruct (copy_tree (l_files l) out) eqn:C; [discriminate|]. inversion H. right. left. auto.
        * inversion H. left. auto 6.
      + destruct (layer_kind l) eqn:Hk.
        * inversion H. left. auto 6.
        * right. right. auto.
      + destruct (layer_kind l) eqn:Hk.
        * destruct (copy_tree (l_files l) out) eqn:C; [discriminate|]. inversion H. right. left. auto.
        * right. right. auto.
    - unfold Overlay.apply_layer in H. rewrite He, Hm in H. inversion H. left. auto.
  Qed.

  (* ---------- the layer stack ---------- *)

  Lemma apply_layers_app a : forall b out,
    apply_layers (a ++ b) out =
    match apply_layers a out with Ok m => apply_layers b m | Err c => Err c end.
  Proof.
    induction a as [|l a IH]; intros b out; simpl; [reflexivity|].
    destruct (apply_layer l out); [apply IH|reflexivity].
  Qed.

  Lemma apply_layers_clean ls : forall lower out,
    apply_layers ls lower = Ok out -> clean lower -> clean out.
  Proof.
    induction ls as [|l ls IH]; intros lower out H Hc; simpl in H.
    - inversion H; subst. exact Hc.
    - destruct (apply_layer l lower) as [o|c] eqn:S; [|discriminate].
      eapply IH; [exact H|]. eapply apply_layer_clean; eauto.
  Qed.

  (* C13_no_metadata *)
  Theorem compose_clean up ls out : compose up ls = Ok out -> clean out.
  Proof.
    unfold Overlay.compose. destruct (copy_tree up []) as [o|] eqn:C; [|discriminate].
    intros H. eapply apply_layers_clean; [exact H|]. eapply copy_tree_clean; [exact C|apply clean_nil].
  Qed.

  Lemma compose_upstream up o : copy_tree up [] = Some o ->
    forall r, get r o = if is_meta r then None else get r up.
  Proof.
    intros C r. rewrite (copy_tree_get _ _ _ C r). simpl. destruct (is_meta r); [reflexivity|].
    destruct (get r up); reflexivity.
  Qed.

  (* C13_precedence for three directory layers in the code's order [global; machine; project] *)
  Theorem compose_dir3 up g m p out :
    layer_kind g = KDir -> layer_kind m = KDir -> layer_kind p = KDir ->
    compose up [g; m; p] = Ok out ->
    forall r, is_meta r = false ->
      get r out = first_some [view p r; view m r; view g r; get r up].
  Proof.
    intros Kg Km Kp H r Hr. unfold Overlay.compose in H.
    destruct (copy_tree up []) as [o0|] eqn:C; [|discriminate]. simpl in H.
    destruct (apply_layer g o0) as [o1|] eqn:L1; [|discriminate].
    destruct (apply_layer m o1) as [o2|] eqn:L2; [|discriminate].
    destruct (apply_layer p o2) as [o3|] eqn:L3; [|discriminate].
    inversion H; subst o3.
    rewrite (apply_layer_dir p o2 out Kp L3 r), (apply_layer_dir m o1 o2 Km L2 r),
            (apply_layer_dir g o0 o1 Kg L1 r), (compose_upstream up o0 C r), Hr.
    simpl. destruct (view p r); [reflexivity|]. destruct (view m r); [reflexivity|].
    destruct (view g r); [reflexivity|]. destruct (get r up); reflexivity.
  Qed.

  (* general stack: a layer's refusal is the result of the whole composition *)
  Theorem compose_refused up o ls1 l ls2 mid c :
    copy_tree up [] = Some o -> apply_layers ls1 o = Ok mid -> apply_layer l mid = Err c ->
    compose up (ls1 ++ l :: ls2) = Err c.
  Proof.
    intros C H1 S. unfold Overlay.compose. rewrite C, apply_layers_app, H1. simpl. rewrite S. reflexivity.
  Qed.

  Lemma apply_layers_err ls : forall o c, apply_layers ls o = Err c ->
    exists ls1 l ls2 mid, ls = ls1 ++ l :: ls2 /\ apply_layers ls1 o = Ok mid /\ apply_layer l mid = Err c.
  Proof.
    induction ls as [|l ls IH]; intros o c H; simpl in H; [discriminate|].
    destruct (apply_layer l o) as [o'|c'] eqn:S.
    - destruct (IH o' c H) as [ls1 [l1 [ls2 [mid [-> [H1 S1]]]]]].
      exists (l :: ls1), l1, ls2, mid. repeat split; auto. simpl. rewrite S. exact H1.
    - inversion H; subst. exists [], l, ls, o. auto.
  Qed.

  Theorem compose_err up ls c : compose up ls = Err c ->
    (c = EUnexpected /\ copy_tree up [] = None) \/
    exists o ls1 l ls2 mid, copy_tree up [] = Some o /\ ls = ls1 ++ l :: ls2 /\
                            apply_layers ls1 o = Ok mid /\ apply_layer l mid = Err c.
  Proof.
    unfold Overlay.compose. destruct (copy_tree up []) as [o|] eqn:C.
    2:{ intros H. inversion H. left. auto. }
    intros H. right. destruct (apply_layers_err ls o c H) as [ls1 [l [ls2 [mid [E [H1 S]]]]]].
    exists o, ls1, l, ls2, mid. auto.
  Qed.

  (* a patch layer on top of anything: paths that no patch file names keep the lower content *)
  Theorem apply_layer_patch_untouched l lower out r :
    l_exists l = true -> layer_kind l = KPatch -> apply_layer l lower = Ok out ->
    (forall e, In e (patch_entries (l_files l)) -> patch_target e <> Some r) ->
    get r out = get r lower.
  Proof.
    intros He Hk H Hn. destruct (apply_layer_patch l lower out He Hk H) as [_ Hp].
    eapply apply_patches_untouched; eauto.
  Qed.
End WithGit.

(* ---------- list_files ---------- *)

Lemma list_files_nonempty t r c : In (r, c) t -> is_meta r = false -> list_files t <> [].
Proof.
  intros Hin Hr E. unfold list_files in E.
  assert (Hf : In (r, c) (filter (fun e => negb (is_meta (fst e))) t)).
  { apply filter_In. split; [exact Hin|]. simpl. rewrite Hr. reflexivity. }
  rewrite E in Hf. contradiction.
Qed.

(* ---------- witnesses ---------- *)

(* a patch that header_check accepts for f.txt although it carries a second, header-less section
   renaming g.txt (K13c) *)
Definition wit_multi_patch : str :=
  s "--- a/f.txt
+++ b/f.txt
@@ -1,3 +1,3 @@
 l1
-l2
+L2
 l3
diff --git a/g.txt b/g2.txt
similarity index 100%
rename from g.txt
rename to g2.txt
".

Lemma multi_section_accepted :
  header_check wit_multi_patch (s "f.txt") = HOk /\ single_section wit_multi_patch = false.
Proof. split; vm_compute; reflexivity. Qed.
