(* Proofs/BootstrapP.v — bootstrap (and `init --bootstrap`, which runs the same apply with the same snapshot kind)
   records what it writes: after an applied bootstrap every operator file of its desired state is listed by the
   manifest of its best root.  (A snapshot kind for which the apply path writes no manifests would leave them
   unrecorded: apply_plan writes manifests for KDeploy and KBootstrap only.) *)
From AP Require Import Base.Str Base.StrFacts Base.Sorting Gen.Tables Model.Deploy Proofs.DeployP Proofs.ConvergeP Proofs.LedgerP.
From Coq Require Import Lia Arith.
Open Scope N_scope.

Lemma plan_nomanaged_paths f D c : In c (plan f D []) -> exists d, In d D /\ c_path c = dpath d.
Proof.
  intros H. apply plan_origin in H as [[d (Hd & _ & Hp & _)]|[[] _]]. exists d. split; assumption.
Qed.

Theorem bootstrap_written_is_listed w roots D pl w' d i r :
  wfD roots D ->
  bootstrap_cmd w roots D = (pl, w') -> pl <> [] ->
  In d D -> best_root_idx roots (dtarget d) (dpath d) = Some i -> nth_error roots i = Some r ->
  In (dkey d) (root_managed (files w') r).
Proof.
  intros HD Hb Hne Hd Hbr Hn. unfold bootstrap_cmd in Hb.
  destruct (plan (files w) D []) as [|c0 rest] eqn:Epl; inversion Hb; subst; [congruence|]. clear Hb.
  rewrite <- Epl. set (pl := plan (files w) D []).
  assert (Hin : In (rel_of r (dpath d), dcontent d) (per_root roots D i r)).
  { unfold per_root. apply in_map_iff. exists d. split; [reflexivity|]. apply filter_In. split; [exact Hd|].
    apply idx_is_spec. exact Hbr. }
  assert (Hmf : files (apply_plan KBootstrap w roots D pl) (mf_path r) = Some (new_manifest r (per_root roots D i r))).
  { rewrite apply_plan_files. unfold write_manifests.
    rewrite (write_manifests_at roots 0 roots D pl _ i r) by (try apply HD; exact Hn). cbn [Nat.add].
    unfold should_write. destruct (per_root roots D i r) eqn:E; [contradiction|].
    cbn [is_nil negb]. rewrite orb_true_r. reflexivity. }
  destruct (join_rel_of roots d i r Hbr Hn) as (Hj & Hs & Ht); [apply HD; exact Hd|].
  unfold root_managed, read_manifest, chosen_manifest. rewrite Hmf. unfold new_manifest, manifest_usable.
  rewrite N.eqb_refl, str_eqb_refl. cbn [andb]. apply in_map_iff.
  exists (rel_of r (dpath d), dcontent d). split.
  - cbn [fst]. rewrite Hj, Ht. reflexivity.
  - apply filter_In. split; [exact Hin|exact Hs].
Qed.
