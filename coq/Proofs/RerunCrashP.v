(* Proofs/RerunCrashP.v — C07, the re-run: from the state left by an interruption at ANY point of
   the operation sequence of deploy --apply, re-running the same deploy succeeds (applies, or finds
   nothing left to do) and ends in the final state of the uninterrupted run. *)
From AP Require Import Base.Str Base.StrFacts Base.Sorting Gen.Tables Model.Deploy Model.Crash
  Proofs.DeployP Proofs.ConvergeP Proofs.HistoryP Proofs.CrashP Proofs.RerunP.
From Coq Require Import Lia Arith.
Open Scope N_scope.

Section RerunCrash.
  Variables (w : world) (roots : list root) (D : list dfile) (flt : option str).
  Let M := managed_for_plan w roots flt.
  Let pl := plan (files w) D M.
  Let w1 := apply_plan KDeploy w roots D pl.
  Hypothesis HD : wfD roots D.
  Hypothesis HM : wfM D M.

  Lemma crash_state_phase k :
    let wc := Build_world (cfiles (run_prefix k (steps_of_apply (files w) roots D pl) (init_state (files w)))) (snaps w) in
    phase1 w roots D flt wc \/ phase2 w roots D flt wc.
  Proof.
    cbv zeta.
    assert (Hnd : NoDup (map c_path pl)) by (apply (plan_paths_nodup roots); assumption).
    assert (Hrnd : NoDup (map mf_path roots)) by apply HD.
    assert (Hnm : forall c, In c pl -> is_manifest_path (c_path c) = false).
    { intros c Hc. eapply (plan_paths_not_manifest roots (files w) D M); eauto. }
    assert (Hdisj : forall c r, In c pl -> In r roots -> c_path c <> mf_path r).
    { intros c r Hc Hr E. pose proof (Hnm c Hc) as H. rewrite E, mf_path_is_manifest in H. discriminate. }
    pose proof (crash_old_or_new w roots D pl Hnd Hrnd Hdisj k) as Hon.
    assert (Hw1 : forall p, is_manifest_path p = false -> files w1 p = fold_left apply_change pl (files w) p).
    { intros p Hp. unfold w1. rewrite apply_plan_files. unfold write_manifests.
      apply write_manifests_other. apply not_manifest_not_mf. exact Hp. }
    destruct (crash_phase (files w) roots D pl k) as [HA|HB]; cbv zeta in *.
    - left. split; [reflexivity|]. split.
      + intros q Hq. apply HA. intros c Hc E. pose proof (Hnm c Hc) as H. rewrite E, Hq in H. discriminate.
      + intros p _. exact (Hon p).
    - right. split; [reflexivity|]. split.
      + intros p Hp. simpl. transitivity (fold_left apply_change pl (files w) p);
          [apply HB; apply not_manifest_not_mf; exact Hp|symmetry; apply Hw1; exact Hp].
      + intros q _. exact (Hon q).
  Qed.

  Theorem rerun_after_crash k st adopt :
    (has_adopt pl = false \/ adopt = true) ->
    let wc := Build_world (cfiles (run_prefix k (steps_of_apply (files w) roots D pl) (init_state (files w)))) (snaps w) in
    let res := deploy_cmd st true adopt flt wc roots D in
    (fst (snd res) = OApplied \/ fst (snd res) = ONoChanges) /\ same_final w roots D flt (snd (snd res)).
  Proof.
    intros Hgate. cbv zeta. destruct (crash_state_phase k) as [H1|H2].
    - apply (rerun_phase1 w roots D flt HD HM _ st adopt H1 Hgate).
    - apply (rerun_phase2 w roots D flt HD HM _ st adopt H2).
  Qed.
End RerunCrash.
