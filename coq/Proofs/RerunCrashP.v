(* Proofs/RerunCrashP.v — C07, the re-run: from the state left by an interruption at ANY point of
   the operation sequence of deploy --apply, re-running the same deploy succeeds (applies, or finds
   nothing left to do) and ends in the final state of the uninterrupted run. *)
From AP Require Import Base.Str Base.StrFacts Base.Sorting Gen.Tables Model.Deploy Model.Crash
  Proofs.DeployP Proofs.ConvergeP Proofs.HistoryP Proofs.CrashP Proofs.RerunP.
From Coq Require Import Lia Arith.
Open Scope N_scope.

Section RerunCrash.
  Variables (w : world) (roots : list root) (D : list dfile) (flt : option str).
  Let M := managed_for_plan w roots flt.
  Let pl := plan (files w) D M.
  Let w1 := apply_plan KDeploy w roots D pl.
  Hypothesis HD : wfD roots D.
  Hypothesis HM : wfM D M.

  Lemma crash_state_phase k :
    let wc := Build_world (cfiles (run_prefix k (steps_of_apply (files w) roots D pl) (init_state (files w)))) (snaps w) in
    phase1 w roots D flt wc \/ phase2 w roots D flt wc.
  Proof.
    cbv zeta.
    assert (Hnd : NoDup (map c_path pl)) by (apply (plan_paths_nodup roots); assumption).
    assert (Hrnd : NoDup (map mf_path roots)) by apply HD.
    assert (Hnm : forall c, In c pl -> is_manifest_path (c_path c) = false).
    { intros c Hc. eapply (plan_paths_not_manifest roots (files w) D M); eauto. }
    assert (Hdisj : forall c r, In c pl -> In r roots -> c_path c <> mf_path r).
    { intros c r Hc Hr E. pose proof (Hnm c Hc) as H. rewrite E, mf_path_is_manifest in H. discriminate. }
    pose proof (crash_old_or_new w roots D pl Hnd Hrnd Hdisj k) as Hon.
    assert (Hw1 : forall p, is_manifest_path p = false -> files w1 p = fold_left apply_change pl (files w) p).
    { intros p Hp. unfold w1. rewrite apply_plan_files. unfold write_manifests.
      apply write_manifests_other. apply not_manifest_not_mf. exact Hp. }
    destruct (crash_phase (files w) roots D pl k) as [HA|HB]; cbv zeta in *.
    - left. split; [reflexivity|]. split.
      + intros q Hq. apply HA. intros c Hc E. pose proof (Hnm c Hc) as H. rewrite E, Hq in H. discriminate.
      + intros p _. exact (Hon p).
    - right. split; [reflexivity|]. split.
      + intros p Hp. simpl. transitivity (fold_left apply_change pl (files w) p);
          [apply HB; apply not_manifest_not_mf; exact Hp|symmetry; apply Hw1; exact Hp].
      + intros q _. exact (Hon q).
  Qed.

  (* records follow the writes: at any interruption point, if some root's manifest no longer holds its
     previous content, every desired file already holds its rendered bytes and every recorded,
     no-longer-desired file is already gone *)
  Lemma records_follow_writes k r :
    In r roots ->
    cfiles (run_prefix k (steps_of_apply (files w) roots D pl) (init_state (files w))) (mf_path r) <> files w (mf_path r) ->
    (forall d, In d D -> cfiles (run_prefix k (steps_of_apply (files w) roots D pl) (init_state (files w))) (dpath d) = Some (FBytes (dcontent d))) /\
    (forall t p, In (t, p) M -> mem_key (t, p) D = false ->
                 cfiles (run_prefix k (steps_of_apply (files w) roots D pl) (init_state (files w))) p = None).
  Proof.
    intros Hr Hne.
    destruct (crash_state_phase k) as [(_ & Hman & _)|(_ & Hfin & _)].
    - exfalso. apply Hne. apply (Hman (mf_path r)). apply mf_path_is_manifest.
    - split.
      + intros d Hd. simpl in Hfin. rewrite (Hfin (dpath d)) by (apply HD; exact Hd).
        apply (files_after_desired w roots D flt HD HM d Hd).
      + intros t p Hin Hk. simpl in Hfin.
        rewrite (Hfin p) by (apply (proj1 HM t p Hin)).
        apply (files_after_removed w roots D flt HD HM t p Hin Hk).
  Qed.

  Theorem rerun_after_crash k st adopt :
    (has_adopt pl = false \/ adopt = true) ->
    let wc := Build_world (cfiles (run_prefix k (steps_of_apply (files w) roots D pl) (init_state (files w)))) (snaps w) in
    let res := deploy_cmd st true adopt flt wc roots D in
    (fst (snd res) = OApplied \/ fst (snd res) = ONoChanges) /\ same_final w roots D flt (snd (snd res)).
  Proof.
    intros Hgate. cbv zeta. destruct (crash_state_phase k) as [H1|H2].
    - apply (rerun_phase1 w roots D flt HD HM _ st adopt H1 Hgate).
    - apply (rerun_phase2 w roots D flt HD HM _ st adopt H2).
  Qed.
End RerunCrash.

(* ---------- rollback: re-running after an interruption ----------
   restore_managed / restore_manifests / delete_unlisted overwrite a fixed set of paths with fixed
   values, whatever the disk holds: the result at a path is either that fixed value or the input.
   Hence from any state in which every path holds its old or its final content, the same rollback
   produces the final content everywhere. *)
Definition apply_writes (f : fs) (l : list (path * option fobj)) : fs :=
  fold_left (fun g e => upd g (fst e) (snd e)) l f.

Lemma aw_cases l : forall p,
  (forall g, apply_writes g l p = g p) \/ (exists v, forall g, apply_writes g l p = v).
Proof.
  induction l as [|e l IH]; intros p; [left; intros g; reflexivity|].
  destruct (IH p) as [Hk|[v Hv]].
  - destruct (path_eqb (fst e) p) eqn:E.
    + right. exists (snd e). intros g. unfold apply_writes. simpl. fold (apply_writes (upd g (fst e) (snd e)) l).
      rewrite Hk. apply path_eqb_eq in E. rewrite E. apply upd_same.
    + left. intros g. unfold apply_writes. simpl. fold (apply_writes (upd g (fst e) (snd e)) l).
      rewrite Hk. apply upd_other. apply path_eqb_neq in E. congruence.
  - right. exists v. intros g. unfold apply_writes. simpl. fold (apply_writes (upd g (fst e) (snd e)) l). apply Hv.
Qed.

Lemma aw_app f a b : apply_writes (apply_writes f a) b = apply_writes f (a ++ b).
Proof. unfold apply_writes. rewrite fold_left_app. reflexivity. Qed.

Lemma restore_managed_aw l : forall f,
  restore_managed f l = apply_writes f (map (fun e : str * path * N => (snd (fst e), Some (FBytes (snd e)))) l).
Proof. unfold restore_managed, apply_writes. induction l as [|e l IH]; intros f; [reflexivity|]. simpl. apply IH. Qed.

Definition manifest_writes (l : list achange) : list (path * option fobj) :=
  flat_map (fun c => if is_manifest_path (a_path c) && is_cu (a_op c)
                     then match a_after c with Some o => [(a_path c, Some o)] | None => [] end
                     else []) l.
Lemma restore_manifests_aw l : forall f, restore_manifests f l = apply_writes f (manifest_writes l).
Proof.
  unfold restore_manifests, apply_writes, manifest_writes. induction l as [|c l IH]; intros f; [reflexivity|].
  cbn [fold_left flat_map]. rewrite fold_left_app, IH.
  destruct (is_manifest_path (a_path c) && is_cu (a_op c)); [|reflexivity].
  destruct (a_after c); reflexivity.
Qed.

Definition delete_writes (cur tgt : list (str * path * N)) : list (path * option fobj) :=
  flat_map (fun e : str * path * N => if mem_tpc (fst (fst e), snd (fst e)) tgt then [] else [(snd (fst e), @None fobj)]) cur.
Lemma delete_unlisted_aw cur tgt : forall f, delete_unlisted f cur tgt = apply_writes f (delete_writes cur tgt).
Proof.
  unfold delete_unlisted, apply_writes, delete_writes. induction cur as [|e cur IH]; intros f; [reflexivity|].
  cbn [fold_left flat_map]. rewrite fold_left_app, IH.
  destruct (mem_tpc (fst (fst e), snd (fst e)) tgt); reflexivity.
Qed.

Definition rb_files_of (f : fs) (tgt cur : snapshot) : fs :=
  delete_unlisted (restore_manifests (restore_managed f (sn_managed tgt)) (sn_changes tgt)) (sn_managed cur) (sn_managed tgt).

Lemma rb_files_of_rerun f g tgt cur :
  (forall p, g p = f p \/ g p = rb_files_of f tgt cur p) -> forall p, rb_files_of g tgt cur p = rb_files_of f tgt cur p.
Proof.
  intros H p.
  assert (E : forall x, rb_files_of x tgt cur =
              apply_writes x (map (fun e : str * path * N => (snd (fst e), Some (FBytes (snd e)))) (sn_managed tgt)
                              ++ manifest_writes (sn_changes tgt) ++ delete_writes (sn_managed cur) (sn_managed tgt))).
  { intros x. unfold rb_files_of. rewrite delete_unlisted_aw, restore_manifests_aw, restore_managed_aw, !aw_app, app_assoc. reflexivity. }
  set (L := map (fun e : str * path * N => (snd (fst e), Some (FBytes (snd e)))) (sn_managed tgt)
            ++ manifest_writes (sn_changes tgt) ++ delete_writes (sn_managed cur) (sn_managed tgt)) in E.
  rewrite !E. destruct (aw_cases L p) as [Hk|[v Hv]].
  - rewrite !Hk. destruct (H p) as [Hp|Hp]; [exact Hp|]. rewrite Hp, E, Hk. reflexivity.
  - rewrite !Hv. reflexivity.
Qed.

Theorem rollback_rerun w id tgt cur h w' k :
  nth_error (snaps w) id = Some tgt -> head_of (snaps w) = Some h -> nth_error (snaps w) h = Some cur ->
  rollback w id = (RbOk, w') ->
  NoDup (map (fun e : str * path * N => snd (fst e)) (sn_managed tgt)) ->
  NoDup (map (fun e : str * path * N => snd (fst e)) (sn_managed cur)) ->
  (forall e, In e (sn_managed tgt) -> is_manifest_path (snd (fst e)) = false) ->
  (forall e, In e (sn_managed cur) -> is_manifest_path (snd (fst e)) = false) ->
  (forall e e', In e (sn_managed cur) -> In e' (sn_managed tgt) -> snd (fst e) = snd (fst e') -> fst (fst e) = fst (fst e')) ->
  NoDup (map a_path (filter (fun c => is_manifest_path (a_path c) && is_cu (a_op c)) (sn_changes tgt))) ->
  let wc := Build_world (cfiles (run_prefix k (steps_of_rollback (files w) tgt cur) (init_state (files w)))) (snaps w) in
  exists w2, rollback wc id = (RbOk, w2) /\ forall p, files w2 p = files w' p.
Proof.
  intros Ht Hh Hc Hrb H1 H2 H3 H4 H5 H6. cbv zeta.
  pose proof (run_all_is_rollback w id w' tgt cur h Ht Hh Hc Hrb) as Hall.
  assert (Hw' : forall p, files w' p = rb_files_of (files w) tgt cur p).
  { intros p. unfold rollback in Hrb. rewrite Ht, Hh, Hc in Hrb.
    destruct (sn_kind tgt); try discriminate; destruct (sn_state tgt); try discriminate; inversion Hrb; reflexivity. }
  unfold rollback in *. cbn [snaps files]. rewrite Ht, Hh, Hc in *.
  destruct (sn_kind tgt); try discriminate; destruct (sn_state tgt); try discriminate;
    (eexists; split; [reflexivity|]; cbn [files]; intros p; rewrite Hw';
     apply (rb_files_of_rerun (files w)); intros q;
     destruct (rollback_old_or_new (files w) tgt cur k q H1 H2 H3 H4 H5 H6) as [E|E]; [left; exact E|right; rewrite E, Hall; apply Hw']).
Qed.
