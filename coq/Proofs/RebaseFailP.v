(* Proofs/RebaseFailP.v — an aborted directory rebase can be resumed: the baseline is the one the
   run started from and the files the loop had not reached are untouched, so a second run decides
   them from the same (base, ours, upstream) triples as the first would have. *)
From AP Require Import Base.Str Base.StrFacts Base.Sorting Model.Rebase Proofs.RebaseP.
Open Scope N_scope.

Section Oracles.
  Variable merge3 : content -> content -> content -> option (content * bool).
  Variable git_apply : content -> rel -> content -> option content.
  Variable diff : rel -> content -> content -> option content.

  Lemma dir_loop_err o bl base up : forall todo st rep st' c,
    dir_loop merge3 o bl base up todo st rep = (st', inl c) ->
    exists done r ours rest,
      todo = done ++ (r, ours) :: rest /\
      rebase_dir_file merge3 o (bl r) (base r) ours (up r) = FErr c /\
      (forall q, ~ In q (keys done) -> lookup q st' = lookup q st).
  Proof.
    induction todo as [|[r ours] rest IH]; intros st rep st' c H; cbn [dir_loop] in H; [discriminate|].
    destruct (rebase_dir_file merge3 o (bl r) (base r) ours (up r)) as [c0|a t cf] eqn:E.
    - injection H as <- <-. exists [], r, ours, rest. split; [reflexivity|]. split; [exact E|]. reflexivity.
    - destruct (IH _ _ _ _ H) as (done & r1 & o1 & rest1 & Ht & Hf & Hst).
      exists ((r, ours) :: done), r1, o1, rest1. split; [cbn; f_equal; exact Ht|]. split; [exact Hf|].
      intros q Hq. cbn [keys map fst] in Hq.
      assert (q <> r) by (intros ->; apply Hq; left; reflexivity).
      rewrite Hst by (intros Hin; apply Hq; right; exact Hin).
      apply lookup_apply_other. exact H0.
  Qed.

  Definition rebase := rebase_overlay merge3 git_apply diff.

  (* whatever the kind of overlay: an aborted rebase keeps the baseline it started from *)
  Theorem failed_keeps_baseline o w ov ov' c :
    rebase o w ov = (ov', inl c) -> ov_baseline ov' = ov_baseline ov.
  Proof.
    unfold rebase, rebase_overlay. intros H.
    destruct (negb (ov_exists ov)); [injection H as <- _; reflexivity|].
    destruct (ov_baseline ov) as [bl|] eqn:Hbl; [|injection H as <- _; exact Hbl].
    destruct (_ && _); [injection H as <- _; exact Hbl|].
    destruct (ov_kind ov).
    - destruct (negb (nilb (patch_files_of ov))); [injection H as <- _; exact Hbl|].
      destruct (bl_rev bl); [|injection H as <- _; exact Hbl].
      destruct (dir_loop _ _ _ _ _ _ _ _) as [fs [c0|rep]]; [|discriminate].
      injection H as <- _. cbn. first [exact Hbl | reflexivity].
    - destruct (negb (nilb (ov_files ov))); [injection H as <- _; exact Hbl|].
      destruct (bl_rev bl); [|injection H as <- _; exact Hbl].
      destruct (patch_loop _ _ _ _ _ _ _ _ _ _ _) as [[ps cfs] [c0|rep]]; [|discriminate].
      injection H as <- _. cbn. first [exact Hbl | reflexivity].
  Qed.

  (* directory overlays: the abort happened at one file of the sorted listing, whose triple makes
     rebase_dir_file fail; every file that sorts after the ones already handled is byte for byte what it was *)
  Theorem failed_dir_resumable o w ov ov' c bl :
    ov_kind ov = KDir -> ov_baseline ov = Some bl ->
    rebase o w ov = (ov', inl c) ->
    ov' = ov \/
    exists done r ours rest,
      isort entry_leb (ov_files ov) = done ++ (r, ours) :: rest /\
      rebase_dir_file merge3 o (bl_files bl r) (bl_base bl r) ours (w_up w r) = FErr c /\
      ov_baseline ov' = Some bl /\ ov_patches ov' = ov_patches ov /\ ov_conflicts ov' = ov_conflicts ov /\
      (forall q, ~ In q (keys done) -> lookup q (ov_files ov') = lookup q (ov_files ov)).
  Proof.
    intros Hk Hbl H. unfold rebase, rebase_overlay in H. rewrite Hbl, Hk in H.
    destruct (negb (ov_exists ov)); [left; injection H as <- _; reflexivity|].
    destruct (_ && _); [left; injection H as <- _; reflexivity|].
    destruct (negb (nilb (patch_files_of ov))); [left; injection H as <- _; reflexivity|].
    destruct (bl_rev bl); [|left; injection H as <- _; reflexivity].
    destruct (dir_loop _ _ _ _ _ _ _ _) as [fs [c0|rep]] eqn:L; [|discriminate].
    injection H as <- <-. right.
    destruct (dir_loop_err _ _ _ _ _ _ _ _ _ L) as (done & r & ours & rest & Ht & Hf & Hst).
    exists done, r, ours, rest. cbn. repeat split; try assumption.
  Qed.
End Oracles.
