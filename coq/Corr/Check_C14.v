(* Corr/Check_C14.v — correspondence checks for the overlay rebase model.
   One case = one scenario: the initial overlay directory, the oracle tables (what git itself
   answered to the harness for merge-file / apply / diff --no-index on the byte strings at hand) and
   a list of steps (options, upstream working tree + HEAD tree, the implementation's observation). *)
From AP Require Export Corr.Common Model.Rebase Base.Sorting.
Open Scope N_scope.

Definition fm (l : files) : fmap := fm_of l.

Definition pair_eqb {A B} (ea : A -> A -> bool) (eb : B -> B -> bool) (x y : A * B) : bool :=
  ea (fst x) (fst y) && eb (snd x) (snd y).

Definition files_eqb (a b : files) : bool :=
  list_eqb (pair_eqb str_eqb str_eqb) (isort entry_leb a) (isort entry_leb b).

Definition sorted_eqb (a b : list str) : bool := strs_eqb (isort str_leb a) (isort str_leb b).

(* oracle tables *)
Definition merge_tbl := list (content * content * content * option (content * bool)).
Definition apply_tbl := list (content * rel * content * option content).
Definition diff_tbl := list (rel * content * content * option content).

Fixpoint merge_of (t : merge_tbl) (b o u : content) : option (content * bool) :=
  match t with
  | [] => None
  | (b', o', u', r) :: t' =>
    if str_eqb b b' && str_eqb o o' && str_eqb u u' then r else merge_of t' b o u
  end.

Fixpoint apply_of (t : apply_tbl) (p : content) (r : rel) (x : content) : option content :=
  match t with
  | [] => None
  | (p', r', x', res) :: t' =>
    if str_eqb p p' && str_eqb r r' && str_eqb x x' then res else apply_of t' p r x
  end.

(* an unanticipated diff question gets a patch text no observation can match *)
Fixpoint diff_of (t : diff_tbl) (r : rel) (a b : content) : option content :=
  match t with
  | [] => Some [63; 63; 63]
  | (r', a', b', res) :: t' =>
    if str_eqb r r' && str_eqb a a' && str_eqb b b' then res else diff_of t' r a b
  end.

(* encodings *)
Definition bl_enc := (files * option N * files)%type.           (* file manifest, rev, merge base *)
Definition ov_enc := (bool * N * files * files * files * option bl_enc)%type.
Definition world_enc := (files * files * option N)%type.

Definition bl_of (e : bl_enc) : baseline := let '(f, r, b) := e in mkBL (fm f) r (fm b).
Definition ov_of (e : ov_enc) : overlay :=
  let '(ex, k, f, p, c, b) := e in
  mkOv ex (if k =? 0 then KDir else KPatch) f p c (option_map bl_of b).
Definition world_of (e : world_enc) : world := let '(u, h, r) := e in mkW (fm u) (fm h) r.

(* observation of one step *)
Record obs := mkObs {
  ob_outcome : N;                     (* 0 ok, 1 E_OVERLAY_REBASE_CONFLICT, 2 other error *)
  ob_code : str;
  ob_updated : list str; ob_deleted : list str; ob_skipped : list str; ob_conflicts : list str;
  ob_summary : list N;                (* processed, updated, deleted, skipped, conflict *)
  ob_files : files; ob_patches : files; ob_conflict_files : files;
  ob_baseline : option (list (rel * option content) * option N);
  ob_mat_code : str;                  (* [] = plan succeeded *)
  ob_mat : list (rel * option content) }.

Definition nlen {A} (l : list A) : N := N.of_nat (length l).
Definition summary_of (r : report) : list N :=
  [processed r; nlen (updated r); nlen (deleted r); nlen (skipped r); nlen (conflicts r)].

Definition out_eqb (c : cmd_out) (o : obs) : bool :=
  match c with
  | COk r => (ob_outcome o =? 0) && sorted_eqb (updated r) (ob_updated o) && sorted_eqb (deleted r) (ob_deleted o)
             && sorted_eqb (skipped r) (ob_skipped o) && sorted_eqb (conflicts r) (ob_conflicts o)
             && list_eqb N.eqb (summary_of r) (ob_summary o)
  | CConflict cs r => (ob_outcome o =? 1) && str_eqb (ob_code o) code_rebase_conflict
                      && sorted_eqb cs (ob_conflicts o) && list_eqb N.eqb (summary_of r) (ob_summary o)
  | CErr c => (ob_outcome o =? 2) && str_eqb c (ob_code o)
  end.

Definition pointwise_eqb (f : fmap) (l : list (rel * option content)) : bool :=
  forallb (fun kv => opt_eqb str_eqb (f (fst kv)) (snd kv)) l.

Definition baseline_eqb (b : option baseline) (o : option (list (rel * option content) * option N)) : bool :=
  match b, o with
  | None, None => true
  | Some bl, Some (l, r) => pointwise_eqb (bl_files bl) l && opt_eqb N.eqb (bl_rev bl) r
  | _, _ => false
  end.

Definition mat_eqb (m : str + fmap) (o : obs) : bool :=
  match m with
  | inl c => str_eqb c (ob_mat_code o)
  | inr f => nilb (ob_mat_code o) && pointwise_eqb f (ob_mat o)
  end.

Definition ov_eqb (ov : overlay) (o : obs) : bool :=
  files_eqb (ov_files ov) (ob_files o) && files_eqb (ov_patches ov) (ob_patches o)
  && files_eqb (ov_conflicts ov) (ob_conflict_files o) && baseline_eqb (ov_baseline ov) (ob_baseline o).

Definition step_enc := (bool * bool * bool * bool * world_enc * obs)%type.   (* json yes dry sparsify *)

Definition scenario := (ov_enc * (merge_tbl * apply_tbl * diff_tbl) * list step_enc)%type.

Fixpoint steps_ok (m : merge_tbl) (a : apply_tbl) (d : diff_tbl) (ov : overlay) (steps : list step_enc) : bool :=
  match steps with
  | [] => true
  | (json, yes, dry, sp, we, o) :: rest =>
    let w := world_of we in
    let '(ov', out) := overlay_rebase_cmd (merge_of m) (apply_of a) (diff_of d) json yes (mkOpts dry sp) w ov in
    out_eqb out o && ov_eqb ov' o && mat_eqb (materialize (apply_of a) ov' (w_up w)) o
    && steps_ok m a d ov' rest
  end.

Definition check_scenario (c : scenario) : bool :=
  let '(ove, (m, a, d), steps) := c in steps_ok m a d (ov_of ove) steps.

(* pure-function streams *)
Definition check_utf8 (c : content * bool) : bool := Bool.eqb (utf8_valid (fst c)) (snd c).
Definition check_ext (c : rel * bool * bool) : bool :=
  let '(p, ext, valid) := c in Bool.eqb (has_patch_ext p) ext && Bool.eqb (valid_relpath p) valid.
Definition check_order (c : list rel * list rel) : bool :=
  strs_eqb (map fst (isort entry_leb (map (fun p => (p, [])) (fst c)))) (snd c).
