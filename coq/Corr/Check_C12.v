(* Corr/Check_C12.v — stream render_matrix: the model's load_render against plan/doctor/deploy of the
   real binary.  Observation: an error code, or the desired files (target, raw path string, deployed
   bytes, module_ids from the written target manifest) as a SET plus the root list of doctor --json in
   its printed order (target, raw root string, scan_extras). *)
From AP Require Export Corr.Common Model.Render Base.PathR Base.Sorting.
Open Scope N_scope.

Inductive obs :=
| ObsErr (code : N)
| ObsOk (files : list (str * str * list N * list str)) (roots : list (str * str * bool)).

Definition err_code (e : rerr) : N :=
  match e with
  | EConflict => 1 | EConfigInvalid => 2 | EUnexpected => 3 | ETargetUnsupported => 4 | EUnsupportedVersion => 5
  end.

Definition file_matches (D : list entry) (f : str * str * list N * list str) : bool :=
  let '(t, p, b, ids) := f in
  match lookup D (t, components p) with
  | Some x => bytes_eqb (d_bytes x) b && strs_eqb (d_ids x) ids
  | None => false
  end.

Definition root_matches (r : root) (o : str * str * bool) : bool :=
  let '(t, p, sc) := o in
  str_eqb (r_target r) t && comps_eqb (components (r_path r)) (components p) && Bool.eqb (r_scan r) sc.

Fixpoint roots_match (a : list root) (b : list (str * str * bool)) : bool :=
  match a, b with
  | [], [] => true
  | x :: a', y :: b' => root_matches x y && roots_match a' b'
  | _, _ => false
  end.

Definition case := (cfg * env * str * str * obs)%type.

Definition check_render (c : case) : bool :=
  let '(cf, e, prof, filt, o) := c in
  match load_render cf e prof filt, o with
  | Err x, ObsErr n => err_code x =? n
  | Ok (D, R), ObsOk files roots =>
    (N.of_nat (length D) =? N.of_nat (length files)) && forallb (file_matches D) files &&
    roots_match R roots
  | _, _ => false
  end.

(* C03 stream hostile_ids: the same comparison, plus the relpaths the model says each root's manifest
   lists: per observed manifest (target, raw root string) the sorted list of managed_files[].path *)
Definition manifest_of (R : list root) (D : list entry) (t root_path : str) : option (list str) :=
  (fix go (l : list root) (i : nat) : option (list str) :=
     match l with
     | [] => None
     | r :: rest =>
       if str_eqb (r_target r) t && comps_eqb (components (r_path r)) (components root_path)
       then Some (isort str_leb (map snd (manifest_entries R D i)))
       else go rest (S i)
     end) R 0%nat.

Definition case03 := (cfg * env * str * str * obs * list (str * str * list str))%type.

Definition check_hostile (c : case03) : bool :=
  let '(cf, e, prof, filt, o, mans) := c in
  check_render (cf, e, prof, filt, o) &&
  match load_render cf e prof filt with
  | Ok (D, R) =>
    forallb (fun m => let '(t, rp, paths) := m in
                      match manifest_of R D t rp with
                      | Some ps => strs_eqb ps paths
                      | None => false
                      end) mans
  | Err _ => match mans with [] => true | _ => false end
  end.

(* short constructors for the generated case files *)
Definition F (rel : list str) (b : list N) (u : bool) : file := mkFile rel b u.
Definition M := mkModule.
Definition P := mkProfile.
Definition T := mkTcfg.
