(* Corr/Check_C18.v — model vs implementation for the lockfile (property C18).
   SHA-256 is instantiated by finite lookup tables computed by the harness with hashlib:
   [sha_tab] from the (content, hex) pairs of the case's files, [text_tab] from (manifest text,
   hex) pairs.  A lookup miss yields [] which never equals an observed 64-digit value. *)
From AP Require Export Corr.Common Model.Lock Base.Sorting.
Open Scope N_scope.

Definition bytes_eqb : list N -> list N -> bool := list_eqb N.eqb.

(* (relative components, content bytes, sha256 hex) *)
Definition tfile := (list str * list N * str)%type.
(* what is at a module root: absolute components, is_file, files (for a file root: one tfile whose
   single component is the file name) *)
Definition troot := (list str * bool * list tfile)%type.

Definition sha_tab (t : list (list N * str)) (c : list N) : str :=
  match find (fun kv => bytes_eqb (fst kv) c) t with Some kv => snd kv | None => [] end.
Definition text_tab (t : list (str * str)) (x : str) : str :=
  match find (fun kv => str_eqb (fst kv) x) t with Some kv => snd kv | None => [] end.

Definition tab_of (fs : list tfile) : list (list N * str) := map (fun f => (snd (fst f), snd f)) fs.

Definition node_of (isf : bool) (fs : list tfile) : node :=
  if isf then
    match fs with
    | (name :: _, c, _) :: _ => NFile name c
    | _ => NDir []
    end
  else NDir (map fst fs).

Definition obs_entry := (str * str * N)%type.
Definition entry_eqb (e : entry) (o : obs_entry) : bool :=
  let '(p, h, n) := o in str_eqb (e_path e) p && str_eqb (e_sha e) h && (e_size e =? n).
Fixpoint entries_eqb (a : list entry) (b : list obs_entry) : bool :=
  match a, b with
  | [], [] => true
  | x :: a', y :: b' => entry_eqb x y && entries_eqb a' b'
  | _, _ => false
  end.

(* ---- stream tree: hash_tree on a directory (or file) vs the model ----
   case = (root, is_file, files, observed entries, text whose SHA-256 the implementation returned) *)
Definition check_tree (c : list str * bool * list tfile * list obs_entry * str) : bool :=
  let '(root, isf, fs, obs, enc) := c in
  let es := hash_tree (sha_tab (tab_of fs)) root (node_of isf fs) in
  entries_eqb es obs && str_eqb (encode_tree es) enc.

(* ---- worlds for lock / fetch / update ---- *)
Definition tworld := list (str * troot).                    (* manifest local path -> root *)
Definition tremote := list (str * str * str).               (* url, ref, commit *)
Definition tcheckout := list (str * str * str * troot).     (* url, commit, subdir -> module root *)

Definition world_tab (w : tworld) (co : tcheckout) : list (list N * str) :=
  flat_map (fun kv => tab_of (snd (snd kv))) w ++ flat_map (fun kv => tab_of (snd (snd kv))) co.

Definition fs_of (w : tworld) (p : str) : option (list str * node) :=
  match find (fun kv => str_eqb (fst kv) p) w with
  | Some (_, (root, isf, fs)) => Some (root, node_of isf fs)
  | None => None
  end.
Definition ls_of (r : tremote) (url ref : str) : option str :=
  match find (fun k => let '(u, rf, _) := k in str_eqb u url && str_eqb rf ref) r with
  | Some (_, _, c) => Some c
  | None => None
  end.
Definition co_of (co : tcheckout) (url commit subdir : str) : option (list str * node) :=
  match find (fun k => let '(u, c, sd, _) := k in str_eqb u url && str_eqb c commit && str_eqb sd subdir) co with
  | Some (_, _, _, (root, isf, fs)) => Some (root, node_of isf fs)
  | None => None
  end.

(* observed lockfile module: id, type, kind (0 local / 1 git), a, b, c (local: path,[],[] ; git:
   url, commit, subdir), resolved_version, sha256, file_manifest *)
Definition obs_locked := (str * str * N * str * str * str * str * str * list obs_entry)%type.

Definition locked_eqb (l : locked) (o : obs_locked) : bool :=
  let '(id, ty, k, a, b, c, ver, h, es) := o in
  str_eqb (l_id l) id && str_eqb (l_type l) ty &&
  match l_source l with
  | RLocal p => (k =? 0) && str_eqb p a
  | RGit u cm sd => (k =? 1) && str_eqb u a && str_eqb cm b && str_eqb sd c
  end && str_eqb (l_version l) ver && str_eqb (l_sha l) h && entries_eqb (l_files l) es.

Fixpoint lockeds_eqb (a : list locked) (b : list obs_locked) : bool :=
  match a, b with
  | [], [] => true
  | x :: a', y :: b' => locked_eqb x y && lockeds_eqb a' b'
  | _, _ => false
  end.

Definition entry_of_obs (o : obs_entry) : entry := let '(p, h, n) := o in Build_entry p h n.
Definition locked_of_obs (o : obs_locked) : locked :=
  let '(id, ty, k, a, b, c, ver, h, es) := o in
  Build_locked id ty (if k =? 0 then RLocal a else RGit a b c) ver h (map entry_of_obs es).

Definition mkm (id ty : str) (en : bool) (src : source) : module := Build_module id ty en src.

(* ---- stream lock: agentpack lock vs generate_lockfile ----
   observed = None when the command failed *)
Definition check_lock (c : list module * tworld * tremote * tcheckout * list (str * str) *
                           option (list obs_locked)) : bool :=
  let '(ms, w, r, co, tx, obs) := c in
  let g := generate_lockfile (sha_tab (world_tab w co)) (text_tab tx) (fs_of w) (ls_of r) (co_of co) ms in
  match g, obs with
  | Some l, Some o => lockeds_eqb l o
  | None, None => true
  | _, _ => false
  end.

(* ---- stream fetch: observed (ok?, verified count, mismatching id if the message named one) ---- *)
Definition fetch_obs := (bool * N * option str)%type.

Definition fetch_eqb (f : fetch_result) (o : fetch_obs) : bool :=
  let '(ok, n, id) := o in
  match f with
  | FetchOk k => ok && (k =? n)
  | FetchMismatch i _ _ => negb ok && match id with Some j => str_eqb i j | None => true end
  | FetchCheckoutError _ => negb ok && match id with Some _ => false | None => true end
  end.

Definition check_fetch (c : list obs_locked * tcheckout * list (str * str) * fetch_obs) : bool :=
  let '(lk, co, tx, o) := c in
  fetch_eqb (fetch (sha_tab (world_tab [] co)) (text_tab tx) (co_of co) (map locked_of_obs lk)) o.

(* ---- stream update ----
   existing: 0 = no lockfile, 1 = unloadable, 2 = loaded (the list);
   observed: (ok?, lockfile (re)written with these modules, verified count when ok and fetched) *)
Definition update_obs := (bool * option (list obs_locked) * option N)%type.

Definition written_eqb (w : option (list locked)) (o : option (list obs_locked)) : bool :=
  match w, o with
  | None, None => true
  | Some l, Some ol => lockeds_eqb l ol
  | _, _ => false
  end.

Definition update_eqb (u : update_result) (o : update_obs) : bool :=
  let '(ok, w, n) := o in
  match u with
  | UErrLockfileMissing | UErrGenerate | UErrLoad =>
    negb ok && match w with None => true | Some _ => false end
  | UDone wr None => ok && written_eqb wr w && match n with None => true | Some _ => false end
  | UDone wr (Some (FetchOk k)) =>
    ok && written_eqb wr w && match n with Some j => k =? j | None => false end
  | UDone wr (Some _) => negb ok && written_eqb wr w
  end.

Definition check_update (c : N * list obs_locked * list module * tworld * tremote * tcheckout *
                             list (str * str) * (bool * bool * bool * bool) * update_obs) : bool :=
  let '(ex, lk, ms, w, r, co, tx, (f_lock, f_fetch, f_nolock, f_nofetch), o) := c in
  let existing :=
    if ex =? 0 then None else if ex =? 1 then Some None else Some (Some (map locked_of_obs lk)) in
  update_eqb (update (sha_tab (world_tab w co)) (text_tab tx) (fs_of w) (ls_of r) (co_of co)
                     existing ms f_lock f_fetch f_nolock f_nofetch) o.

(* ---- stream upstream: which checkout rendering used ----
   lock: 0 = none/unloadable, 2 = loaded; observed kind: 0 local path, 1 git (url, commit, subdir),
   2 error *)
Definition check_upstream (c : N * list obs_locked * module * tremote * (N * str * str * str)) : bool :=
  let '(ex, lk, m, r, (k, a, b, cc)) := c in
  let lock := if ex =? 2 then Some (map locked_of_obs lk) else None in
  match resolve_upstream (ls_of r) lock m with
  | UpLocal p => (k =? 0) && str_eqb p a
  | UpGit u cm sd => (k =? 1) && str_eqb u a && str_eqb cm b && str_eqb sd cc
  | UpError => k =? 2
  end.
