From AP Require Export Corr.Common Model.Token Base.Sorting.
Open Scope N_scope.

(* store-level: expected outputs are (kind, payload, sorted keys): kind 0 = unit, 1 = ok h, 2 = err code *)
Definition sout_eqb (a : sout) (k : N) (p : str) : bool :=
  match a with
  | SUnit => k =? 0
  | SOk h => (k =? 1) && str_eqb h p
  | SErr c => (k =? 2) && str_eqb c p
  end.

Fixpoint souts_eqb (a : list (sout * list str)) (b : list (N * str * list str)) : bool :=
  match a, b with
  | [], [] => true
  | (x, ks) :: a', (k, p, oks) :: b' =>
    sout_eqb x k p && strs_eqb (isort str_leb ks) oks && souts_eqb a' b'
  | _, _ => false
  end.

Definition check_store (c : list sop * list (N * str * list str)) : bool :=
  let '(ops, obs) := c in souts_eqb (srun [] ops) obs.

(* tool-level: observed outcome codes: 0 issued(tok,h) 1 refused(code) 2 dryrun 3 nochanges 4 applied 5 none *)
Definition out_eqb (a : out) (k : N) (p q : str) : bool :=
  match a with
  | OIssued t _ => (k =? 0) && str_eqb t p   (* the hash value itself is SHA-256 output: not compared *)
  | ORefused c => (k =? 1) && str_eqb c p
  | ODryRun => k =? 2
  | ONoChanges => k =? 3
  | OApplied => k =? 4
  | ONone => k =? 5
  end.

Fixpoint outs_eqb (a : list out) (b : list (N * str * str)) : bool :=
  match a, b with
  | [], [] => true
  | x :: a', (k, p, q) :: b' => out_eqb x k p q && outs_eqb a' b'
  | _, _ => false
  end.

(* plan oracle as an association list on bindings with a default *)
Fixpoint plan_of (l : list (binding * plan_state)) (d : plan_state) (b : binding) : plan_state :=
  match l with
  | [] => d
  | (k, v) :: r => if binding_eqb k b then v else plan_of r d b
  end.

Definition check_tool (c : list op * list (N * str * str)) : bool :=
  let '(ops, obs) := c in outs_eqb (run (init (fun _ => PlanErr [])) ops) obs.
