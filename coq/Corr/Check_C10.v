(* Corr/Check_C10.v — model vs implementation for the --json envelope (C10). *)
From AP Require Export Corr.Common Model.Envelope.
Open Scope N_scope.

(* observed error: code, and, when details is an object: its keys, reason_code and next_actions
   (when they are a string / a list of strings) *)
Definition obs_err := (str * option (list str * option str * option (list str)))%type.

Definition details_of (d : option (list str * option str * option (list str))) : option json :=
  match d with
  | None => None
  | Some (keys, rc, na) =>
    Some (JObj (map (fun k =>
      if str_eqb k k_reason then (k, match rc with Some v => JStr v | None => JNull end)
      else if str_eqb k k_actions then (k, match na with Some l => JArr (map JStr l) | None => JNull end)
      else (k, JNull)) keys))
  end.

Definition keys_of (d : option json) : option (list str) :=
  match d with Some (JObj m) => Some (map fst m) | _ => None end.

Definition same_keys (a b : list str) : bool :=
  forallb (fun k => mem_str k b) a && forallb (fun k => mem_str k a) b.

Definition json_str_eqb (a : option json) (b : option str) : bool :=
  match a, b with
  | Some (JStr x), Some y => str_eqb x y
  | Some JNull, None => true
  | None, None => true
  | _, _ => false
  end.

Fixpoint jstrs_eqb (l : list json) (ys : list str) : bool :=
  match l, ys with
  | [], [] => true
  | JStr x :: l', y :: ys' => str_eqb x y && jstrs_eqb l' ys'
  | _, _ => false
  end.

Definition json_strs_eqb (a : option json) (b : option (list str)) : bool :=
  match a, b with
  | Some (JArr l), Some ys => jstrs_eqb l ys
  | Some JNull, None => true
  | None, None => true
  | _, _ => false
  end.

(* one envelope: (command name, command_path, exit status, ok, command_id, data = {}, errors).
   The observed envelope must be what the exit path produces from the observed error (the default
   guidance is already in it: a fixed point), with the meta of the invocation. *)
Definition check_env (c : str * list str * N * bool * str * bool * list obs_err) : bool :=
  let '(cmd, path, rc, okv, cid, data_empty, errs) := c in
  let m := mkMeta cmd path in
  str_eqb (m_id m) cid &&
  match okv, errs with
  | true, [] =>
    let '(x, e) := of_result m (ROk cmd (JObj []) []) in
    (x =? rc) && ok e && opt_eqb str_eqb (command_id e) (Some cid)
  | false, [(code, d)] =>
    let u := mkU code [] (details_of d) in
    let '(x, e) := of_result m (RErr (LUser u, [])) in
    (x =? rc) && negb (ok e) && data_empty && opt_eqb str_eqb (command_id e) (Some cid)
    && mem_str code registry
    && match errors e with
       | [mkErr code' _ det] =>
         str_eqb code' code &&
         match d, det with
         | None, None => true
         | Some (keys, rcv, nav), Some (JObj m') =>
           same_keys keys (map fst m') && json_str_eqb (obj_get k_reason m') rcv
           && json_strs_eqb (obj_get k_actions m') nav
         | _, _ => false
         end
       | _ => false
       end
  | _, _ => false
  end.

Definition check_posix (c : str * str) : bool := let '(x, y) := c in str_eqb (posix x) y.
