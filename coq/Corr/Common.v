(* Corr/Common.v — helpers for the generated cases_*.v files *)
From AP Require Export Base.Str.
From Coq Require Export ZArith.
Open Scope N_scope.

Fixpoint failing {A} (f : A -> bool) (i : N) (l : list A) : list N :=
  match l with
  | [] => []
  | x :: r => if f x then failing f (i + 1) r else i :: failing f (i + 1) r
  end.

Definition cmp_code (c : comparison) : Z := match c with Lt => (-1)%Z | Eq => 0%Z | Gt => 1%Z end.

Fixpoint list_eqb {A} (eqb : A -> A -> bool) (a b : list A) : bool :=
  match a, b with
  | [], [] => true
  | x :: a', y :: b' => eqb x y && list_eqb eqb a' b'
  | _, _ => false
  end.

Definition opt_eqb {A} (eqb : A -> A -> bool) (a b : option A) : bool :=
  match a, b with
  | None, None => true
  | Some x, Some y => eqb x y
  | _, _ => false
  end.

Definition strs_eqb := list_eqb str_eqb.
