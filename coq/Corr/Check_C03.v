(* Corr/Check_C03.v — stream hostile_ids: same observation as render_matrix (Corr/Check_C12.v) plus, per
   written target manifest (tool, root directory), the sorted list of managed_files[].path; the model
   side is [manifest_entries] over [best_root_index] (apply.rs::write_target_manifests). *)
From AP Require Export Corr.Check_C12.
Open Scope N_scope.

(* the model-side property predicate (executable form of C03_inside / C03_manifest_entries), evaluated
   on the model's own answer for every generated configuration: a failure here with the proofs intact
   would mean a hypothesis of the theorems (env_ok / cfg_ok) is violated by the generator *)
Definition model_inside (c : case03) : bool :=
  let '(cf, e, prof, filt, _, _) := c in
  match load_render cf e prof filt with
  | Ok (D, R) =>
    forallb (fun x => existsb (fun r => str_eqb (r_target r) (fst (d_key x)) &&
                                        inside_c (components (r_path r)) (snd (d_key x))) R &&
                      match best_root_for R (d_key x) with
                      | Some b => match manifest_rel b (d_key x) with
                                  | Some p => seg_safe p && negb (mem_char 92 p)
                                  | None => false
                                  end
                      | None => false
                      end) D
  | Err _ => true
  end.

Definition check_hostile_full (c : case03) : bool := check_hostile c && model_inside c.
