(* Corr/Check_C16.v — status --json vs Model/Status.v *)
From AP Require Export Corr.Check_Deploy Model.Status.
Open Scope N_scope.

Definition kind_code (k : dkind) : N := match k with DModified => 0 | DMissing => 1 | DExtra => 2 end.
Definition obs_item := (str * option str * str * N * option N * option fobj)%type.

Definition item_matches (it : ditem) (o : obs_item) : bool :=
  let '(t, rt, p, k, e, a) := o in
  str_eqb (i_target it) t && opt_eqb path_eqb (i_root it) (option_map P rt) && path_eqb (i_path it) (P p)
  && (kind_code (i_kind it) =? k) && opt_eqb N.eqb (i_expected it) e && opt_eqb fobj_sim (i_actual it) a.

Definition items_eqb (l : list ditem) (ob : list obs_item) : bool :=
  forallb (fun it => existsb (item_matches it) ob) l &&
  forallb (fun o => existsb (fun it => item_matches it o) l) ob &&
  Nat.eqb (length l) (length ob).

(* case: disk, roots, desired, observed items, observed summary (modified, missing, extra),
   observed needs-deploy (fallback warning present) *)
Definition status_case :=
  (list (str * fobj) * list root * list dfile * list obs_item * (N * N * N) * bool)%type.

Definition check_status (c : status_case) : bool :=
  let '(disk, roots, D, ob, (sm, smi, se), nd) := c in
  let f := mkfs disk in
  let U := map (fun e => P (fst e)) disk in
  let rep := report f U roots D in
  let sm' := drift_summary rep in
  items_eqb rep ob && (s_modified sm' =? sm) && (s_missing sm' =? smi) && (s_extra sm' =? se)
  && Bool.eqb (needs_deploy_apply f roots D) nd.

(* ---- status --only <kinds>: the filtered report with all its summaries (Model/Status.v status_cmd) ---- *)
Definition kind_of_code (k : N) : dkind := if k =? 0 then DModified else if k =? 1 then DMissing else DExtra.
Definition sum_eqb (s : dsummary) (o : N * N * N) : bool :=
  let '(a, b, c) := o in (s_modified s =? a) && (s_missing s =? b) && (s_extra s =? c).
Definition byroot_matches (m : group_key * dsummary) (o : str * option str * (N * N * N)) : bool :=
  let '(t, rt, s) := o in gk_eqb (fst m) (t, option_map P rt) && sum_eqb (snd m) s.
Definition status_only_case :=
  (list (str * fobj) * list root * list dfile * list N * list obs_item * (N * N * N)
   * list (str * option str * (N * N * N)) * option (N * N * N))%type.
Definition check_status_only (c : status_only_case) : bool :=
  let '(disk, roots, D, only, ob, sm, byroot, total) := c in
  let f := mkfs disk in
  let U := map (fun e => P (fst e)) disk in
  let o := status_cmd (map kind_of_code only) f U roots D in
  items_eqb (so_drift o) ob && sum_eqb (so_summary o) sm
  && forallb (fun m => existsb (byroot_matches m) byroot) (so_by_root o)
  && Nat.eqb (length (so_by_root o)) (length byroot)
  && match so_total o, total with
     | Some s, Some t => sum_eqb s t
     | None, None => true
     | _, _ => false
     end.
