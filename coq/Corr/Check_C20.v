(* Corr/Check_C20.v — correspondence checks for C20: one case = inputs + the implementation's
   canonicalised observation; true iff the model agrees. *)
From AP Require Export Corr.Common Gen.Tables Model.PolicyCmd Model.PolicyUrl Model.PolicyRules.
Open Scope N_scope.

Definition pair_eqb {A B} (ea : A -> A -> bool) (eb : B -> B -> bool) (x y : A * B) : bool :=
  ea (fst x) (fst y) && eb (snd x) (snd y).

(* multisets (the implementation sorts its issues by message) *)
Fixpoint remove_one {A} (eqb : A -> A -> bool) (x : A) (l : list A) : option (list A) :=
  match l with
  | [] => None
  | y :: r => if eqb x y then Some r
              else match remove_one eqb x r with Some r' => Some (y :: r') | None => None end
  end.
Fixpoint multiset_eqb {A} (eqb : A -> A -> bool) (a b : list A) : bool :=
  match a with
  | [] => match b with [] => true | _ => false end
  | x :: a' => match remove_one eqb x b with Some b' => multiset_eqb eqb a' b' | None => false end
  end.

(* hook extract_bash_commands *)
Definition check_bash (c : str * list (N * str)) : bool :=
  let '(md, obs) := c in list_eqb (pair_eqb N.eqb str_eqb) (extract_bash_commands md) obs.

(* hooks extract_agentpack_invocations + agentpack_command_id on each invocation *)
Definition check_line (c : str * list (list str * option str)) : bool :=
  let '(line, obs) := c in
  list_eqb (pair_eqb strs_eqb (opt_eqb str_eqb))
           (map (fun a => (a, agentpack_command_id a)) (extract_agentpack_invocations line)) obs.

(* hook agentpack_command_id on a raw argv (tokens that the tokenizer would never produce included) *)
Definition check_cmdid (c : list str * option str) : bool :=
  let '(argv, obs) := c in opt_eqb str_eqb (agentpack_command_id argv) obs.

(* the reference reading, against the harness's Python oracle (ties the oracle to Coq's [ref_*]) *)
Definition check_ref_line (c : str * list (list str * option str)) : bool :=
  let '(line, obs) := c in
  list_eqb (pair_eqb strs_eqb (opt_eqb str_eqb))
           (map (fun a => (a, ref_id a)) (ref_invocations_line line)) obs.

(* the reference command id, against the real binary's clap parser (command_id of the envelope) *)
Definition check_ref_id (c : list str * option str) : bool :=
  let '(argv, obs) := c in opt_eqb str_eqb (ref_id argv) obs.

(* the whole dangerous-defaults rule on a file: (line, invocation) of every issue, in file order,
   together with the reference shell lines the oracle used *)
Definition check_file (c : str * list (N * list str) * list str) : bool :=
  let '(md, issues, ref_lines) := c in
  multiset_eqb (pair_eqb N.eqb strs_eqb) (if uses_bash_tool md then dangerous_issues md else []) issues
  && strs_eqb (ref_shell_lines md) ref_lines.

(* hooks normalize_git_remote_for_policy / remote_matches_allowlist *)
Definition check_url (c : str * str * str * str * bool) : bool :=
  let '(u, a, nu, na, m) := c in
  str_eqb (normalize u) nu && str_eqb (normalize a) na && Bool.eqb (matches nu na) m.

(* the reference decomposition, against the harness's Python oracle:
   (form 0/1/2, scheme, userinfo, host, port, segments) and the verdict for an allow entry *)
Definition form_code (f : url_form) : N := match f with FUrl => 0 | FScp => 1 | FBare => 2 end.
Definition ref_obs := (N * str * option str * str * option str * list str)%type.
Definition ref_view (d : ref_url) : ref_obs :=
  (form_code (r_form d), r_scheme d, r_userinfo d, r_host d, r_port d, ref_segments d).
Definition ref_obs_eqb (x y : ref_obs) : bool :=
  let '(f1, s1, u1, h1, p1, g1) := x in
  let '(f2, s2, u2, h2, p2, g2) := y in
  (f1 =? f2) && str_eqb s1 s2 && opt_eqb str_eqb u1 u2 && str_eqb h1 h2 && opt_eqb str_eqb p1 p2 && strs_eqb g1 g2.

Definition check_ref_url (c : str * str * option ref_obs * bool * option bool) : bool :=
  let '(u, a, du, a_ok, under) := c in
  opt_eqb ref_obs_eqb (option_map ref_view (ref_parse u)) du
  && Bool.eqb (match ref_allow a with Some _ => true | None => false end) a_ok
  && opt_eqb Bool.eqb (match ref_parse u, ref_allow a with
                       | Some x, Some y => Some (ref_under x y)
                       | _, _ => None
                       end) under.

Definition mkmod (id : str) (en : bool) (git : option str) : cfg_module := Build_cfg_module id en git.
Definition mklock (id : str) (git : option (str * str)) : lock_entry := Build_lock_entry id git.

Definition check_cfg (c : (list str * bool * option str * lock_state) * (list str * list str * list str)
                          * list cfg_module * list (str * str)) : bool :=
  let '((allowed, req_lock, pack, lock), (req_t, req_m, targets), ms, obs) := c in
  multiset_eqb (pair_eqb str_eqb str_eqb) (distribution_issues req_t req_m targets ms ++ supply_chain_issues allowed req_lock pack lock ms) obs.

(* skill / allowed-tools rules on structured front matter: number of skill issues; allowed-tools issue? *)
Definition check_skill (c : frontmatter * N) : bool := let '(fm, n) := c in skill_issue_count fm =? n.
Definition check_tools (c : str * frontmatter * bool) : bool :=
  let '(md, fm, issue) := c in Bool.eqb (fst (command_file_issues md fm)) issue.

(* what the binary reports about itself (help --json, the mutating_ids hook) against the tables
   regenerated from the source and the tables the Coq reference derives from them *)
Definition subset_b {A} (eqb : A -> A -> bool) (a b : list A) : bool := forallb (fun x => existsb (eqb x) b) a.
Definition set_eqb {A} (eqb : A -> A -> bool) (a b : list A) : bool := subset_b eqb a b && subset_b eqb b a.

Definition check_tables (c : list str * list str * list str * list (str * str) * list str * list str) : bool :=
  let '(help_mut, hook_mut, groups, variants, vflags, bflags) := c in
  set_eqb str_eqb help_mut mutating_ids && set_eqb str_eqb hook_mut mutating_ids
  && set_eqb str_eqb mutating_ids guard_site_ids
  && set_eqb str_eqb groups group_names
  && set_eqb (pair_eqb str_eqb str_eqb) variants variant_table
  && set_eqb str_eqb vflags cli_global_value_flags && set_eqb str_eqb bflags cli_global_bool_flags
  && set_eqb str_eqb vflags policy_flags_with_value && set_eqb str_eqb bflags policy_flags_no_value.
