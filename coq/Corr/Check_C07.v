(* Corr/Check_C07.v — fault-point trace and crash-prefix disks vs Model/Crash.v *)
From AP Require Export Corr.Check_Deploy Model.Crash.
Open Scope N_scope.

(* observed trace line: kind code, class, text
   class 0: target-side path (text = path); 1 snapshots dir; 2 backup root; 3 state root;
   4 backup dir (text = target); 5 state dir (text = target); 6 state file (text = original path);
   7 snapshot record; 8 backup file (text = original path) *)
Definition obs_line := (N * N * str)%type.

Definition label_obs (l : label) : N * str :=
  match l with
  | LT p => (0, render_abs p) | LDir p => (0, render_abs p)
  | LSnapDir => (1, []) | LBackupRoot => (2, []) | LStateRoot => (3, [])
  | LBackupDir t => (4, sanitize_id t) | LStateDir t => (5, sanitize_id t)
  | LState _ p => (6, render_abs p) | LRecord => (7, [])
  end.

Definition step_obs (k : step) : obs_line :=
  match k with
  | KMk l | KTmpC l | KTmpW l | KRen l _ => (kind_code k, fst (label_obs l), snd (label_obs l))
  | KBackup p => (4, 8, render_abs p)
  | KRemove p => (5, 0, render_abs p)
  end.

Definition line_eqb (a b : obs_line) : bool :=
  let '(k, c, t) := a in let '(k', c', t') := b in (k =? k') && (c =? c') && str_eqb t t'.

Definition norm_line (o : obs_line) : obs_line :=
  let '(k, c, t) := o in (k, c, if c =? 0 then render_abs (P t) else if (c =? 6) || (c =? 8) then render_abs (P t) else t).

(* case: disk, roots, desired, filter-managed source as in lib stream (None: from manifests),
   observed trace of the apply phase, and for some fault points k (0-based within the apply phase:
   number of operations performed) the observed disk over the universe *)
Definition crash_case :=
  (list (str * fobj) * list root * list dfile * option (list (str * str)) *
   list obs_line * list (nat * list (str * option fobj)))%type.

Definition check_crash (c : crash_case) : bool :=
  let '(disk, roots, D, msrc, obs_tr, obs_pref) := c in
  let f := mkfs disk in
  let M := match msrc with None => load_managed f roots | Some l => map (fun o => (fst o, P (snd o))) l end in
  let pl := plan f D M in
  let steps := steps_of_apply f roots D pl in
  list_eqb line_eqb (map step_obs steps) (map norm_line obs_tr)
  && forallb (fun kp => disk_eqb (cfiles (run_prefix (fst kp) steps (init_state f))) (snd kp)) obs_pref
  && disk_eqb (cfiles (run steps (init_state f)))
              (map (fun e => (fst e, files (apply_plan KDeploy (Build_world f []) roots D pl) (P (fst e)))) disk).

(* ---- rollback: trace of the fault points and crash-prefix disks vs steps_of_rollback ---- *)
(* a snapshot as the harness reads it from <id>.json and the state/ tree: managed files
   (target, path, content id) and the manifests it wrote (target, path, bytes in state/) *)
Definition SN (managed : list (str * str * N)) (mans : list (str * str * fobj)) : snapshot :=
  {| sn_kind := KDeploy;
     sn_managed := map (fun e => (fst (fst e), P (snd (fst e)), snd e)) managed;
     sn_changes := map (fun e => Build_achange (fst (fst e)) AUpdate (P (snd (fst e))) None (Some (snd e))) mans;
     sn_to := None; sn_state := true |}.

Definition rb_case :=
  (list (str * fobj) * snapshot * snapshot * list obs_line * list (nat * list (str * option fobj)) *
   list (str * option fobj))%type.

Definition check_rollback_crash (c : rb_case) : bool :=
  let '(disk, tgt, cur, obs_tr, obs_pref, obs_final) := c in
  let f := mkfs disk in
  let steps := steps_of_rollback f tgt cur in
  list_eqb line_eqb (map step_obs steps) (map norm_line obs_tr)
  && forallb (fun kp => disk_eqb (cfiles (run_prefix (fst kp) steps (init_state f))) (snd kp)) obs_pref
  && disk_eqb (cfiles (run steps (init_state f))) obs_final.
