(* Corr/Check_Premises.v — on how many OBSERVED histories do the hypotheses of the theorems hold?
   [deploy_premises]: wfD / wfM (the hypotheses of the per-deploy theorems of C01 C02 C04 C05 C15) at
   every deploy step of the history, evaluated in the model world in which the step runs.
   [c06_instance]: the history contains a deploy S and a later first rollback to S such that every
   hypothesis of C06_restore_histories holds for the steps in between ([c06_prem_b], sound by
   [c06_prem_sound]).  These are measurements for the evidence files, not verdicts. *)
From AP Require Import Base.Str Gen.Tables Model.Deploy Corr.Check_Deploy Proofs.HistoryP Proofs.WfDec Proofs.HistoryDec.
Open Scope N_scope.

Fixpoint deploy_premises (w : world) (steps : list hstep) : bool :=
  match steps with
  | [] => true
  | HEdit l :: rest => deploy_premises {| files := apply_edits (files w) l; snaps := snaps w |} rest
  | HDeploy stn confirmed adopt flt roots D _ _ _ :: rest =>
    let '(pl, (out, w')) := deploy_cmd (style_of stn) confirmed adopt flt w roots D in
    wfD_b roots D && wfM_b D (managed_for_plan w roots flt) && deploy_premises w' rest
  | HBootstrap roots D _ _ :: rest => let '(pl, w') := bootstrap_cmd w roots D in deploy_premises w' rest
  | HRollback id _ _ :: rest => let '(r, w') := rollback w id in deploy_premises w' rest
  | HRestore D _ :: rest => deploy_premises {| files := restore_cmd (files w) D; snaps := snaps w |} rest
  end.
Definition hist_deploy_premises (c : hist_case) : bool :=
  deploy_premises (Build_world (mkfs (fst c)) []) (snd c).

Definition root_eqb (a b : root) : bool :=
  str_eqb (rtarget a) (rtarget b) && path_eqb (rpath a) (rpath b) && Bool.eqb (rscan a) (rscan b).
Fixpoint roots_eqb (a b : list root) : bool :=
  match a, b with
  | [], [] => true
  | x :: a', y :: b' => root_eqb x y && roots_eqb a' b'
  | _, _ => false
  end.

Definition edits_to_hops (l : list (str * option fobj)) : option (list hop) :=
  fold_right (fun e acc =>
    match acc with
    | None => None
    | Some hs => match snd e with
                 | None => Some (HopDrift (P (fst e)) None :: hs)
                 | Some (FBytes n) => Some (HopDrift (P (fst e)) (Some n) :: hs)
                 | Some (FMan _) => None
                 end
    end) (Some []) l.

(* the steps after S up to the first rollback, as hops of the history theorem; None when a step is
   outside the theorem's shape (filter, adopt, other roots, bootstrap, evolve restore, manifest edit) *)
Fixpoint hops_until_rollback (roots : list root) (steps : list hstep) : option (list hop * nat) :=
  match steps with
  | [] => None
  | HEdit l :: rest =>
    match edits_to_hops l, hops_until_rollback roots rest with
    | Some a, Some (b, k) => Some (a ++ b, k)
    | _, _ => None
    end
  | HDeploy stn confirmed adopt flt roots' D _ _ _ :: rest =>
    if negb adopt && (match flt with None => true | Some _ => false end) && roots_eqb roots roots' then
      match hops_until_rollback roots rest with
      | Some (b, k) => Some (HopDeploy (style_of stn) confirmed D :: b, k)
      | None => None
      end
    else None
  | HRollback id ok _ :: _ => if ok then Some ([], id) else None
  | _ => None
  end.

Fixpoint c06_instance (w : world) (steps : list hstep) : bool :=
  match steps with
  | [] => false
  | HEdit l :: rest => c06_instance {| files := apply_edits (files w) l; snaps := snaps w |} rest
  | HDeploy stn confirmed adopt flt roots D _ _ _ :: rest =>
    let '(pl, (out, w')) := deploy_cmd (style_of stn) confirmed adopt flt w roots D in
    (match flt, hops_until_rollback roots rest with
     | None, Some (h, id) => Nat.eqb id (length (snaps w)) && c06_prem_b (style_of stn) confirmed adopt w roots D h
     | _, _ => false
     end) || c06_instance w' rest
  | _ => false
  end.
Definition hist_c06_instance (c : hist_case) : bool :=
  c06_instance (Build_world (mkfs (fst c)) []) (snd c).
