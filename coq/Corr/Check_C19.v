From AP Require Export Corr.Common Model.Events.
Open Scope N_scope.

Definition check_cmp (c : N * N * N * N * Z) : bool :=
  let '(af, at_, bf, bt, r) := c in Z.eqb (cmp_code (cmp_rate af at_ bf bt)) r.

(* observed: stats as 7 numbers, modules as (id,total,failures,last_seen) in printed order *)
Definition obs_score := (list N * list (str * N * N * option str))%type.

Definition stats_list (st : stats) : list N :=
  [lines_total st; lines_empty st; records_ok st; skipped_total st; skipped_io st;
   skipped_malformed st; skipped_unsupported st].

Definition score_eqb (a : score) (b : str * N * N * option str) : bool :=
  let '(id, t, f, l) := b in
  str_eqb (sc_id a) id && (sc_total a =? t) && (sc_fail a =? f) && opt_eqb str_eqb (sc_last a) l.

Fixpoint scores_eqb (a : list score) (b : list (str * N * N * option str)) : bool :=
  match a, b with
  | [], [] => true
  | x :: a', y :: b' => score_eqb x y && scores_eqb a' b'
  | _, _ => false
  end.

Definition check_score (c : list raw_line * list str * obs_score) : bool :=
  let '(ls, mods, (ost, omods)) := c in
  let '(st, ranked) := score_cmd ls mods in
  list_eqb N.eqb (stats_list st) ost && scores_eqb ranked omods.

Definition mkp (v : N) (m : option str) (sx : option bool) (at_ : str) (em : option str) (es : option bool) : parsed :=
  Build_parsed v m sx at_ em es.
