(* Corr/Check_C08.v — model vs implementation for the confirmation guard (C08; reused by C09). *)
From AP Require Export Corr.Common Model.Dispatch.
Open Scope N_scope.

(* areas of the sandbox in which a delta was observed:
   0 config repo (incl. its .git)  1 home (user-scope target roots)  2 project dir
   3 state/snapshots  4 cache  5 state/logs  6 git remotes  7 other state  8 anything else *)
Definition allowed (w : wclass) : list N :=
  match w with
  | WConfigRepo => [0] | WTargets => [1; 2] | WState => [3; 7] | WCache => [4]
  | WGit => [0; 6] | WLogs => [5; 7] | WProject => [2]
  end.

Definition areas_ok (ws : list wclass) (areas : list N) : bool :=
  forallb (fun a => existsb (fun w => existsb (N.eqb a) (allowed w)) ws) areas.

Definition refusal_lit (g : option refusal) : option str :=
  match g with Some (ConfirmRequired l) => Some l | None => None end.

(* one CLI invocation in --json mode without --yes (facts f), the same with --yes on a reset world:
   (base command, facts, refusal literal observed, command_id of the envelope, wrote with --yes,
    areas written with --yes) *)
Definition check_cli (c : str * facts * option str * str * bool * list N) : bool :=
  let '(base, f, refused, cid, wrote, areas) := c in
  opt_eqb str_eqb (refusal_lit (guard base f)) refused
  && str_eqb (cmd_id base f) cid
  && Bool.eqb (would_write base f) wrote
  && areas_ok (effects base (with_yes f)) areas
  && (match effects base f with [] => true | _ => false end).

(* one MCP call of a mutating tool with yes = false (and dry_run as given), the same with yes = true:
   (tool, dry_run, world facts, refusal literal observed, wrote with yes, areas) *)
Definition check_mcp (c : str * bool * facts * option str * bool * list N) : bool :=
  let '(tool, dry, w, refused, wrote, areas) := c in
  match mcp_base tool with
  | None => false
  | Some b =>
    let f := mcp_facts false dry w in
    opt_eqb str_eqb (refusal_lit (guard b f)) refused
    && Bool.eqb (would_write b f) wrote
    && areas_ok (effects b (with_yes f)) areas
    && (match effects b f with [] => true | _ => false end)
  end.

(* a read-only or dry-run invocation (C09): the model predicts no effects and no refusal;
   (base, facts, command_id observed) *)
Definition check_quiet (c : str * facts * str) : bool :=
  let '(base, f, cid) := c in
  str_eqb (cmd_id base f) cid
  && (match effects base f with [] => true | _ => false end)
  && (match guard base f with None => true | Some _ => false end).
