(* Corr/Check_Deploy.v — check functions for the deploy-core streams (C01, C02, C04, C05, C15, C16) *)
From AP Require Export Corr.Common Gen.Tables Model.Deploy.
Open Scope N_scope.

(* ---- literals ---- *)
Definition P (x : str) : path := comps x.          (* "/a/b/c" -> components *)
Definition B (n : N) : fobj := FBytes n.
Definition MG : fobj := FMan Garbage.
Definition MP (sv : N) (tool : str) (es : list (str * N)) : fobj := FMan (Parsed sv tool es).
Definition R (t : str) (p : str) (scan : bool) : root := Build_root t (P p) scan.
Definition DF (t : str) (p : str) (c : N) : dfile := Build_dfile t (P p) c [].

Fixpoint mkfs (l : list (str * fobj)) : fs :=
  match l with
  | [] => fun _ => None
  | (p, o) :: r => upd (mkfs r) (P p) (Some o)
  end.

(* ---- order-insensitive comparisons ---- *)
Definition subset {A} (eqb : A -> A -> bool) (a b : list A) : bool :=
  forallb (fun x => existsb (eqb x) b) a.
Definition set_eqb {A} (eqb : A -> A -> bool) (a b : list A) : bool :=
  subset eqb a b && subset eqb b a.
Definition mset_eqb {A} (eqb : A -> A -> bool) (a b : list A) : bool :=
  set_eqb eqb a b && Nat.eqb (length a) (length b).

Definition fobj_sim (a b : fobj) : bool :=
  match a, b with
  | FMan (Parsed v t e), FMan (Parsed v' t' e') => (v =? v') && str_eqb t t' && mset_eqb entry_eqb e e'
  | _, _ => fobj_eqb a b
  end.

(* observed plan change: target, op code (0 create, 1 managed update, 2 adopt update, 3 delete), path *)
Definition op_code (o : pop) : N :=
  match o with PCreate => 0 | PUpdate UManaged => 1 | PUpdate UAdopt => 2 | PDelete => 3 end.
Definition obs_change := (str * N * str)%type.
Definition change_matches (c : change) (o : obs_change) : bool :=
  let '(t, k, p) := o in str_eqb (c_target c) t && (op_code (c_op c) =? k) && path_eqb (c_path c) (P p).
Definition plan_eqb (pl : list change) (ob : list obs_change) : bool :=
  forallb (fun c => existsb (change_matches c) ob) pl &&
  forallb (fun o => existsb (fun c => change_matches c o) pl) ob &&
  Nat.eqb (length pl) (length ob).

Definition tps_eqb (m : list tpath) (ob : list (str * str)) : bool :=
  set_eqb tp_eqb (dedup_tp m) (map (fun o => (fst o, P (snd o))) ob).

Definition disk_eqb (f : fs) (ob : list (str * option fobj)) : bool :=
  forallb (fun o => opt_eqb fobj_sim (f (P (fst o))) (snd o)) ob.

(* ---- stream lib_apply: load_managed_paths_from_manifests + plan + apply_plan through avh ---- *)
(* case: roots, disk before, desired, kind(0 deploy,1 bootstrap), managed source (None = from manifests,
   Some l = explicit), observed managed (when from manifests), observed plan, observed disk after
   over the universe of paths *)
Definition lib_case :=
  (list root * list (str * fobj) * list dfile * N * option (list (str * str)) *
   list (str * str) * list obs_change * list (str * option fobj))%type.

Definition check_lib_apply (c : lib_case) : bool :=
  let '(roots, disk, D, k, msrc, obs_m, obs_pl, obs_after) := c in
  let f := mkfs disk in
  let M := match msrc with
           | None => load_managed f roots
           | Some l => map (fun o => (fst o, P (snd o))) l
           end in
  let pl := plan f D M in
  let w' := apply_plan (if k =? 0 then KDeploy else KBootstrap) (Build_world f []) roots D pl in
  (match msrc with None => tps_eqb M obs_m | Some _ => true end)
  && plan_eqb pl obs_pl && disk_eqb (files w') obs_after.

(* ---- stream cli_deploy: the real command (CLI json / human, MCP, TUI core) ---- *)
(* outcome codes: 0 applied, 1 no changes, 2 needs confirmation, 3 E_CONFIRM_REQUIRED,
   4 E_ADOPT_CONFIRM_REQUIRED *)
Definition outcome_code (o : outcome) : N :=
  match o with
  | OApplied => 0 | ONoChanges => 1 | ONeedsConfirmation => 2
  | OErr c => if str_eqb c code_confirm_required then 3
              else if str_eqb c code_adopt_required then 4 else 9
  end.
Definition style_of (n : N) : style :=
  if n =? 0 then SJsonYes else if n =? 1 then SExplicit else SInteractive.

(* a history over the real commands, from an initial disk with no snapshots; the model threads
   its own world (files + snapshot records); user edits between commands are explicit steps *)
Inductive hstep :=
| HEdit (l : list (str * option fobj))
| HDeploy (stn : N) (confirmed adopt : bool) (flt : option str) (roots : list root) (D : list dfile)
          (obs_pl : list obs_change) (obs_out : N) (obs_after : list (str * option fobj))
| HBootstrap (roots : list root) (D : list dfile) (obs_pl : list obs_change)
             (obs_after : list (str * option fobj))
| HRollback (id : nat) (obs_ok : bool) (obs_after : list (str * option fobj))
| HRestore (D : list dfile) (obs_after : list (str * option fobj)).

Definition apply_edits (f : fs) (l : list (str * option fobj)) : fs :=
  fold_left (fun g e => upd g (P (fst e)) (snd e)) l f.

Fixpoint run_hist (w : world) (steps : list hstep) : bool :=
  match steps with
  | [] => true
  | HEdit l :: rest => run_hist {| files := apply_edits (files w) l; snaps := snaps w |} rest
  | HDeploy stn confirmed adopt flt roots D obs_pl obs_out obs_after :: rest =>
    let '(pl, (out, w')) := deploy_cmd (style_of stn) confirmed adopt flt w roots D in
    plan_eqb pl obs_pl && (outcome_code out =? obs_out) && disk_eqb (files w') obs_after
    && run_hist w' rest
  | HBootstrap roots D obs_pl obs_after :: rest =>
    let '(pl, w') := bootstrap_cmd w roots D in
    plan_eqb pl obs_pl && disk_eqb (files w') obs_after && run_hist w' rest
  | HRollback id obs_ok obs_after :: rest =>
    let '(r, w') := rollback w id in
    Bool.eqb (match r with RbOk => true | RbErr => false end) obs_ok && disk_eqb (files w') obs_after
    && run_hist w' rest
  | HRestore D obs_after :: rest =>
    let f' := restore_cmd (files w) D in
    disk_eqb f' obs_after && run_hist {| files := f'; snaps := snaps w |} rest
  end.

Definition hist_case := (list (str * fobj) * list hstep)%type.
Definition check_hist (c : hist_case) : bool :=
  run_hist (Build_world (mkfs (fst c)) []) (snd c).

(* index of the first step at which model and implementation part (diagnostics) *)
Fixpoint first_bad (w : world) (i : N) (steps : list hstep) : option N :=
  match steps with
  | [] => None
  | HEdit l :: rest => first_bad {| files := apply_edits (files w) l; snaps := snaps w |} (i + 1) rest
  | HDeploy stn confirmed adopt flt roots D obs_pl obs_out obs_after :: rest =>
    let '(pl, (out, w')) := deploy_cmd (style_of stn) confirmed adopt flt w roots D in
    if plan_eqb pl obs_pl && (outcome_code out =? obs_out) && disk_eqb (files w') obs_after
    then first_bad w' (i + 1) rest else Some i
  | HBootstrap roots D obs_pl obs_after :: rest =>
    let '(pl, w') := bootstrap_cmd w roots D in
    if plan_eqb pl obs_pl && disk_eqb (files w') obs_after then first_bad w' (i + 1) rest else Some i
  | HRollback id obs_ok obs_after :: rest =>
    let '(r, w') := rollback w id in
    if Bool.eqb (match r with RbOk => true | RbErr => false end) obs_ok && disk_eqb (files w') obs_after
    then first_bad w' (i + 1) rest else Some i
  | HRestore D obs_after :: rest =>
    let f' := restore_cmd (files w) D in
    if disk_eqb f' obs_after then first_bad {| files := f'; snaps := snaps w |} (i + 1) rest else Some i
  end.
