(* Corr/Check_C13.v — model vs implementation for C13 (ids / overlay dir resolution / composition) *)
From AP Require Export Corr.Common Model.Ids Model.Overlay Model.Machine.
Open Scope N_scope.

(* ---- ids: avh fs_key / sanitize / legacy_safe.  The hash oracle is the constant function
   returning Python hashlib's digest of this id (the model queries it at this id only). ---- *)
Definition check_ids (c : str * str * (str * str * bool)) : bool :=
  let '(id, sha_hex, (okey, osan, oleg)) := c in
  (length sha_hex =? 64)%nat && forallb is_hex_lower sha_hex
  && str_eqb (fs_key (fun _ => sha_hex) id) okey
  && str_eqb (sanitize id) osan
  && Bool.eqb (legacy_safe id) oleg.

(* ---- machine id: avh machine_norm (library normalize_machine_id) ---- *)
Definition check_machine_norm (c : str * str) : bool :=
  let '(x, out) := c in str_eqb (normalize_machine_id x) out.

(* ---- machine / project id through the CLI: `--machine=<o> overlay path --scope machine|project --json`
   with the candidates the environment provides, in detect_machine_id's order; the project id is 16 hex
   digits of the hash (given by hashlib) of the basis ---- *)
Definition check_machine_engine (c : option str * list str * str * (str * str)) : bool :=
  let '(o, cands, omachine, (sha_hex, opid)) := c in
  str_eqb (engine_machine_id o cands) omachine
  && str_eqb (project_id (fun _ => sha_hex) []) opid.

(* ---- overlay dir resolution: `overlay path --json` with a given set of existing directory
   names below the scope's base ---- *)
Definition check_resolve (c : str * str * list str * str) : bool :=
  let '(id, sha_hex, present, oname) := c in
  str_eqb (overlay_dir_name (fun _ => sha_hex) (fun n => mem_str n present) id) oname.

(* ---- composition, end to end ---- *)
Definition content_eqb (a b : content) : bool :=
  match a, b with
  | Text x, Text y => str_eqb x y
  | Raw x, Raw y => list_eqb N.eqb x y
  | _, _ => false
  end.

Fixpoint ap_of (tab : list (str * str * option str)) (p t : str) : option str :=
  match tab with
  | [] => None
  | (p', t', r) :: rest => if str_eqb p p' && str_eqb t t' then r else ap_of rest p t
  end.

Fixpoint lookup_dir (n : str) (l : list (str * (ometa * files))) : option (ometa * files) :=
  match l with
  | [] => None
  | (k, v) :: r => if str_eqb k n then Some v else lookup_dir n r
  end.

(* one scope: the directories present below its base, by name *)
Definition layer_of (sha_hex : str) (id : str)
           (present : list (str * (ometa * files))) : layer :=
  let name := overlay_dir_name (fun _ => sha_hex) (fun n => mem_str n (map fst present)) id in
  match lookup_dir name present with
  | Some (m, fs) => mkLayer true m fs
  | None => no_layer
  end.

Inductive obs := OOk (t : files) | OErr (code : N).   (* 0 E_CONFIG_INVALID 1 E_OVERLAY_PATCH_APPLY_FAILED 2 other *)

Definition err_code (e : err) : N :=
  match e with EConfigInvalid => 0 | EPatchApplyFailed => 1 | EUnexpected => 2 end.

Definition tree_agrees (a b : files) : bool :=
  forallb (fun e => opt_eqb content_eqb (get (fst e) a) (get (fst e) b)) a
  && forallb (fun e => opt_eqb content_eqb (get (fst e) a) (get (fst e) b)) b.

Definition compose_case :=
  (str * str * files * list (list (str * (ometa * files))) * list (str * str * option str) * (obs * obs))%type.

Definition obs_agrees (r : res files) (o : obs) : bool :=
  match r, o with
  | Ok out, OOk t => tree_agrees out t
  | Err e, OErr code => err_code e =? code
  | _, _ => false
  end.

(* two observations of one world: the files `deploy --apply` wrote for the skill module (CLI, end to
   end) and the tree overlay::compose_module_tree left in its out dir (library level, every file) *)
Definition check_compose (c : compose_case) : bool :=
  let '(id, sha_hex, up, scopes, tab, (o_cli, o_lib)) := c in
  let r := compose (ap_of tab) up (map (layer_of sha_hex id) scopes) in
  obs_agrees r o_cli && obs_agrees r o_lib.

(* diagnostics: what the model answers (used when a case disagrees) *)
Definition model_compose (c : compose_case) : res files :=
  let '(id, sha_hex, up, scopes, tab, _) := c in
  compose (ap_of tab) up (map (layer_of sha_hex id) scopes).
