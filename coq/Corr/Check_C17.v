(* Corr/Check_C17.v — check functions for the C17 correspondence streams.
   Each takes one case (inputs + the implementation's canonicalised observation) and returns true
   iff the model of Model/Markers.v agrees. *)
From AP Require Export Corr.Common Gen.Tables Model.Markers.
Open Scope N_scope.

Definition pair_eqb (a b : str * str) : bool := str_eqb (fst a) (fst b) && str_eqb (snd a) (snd b).

(* a BTreeMap printed in key order vs the model's insertion-ordered association list (keys are
   distinct on both sides): same size and the same value under every observed key *)
Definition map_eqb (model obs : list (str * str)) : bool :=
  (N.of_nat (length model) =? N.of_nat (length obs))
  && forallb (fun kv => opt_eqb str_eqb (lookup (fst kv) model) (Some (snd kv))) obs.

(* observation of parse_module_sections: inl sections | inr error-kind
   (1 duplicate, 2 nested, 3 unterminated, 0 = an error whose message was not recognised) *)
Definition obs_parse := (list (str * str) + N)%type.

Definition err_kind (e : perr) : N :=
  match e with ErrDuplicate _ => 1 | ErrNested => 2 | ErrUnterminated _ => 3 end.

Definition parse_agrees (r : pres) (o : obs_parse) : bool :=
  match r, o with
  | POk m, inl om => map_eqb m om
  | PErr e, inr k => (k =? 0) || (k =? err_kind e)
  | _, _ => false
  end.

(* stream format: markers_format(id, content) = out *)
Definition check_format (c : str * str * str) : bool :=
  let '(id, content, out) := c in str_eqb (format_section id content) out.

(* stream parse: markers_parse(text) *)
Definition check_parse (c : str * obs_parse) : bool :=
  let '(text, o) := c in parse_agrees (parse_sections text) o.

(* stream roundtrip: parts formatted by the implementation, joined with the separator of target
   number [ti] of the table, parsed by the implementation *)
Definition nth_sep (ti : N) : str := snd (nth (N.to_nat ti) instructions_join_seps ([], [])).

Definition check_roundtrip (c : N * list (str * str) * obs_parse) : bool :=
  let '(ti, parts, o) := c in parse_agrees (parse_sections (aggregate (nth_sep ti) parts)) o.

(* stream deployed: the aggregated file a real deploy wrote for [target] from [parts] *)
Definition check_deployed (c : str * list (str * str) * str) : bool :=
  let '(target, parts, file) := c in
  match sep_of_target target with
  | Some sep => str_eqb (render_instructions sep parts) file
  | None => false
  end.

(* stream decide: the per-output decision of evolve propose observed on the binary.
   observation: 0 not drifted | 1 skipped missing | 2 skipped multi_module_output
              | 3 candidates, with (module id, bytes written into the overlay) sorted by id *)
Definition check_decide (c : str * list str * option str * (N * list (str * str))) : bool :=
  let '(desired, ids, actual, (code, cands)) := c in
  match decide desired ids actual with
  | NotDrifted => code =? 0
  | SkipMissing => code =? 1
  | SkipMultiModule => code =? 2
  | Candidates cs => (code =? 3) && map_eqb cs cands
  end.

(* stream relpath: where the captured file was written inside the overlay directory
   (type code 0 instructions, 1 prompt, 2 command, 3 skill) *)
Definition mtype_of (n : N) : mtype :=
  match n with 0 => TInstructions | 1 => TPrompt | 2 => TCommand | _ => TSkill end.

Definition check_relpath (c : N * str * str * option str * option str) : bool :=
  let '(ty, skill_name, out_path, rel, obs) := c in
  opt_eqb str_eqb (module_rel_for_output (mtype_of ty) skill_name out_path rel) obs.

(* stream naming: deployed VS Code prompt file name; cursor rule bytes *)
Definition check_vscode_name (c : str * str) : bool :=
  let '(src, deployed) := c in str_eqb (vscode_prompt_name src) deployed.

Definition check_cursor (c : str * str * str) : bool :=
  let '(desc_json, body, file) := c in str_eqb (cursor_rule (cursor_header desc_json) body) file.
