(* Props/C08.v — In JSON mode nothing is written without --yes, for every command.
   Statements only; proofs in Proofs/DispatchP.v.  PARTIAL: the theorems are about the handler
   programs of Model/Dispatch.v (guard sites, their conditions and their position relative to the
   first write, as read from the Rust handlers).  "The process really wrote nothing" is observed on
   the real binary by the correspondence check (whole-sandbox snapshots), not derivable here. *)
From AP Require Import Base.Str Model.Dispatch Proofs.DispatchP Proofs.DispatchModeP.
From AP Require Gen.Tables.
Open Scope N_scope.

(* Domain of every statement: every base command (any string; the handler table has one program
   per command of Gen.Tables.catalogue_ids that has a guard site, every other command has no guard
   and no write step) x every vector of the 24 boolean flags / world facts of [facts]. *)

(* Whenever the same invocation with --yes would write, the --json invocation without --yes is
   refused with E_CONFIRM_REQUIRED naming the id of the invoked command. *)
Theorem C08_would_write_refused : forall base f,
  f_json f = true -> f_yes f = false -> would_write base f = true ->
  guard base f = Some (ConfirmRequired (cmd_id base f)).
Proof. exact would_write_refused. Qed.
Print Assumptions C08_would_write_refused.

(* ... and nothing is written: no write step of any handler precedes its guard. *)
Theorem C08_no_effect : forall base f,
  f_json f = true -> f_yes f = false -> effects base f = [].
Proof. exact no_effect. Qed.
Print Assumptions C08_no_effect.

(* A refusal always names the id of the invoked command, and that id is a mutating id. *)
Theorem C08_refusal_names_command : forall base f lit,
  guard base f = Some (ConfirmRequired lit) ->
  lit = cmd_id base f /\ In (cmd_id base f) Gen.Tables.mutating_ids.
Proof. exact refused_id_mutating. Qed.
Print Assumptions C08_refusal_names_command.

(* The commands that can be refused are exactly MUTATING_COMMAND_IDS (= help --json
   data.mutating_commands, cross-checked on the binary), which is exactly the set of literals at
   guard call sites in the source; and all of them are catalogue commands. *)
Theorem C08_set_exact :
  (forall lit, (exists base f, In base bases /\ guard base f = Some (ConfirmRequired lit)) <->
               In lit Gen.Tables.mutating_ids) /\
  (forall lit, In lit Gen.Tables.guard_site_ids <-> In lit Gen.Tables.mutating_ids) /\
  (forall lit, In lit Gen.Tables.mutating_ids -> In lit catalogue).
Proof. exact set_exact_all. Qed.
Print Assumptions C08_set_exact.

(* The four mutating MCP tools (tool_registry.rs) run the same handlers with json = true and yes
   from the arguments: with yes = false nothing is written, and a call that would write with
   yes = true is refused naming the tool's command id. *)
Theorem C08_mcp : forall tool cid, In (tool, cid) Gen.Tables.mcp_mutating_tools ->
  exists b, mcp_base tool = Some b /\
    forall dry w,
      effects b (mcp_facts false dry w) = [] /\
      (would_write b (mcp_facts false dry w) = true ->
       guard b (mcp_facts false dry w) = Some (ConfirmRequired cid)).
Proof. exact mcp_guarded. Qed.
Print Assumptions C08_mcp.

(* The guard is the only thing the output mode changes.  A refusal happens only in --json mode
   without --yes (for ANY handler program run by the interpreter, hence for every command); the
   invocation re-issued with --yes is never refused; and with --yes the outcome, the writes and the
   reports of every handler are the same with and without --json.  (The --json --yes half is tied
   to the binary by the `wrote`/areas comparison of the cli stream; the human-mode half is a
   statement about the handler programs only: C08 says nothing about human mode, so the cli stream
   records disagreements of `--yes` runs without --json in the evidence notes, never as an alarm.) *)
Theorem C08_refusal_only_json_without_yes : forall base f lit,
  guard base f = Some (ConfirmRequired lit) -> f_json f = true /\ f_yes f = false.
Proof. exact refused_mode. Qed.
Print Assumptions C08_refusal_only_json_without_yes.

Theorem C08_retry_with_yes_not_refused : forall base f, guard base (with_yes f) = None.
Proof. exact retry_with_yes_not_refused. Qed.
Print Assumptions C08_retry_with_yes_not_refused.

Theorem C08_yes_mode_independent : forall base f b,
  f_yes f = true -> exec base (with_json b f) = exec base f.
Proof. exact yes_json_indep. Qed.
Print Assumptions C08_yes_mode_independent.

(* ---------- non-vacuity ---------- *)

(* deploy --apply --json with a pending plan: with --yes it writes targets and state, without it
   is refused naming "deploy --apply" and writes nothing *)
Example C08_nonvacuous_deploy :
  let f := f_all in
  effects (s "deploy") (with_yes f) = [WTargets; WState] /\
  would_write (s "deploy") f = true /\
  guard (s "deploy") f = Some (ConfirmRequired (s "deploy --apply")) /\
  effects (s "deploy") f = [].
Proof. vm_compute. repeat split; reflexivity. Qed.

(* conditional writers: bootstrap with nothing to install is not refused (and writes nothing) *)
Example C08_nonvacuous_bootstrap :
  let f := mkFacts true false false false false false false false false false
                   true false true false false false false false false true false true false false in
  guard (s "bootstrap") f = None /\ would_write (s "bootstrap") f = false.
Proof. vm_compute. split; reflexivity. Qed.

(* a guard placed after the first write is caught by C08_no_effect: this ill-formed program has effects *)
Example C08_misplaced_guard_has_effects :
  r_effects (run [SWrite T [WConfigRepo]; SGuard T (s "x")] f_all) = [WConfigRepo].
Proof. vm_compute. reflexivity. Qed.

Example C08_nonvacuous_mcp :
  In (s "deploy_apply", s "deploy --apply") Gen.Tables.mcp_mutating_tools /\
  would_write (s "deploy") (mcp_facts false false f_all) = true.
Proof. vm_compute. split; [left|]; reflexivity. Qed.

(* the mode theorems are not vacuous: the refused deploy is refused in exactly that mode, and the
   --yes run writes the same with and without --json *)
Example C08_nonvacuous_mode :
  guard (s "deploy") f_all = Some (ConfirmRequired (s "deploy --apply")) /\
  f_json f_all = true /\ f_yes f_all = false /\
  guard (s "deploy") (with_yes f_all) = None /\
  r_effects (exec (s "deploy") (with_json false (with_yes f_all))) = [WTargets; WState].
Proof. vm_compute. repeat split; reflexivity. Qed.
