(* Props/C19.v — The event log survives concurrent writers and arbitrary corruption.
   Only statements, each closed by [exact], with [Print Assumptions] beneath. *)
From AP Require Import Base.Str Base.Sorting Model.Events Proofs.EventsP Proofs.RankOrderP.
From Coq Require Import QArith Sorting.Sorted Sorting.Permutation.
Open Scope N_scope.

(* every line is counted exactly once; per-reason counters add up to the number of lines *)
Theorem C19_counters : forall ls : list raw_line,
  let st := read_stats ls in
  lines_total st = N.of_nat (length ls) /\
  lines_total st = lines_empty st + records_ok st + skipped_total st /\
  skipped_total st = skipped_io st + skipped_malformed st + skipped_unsupported st /\
  records_ok st = N.of_nat (length (events_of ls)).
Proof. exact counters_identity. Qed.
Print Assumptions C19_counters.

(* every well-formed supported-version record with a module id is tallied exactly once *)
Theorem C19_tally : forall evts k,
  let l := fold_left tally_step evts [] in
  tot (lookup k l) = count_evts k (fun _ => true) evts /\
  fai (lookup k l) = count_evts k (fun p => negb (evt_success p)) evts.
Proof. intros evts k. exact (tally_counts evts [] k). Qed.
Print Assumptions C19_tally.

(* the u128 cross-multiplication never wraps for u64 counters *)
Theorem C19_no_overflow : forall af at_ bf bt,
  af < two64 -> at_ < two64 -> bf < two64 -> bt < two64 ->
  cmp_rate af at_ bf bt = cmp_rate_ideal af at_ bf bt.
Proof. exact cmp_rate_no_overflow. Qed.
Print Assumptions C19_no_overflow.

(* ... and is the exact rational order on failure ratios (descending) *)
Theorem C19_exact_ratio : forall af at_ bf bt, at_ <> 0 -> bt <> 0 ->
  cmp_rate_ideal af at_ bf bt = Qcompare (rateQ bf bt) (rateQ af at_).
Proof. exact cmp_rate_ideal_exact. Qed.
Print Assumptions C19_exact_ratio.

(* ranking: a permutation, ordered by (ratio desc, zero-total last, id asc), and the only such list *)
Theorem C19_rank_perm : forall l, Permutation l (rank l).
Proof. exact rank_perm. Qed.
Theorem C19_rank_sorted : forall l,
  Forall bounded l -> StronglySorted (fun a b => score_leb_ideal a b = true) (rank l).
Proof. exact rank_sorted. Qed.
Theorem C19_rank_unique : forall l l',
  Forall bounded l -> NoDup (map sc_id l) ->
  Permutation l l' -> StronglySorted (fun a b => score_leb_ideal a b = true) l' -> rank l = l'.
Proof. exact rank_unique. Qed.
Print Assumptions C19_rank_perm.
Print Assumptions C19_rank_sorted.
Print Assumptions C19_rank_unique.

(* hence the ranking does not depend on the order in which the per-module scores arrive (the
   order of the log, of the tally map's iteration, of concurrent writers), and ranking is idempotent *)
Theorem C19_rank_order_independent : forall l l',
  Forall bounded l -> NoDup (map sc_id l) -> Permutation l l' -> rank l = rank l'.
Proof. exact rank_order_indep. Qed.
Print Assumptions C19_rank_order_independent.

Theorem C19_rank_idempotent : forall l,
  Forall bounded l -> NoDup (map sc_id l) -> rank (rank l) = rank l.
Proof. exact rank_idempotent. Qed.
Print Assumptions C19_rank_idempotent.

(* writers: any schedule of atomic whole-line appends that drains all writers yields a log that is
   a permutation of all lines (nothing lost, duplicated or split) *)
Theorem C19_interleave : forall queues sched log' q',
  run_schedule queues sched [] = (q', log') -> concat q' = [] ->
  Permutation (concat queues) log'.
Proof. exact interleave_complete. Qed.
Print Assumptions C19_interleave.

(* non-vacuity *)
Example C19_nonvacuous_rank :
  let l := [Build_score [98] 4 1 None; Build_score [97] 2 1 None; Build_score [99] 0 0 None;
            Build_score [100] 8 2 None] in
  Forall bounded l /\ NoDup (map sc_id l) /\ map sc_id (rank l) = [[97]; [98]; [100]; [99]].
Proof.
  cbv zeta. split; [|split].
  - repeat constructor.
  - repeat constructor; cbn; intuition discriminate.
  - vm_compute. reflexivity.
Qed.

Example C19_nonvacuous_interleave :
  exists q' log', run_schedule [[[1];[2]];[[3]]] [0%nat;1%nat;0%nat] [] = (q', log') /\ concat q' = []
                  /\ log' = [[1];[3];[2]].
Proof. eexists. eexists. vm_compute. repeat split. Qed.
