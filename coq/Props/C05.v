(* Props/C05.v — Deploy converges to the desired state and is idempotent.
   Statements only; proofs in Proofs/ConvergeP.v.  The theorems hold for an arbitrary world [w]
   (any initial root content, any earlier history: manifests and snapshot records are part of [w]),
   under two well-formedness hypotheses that are kept visible:
     wfD roots D : one desired entry per path, proper path components, no desired path is a
                   manifest file, roots have pairwise distinct manifest paths;
     wfM D M     : no recorded path is a manifest file, and a path is recorded under one target
                   only — the same target under which it is desired, if it is desired.
   (Two targets whose roots coincide can violate them; the harness generates such cases and judges
   them with the oracle and the model comparison.) *)
From AP Require Import Base.Str Gen.Tables Model.Deploy Model.Status Proofs.DeployP Proofs.ConvergeP Proofs.StatusCleanP Proofs.RepeatP.
Open Scope N_scope.

(* every desired output holds exactly the rendered bytes; every previously managed output that is
   no longer desired is gone *)
Theorem C05_converged : forall st confirmed adopt flt w roots D pl w',
  deploy_cmd st confirmed adopt flt w roots D = (pl, (OApplied, w')) ->
  wfD roots D -> wfM D (managed_for_plan w roots flt) ->
  (forall d, In d D -> files w' (dpath d) = Some (FBytes (dcontent d))) /\
  (forall t p, In (t, p) (managed_for_plan w roots flt) -> mem_key (t, p) D = false -> files w' p = None).
Proof. exact deploy_converged. Qed.
Print Assumptions C05_converged.

(* each affected root's manifest (it existed, or the root holds desired files, or a change fell in
   it, or a legacy-named manifest of this target still lists entries there) lists exactly that
   root's desired files (best root) with their contents; no other root gets one *)
Theorem C05_manifests_exact : forall st confirmed adopt flt w roots D pl w' i r,
  deploy_cmd st confirmed adopt flt w roots D = (pl, (OApplied, w')) ->
  wfD roots D -> wfM D (managed_for_plan w roots flt) -> nth_error roots i = Some r ->
  files w' (mf_path r) =
  if exists_at (files w) (mf_path r) || negb (is_nil (per_root roots D i r)) || root_had_changes roots pl i
     || legacy_stale (files w) r
  then Some (new_manifest r (per_root roots D i r)) else None.
Proof. exact deploy_manifests_exact. Qed.
Print Assumptions C05_manifests_exact.

(* an immediate plan is empty *)
Theorem C05_replan_empty : forall w roots D flt,
  wfD roots D -> wfM D (managed_for_plan w roots flt) ->
  let w' := apply_plan KDeploy w roots D (plan (files w) D (managed_for_plan w roots flt)) in
  plan (files w') D (managed_for_plan w' roots flt) = [].
Proof. intros w roots D flt HD HM. exact (replan_empty w roots D flt HD HM). Qed.
Print Assumptions C05_replan_empty.

(* everything recorded afterwards is desired, or its file is gone (so status has nothing missing:
   every desired file exists; nothing modified: it holds the desired bytes) *)
Theorem C05_managed_after : forall w roots D flt tp,
  wfD roots D -> wfM D (managed_for_plan w roots flt) ->
  let w' := apply_plan KDeploy w roots D (plan (files w) D (managed_for_plan w roots flt)) in
  In tp (managed_for_plan w' roots flt) -> mem_key tp D = true \/ files w' (snd tp) = None.
Proof. intros w roots D flt tp HD HM. exact (managed_after w roots D flt HD HM tp). Qed.
Print Assumptions C05_managed_after.

(* status right afterwards reports nothing missing or modified: every item it lists (over any
   universe of scanned paths) is an extra *)
Theorem C05_status_clean : forall st confirmed adopt flt w roots D pl w' universe it,
  deploy_cmd st confirmed adopt flt w roots D = (pl, (OApplied, w')) ->
  wfD roots D -> wfM D (managed_for_plan w roots flt) ->
  In it (report (files w') universe roots D) -> i_kind it = DExtra.
Proof. exact deploy_status_clean. Qed.
Print Assumptions C05_status_clean.

(* repeating the deploy changes no file and creates no new snapshot: same world, NoChanges *)
Theorem C05_idempotent : forall w roots D flt st adopt,
  wfD roots D -> wfM D (managed_for_plan w roots flt) ->
  let w' := apply_plan KDeploy w roots D (plan (files w) D (managed_for_plan w roots flt)) in
  deploy_cmd st true adopt flt w' roots D = ([], (ONoChanges, w')).
Proof. intros w roots D flt st adopt HD HM. exact (redeploy_noop w roots D flt HD HM st adopt). Qed.
Print Assumptions C05_idempotent.

(* ... and so is any number of repeats, each with its own confirmation style and --adopt flag:
   every one plans nothing, reports "no changes" and leaves the world (files, manifests, snapshot
   records) exactly as the first deploy left it.  (The harness repeats once; the n-fold form is a
   statement about the model's deploy_cmd.) *)
Theorem C05_idempotent_n : forall w roots D flt (rs : list (style * bool)),
  wfD roots D -> wfM D (managed_for_plan w roots flt) ->
  let w' := apply_plan KDeploy w roots D (plan (files w) D (managed_for_plan w roots flt)) in
  redeploys rs flt w' roots D = (map (fun _ => ([], ONoChanges)) rs, w').
Proof. intros w roots D flt rs HD HM. exact (redeploys_noop w roots D flt rs HD HM). Qed.
Print Assumptions C05_idempotent_n.

(* the defect repaired by /repo commit 4759d45 (F2), kept as a regression witness of the model:
   had the snapshot fallback counted manifest writes as managed outputs, the re-plan after a deploy
   with an empty desired state would delete the manifest.  With the repaired rule it is empty. *)
Example C05_f2_regression :
  let r := Build_root (s "codex") [s "h"; s "codex"] false in
  let pa := [s "h"; s "codex"; s "a.md"] in
  let man := FMan (Parsed 1 (s "codex") [(s "a.md", 1)]) in
  let f : fs := upd (upd (fun _ => None) (mf_path r) (Some man)) pa (Some (FBytes 1)) in
  let w := Build_world f [] in
  let w' := apply_plan KDeploy w [r] [] (plan f [] (managed_for_plan w [r] None)) in
  files w' pa = None /\ managed_for_plan w' [r] None = [] /\ plan (files w') [] (managed_for_plan w' [r] None) = [].
Proof. vm_compute. repeat split; reflexivity. Qed.

(* non-vacuity: nested roots, a stale managed file, a user file, an update and a create *)
Example C05_nonvacuous :
  let r1 := Build_root (s "codex") [s "h"; s "codex"] false in
  let r2 := Build_root (s "codex") [s "h"; s "codex"; s "prompts"] true in
  let pa := [s "h"; s "codex"; s "AGENTS.md"] in
  let pb := [s "h"; s "codex"; s "prompts"; s "b.md"] in
  let pold := [s "h"; s "codex"; s "prompts"; s "old.md"] in
  let man2 := FMan (Parsed 1 (s "codex") [(s "b.md", 1); (s "old.md", 5)]) in
  let f : fs := upd (upd (upd (fun _ => None) (mf_path r2) (Some man2)) pb (Some (FBytes 1))) pold (Some (FBytes 5)) in
  let w := Build_world f [] in
  let D := [Build_dfile (s "codex") pa 7 []; Build_dfile (s "codex") pb 2 []] in
  wfD [r1; r2] D /\ wfM D (managed_for_plan w [r1; r2] None) /\
  fst (snd (deploy_cmd SJsonYes true false None w [r1; r2] D)) = OApplied /\
  map c_op (fst (deploy_cmd SJsonYes true false None w [r1; r2] D)) = [PCreate; PUpdate UManaged; PDelete].
Proof.
  cbv zeta. split; [|split; [|split]].
  - split; [|split].
    + repeat constructor; simpl; intuition discriminate.
    + intros d [<-|[<-|[]]]; (split; [|vm_compute; reflexivity]);
        repeat constructor; try discriminate; vm_compute; intuition discriminate.
    + repeat constructor; simpl; intuition discriminate.
  - assert (E : managed_for_plan
                  {| files := upd (upd (upd (fun _ => None) (mf_path {| rtarget := s "codex"; rpath := [s "h"; s "codex"; s "prompts"]; rscan := true |})
                       (Some (FMan (Parsed 1 (s "codex") [(s "b.md", 1); (s "old.md", 5)]))))
                       [s "h"; s "codex"; s "prompts"; s "b.md"] (Some (FBytes 1)))
                       [s "h"; s "codex"; s "prompts"; s "old.md"] (Some (FBytes 5)); snaps := [] |}
                  [{| rtarget := s "codex"; rpath := [s "h"; s "codex"]; rscan := false |};
                   {| rtarget := s "codex"; rpath := [s "h"; s "codex"; s "prompts"]; rscan := true |}] None
                = [(s "codex", [s "h"; s "codex"; s "prompts"; s "b.md"]); (s "codex", [s "h"; s "codex"; s "prompts"; s "old.md"])])
      by (vm_compute; reflexivity).
    rewrite E. split; [|split].
    + intros t p [H|[H|[]]]; inversion H; subst; vm_compute; reflexivity.
    + intros t p d [H|[H|[]]] [<-|[<-|[]]] Hp; inversion H; subst; try reflexivity; try (vm_compute in Hp; discriminate).
    + intros t1 t2 p [H1|[H1|[]]] [H2|[H2|[]]]; inversion H1; inversion H2; subst; reflexivity.
  - vm_compute. reflexivity.
  - vm_compute. reflexivity.
Qed.

(* three repeats with different styles on the converged F2 world: each plans nothing *)
Example C05_idempotent_n_nonvacuous :
  let r := Build_root (s "codex") [s "h"; s "codex"] false in
  let pa := [s "h"; s "codex"; s "a.md"] in
  let man := FMan (Parsed 1 (s "codex") [(s "a.md", 1)]) in
  let f : fs := upd (upd (fun _ => None) (mf_path r) (Some man)) pa (Some (FBytes 1)) in
  let w := Build_world f [] in
  let w' := apply_plan KDeploy w [r] [] (plan f [] (managed_for_plan w [r] None)) in
  fst (redeploys [(SJsonYes, false); (SExplicit, true); (SInteractive, false)] None w' [r] [])
  = [([], ONoChanges); ([], ONoChanges); ([], ONoChanges)].
Proof. vm_compute. reflexivity. Qed.
